import Percival.Proofs.Numeral
import Percival.Model.Strtod
/-! Helper lemmas for C16: the `strtod` scan computes the longest floating numeral of `Spec.FloatNumeral`. -/
namespace Percival.Proofs.FloatNumeral
open Percival.Spec.Numeral Percival.Spec.FloatNumeral Percival.Model.Strto Percival.Model.Strtod
open Percival.Proofs.Numeral

/-! ### digits -/

theorem digitsVal_append (radix : Nat) : ∀ (a b : List UInt8) (acc : Nat),
    digitsVal radix acc (a ++ b) = (digitsVal radix acc a).bind (fun m => digitsVal radix m b) := by
  intro a
  induction a with
  | nil => intro b acc; simp [digitsVal]
  | cons c cs ih =>
    intro b acc
    simp only [List.cons_append, digitsVal]
    cases digitOf radix c with
    | none => simp
    | some d => simp only; exact ih b _

theorem scanDigits_append (radix : Nat) : ∀ (a b : List UInt8) (acc cnt acc' : Nat),
    digitsVal radix acc a = some acc' →
    scanDigits radix acc cnt (a ++ b) = scanDigits radix acc' (cnt + a.length) b := by
  intro a
  induction a with
  | nil => intro b acc cnt acc' h; simp [digitsVal] at h; subst h; simp
  | cons c cs ih =>
    intro b acc cnt acc' h
    simp only [digitsVal] at h
    cases hd : digitOf radix c with
    | none => simp [hd] at h
    | some d =>
      simp only [hd] at h
      simp only [List.cons_append, scanDigits, hd, List.length_cons]
      rw [ih b _ _ _ h]
      congr 1; omega

theorem scanDigits_stop {radix : Nat} {c : UInt8} (hc : digitOf radix c = none) (acc cnt : Nat) (t : List UInt8) :
    scanDigits radix acc cnt (c :: t) = (acc, cnt, c :: t) := by
  simp [scanDigits, hc]

theorem scanDigits_nil (radix acc cnt : Nat) : scanDigits radix acc cnt [] = (acc, cnt, []) := rfl

/-- with `cnt = 0` the count is the number of digits taken -/
theorem scanDigits_zero (radix : Nat) (s : List UInt8) (acc : Nat) :
    ∃ ds rest acc', s = ds ++ rest ∧ scanDigits radix acc 0 s = (acc', ds.length, rest) ∧
      digitsVal radix acc ds = some acc' ∧ (∀ c t, rest = c :: t → digitOf radix c = none) := by
  obtain ⟨ds, rest, acc', h1, h2, h3, h4⟩ := scanDigits_spec radix s acc 0
  exact ⟨ds, rest, acc', h1, by simpa using h2, h3, h4⟩

/-! ### characters -/

/-- facts about single bytes are settled by trying all 256 -/
theorem u8_forall {p : UInt8 → Prop} (h : ∀ n, n < 256 → p (UInt8.ofNat n)) : ∀ c, p c := by
  intro c
  have := h c.toNat c.toNat_lt
  simpa using this

theorem marker_e : ∀ c : UInt8, lower c = 0x65 → digitOf 10 c = none ∧ c ≠ 0x2e :=
  u8_forall (by decide +kernel)

theorem marker_p : ∀ c : UInt8, lower c = 0x70 → digitOf 16 c = none ∧ c ≠ 0x2e :=
  u8_forall (by decide +kernel)

theorem dot_not_digit : digitOf 10 0x2e = none ∧ digitOf 16 0x2e = none := by decide

/-! ### exponent part -/

theorem dec_digit_alnum {c : UInt8} {d : Nat} (h : digitOf 10 c = some d) : Alnum c :=
  digitVal_some_alnum (digitOf_some_digitVal h)

/-- completeness / maximality of `scanExp` -/
theorem scanExp_of_part (marker : UInt8) (x : ExpPart) (rest : List UInt8) (ev : Nat)
    (hm : lower x.mark = marker) (hne : x.digits ≠ []) (hev : digitsVal 10 0 x.digits = some ev) :
    ∃ ex n, scanExp marker (x.bytes ++ rest) = (ex, n) ∧ x.bytes.length ≤ n ∧
      (x.bytes.length = n → ex = x.sign.apply ev) := by
  obtain ⟨c, cs, hcs⟩ := List.exists_cons_of_ne_nil hne
  have hc : Alnum c := by
    cases hd : digitOf 10 c with
    | none => rw [hcs] at hev; simp [digitsVal, hd] at hev
    | some d => exact dec_digit_alnum hd
  obtain ⟨hsign, _⟩ := scanTail_of_sign x.sign (x.digits ++ rest) c (cs ++ rest) (by rw [hcs]; rfl) hc
  obtain ⟨acc', k, r3, h1, h2⟩ := scanDigits_prefix 10 x.digits rest 0 0 ev hev
  have hpos : 0 + x.digits.length + k ≠ 0 := by
    have : 0 < x.digits.length := List.length_pos_iff.mpr hne
    omega
  refine ⟨(if decide (x.sign = .minus) = true then -(acc' : Int) else (acc' : Int)),
    1 + x.sign.bytes.length + (0 + x.digits.length + k), ?_, ?_, ?_⟩
  · simp only [ExpPart.bytes, List.cons_append, scanExp, hm, if_true, List.append_assoc, hsign, h1, hpos, if_false]
  · simp only [ExpPart.bytes, List.length_cons, List.length_append]; omega
  · simp only [ExpPart.bytes, List.length_cons, List.length_append]
    intro hl
    have : acc' = ev := h2 (by omega)
    subst this
    cases x.sign <;> simp [Sign.apply]

/-- soundness of `scanExp` -/
theorem scanExp_sound (marker : UInt8) (r : List UInt8) :
    (scanExp marker r = (0, 0)) ∨
    ∃ (x : ExpPart) (rest : List UInt8) (ev : Nat), r = x.bytes ++ rest ∧ lower x.mark = marker ∧ x.digits ≠ [] ∧
      digitsVal 10 0 x.digits = some ev ∧ scanExp marker r = (x.sign.apply ev, x.bytes.length) := by
  cases r with
  | nil => left; rfl
  | cons c t =>
    by_cases hm : lower c = marker
    · obtain ⟨sg, hsign, hs1⟩ := scanSign_spec t
      obtain ⟨ds, rest, ev, hs2, hd, hval, _⟩ := scanDigits_zero 10 (t.drop sg.bytes.length) 0
      by_cases hne : ds.length = 0
      · left; simp only [scanExp, hm, if_true, hsign, hd, hne]
      · right
        refine ⟨⟨c, sg, ds⟩, rest, ev, ?_, hm, ?_, hval, ?_⟩
        · simp only [ExpPart.bytes, List.cons_append, List.append_assoc]; rw [← hs2, ← hs1]
        · intro h0; subst h0; simp at hne
        · simp only [scanExp, hm, if_true, hsign, hd, hne, if_false, ExpPart.bytes, List.length_cons, List.length_append]
          congr 1
          · cases sg <;> simp [Sign.apply]
          · omega
    · left; simp [scanExp, hm]


/-! ### significand -/

theorem scanFrac_nodot {radix m1 : Nat} {c : UInt8} (hc : c ≠ 0x2e) (t : List UInt8) :
    scanFrac radix m1 (c :: t) = (m1, 0, 0, c :: t) := by
  unfold scanFrac
  split
  · rename_i heq; injection heq with h1 _; exact absurd h1 hc
  · rfl

theorem scanFrac_nil (radix m1 : Nat) : scanFrac radix m1 [] = (m1, 0, 0, []) := rfl

theorem scanFrac_dot (radix m1 : Nat) (t : List UInt8) :
    scanFrac radix m1 (0x2e :: t) = ((scanDigits radix m1 0 t).1, (scanDigits radix m1 0 t).2.1, 1, (scanDigits radix m1 0 t).2.2) := by
  simp [scanFrac]

/-- whatever follows: either no point was taken and nothing changed, or one was -/
theorem scanFrac_cases (radix m1 : Nat) (r1 : List UInt8) :
    scanFrac radix m1 r1 = (m1, 0, 0, r1) ∨ ∃ m2 n2 r2, scanFrac radix m1 r1 = (m2, n2, 1, r2) := by
  unfold scanFrac
  split
  · right; exact ⟨_, _, _, rfl⟩
  · left; rfl

theorem scanExp_zero {marker : UInt8} {r : List UInt8} {ex : Int} (h : scanExp marker r = (ex, 0)) : ex = 0 := by
  rcases scanExp_sound marker r with h0 | ⟨x, rest, ev, _, _, _, _, h1⟩
  · rw [h0] at h; injection h with h _; exact h.symm
  · rw [h1] at h; injection h with _ h2
    simp [ExpPart.bytes] at h2

/-- the tail of `scanMantExp` from the end of the integer digits on -/
def afterIp (radix : Nat) (marker : UInt8) (m1 n1 : Nat) (r1 : List UInt8) : Option (Nat × Nat × Int × Nat) :=
  let (m2, n2, ndot, r2) := scanFrac radix m1 r1
  if n1 + n2 = 0 then none
  else
    let (ex, nexp) := scanExp marker r2
    some (m2, n2, ex, n1 + ndot + n2 + nexp)

theorem scanMantExp_eq (radix : Nat) (marker : UInt8) (s : List UInt8) :
    scanMantExp radix marker s =
      afterIp radix marker (scanDigits radix 0 0 s).1 (scanDigits radix 0 0 s).2.1 (scanDigits radix 0 0 s).2.2 := by
  rcases h : scanDigits radix 0 0 s with ⟨m1, n1, r1⟩
  simp only [scanMantExp, afterIp, h]

/-- after at least one integer digit, any continuation is at least as long as stopping here -/
theorem afterIp_any (radix : Nat) (marker : UInt8) (m1 n1 : Nat) (r1 : List UInt8) (hn : n1 ≠ 0) :
    ∃ sig2 nf2 ex2 n, afterIp radix marker m1 n1 r1 = some (sig2, nf2, ex2, n) ∧ n1 ≤ n ∧
      (n1 = n → sig2 = m1 ∧ nf2 = 0 ∧ ex2 = 0) := by
  rcases scanFrac_cases radix m1 r1 with h | ⟨m2, n2, r2, h⟩
  · rcases he : scanExp marker r1 with ⟨ex, nexp⟩
    refine ⟨m1, 0, ex, n1 + 0 + 0 + nexp, ?_, by omega, ?_⟩
    · have : ¬ (n1 + 0 = 0) := by omega
      simp only [afterIp, h, he, this, if_false]
    · intro hl
      have : nexp = 0 := by omega
      subst this
      exact ⟨rfl, rfl, scanExp_zero he⟩
  · rcases he : scanExp marker r2 with ⟨ex, nexp⟩
    refine ⟨m2, n2, ex, n1 + 1 + n2 + nexp, ?_, by omega, fun hl => by omega⟩
    have : ¬ (n1 + n2 = 0) := by omega
    simp only [afterIp, h, he, this, if_false]


theorem stop_at_exp {radix : Nat} {marker : UInt8} {x : ExpPart}
    (hmark : ∀ c, lower c = marker → digitOf radix c = none ∧ c ≠ 0x2e) (hxm : lower x.mark = marker)
    (acc cnt : Nat) (rest : List UInt8) :
    scanDigits radix acc cnt (x.bytes ++ rest) = (acc, cnt, x.bytes ++ rest) ∧
    ∀ m1, scanFrac radix m1 (x.bytes ++ rest) = (m1, 0, 0, x.bytes ++ rest) := by
  obtain ⟨h1, h2⟩ := hmark x.mark hxm
  have hb2 : x.bytes ++ rest = x.mark :: (x.sign.bytes ++ x.digits ++ rest) := by
    simp [ExpPart.bytes, List.append_assoc]
  rw [hb2]
  exact ⟨scanDigits_stop h1 _ _ _, fun m1 => scanFrac_nodot h2 _⟩

/-- completeness / maximality of `scanMantExp` -/
theorem scanMant_of_mant (radix : Nat) (marker : UInt8) (m : Mant) (rest : List UInt8) (sig nfrac : Nat) (e : Int)
    (hmark : ∀ c, lower c = marker → digitOf radix c = none ∧ c ≠ 0x2e)
    (hdot : digitOf radix 0x2e = none)
    (h : m.Denotes radix marker sig nfrac e) :
    ∃ sig2 nf2 ex2 n, scanMantExp radix marker (m.bytes ++ rest) = some (sig2, nf2, ex2, n) ∧
      m.bytes.length ≤ n ∧ (m.bytes.length = n → sig2 = sig ∧ nf2 = nfrac ∧ ex2 = e) := by
  obtain ⟨ip, dot, fp, exp⟩ := m
  obtain ⟨hdf, hne, hsig, hnf, hexp⟩ := h
  simp only at hdf hne hsig hnf hexp
  rw [digitsVal_append] at hsig
  cases hip : digitsVal radix 0 ip with
  | none => simp [hip] at hsig
  | some m1 =>
  simp only [hip, Option.bind_some] at hsig
  have hlen : 0 < ip.length + fp.length := by
    have := List.length_pos_iff.mpr hne
    simpa using this
  rw [scanMantExp_eq]
  cases dot with
  | true =>
    -- ip . fp [exp]
    have hb : Mant.bytes ⟨ip, true, fp, exp⟩ ++ rest = ip ++ (0x2e :: (fp ++ (ExpPart.optBytes exp ++ rest))) := by
      simp [Mant.bytes, List.append_assoc]
    rw [hb, scanDigits_append radix ip _ 0 0 m1 hip, scanDigits_stop hdot]
    simp only [afterIp, scanFrac_dot, scanDigits_append radix fp _ m1 0 sig hsig]
    cases exp with
    | none =>
      simp only [ExpPart.optBytes, List.nil_append] at hexp ⊢
      obtain ⟨acc', k, r2, h1, h2⟩ := scanDigits_prefix radix [] rest sig (0 + fp.length) sig rfl
      simp only [List.nil_append, List.length_nil, Nat.add_zero] at h1
      rcases he : scanExp marker r2 with ⟨ex, nexp⟩
      have hnz : ¬ (0 + ip.length + (0 + fp.length + k) = 0) := by omega
      refine ⟨acc', 0 + fp.length + k, ex, 0 + ip.length + 1 + (0 + fp.length + k) + nexp, ?_, ?_, ?_⟩
      · simp only [h1, he, hnz, if_false]
      · simp only [Mant.bytes, ExpPart.optBytes, List.length_append, List.length_cons, List.length_nil, if_true]; omega
      · simp only [Mant.bytes, ExpPart.optBytes, List.length_append, List.length_cons, List.length_nil, if_true]
        intro hl
        have hk : k = 0 := by omega
        have hx : nexp = 0 := by omega
        subst hk hx
        exact ⟨h2 rfl, by omega, by rw [scanExp_zero he, hexp]⟩
    | some x =>
      obtain ⟨hxm, hxne, ev, hev, hee⟩ := hexp
      obtain ⟨hstop, _⟩ := stop_at_exp hmark hxm sig (0 + fp.length) rest
      obtain ⟨ex, nexp, hse, hle, heq⟩ := scanExp_of_part marker x rest ev hxm hxne hev
      have hnz : ¬ (0 + ip.length + (0 + fp.length) = 0) := by omega
      refine ⟨sig, 0 + fp.length, ex, 0 + ip.length + 1 + (0 + fp.length) + nexp, ?_, ?_, ?_⟩
      · simp only [ExpPart.optBytes, hstop, hse, hnz, if_false]
      · simp only [Mant.bytes, ExpPart.optBytes, List.length_append, List.length_cons, List.length_nil, if_true]; omega
      · simp only [Mant.bytes, ExpPart.optBytes, List.length_append, List.length_cons, List.length_nil, if_true]
        intro hl
        exact ⟨trivial, by omega, by rw [heq (by omega), hee]⟩
  | false =>
    have hfp : fp = [] := hdf rfl
    subst hfp
    simp only [digitsVal, Option.some.injEq] at hsig
    subst hsig
    have hipn : ip.length ≠ 0 := by simp at hlen; omega
    cases exp with
    | none =>
      have hb : Mant.bytes ⟨ip, false, [], none⟩ ++ rest = ip ++ rest := by simp [Mant.bytes, ExpPart.optBytes]
      rw [hb]
      obtain ⟨acc', k, r1, h1, h2⟩ := scanDigits_prefix radix ip rest 0 0 m1 hip
      rw [h1]
      obtain ⟨sig2, nf2, ex2, n, ha, hle, heq⟩ := afterIp_any radix marker acc' (0 + ip.length + k) r1 (by omega)
      refine ⟨sig2, nf2, ex2, n, ha, ?_, ?_⟩
      · simp only [Mant.bytes, ExpPart.optBytes, List.length_append, List.length_nil, Bool.false_eq_true, if_false]; omega
      · simp only [Mant.bytes, ExpPart.optBytes, List.length_append, List.length_nil, Bool.false_eq_true, if_false]
        intro hl
        have hk : k = 0 := by omega
        subst hk
        obtain ⟨a, b, c⟩ := heq (by omega)
        exact ⟨by rw [a, h2 rfl], by rw [b, hnf]; rfl, by rw [c, hexp]⟩
    | some x =>
      obtain ⟨hxm, hxne, ev, hev, hee⟩ := hexp
      obtain ⟨hstop, hfrac⟩ := stop_at_exp hmark hxm m1 (0 + ip.length) rest
      have hb : Mant.bytes ⟨ip, false, [], some x⟩ ++ rest = ip ++ (x.bytes ++ rest) := by
        simp [Mant.bytes, ExpPart.optBytes, List.append_assoc]
      obtain ⟨ex, nexp, hse, hle, heq⟩ := scanExp_of_part marker x rest ev hxm hxne hev
      rw [hb, scanDigits_append radix ip _ 0 0 m1 hip, hstop]
      have hnz : ¬ (0 + ip.length + 0 = 0) := by omega
      refine ⟨m1, 0, ex, 0 + ip.length + 0 + 0 + nexp, ?_, ?_, ?_⟩
      · simp only [afterIp, hfrac, hse, hnz, if_false]
      · simp only [Mant.bytes, ExpPart.optBytes, List.length_append, List.length_nil, Bool.false_eq_true, if_false]; omega
      · simp only [Mant.bytes, ExpPart.optBytes, List.length_append, List.length_nil, Bool.false_eq_true, if_false]
        intro hl
        exact ⟨trivial, by rw [hnf]; rfl, by rw [heq (by omega), hee]⟩


/-- soundness of `scanMantExp` -/
theorem scanMant_sound (radix : Nat) (marker : UInt8) (t : List UInt8) (sig nf : Nat) (ex : Int) (n : Nat)
    (h : scanMantExp radix marker t = some (sig, nf, ex, n)) :
    ∃ (m : Mant) (rest : List UInt8), t = m.bytes ++ rest ∧ m.Denotes radix marker sig nf ex ∧ n = m.bytes.length := by
  rw [scanMantExp_eq] at h
  obtain ⟨ds1, r1, m1, ht, hd1, hv1, _⟩ := scanDigits_zero radix t 0
  rw [hd1] at h
  simp only [afterIp] at h
  -- the fraction
  have hfrac : ∃ (dot : Bool) (ds2 r2 : List UInt8) (m2 : Nat),
      scanFrac radix m1 r1 = (m2, ds2.length, (if dot then 1 else 0), r2) ∧
      r1 = (if dot then [0x2e] else []) ++ ds2 ++ r2 ∧ digitsVal radix m1 ds2 = some m2 ∧ (dot = false → ds2 = []) := by
    cases r1 with
    | nil => exact ⟨false, [], [], m1, rfl, rfl, rfl, fun _ => rfl⟩
    | cons c u =>
      by_cases hc : c = 0x2e
      · subst hc
        obtain ⟨ds2, r2, m2, hu, hd2, hv2, _⟩ := scanDigits_zero radix u m1
        exact ⟨true, ds2, r2, m2, by rw [scanFrac_dot, hd2]; rfl, by simp [hu], hv2, fun h => by cases h⟩
      · exact ⟨false, [], c :: u, m1, scanFrac_nodot hc u, rfl, rfl, fun _ => rfl⟩
  obtain ⟨dot, ds2, r2, m2, hf, hr1, hv2, hnd⟩ := hfrac
  rw [hf] at h
  simp only at h
  split at h
  · cases h
  · rename_i hnz
    have hsigv : digitsVal radix 0 (ds1 ++ ds2) = some m2 := by
      rw [digitsVal_append, hv1]; exact hv2
    have hne : ds1 ++ ds2 ≠ [] := by
      intro h0
      have h1 : (ds1 ++ ds2).length = 0 := by rw [h0]; rfl
      rw [List.length_append] at h1
      exact hnz (by omega)
    rcases scanExp_sound marker r2 with he | ⟨x, rest, ev, hr2, hxm, hxne, hev, he⟩
    · rw [he] at h
      simp only [Option.some.injEq, Prod.mk.injEq] at h
      obtain ⟨rfl, rfl, rfl, rfl⟩ := h
      refine ⟨⟨ds1, dot, ds2, none⟩, r2, ?_, ⟨hnd, hne, hsigv, rfl, rfl⟩, ?_⟩
      · rw [ht, hr1]; simp [Mant.bytes, ExpPart.optBytes, List.append_assoc]
      · cases dot <;> simp [Mant.bytes, ExpPart.optBytes] <;> omega
    · rw [he] at h
      simp only [Option.some.injEq, Prod.mk.injEq] at h
      obtain ⟨rfl, rfl, rfl, rfl⟩ := h
      refine ⟨⟨ds1, dot, ds2, some x⟩, rest, ?_, ⟨hnd, hne, hsigv, rfl, hxm, hxne, ev, hev, rfl⟩, ?_⟩
      · rw [ht, hr1, hr2]; simp [Mant.bytes, ExpPart.optBytes, List.append_assoc]
      · cases dot <;> simp [Mant.bytes, ExpPart.optBytes] <;> omega


/-! ### inf / nan -/

theorem stripCI_sound : ∀ (pat s r : List UInt8), stripCI pat s = some r →
    ∃ txt, s = txt ++ r ∧ txt.map lower = pat := by
  intro pat
  induction pat with
  | nil => intro s r h; simp [stripCI] at h; exact ⟨[], by simp [h], rfl⟩
  | cons p ps ih =>
    intro s r h
    cases s with
    | nil => simp [stripCI] at h
    | cons c cs =>
      simp only [stripCI] at h
      split at h
      · rename_i hc
        obtain ⟨txt, h1, h2⟩ := ih cs r h
        exact ⟨c :: txt, by simp [h1], by simp [hc, h2]⟩
      · cases h

theorem stripCI_of : ∀ (pat txt r : List UInt8), txt.map lower = pat → stripCI pat (txt ++ r) = some r := by
  intro pat
  induction pat with
  | nil => intro txt r h; simp at h; subst h; simp [stripCI]
  | cons p ps ih =>
    intro txt r h
    cases txt with
    | nil => simp at h
    | cons c cs =>
      simp only [List.map_cons, List.cons.injEq] at h
      simp only [List.cons_append, stripCI, h.1, if_true]
      exact ih cs r h.2

theorem stripCI_head_ne {p : UInt8} {ps : List UInt8} {c : UInt8} {cs : List UInt8} (h : lower c ≠ p) :
    stripCI (p :: ps) (c :: cs) = none := by
  simp [stripCI, h]

theorem close_not_nchar : isNChar 0x29 = false := by decide

theorem nanParen_of (cs rest : List UInt8) (hcs : ∀ c ∈ cs, isNChar c = true) :
    nanParen (0x28 :: (cs ++ 0x29 :: rest)) = cs.length + 2 := by
  obtain ⟨h1, h2⟩ := takeWhile_append_stop cs 0x29 rest hcs close_not_nchar
  simp [nanParen, h1, h2]

theorem nanParen_sound (r : List UInt8) :
    nanParen r = 0 ∨ ∃ cs rest, r = 0x28 :: (cs ++ 0x29 :: rest) ∧ (∀ c ∈ cs, isNChar c = true) ∧ nanParen r = cs.length + 2 := by
  unfold nanParen
  split
  · rename_i t
    split
    · rename_i rest heq
      right
      refine ⟨t.takeWhile isNChar, rest, ?_, takeWhile_all t, rfl⟩
      rw [← heq, List.takeWhile_append_dropWhile]
    · left; rfl
  · left; rfl


/-! ### soundness of the four scans -/

theorem map_lower_length {txt pat : List UInt8} (h : txt.map lower = pat) : txt.length = pat.length := by
  rw [← h]; simp

theorem scanInf_sound (s : List UInt8) (sub : Subject) (n : Nat) (h : scanInf s = some (sub, n)) :
    ∃ (b : Body) (rest : List UInt8), s = b.bytes ++ rest ∧ b.Denotes sub ∧ n = b.bytes.length := by
  unfold scanInf at h
  split at h
  · rename_i r hr
    obtain ⟨txt, hs, ht⟩ := stripCI_sound _ _ _ hr
    split at h
    · rename_i r2 hr2
      obtain ⟨txt2, hs2, ht2⟩ := stripCI_sound _ _ _ hr2
      injection h with h; injection h with h1 h2; subst h1 h2
      refine ⟨.inf (txt ++ txt2), r2, by simp [Body.bytes, hs, hs2], ⟨Or.inr (by simp [ht, ht2]), rfl⟩, ?_⟩
      simp [Body.bytes, map_lower_length ht, map_lower_length ht2]
    · injection h with h; injection h with h1 h2; subst h1 h2
      exact ⟨.inf txt, r, by simp [Body.bytes, hs], ⟨Or.inl ht, rfl⟩, by simp [Body.bytes, map_lower_length ht]⟩
  · cases h

theorem scanNan_sound (s : List UInt8) (sub : Subject) (n : Nat) (h : scanNan s = some (sub, n)) :
    ∃ (b : Body) (rest : List UInt8), s = b.bytes ++ rest ∧ b.Denotes sub ∧ n = b.bytes.length := by
  unfold scanNan at h
  split at h
  · rename_i r hr
    obtain ⟨txt, hs, ht⟩ := stripCI_sound _ _ _ hr
    injection h with h; injection h with h1 h2; subst h1 h2
    rcases nanParen_sound r with h0 | ⟨cs, rest, hr2, hcs, hk⟩
    · refine ⟨.nan txt none, r, by simp [Body.bytes, hs], ⟨ht, (fun _ h => by cases h), rfl⟩, ?_⟩
      simp [Body.bytes, map_lower_length ht, h0]
    · refine ⟨.nan txt (some cs), rest, by simp [Body.bytes, hs, hr2], ⟨ht, (fun cs' h => by injection h with h; subst h; exact hcs), rfl⟩, ?_⟩
      simp [Body.bytes, map_lower_length ht, hk]
  · cases h

theorem scanHex_sound (s : List UInt8) (sub : Subject) (n : Nat) (h : scanHex s = some (sub, n)) :
    ∃ (b : Body) (rest : List UInt8), s = b.bytes ++ rest ∧ b.Denotes sub ∧ n = b.bytes.length := by
  unfold scanHex at h
  split at h
  · rename_i x t
    split at h
    · rename_i hx
      split at h
      · rename_i sig nf ex k hm
        obtain ⟨m, rest, ht, hden, hk⟩ := scanMant_sound 16 0x70 t sig nf ex k hm
        injection h with h; injection h with h1 h2; subst h1 h2
        have hx' : x = 0x78 ∨ x = 0x58 := by simpa [isX] using hx
        exact ⟨.hex x m, rest, by simp [Body.bytes, ht], ⟨hx', sig, nf, ex, hden, rfl⟩, by simp [Body.bytes, hk]; omega⟩
      · cases h
    · cases h
  · cases h

theorem scanDec_sound (s : List UInt8) (sub : Subject) (n : Nat) (h : scanDec s = some (sub, n)) :
    ∃ (b : Body) (rest : List UInt8), s = b.bytes ++ rest ∧ b.Denotes sub ∧ n = b.bytes.length := by
  unfold scanDec at h
  split at h
  · rename_i sig nf ex k hm
    obtain ⟨m, rest, ht, hden, hk⟩ := scanMant_sound 10 0x65 s sig nf ex k hm
    injection h with h; injection h with h1 h2; subst h1 h2
    exact ⟨.dec m, rest, by simp [Body.bytes, ht], ⟨sig, nf, ex, hden, rfl⟩, by simp [Body.bytes, hk]⟩
  · cases h

theorem scanBody_sound (s : List UInt8) (sub : Subject) (n : Nat) (h : scanBody s = some (sub, n)) :
    ∃ (b : Body) (rest : List UInt8), s = b.bytes ++ rest ∧ b.Denotes sub ∧ n = b.bytes.length := by
  unfold scanBody at h
  split at h
  · rename_i r hr; injection h with h; subst h; exact scanInf_sound s sub n hr
  · split at h
    · rename_i r hr; injection h with h; subst h; exact scanNan_sound s sub n hr
    · split at h
      · rename_i r hr; injection h with h; subst h; exact scanHex_sound s sub n hr
      · exact scanDec_sound s sub n h


/-! ### maximality of the four scans -/

/-- a byte that can start a decimal significand cannot start `inf` or `nan` -/
theorem dec_head_not_in : ∀ c : UInt8, ((digitOf 10 c).isSome = true ∨ c = 0x2e) → lower c ≠ 0x69 ∧ lower c ≠ 0x6e :=
  u8_forall (by decide +kernel)

theorem n_not_i : ∀ c : UInt8, lower c = 0x6e → lower c ≠ 0x69 := u8_forall (by decide +kernel)

theorem isX_facts : ∀ x : UInt8, isX x = true → digitOf 10 x = none ∧ x ≠ 0x2e ∧ lower x ≠ 0x65 :=
  u8_forall (by decide +kernel)

theorem scanInf_none_of_head {c : UInt8} (t : List UInt8) (h : lower c ≠ 0x69) : scanInf (c :: t) = none := by
  simp [scanInf, stripCI_head_ne h]

theorem scanNan_none_of_head {c : UInt8} (t : List UInt8) (h : lower c ≠ 0x6e) : scanNan (c :: t) = none := by
  simp [scanNan, stripCI_head_ne h]

theorem scanInf_of (txt rest : List UInt8)
    (h : txt.map lower = [0x69, 0x6e, 0x66] ∨ txt.map lower = [0x69, 0x6e, 0x66, 0x69, 0x6e, 0x69, 0x74, 0x79]) :
    ∃ n, scanInf (txt ++ rest) = some (.inf, n) ∧ txt.length ≤ n := by
  rcases h with h | h
  · have hl := map_lower_length h
    simp only [scanInf, stripCI_of _ txt rest h]
    split
    · exact ⟨8, rfl, by simp at hl; omega⟩
    · exact ⟨3, rfl, by simp at hl; omega⟩
  · have hl := map_lower_length h
    have h1 : (txt.take 3).map lower = [0x69, 0x6e, 0x66] := by
      rw [List.map_take, h]; rfl
    have h2 : (txt.drop 3).map lower = [0x69, 0x6e, 0x69, 0x74, 0x79] := by
      rw [List.map_drop, h]; rfl
    have hs : txt ++ rest = txt.take 3 ++ (txt.drop 3 ++ rest) := by
      rw [← List.append_assoc, List.take_append_drop]
    rw [hs]
    simp only [scanInf, stripCI_of _ _ _ h1, stripCI_of _ _ _ h2]
    exact ⟨8, rfl, by simp at hl; omega⟩

theorem scanNan_of (txt : List UInt8) (paren : Option (List UInt8)) (rest : List UInt8)
    (ht : txt.map lower = [0x6e, 0x61, 0x6e]) (hp : ∀ cs, paren = some cs → ∀ c ∈ cs, isNChar c = true) :
    ∃ n, scanNan ((Body.nan txt paren).bytes ++ rest) = some (.nan, n) ∧ (Body.nan txt paren).bytes.length ≤ n := by
  have hl := map_lower_length ht
  cases paren with
  | none =>
    simp only [Body.bytes, scanNan, stripCI_of _ txt rest ht]
    exact ⟨_, rfl, by simp at hl; omega⟩
  | some cs =>
    have hs : (Body.nan txt (some cs)).bytes ++ rest = txt ++ (0x28 :: (cs ++ 0x29 :: rest)) := by
      simp [Body.bytes, List.append_assoc]
    rw [hs]
    simp only [scanNan, stripCI_of _ txt _ ht, nanParen_of cs rest (hp cs rfl)]
    exact ⟨_, rfl, by simp [Body.bytes] at hl ⊢; omega⟩

/-- first byte of a decimal significand -/
theorem dec_head {m : Mant} {sig nf : Nat} {e : Int} (h : m.Denotes 10 0x65 sig nf e) :
    ∃ c t, m.bytes = c :: t ∧ ((digitOf 10 c).isSome = true ∨ c = 0x2e) := by
  obtain ⟨ip, dot, fp, exp⟩ := m
  obtain ⟨hdf, hne, hsig, _, _⟩ := h
  simp only at hdf hne hsig
  cases ip with
  | nil =>
    cases dot with
    | true => exact ⟨0x2e, fp ++ ExpPart.optBytes exp, by simp [Mant.bytes], Or.inr rfl⟩
    | false => simp [hdf rfl] at hne
  | cons c ip' =>
    refine ⟨c, ip' ++ ((if dot = true then [0x2e] else []) ++ (fp ++ ExpPart.optBytes exp)), by simp [Mant.bytes], Or.inl ?_⟩
    simp only [List.cons_append, digitsVal] at hsig
    cases hd : digitOf 10 c with
    | none => simp [hd] at hsig
    | some d => rfl

/-- a decimal numeral that is followed by `x` is just `0` -/
theorem dec_zero_x {m : Mant} {sig nf : Nat} {e : Int} (h : m.Denotes 10 0x65 sig nf e)
    {rest t : List UInt8} {x : UInt8} (heq : m.bytes ++ rest = 0x30 :: x :: t) (hx : isX x = true) :
    m.bytes.length = 1 := by
  obtain ⟨hx1, hx2, hx3⟩ := isX_facts x hx
  obtain ⟨ip, dot, fp, exp⟩ := m
  obtain ⟨hdf, hne, hsig, _, hexp⟩ := h
  simp only at hdf hne hsig hexp
  cases ip with
  | nil =>
    cases dot with
    | true => simp [Mant.bytes] at heq
    | false => simp [hdf rfl] at hne
  | cons c ip' =>
    cases ip' with
    | cons c2 ip'' =>
      simp only [Mant.bytes, List.cons_append, List.cons.injEq] at heq
      obtain ⟨_, rfl, _⟩ := heq
      simp only [List.cons_append, digitsVal] at hsig
      cases hd : digitOf 10 c with
      | none => simp [hd] at hsig
      | some d => simp [hd, hx1] at hsig
    | nil =>
      cases dot with
      | true =>
        simp only [Mant.bytes, if_true, List.cons_append, List.nil_append, List.cons.injEq] at heq
        exact absurd heq.2.1.symm hx2
      | false =>
        have hfp : fp = [] := hdf rfl
        subst hfp
        cases exp with
        | none => simp [Mant.bytes, ExpPart.optBytes]
        | some xp =>
          simp only [Mant.bytes, ExpPart.optBytes, ExpPart.bytes, Bool.false_eq_true, if_false, List.append_nil,
            List.cons_append, List.nil_append, List.cons.injEq] at heq
          obtain ⟨_, hm, _⟩ := heq
          simp only at hexp
          rw [hm] at hexp
          exact absurd hexp.1 hx3

theorem scanHex_shape {s : List UInt8} {r : Subject × Nat} (h : scanHex s = some r) :
    ∃ x t, s = 0x30 :: x :: t ∧ isX x = true ∧ 2 ≤ r.2 := by
  unfold scanHex at h
  split at h
  · rename_i x t
    split at h
    · rename_i hx
      split at h
      · injection h with h; subst h; exact ⟨x, t, rfl, hx, by simp⟩
      · cases h
    · cases h
  · cases h

/-- completeness / maximality of `scanBody` -/
theorem scanBody_of_body (b : Body) (sub : Subject) (rest : List UInt8) (h : b.Denotes sub) :
    ∃ sub2 n, scanBody (b.bytes ++ rest) = some (sub2, n) ∧ b.bytes.length ≤ n ∧
      (b.bytes.length = n → sub2 = sub) := by
  cases b with
  | inf txt =>
    obtain ⟨ht, rfl⟩ := h
    obtain ⟨n, hs, hle⟩ := scanInf_of txt rest ht
    exact ⟨.inf, n, by simp [scanBody, Body.bytes, hs], hle, fun _ => rfl⟩
  | nan txt paren =>
    obtain ⟨ht, hp, rfl⟩ := h
    obtain ⟨n, hs, hle⟩ := scanNan_of txt paren rest ht hp
    have hl := map_lower_length ht
    obtain ⟨c, t, hct⟩ : ∃ c t, txt = c :: t := by
      cases txt with
      | nil => simp at hl
      | cons c t => exact ⟨c, t, rfl⟩
    have hc : lower c = 0x6e := by rw [hct] at ht; simp at ht; exact ht.1
    have hinf : scanInf ((Body.nan txt paren).bytes ++ rest) = none := by
      have : ∃ t', (Body.nan txt paren).bytes ++ rest = c :: t' := by
        cases paren <;> simp [Body.bytes, hct]
      obtain ⟨t', ht'⟩ := this
      rw [ht']; exact scanInf_none_of_head t' (n_not_i c hc)
    exact ⟨.nan, n, by simp [scanBody, hinf, hs], hle, fun _ => rfl⟩
  | hex x m =>
    obtain ⟨hx, sig, nf, e, hden, rfl⟩ := h
    have hxx : isX x = true := by rcases hx with rfl | rfl <;> decide
    obtain ⟨sig2, nf2, ex2, n, hs, hle, heq⟩ := scanMant_of_mant 16 0x70 m rest sig nf e marker_p dot_not_digit.2 hden
    have h0i : lower 0x30 ≠ 0x69 := by decide
    have h0n : lower 0x30 ≠ 0x6e := by decide
    refine ⟨.num ((sig2 : Rat) * ratPow 2 (ex2 - 4 * (nf2 : Int))), 2 + n, ?_, by simp [Body.bytes]; omega, ?_⟩
    · simp only [Body.bytes, List.cons_append, scanBody, scanInf_none_of_head _ h0i, scanNan_none_of_head _ h0n,
        scanHex, hxx, if_true, hs]
    · simp only [Body.bytes, List.length_cons]
      intro hl
      obtain ⟨rfl, rfl, rfl⟩ := heq (by omega)
      rfl
  | dec m =>
    obtain ⟨sig, nf, e, hden, rfl⟩ := h
    obtain ⟨c, t, hct, hc⟩ := dec_head hden
    obtain ⟨hci, hcn⟩ := dec_head_not_in c hc
    have hb : (Body.dec m).bytes ++ rest = c :: (t ++ rest) := by simp [Body.bytes, hct]
    cases hhex : scanHex ((Body.dec m).bytes ++ rest) with
    | some r =>
      obtain ⟨x, t', hshape, hx, h2⟩ := scanHex_shape hhex
      have h1 : m.bytes.length = 1 := dec_zero_x hden (by simpa [Body.bytes] using hshape) hx
      refine ⟨r.1, r.2, ?_, by simp [Body.bytes]; omega, fun hl => by simp [Body.bytes] at hl; omega⟩
      have hinf : scanInf ((Body.dec m).bytes ++ rest) = none := by rw [hb]; exact scanInf_none_of_head _ hci
      have hnan : scanNan ((Body.dec m).bytes ++ rest) = none := by rw [hb]; exact scanNan_none_of_head _ hcn
      simp only [scanBody, hinf, hnan, hhex]
    | none =>
      obtain ⟨sig2, nf2, ex2, n, hs, hle, heq⟩ := scanMant_of_mant 10 0x65 m rest sig nf e marker_e dot_not_digit.1 hden
      have hinf : scanInf ((Body.dec m).bytes ++ rest) = none := by rw [hb]; exact scanInf_none_of_head _ hci
      have hnan : scanNan ((Body.dec m).bytes ++ rest) = none := by rw [hb]; exact scanNan_none_of_head _ hcn
      refine ⟨.num ((sig2 : Rat) * ratPow 10 (ex2 - (nf2 : Int))), n, ?_, by simpa [Body.bytes] using hle, ?_⟩
      · simp only [scanBody, hinf, hnan, hhex, scanDec]
        simp only [Body.bytes, hs]
      · simp only [Body.bytes]
        intro hl
        obtain ⟨rfl, rfl, rfl⟩ := heq hl
        rfl


/-! ### the whole subject sequence -/

theorem body_start_facts : ∀ c : UInt8,
    (lower c = 0x69 ∨ lower c = 0x6e ∨ (digitOf 10 c).isSome = true ∨ c = 0x2e) →
    c ≠ 0x2d ∧ c ≠ 0x2b ∧ isSpace c = false :=
  u8_forall (by decide +kernel)

theorem body_head {b : Body} {sub : Subject} (h : b.Denotes sub) :
    ∃ c t, b.bytes = c :: t ∧ c ≠ 0x2d ∧ c ≠ 0x2b ∧ isSpace c = false := by
  cases b with
  | inf txt =>
    obtain ⟨ht, _⟩ := h
    cases txt with
    | nil => rcases ht with ht | ht <;> simp at ht
    | cons c t =>
      refine ⟨c, t, rfl, body_start_facts c (Or.inl ?_)⟩
      rcases ht with ht | ht <;> (simp at ht; exact ht.1)
  | nan txt paren =>
    obtain ⟨ht, _, _⟩ := h
    cases txt with
    | nil => simp at ht
    | cons c t =>
      have hc : lower c = 0x6e := by simp at ht; exact ht.1
      cases paren with
      | none => exact ⟨c, t, rfl, body_start_facts c (Or.inr (Or.inl hc))⟩
      | some cs => exact ⟨c, t ++ [0x28] ++ cs ++ [0x29], by simp [Body.bytes], body_start_facts c (Or.inr (Or.inl hc))⟩
  | dec m =>
    obtain ⟨sig, nf, e, hden, _⟩ := h
    obtain ⟨c, t, hct, hc⟩ := dec_head hden
    exact ⟨c, t, by simp [Body.bytes, hct], body_start_facts c (Or.inr (Or.inr hc))⟩
  | hex x m =>
    exact ⟨0x30, x :: m.bytes, rfl, by decide, by decide, by decide⟩

theorem sign_step (sg : Sign) (c0 : UInt8) (t : List UInt8) (h1 : c0 ≠ 0x2d) (h2 : c0 ≠ 0x2b)
    (h3 : isSpace c0 = false) :
    scanSign (sg.bytes ++ c0 :: t) = (decide (sg = .minus), sg.bytes.length, c0 :: t) ∧
    ∃ x b, sg.bytes ++ c0 :: t = x :: b ∧ isSpace x = false := by
  cases sg with
  | none => exact ⟨by simp [Sign.bytes, scanSign_other h1 h2], c0, t, by simp [Sign.bytes], h3⟩
  | plus => exact ⟨by simp [Sign.bytes, scanSign], 0x2b, c0 :: t, by simp [Sign.bytes], by decide⟩
  | minus => exact ⟨by simp [Sign.bytes, scanSign], 0x2d, c0 :: t, by simp [Sign.bytes], by decide⟩

theorem scanF_of_numeral (n : FNumeral) (neg : Bool) (sub : Subject) (rest : List UInt8) (h : n.Denotes neg sub) :
    ∃ neg2 sub2 e, scanF (n.bytes ++ rest) = some (neg2, sub2, e) ∧ n.bytes.length ≤ e ∧
      (n.bytes.length = e → neg2 = neg ∧ sub2 = sub) := by
  obtain ⟨ws, sg, b⟩ := n
  obtain ⟨hws, hneg, hb⟩ := h
  simp only at hws hneg hb
  obtain ⟨c, t, hct, h1, h2, h3⟩ := body_head hb
  obtain ⟨sub2, k, hs, hle, heq⟩ := scanBody_of_body b sub rest hb
  obtain ⟨hsign, x, bb, hxb, hx⟩ := sign_step sg c (t ++ rest) h1 h2 h3
  have hbr : b.bytes ++ rest = c :: (t ++ rest) := by rw [hct]; rfl
  have hsplit : FNumeral.bytes ⟨ws, sg, b⟩ ++ rest = ws ++ x :: bb := by
    simp only [FNumeral.bytes, List.append_assoc, hbr, hxb]
  obtain ⟨htw, hdw⟩ := takeWhile_append_stop ws x bb hws hx
  refine ⟨decide (sg = .minus), sub2, ws.length + sg.bytes.length + k, ?_, ?_, ?_⟩
  · have e1 : List.dropWhile isSpace (FNumeral.bytes ⟨ws, sg, b⟩ ++ rest) = sg.bytes ++ c :: (t ++ rest) := by
      rw [hsplit, hdw, hxb]
    have e2 : List.takeWhile isSpace (FNumeral.bytes ⟨ws, sg, b⟩ ++ rest) = ws := by
      rw [hsplit, htw]
    simp only [scanF, e1, e2, hsign]
    rw [← hbr, hs]
  · simp only [FNumeral.bytes, List.length_append]; omega
  · simp only [FNumeral.bytes, List.length_append]
    intro hl
    exact ⟨hneg.symm, heq (by omega)⟩

theorem scanF_sound (s : List UInt8) (neg : Bool) (sub : Subject) (e : Nat) (h : scanF s = some (neg, sub, e)) :
    ∃ (n : FNumeral) (rest : List UInt8), s = n.bytes ++ rest ∧ n.Denotes neg sub ∧ e = n.bytes.length := by
  obtain ⟨sg, hsign, hs1⟩ := scanSign_spec (s.dropWhile isSpace)
  simp only [scanF, hsign] at h
  split at h
  · cases h
  · rename_i sub' k hb
    injection h with h
    simp only [Prod.mk.injEq] at h
    obtain ⟨rfl, rfl, rfl⟩ := h
    obtain ⟨b, rest, hbs, hbd, hk⟩ := scanBody_sound _ _ _ hb
    refine ⟨⟨s.takeWhile isSpace, sg, b⟩, rest, ?_, ⟨takeWhile_all s, rfl, hbd⟩, ?_⟩
    · simp only [FNumeral.bytes, List.append_assoc]
      rw [← hbs, ← hs1, List.takeWhile_append_dropWhile]
    · simp only [FNumeral.bytes, List.length_append]; omega

theorem faccepts_iff_scan (tr : Bool) (s : List UInt8) (neg : Bool) (sub : Subject) :
    FAccepts tr s neg sub ↔ ∃ e, scanF s = some (neg, sub, e) ∧ (tr = true ∨ e = s.length) := by
  constructor
  · intro h
    unfold FAccepts at h
    cases tr with
    | true =>
      simp only [if_true] at h
      obtain ⟨rest, n, hs, hden, hmax⟩ := h
      obtain ⟨neg2, sub2, e, hr, hle, heq⟩ := scanF_of_numeral n neg sub rest hden
      rw [← hs] at hr
      obtain ⟨n2, rest2, hs2, hden2, hend⟩ := scanF_sound s neg2 sub2 e hr
      have := hmax n2 _ _ rest2 hs2 hden2
      obtain ⟨rfl, rfl⟩ := heq (by omega)
      exact ⟨e, hr, Or.inl rfl⟩
    | false =>
      simp only [Bool.false_eq_true, if_false] at h
      obtain ⟨n, hs, hden⟩ := h
      obtain ⟨neg2, sub2, e, hr, hle, heq⟩ := scanF_of_numeral n neg sub [] hden
      rw [List.append_nil, ← hs] at hr
      obtain ⟨n2, rest2, hs2, hden2, hend⟩ := scanF_sound s neg2 sub2 e hr
      have hl : s.length = n2.bytes.length + rest2.length := by rw [hs2]; simp
      have hl2 : s.length = n.bytes.length := by rw [hs]
      obtain ⟨rfl, rfl⟩ := heq (by omega)
      exact ⟨e, hr, Or.inr (by omega)⟩
  · rintro ⟨e, hr, htr⟩
    obtain ⟨n, rest, hs, hden, hend⟩ := scanF_sound s neg sub e hr
    unfold FAccepts
    cases tr with
    | true =>
      simp only [if_true]
      refine ⟨rest, n, hs, hden, ?_⟩
      intro n' neg' sub' rest' hs' hden'
      obtain ⟨neg2, sub2, e', hr', hle, _⟩ := scanF_of_numeral n' neg' sub' rest' hden'
      rw [← hs', hr] at hr'
      injection hr' with hr'
      simp only [Prod.mk.injEq] at hr'
      omega
    | false =>
      simp only [Bool.false_eq_true, if_false]
      rcases htr with h | h
      · simp at h
      · have hl : s.length = n.bytes.length + rest.length := by rw [hs]; simp
        have : rest = [] := List.eq_nil_of_length_eq_zero (by omega)
        subst this
        exact ⟨n, by simpa using hs, hden⟩

theorem scanF_endOff_pos {s : List UInt8} {neg : Bool} {sub : Subject} {e : Nat}
    (h : scanF s = some (neg, sub, e)) : 0 < e := by
  obtain ⟨n, rest, _, hden, hend⟩ := scanF_sound s neg sub e h
  obtain ⟨c, t, hct, _⟩ := body_head hden.2.2
  simp only [FNumeral.bytes, List.length_append, hct, List.length_cons] at hend
  omega


end Percival.Proofs.FloatNumeral
