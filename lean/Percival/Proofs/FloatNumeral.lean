import Percival.Proofs.Numeral
import Percival.Model.Strtod
/-! Helper lemmas for C16: the `strtod` scan computes the longest floating numeral of `Spec.FloatNumeral`. -/
namespace Percival.Proofs.FloatNumeral
open Percival.Spec.Numeral Percival.Spec.FloatNumeral Percival.Model.Strto Percival.Model.Strtod
open Percival.Proofs.Numeral

/-! ### digits -/

theorem digitsVal_append (radix : Nat) : ∀ (a b : List UInt8) (acc : Nat),
    digitsVal radix acc (a ++ b) = (digitsVal radix acc a).bind (fun m => digitsVal radix m b) := by
  intro a
  induction a with
  | nil => intro b acc; simp [digitsVal]
  | cons c cs ih =>
    intro b acc
    simp only [List.cons_append, digitsVal]
    cases digitOf radix c with
    | none => simp
    | some d => simp only; exact ih b _

theorem scanDigits_append (radix : Nat) : ∀ (a b : List UInt8) (acc cnt acc' : Nat),
    digitsVal radix acc a = some acc' →
    scanDigits radix acc cnt (a ++ b) = scanDigits radix acc' (cnt + a.length) b := by
  intro a
  induction a with
  | nil => intro b acc cnt acc' h; simp [digitsVal] at h; subst h; simp
  | cons c cs ih =>
    intro b acc cnt acc' h
    simp only [digitsVal] at h
    cases hd : digitOf radix c with
    | none => simp [hd] at h
    | some d =>
      simp only [hd] at h
      simp only [List.cons_append, scanDigits, hd, List.length_cons]
      rw [ih b _ _ _ h]
      congr 1; omega

theorem scanDigits_stop {radix : Nat} {c : UInt8} (hc : digitOf radix c = none) (acc cnt : Nat) (t : List UInt8) :
    scanDigits radix acc cnt (c :: t) = (acc, cnt, c :: t) := by
  simp [scanDigits, hc]

theorem scanDigits_nil (radix acc cnt : Nat) : scanDigits radix acc cnt [] = (acc, cnt, []) := rfl

/-- with `cnt = 0` the count is the number of digits taken -/
theorem scanDigits_zero (radix : Nat) (s : List UInt8) (acc : Nat) :
    ∃ ds rest acc', s = ds ++ rest ∧ scanDigits radix acc 0 s = (acc', ds.length, rest) ∧
      digitsVal radix acc ds = some acc' ∧ (∀ c t, rest = c :: t → digitOf radix c = none) := by
  obtain ⟨ds, rest, acc', h1, h2, h3, h4⟩ := scanDigits_spec radix s acc 0
  exact ⟨ds, rest, acc', h1, by simpa using h2, h3, h4⟩

/-! ### characters -/

/-- facts about single bytes are settled by trying all 256 -/
theorem u8_forall {p : UInt8 → Prop} (h : ∀ n, n < 256 → p (UInt8.ofNat n)) : ∀ c, p c := by
  intro c
  have := h c.toNat c.toNat_lt
  simpa using this

theorem marker_e : ∀ c : UInt8, lower c = 0x65 → digitOf 10 c = none ∧ c ≠ 0x2e :=
  u8_forall (by decide +kernel)

theorem marker_p : ∀ c : UInt8, lower c = 0x70 → digitOf 16 c = none ∧ c ≠ 0x2e :=
  u8_forall (by decide +kernel)

theorem dot_not_digit : digitOf 10 0x2e = none ∧ digitOf 16 0x2e = none := by decide

/-! ### exponent part -/

theorem dec_digit_alnum {c : UInt8} {d : Nat} (h : digitOf 10 c = some d) : Alnum c :=
  digitVal_some_alnum (digitOf_some_digitVal h)

/-- completeness / maximality of `scanExp` -/
theorem scanExp_of_part (marker : UInt8) (x : ExpPart) (rest : List UInt8) (ev : Nat)
    (hm : lower x.mark = marker) (hne : x.digits ≠ []) (hev : digitsVal 10 0 x.digits = some ev) :
    ∃ ex n, scanExp marker (x.bytes ++ rest) = (ex, n) ∧ x.bytes.length ≤ n ∧
      (x.bytes.length = n → ex = x.sign.apply ev) := by
  obtain ⟨c, cs, hcs⟩ := List.exists_cons_of_ne_nil hne
  have hc : Alnum c := by
    cases hd : digitOf 10 c with
    | none => rw [hcs] at hev; simp [digitsVal, hd] at hev
    | some d => exact dec_digit_alnum hd
  obtain ⟨hsign, _⟩ := scanTail_of_sign x.sign (x.digits ++ rest) c (cs ++ rest) (by rw [hcs]; rfl) hc
  obtain ⟨acc', k, r3, h1, h2⟩ := scanDigits_prefix 10 x.digits rest 0 0 ev hev
  have hpos : 0 + x.digits.length + k ≠ 0 := by
    have : 0 < x.digits.length := List.length_pos_iff.mpr hne
    omega
  refine ⟨(if decide (x.sign = .minus) = true then -(acc' : Int) else (acc' : Int)),
    1 + x.sign.bytes.length + (0 + x.digits.length + k), ?_, ?_, ?_⟩
  · simp only [ExpPart.bytes, List.cons_append, scanExp, hm, if_true, List.append_assoc, hsign, h1, hpos, if_false]
  · simp only [ExpPart.bytes, List.length_cons, List.length_append]; omega
  · simp only [ExpPart.bytes, List.length_cons, List.length_append]
    intro hl
    have : acc' = ev := h2 (by omega)
    subst this
    cases x.sign <;> simp [Sign.apply]

/-- soundness of `scanExp` -/
theorem scanExp_sound (marker : UInt8) (r : List UInt8) :
    (scanExp marker r = (0, 0)) ∨
    ∃ (x : ExpPart) (rest : List UInt8) (ev : Nat), r = x.bytes ++ rest ∧ lower x.mark = marker ∧ x.digits ≠ [] ∧
      digitsVal 10 0 x.digits = some ev ∧ scanExp marker r = (x.sign.apply ev, x.bytes.length) := by
  cases r with
  | nil => left; rfl
  | cons c t =>
    by_cases hm : lower c = marker
    · obtain ⟨sg, hsign, hs1⟩ := scanSign_spec t
      obtain ⟨ds, rest, ev, hs2, hd, hval, _⟩ := scanDigits_zero 10 (t.drop sg.bytes.length) 0
      by_cases hne : ds.length = 0
      · left; simp only [scanExp, hm, if_true, hsign, hd, hne]
      · right
        refine ⟨⟨c, sg, ds⟩, rest, ev, ?_, hm, ?_, hval, ?_⟩
        · simp only [ExpPart.bytes, List.cons_append, List.append_assoc]; rw [← hs2, ← hs1]
        · intro h0; subst h0; simp at hne
        · simp only [scanExp, hm, if_true, hsign, hd, hne, if_false, ExpPart.bytes, List.length_cons, List.length_append]
          congr 1
          · cases sg <;> simp [Sign.apply]
          · omega
    · left; simp [scanExp, hm]


/-! ### significand -/

theorem scanFrac_nodot {radix m1 : Nat} {c : UInt8} (hc : c ≠ 0x2e) (t : List UInt8) :
    scanFrac radix m1 (c :: t) = (m1, 0, 0, c :: t) := by
  unfold scanFrac
  split
  · rename_i heq; injection heq with h1 _; exact absurd h1 hc
  · rfl

theorem scanFrac_nil (radix m1 : Nat) : scanFrac radix m1 [] = (m1, 0, 0, []) := rfl

theorem scanFrac_dot (radix m1 : Nat) (t : List UInt8) :
    scanFrac radix m1 (0x2e :: t) = ((scanDigits radix m1 0 t).1, (scanDigits radix m1 0 t).2.1, 1, (scanDigits radix m1 0 t).2.2) := by
  simp [scanFrac]

/-- whatever follows: either no point was taken and nothing changed, or one was -/
theorem scanFrac_cases (radix m1 : Nat) (r1 : List UInt8) :
    scanFrac radix m1 r1 = (m1, 0, 0, r1) ∨ ∃ m2 n2 r2, scanFrac radix m1 r1 = (m2, n2, 1, r2) := by
  unfold scanFrac
  split
  · right; exact ⟨_, _, _, rfl⟩
  · left; rfl

theorem scanExp_zero {marker : UInt8} {r : List UInt8} {ex : Int} (h : scanExp marker r = (ex, 0)) : ex = 0 := by
  rcases scanExp_sound marker r with h0 | ⟨x, rest, ev, _, _, _, _, h1⟩
  · rw [h0] at h; injection h with h _; exact h.symm
  · rw [h1] at h; injection h with _ h2
    simp [ExpPart.bytes] at h2

/-- the tail of `scanMantExp` from the end of the integer digits on -/
def afterIp (radix : Nat) (marker : UInt8) (m1 n1 : Nat) (r1 : List UInt8) : Option (Nat × Nat × Int × Nat) :=
  let (m2, n2, ndot, r2) := scanFrac radix m1 r1
  if n1 + n2 = 0 then none
  else
    let (ex, nexp) := scanExp marker r2
    some (m2, n2, ex, n1 + ndot + n2 + nexp)

theorem scanMantExp_eq (radix : Nat) (marker : UInt8) (s : List UInt8) :
    scanMantExp radix marker s =
      afterIp radix marker (scanDigits radix 0 0 s).1 (scanDigits radix 0 0 s).2.1 (scanDigits radix 0 0 s).2.2 := by
  rcases h : scanDigits radix 0 0 s with ⟨m1, n1, r1⟩
  simp only [scanMantExp, afterIp, h]

/-- after at least one integer digit, any continuation is at least as long as stopping here -/
theorem afterIp_any (radix : Nat) (marker : UInt8) (m1 n1 : Nat) (r1 : List UInt8) (hn : n1 ≠ 0) :
    ∃ sig2 nf2 ex2 n, afterIp radix marker m1 n1 r1 = some (sig2, nf2, ex2, n) ∧ n1 ≤ n ∧
      (n1 = n → sig2 = m1 ∧ nf2 = 0 ∧ ex2 = 0) := by
  rcases scanFrac_cases radix m1 r1 with h | ⟨m2, n2, r2, h⟩
  · rcases he : scanExp marker r1 with ⟨ex, nexp⟩
    refine ⟨m1, 0, ex, n1 + 0 + 0 + nexp, ?_, by omega, ?_⟩
    · have : ¬ (n1 + 0 = 0) := by omega
      simp only [afterIp, h, he, this, if_false]
    · intro hl
      have : nexp = 0 := by omega
      subst this
      exact ⟨rfl, rfl, scanExp_zero he⟩
  · rcases he : scanExp marker r2 with ⟨ex, nexp⟩
    refine ⟨m2, n2, ex, n1 + 1 + n2 + nexp, ?_, by omega, fun hl => by omega⟩
    have : ¬ (n1 + n2 = 0) := by omega
    simp only [afterIp, h, he, this, if_false]


theorem stop_at_exp {radix : Nat} {marker : UInt8} {x : ExpPart}
    (hmark : ∀ c, lower c = marker → digitOf radix c = none ∧ c ≠ 0x2e) (hxm : lower x.mark = marker)
    (acc cnt : Nat) (rest : List UInt8) :
    scanDigits radix acc cnt (x.bytes ++ rest) = (acc, cnt, x.bytes ++ rest) ∧
    ∀ m1, scanFrac radix m1 (x.bytes ++ rest) = (m1, 0, 0, x.bytes ++ rest) := by
  obtain ⟨h1, h2⟩ := hmark x.mark hxm
  have hb2 : x.bytes ++ rest = x.mark :: (x.sign.bytes ++ x.digits ++ rest) := by
    simp [ExpPart.bytes, List.append_assoc]
  rw [hb2]
  exact ⟨scanDigits_stop h1 _ _ _, fun m1 => scanFrac_nodot h2 _⟩

/-- completeness / maximality of `scanMantExp` -/
theorem scanMant_of_mant (radix : Nat) (marker : UInt8) (m : Mant) (rest : List UInt8) (sig nfrac : Nat) (e : Int)
    (hmark : ∀ c, lower c = marker → digitOf radix c = none ∧ c ≠ 0x2e)
    (hdot : digitOf radix 0x2e = none)
    (h : m.Denotes radix marker sig nfrac e) :
    ∃ sig2 nf2 ex2 n, scanMantExp radix marker (m.bytes ++ rest) = some (sig2, nf2, ex2, n) ∧
      m.bytes.length ≤ n ∧ (m.bytes.length = n → sig2 = sig ∧ nf2 = nfrac ∧ ex2 = e) := by
  obtain ⟨ip, dot, fp, exp⟩ := m
  obtain ⟨hdf, hne, hsig, hnf, hexp⟩ := h
  simp only at hdf hne hsig hnf hexp
  rw [digitsVal_append] at hsig
  cases hip : digitsVal radix 0 ip with
  | none => simp [hip] at hsig
  | some m1 =>
  simp only [hip, Option.bind_some] at hsig
  have hlen : 0 < ip.length + fp.length := by
    have := List.length_pos_iff.mpr hne
    simpa using this
  rw [scanMantExp_eq]
  cases dot with
  | true =>
    -- ip . fp [exp]
    have hb : Mant.bytes ⟨ip, true, fp, exp⟩ ++ rest = ip ++ (0x2e :: (fp ++ (ExpPart.optBytes exp ++ rest))) := by
      simp [Mant.bytes, List.append_assoc]
    rw [hb, scanDigits_append radix ip _ 0 0 m1 hip, scanDigits_stop hdot]
    simp only [afterIp, scanFrac_dot, scanDigits_append radix fp _ m1 0 sig hsig]
    cases exp with
    | none =>
      simp only [ExpPart.optBytes, List.nil_append] at hexp ⊢
      obtain ⟨acc', k, r2, h1, h2⟩ := scanDigits_prefix radix [] rest sig (0 + fp.length) sig rfl
      simp only [List.nil_append, List.length_nil, Nat.add_zero] at h1
      rcases he : scanExp marker r2 with ⟨ex, nexp⟩
      have hnz : ¬ (0 + ip.length + (0 + fp.length + k) = 0) := by omega
      refine ⟨acc', 0 + fp.length + k, ex, 0 + ip.length + 1 + (0 + fp.length + k) + nexp, ?_, ?_, ?_⟩
      · simp only [h1, he, hnz, if_false]
      · simp only [Mant.bytes, ExpPart.optBytes, List.length_append, List.length_cons, List.length_nil, if_true]; omega
      · simp only [Mant.bytes, ExpPart.optBytes, List.length_append, List.length_cons, List.length_nil, if_true]
        intro hl
        have hk : k = 0 := by omega
        have hx : nexp = 0 := by omega
        subst hk hx
        exact ⟨h2 rfl, by omega, by rw [scanExp_zero he, hexp]⟩
    | some x =>
      obtain ⟨hxm, hxne, ev, hev, hee⟩ := hexp
      obtain ⟨hstop, _⟩ := stop_at_exp hmark hxm sig (0 + fp.length) rest
      obtain ⟨ex, nexp, hse, hle, heq⟩ := scanExp_of_part marker x rest ev hxm hxne hev
      have hnz : ¬ (0 + ip.length + (0 + fp.length) = 0) := by omega
      refine ⟨sig, 0 + fp.length, ex, 0 + ip.length + 1 + (0 + fp.length) + nexp, ?_, ?_, ?_⟩
      · simp only [ExpPart.optBytes, hstop, hse, hnz, if_false]
      · simp only [Mant.bytes, ExpPart.optBytes, List.length_append, List.length_cons, List.length_nil, if_true]; omega
      · simp only [Mant.bytes, ExpPart.optBytes, List.length_append, List.length_cons, List.length_nil, if_true]
        intro hl
        exact ⟨trivial, by omega, by rw [heq (by omega), hee]⟩
  | false =>
    have hfp : fp = [] := hdf rfl
    subst hfp
    simp only [digitsVal, Option.some.injEq] at hsig
    subst hsig
    have hipn : ip.length ≠ 0 := by simp at hlen; omega
    cases exp with
    | none =>
      have hb : Mant.bytes ⟨ip, false, [], none⟩ ++ rest = ip ++ rest := by simp [Mant.bytes, ExpPart.optBytes]
      rw [hb]
      obtain ⟨acc', k, r1, h1, h2⟩ := scanDigits_prefix radix ip rest 0 0 m1 hip
      rw [h1]
      obtain ⟨sig2, nf2, ex2, n, ha, hle, heq⟩ := afterIp_any radix marker acc' (0 + ip.length + k) r1 (by omega)
      refine ⟨sig2, nf2, ex2, n, ha, ?_, ?_⟩
      · simp only [Mant.bytes, ExpPart.optBytes, List.length_append, List.length_nil, Bool.false_eq_true, if_false]; omega
      · simp only [Mant.bytes, ExpPart.optBytes, List.length_append, List.length_nil, Bool.false_eq_true, if_false]
        intro hl
        have hk : k = 0 := by omega
        subst hk
        obtain ⟨a, b, c⟩ := heq (by omega)
        exact ⟨by rw [a, h2 rfl], by rw [b, hnf]; rfl, by rw [c, hexp]⟩
    | some x =>
      obtain ⟨hxm, hxne, ev, hev, hee⟩ := hexp
      obtain ⟨hstop, hfrac⟩ := stop_at_exp hmark hxm m1 (0 + ip.length) rest
      have hb : Mant.bytes ⟨ip, false, [], some x⟩ ++ rest = ip ++ (x.bytes ++ rest) := by
        simp [Mant.bytes, ExpPart.optBytes, List.append_assoc]
      obtain ⟨ex, nexp, hse, hle, heq⟩ := scanExp_of_part marker x rest ev hxm hxne hev
      rw [hb, scanDigits_append radix ip _ 0 0 m1 hip, hstop]
      have hnz : ¬ (0 + ip.length + 0 = 0) := by omega
      refine ⟨m1, 0, ex, 0 + ip.length + 0 + 0 + nexp, ?_, ?_, ?_⟩
      · simp only [afterIp, hfrac, hse, hnz, if_false]
      · simp only [Mant.bytes, ExpPart.optBytes, List.length_append, List.length_nil, Bool.false_eq_true, if_false]; omega
      · simp only [Mant.bytes, ExpPart.optBytes, List.length_append, List.length_nil, Bool.false_eq_true, if_false]
        intro hl
        exact ⟨trivial, by rw [hnf]; rfl, by rw [heq (by omega), hee]⟩


/-- soundness of `scanMantExp` -/
theorem scanMant_sound (radix : Nat) (marker : UInt8) (t : List UInt8) (sig nf : Nat) (ex : Int) (n : Nat)
    (h : scanMantExp radix marker t = some (sig, nf, ex, n)) :
    ∃ (m : Mant) (rest : List UInt8), t = m.bytes ++ rest ∧ m.Denotes radix marker sig nf ex ∧ n = m.bytes.length := by
  rw [scanMantExp_eq] at h
  obtain ⟨ds1, r1, m1, ht, hd1, hv1, _⟩ := scanDigits_zero radix t 0
  rw [hd1] at h
  simp only [afterIp] at h
  -- the fraction
  have hfrac : ∃ (dot : Bool) (ds2 r2 : List UInt8) (m2 : Nat),
      scanFrac radix m1 r1 = (m2, ds2.length, (if dot then 1 else 0), r2) ∧
      r1 = (if dot then [0x2e] else []) ++ ds2 ++ r2 ∧ digitsVal radix m1 ds2 = some m2 ∧ (dot = false → ds2 = []) := by
    cases r1 with
    | nil => exact ⟨false, [], [], m1, rfl, rfl, rfl, fun _ => rfl⟩
    | cons c u =>
      by_cases hc : c = 0x2e
      · subst hc
        obtain ⟨ds2, r2, m2, hu, hd2, hv2, _⟩ := scanDigits_zero radix u m1
        exact ⟨true, ds2, r2, m2, by rw [scanFrac_dot, hd2]; rfl, by simp [hu], hv2, fun h => by cases h⟩
      · exact ⟨false, [], c :: u, m1, scanFrac_nodot hc u, rfl, rfl, fun _ => rfl⟩
  obtain ⟨dot, ds2, r2, m2, hf, hr1, hv2, hnd⟩ := hfrac
  rw [hf] at h
  simp only at h
  split at h
  · cases h
  · rename_i hnz
    have hsigv : digitsVal radix 0 (ds1 ++ ds2) = some m2 := by
      rw [digitsVal_append, hv1]; exact hv2
    have hne : ds1 ++ ds2 ≠ [] := by
      intro h0
      have h1 : (ds1 ++ ds2).length = 0 := by rw [h0]; rfl
      rw [List.length_append] at h1
      exact hnz (by omega)
    rcases scanExp_sound marker r2 with he | ⟨x, rest, ev, hr2, hxm, hxne, hev, he⟩
    · rw [he] at h
      simp only [Option.some.injEq, Prod.mk.injEq] at h
      obtain ⟨rfl, rfl, rfl, rfl⟩ := h
      refine ⟨⟨ds1, dot, ds2, none⟩, r2, ?_, ⟨hnd, hne, hsigv, rfl, rfl⟩, ?_⟩
      · rw [ht, hr1]; simp [Mant.bytes, ExpPart.optBytes, List.append_assoc]
      · cases dot <;> simp [Mant.bytes, ExpPart.optBytes] <;> omega
    · rw [he] at h
      simp only [Option.some.injEq, Prod.mk.injEq] at h
      obtain ⟨rfl, rfl, rfl, rfl⟩ := h
      refine ⟨⟨ds1, dot, ds2, some x⟩, rest, ?_, ⟨hnd, hne, hsigv, rfl, hxm, hxne, ev, hev, rfl⟩, ?_⟩
      · rw [ht, hr1, hr2]; simp [Mant.bytes, ExpPart.optBytes, List.append_assoc]
      · cases dot <;> simp [Mant.bytes, ExpPart.optBytes] <;> omega


end Percival.Proofs.FloatNumeral
