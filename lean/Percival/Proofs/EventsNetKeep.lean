import Percival.Proofs.EventsNet
/-!
# `clearbit` keeps the entries of descriptors that stay registered (C05 helper lemma)
-/
set_option linter.unusedSimpArgs false
namespace Percival.Proofs.EventsNet
open Percival.Spec.Events Percival.Model.Events

/-- an entry whose descriptor keeps a registration survives `dropDir` (possibly moved), with its
    `revents` intact except for the dropped direction -/
theorem dropDir_keeps (n n' : Net) (fd : Nat) (s : Sock) (pp : Nat) (d : Dir) (h : Inv0 n)
    (hs : n.S[fd]? = some s) (hpp : s.pollpos = some pp) (heq' : dropDir n fd s pp d = some n')
    (j : Nat) (e : PollFd) (hj : n.fds[j]? = some e)
    (hkeep : e.fd = fd → ¬ ((clearedEntry e d).ev.r = false ∧ (clearedEntry e d).ev.w = false)) :
    ∃ (j' : Nat) (e' : PollFd), n'.fds[j']? = some e' ∧ e'.fd = e.fd ∧ e'.rev.e = e.rev.e ∧ e'.rev.h = e.rev.h ∧
      ∀ d', (e.fd ≠ fd ∨ d' ≠ d) → e'.rev.dir d' = e.rev.dir d' := by
  obtain ⟨e0, last, sl, he, hefd, hlast, hsl, hslpp, hpplt, hfdlt, hc⟩ := dropDir_cases n fd s pp d h hs hpp
  have h1a := h.i1a; have h1b := h.i1b
  obtain ⟨hjlt, _⟩ := Array.getElem?_eq_some_iff.mp hj
  have hjpp : j = pp → e = e0 := by intro hh; subst hh; rw [he] at hj; cases hj; rfl
  have hppj : e.fd = fd → j = pp := by
    intro hh
    obtain ⟨s1, hs1, hp1⟩ := h1b j e hj
    rw [hh, hs] at hs1; cases hs1
    rw [hpp] at hp1; cases hp1; rfl
  rcases hc with ⟨hz1, hz2, hne, hlf, heq⟩ | ⟨hz1, hz2, hne, heq⟩ | ⟨hz, heq⟩
  · rw [heq] at heq'; simp only [Option.some.injEq] at heq'; subst heq'
    have hjne : j ≠ pp := by
      intro hh; have := hjpp hh; subst this; exact hkeep hefd ⟨hz1, hz2⟩
    have hfdne : e.fd ≠ fd := fun hh => hjne (hppj hh)
    by_cases hjl : j = n.fds.size - 1
    · -- the last entry moves to `pp`
      subst hjl
      rw [hlast] at hj; cases hj
      refine ⟨pp, e, ?_, rfl, rfl, rfl, fun _ _ => rfl⟩
      simp only [Array.getElem?_pop, Array.getElem?_setIfInBounds, Array.size_setIfInBounds]
      have : pp < n.fds.size - 1 := by omega
      simp [this, hpplt]
    · refine ⟨j, e, ?_, rfl, rfl, rfl, fun _ _ => rfl⟩
      simp only [Array.getElem?_pop, Array.getElem?_setIfInBounds, Array.size_setIfInBounds]
      have h1 : j < n.fds.size - 1 := by omega
      have h2 : ¬ pp = j := fun hh => hjne hh.symm
      simp [h1, h2, hj]
  · rw [heq] at heq'; simp only [Option.some.injEq] at heq'; subst heq'
    have hjne : j ≠ pp := by
      intro hh; have := hjpp hh; subst this; exact hkeep hefd ⟨hz1, hz2⟩
    refine ⟨j, e, ?_, rfl, rfl, rfl, fun _ _ => rfl⟩
    simp only [Array.getElem?_pop]
    have h1 : j < n.fds.size - 1 := by omega
    simp [h1, hj]
  · rw [heq] at heq'; simp only [Option.some.injEq] at heq'; subst heq'
    by_cases hjp : j = pp
    · have := hjpp hjp; subst this; subst hjp
      refine ⟨j, clearedEntry e d, by simp [hpplt], rfl, by cases d <;> rfl, by cases d <;> rfl, ?_⟩
      intro d' hd'
      rcases hd' with hd' | hd'
      · exact absurd hefd hd'
      · cases d <;> cases d' <;> simp_all [clearedEntry, setDir, Bits.dir]
    · refine ⟨j, e, ?_, rfl, rfl, rfl, fun _ _ => rfl⟩
      have : ¬ pp = j := fun hh => hjp hh.symm
      simp [Array.getElem?_setIfInBounds, this, hj]

end Percival.Proofs.EventsNet
