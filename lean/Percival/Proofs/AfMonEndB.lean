import Percival.Proofs.AfMonEndA
import Percival.Proofs.HeapCreateAlloc
/-!
# C14, `af` protocol: the accounting piece `AcctRel` is kept by every operation but `events_run` (part B)

Frame lemma `acctRel_frame` (an operation that leaves the oracle's counter, the event layer, the heap and the harness'
descriptor list alone keeps `AcctRel`), the pointer-heap operations (`heapInit_live`, `append_live`, `shrink_live`,
`eaFree_live`), the event registrations and cancellations (`EvRegAcct.*_acct`).

`OpOk`: `reg_imm` must name one of the 32 queues (`events_immediate_register` asserts it; for `prio ≥ 32` the model
`EvReg.immReg` takes a record and a queue node, answers `ok` and registers nothing — two blocks nobody can release).
-/
namespace Percival.Proofs.AfMonEnd
open Percival.Model Percival.Model.EvReg Percival.Model.AfStep
open Percival.Spec.AfMon (Op Ans MState monStep MAXID)
open Percival.Proofs.EvRegNet (regNet NetInv netRegistered)
open Percival.Proofs.EvRegTimer (regImm regTimers TmInv)
open Percival.Proofs.EvRegAcct
open Percival.Proofs.AfMonRel

/-- the precondition of the protocol that the accounting needs -/
def OpOk : Op → Prop
  | .regImm _ prio => prio < 32
  | _ => True

/-- **frame**: `AcctRel` reads `m.live`, `ev`, `h`, `net` only -/
theorem acctRel_frame {s s' : S} (ha : AcctRel s) (h1 : s'.m.live = s.m.live) (h2 : s'.ev = s.ev) (h3 : s'.h = s.h)
    (h4 : s'.net = s.net) : AcctRel s' :=
  ⟨by rw [h1, h2, h3]; exact ha.live, by rw [h2]; exact ha.acct, by rw [h2]; exact ha.heads,
   by rw [h2, h4]; exact ha.net⟩

/-- an operation of the event layer -/
theorem acctRel_ev {s : S} {e' : Ev} {m' : Mem} {net' : List (Nat × Bool)} (ha : AcctRel s)
    (hl : m'.live - s.m.live = evBlocks e' - evBlocks s.ev) (hacct : AcctInv e')
    (hh : e'.heads.length = s.ev.heads.length) (hn : ∀ fd w, netRegistered e' fd w → (fd, w) ∈ net') :
    AcctRel { s with m := m', ev := e', net := net' } :=
  ⟨by have := ha.live; show m'.live = evBlocks e' + heapBlocks s.h; omega, hacct, by show e'.heads.length = 32; rw [hh]; exact ha.heads, hn⟩

/-- an operation of the pointer heap -/
theorem acctRel_heap {s : S} {h' : Option HeapAlloc.HeapA} {m' : Mem} {keys' : List (Nat × Int)} {hlive' : List Nat}
    (ha : AcctRel s) (hl : m'.live - s.m.live = heapBlocks h' - heapBlocks s.h) :
    AcctRel { s with m := m', h := h', keys := keys', hlive := hlive' } :=
  ⟨by have := ha.live; show m'.live = evBlocks s.ev + heapBlocks h'; omega, ha.acct, ha.heads, ha.net⟩

theorem netRegistered_of_socks {e e' : Ev} (h : e'.socks = e.socks) (fd : Nat) (w : Bool) :
    netRegistered e' fd w ↔ netRegistered e fd w := by
  simp only [netRegistered, regNet_of_socks h]

/-! ### the pointer heap -/

theorem heapAdd_live (key : Nat → Int) (ha : HeapAlloc.HeapA) (e : Nat) (m : Mem) :
    (HeapAlloc.add key ha e m).2.2.live - m.live = bb (HeapAlloc.add key ha e m).2.1.alloc - bb ha.alloc := by
  unfold HeapAlloc.add
  have h := append_live (HeapAlloc.shape ha.h.a.size ha.alloc) (SeqMap.encPtr e) 1 SeqMap.ptrLen m
  have hsh : (HeapAlloc.shape ha.h.a.size ha.alloc).alloc = ha.alloc := rfl
  rw [hsh] at h
  rcases hr : EArray.append (HeapAlloc.shape ha.h.a.size ha.alloc) (SeqMap.encPtr e) 1 SeqMap.ptrLen m with ⟨st, a', m'⟩
  rw [hr] at h
  cases st <;> exact h

theorem heapDelete_live (key : Nat → Int) (ha : HeapAlloc.HeapA) (rc : Nat) (m : Mem) {ha' : HeapAlloc.HeapA} {m' : Mem}
    (hd : HeapAlloc.delete key ha rc m = some (ha', m')) : m'.live - m.live = bb ha'.alloc - bb ha.alloc := by
  unfold HeapAlloc.delete at hd
  split at hd
  · cases hd
  · have h := shrink_live (HeapAlloc.shape ha.h.a.size ha.alloc) 1 SeqMap.ptrLen m
    have hsh : (HeapAlloc.shape ha.h.a.size ha.alloc).alloc = ha.alloc := rfl
    rw [hsh] at h
    rcases hr : EArray.shrink (HeapAlloc.shape ha.h.a.size ha.alloc) 1 SeqMap.ptrLen m with ⟨a', m1⟩
    rw [hr] at h hd
    simp only [Option.some.injEq, Prod.mk.injEq] at hd
    obtain ⟨rfl, rfl⟩ := hd
    exact h

theorem hInit_aux (s : S) (ha : AcctRel s) (m0 : Mem) (h0 : m0.live = s.m.live - heapBlocks s.h) :
    AcctRel { s with m := (HeapAlloc.init m0).2, h := (HeapAlloc.init m0).1, hlive := [] } := by
  have h1 := heapInit_live m0
  rcases hr : HeapAlloc.init m0 with ⟨o, m'⟩
  rw [hr] at h1
  cases o with
  | none =>
    dsimp only at h1 ⊢
    have : m'.live - s.m.live = heapBlocks none - heapBlocks s.h := by
      have : heapBlocks none = 0 := rfl
      omega
    exact acctRel_heap (keys' := s.keys) ha this
  | some hp =>
    dsimp only at h1 ⊢
    have : m'.live - s.m.live = heapBlocks (some hp) - heapBlocks s.h := by
      have : heapBlocks (some hp) = 2 + bb hp.alloc := rfl
      omega
    exact acctRel_heap (keys' := s.keys) ha this

theorem step_hInit (s : S) (ha : AcctRel s) : AcctRel (stepOp s .hInit).1 := by
  simp only [stepOp]
  unfold initMem
  cases hh : s.h with
  | none =>
    dsimp only
    have := hInit_aux s ha s.m (by simp [hh, heapBlocks])
    rcases hr : HeapAlloc.init s.m with ⟨o, m'⟩
    rw [hr] at this
    cases o <;> exact this
  | some hp =>
    dsimp only
    have := hInit_aux s ha (HeapAlloc.free hp s.m) (by rw [heapFree_live, hh])
    rcases hr : HeapAlloc.init (HeapAlloc.free hp s.m) with ⟨o, m'⟩
    rw [hr] at this
    cases o <;> exact this

theorem step_hAdd (s : S) (e : Nat) (k : Int) (ha : AcctRel s) : AcctRel (stepOp s (.hAdd e k)).1 := by
  simp only [stepOp]
  cases hh : s.h with
  | none => exact ha
  | some hp =>
    dsimp only
    split
    · exact ha
    · have h1 := heapAdd_live (Percival.Spec.AfMon.keyFn ((e, k) :: s.keys)) hp e s.m
      rcases hr : HeapAlloc.add (Percival.Spec.AfMon.keyFn ((e, k) :: s.keys)) hp e s.m with ⟨ok, hp', m'⟩
      rw [hr] at h1
      dsimp only at h1
      cases ok
      · dsimp only
        exact acctRel_heap (hlive' := s.hlive) ha (by simp only [hh, heapBlocks]; omega)
      · dsimp only
        exact acctRel_heap ha (by simp only [hh, heapBlocks]; omega)

theorem step_hMin (s : S) (ha : AcctRel s) : AcctRel (stepOp s .hMin).1 := by
  simp only [stepOp]
  cases s.h <;> exact ha

theorem step_hDelmin (s : S) (ha : AcctRel s) : AcctRel (stepOp s .hDelmin).1 := by
  simp only [stepOp]
  cases hh : s.h with
  | none => exact ha
  | some hp =>
    dsimp only
    split
    · rename_i e hp' m' _ hd
      exact acctRel_heap (keys' := s.keys) ha (by
        have := heapDelete_live _ hp 0 s.m hd
        simp only [hh, heapBlocks]; omega)
    · exact ha

theorem step_hFree (s : S) (ha : AcctRel s) : AcctRel (stepOp s .hFree).1 := by
  simp only [stepOp]
  cases hh : s.h with
  | none => exact ha
  | some hp =>
    dsimp only
    exact acctRel_heap (keys' := s.keys) ha (by
      have := heapFree_live hp s.m
      simp only [hh, heapBlocks] at this ⊢; omega)

/-- `ptrheap_create`: the structure, the list structure and — for a non-empty list — its buffer; nothing if it fails -/
theorem heapCreate_live (key : Nat → Int) (ptrs : List Nat) (m : Mem) :
    match HeapAlloc.create key ptrs m with
    | (some hp, m') => m'.live - m.live = 2 + bb hp.alloc
    | (none, m') => m'.live = m.live := by
  have hs := Percival.Proofs.HeapCreateAlloc.create_spec key ptrs m
  rcases hr : HeapAlloc.create key ptrs m with ⟨o, m'⟩
  rw [hr] at hs
  cases o with
  | none => exact hs.1
  | some hp =>
    dsimp only at hs ⊢
    rw [hs.2.2.2.2]
    simp only [bb]
    split <;> simp <;> omega

theorem step_hCreate (s : S) (els : List (Nat × Int)) (ha : AcctRel s) : AcctRel (stepOp s (.hCreate els)).1 := by
  simp only [stepOp]
  split
  · exact ha
  · have h0 : (initMem s).live = s.m.live - heapBlocks s.h := by
      unfold initMem
      cases hh : s.h with
      | none => simp [heapBlocks]
      | some hp => dsimp only; rw [heapFree_live]
    have h1 := heapCreate_live (Percival.Spec.AfMon.keyFn (els ++ s.keys)) (els.map (·.1)) (initMem s)
    generalize initMem s = m0 at h0 h1 ⊢
    rcases hr : HeapAlloc.create (Percival.Spec.AfMon.keyFn (els ++ s.keys)) (els.map (·.1)) m0 with ⟨o, m'⟩
    rw [hr] at h1 ⊢
    cases o with
    | none =>
      dsimp only at h1 ⊢
      have e1 : heapBlocks none = 0 := rfl
      exact acctRel_heap ha (by omega)
    | some hp =>
      dsimp only at h1 ⊢
      have e1 : heapBlocks (some hp) = 2 + bb hp.alloc := rfl
      exact acctRel_heap ha (by omega)

/-! ### registrations and cancellations -/

theorem immReg_heads_length (e : Ev) (id prio : Nat) (m : Mem) :
    (immReg e id prio m).2.1.heads.length = e.heads.length := by
  rw [Percival.Proofs.EvRegTimer.immReg_eq]
  rcases MPool.malloc e.recPool recSize m with ⟨o, p, m1⟩
  cases o with
  | none => rfl
  | some rid =>
    dsimp only
    rcases MPool.malloc e.qPool qSize m1 with ⟨oq, qp, m2⟩
    cases oq with
    | none => rfl
    | some qid => simp

theorem regImm_length (e : Ev) : (regImm e).length = e.heads.length := by simp [regImm, registry]

theorem step_regImm (s : S) (i prio : Nat) (hp : prio < 32) (ha : AcctRel s) : AcctRel (stepOp s (.regImm i prio)).1 := by
  simp only [stepOp]
  split
  · exact ha
  · have l1 := immReg_acct s.ev i prio s.m (by rw [regImm_length, ha.heads]; exact hp)
    have l2 := immReg_acctInv s.ev i prio s.m ha.acct
    have l3 := immReg_heads_length s.ev i prio s.m
    have l4 := (Percival.Proofs.EvRegTimer.immReg_other s.ev i prio s.m).2.2.2.1
    rcases hr : immReg s.ev i prio s.m with ⟨ok, e', m'⟩
    rw [hr] at l1 l2 l3 l4
    dsimp only at l1 l2 l3 l4 ⊢
    exact acctRel_ev ha l1 l2 l3 (fun fd w h => ha.net fd w ((netRegistered_of_socks l4 fd w).1 h))

theorem step_cancelImm (s : S) (i : Nat) (ha : AcctRel s) (hs : Side s) : AcctRel (stepOp s (.cancelImm i)).1 := by
  simp only [stepOp]
  cases hc : immCancel s.ev i s.m with
  | none => exact ha
  | some r =>
    obtain ⟨e', m'⟩ := r
    dsimp only
    have hreg : i ∈ (regImm s.ev).flatten := by
      apply Classical.byContradiction
      intro hn
      rw [immCancel_none s.ev i s.m hn] at hc
      cases hc
    obtain ⟨e'', m'', hc', hri, _, _, _, hso, _⟩ := Percival.Proofs.EvRegTimer.immCancel_ok s.ev i s.m hreg
    rw [hc] at hc'
    simp only [Option.some.injEq, Prod.mk.injEq] at hc'
    obtain ⟨rfl, rfl⟩ := hc'
    refine acctRel_ev ha (immCancel_acct s.ev i s.m hs.immNd hc) (immCancel_acctInv s.ev i s.m ha.acct hc) ?_
      (fun fd w h => ha.net fd w ((netRegistered_of_socks hso fd w).1 h))
    rw [← regImm_length, hri, List.length_map, regImm_length]

theorem step_regTm (s : S) (i : Nat) (us : Int) (ha : AcctRel s) : AcctRel (stepOp s (.regTm i us)).1 := by
  simp only [stepOp]
  split
  · exact ha
  · have l1 := tmReg_acct s.ev i us s.now s.m
    have l2 := tmReg_acctInv s.ev i us s.now s.m ha.acct
    obtain ⟨l3, _, _, _, l4, _⟩ := Percival.Proofs.EvRegTimer.tmReg_other s.ev i us s.now s.m
    rcases hr : tmReg s.ev i us s.now s.m with ⟨ok, e', m'⟩
    rw [hr] at l1 l2 l3 l4
    dsimp only at l1 l2 l3 l4 ⊢
    exact acctRel_ev ha l1 l2 (by rw [l3]) (fun fd w h => ha.net fd w ((netRegistered_of_socks l4 fd w).1 h))

theorem step_cancelTm (s : S) (i : Nat) (ha : AcctRel s) (hs : Side s) : AcctRel (stepOp s (.cancelTm i)).1 := by
  simp only [stepOp]
  cases hc : tmCancel s.ev i s.m with
  | none => exact ha
  | some r =>
    obtain ⟨e', m'⟩ := r
    dsimp only
    have hreg : i ∈ regTimers s.ev := by
      apply Classical.byContradiction
      intro hn
      rw [tmCancel_none s.ev i s.m hn] at hc
      cases hc
    obtain ⟨e'', m'', hc', _, _, hhe, _, _, _, hso, _⟩ := Percival.Proofs.EvRegTimer.tmCancel_ok s.ev i s.m hs.tmInv hreg
    rw [hc] at hc'
    simp only [Option.some.injEq, Prod.mk.injEq] at hc'
    obtain ⟨rfl, rfl⟩ := hc'
    exact acctRel_ev ha (tmCancel_acct s.ev i s.m hs.tmInv hc) (tmCancel_acctInv s.ev i s.m ha.acct hc) (by rw [hhe])
      (fun fd w h => ha.net fd w ((netRegistered_of_socks hso fd w).1 h))

theorem step_regNet (s : S) (i sfd : Nat) (isW : Bool) (ha : AcctRel s) (hs : Side s) :
    AcctRel (stepOp s (.regNet i sfd isW)).1 := by
  simp only [stepOp]
  split
  · exact ha
  · have l1 := netReg_acct s.ev i sfd isW s.m ha.acct
    have l2 := netReg_acctInv s.ev i sfd isW s.m ha.acct
    have l3 := (Percival.Proofs.EvRegNet.netReg_other s.ev i sfd isW s.m).1
    have l4 := (Percival.Proofs.EvRegNet.netReg_spec s.ev i sfd isW s.m hs.netInv).2
    have l5 := Percival.Proofs.EvRegNet.netReg_notok s.ev i sfd isW s.m hs.netInv
    rcases hr : netReg s.ev i sfd isW s.m with ⟨r, e', m'⟩
    rw [hr] at l1 l2 l3 l4 l5
    dsimp only at l1 l2 l3 l4 l5 ⊢
    refine acctRel_ev ha l1 l2 (by rw [l3]) (fun fd w h => ?_)
    by_cases hok : r = .ok
    · rw [if_pos hok]
      obtain ⟨id, hid⟩ := h
      rcases l4 with ⟨_, _, c⟩ | ⟨a, _⟩ | ⟨a, _⟩
      · rcases (c _).1 hid with heq | hin
        · cases heq; exact List.mem_cons_self
        · exact List.mem_cons_of_mem _ (ha.net fd w ⟨id, hin⟩)
      · rw [hok] at a; cases a
      · rw [hok] at a; cases a
    · rw [if_neg hok]
      obtain ⟨id, hid⟩ := h
      have : regNet e' = regNet s.ev := by simp only [regNet, l5 hok]
      rw [this] at hid
      exact ha.net fd w ⟨id, hid⟩

theorem step_cancelNet (s : S) (sfd : Nat) (isW : Bool) (ha : AcctRel s) (hs : Side s) :
    AcctRel (stepOp s (.cancelNet sfd isW)).1 := by
  simp only [stepOp]
  split
  · exact ha
  · have l1 := netCancel_acct s.ev sfd isW s.m ha.acct
    have l2 := netCancel_acctInv s.ev sfd isW s.m ha.acct
    have l3 := (Percival.Proofs.EvRegNet.netCancel_other s.ev sfd isW s.m).1
    obtain ⟨_, l4, l5⟩ := netCancel_any s.ev sfd isW s.m hs.netInv
    rcases hr : netCancel s.ev sfd isW s.m with ⟨r, e', m'⟩
    rw [hr] at l1 l2 l3 l4 l5
    dsimp only at l1 l2 l3 l4 l5 ⊢
    refine acctRel_ev ha l1 l2 (by rw [l3]) (fun fd w h => ?_)
    have hin : (fd, w) ∈ s.net := by
      obtain ⟨id, hid⟩ := h
      exact ha.net fd w ⟨id, l4 _ hid⟩
    by_cases hok : r = .ok
    · rw [if_pos hok]
      have hne : (fd, w) ≠ (sfd, isW) := by
        intro heq
        cases heq
        exact l5 h
      exact (List.mem_erase_of_ne hne).2 hin
    · rw [if_neg hok]
      exact hin

/-! ### every operation but `end` and `events_run` -/

/-- **`AcctRel` is kept by every operation other than `end` and `events_run`** (for `events_run` see part C) -/
theorem acctRel_step_norun (s : S) (op : Op) (ha : AcctRel s) (hs : Side s) (hok : OpOk op) (h1 : op ≠ .end_)
    (h2 : op ≠ .run) : AcctRel (stepOp s op).1 := by
  cases op with
  | failat k => exact acctRel_frame ha rfl rfl rfl rfl
  | failfrom k => exact acctRel_frame ha rfl rfl rfl rfl
  | failoff => exact acctRel_frame ha rfl rfl rfl rfl
  | end_ => exact absurd rfl h1
  | hInit => exact step_hInit s ha
  | hAdd e k => exact step_hAdd s e k ha
  | hMin => exact step_hMin s ha
  | hDelmin => exact step_hDelmin s ha
  | hFree => exact step_hFree s ha
  | hCreate els => exact step_hCreate s els ha
  | regImm i prio => exact step_regImm s i prio hok ha
  | cancelImm i => exact step_cancelImm s i ha hs
  | regTm i us => exact step_regTm s i us ha
  | cancelTm i => exact step_cancelTm s i ha hs
  | regNet i fd w => exact step_regNet s i fd w ha hs
  | cancelNet fd w => exact step_cancelNet s fd w ha hs
  | clock us => exact acctRel_frame ha rfl rfl rfl rfl
  | run => exact absurd rfl h2

end Percival.Proofs.AfMonEnd
