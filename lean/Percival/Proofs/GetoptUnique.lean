import Percival.Proofs.Getopt
/-! With `=`-free long names the Spec's table lookup does not depend on the order of the table (C18). -/
namespace Percival.Proofs.Getopt
open Percival.Spec.Getopt Percival.Model.Getopt

theorem matchOpt_cases {o : Opt} {w : Str} {v : Option Str} (h : matchOpt o w = some v) :
    w = o.name ∨ (o.name ++ [eqc]) <+: w := by
  unfold matchOpt at h
  by_cases h1 : w = o.name
  · exact Or.inl h1
  · by_cases h2 : (o.name ++ [eqc]).isPrefixOf w = true
    · exact Or.inr (List.isPrefixOf_iff_prefix.mp h2)
    · simp [h1, h2] at h

theorem prefix_eq_mem {n m : Str} (h : (n ++ [eqc]) <+: m) : eqc ∈ m ∧ n.length + 1 ≤ m.length := by
  obtain ⟨t, rfl⟩ := h
  constructor
  · simp
  · simp

/-- two valid `=`-free names that both denote the same word are the same name -/
theorem match_two {a b : Opt} {w : Str} {va vb : Option Str}
    (hva : ValidName a.name) (hvb : ValidName b.name) (hea : EqFreeLong a.name) (heb : EqFreeLong b.name)
    (ha : matchOpt a w = some va) (hb : matchOpt b w = some vb) : a.name = b.name := by
  have la := validName_length hva
  have lb := validName_length hvb
  rcases matchOpt_cases ha with ha | ha <;> rcases matchOpt_cases hb with hb | hb
  · rw [← ha, ← hb]
  · rw [ha] at hb
    obtain ⟨hm, hl⟩ := prefix_eq_mem hb
    exact absurd hm (hea (by omega))
  · rw [hb] at ha
    obtain ⟨hm, hl⟩ := prefix_eq_mem ha
    exact absurd hm (heb (by omega))
  · -- both `name=` are prefixes of w: one is a prefix of the other
    rcases Nat.le_total (a.name ++ [eqc]).length (b.name ++ [eqc]).length with hle | hle
    · have hp := List.prefix_of_prefix_length_le ha hb hle
      by_cases heq : a.name.length = b.name.length
      · have := hp.eq_of_length (by simp [heq])
        exact List.append_inj_left' this rfl
      · have hlt : a.name.length < b.name.length := by simp at hle; omega
        obtain ⟨t, ht⟩ := hp
        -- a.name ++ [=] ++ t = b.name ++ [=], a.name shorter: '=' occurs in b.name
        have : eqc ∈ b.name := by
          have h1 : (a.name ++ [eqc] ++ t)[a.name.length]? = some eqc := by simp
          rw [ht, List.getElem?_append_left hlt] at h1
          exact List.mem_of_getElem? h1
        exact absurd this (heb (by omega))
    · have hp := List.prefix_of_prefix_length_le hb ha hle
      by_cases heq : b.name.length = a.name.length
      · have := hp.eq_of_length (by simp [heq])
        exact (List.append_inj_left' this rfl).symm
      · have hlt : b.name.length < a.name.length := by simp at hle; omega
        obtain ⟨t, ht⟩ := hp
        have : eqc ∈ a.name := by
          have h1 : (b.name ++ [eqc] ++ t)[b.name.length]? = some eqc := by simp
          rw [ht, List.getElem?_append_left hlt] at h1
          exact List.mem_of_getElem? h1
        exact absurd this (hea (by omega))

theorem lookupLong_unique (opts : List Opt)
    (hv : ∀ o ∈ opts, ValidName o.name ∧ EqFreeLong o.name)
    (hd : opts.Pairwise (fun a b => a.name ≠ b.name)) (w : Str) (o : Opt) (v : Option Str)
    (ho : o ∈ opts) (hm : matchOpt o w = some v) : lookupLong opts w = some (o, v) := by
  induction opts with
  | nil => cases ho
  | cons a rest ih =>
    rw [List.pairwise_cons] at hd
    simp only [lookupLong]
    rcases List.mem_cons.mp ho with rfl | ho'
    · simp [hm]
    · cases hma : matchOpt a w with
      | some va =>
        have := match_two (hv a (by simp)).1 (hv o ho).1 (hv a (by simp)).2 (hv o ho).2 hma hm
        exact absurd this (hd.1 o ho')
      | none =>
        exact ih (fun o ho => hv o (List.mem_cons_of_mem _ ho)) hd.2 ho'
end Percival.Proofs.Getopt
