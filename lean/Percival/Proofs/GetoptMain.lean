import Percival.Proofs.GetoptLoop
/-! Assembly of the C18 results: a whole parse from an arbitrary prior state. -/
namespace Percival.Proofs.Getopt
open Percival.Spec.Getopt Percival.Model.Getopt

theorem cost_drop_le (argv : List Str) : cost (argv.drop 1) ≤ cost argv := by
  cases argv with
  | nil => simp
  | cons a rest => rw [List.drop_one, List.tail_cons, cost_cons]; omega

theorem fuelFor_eq (argv : List Str) : fuelFor argv = cost argv + 2 := by
  simp [fuelFor, cost]; omega

/-- `ready` forgets everything about the prior state except `cmdname` -/
theorem ready_congr (lines : List Line) (argv : List Str) (s s' : St) (h : argv ≠ [] ∨ s.cmdname = s'.cmdname) :
    ready lines argv s = ready lines argv s' := by
  cases argv with
  | nil =>
    rcases h with h | h
    · exact absurd rfl h
    · simp [ready, reset, h]
  | cons a rest => simp [ready, reset]

/-- the first call after `optreset = 1` returns the dummy, the switch registers the table -/
theorem loop_start (lines : List Line) (hwf : (tableOf lines).WF) (argv : List Str) (s : St) (f : Nat)
    (hr : s.optreset = true) :
    loop lines argv (f + 1) s = loop lines argv f (ready lines argv s) :=
  loop_dummy (getopt_reset argv s hr) (initPass_ok lines hwf argv s)

theorem run_start (lines : List Line) (hwf : (tableOf lines).WF) (argv : List Str) (s : St) :
    run lines argv s = loop lines argv (cost argv + 1) (ready lines argv s) := by
  unfold run
  rw [fuelFor_eq]
  rw [show cost argv + 2 = (cost argv + 1) + 1 from rfl, loop_start lines hwf argv _ _ rfl]
  rfl

/-- with any fuel beyond the bound, the loop after a reset does what the Spec says -/
theorem loop_spec (lines : List Line) (hwf : (tableOf lines).WF) (argv : List Str)
    (hnul : ∀ a ∈ argv, NulFree a) (s : St) (hr : s.optreset = true) (fuel : Nat)
    (hfuel : fuelFor argv ≤ fuel) :
    ∃ evs sf, loop lines argv fuel s = pure (evs, sf) ∧
      evs.map (·.1) = (parseArgv (tableOf lines) argv).1 ∧
      sf.optind = (parseArgv (tableOf lines) argv).2 ∧ Inv lines sf ∧ sf.packed = none := by
  rw [fuelFor_eq] at hfuel
  obtain ⟨f, rfl⟩ : ∃ f, fuel = f + 1 := ⟨fuel - 1, by omega⟩
  rw [loop_start lines hwf argv s f hr]
  have hg := good_all hwf hnul (argv.drop 1).length (argv.drop 1) 1 rfl rfl
  have hc := cost_drop_le argv
  obtain ⟨evs, sf, h1, h2, h3, h4, h5⟩ :=
    hg (ready lines argv s) f (ready_inv lines argv s) rfl rfl (by omega)
  exact ⟨evs, sf, h1, by simpa [parseArgv] using h2, by simpa [parseArgv] using h3, h4, h5⟩

/-- more fuel never changes a completed loop -/
theorem loop_mono (lines : List Line) (argv : List Str) :
    ∀ (f : Nat) (s : St) (r : List (Report × St) × St),
      loop lines argv f s = .ok r → loop lines argv (f + 1) s = .ok r := by
  intro f
  induction f with
  | zero => intro s r h; simp [loop] at h
  | succ f ih =>
    intro s r h
    rw [loop] at h ⊢
    cases hg : Model.Getopt.getopt argv s with
    | error e => rw [hg] at h; cases h
    | ok p =>
      obtain ⟨ret, s1⟩ := p
      rw [hg] at h
      cases ret with
      | null => exact h
      | dummy =>
        simp only [bind, Except.bind] at h ⊢
        cases hi : initPass lines s1 with
        | error e => rw [hi] at h; cases h
        | ok s2 =>
          rw [hi] at h
          exact ih s2 r h
      | os ch =>
        simp only [bind, Except.bind] at h ⊢
        cases hd : dispatch lines s1 ch with
        | error e => rw [hd] at h; cases h
        | ok lbl =>
          rw [hd] at h
          simp only at h ⊢
          cases hl : loop lines argv f s1 with
          | error e => rw [hl] at h; cases h
          | ok q =>
            rw [hl] at h
            rw [ih s1 q hl]
            exact h

theorem loop_mono_le (lines : List Line) (argv : List Str) (f g : Nat) (hfg : f ≤ g) (s : St)
    (r : List (Report × St) × St) (h : loop lines argv f s = .ok r) : loop lines argv g s = .ok r := by
  induction g with
  | zero =>
    have : f = 0 := by omega
    subst this; exact h
  | succ g ih =>
    by_cases hfg' : f ≤ g
    · exact loop_mono lines argv g s r (ih hfg')
    · have : f = g + 1 := by omega
      subst this; exact h

end Percival.Proofs.Getopt
