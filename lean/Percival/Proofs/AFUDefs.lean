import Percival.Proofs.AllocFailUpper
/-! C14, upper layers: small definitions shared by the specs of the buffered reader / writer -/
namespace Percival.Proofs.AllocFailUpper
open Percival.Model Percival.Model.AllocFail

/-- replace the reader with this id -/
def updReader (l : List Reader) (r' : Reader) : List Reader := l.map (fun x => if x.id == r'.id then r' else x)

/-- replace the writer with this id -/
def updWriter (l : List Writer) (x' : Writer) : List Writer := l.map (fun y => if y.id == x'.id then x' else y)

/-- the preconditions `netbuf_write_consume` asserts -/
def consumeOk (x : Writer) (len : Nat) : Prop :=
  x.reserved = true ∧ ∃ wb, x.queue.getLast? = some wb ∧ len ≤ wb.buflen - wb.datalen

end Percival.Proofs.AllocFailUpper
