import Percival.Proofs.EQueue
import Percival.Model.SeqMap
/-!
# Helper lemmas for the sequential-pointer-map model (C12, C14)
-/
namespace Percival.Proofs.SeqMap
open Percival.Model Percival.Model.EArray Percival.Model.EQueue Percival.Model.SeqMap Percival.Spec.DS
open Percival.Proofs.EArray Percival.Proofs.EQueue

/-! ### pointers as 8 bytes -/

theorem encPtr_length (p : Nat) : (encPtr p).length = 8 := rfl

theorem decPtr_encPtr (p : Nat) (hp : p < 2^64) : decPtr (encPtr p) = some p := by
  simp only [encPtr, decPtr, UInt8.toNat_ofNat']
  congr 1
  omega

theorem decPtr_of_length {b : List UInt8} (h : b.length = 8) : ∃ p, decPtr b = some p := by
  match b, h with
  | [_, _, _, _, _, _, _, _], _ => exact ⟨_, rfl⟩

/-! ### `liveFrom` -/

/-- pointer stored at position `k` of a record list (0 when absent) -/
def ptrAt (l : List (List UInt8)) (k : Nat) : Nat :=
  match l[k]? with
  | some b => match decPtr b with
    | some p => p
    | none => 0
  | none => 0

theorem liveFrom_num_ge : ∀ (l : List (List UInt8)) (base : Int) (e : Int × Nat), e ∈ liveFrom base l →
    base ≤ e.1 ∧ e.1 < base + l.length
  | [], _, _, h => by simp [liveFrom] at h
  | b :: rest, base, e, h => by
    simp only [liveFrom] at h
    have ih := liveFrom_num_ge rest (base + 1) e
    simp only [List.length_cons, Int.natCast_add, Int.natCast_one]
    split at h
    · split at h
      · have := ih h; omega
      · rcases List.mem_cons.1 h with h1 | h1
        · subst h1; simp; omega
        · have := ih h1; omega
    · have := ih h; omega

theorem lookup_liveFrom : ∀ (l : List (List UInt8)) (base i : Int),
    smLookup (liveFrom base l) i = if base ≤ i then ptrAt l (i - base).toNat else 0
  | [], base, i => by simp [liveFrom, smLookup, ptrAt]
  | b :: rest, base, i => by
    have ih := lookup_liveFrom rest (base + 1) i
    simp only [liveFrom]
    by_cases hbi : base = i
    · subst hbi
      have hz : smLookup (liveFrom (base + 1) rest) base = 0 := by rw [ih, if_neg (by omega)]
      simp only [Int.le_refl, if_true, Int.sub_self, Int.toNat_zero, ptrAt, List.getElem?_cons_zero]
      cases hd : decPtr b with
      | none => simpa using hz
      | some p =>
        by_cases hp : p = 0
        · simp only [hp, if_true]; simpa using hz
        · simp [hp, smLookup]
    · have hrest : (if base + 1 ≤ i then ptrAt rest (i - (base + 1)).toNat else 0)
          = if base ≤ i then ptrAt (b :: rest) (i - base).toNat else 0 := by
        by_cases hlt : base < i
        · rw [if_pos (by omega), if_pos (by omega)]
          have : (i - base).toNat = (i - (base + 1)).toNat + 1 := by omega
          rw [this]; simp [ptrAt]
        · rw [if_neg (by omega), if_neg (by omega)]
      cases hd : decPtr b with
      | none => simp only; rw [ih, hrest]
      | some p =>
        by_cases hp : p = 0
        · simp only [hp, if_true]; rw [ih, hrest]
        · simp only [hp, if_false]
          have : smLookup ((base, p) :: liveFrom (base + 1) rest) i = smLookup (liveFrom (base + 1) rest) i := by
            simp [smLookup, hbi]
          rw [this, ih, hrest]

theorem liveFrom_append : ∀ (l : List (List UInt8)) (base : Int) (b : List UInt8) (p : Nat),
    decPtr b = some p → p ≠ 0 → liveFrom base (l ++ [b]) = liveFrom base l ++ [(base + l.length, p)]
  | [], base, b, p, hd, hp => by simp [liveFrom, hd, hp]
  | c :: rest, base, b, p, hd, hp => by
    have ih := liveFrom_append rest (base + 1) b p hd hp
    have e : base + 1 + (rest.length : Int) = base + ((rest.length : Int) + 1) := by omega
    simp only [List.cons_append, liveFrom, ih, List.length_cons, Int.natCast_add, Int.natCast_one, e]
    split
    · split <;> simp
    · rfl

/-- overwriting entry `k` with NULL removes exactly number `base + k` -/
theorem liveFrom_set_null : ∀ (l : List (List UInt8)) (base : Int) (k : Nat) (z : List UInt8),
    decPtr z = some 0 → k < l.length →
    liveFrom base (l.set k z) = (liveFrom base l).filter (fun e => e.1 != base + k)
  | [], _, _, _, _, h => by simp at h
  | c :: rest, base, 0, z, hz, _ => by
    have hall : ∀ e ∈ liveFrom (base + 1) rest, (e.1 != base) = true := by
      intro e he; have := (liveFrom_num_ge rest (base + 1) e he).1; simp; omega
    simp only [List.set_cons_zero, liveFrom, hz, if_true, Int.natCast_zero, Int.add_zero]
    cases hd : decPtr c with
    | none => simp only; rw [List.filter_eq_self.2 hall]
    | some p =>
      by_cases hp : p = 0
      · simp only [hp, if_true]; rw [List.filter_eq_self.2 hall]
      · simp only [hp, if_false, List.filter_cons]; simp; rw [List.filter_eq_self.2 hall]
  | c :: rest, base, k+1, z, hz, hk => by
    have ih := liveFrom_set_null rest (base + 1) k z hz (by simpa using hk)
    have e : base + 1 + (k : Int) = base + ((k : Int) + 1) := by omega
    simp only [List.set_cons_succ, liveFrom, ih, Int.natCast_add, Int.natCast_one, e]
    cases hd : decPtr c with
    | none => rfl
    | some p =>
      by_cases hp : p = 0
      · simp only [hp, if_true]
      · simp only [hp, if_false, List.filter_cons]
        have : ((base, p).1 != base + ((k : Int) + 1)) = true := by simp; omega
        simp only [this, if_true]

/-! ### invariants -/

theorem chunks_mem_length (r : Nat) : ∀ (n : Nat) (l : List UInt8), n * r ≤ l.length → ∀ b ∈ chunks r n l, b.length = r
  | 0, _, _, b, hb => by simp [chunks] at hb
  | n+1, l, hl, b, hb => by
    have hl' : n * r + r ≤ l.length := by rw [← Nat.succ_mul]; exact hl
    simp only [chunks, List.mem_cons] at hb
    rcases hb with rfl | hb
    · rw [List.length_take]; omega
    · exact chunks_mem_length r n (l.drop r) (by rw [List.length_drop]; omega) b hb

theorem abs_mem_length (q : EQ) (h : QInv q) : ∀ b ∈ EQueue.abs q, b.length = q.reclen.val := by
  apply chunks_mem_length
  rw [List.length_drop, contents_length h.ea, h.sz, Nat.add_mul]; omega

/-- invariant of `struct seqptrmap`, except for "the front entry is not NULL" -/
structure MInv0 (s : SM) : Prop where
  q : QInv s.q
  rl : s.q.reclen = ptrLen
  len : s.len = s.q.len
  off : 0 ≤ s.offset

/-- the front entry, if any, holds a non-NULL pointer (so `getmin` may return `offset`) -/
def FrontOk (s : SM) : Prop := ∀ b, (EQueue.abs s.q).head? = some b → decPtr b ≠ some 0

def MInv (s : SM) : Prop := MInv0 s ∧ FrontOk s

theorem abs_dec (s : SM) (h : MInv0 s) : ∀ b ∈ EQueue.abs s.q, ∃ p, decPtr b = some p := by
  intro b hb
  apply decPtr_of_length
  rw [abs_mem_length s.q h.q b hb, h.rl]; rfl

/-- `*(void **)elasticqueue_get(M->ptrs, pos)` for an existing position is the stored pointer -/
theorem deref_spec (s : SM) (pos : Nat) (h : MInv0 s) (hp : pos < s.len) :
    ∃ b, (EQueue.abs s.q)[pos]? = some b ∧ deref s pos = .ptr (ptrAt (EQueue.abs s.q) pos) := by
  have hg := get_abs s.q pos h.q
  have hs := get_spec s.q pos h.q
  have hp' : pos < s.q.len := by rw [← h.len]; exact hp
  rw [hs.1 hp'] at hg
  simp only at hg
  obtain ⟨p, hd⟩ := abs_dec s h _ (List.mem_of_getElem? hg)
  refine ⟨_, hg, ?_⟩
  simp only [deref, hs.1 hp', ptrAt, hg, hd]

theorem get_spec' (s : SM) (i : Int) (h : MInv0 s) :
    SeqMap.get s i = .ptr (smLookup (SeqMap.abs s).live i) := by
  simp only [SeqMap.abs, lookup_liveFrom, SeqMap.get]
  by_cases h1 : i < s.offset
  · rw [if_pos h1, if_neg (show ¬ s.offset ≤ i by omega)]
  · rw [if_neg h1, if_pos (show s.offset ≤ i by omega)]
    by_cases h2 : (i - s.offset).toNat ≥ s.len
    · rw [if_pos h2]
      have : (EQueue.abs s.q)[(i - s.offset).toNat]? = none := by
        rw [List.getElem?_eq_none_iff, EQueue.abs_length, ← h.len]; exact h2
      simp [ptrAt, this]
    · rw [if_neg h2]
      obtain ⟨_, _, hd⟩ := deref_spec s (i - s.offset).toNat h (by omega)
      exact hd

theorem INT64_MAX_eq : INT64_MAX = 9223372036854775807 := by decide

theorem add_spec (s : SM) (p : Nat) (m : Mem) (h : MInv s) (hp0 : 0 < p) (hp : p < 2^64)
    (hq : (s.q.offset + s.q.len + 1) * 8 ≤ EArray.SIZE_MAX) (hn : s.offset + s.len + 1 ≤ INT64_MAX) :
    MInv (SeqMap.add s p m).2.1 ∧
    ((∃ i, (SeqMap.add s p m).1 = .num i ∧ i = s.offset + s.len ∧
        (SeqMap.abs (SeqMap.add s p m).2.1) =
          SmIdeal.mk ((SeqMap.abs s).live ++ [((SeqMap.abs s).next, p)]) ((SeqMap.abs s).next + 1) ∧
        (SeqMap.add s p m).2.1.offset = s.offset ∧ (SeqMap.add s p m).2.1.len = s.len + 1 ∧
        (SeqMap.add s p m).2.1.q.offset = s.q.offset ∧ (SeqMap.add s p m).2.1.q.len = s.q.len + 1) ∨
     ((SeqMap.add s p m).1 = .fail ∧ (SeqMap.add s p m).2.1 = s ∧ (SeqMap.add s p m).2.2.refusals = m.refusals + 1)) ∧
    (SeqMap.add s p m).2.2.live + bufBlocks s.q.ea = m.live + bufBlocks (SeqMap.add s p m).2.1.q.ea := by
  obtain ⟨h0, hfront⟩ := h
  have hrl : s.q.reclen.val = 8 := by rw [h0.rl]; rfl
  have hs := EQueue.add_spec s.q (encPtr p) m h0.q (by rw [hrl]; rfl)
    (by rw [h0.q.sz, hrl]; rw [Nat.succ_mul] at hq; exact hq)
  have hdec := decPtr_encPtr p hp
  unfold SeqMap.add
  rcases hres : EQueue.add s.q (encPtr p) m with ⟨st, q', m'⟩
  rw [hres] at hs
  obtain ⟨hinv', hno, ⟨hrl', hoff'⟩, hok, hfail, hlive⟩ := hs
  simp only at hinv' hno hrl' hoff' hok hfail hlive
  cases st
  · obtain ⟨habs, hlen, _⟩ := hok rfl
    have hnoassert : ¬ (((s.len + 1 : Nat) : Int) > INT64_MAX ∨ INT64_MAX - ((s.len + 1 : Nat) : Int) < s.offset) := by
      have := h0.off; omega
    simp only [hnoassert, if_false]
    refine ⟨⟨⟨hinv', by rw [hrl']; exact h0.rl, by simp [hlen, h0.len], h0.off⟩, ?_⟩, Or.inl ⟨_, rfl, by omega, ?_, by triv, by triv, hoff', hlen⟩, hlive⟩
    · intro b hb
      simp only at hb
      rw [habs] at hb
      cases hq0 : EQueue.abs s.q with
      | nil => rw [hq0] at hb; simp at hb; subst hb; rw [hdec]; simp; omega
      | cons c rest => rw [hq0] at hb; simp at hb; subst hb; exact hfront c (by rw [hq0]; rfl)
    · simp only [SeqMap.abs, habs]
      rw [liveFrom_append _ _ _ p hdec (by omega), EQueue.abs_length, h0.len]
      congr 1; simp; omega
  · obtain ⟨hq', hrf⟩ := hfail rfl
    subst hq'
    exact ⟨⟨h0, hfront⟩, Or.inr ⟨by triv, by triv, hrf⟩, hlive⟩
  · exact absurd rfl hno

theorem getmin_spec (s : SM) (h : MInv s) : smMinOk (SeqMap.abs s).live (getmin s) = true := by
  obtain ⟨h0, hfront⟩ := h
  simp only [getmin, getlen, SeqMap.abs]
  have hl := EQueue.abs_length s.q
  cases hq : EQueue.abs s.q with
  | nil =>
    have : s.q.len = 0 := by rw [← hl, hq]; rfl
    simp [this, liveFrom, smMinOk]
  | cons b rest =>
    have : s.q.len ≠ 0 := by rw [← hl, hq]; simp
    simp only [this, if_false]
    obtain ⟨p, hd⟩ := abs_dec s h0 b (by rw [hq]; exact List.mem_cons_self)
    have hp : p ≠ 0 := fun h' => hfront b (by rw [hq]; rfl) (by rw [hd, h'])
    simp only [liveFrom, hd, hp, if_false, smMinOk]
    simp
    intro a b' hm
    have := (liveFrom_num_ge rest (s.offset + 1) (a, b') hm).1
    simp at this; omega

theorem trimLoop_spec : ∀ (fuel : Nat) (s : SM) (m : Mem), MInv0 s → s.q.len ≤ fuel →
    (trimLoop fuel s m).1 = .ok ∧ MInv (trimLoop fuel s m).2.1 ∧
    SeqMap.abs (trimLoop fuel s m).2.1 = SeqMap.abs s ∧
    (trimLoop fuel s m).2.1.q.offset + (trimLoop fuel s m).2.1.q.len ≤ s.q.offset + s.q.len ∧
    (trimLoop fuel s m).2.1.offset + (trimLoop fuel s m).2.1.len = s.offset + s.len ∧
    (trimLoop fuel s m).2.2.live + bufBlocks s.q.ea = m.live + bufBlocks (trimLoop fuel s m).2.1.q.ea := by
  intro fuel
  induction fuel with
  | zero =>
    intro s m h0 hf
    have hl := EQueue.abs_length s.q
    have hlen0 : s.q.len = 0 := by omega
    unfold trimLoop
    simp only [getlen, hlen0, if_true]
    refine ⟨by triv, ⟨h0, ?_⟩, by triv, Nat.le_refl _, by triv, by triv⟩
    intro b hb
    have : EQueue.abs s.q = [] := List.eq_nil_of_length_eq_zero (by rw [hl, hlen0])
    rw [this] at hb; cases hb
  | succ fuel ih =>
    intro s m h0 hf
    have hl := EQueue.abs_length s.q
    unfold trimLoop
    by_cases hlen0 : s.q.len = 0
    · simp only [getlen, hlen0, if_true]
      refine ⟨by triv, ⟨h0, ?_⟩, by triv, Nat.le_refl _, by triv, by triv⟩
      intro b hb
      have : EQueue.abs s.q = [] := List.eq_nil_of_length_eq_zero (by rw [hl, hlen0])
      rw [this] at hb; cases hb
    · simp only [getlen, hlen0, if_false]
      obtain ⟨b, hb, hd⟩ := deref_spec s 0 h0 (by rw [h0.len]; omega)
      obtain ⟨p, hp⟩ := abs_dec s h0 b (List.mem_of_getElem? hb)
      have hpt : ptrAt (EQueue.abs s.q) 0 = p := by simp only [ptrAt, hb, hp]
      rw [hd, hpt]
      simp only
      have hhead : (EQueue.abs s.q).head? = some b := by rw [List.head?_eq_getElem?]; exact hb
      by_cases hp0 : p = 0
      · subst hp0
        simp only [ne_eq, not_true_eq_false, if_false]
        have hs := EQueue.delete_spec s.q m h0.q
        rcases hres : EQueue.delete s.q m with ⟨st, q', m'⟩
        rw [hres] at hs
        obtain ⟨hst, hinv', hrl', habs', hlen', hle', hlive'⟩ := hs
        simp only at hst hinv' hrl' habs' hlen' hle' hlive'
        subst hst
        simp only
        have h0' : MInv0 { q := q', offset := s.offset + 1, len := s.len - 1 } :=
          ⟨hinv', by rw [hrl']; exact h0.rl, by simp [hlen', h0.len], by have := h0.off; simp; omega⟩
        have hi := ih { q := q', offset := s.offset + 1, len := s.len - 1 } m' h0' (by simp [hlen']; omega)
        obtain ⟨i1, i2, i3, i4, i5, i6⟩ := hi
        refine ⟨i1, i2, ?_, by simp at i4; omega, ?_, ?_⟩
        · rw [i3]
          simp only [SeqMap.abs, habs']
          obtain ⟨rest, hrest⟩ : ∃ rest, EQueue.abs s.q = b :: rest := by
            cases hq : EQueue.abs s.q with
            | nil => rw [hq] at hhead; cases hhead
            | cons c rest => rw [hq] at hhead; simp at hhead; subst hhead; exact ⟨rest, rfl⟩
          rw [hrest]
          simp only [List.tail_cons, liveFrom, hp, if_true]
          congr 1
          have := h0.len; omega
        · simp at i5; have := h0.len; omega
        · simp at i6; omega
      · simp only [ne_eq, hp0, not_false_eq_true, if_true]
        refine ⟨by triv, ⟨h0, ?_⟩, by triv, Nat.le_refl _, by triv, by triv⟩
        intro c hc
        rw [hhead] at hc; cases hc
        rw [hp]; simp; exact hp0

theorem delete_spec (s : SM) (i : Int) (m : Mem) (h : MInv s) :
    (SeqMap.delete s i m).1 = .ok ∧ MInv (SeqMap.delete s i m).2.1 ∧
    SeqMap.abs (SeqMap.delete s i m).2.1 =
      { SeqMap.abs s with live := (SeqMap.abs s).live.filter (fun e => e.1 != i) } ∧
    (SeqMap.delete s i m).2.1.q.offset + (SeqMap.delete s i m).2.1.q.len ≤ s.q.offset + s.q.len ∧
    (SeqMap.delete s i m).2.1.offset + (SeqMap.delete s i m).2.1.len = s.offset + s.len ∧
    (SeqMap.delete s i m).2.2.live + bufBlocks s.q.ea = m.live + bufBlocks (SeqMap.delete s i m).2.1.q.ea := by
  obtain ⟨h0, hfront⟩ := h
  have hl := EQueue.abs_length s.q
  have hnofilter : (i < s.offset ∨ s.offset + s.len ≤ i) →
      (SeqMap.abs s).live.filter (fun e => e.1 != i) = (SeqMap.abs s).live := by
    intro hi
    apply List.filter_eq_self.2
    intro e he
    have := liveFrom_num_ge _ _ e he
    rw [hl, ← h0.len] at this
    simp; omega
  unfold SeqMap.delete
  by_cases h1 : i < s.offset
  · rw [if_pos h1]
    refine ⟨rfl, ⟨h0, hfront⟩, ?_, Nat.le_refl _, rfl, rfl⟩
    rw [hnofilter (Or.inl h1)]
  · rw [if_neg h1]
    by_cases h2 : (i - s.offset).toNat ≥ s.len
    · rw [if_pos h2]
      refine ⟨rfl, ⟨h0, hfront⟩, ?_, Nat.le_refl _, rfl, rfl⟩
      rw [hnofilter (Or.inr (by omega))]
    · rw [if_neg h2]
      have hrl : s.q.reclen.val = 8 := by rw [h0.rl]; rfl
      obtain ⟨q1, hset, hinv1, hrl1, hlen1, hoff1, hsz1, hal1, habs1⟩ :=
        EQueue.set_spec s.q (i - s.offset).toNat (encPtr 0) h0.q (by rw [← h0.len]; omega) (by rw [hrl]; rfl)
      rw [hset]
      simp only
      have h01 : MInv0 { s with q := q1 } := ⟨hinv1, by rw [hrl1]; exact h0.rl, by simp [hlen1, h0.len], h0.off⟩
      have ht := trimLoop_spec (s.len + 1) { s with q := q1 } m h01 (by simp [hlen1, h0.len])
      obtain ⟨t1, t2, t3, t4, t5, t6⟩ := ht
      refine ⟨t1, t2, ?_, by simp [hlen1, hoff1] at t4; exact t4, by simpa using t5, ?_⟩
      · rw [t3]
        simp only [SeqMap.abs, habs1]
        rw [liveFrom_set_null _ _ _ _ (decPtr_encPtr 0 (by decide)) (by rw [hl, ← h0.len]; omega)]
        have : s.offset + (((i - s.offset).toNat : Nat) : Int) = i := by omega
        rw [this]
      · have : bufBlocks q1.ea = bufBlocks s.q.ea := by simp [bufBlocks, hal1]
        simp only [this] at t6; exact t6

/-- what has to be shown about one map step -/
def MStepOk (s : SM) (op : SmOp) (m : Mem) : Prop :=
  MInv (SeqMap.step s op m).2.1 ∧
  smAdmit (SeqMap.abs s) op (SeqMap.step s op m).1 = some (SeqMap.abs (SeqMap.step s op m).2.1) ∧
  (SeqMap.step s op m).2.1.q.offset + (SeqMap.step s op m).2.1.q.len ≤ s.q.offset + s.q.len + 1 ∧
  (SeqMap.step s op m).2.1.offset + (SeqMap.step s op m).2.1.len ≤ s.offset + s.len + 1

/-- **every map step is admitted by the ideal map and `abs` commutes** -/
theorem mstep_ok (s : SM) (op : SmOp) (m : Mem) (h : MInv s) (hc : smContract op)
    (hq : (s.q.offset + s.q.len + 1) * 8 ≤ EArray.SIZE_MAX) (hn : s.offset + s.len + 1 ≤ INT64_MAX) :
    MStepOk s op m := by
  unfold MStepOk
  cases op with
  | add p =>
    simp only [smContract] at hc
    have hs := add_spec s p m h hc.1 hc.2 hq hn
    simp only [SeqMap.step]
    rcases hres : SeqMap.add s p m with ⟨r, s', m'⟩
    rw [hres] at hs
    obtain ⟨hinv', hcases, _⟩ := hs
    simp only at hinv' hcases
    rcases hcases with ⟨i, hr, hi, habs, ho, hl, hqo, hql⟩ | ⟨hr, hs', hrf⟩
    · subst hr
      simp only
      refine ⟨hinv', ?_, by omega, by omega⟩
      rw [habs]
      simp [smAdmit, SeqMap.ans, hi, SeqMap.abs]
    · subst hr; subst hs'
      simp only
      refine ⟨hinv', ?_, by omega, by omega⟩
      simp [smAdmit, SeqMap.ans, hrf]
  | get i =>
    simp only [SeqMap.step, get_spec' s i h.1]
    refine ⟨h, ?_, by omega, by omega⟩
    simp [smAdmit, SeqMap.ans]
  | delete i =>
    have hs := delete_spec s i m h
    simp only [SeqMap.step]
    rcases hres : SeqMap.delete s i m with ⟨st, s', m'⟩
    rw [hres] at hs
    obtain ⟨hst, hinv', habs, hle, hle2, _⟩ := hs
    simp only at hst hinv' habs hle hle2
    subst hst
    simp only
    refine ⟨hinv', ?_, by omega, by omega⟩
    rw [habs]
    simp [smAdmit, SeqMap.ans]
  | getmin =>
    simp only [SeqMap.step]
    refine ⟨h, ?_, by omega, by omega⟩
    simp [smAdmit, SeqMap.ans, getmin_spec s h]

/-! ### creation, release, whole runs -/

theorem init_spec (m : Mem) :
    match SeqMap.init m with
    | (some s, m') => MInv s ∧ SeqMap.abs s = smEmpty ∧ s.offset = 0 ∧ s.len = 0 ∧ s.q.offset = 0 ∧ s.q.len = 0 ∧
        m'.live = m.live + 3 + bufBlocks s.q.ea ∧ m'.refusals = m.refusals
    | (none, m') => m'.live = m.live ∧ m'.refusals > m.refusals := by
  unfold SeqMap.init
  cases hr : (m.malloc SeqMap.structSize).1
  · have hf := malloc_fail hr
    rw [pair_eta _ hr]
    simp only
    exact ⟨hf.2.1, by omega⟩
  · have hf := malloc_ok hr
    rw [pair_eta _ hr]
    simp only
    have hs := EQueue.init_spec ptrLen (m.malloc SeqMap.structSize).2
    rcases hres : EQueue.init ptrLen (m.malloc SeqMap.structSize).2 with ⟨oq, m2⟩
    rw [hres] at hs
    cases oq with
    | none =>
      simp only at hs ⊢
      have f := free_facts m2 false
      exact ⟨by rw [f.2.1]; simp; omega, by rw [f.1]; omega⟩
    | some q =>
      simp only at hs ⊢
      obtain ⟨hinv, hrl, habs, hoff, hlen, hlive, hrf⟩ := hs
      refine ⟨⟨⟨hinv, hrl, by simp [hlen], by simp⟩, ?_⟩, ?_, by triv, by triv, hoff, hlen, by omega, by omega⟩
      · intro b hb; simp only at hb; rw [habs] at hb; cases hb
      · simp [SeqMap.abs, habs, liveFrom, smEmpty]

theorem free_live (s : SM) (m : Mem) : (SeqMap.free s m).live = m.live - 3 - bufBlocks s.q.ea := by
  simp only [SeqMap.free]
  rw [(free_facts _ false).2.1, EQueue.free_live]; simp; omega

theorem run_ok : ∀ (ops : List SmOp) (s : SM) (m : Mem), MInv s → (∀ op ∈ ops, smContract op) →
    (s.q.offset + s.q.len + ops.length) * 8 ≤ EArray.SIZE_MAX → s.offset + s.len + ops.length ≤ INT64_MAX →
    MInv (SeqMap.run s ops m).2.1 ∧
    smAdmitAll (SeqMap.abs s) (SeqMap.run s ops m).1 = some (SeqMap.abs (SeqMap.run s ops m).2.1)
  | [], s, m, h, _, _, _ => ⟨h, rfl⟩
  | op :: rest, s, m, h, hc, hq, hn => by
    simp only [List.length_cons, Int.natCast_add, Int.natCast_one] at hq hn
    have hs := mstep_ok s op m h (hc op List.mem_cons_self)
      (Nat.le_trans (Nat.mul_le_mul_right _ (by omega)) hq) (by omega)
    unfold MStepOk at hs
    obtain ⟨s1, s2, s3, s4⟩ := hs
    have ih := run_ok rest (SeqMap.step s op m).2.1 (SeqMap.step s op m).2.2 s1
      (fun o ho => hc o (List.mem_cons_of_mem _ ho))
      (Nat.le_trans (Nat.mul_le_mul_right _ (by omega)) hq) (by omega)
    simp only [SeqMap.run]
    rcases hst : SeqMap.step s op m with ⟨an, s', m'⟩
    rw [hst] at s2 ih
    simp only at s2 ih ⊢
    rcases hrun : SeqMap.run s' rest m' with ⟨tr, s'', m''⟩
    rw [hrun] at ih
    simp only at ih ⊢
    exact ⟨ih.1, by simp only [smAdmitAll, s2]; exact ih.2⟩

end Percival.Proofs.SeqMap
