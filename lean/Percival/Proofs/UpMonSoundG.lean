import Percival.Proofs.UpMonSound
/-!
# C14, component `upstart` — part G: `WF` is an invariant of the run (no hypothesis on the states left)

`up_step_sound` / `up_run_sound` assume `WF s op` for `nc_start` / `hq_start`: the descriptor `freshFd` picks has no
write registration and fits the socket list, fewer than 2^32 timers exist.  Here it is derived from a second
invariant of the reachable states,

* `CInv (tables s.w) n`: at most `n` connects are outstanding, every outstanding `network_write` and every
  buffered writer sits on a slot descriptor (≥ 64),

and a condition on the **op list** alone (`OpsOk`, decidable): at most 61 `nc_start` / `hq_start` / `hqs_start` lines between two
`end`s.  Then `freshFd` — the lowest descriptor ≥ 3 that is not the socket of an outstanding connect — is below 64,
and the registry (`Inv.regNet`: exactly the registrations the objects hold) has no write registration there; the
timers are those of the connects (`Inv.regTm`), so there are at most 61.

The bound is needed: `freshFd` does not know about the slot descriptors, so the 62nd outstanding connect would be
given descriptor 64, and with a `network_write` outstanding on slot 0 the registration fails with EEXIST — a failure
without a refused request (the harness' `socket()` would skip 64‥87; the model follows it only below 60).
-/
namespace Percival.Proofs.UpMonSound
open Percival.Model Percival.Model.EvReg Percival.Model.AllocFail Percival.Model.UpStep
open Percival.Proofs.AllocFailUpper
open Percival.Proofs.EvRegNet (regNet netRegistered NetInv)
open Percival.Proofs.EvRegTimer (regTimers)
open Percival.Model.Connect (AddrOutcome)
open Percival.Spec.UpMon (monStep Kind Ans)

/-! ## `freshFd` -/

/-- pigeonhole: among `b, …, b + n` one number is not in a list of length `n` -/
theorem exists_not_mem (n : Nat) : ∀ (l : List Nat), l.length = n → ∀ b, ∃ i, i ≤ n ∧ b + i ∉ l := by
  induction n with
  | zero =>
    intro l hl b
    exact ⟨0, Nat.le_refl _, by rw [List.length_eq_zero_iff.1 hl]; simp⟩
  | succ n ih =>
    intro l hl b
    by_cases hm : b + (n + 1) ∈ l
    · obtain ⟨i, hi, hni⟩ := ih (l.erase (b + (n + 1))) (by rw [List.length_erase_of_mem hm, hl]; rfl) b
      exact ⟨i, by omega, fun h => hni ((List.mem_erase_of_ne (by omega)).2 h)⟩
    · exact ⟨n + 1, Nat.le_refl _, hm⟩

/-- the descriptor `freshFd` picks: at least 3, at most 3 + the number of connects, the socket of no connect -/
theorem freshFd_spec (w : World) :
    3 ≤ freshFd w ∧ freshFd w ≤ w.conns.length + 3 ∧ ∀ k ∈ w.conns, k.sock ≠ some (freshFd w) := by
  have hlen : (w.conns.filterMap (·.sock)).length ≤ w.conns.length := List.length_filterMap_le _ _
  unfold freshFd
  simp only
  cases hf : (List.range ((w.conns.filterMap (·.sock)).length + 1)).find?
      (fun i => !(w.conns.filterMap (·.sock)).contains (i + 3)) with
  | none =>
    exfalso
    obtain ⟨i, hi, hni⟩ := exists_not_mem _ (w.conns.filterMap (·.sock)) rfl 3
    have := List.find?_eq_none.1 hf i (List.mem_range.2 (by omega))
    simp only [Bool.not_eq_false, List.contains_iff_mem, Bool.not_eq_eq_eq_not, Bool.not_true] at this
    exact hni (by rw [Nat.add_comm]; simpa using this)
  | some i =>
    have h1 := List.find?_some hf
    have h2 := List.mem_range.1 (List.mem_of_find?_eq_some hf)
    simp only [Bool.not_eq_true', List.contains_eq_mem, decide_eq_false_iff_not] at h1
    show 3 ≤ i + 3 ∧ i + 3 ≤ w.conns.length + 3 ∧ ∀ k ∈ w.conns, k.sock ≠ some (i + 3)
    refine ⟨by omega, by omega, fun k hk he => h1 ?_⟩
    exact List.mem_filterMap.2 ⟨k, hk, he⟩

/-! ## the second invariant -/

/-- at most `n` connects outstanding; outstanding writes and buffered writers sit on slot descriptors -/
structure CInv (t : Tables) (n : Nat) : Prop where
  conns : t.conns.length ≤ n
  writes : ∀ r ∈ t.writes, 64 ≤ r.fd
  writers : ∀ x ∈ t.writers, 64 ≤ x.fd

/-- what a library call adds to the number of outstanding connects, at most -/
def connCost : LOp → Nat
  | .connect _ _ _ => 1
  | .http _ _ _ => 1
  | .https _ _ _ _ => 1
  | _ => 0

theorem cinv_mono {t : Tables} {n m : Nat} (h : CInv t n) (hnm : n ≤ m) : CInv t m :=
  ⟨Nat.le_trans h.conns hnm, h.writes, h.writers⟩

theorem cinv_ev {t t' : Tables} {c0 : LOp} {rc : Rc} {o : Option Nat} {n : Nat} (hev : Ev t c0 rc o t') (hb : CInv t n)
    (hnew : ∀ fd, c0 = .write fd ∨ c0 = .nbwInit fd → 64 ≤ fd) : CInv t' (n + connCost c0) := by
  have hfl : ∀ (p : Conn → Bool), (t.conns.filter p).length ≤ n := fun p =>
    Nat.le_trans (List.length_filter_le _ _) hb.conns
  cases hev
  case same => exact cinv_mono hb (Nat.le_add_right _ _)
  case read => exact ⟨hb.conns, hb.writes, hb.writers⟩
  case write fd c hf =>
    exact ⟨hb.conns, fun r hr => by
      rcases List.mem_cons.1 hr with rfl | hr
      · exact hnew fd (Or.inl rfl)
      · exact hb.writes r hr, hb.writers⟩
  case accept => exact ⟨hb.conns, hb.writes, hb.writers⟩
  case connect a tm s c k hk hf =>
    exact ⟨by simp only [List.length_cons, connCost]; have := hb.conns; omega, hb.writes, hb.writers⟩
  case nbrInit => exact ⟨hb.conns, hb.writes, hb.writers⟩
  case nbwInit fd c x hid hfd hc hres hf =>
    exact ⟨hb.conns, hb.writes, fun y hy => by
      rcases List.mem_cons.1 hy with rfl | hy
      · rw [hfd]; exact hnew fd (Or.inr rfl)
      · exact hb.writers y hy⟩
  case http =>
    rename_i a0 l0 s0 x0 hd0 c1 ho0 k0 hk0 hfc0 hfx0 hc0
    refine ⟨?_, hb.writes, hb.writers⟩
    have := hb.conns
    rcases hc0 with h1 | ⟨hl, h1⟩ <;> rw [h1] <;> simp only [List.length_cons, connCost] <;> omega
  case readCancel => exact ⟨hb.conns, hb.writes, hb.writers⟩
  case writeCancel c hun => exact ⟨hb.conns, fun r hr => hb.writes r (List.mem_filter.1 hr).1, hb.writers⟩
  case acceptCancel => exact ⟨hb.conns, hb.writes, hb.writers⟩
  case connectCancel c hun => exact ⟨hfl _, hb.writes, hb.writers⟩
  case nbrUpd => exact ⟨hb.conns, hb.writes, hb.writers⟩
  case nbrRead => exact ⟨hb.conns, hb.writes, hb.writers⟩
  case nbrCancel => exact ⟨hb.conns, hb.writes, hb.writers⟩
  case nbrFree => exact ⟨hb.conns, hb.writes, hb.writers⟩
  case nbwReserve len x q hx hres hq =>
    refine ⟨hb.conns, hb.writes, ?_⟩
    show ∀ y ∈ updWriter t.writers { x with reserved := true, queue := q }, 64 ≤ y.fd
    unfold updWriter
    rw [forall_upd Writer.id (a' := { x with reserved := true, queue := q }) hx rfl]
    exact ⟨fun y hy _ => hb.writers y hy, hb.writers x hx⟩
  case nbwUpd len x x' hx hid hfd hres hc hc0 =>
    refine ⟨cinv_mono hb (Nat.le_add_right _ _) |>.conns, hb.writes, ?_⟩
    show ∀ y ∈ updWriter t.writers x', 64 ≤ y.fd
    unfold updWriter
    rw [forall_upd Writer.id hx hid]
    exact ⟨fun y hy _ => hb.writers y hy, hfd ▸ hb.writers x hx⟩
  case nbwStart len x x' wb c hx hid hfd hres hc hc' hf hc0 =>
    refine ⟨cinv_mono hb (Nat.le_add_right _ _) |>.conns, fun r hr => ?_, ?_⟩
    · rcases List.mem_cons.1 hr with rfl | hr
      · exact hb.writers x hx
      · exact hb.writes r hr
    · show ∀ y ∈ updWriter t.writers x', 64 ≤ y.fd
      unfold updWriter
      rw [forall_upd Writer.id hx hid]
      exact ⟨fun y hy _ => hb.writers y hy, hfd ▸ hb.writers x hx⟩
  case nbwFree x hx =>
    refine ⟨hb.conns, fun r hr => ?_, fun y hy => hb.writers y (List.mem_filter.1 hy).1⟩
    cases hcur : x.curr with
    | none => rw [hcur] at hr; exact hb.writes r hr
    | some p => rw [hcur] at hr; exact hb.writes r (List.mem_filter.1 hr).1
  case httpCancel x hx =>
    refine ⟨?_, hb.writes, hb.writers⟩
    cases hcn : x.conn with
    | none => exact hb.conns
    | some c => exact hfl _

/-! ## `WF` from the two invariants -/

/-- the connect lines of the protocol -/
def isConn : UOp → Bool
  | .ncStart _ _ _ => true
  | .hqStart _ _ _ => true
  | .hqsStart _ _ _ _ => true
  | _ => false

/-- only a connect line stands for a connect call -/
theorem callOf_conn {s : S} {op : UOp} {c0 : LOp} (hc : callOf s op = some c0) (h0 : connCost c0 ≠ 0) :
    isConn op = true := by
  cases op with
  | failat _ => cases hc
  | failfrom _ => cases hc
  | failoff => cases hc
  | end_ => cases hc
  | start k hh sl => obtain ⟨_, _, _, _, rfl⟩ := callOf_start hc; cases k <;> exact absurd rfl h0
  | nbrInit hh sl => obtain ⟨_, _, _, rfl⟩ := callOf_nbrInit hc; exact absurd rfl h0
  | nbwInit hh sl => obtain ⟨_, _, _, rfl⟩ := callOf_nbwInit hc; exact absurd rfl h0
  | ncStart hh a tm => rfl
  | hqStart hh a pl => rfl
  | hqsStart hh a pl hl => rfl
  | nbrWait hh len => obtain ⟨_, _, _, _, _, _, _, rfl⟩ := callOf_nbrWait hc; exact absurd rfl h0
  | nbwReserve hh len => obtain ⟨_, _, _, _, _, rfl⟩ := callOf_nbwReserve hc; exact absurd rfl h0
  | nbwConsume hh len => obtain ⟨_, _, _, _, _, _, _, rfl⟩ := callOf_nbwConsume hc; exact absurd rfl h0
  | nbwWrite hh len => obtain ⟨_, _, _, _, _, _, rfl⟩ := callOf_nbwWrite hc; exact absurd rfl h0
  | rel k hh => obtain ⟨c, _, rfl⟩ := callOf_rel hc; cases k <;> exact absurd rfl h0

/-- a call of `network_write` / `netbuf_write_init` the harness makes names a slot descriptor -/
theorem callOf_write_fd {s : S} {op : UOp} {c0 : LOp} (hc : callOf s op = some c0) :
    ∀ fd, c0 = .write fd ∨ c0 = .nbwInit fd → 64 ≤ fd := by
  intro fd h
  cases op with
  | failat _ => cases hc
  | failfrom _ => cases hc
  | failoff => cases hc
  | end_ => cases hc
  | start k hh sl =>
    obtain ⟨_, _, _, _, rfl⟩ := callOf_start hc
    cases k <;> rcases h with h | h <;> cases h
    simp only [FDBASE]; omega
  | nbrInit hh sl => obtain ⟨_, _, _, rfl⟩ := callOf_nbrInit hc; rcases h with h | h <;> cases h
  | nbwInit hh sl =>
    obtain ⟨_, _, _, rfl⟩ := callOf_nbwInit hc
    rcases h with h | h <;> cases h
    simp only [FDBASE]; omega
  | ncStart hh a tm => obtain ⟨_, _, rfl⟩ := callOf_ncStart hc; rcases h with h | h <;> cases h
  | hqStart hh a pl => obtain ⟨_, _, rfl⟩ := callOf_hqStart hc; rcases h with h | h <;> cases h
  | hqsStart hh a pl hl => obtain ⟨_, _, rfl⟩ := callOf_hqsStart hc; rcases h with h | h <;> cases h
  | nbrWait hh len => obtain ⟨_, _, _, _, _, _, _, rfl⟩ := callOf_nbrWait hc; rcases h with h | h <;> cases h
  | nbwReserve hh len => obtain ⟨_, _, _, _, _, rfl⟩ := callOf_nbwReserve hc; rcases h with h | h <;> cases h
  | nbwConsume hh len => obtain ⟨_, _, _, _, _, _, _, rfl⟩ := callOf_nbwConsume hc; rcases h with h | h <;> cases h
  | nbwWrite hh len => obtain ⟨_, _, _, _, _, _, rfl⟩ := callOf_nbwWrite hc; rcases h with h | h <;> cases h
  | rel k hh => obtain ⟨c, _, rfl⟩ := callOf_rel hc; cases k <;> rcases h with h | h <;> cases h

/-- with at most 60 connects outstanding the descriptor `freshFd` picks is ready for a write registration, and there
are fewer than 2^32 timers -/
theorem connect_ready (w : World) (n : Nat) (hI : Inv w) (C : CInv (tables w) n) (hn : n ≤ 60) :
    fdOk w (freshFd w) true ∧ w.ev.timers.length < 2^32 := by
  obtain ⟨h3, hle, hsock⟩ := freshFd_spec w
  have hc : w.conns.length ≤ n := C.conns
  refine ⟨⟨?_, ?_⟩, ?_⟩
  · rintro ⟨id, hm⟩
    have hm' := (hI.regNet.mem_iff).1 hm
    simp only [expNet, tables, List.mem_append, List.mem_map, List.mem_filterMap, Prod.mk.injEq, Option.map_eq_some_iff,
      Bool.false_eq_true, false_and, and_false, exists_false, false_or, or_false] at hm'
    rcases hm' with ⟨r, hr, hfd, _⟩ | ⟨k, hk, s, hs, hfd, _⟩
    · have := C.writes r hr
      omega
    · exact hsock k hk (hfd ▸ hs)
  · have : EArray.SIZE_MAX = 2^64 - 1 := rfl
    rw [this]; omega
  · have h1 : w.ev.timers.length = (regTimers w.ev).length := Top.timers_length w.ev
    have h2 := hI.regTm.length_eq
    have h3 : (expTimers (tables w)).length ≤ w.conns.length := by
      simp only [expTimers, tables, List.length_map]
      exact List.length_filter_le _ _
    omega

/-- **`WF` holds** in every state satisfying the two invariants, for every line that is not a connect, and for a
connect line when at most 60 connects are outstanding -/
theorem wf_of_cinv (s : S) (op : UOp) (n : Nat) (U : UInv s) (C : CInv (tables s.w) n)
    (hn : isConn op = true → n ≤ 60) : WF s op := by
  refine ⟨fun a tm l fd h => ?_⟩
  have hconn : isConn op = true := by
    rcases h with h | h | ⟨hl, h⟩ <;> exact callOf_conn h (by simp [connCost])
  have hfd : fd = freshFd s.w := by
    cases op with
    | ncStart hh a' tm' =>
      rcases h with h | h | ⟨hl, h⟩ <;> (obtain ⟨_, _, he⟩ := callOf_ncStart h; cases he; try rfl)
    | hqStart hh a' pl =>
      rcases h with h | h | ⟨hl, h⟩ <;> (obtain ⟨_, _, he⟩ := callOf_hqStart h; cases he; try rfl)
    | hqsStart hh a' pl hl' =>
      rcases h with h | h | ⟨hl, h⟩ <;> (obtain ⟨_, _, he⟩ := callOf_hqsStart h; cases he; try rfl)
    | _ => cases hconn
  subst hfd
  obtain ⟨h1, h2⟩ := connect_ready s.w n U.inv C (hn hconn)
  exact ⟨fun _ => h1, h2⟩

/-! ## the second invariant along a protocol line -/

/-- the bound on the outstanding connects after a line: `end` releases everything, a connect line may add one -/
def budget (n : Nat) (op : UOp) : Nat :=
  match op with
  | .end_ => 0
  | op => if isConn op then n + 1 else n

theorem tables_releaseAll (s : S) : tables (releaseAll s).w = ⟨[], [], [], [], [], [], []⟩ := rfl

theorem cinv_step (s : S) (op : UOp) (n : Nat) (U : UInv s) (C : CInv (tables s.w) n) :
    CInv (tables (stepOp s op).1.w) (budget n op) := by
  have hcallk : kindOf op = .call → op ≠ .end_ → CInv (tables (stepOp s op).1.w) (if isConn op then n + 1 else n) := by
    intro hk _
    have hmono : CInv (tables s.w) (if isConn op then n + 1 else n) :=
      cinv_mono C (by split <;> omega)
    rcases stepOp_call_cases s op hk with ⟨_, he⟩ | ⟨c, _, _, he⟩ | ⟨c, hc, hnc, he⟩
    · rw [he]; exact hmono
    · rw [he]; exact hmono
    · rw [he]
      have := cinv_ev (ev_stepR s.w c U.inv hnc) C (callOf_write_fd hc)
      refine cinv_mono this ?_
      by_cases h0 : connCost c = 0
      · rw [h0]; split <;> omega
      · rw [callOf_conn hc h0]
        have : connCost c ≤ 1 := by cases c <;> simp [connCost]
        simp only [if_true]; omega
  cases op with
  | failat k => exact C
  | failfrom k => exact C
  | failoff => exact C
  | end_ =>
    show CInv (tables (releaseAll s).w) 0
    rw [tables_releaseAll]
    exact ⟨Nat.le_refl _, fun r hr => (by cases hr), fun x hx => (by cases hx)⟩
  | start k h sl => exact hcallk rfl (fun h => nomatch h)
  | nbrInit h sl => exact hcallk rfl (fun h => nomatch h)
  | nbwInit h sl => exact hcallk rfl (fun h => nomatch h)
  | nbrWait h len => exact hcallk rfl (fun h => nomatch h)
  | nbwReserve h len => exact hcallk rfl (fun h => nomatch h)
  | nbwConsume h len => exact hcallk rfl (fun h => nomatch h)
  | nbwWrite h len => exact hcallk rfl (fun h => nomatch h)
  | rel k h => exact hcallk rfl (fun h => nomatch h)
  | ncStart h a t => exact hcallk rfl (fun h => nomatch h)
  | hqStart h a pl => exact hcallk rfl (fun h => nomatch h)
  | hqsStart h a pl hl => exact hcallk rfl (fun h => nomatch h)

/-! ## the condition on the op list, and whole runs -/

/-- `okFrom n ops`: starting with at most `n` connects outstanding, no connect line of `ops` is reached with more
than 60 of them counted (`end` resets the count) -/
def okFrom : Nat → List UOp → Bool
  | _, [] => true
  | n, op :: rest => (!isConn op || decide (n ≤ 60)) && okFrom (budget n op) rest

/-- **well-formedness of a case, decidable on the op list**: at most 61 `nc_start` / `hq_start` / `hqs_start` lines between two
`end`s.  (The generator of `tools/props/c14.py` makes at most 29 rounds per case with at most two such lines each;
nothing else is assumed — handles, slots, lengths, patterns and timeouts are arbitrary.) -/
def OpsOk (ops : List UOp) : Prop := okFrom 0 ops = true

instance (ops : List UOp) : Decidable (OpsOk ops) := inferInstanceAs (Decidable (_ = true))

/-- a case with at most 61 connect lines altogether is well-formed -/
theorem okFrom_of_count (n : Nat) (ops : List UOp) (h : n + ops.countP isConn ≤ 61) : okFrom n ops = true := by
  induction ops generalizing n with
  | nil => rfl
  | cons op rest ih =>
    rw [List.countP_cons] at h
    simp only [okFrom, Bool.and_eq_true, Bool.or_eq_true, Bool.not_eq_true', decide_eq_true_eq]
    cases hc : isConn op with
    | true =>
      rw [hc] at h
      simp only [if_true] at h
      refine ⟨Or.inr (by omega), ih _ ?_⟩
      have : budget n op = n + 1 := by cases op <;> first | rfl | cases hc
      omega
    | false =>
      rw [hc] at h
      refine ⟨Or.inl rfl, ih _ ?_⟩
      have : budget n op ≤ n := by
        cases op <;> first | exact Nat.zero_le _ | exact Nat.le_refl _ | cases hc
      simp only [Bool.false_eq_true, if_false] at h
      omega

theorem opsOk_of_count (ops : List UOp) (h : ops.countP isConn ≤ 61) : OpsOk ops :=
  okFrom_of_count 0 ops (by omega)

/-- both invariants -/
structure UInvC (s : S) (n : Nat) : Prop where
  u : UInv s
  c : CInv (tables s.w) n

theorem uinvC_init : UInvC ({} : S) 0 :=
  ⟨uinv_init, Nat.le_refl _, fun r hr => (by cases hr), fun x hx => (by cases hx)⟩

/-- **One protocol line, no hypothesis on the state beyond the invariants**: the monitor accepts the line the model
prints and both invariants hold afterwards. -/
theorem up_step_sound_full (s : S) (op : UOp) (n : Nat) (h : UInvC s n) (hn : isConn op = true → n ≤ 60) :
    (monStep () (kindOf op) (stepOp s op).2.ans).2 = none ∧ UInvC (stepOp s op).1 (budget n op) := by
  obtain ⟨hacc, hU⟩ := up_step_sound s op h.u (wf_of_cinv s op n h.u h.c hn)
  exact ⟨hacc, hU, cinv_step s op n h.u h.c⟩

theorem wfRun_of_ok (s : S) (ops : List UOp) (n : Nat) (h : UInvC s n) (hok : okFrom n ops = true) : WFRun s ops := by
  induction ops generalizing s n with
  | nil => trivial
  | cons op rest ih =>
    simp only [okFrom, Bool.and_eq_true, Bool.or_eq_true, Bool.not_eq_true', decide_eq_true_eq] at hok
    have hn : isConn op = true → n ≤ 60 := fun hc => by
      rcases hok.1 with h0 | h0
      · rw [hc] at h0; cases h0
      · exact h0
    exact ⟨wf_of_cinv s op n h.u h.c hn, ih _ _ (up_step_sound_full s op n h hn).2 hok.2⟩

/-- **Whole cases from the initial state**: every line of every op list satisfying `OpsOk` is accepted. -/
theorem up_run_sound_full (ops : List UOp) (hok : OpsOk ops) :
    ∀ p ∈ (runOps {} ops).zip ops, (monStep () (kindOf p.2) p.1.2.ans).2 = none :=
  up_run_sound {} ops uinv_init (wfRun_of_ok {} ops 0 uinvC_init hok)

end Percival.Proofs.UpMonSound
