import Percival.Proofs.HeapDown
/-!
# C13 helper lemmas, part 3: the invariant and the public operations
-/
namespace Percival.Proofs.Heap
open Percival.Model.Heap

/-- **The heap invariant.**
 * `distinct`: the element ids in `h.a` are pairwise distinct;
 * `handles`: the position most recently reported (through `setreccookie`) for the element in
   slot `i` is `i` — so a handle operation given that position acts on exactly that element;
 * `ordered`: parent ≤ child under the caller's comparison, on every edge. -/
structure Inv (key : Nat → Int) (h : Heap) : Prop where
  distinct : ∀ i j x : Nat, h.a[i]? = some x → h.a[j]? = some x → i = j
  handles : ∀ i x : Nat, h.a[i]? = some x → posOf h x = some i
  ordered : ∀ i c q : Nat, 0 < i → h.a[i]? = some c → h.a[(i-1)/2]? = some q → key q ≤ key c

variable (key : Nat → Int)

theorem lt_of_get {a : Array Nat} {i x : Nat} (h : a[i]? = some x) : i < a.size :=
  (Array.getElem?_eq_some_iff.mp h).1

theorem inv_of_prefix (h : Heap) (hd : DistinctN h h.a.size) (hp : PosN h h.a.size)
    (ho : OrderedN key h h.a.size) : Inv key h where
  distinct := fun i j x hi hj => hd i j x (lt_of_get hi) (lt_of_get hj) hi hj
  handles := fun i x hi => hp i x (lt_of_get hi) hi
  ordered := fun i c q h0 hc hq => ho i c q h0 (lt_of_get hc) hc hq

theorem Inv.distinctN {h : Heap} (hi : Inv key h) (N : Nat) : DistinctN h N :=
  fun i j x _ _ h1 h2 => hi.distinct i j x h1 h2
theorem Inv.posN {h : Heap} (hi : Inv key h) (N : Nat) : PosN h N :=
  fun i x _ h1 => hi.handles i x h1
theorem Inv.orderedN {h : Heap} (hi : Inv key h) (N : Nat) : OrderedN key h N :=
  fun i c q h0 _ h1 h2 => hi.ordered i c q h0 h1 h2

/-- distinctness as `Nodup` of the array's list -/
theorem distinct_iff_nodup (a : Array Nat) :
    (∀ i j x : Nat, a[i]? = some x → a[j]? = some x → i = j) ↔ a.toList.Nodup := by
  rw [List.nodup_iff_pairwise_ne, List.pairwise_iff_getElem]
  constructor
  · intro H i j hi hj hij heq
    have h1 : a[i]? = some a.toList[i] := by
      rw [Array.getElem?_eq_getElem (by simpa using hi)]; simp
    have h2 : a[j]? = some a.toList[i] := by
      rw [Array.getElem?_eq_getElem (by simpa using hj), heq]; simp
    have := H i j _ h1 h2
    omega
  · intro H i j x hi hj
    have si := lt_of_get hi; have sj := lt_of_get hj
    have ei : a.toList[i]'(by simpa using si) = x := by
      have := (Array.getElem?_eq_some_iff.mp hi).2; simpa using this
    have ej : a.toList[j]'(by simpa using sj) = x := by
      have := (Array.getElem?_eq_some_iff.mp hj).2; simpa using this
    rcases Nat.lt_trichotomy i j with hlt | heq | hgt
    · exact absurd (ei.trans ej.symm) (H i j _ _ hlt)
    · exact heq
    · exact absurd (ej.trans ei.symm) (H j i _ _ hgt)

/-! ## `empty`, `getmin` -/

theorem inv_empty : Inv key empty where
  distinct := by intro i j x hi; simp [empty] at hi
  handles := by intro i x hi; simp [empty] at hi
  ordered := by intro i c q _ hi; simp [empty] at hi

/-- under heap order the root is ≤ every element -/
theorem root_le (h : Heap) (N : Nat) (ho : OrderedN key h N) (hN : N ≤ h.a.size) :
    ∀ i x m, i < N → h.a[i]? = some x → h.a[0]? = some m → key m ≤ key x := by
  intro i
  induction i using Nat.strongRecOn with
  | _ i ih =>
    intro x m hiN hx hm
    by_cases h0 : i = 0
    · subst h0; rw [hx] at hm; cases hm; exact Int.le_refl _
    · have hp : (i-1)/2 < h.a.size := by omega
      have hq : h.a[(i-1)/2]? = some h.a[(i-1)/2] := Array.getElem?_eq_getElem hp
      have h1 := ih ((i-1)/2) (by omega) _ m (by omega) hq hm
      have h2 := ho i x _ (by omega) hiN hx hq
      omega

/-! ## `add` -/

theorem add_eq (h : Heap) (e : Nat) :
    add key h e = siftUp key true h.a.size ⟨h.a.push e, (e, h.a.size) :: h.log⟩ h.a.size := by
  simp [add, note]

theorem add_inv (h : Heap) (e : Nat) (hi : Inv key h) (hfresh : ∀ i : Nat, h.a[i]? ≠ some e) :
    Inv key (add key h e) := by
  rw [add_eq]
  generalize hh2 : (⟨h.a.push e, (e, h.a.size) :: h.log⟩ : Heap) = h2
  have hsz : h2.a.size = h.a.size + 1 := by subst hh2; simp
  have hget : ∀ k, h2.a[k]? = if k = h.a.size then some e else h.a[k]? := by
    intro k; subst hh2; simp [Array.getElem?_push]
  have hpos : ∀ x, posOf h2 x = if x = e then some h.a.size else posOf h x := by
    intro x; subst hh2; rw [posOf_cons]; rfl
  have hd : DistinctN h2 (h.a.size + 1) := by
    intro i j x _ _ hx hy
    rw [hget] at hx hy
    have := hi.distinct i j x
    have := hfresh i; have := hfresh j
    grind
  have hp : PosN h2 (h.a.size + 1) := by
    intro i x _ hx
    rw [hget] at hx; rw [hpos]
    have := hi.handles i x
    have := hfresh i
    grind
  have hex : OrderedExcept key h2 (h.a.size + 1) h.a.size := by
    intro i c q h0 hiN hne hc hq
    rw [hget] at hc hq
    have : i ≠ h.a.size := hne
    have : (i-1)/2 ≠ h.a.size := by omega
    simp only [*, if_false] at hc hq
    exact hi.ordered i c q h0 hc hq
  have hg : GrandOK key h2 (h.a.size + 1) h.a.size := by
    intro c e' q _ _ hcN hpar; omega
  have h1 := siftUp_handles key h.a.size h2 (h.a.size + 1) h.a.size (by omega) (by omega) hd hp
  have h3 := siftUp_ordered key true h.a.size h2 (h.a.size + 1) h.a.size (by omega) (by omega) hex hg
  have hs := siftUp_size key true h.a.size h2 h.a.size
  apply inv_of_prefix
  · rw [hs, hsz]; exact h1.1
  · rw [hs, hsz]; exact h1.2
  · rw [hs, hsz]; exact h3

theorem add_perm (h : Heap) (e : Nat) : (add key h e).a.toList.Perm (e :: h.a.toList) := by
  rw [add_eq]
  refine (siftUp_perm key true _ _ _).trans ?_
  simp only [Array.toList_push]
  exact List.perm_append_singleton _ _

/-! ## `decrease`, `increase`, `increasemin` -/

theorem decrease_inv (h h' : Heap) (rc : Nat)
    (hd : ∀ i j x : Nat, h.a[i]? = some x → h.a[j]? = some x → i = j)
    (hp : ∀ i x : Nat, h.a[i]? = some x → posOf h x = some i)
    (hex : OrderedExcept key h h.a.size rc) (hg : GrandOK key h h.a.size rc)
    (hr : decrease key h rc = some h') : Inv key h' := by
  unfold decrease at hr
  split at hr
  · rename_i hrc
    cases hr
    have h1 := siftUp_handles key rc h h.a.size rc (Nat.le_refl _) hrc
      (fun i j x _ _ a b => hd i j x a b) (fun i x _ a => hp i x a)
    have h3 := siftUp_ordered key true rc h h.a.size rc (Nat.le_refl _) (by omega) hex hg
    have hs := siftUp_size key true rc h rc
    apply inv_of_prefix
    · rw [hs]; exact h1.1
    · rw [hs]; exact h1.2
    · rw [hs]; exact h3
  · cases hr

theorem decrease_perm (h h' : Heap) (rc : Nat) (hr : decrease key h rc = some h') :
    h'.a.toList.Perm h.a.toList := by
  unfold decrease at hr
  split at hr
  · cases hr; exact siftUp_perm key true _ _ _
  · cases hr

theorem increase_inv (h h' : Heap) (rc : Nat)
    (hd : ∀ i j x : Nat, h.a[i]? = some x → h.a[j]? = some x → i = j)
    (hp : ∀ i x : Nat, h.a[i]? = some x → posOf h x = some i)
    (hex : OrderedBelowExcept key h h.a.size 0 rc) (hg : ParentOK key h h.a.size 0 rc)
    (hr : increase key h rc = some h') : Inv key h' := by
  unfold increase at hr
  split at hr
  · rename_i hrc
    cases hr
    have h1 := siftDown_handles key h.a.size h.a.size h rc (Nat.le_refl _)
      (fun i j x _ _ a b => hd i j x a b) (fun i x _ a => hp i x a)
    have h3 := siftDown_ordered key true h.a.size 0 h.a.size h rc (Nat.le_refl _) (by omega) (Nat.zero_le _) hex hg
    have hs := siftDown_size key true h.a.size h.a.size h rc
    apply inv_of_prefix
    · rw [hs]; exact h1.1
    · rw [hs]; exact h1.2
    · rw [hs]; exact (orderedFrom_zero key _ _).mp h3
  · cases hr

theorem increase_perm (h h' : Heap) (rc : Nat) (hr : increase key h rc = some h') :
    h'.a.toList.Perm h.a.toList := by
  unfold increase at hr
  split at hr
  · cases hr; exact siftDown_perm key true _ _ _ _
  · cases hr

theorem increasemin_inv (h : Heap)
    (hd : ∀ i j x : Nat, h.a[i]? = some x → h.a[j]? = some x → i = j)
    (hp : ∀ i x : Nat, h.a[i]? = some x → posOf h x = some i)
    (hex : OrderedBelowExcept key h h.a.size 0 0) : Inv key (increasemin key h) := by
  unfold increasemin
  have hg : ParentOK key h h.a.size 0 0 := by intro c e q h0; omega
  have h1 := siftDown_handles key h.a.size h.a.size h 0 (Nat.le_refl _)
    (fun i j x _ _ a b => hd i j x a b) (fun i x _ a => hp i x a)
  have h3 := siftDown_ordered key true h.a.size 0 h.a.size h 0 (Nat.le_refl _) (by omega) (Nat.zero_le _) hex hg
  have hs := siftDown_size key true h.a.size h.a.size h 0
  apply inv_of_prefix
  · rw [hs]; exact h1.1
  · rw [hs]; exact h1.2
  · rw [hs]; exact (orderedFrom_zero key _ _).mp h3

theorem increasemin_perm (h : Heap) : (increasemin key h).a.toList.Perm h.a.toList :=
  siftDown_perm key true _ _ _ _

end Percival.Proofs.Heap
