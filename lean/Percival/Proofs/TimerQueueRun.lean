import Percival.Proofs.TimerQueue
/-!
# C13 helper lemmas, part 8: every reachable timer-queue state; traces accepted by the monitor
-/
namespace Percival.Proofs.TQ
open Percival.Model Percival.Model.TimerQueue Percival.Model.HeapRun Percival.Proofs.Heap
open Percival.Spec Percival.Spec.PQ

theorem tvKey_eq (s u : Int) : TimerQueue.tvKey s u = PQ.timeKey s u := rfl

/-- the pointer stored with record `r` -/
def ptrOf (recs : List (Nat × Rec)) (r : Nat) : Nat :=
  match lookup recs r with
  | some x => x.ptr
  | none => 0

/-- the monitor state that corresponds to a model state -/
def mOf (s : TSt) : TMSt := ⟨key s.q.recs, ptrOf s.q.recs, s.live⟩

structure TReach (s : TSt) : Prop where
  inv : TQInv s.q
  perm : s.q.h.a.toList.Perm s.live

theorem key_cons (recs : List (Nat × Rec)) (r : Nat) (x : Rec) :
    key ((r, x) :: recs) = upd (key recs) r (PQ.timeKey x.sec x.usec) := by
  funext y
  unfold key upd; rw [lookup_cons]
  by_cases h : y = r
  · simp [h, tvKey_eq]
  · simp [h]

theorem ptrOf_cons (recs : List (Nat × Rec)) (r : Nat) (x : Rec) :
    ptrOf ((r, x) :: recs) = updN (ptrOf recs) r x.ptr := by
  funext y
  unfold ptrOf updN; rw [lookup_cons]
  by_cases h : y = r
  · simp [h]
  · simp [h]

theorem updN_same (f : Nat → Nat) (r : Nat) : updN f r (f r) = f := by
  funext y; unfold updN; by_cases h : y = r <;> simp [h]

theorem tstep_ok (s : TSt) (op : TOp) (hr : TReach s) :
    TReach (tstep s op).1 ∧
    tmonStep ⟨key s.q.recs, ptrOf s.q.recs, s.live⟩ op (tstep s op).2 =
      (⟨key (tstep s op).1.q.recs, ptrOf (tstep s op).1.q.recs, (tstep s op).1.live⟩, true) := by
  obtain ⟨hi, hp⟩ := hr
  cases op with
  | add r sec usec p =>
    simp only [tstep, tmonStep]
    split
    · exact ⟨⟨hi, hp⟩, by simp⟩
    · rename_i hc
      have hc' : r ∉ s.live := by simpa using hc
      have hf : r ∉ s.q.h.a.toList := fun h => hc' (hp.mem_iff.mp h)
      obtain ⟨h1, h2, h3⟩ := tq_add s.q r sec usec p hi hf
      refine ⟨⟨h1, h2.trans ((List.perm_cons r).mpr hp)⟩, ?_⟩
      simp only [h3, key_cons, ptrOf_cons, decide_true]
  | del r =>
    simp only [tstep, tmonStep]
    by_cases hc : s.live.contains r = true
    · have hc' : r ∈ s.live := by simpa using hc
      obtain ⟨q', h1, h2, h3, h4⟩ := tq_delete s.q r hi (hp.mem_iff.mpr hc')
      simp only [hc, Bool.not_true, Bool.false_eq_true, if_false, h1, h4]
      exact ⟨⟨h2, (perm_erase_of_cons (hp.symm.trans h3)).symm⟩, by simp⟩
    · simp only [hc, Bool.not_false, if_true]
      exact ⟨⟨hi, hp⟩, by simp⟩
  | inc r sec usec =>
    simp only [tstep, tmonStep]
    by_cases hcond : (!s.live.contains r || decide (timeKey sec usec < key s.q.recs r)) = true
    · simp only [hcond, if_true]
      exact ⟨⟨hi, hp⟩, by simp⟩
    · simp only [hcond, Bool.false_eq_true, if_false]
      simp only [Bool.or_eq_true, Bool.not_eq_true', decide_eq_true_eq, not_or, Bool.not_eq_false,
        Int.not_lt] at hcond
      obtain ⟨hc, hk⟩ := hcond
      have hc' : r ∈ s.live := by simpa using hc
      have hr' := hp.mem_iff.mpr hc'
      obtain ⟨old, hold⟩ := hi.bound r hr'
      rw [key_of_lookup _ _ _ hold, ← tvKey_eq] at hk
      obtain ⟨q', h1, h2, h3, h4⟩ := tq_increase s.q r sec usec old hi hr' hold hk
      have hptr : ptrOf s.q.recs r = old.ptr := by unfold ptrOf; rw [hold]
      simp only [h1, h4, key_cons, ptrOf_cons, ← hptr, updN_same]
      exact ⟨⟨h2, h3.trans hp⟩, by simp⟩
  | getmin =>
    simp only [tstep, tmonStep]
    refine ⟨⟨hi, hp⟩, ?_⟩
    have hg := tq_getmin s.q hi
    cases hm : TimerQueue.getmin s.q with
    | none =>
      rw [hm] at hg
      simp only at hg
      rw [hg] at hp
      have : s.live = [] := by simpa using hp
      simp [this]
    | some su =>
      obtain ⟨sec, usec⟩ := su
      rw [hm] at hg
      obtain ⟨r, x, hl, hx, h1, h2⟩ := hg
      subst h1; subst h2
      have hl' := isLeast_perm hp hl
      have hk := key_of_lookup _ _ _ hx
      simp only [Prod.mk.injEq, true_and, Bool.and_eq_true, List.any_eq_true, List.all_eq_true,
        beq_iff_eq]
      refine ⟨⟨r, hl'.1, by rw [hk, tvKey_eq]⟩, ?_⟩
      intro y hy
      have := hl'.2 y hy
      rw [hk, tvKey_eq] at this; exact decide_eq_true this
  | get sec usec =>
    have hg := tq_getptr s.q sec usec hi
    simp only [tstep]
    generalize getptr s.q sec usec = res at hg
    obtain ⟨q', o⟩ := res
    cases o with
    | none =>
      simp only at hg
      obtain ⟨_, hall⟩ := hg
      refine ⟨⟨hi, hp⟩, ?_⟩
      simp only [tmonStep, getptrOk, Prod.mk.injEq, true_and, List.all_eq_true]
      intro y hy
      have := hall y (hp.mem_iff.mpr hy)
      rw [tvKey_eq] at this; exact decide_eq_true this
    | some rp =>
      obtain ⟨r, p⟩ := rp
      simp only at hg
      obtain ⟨hl, hdue, ⟨x, hx, hpx⟩, hi', hperm, hrecs⟩ := hg
      refine ⟨⟨hi', (perm_erase_of_cons (hp.symm.trans hperm)).symm⟩, ?_⟩
      have hl' := isLeast_perm hp hl
      have hptr : ptrOf s.q.recs r = p := by unfold ptrOf; rw [hx, hpx]
      simp only [tmonStep, getptrOk, hrecs, (isLeast_iff _ _ _).mpr hl', hptr, Bool.true_and, beq_self_eq_true,
        Bool.and_true, Prod.mk.injEq, true_and]
      rw [tvKey_eq] at hdue; exact decide_eq_true hdue

theorem treach_init : TReach TSt.init :=
  ⟨tq_inv_empty, by simp [TSt.init, TimerQueue.empty, Heap.empty]⟩

theorem mOf_init : mOf TSt.init = TMSt.init := by
  simp only [mOf, TSt.init, TMSt.init, TimerQueue.empty]
  congr

theorem treach_run (s : TSt) (ops : List TOp) (hr : TReach s) : TReach (trun s ops) := by
  induction ops generalizing s with
  | nil => exact hr
  | cons op ops ih => exact ih _ (tstep_ok s op hr).1

theorem taccepts_trace (s : TSt) (ops : List TOp) (hr : TReach s) :
    taccepts (mOf s) (ttrace s ops) = true := by
  induction ops generalizing s with
  | nil => rfl
  | cons op ops ih =>
    have := tstep_ok s op hr
    simp only [ttrace, taccepts, mOf, this.2, Bool.true_and]
    exact ih _ this.1

end Percival.Proofs.TQ
