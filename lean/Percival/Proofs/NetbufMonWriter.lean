import Percival.Proofs.NetbufMonReader
import Percival.Proofs.NetbufWrite
/-!
# C07 helper lemmas: the monitor accepts the writer half of `Model.NetbufStep`

`WRel s m`: the writer model of the executable's state `s` is consistent (`Inv`), the monitor's `pending` is what
the writer still has to send (`pendingData`, minus the part of the buffer in flight that the kernel already took),
the same `send` answers are scripted, the same reservation is outstanding.  `spinW_sound`: what the writer half of
`spin` reports (bytes at the peer, failure callbacks, send answers used) satisfies `SendOK`, and `judgeSend`
accepts every report that satisfies `SendOK`.
-/
namespace Percival.Proofs.NetbufMonSound
open Percival Percival.Spec.ByteStream Percival.Spec.NetbufMon Percival.Model.Netbuf Percival.Model
open Percival.Model.NetbufStep Percival.Proofs.NetbufWrite

/-- the reader's fields of the executable's state are untouched -/
def SameR (s s' : XSt) : Prop :=
  s'.r = s.r ∧ s'.rq = s.rq ∧ s'.waitk = s.waitk ∧ s'.loopJ = s.loopJ ∧ s'.loopK = s.loopK ∧ s'.loopN = s.loopN

theorem SameR.refl (s : XSt) : SameR s s := ⟨rfl, rfl, rfl, rfl, rfl, rfl⟩
theorem SameR.trans {s1 s2 s3 : XSt} (h1 : SameR s1 s2) (h2 : SameR s2 s3) : SameR s1 s3 :=
  ⟨h2.1.trans h1.1, h2.2.1.trans h1.2.1, h2.2.2.1.trans h1.2.2.1, h2.2.2.2.1.trans h1.2.2.2.1,
   h2.2.2.2.2.1.trans h1.2.2.2.2.1, h2.2.2.2.2.2.trans h1.2.2.2.2.2⟩

/-- the progress of the write in flight lies inside its buffer -/
def PosOK (s : XSt) : Prop :=
  match s.w.curr with
  | some wb => s.wpos < wb.datalen
  | none => s.wpos = 0

/-- what the writer still has to hand to the kernel -/
def D (s : XSt) : Bytes := (pendingData s.w).drop s.wpos

/-- writer half of the relation between the executable's state and the monitor's -/
structure WRel (s : XSt) (m : MSt) : Prop where
  inv : Inv s.w
  resv : ResvRel s.w m.resv
  wresv : ∀ n, m.resv = some n → s.wresv = n
  failed : m.failed = s.w.failed
  wq : m.wq = s.wq
  acc : ∀ n, SAns.accept n ∈ s.wq → 0 < n
  pos : PosOK s
  pend : s.w.failed = false → m.pending = D s
  pendF : s.w.failed = true → m.pending = []

theorem wrel_init : WRel {} {} :=
  ⟨inv_init, rfl, fun _ h => by simp at h, rfl, rfl, fun _ h => by simp at h, rfl, fun _ => rfl, fun _ => rfl⟩

/-! ## the send answers used, as the monitor counts them -/

def accepts (l : List SAns) : List Nat := l.filterMap fun a => match a with | .accept n => some n | _ => none
def nfail (l : List SAns) : Nat := (l.filter fun a => match a with | .fail => true | _ => false).length
def sumN (l : List Nat) : Nat := l.foldl (· + ·) 0

theorem foldl_add (l : List Nat) : ∀ a, l.foldl (· + ·) a = a + l.foldl (· + ·) 0 := by
  induction l with
  | nil => intro a; rfl
  | cons x l ih => intro a; simp only [List.foldl_cons]; rw [ih (a + x), ih (0 + x)]; omega

theorem sumN_cons (n : Nat) (l : List Nat) : sumN (n :: l) = n + sumN l := by
  simp only [sumN, List.foldl_cons]; rw [foldl_add]; omega

/-- what one `spin` of the writer reports: `delta` arrived at the peer, the failure callback ran `fc` times, the
send answers `A` were used; before, `D` was still to be sent, afterwards `D'`; `more`: answers are left over -/
structure SendOK (D D' : Bytes) (failed' : Bool) (A : List SAns) (delta : Bytes) (fc : Nat) (more : Prop) : Prop where
  lo : (accepts A).length ≤ delta.length
  hi : delta.length ≤ sumN (accepts A)
  cases : (nfail A = 0 ∧ fc = 0 ∧ failed' = false ∧ delta ++ D' = D ∧ (more → D' = [])) ∨
          (∃ A0, A = A0 ++ [.fail] ∧ nfail A0 = 0 ∧ fc = 1 ∧ failed' = true ∧ delta.length < D.length ∧ delta <+: D)

theorem SendOK.eagain {D D' : Bytes} {failed' : Bool} {A : List SAns} {delta : Bytes} {fc : Nat} {more : Prop}
    (h : SendOK D D' failed' A delta fc more) : SendOK D D' failed' (.eagain :: A) delta fc more := by
  refine ⟨by simpa [accepts] using h.lo, by simpa [accepts] using h.hi, ?_⟩
  rcases h.cases with ⟨h1, h2⟩ | ⟨A0, rfl, h1, h2⟩
  · exact Or.inl ⟨by simpa [nfail] using h1, h2⟩
  · exact Or.inr ⟨.eagain :: A0, rfl, by simpa [nfail] using h1, h2⟩

theorem SendOK.accept {D D' : Bytes} {failed' : Bool} {A : List SAns} {delta : Bytes} {fc : Nat} {more : Prop}
    (n m' : Nat) (h1 : 1 ≤ m') (h2 : m' ≤ n) (h3 : m' ≤ D.length)
    (h : SendOK (D.drop m') D' failed' A delta fc more) :
    SendOK D D' failed' (.accept n :: A) (D.take m' ++ delta) fc more := by
  have hlt : (D.take m').length = m' := by rw [List.length_take]; omega
  have hacc : accepts (.accept n :: A) = n :: accepts A := by simp [accepts]
  refine ⟨?_, ?_, ?_⟩
  · rw [hacc, List.length_append, hlt, List.length_cons]; have := h.lo; omega
  · rw [hacc, List.length_append, hlt, sumN_cons]; have := h.hi; omega
  · rcases h.cases with ⟨e1, e2, e3, e4, e5⟩ | ⟨A0, rfl, e1, e2, e3, e4, e5⟩
    · refine Or.inl ⟨by simpa [nfail] using e1, e2, e3, ?_, e5⟩
      rw [List.append_assoc, e4, List.take_append_drop]
    · refine Or.inr ⟨.accept n :: A0, rfl, by simpa [nfail] using e1, e2, e3, ?_, ?_⟩
      · rw [List.length_append, hlt]
        rw [List.length_drop] at e4
        omega
      · have : D.take m' ++ delta <+: D.take m' ++ D.drop m' := (List.prefix_append_right_inj _).2 e5
        rwa [List.take_append_drop] at this

/-! ## the writer model under the kernel's answers -/

theorem spinW_idle (s : XSt) (q : List SAns) (peer : Bytes) (fails used : Nat) (hc : s.w.curr = none) :
    spinW s q peer fails used = ({ s with wq := q }, peer, fails, used) := by
  cases q with
  | nil => rfl
  | cons ans rest =>
    simp only [spinW, hc]
    split <;> rfl

/-- the bytes of a completion are the front of the buffer in flight -/
theorem step_net_sent {w w' : NetbufWrite.W} {wb : NetbufWrite.WBuf} {ev : WEv} {o : WOut}
    (e : NetbufWrite.step w (.net ev) = .ok (w', o)) (hc : w.curr = some wb) (hok : BufOK wb)
    (ht : NetbufWrite.takenOf ev ≤ wb.datalen) : o.sent = wb.buf.take (NetbufWrite.takenOf ev) := by
  have h1 := hok.len
  have h2 := hok.dat
  simp only [NetbufWrite.step, hc] at e
  rw [Proofs.NetbufRead.slice_eq _ _ _ (by omega)] at e
  simp only [Res.ok_bind, List.drop_zero] at e
  cases hwb : NetbufWrite.writbuf w (NetbufWrite.writelenOf ev) with
  | ok p =>
    rw [hwb] at e
    simp only [Res.ok_bind, Res.pure_eq, Res.ok.injEq, Prod.mk.injEq] at e
    rw [← e.2]
  | oob => rw [hwb] at e; simp at e
  | abort => rw [hwb] at e; simp at e
  | contract => rw [hwb] at e; simp at e

/-- the piece of the buffer in flight that one `send` takes is the front of what is still to be sent -/
theorem piece_eq (wb : NetbufWrite.WBuf) (hok : BufOK wb) (Q : Bytes) (wpos m' : Nat) (h : wpos + m' ≤ wb.datalen) :
    (wb.buf.drop wpos).take m' = ((wb.data ++ Q).drop wpos).take m' := by
  have h1 := hok.len
  have h2 := hok.dat
  have hdl := data_length hok
  rw [List.drop_append_of_le_length (by omega), List.take_append_of_le_length (by rw [List.length_drop]; omega)]
  simp only [NetbufWrite.WBuf.data]
  rw [List.drop_take, List.take_take]
  congr 1
  omega

theorem D_of_curr {s : XSt} {wb : NetbufWrite.WBuf} (hc : s.w.curr = some wb) :
    D s = (wb.data ++ qdata s.w.queue).drop s.wpos := by
  simp [D, pendingData, currData, hc]

theorem D_length_of_curr {s : XSt} {wb : NetbufWrite.WBuf} (hc : s.w.curr = some wb) (hok : BufOK wb)
    (hp : s.wpos ≤ wb.datalen) : wb.datalen - s.wpos ≤ (D s).length := by
  rw [D_of_curr hc, List.length_drop, List.length_append, data_length hok]
  omega

theorem spinW_sound : ∀ (q : List SAns) (s : XSt) (peer : Bytes) (fails used : Nat),
    Inv s.w → ResvRel s.w none → PosOK s → s.bad = none → s.w.failed = false → (∀ n, SAns.accept n ∈ q → 0 < n) →
    ∃ k delta fc, k ≤ q.length ∧
      (spinW s q peer fails used).2.1 = peer ++ delta ∧
      (spinW s q peer fails used).2.2.1 = fails + fc ∧
      (spinW s q peer fails used).2.2.2 = used + k ∧
      (spinW s q peer fails used).1.wq = q.drop k ∧ Inv (spinW s q peer fails used).1.w ∧
      ResvRel (spinW s q peer fails used).1.w none ∧ PosOK (spinW s q peer fails used).1 ∧
      (spinW s q peer fails used).1.bad = none ∧ SameR s (spinW s q peer fails used).1 ∧
      (spinW s q peer fails used).1.wresv = s.wresv ∧
      SendOK (D s) (D (spinW s q peer fails used).1) (spinW s q peer fails used).1.w.failed (q.take k) delta fc
        (k < q.length) := by
  intro q
  induction q with
  | nil =>
    intro s peer fails used hi hr hp hbad hf _
    refine ⟨0, [], 0, Nat.le_refl _, by simp [spinW], rfl, rfl, rfl, hi, hr, hp, hbad, SameR.refl s, rfl, ?_⟩
    exact ⟨Nat.le_refl _, Nat.zero_le _, Or.inl ⟨rfl, rfl, hf, rfl, fun h => absurd h (by simp)⟩⟩
  | cons ans rest ih =>
    intro s peer fails used hi hr hp hbad hf hacc
    have hacc' : ∀ n, SAns.accept n ∈ rest → 0 < n := fun n hn => hacc n (List.mem_cons_of_mem _ hn)
    cases hc : s.w.curr with
    | none =>
      rw [spinW_idle s _ peer fails used hc]
      refine ⟨0, [], 0, Nat.zero_le _, by simp, rfl, rfl, rfl, hi, hr, hp, hbad, SameR.refl s, rfl, ?_⟩
      refine ⟨Nat.le_refl _, Nat.zero_le _, Or.inl ⟨rfl, rfl, hf, rfl, fun _ => ?_⟩⟩
      show D s = []
      simp [D, pendingData, currData, hc, hi.idle hf hc]
    | some wb =>
      obtain ⟨hok, hpos⟩ := hi.c wb hc
      have hp' : s.wpos < wb.datalen := by unfold PosOK at hp; rw [hc] at hp; exact hp
      simp only [spinW]
      rw [if_neg (by simp [hbad])]
      simp only [hc]
      cases ans with
      | eagain =>
        simp only
        obtain ⟨k, delta, fc, hk, e1, e2, e3, e4, e5, e6, e7, e8, e9, e10, e11⟩ :=
          ih s peer fails (used + 1) hi hr hp hbad hf hacc'
        refine ⟨k + 1, delta, fc, by simp; omega, e1, e2, by rw [e3]; omega, by simpa using e4, e5, e6, e7, e8, e9,
          e10, ?_⟩
        have : (k + 1 < (SAns.eagain :: rest).length) = (k < rest.length) := by simp
        rw [this, List.take_succ_cons]
        exact e11.eagain
      | accept n =>
        have hn : 0 < n := hacc n List.mem_cons_self
        simp only
        have hm1 : 1 ≤ min n (wb.datalen - s.wpos) := by omega
        have hm2 : min n (wb.datalen - s.wpos) ≤ n := by omega
        have hm3 : s.wpos + min n (wb.datalen - s.wpos) ≤ wb.datalen := by omega
        have hDl := D_length_of_curr hc hok (by omega)
        have hpiece : (wb.buf.drop s.wpos).take (min n (wb.datalen - s.wpos))
            = (D s).take (min n (wb.datalen - s.wpos)) := by
          rw [D_of_curr hc]; exact piece_eq wb hok _ _ _ hm3
        rw [hpiece]
        have hmore : (0 + 1 < (SAns.accept n :: rest).length) = (0 < rest.length) := by simp
        split
        · rename_i hlt
          -- part of the buffer in flight is left
          obtain ⟨k, delta, fc, hk, e1, e2, e3, e4, e5, e6, e7, e8, e9, e10, e11⟩ :=
            ih { s with wpos := s.wpos + min n (wb.datalen - s.wpos) } (peer ++ (D s).take (min n (wb.datalen - s.wpos)))
              fails (used + 1) hi hr (by unfold PosOK; simp only [hc]; exact hlt) hbad hf hacc'
          have hD1 : D { s with wpos := s.wpos + min n (wb.datalen - s.wpos) }
              = (D s).drop (min n (wb.datalen - s.wpos)) := by
            simp only [D]; rw [List.drop_drop]
          rw [hD1] at e11
          refine ⟨k + 1, (D s).take (min n (wb.datalen - s.wpos)) ++ delta, fc, by simp; omega,
            by rw [e1, List.append_assoc], e2, by rw [e3]; omega, by simpa using e4, e5, e6, e7, e8, e9, e10, ?_⟩
          have : (k + 1 < (SAns.accept n :: rest).length) = (k < rest.length) := by simp
          rw [this, List.take_succ_cons]
          exact e11.accept n _ hm1 hm2 (by omega)
        · rename_i hlt
          -- the buffer in flight is complete: `writbuf`
          have hfull : s.wpos + min n (wb.datalen - s.wpos) = wb.datalen := by omega
          rw [hfull]
          obtain ⟨w', o, e, hi', hr', _, hev⟩ := net_spec hi hr (.done wb.datalen) ⟨wb, hc, rfl⟩
          obtain ⟨hf', hcb, hsent⟩ := hev
          have hos := step_net_sent e hc hok (Nat.le_refl _)
          rw [e]
          simp only [hcb]
          have hpend' : pendingData w' = (D s).drop (min n (wb.datalen - s.wpos)) := by
            have h1 : pendingData s.w = wb.data ++ qdata s.w.queue := by simp [pendingData, currData, hc]
            have h2 : o.sent = wb.data := hos
            rw [h1, h2] at hsent
            have h3 := List.append_cancel_left hsent
            rw [h3, D_of_curr hc, List.drop_drop, hfull, List.drop_append_of_le_length (by rw [data_length hok]; omega)]
            rw [List.drop_of_length_le (by rw [data_length hok]; omega), List.nil_append]
          have hpos' : PosOK { s with w := w', wpos := 0 } := by
            unfold PosOK
            cases hc' : w'.curr with
            | none => rfl
            | some wb2 => exact (hi'.c wb2 hc').2
          obtain ⟨k, delta, fc, hk, e1, e2, e3, e4, e5, e6, e7, e8, e9, e10, e11⟩ :=
            ih { s with w := w', wpos := 0 } (peer ++ (D s).take (min n (wb.datalen - s.wpos)))
              (fails + (if false = true then 1 else 0)) (used + 1) hi' hr' hpos' hbad hf' hacc'
          have hD1 : D { s with w := w', wpos := 0 } = (D s).drop (min n (wb.datalen - s.wpos)) := by
            simp only [D, List.drop_zero]; exact hpend'
          rw [hD1] at e11
          refine ⟨k + 1, (D s).take (min n (wb.datalen - s.wpos)) ++ delta, fc, by simp; omega,
            by rw [e1, List.append_assoc], by rw [e2]; simp, by rw [e3]; omega, by simpa using e4, e5, e6, e7, e8, e9,
            e10, ?_⟩
          have : (k + 1 < (SAns.accept n :: rest).length) = (k < rest.length) := by simp
          rw [this, List.take_succ_cons]
          exact e11.accept n _ hm1 hm2 (by omega)
      | fail =>
        simp only
        obtain ⟨w', o, e, hi', hr', _, hev⟩ := net_spec hi hr (.fail s.wpos) ⟨wb, hc, by show s.wpos ≤ wb.datalen; omega⟩
        obtain ⟨hf', hcb, _⟩ := hev
        rw [e]
        simp only [hcb]
        have hc' : w'.curr = none := hi'.failedIdle hf'
        rw [spinW_idle _ rest peer _ _ hc']
        have hDl := D_length_of_curr hc hok (by omega)
        refine ⟨1, [], 1, by simp, by simp, by simp, rfl, by simp, hi', hr', ?_, hbad, ⟨rfl, rfl, rfl, rfl, rfl, rfl⟩,
          rfl, ?_⟩
        · unfold PosOK; simp [hc']
        · refine ⟨by simp [accepts], Nat.zero_le _, Or.inr ⟨[], by simp, rfl, rfl, hf', ?_, List.nil_prefix⟩⟩
          simp only [List.length_nil]
          omega

end Percival.Proofs.NetbufMonSound
