import Percival.Spec.HttpResp
/-! Concrete data for the non-vacuity examples in `Properties/C08.lean` and `Properties/C09.lean`. -/
namespace Percival.Proofs.HttpSamples
open Percival.Spec.HttpResp

/-- "HTTP/1.1 200 OK", `Transfer-Encoding: chunked`, one chunk "hi", last chunk -/
def sampleStream : List UInt8 :=
  [72, 84, 84, 80, 47, 49, 46, 49, 32, 50, 48, 48, 32, 79, 75, 13, 10, 84, 114, 97, 110, 115, 102, 101, 114, 45, 69, 110, 99, 111, 100, 105, 110, 103, 58, 32, 99, 104, 117, 110, 107, 101, 100, 13, 10, 13, 10, 50, 13, 10, 104, 105, 13, 10, 48, 13, 10, 13, 10]

/-- a well-formed value: one interim `100 Continue`, then `HTTP/1.1 200 OK`, `A: b` (with OWS),
    `Transfer-Encoding: chunked`, two chunks "hi" and "!" (the second with an extension) -/
def sample : Resp :=
  { interim := [{ minor := 1, status := 100, reason := [32, 67], headers := [] }],
    final := { minor := 1, status := 200, reason := [32, 79, 75],
               headers := [{ name := [65], value := [98], pre := [32], post := [9] },
                           { name := sTransferEncoding, value := sChunked, pre := [32] }] },
    framing := .chunked [([104, 105], []), ([33], [59, 120])] [] [13, 10] }

end Percival.Proofs.HttpSamples
