import Percival.Proofs.CrcWord
/-! `Model.Crc32c` computes `Spec.Crc32c.crc32c`, for every way of splitting the data across
`CRC32C_Update` calls (helper lemmas for C01). -/
namespace Percival.Proofs.CrcMain
open Percival.Spec Percival.Spec.Crc32c Percival.Proofs.CrcPoly Percival.Proofs.CrcWord
open Percival.Model.Crc32c

/-- the byte loop is the bit-serial register over the buffer's bits -/
theorem bytesLoop_bits (s : UInt32) (data : Bytes) : bytesLoop s data = (bitsLSB data).foldl bitStep s := by
  induction data generalizing s with
  | nil => rfl
  | cons b rest ih =>
    simp only [bytesLoop, bitsLSB, List.flatMap_cons, List.foldl_append]
    rw [ih, step1_bits]
    rfl

/-- the 4-byte loop followed by the byte loop is the byte loop -/
theorem update_eq_bytesLoop (s : UInt32) (data : Bytes) : update s data = bytesLoop s data := by
  fun_induction update s data with
  | case1 s b0 b1 b2 b3 rest ih => rw [ih, step4_eq]; rfl
  | case2 s bs h => rfl

theorem update_bits (s : UInt32) (data : Bytes) : update s data = (bitsLSB data).foldl bitStep s := by
  rw [update_eq_bytesLoop, bytesLoop_bits]

theorem bitsLSB_append (a b : Bytes) : bitsLSB (a ++ b) = bitsLSB a ++ bitsLSB b := by
  simp [bitsLSB]

/-- splitting the data across calls does not matter -/
theorem update_chunks (s : UInt32) (chunks : List Bytes) :
    chunks.foldl update s = update s chunks.flatten := by
  induction chunks generalizing s with
  | nil => rfl
  | cons c cs ih =>
    simp only [List.foldl_cons, List.flatten_cons]
    rw [ih, update_bits, update_bits, update_bits, bitsLSB_append, List.foldl_append]

/-! ### `CRC32C_Final`: the state, little-endian, is the register's coefficients as bytes -/

set_option maxRecDepth 100000 in
theorem byte_bitsL : (List.range 256).map (fun n => byteOfBits (bitsOfByte (UInt8.ofNat n))) =
    (List.range 256).map (fun n => UInt8.ofNat n) := by decide +kernel

theorem byte_bits (b : UInt8) : byteOfBits (bitsOfByte b) = b := by
  have := List.map_inj_left.mp byte_bitsL b.toNat (List.mem_range.mpr b.toNat_lt)
  simpa using this

theorem byteOfBits_append (b : UInt8) (rest : List Bool) : byteOfBits (bitsOfByte b ++ rest) = b := by
  rw [byteOfBits_take]
  have : (bitsOfByte b ++ rest).take 8 = bitsOfByte b := by
    rw [List.take_append_of_le_length (by simp [bitsOfByte])]
    exact List.take_of_length_le (by simp [bitsOfByte])
  rw [this, byte_bits]

theorem bytes_bits (l : Bytes) : bytesOfBits l.length (bitsLSB l) = l := by
  induction l with
  | nil => rfl
  | cons b rest ih =>
    simp only [bitsLSB, List.flatMap_cons, List.length_cons] at ih ⊢
    have hne : bitsOfByte b ++ List.flatMap bitsOfByte rest ≠ [] := by simp [bitsOfByte]
    generalize hx : bitsOfByte b ++ List.flatMap bitsOfByte rest = x at *
    cases x with
    | nil => exact absurd rfl hne
    | cons y ys =>
      simp only [bytesOfBits]
      rw [← hx, byteOfBits_append, List.drop_append_of_le_length (by simp [bitsOfByte])]
      have : (bitsOfByte b).drop 8 = [] := List.drop_of_length_le (by simp [bitsOfByte])
      rw [this, List.nil_append, ih]

theorem bits_final (s : UInt32) : bitsLSB (final s) = coeffs s := by
  apply List.ext_getElem
  · simp [final, bitsLSB, bitsOfByte, coeffs]
  · intro i h1 h2
    have hi : i < 32 := by simpa [coeffs] using h2
    rw [coeffs_getElem]
    have hb : ∀ (k : Nat) (hk : k < 4), ∀ j, j < 8 →
        (((s >>> UInt32.ofNat (8 * k)) &&& 0xff).toUInt8).toNat.testBit j = s.toNat.testBit (8 * k + j) := by
      intro k hk j hj
      have : (UInt32.ofNat (8 * k)).toNat % 32 = 8 * k := by
        simp [UInt32.toNat_ofNat]; omega
      simp only [UInt32.toNat_toUInt8, UInt32.toNat_and, UInt32.toNat_shiftRight, this]
      rw [show (255 : UInt32).toNat = 2^8 - 1 by rfl, Nat.and_two_pow_sub_one_eq_mod, Nat.mod_mod_of_dvd _ (by decide),
        Nat.testBit_mod_two_pow, Nat.testBit_shiftRight]
      simp [hj]
    -- the four bytes, eight bits each
    have e : bitsLSB (final s) =
        (List.range 8).map (fun j => ((s &&& 0xff).toUInt8).toNat.testBit j) ++
        ((List.range 8).map (fun j => (((s >>> 8) &&& 0xff).toUInt8).toNat.testBit j) ++
        ((List.range 8).map (fun j => (((s >>> 16) &&& 0xff).toUInt8).toNat.testBit j) ++
        ((List.range 8).map (fun j => (((s >>> 24) &&& 0xff).toUInt8).toNat.testBit j)))) := by
      simp [final, bitsLSB, bitsOfByte]
    have z : s >>> UInt32.ofNat 0 = s := by
      apply UInt32.toNat_inj.mp; simp
    have h0 : ∀ j, j < 8 → ((s &&& 0xff).toUInt8).toNat.testBit j = s.toNat.testBit j := by
      intro j hj; have := hb 0 (by omega) j hj; rw [Nat.mul_zero, z, Nat.zero_add] at this; exact this
    have h8 : ∀ j, j < 8 → (((s >>> 8) &&& 0xff).toUInt8).toNat.testBit j = s.toNat.testBit (8 + j) :=
      fun j hj => hb 1 (by omega) j hj
    have h16 : ∀ j, j < 8 → (((s >>> 16) &&& 0xff).toUInt8).toNat.testBit j = s.toNat.testBit (16 + j) :=
      fun j hj => hb 2 (by omega) j hj
    have h24 : ∀ j, j < 8 → (((s >>> 24) &&& 0xff).toUInt8).toNat.testBit j = s.toNat.testBit (24 + j) :=
      fun j hj => hb 3 (by omega) j hj
    simp only [e]
    by_cases c0 : i < 8
    · rw [List.getElem_append_left (by simpa using c0)]
      simp only [List.getElem_map, List.getElem_range]
      exact h0 i c0
    · rw [List.getElem_append_right (by simpa using c0)]
      simp only [List.length_map, List.length_range]
      by_cases c1 : i < 16
      · rw [List.getElem_append_left (by simp; omega)]
        simp only [List.getElem_map, List.getElem_range]
        rw [h8 (i - 8) (by omega)]; congr 1; omega
      · rw [List.getElem_append_right (by simp; omega)]
        simp only [List.length_map, List.length_range]
        by_cases c2 : i < 24
        · rw [List.getElem_append_left (by simp; omega)]
          simp only [List.getElem_map, List.getElem_range]
          rw [h16 (i - 8 - 8) (by omega)]; congr 1; omega
        · rw [List.getElem_append_right (by simp; omega)]
          simp only [List.length_map, List.length_range, List.getElem_map, List.getElem_range]
          rw [h24 (i - 8 - 8 - 8) (by omega)]; congr 1; omega

theorem final_eq (s : UInt32) : final s = bytesOfBits 4 (coeffs s) := by
  have h := bytes_bits (final s)
  rw [bits_final] at h
  exact h.symm

/-- **the C's CRC32C is the Spec function** -/
theorem model_eq_spec (data : Bytes) : final (update init data) = crc32c data := by
  rw [final_eq, update_bits, coeffs_run, crc32c_eq]


theorem zx_eq_zeros (a b : Poly) (h : a.length = b.length) (hz : ∀ x ∈ zx a b, x = false) : a = b := by
  induction a generalizing b with
  | nil => cases b with
    | nil => rfl
    | cons _ _ => simp at h
  | cons x xs ih =>
    cases b with
    | nil => simp at h
    | cons y ys =>
      simp only [zx, List.zipWith_cons_cons, List.mem_cons, forall_eq_or_imp] at hz
      obtain ⟨h1, h2⟩ := hz
      have := ih ys (by simpa using h) h2
      subst this
      cases x <;> cases y <;> simp_all

/-- the documented sentence determines the value: only `crc32c data` satisfies `Valid` -/
theorem valid_unique (data crc : Bytes) (h : Valid data crc) : crc = crc32c data := by
  obtain ⟨hl, hm⟩ := h
  have hcl : (bitsLSB crc).length = 32 := by rw [bitsLSB_length, hl]
  unfold IsMultiple codeword mod at hm
  have hn : (true :: (bitsLSB data ++ bitsLSB crc)).length + 1 - castagnoli.length = (true :: bitsLSB data).length := by
    simp [hcl, castagnoli, bitsMSB32]
  rw [hn] at hm
  have hsplit : true :: (bitsLSB data ++ bitsLSB crc) =
      zx ((true :: bitsLSB data) ++ List.replicate 32 false)
        (List.replicate (true :: bitsLSB data).length false ++ bitsLSB crc) := by
    rw [zx_append _ _ _ _ (by simp), zx_zeros_right, ← hcl, zx_zeros_left]; rfl
  rw [hsplit, reduce_zx _ _ _ _ (by simp [hcl]), reduce_zeros] at hm
  have := zx_eq_zeros _ _ (by rw [← rem, rem_length, hcl]) hm
  rw [crc32c_eq, rem, this]
  have := bytes_bits crc
  rw [hl] at this
  exact this.symm

end Percival.Proofs.CrcMain
