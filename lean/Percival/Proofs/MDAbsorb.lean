import Percival.Spec.MD
/-! Lemmas about `Spec.MD.blocks / absorb / padding` (helper lemmas for C01). -/
namespace Percival.Proofs.MD
open Percival.Spec Percival.Spec.MD
variable (p : Params)

theorem blocks_fuel (s : p.St) (n k : Nat) (m : Bytes) (h1 : m.length / 64 < n) (h2 : m.length / 64 < k) :
    blocks p s n m = blocks p s k m := by
  induction n generalizing s k m with
  | zero => omega
  | succ n ih =>
    cases k with
    | zero => omega
    | succ k =>
      simp only [blocks]
      split
      · rfl
      · rename_i hlen
        simp only [List.length_take] at hlen
        apply ih
        · simp only [List.length_drop]; omega
        · simp only [List.length_drop]; omega

theorem absorb_short (s : p.St) (m : Bytes) (h : m.length < 64) : absorb p s m = s := by
  unfold absorb
  have : m.length / 64 = 0 := by omega
  simp only [this, blocks, List.length_take]
  split
  · rfl
  · omega

theorem absorb_block (s : p.St) (b m : Bytes) (hb : b.length = 64) :
    absorb p s (b ++ m) = absorb p (p.compress s b) m := by
  unfold absorb
  have hl : (b ++ m).length = 64 + m.length := by simp [hb]
  have : (b ++ m).length / 64 + 1 = (m.length / 64 + 1) + 1 := by omega
  rw [this, blocks]
  have ht : (b ++ m).take 64 = b := by
    rw [List.take_append_of_le_length (by omega)]; exact List.take_of_length_le (by omega)
  have hd : (b ++ m).drop 64 = m := by
    rw [List.drop_append_of_le_length (by omega)]; simp [List.drop_of_length_le, hb]
  simp only [ht, hd, hb, Nat.lt_irrefl, if_false]

theorem absorb_append (s : p.St) (a m : Bytes) (k : Nat) (ha : a.length = 64 * k) :
    absorb p s (a ++ m) = absorb p (absorb p s a) m := by
  induction k generalizing s a with
  | zero =>
    have : a = [] := List.eq_nil_of_length_eq_zero (by omega)
    subst this
    simp [absorb_short]
  | succ k ih =>
    have h1 : (a.take 64).length = 64 := by simp [List.length_take]; omega
    have h2 : (a.drop 64).length = 64 * k := by simp [List.length_drop]; omega
    have hsplit : a = a.take 64 ++ a.drop 64 := (List.take_append_drop 64 a).symm
    rw [hsplit, List.append_assoc, absorb_block p s _ _ h1, ih _ _ h2, absorb_block p s _ _ h1]

theorem absorb_tail (s : p.St) (a t : Bytes) (k : Nat) (ha : a.length = 64 * k) (ht : t.length < 64) :
    absorb p s (a ++ t) = absorb p s a := by
  rw [absorb_append p s a t k ha, absorb_short p _ t ht]

theorem absorb_one (s : p.St) (b : Bytes) (hb : b.length = 64) : absorb p s b = p.compress s b := by
  have := absorb_block p s b [] hb
  simpa [absorb_short] using this

/-- dropping the incomplete last block does not change `absorb` -/
theorem absorb_full (s : p.St) (m : Bytes) : absorb p s m = absorb p s (m.take (m.length / 64 * 64)) := by
  have h := absorb_tail p s (m.take (m.length / 64 * 64)) (m.drop (m.length / 64 * 64)) (m.length / 64)
    (by simp [List.length_take]; omega) (by simp [List.length_drop]; omega)
  rw [List.take_append_drop] at h
  exact h

theorem padding_eq (n : Nat) :
    padding p n = (0x80 :: List.replicate ((if n % 64 < 56 then 56 - n % 64 else 120 - n % 64) - 1) 0) ++ p.lenEnc (8 * n % 2^64) := by
  have hcnt : (119 - n % 64) % 64 = (if n % 64 < 56 then 56 - n % 64 else 120 - n % 64) - 1 := by
    split <;> omega
  unfold padding zeroCount
  rw [hcnt]

/-- total length of message + padding is a multiple of 64 -/
theorem padded_len (m : Bytes) : ∃ k, (m ++ padding p m.length).length = 64 * k := by
  refine ⟨(m ++ padding p m.length).length / 64, ?_⟩
  simp only [padding, zeroCount, List.length_append, List.length_cons, List.length_replicate, p.lenEnc_len]
  omega

end Percival.Proofs.MD
