import Percival.Proofs.Heap
/-!
# C13 helper lemmas, part 2: `minChild`, sift-down (`heapify`), the stale last slot
-/
namespace Percival.Proofs.Heap
open Percival.Model.Heap

variable (key : Nat → Int)

theorem minChild_cases (h : Heap) (N i : Nat) :
    minChild key h N i = i ∨ (minChild key h N i = 2*i+1 ∧ 2*i+1 < N) ∨ (minChild key h N i = 2*i+2 ∧ 2*i+2 < N) := by
  unfold minChild
  grind

/-- the chosen slot is ≤ the element at `i` and ≤ both children that lie below `N` -/
theorem minChild_le (h : Heap) (N i : Nat) (hN : N ≤ h.a.size) (hi : i < N) :
    ∀ km, keyAt key h (minChild key h N i) = some km →
      (∀ kx, keyAt key h i = some kx → km ≤ kx) ∧
      (∀ kl, 2*i+1 < N → keyAt key h (2*i+1) = some kl → km ≤ kl) ∧
      (∀ kr, 2*i+2 < N → keyAt key h (2*i+2) = some kr → km ≤ kr) := by
  intro km
  have h0 : ∃ v, h.a[i]? = some v := ⟨h.a[i], by simp [Array.getElem?_eq_getElem (show i < h.a.size by omega)]⟩
  unfold minChild keyAt
  grind

theorem siftDown_size (b : Bool) (N f : Nat) (h : Heap) (x : Nat) :
    (siftDown key b N f h x).a.size = h.a.size := by
  induction f generalizing h x with
  | zero => simp [siftDown]
  | succ f ih =>
    simp only [siftDown]
    split
    · rfl
    · rw [ih, swap_size]

/-- slots `≥ N` are never touched -/
theorem siftDown_frame (b : Bool) (N f : Nat) (h : Heap) (x k : Nat) (hN : N ≤ h.a.size) (hk : N ≤ k) :
    (siftDown key b N f h x).a[k]? = h.a[k]? := by
  induction f generalizing h x with
  | zero => simp [siftDown]
  | succ f ih =>
    simp only [siftDown]
    have hc := minChild_cases key h N x
    generalize minChild key h N x = m at *
    split
    · rfl
    · rw [ih _ _ (by rw [swap_size]; exact hN), swap_get b h _ _ _ (by omega) (by omega)]
      have : k ≠ x := by omega
      have : k ≠ m := by omega
      simp [*]

theorem siftDown_perm (b : Bool) (N f : Nat) (h : Heap) (x : Nat) :
    (siftDown key b N f h x).a.toList.Perm h.a.toList := by
  induction f generalizing h x with
  | zero => simp [siftDown]
  | succ f ih =>
    simp only [siftDown]
    split
    · exact List.Perm.refl _
    · exact (ih _ _).trans (swap_perm b h _ _)

theorem siftDown_log_false (N f : Nat) (h : Heap) (x : Nat) :
    (siftDown key false N f h x).log = h.log := by
  induction f generalizing h x with
  | zero => simp [siftDown]
  | succ f ih =>
    simp only [siftDown]
    split
    · rfl
    · rw [ih, swap_log_false]

theorem siftDown_handles (N f : Nat) (h : Heap) (x : Nat) (hN : N ≤ h.a.size)
    (hd : DistinctN h N) (hp : PosN h N) :
    DistinctN (siftDown key true N f h x) N ∧ PosN (siftDown key true N f h x) N := by
  induction f generalizing h x with
  | zero => simp only [siftDown]; exact ⟨hd, hp⟩
  | succ f ih =>
    simp only [siftDown]
    have hc := minChild_cases key h N x
    generalize minChild key h N x = m at *
    split
    · exact ⟨hd, hp⟩
    · apply ih
      · rw [swap_size]; exact hN
      · exact swap_distinct true h N _ _ hN (by omega) (by omega) hd
      · exact swap_pos h N _ _ hN (by omega) (by omega) hd hp

theorem siftDown_distinct (b : Bool) (N f : Nat) (h : Heap) (x : Nat) (hN : N ≤ h.a.size)
    (hd : DistinctN h N) : DistinctN (siftDown key b N f h x) N := by
  induction f generalizing h x with
  | zero => simp only [siftDown]; exact hd
  | succ f ih =>
    simp only [siftDown]
    have hc := minChild_cases key h N x
    generalize minChild key h N x = m at *
    split
    · exact hd
    · apply ih
      · rw [swap_size]; exact hN
      · exact swap_distinct b h N _ _ hN (by omega) (by omega) hd

/-- Sift-down restores the order on all edges with parent `≥ lo`, given that it held on all of them
    except the ones below `x`.  `lo = 0`: `increase`/`delete`; `lo = x`: one step of `create`. -/
theorem siftDown_ordered (b : Bool) (N lo f : Nat) (h : Heap) (x : Nat) (hN : N ≤ h.a.size) (hfuel : N ≤ x + f)
    (hlo : lo ≤ x)
    (hex : OrderedBelowExcept key h N lo x) (hp : ParentOK key h N lo x) :
    OrderedFrom key (siftDown key b N f h x) N lo := by
  induction f generalizing h x with
  | zero =>
    simp only [siftDown]
    intro i c q hi hiN hl hc hq
    exact hex i c q hi hiN hl (by omega) hc hq
  | succ f ih =>
    simp only [siftDown]
    have hcases := minChild_cases key h N x
    generalize hm : minChild key h N x = m at *
    by_cases hxN : x < N
    · have hle := minChild_le key h N x hN hxN
      rw [hm] at hle
      have hxs : x < h.a.size := by omega
      split
      · -- m = x : nothing below x is smaller
        rename_i hmx
        rw [hmx] at hle
        intro i c q hi hiN hl hc hq
        by_cases hpar : (i-1)/2 = x
        · have hi2 : i = 2*x+1 ∨ i = 2*x+2 := by omega
          rw [hpar] at hq
          obtain ⟨_, hl1, hl2⟩ := hle (key q) (by unfold keyAt; rw [hq]; rfl)
          rcases hi2 with h1 | h2
          · rw [h1] at hc hiN
            exact hl1 (key c) hiN (by unfold keyAt; rw [hc]; rfl)
          · rw [h2] at hc hiN
            exact hl2 (key c) hiN (by unfold keyAt; rw [hc]; rfl)
        · exact hex i c q hi hiN hl hpar hc hq
      · rename_i hmx
        have hmN : m < N := by omega
        have hms : m < h.a.size := by omega
        apply ih
        · rw [swap_size]; exact hN
        · omega
        · omega
        · intro i c q hi hiN hl hne hc hq
          rw [swap_get b h _ _ _ hms hxs] at hc hq
          have e1 := hex i; have p1 := hp i; have p2 := hp m
          have hl' := hle
          unfold keyAt at hl'
          grind
        · intro c e q hpar hlo' hcN hc0 hcpar he hq
          rw [swap_get b h _ _ _ hms hxs] at he hq
          have e1 := hex c
          have hl' := hle
          unfold keyAt at hl'
          grind
    · -- x ≥ N : minChild = x
      have : m = x := by omega
      simp only [this, if_true]
      intro i c q hi hiN hl hc hq
      exact hex i c q hi hiN hl (by omega) hc hq

/-! ## The stale last slot in `ptrheap_delete` is never chosen by `heapify` -/

/-- If slot `n-1` holds the same element as slot `i` (the element being sifted), the C's
    choice among {i, 2i+1, 2i+2} over `N = n` slots equals the choice over `n-1` slots. -/
theorem minChild_dup_eq (h : Heap) (n i : Nat) (hn : n = h.a.size) (hi : i < n - 1)
    (hdup : h.a[n-1]? = h.a[i]?) :
    minChild key h n i = minChild key h (n-1) i := by
  have hv : ∃ v, h.a[i]? = some v := ⟨h.a[i], by simp [Array.getElem?_eq_getElem (show i < h.a.size by omega)]⟩
  obtain ⟨v, hv⟩ := hv
  rw [hv] at hdup
  unfold minChild keyAt
  by_cases h1 : 2*i+1 = n-1
  · have : h.a[2*i+1]? = some v := by rw [h1]; exact hdup
    have h2 : h.a[2*i+2]? = none := by
      apply Array.getElem?_eq_none; omega
    simp [hv, this, h2]
  · by_cases h2 : 2*i+2 = n-1
    · have hr : h.a[2*i+2]? = some v := by rw [h2]; exact hdup
      have hl : ∃ l, h.a[2*i+1]? = some l := ⟨h.a[2*i+1], by simp [Array.getElem?_eq_getElem (show 2*i+1 < h.a.size by omega)]⟩
      obtain ⟨l, hl⟩ := hl
      simp only [hv, hl, hr, Option.map_some]
      by_cases hc : key v > key l
      · have c1 : 2*i+1 < n := by omega
        have c2 : 2*i+1 < n-1 := by omega
        simp only [c1, c2, hc, and_self, if_true, hl, Option.map_some]
        have : ¬ (key l > key v) := by omega
        simp [this]
      · simp only [hc, and_false, if_false, hv, Option.map_some]
        simp
    · have e1 : (2*i+1 < n) ↔ (2*i+1 < n-1) := by omega
      have e2 : (2*i+2 < n) ↔ (2*i+2 < n-1) := by omega
      simp only [e1, e2]

/-- … and it is never the stale slot itself. -/
theorem minChild_dup_ne (h : Heap) (n i : Nat) (hn : n = h.a.size) (hi : i < n - 1)
    (hdup : h.a[n-1]? = h.a[i]?) : minChild key h n i ≠ n - 1 := by
  rw [minChild_dup_eq key h n i hn hi hdup]
  have := minChild_cases key h (n-1) i
  omega

/-- Hence `heapify` over the old length `n` behaves exactly like `heapify` over `n-1`. -/
theorem siftDown_dup_eq (b : Bool) (f : Nat) (h : Heap) (n i : Nat) (hn : n = h.a.size) (hi : i < n - 1)
    (hdup : h.a[n-1]? = h.a[i]?) :
    siftDown key b n f h i = siftDown key b (n-1) f h i := by
  induction f generalizing h i with
  | zero => simp [siftDown]
  | succ f ih =>
    simp only [siftDown]
    rw [minChild_dup_eq key h n i hn hi hdup]
    have hc := minChild_cases key h (n-1) i
    generalize minChild key h (n-1) i = m at *
    split
    · rfl
    · have hm : m < n - 1 := by omega
      apply ih
      · rw [swap_size]; exact hn
      · exact hm
      · rw [swap_get b h _ _ _ (by omega) (by omega), swap_get b h _ _ _ (by omega) (by omega)]
        have h1 : n - 1 ≠ m := by omega
        have h2 : n - 1 ≠ i := by omega
        have h3 : m ≠ i := by omega
        simp only [h1, h2, h3, if_false, if_true]
        exact hdup

end Percival.Proofs.Heap
