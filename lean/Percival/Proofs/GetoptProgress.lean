import Percival.Proofs.GetoptMain
/-! Every `getopt` call that reports an option moves the cursor forward (C18, termination). -/
namespace Percival.Proofs.Getopt
open Percival.Spec.Getopt Percival.Model.Getopt

/-- the fields a `getopt` call at an initialised state never touches -/
def Frame (t t' : St) : Prop :=
  t'.optreset = t.optreset ∧ t'.initialized = t.initialized ∧ t'.opts = t.opts ∧ t'.nopts = t.nopts ∧
  t'.optDefault = t.optDefault ∧ t'.optMissing = t.optMissing

/-- how one completed option changes the cursor: nothing moved, or the rest of a pack was taken,
    or the following word was taken -/
def Effect (argv : List Str) (t t' : St) : Prop :=
  Frame t t' ∧
  ((t'.packed = t.packed ∧ t'.optind = t.optind) ∨
   (t.packed ≠ none ∧ t'.packed = none ∧ t'.optind = t.optind + 1) ∨
   (t.packed = none ∧ t'.packed = none ∧ t'.optind = t.optind + 1 ∧ t.optind < argv.length))

theorem takeArg_effect {argv : List Str} {t t' : St} {os : Str} {e : Slot}
    (h : takeArg argv t os e = .ok t') : Effect argv t t' := by
  unfold takeArg at h
  cases hp : t.packed with
  | some ij =>
    obtain ⟨i, j⟩ := ij
    simp only [hp, bind, Except.bind] at h
    cases ha : arg argv i with
    | error e => simp [ha] at h
    | ok w =>
      simp only [ha] at h
      split at h
      · cases hr : rd os e.olen with
        | error e => simp [hr, pure, Except.pure] at h
        | ok c =>
          simp only [hr, pure, Except.pure] at h
          by_cases hc : (c == eqc) = true <;> simp [hc] at h <;> subst h <;> simp [Effect, Frame, hp]
      · simp [throw, throwThe, MonadExceptOf.throw] at h
  | none =>
    simp only [hp, bind, Except.bind, pure, Except.pure] at h
    cases hr : rd os e.olen with
    | error e => simp [hr] at h
    | ok c =>
      simp only [hr] at h
      by_cases hc : (c == eqc) = true
      · simp [hc] at h; subst h; simp [Effect, Frame, hp]
      · simp only [hc] at h
        by_cases hcond : (t.optarg.isNone && decide (t.optind < argv.length)) = true
        · simp only [Bool.false_eq_true, if_false, hcond, if_true] at h
          cases ha : arg argv t.optind with
          | error e => simp [ha] at h
          | ok w =>
            simp [ha] at h
            subst h
            simp at hcond
            simp [Effect, Frame, hp, hcond.2]
        · simp only [Bool.false_eq_true, if_false, hcond] at h
          split at h <;> simp at h <;> subst h <;> simp [Effect, Frame, hp]

theorem finishOpt_effect {argv : List Str} {t t' : St} {os : Str} {r : Ret}
    (h : finishOpt argv t os = .ok (r, t')) : Effect argv t t' := by
  unfold finishOpt at h
  simp only [bind, Except.bind, pure, Except.pure] at h
  cases hs : searchopt t os with
  | error e => simp [hs] at h
  | ok found =>
    simp only [hs] at h
    split at h
    · simp at h; obtain ⟨_, rfl⟩ := h; simp [Effect, Frame]
    · cases hsl : slot { t with optFound := found } found with
      | error e => simp [hsl] at h
      | ok e =>
        simp only [hsl] at h
        split at h
        · cases hta : takeArg argv { t with optFound := found } os e with
          | error e => simp [hta] at h
          | ok t2 =>
            simp [hta] at h
            obtain ⟨_, rfl⟩ := h
            have := takeArg_effect hta
            simpa [Effect, Frame] using this
        · cases hr : rd os e.olen with
          | error e => simp [hr] at h
          | ok c =>
            simp [hr] at h
            obtain ⟨_, rfl⟩ := h
            split <;> simp [Effect, Frame]

/-- the cursor is inside `argv`: `optind ≤ argc`, and a pack cursor points strictly inside `argv[optind]`,
    after its leading `-` -/
def CursorOK (argv : List Str) (s : St) : Prop :=
  s.optind ≤ argv.length ∧
  ∀ i j, s.packed = some (i, j) → i = s.optind ∧ ∃ w, argv[i]? = some w ∧ 1 ≤ j ∧ j < w.length

/-- offset of the pack cursor in the current word (0 at a word boundary) -/
def offset (s : St) : Nat :=
  match s.packed with
  | none => 0
  | some (_, j) => j

theorem inv_of_frame {lines : List Line} {t t' : St} (h : Inv lines t) (f : Frame t t') : Inv lines t' := by
  obtain ⟨f1, f2, f3, f4, f5, f6⟩ := f
  exact ⟨f1 ▸ h.reset, f2 ▸ h.init, f3 ▸ h.opts, f4 ▸ h.nopts, f5 ▸ h.dflt, f6 ▸ h.miss⟩

/-- what the caller of `finishOpt` needs: from a call state `t` derived from `s` -/
theorem progress_from {lines : List Line} {argv : List Str} {s t s' : St} {os : Str} {ch : Str} {w : Str}
    (hinv : Inv lines t) (hw : argv[s.optind]? = some w)
    (hf : finishOpt argv t os = .ok (.os ch, s'))
    (hcase : (t.packed = none ∧ t.optind = s.optind + 1) ∨
             (∃ j, t.packed = some (s.optind, j) ∧ t.optind = s.optind ∧ offset s < j ∧ 1 ≤ j ∧ j < w.length)) :
    CursorOK argv s' ∧ Inv lines s' ∧
      (s.optind < s'.optind ∨ (s.optind = s'.optind ∧ offset s < offset s')) := by
  have hlt := lt_of_getElem? hw
  obtain ⟨hfr, heff⟩ := finishOpt_effect hf
  refine ⟨?_, inv_of_frame hinv hfr, ?_⟩
  · rcases hcase with ⟨hp, hoi⟩ | ⟨j, hp, hoi, _, h1, h2⟩
    · rcases heff with ⟨e1, e2⟩ | ⟨e1, _⟩ | ⟨_, e2, e3, e4⟩
      · exact ⟨by omega, by intro i j h; rw [e1, hp] at h; cases h⟩
      · exact absurd hp e1
      · exact ⟨by omega, by intro i j h; rw [e2] at h; cases h⟩
    · rcases heff with ⟨e1, e2⟩ | ⟨_, e2, e3⟩ | ⟨e1, _⟩
      · refine ⟨by omega, ?_⟩
        intro i' j' h
        rw [e1, hp] at h
        cases h
        exact ⟨by omega, w, hw, h1, h2⟩
      · exact ⟨by omega, by intro i j h; rw [e2] at h; cases h⟩
      · rw [hp] at e1; cases e1
  · rcases hcase with ⟨hp, hoi⟩ | ⟨j, hp, hoi, hoff, _, _⟩
    · rcases heff with ⟨_, e2⟩ | ⟨e1, _⟩ | ⟨_, _, e3, _⟩
      · left; omega
      · exact absurd hp e1
      · left; omega
    · rcases heff with ⟨e1, e2⟩ | ⟨_, _, e3⟩ | ⟨e1, _⟩
      · right
        refine ⟨by omega, ?_⟩
        simp only [offset, e1, hp] at hoff ⊢
        exact hoff
      · left; omega
      · rw [hp] at e1; cases e1

/-- **Progress.**  At an initialised state whose cursor is inside `argv`, a `getopt` call that returns
    an option string leaves the cursor inside `argv` and strictly further on (next word, or same word
    and a larger offset). -/
theorem getopt_progress {lines : List Line} {argv : List Str} (hnul : ∀ a ∈ argv, NulFree a)
    {s s' : St} {ch : Str} (hinv : Inv lines s) (hc : CursorOK argv s)
    (h : Model.Getopt.getopt argv s = .ok (.os ch, s')) :
    CursorOK argv s' ∧ Inv lines s' ∧
      (s.optind < s'.optind ∨ (s.optind = s'.optind ∧ offset s < offset s')) := by
  have hlt : s.optind < argv.length := by
    by_cases hlt : s.optind < argv.length
    · exact hlt
    · rw [getopt_end hinv (by omega)] at h; cases h
  obtain ⟨w, hw⟩ : ∃ w, argv[s.optind]? = some w := ⟨argv[s.optind], by simp [hlt]⟩
  have hwn : NulFree w := hnul w (List.mem_of_getElem? hw)
  cases hp : s.packed with
  | none =>
    have hoff : offset s = 0 := by simp [offset, hp]
    match w, hw, hwn with
    | [], hw, hwn => rw [getopt_stop hinv hp hw (Or.inl rfl) hwn] at h; cases h
    | [c], hw, hwn => rw [getopt_stop hinv hp hw (Or.inr (Or.inl ⟨c, rfl⟩)) hwn] at h; cases h
    | c0 :: c1 :: cs, hw, hwn =>
      by_cases h0 : c0 = dash
      · subst h0
        by_cases h1 : c1 = dash
        · subst h1
          cases cs with
          | nil => rw [getopt_dashdash hinv hp hw] at h; cases h
          | cons c cs =>
            have hc0 : c ≠ 0 := (nulFree_cons.mp (nulFree_cons.mp (nulFree_cons.mp hwn).2).2).1
            rw [getopt_long hinv hp hw hc0] at h
            exact progress_from (inv_update hinv _ _ _ _) hw h (Or.inl ⟨hp, rfl⟩)
        · rw [getopt_pack_start hinv hp hw h1 hwn] at h
          cases cs with
          | nil => exact progress_from (inv_update hinv _ _ _ _) hw h (Or.inl ⟨rfl, rfl⟩)
          | cons d cs =>
            refine progress_from (inv_update hinv _ _ _ _) hw h (Or.inr ⟨2, by simp, by simp, by omega, by omega, by simp⟩)
      · rw [getopt_stop hinv hp hw (Or.inr (Or.inr ⟨c0, c1, cs, rfl, h0⟩)) hwn] at h; cases h
  | some ij =>
    obtain ⟨i, j⟩ := ij
    obtain ⟨hi, w', hw', hj1, hj2⟩ := hc.2 i j hp
    subst hi
    rw [hw] at hw'; cases hw'
    have hoff : offset s = j := by simp [offset, hp]
    -- split the word at the cursor
    have hsplit : w = w.take j ++ w.drop j := (List.take_append_drop j w).symm
    have hplen : (w.take j).length = j := by simp; omega
    cases hd : w.drop j with
    | nil =>
      have := congrArg List.length hd
      simp at this; omega
    | cons c cs =>
      rw [hd] at hsplit
      have hwlen : w.length = j + 1 + cs.length := by
        have := congrArg List.length hsplit
        simp [hplen] at this; omega
      have hw2 : argv[s.optind]? = some (w.take j ++ c :: cs) := by rw [← hsplit]; exact hw
      have hnul2 : NulFree (w.take j ++ c :: cs) := by rw [← hsplit]; exact hwn
      rw [getopt_packed hinv (by rw [hplen]; exact hp) hw2 hnul2] at h
      cases cs with
      | nil => exact progress_from (inv_update hinv _ _ _ _) hw h (Or.inl ⟨rfl, rfl⟩)
      | cons d cs =>
        refine progress_from (inv_update hinv _ _ _ _) hw h
          (Or.inr ⟨j + 1, by simp [hplen], by simp, by omega, by omega, by simp at hwlen; omega⟩)

/-- the states in which parsing starts satisfy the hypotheses of `getopt_progress` -/
theorem ready_cursorOK (lines : List Line) (argv : List Str) (s : St) (h : 1 ≤ argv.length) :
    CursorOK argv (ready lines argv s) :=
  ⟨h, by intro i j hp; simp [ready, reset] at hp⟩

end Percival.Proofs.Getopt
