import Percival.Proofs.AfMonEndC
/-!
# C14, `af` protocol: the accounting piece of the monitor-soundness relation — summary and examples

* `AfMonEndA.lean`: `AcctRel`, `Side`, `acctRel_init`, **`releaseAll_live`** (`release_all` leaves no block),
  **`accepts_end`** (the monitor accepts the model's answer to `end`), `releaseAll_acctRel`.
* `AfMonEndB.lean`: `OpOk`, `acctRel_frame`, **`acctRel_step_norun`** (every operation but `end` / `events_run`).
* `AfMonEndC.lean`: `TmLink`, **`run_acct`** (`EvReg.run` moves the counter by the change of `evBlocks`),
  `step_run`, **`acctRel_step`**, `acctRel_next`.

Below: the relation is not vacuous (a state with an immediate event, a timer, a descriptor registration and a heap:
15 blocks live, none after `release_all`, checked by evaluation), `events_run` on concrete states, and the reason for
`OpOk` (a `reg_imm` with `prio ≥ 32` makes the model leak two blocks).
-/
namespace Percival.Proofs.AfMonEnd
open Percival.Model Percival.Model.EvReg Percival.Model.AfStep
open Percival.Spec.AfMon (Op Ans MState monStep MAXID)
open Percival.Proofs.EvRegAcct
open Percival.Proofs.AfMonRel

/-- `reg_net 9 2 w`, `reg_imm 3 5`, `reg_tm 7 100`, `h_init` -/
def exState : S :=
  (stepOp (stepOp (stepOp (stepOp {} (.regNet 9 2 true)).1 (.regImm 3 5)).1 (.regTm 7 100)).1 .hInit).1

theorem relIds_exState : relIds exState = [3, 7] := by
  have : ((exState.ev.heads.flatten.map (·.id)) ++ (exState.ev.timers.map (·.id))) = [3, 7] := by decide
  unfold relIds
  rw [this]
  simp [List.mergeSort]

theorem relSocks_exState : relSocks exState = [(2, true)] := by
  have : exState.net = [(2, true)] := by decide
  unfold relSocks
  rw [this]
  simp

/-- checked directly: 15 blocks before, none after -/
example : exState.m.live = 15 ∧ evBlocks exState.ev + heapBlocks exState.h = 15 ∧ (releaseAll exState).m.live = 0 := by
  refine ⟨by decide, by decide, ?_⟩
  rw [releaseAll_m]
  unfold relMem relEv
  rw [relIds_exState, relSocks_exState]
  decide

/-- the initial state satisfies every hypothesis used -/
example : AcctRel ({} : S) ∧ Side ({} : S) ∧ TmLink ({} : S).ev := ⟨acctRel_init, side_init, tmLink_init⟩

/-- the accounting relation of `exState` through the step lemmas -/
example : AcctRel exState :=
  step_hInit _ (step_regTm _ 7 100 (step_regImm _ 3 5 (by decide) (step_regNet _ 9 2 true acctRel_init side_init)))

/-- `events_run` on concrete states: the immediate event runs (first call: its two objects go into the
pools' caches), then the expired timer (second call: three blocks freed) -/
example :
    let s1 := (stepOp exState (.clock 200)).1
    let s2 := (stepOp s1 .run).1
    let s3 := (stepOp s2 .run).1
    s2.m.live = evBlocks s2.ev + heapBlocks s2.h ∧ s3.m.live = evBlocks s3.ev + heapBlocks s3.h ∧
    s2.m.live = 15 ∧ s3.m.live = 12 ∧ (stepOp s1 .run).2.ans.ran = some (some [3]) ∧
    (stepOp s2 .run).2.ans.ran = some (some [7]) := by decide

/-- why `OpOk`: `reg_imm 1 40` is answered `ok`, registers nothing and leaves two blocks that `release_all` cannot
reach -/
example : (stepOp {} (.regImm 1 40)).2.ans.head = .ok ∧ (releaseAll (stepOp {} (.regImm 1 40)).1).m.live = 2 := by
  refine ⟨by decide, ?_⟩
  rw [releaseAll_m]
  unfold relMem relEv
  have h1 : relIds (stepOp {} (.regImm 1 40)).1 = [] := by
    have : (((stepOp {} (.regImm 1 40)).1.ev.heads.flatten.map (·.id)) ++
        ((stepOp {} (.regImm 1 40)).1.ev.timers.map (·.id))) = [] := by decide
    unfold relIds
    rw [this]
    simp
  have h2 : relSocks (stepOp {} (.regImm 1 40)).1 = [] := by
    have : (stepOp {} (.regImm 1 40)).1.net = [] := by decide
    unfold relSocks
    rw [this]
    simp
  rw [h1, h2]
  decide

end Percival.Proofs.AfMonEnd
