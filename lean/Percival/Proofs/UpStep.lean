import Percival.Model.UpStep
/-!
# C14: what `Model.UpStep.stepOp` (the function `pmodel upmodel` runs) does to the world of `Model/AllocFail.lean`

`callOf s op` names the library call (`AllocFail.Op`) a protocol line stands for.  `call` is `AllocFail.stepR`
(`call_eq_stepR`); `stepOp` stores the world `stepR` returns and prints its outcome (`stepOp_call`), leaves the
state alone when the harness makes no call (`stepOp_skip`), changes only the oracle's schedule on a schedule line
(`stepOp_sched`), and at `end` is `AllocFail.run` on the harness' release calls followed by the exit handlers
(`stepOp_end`).
-/
namespace Percival.Proofs.UpStep
open Percival.Model Percival.Model.AllocFail Percival.Model.UpStep
open Percival.Model.DsStep (sched)

theorem call_eq_stepR (w : World) (c : AllocFail.Op) : ((call w c).1, (call w c).2.2) = stepR w c := by
  cases c <;> simp only [call, stepR] <;> (try rfl) <;> split <;> simp_all

/-- an op that is a library call (not a schedule line, not `end`) -/
def isCall : UpStep.Op → Bool
  | .failat _ | .failfrom _ | .failoff | .end_ => false
  | _ => true

theorem stepOp_eq (s : S) (op : UpStep.Op) (h : isCall op = true) :
    stepOp s op = (match callOf s op with
      | none => (s, .word .skip)
      | some c =>
        match call s.w c with
        | (.contract, _, _) => (s, onContract s op)
        | (rc, o, w') => ({ book s op o (rc == .ok) with w := w' }, line (rc == .ok) s.w w')) := by
  cases op <;> simp [isCall] at h <;> rfl

theorem book_w (s : S) (op : UpStep.Op) (o : Option Nat) (ok : Bool) : (book s op o ok).w = s.w := by
  unfold book
  split <;> (try rfl)
  split <;> rfl

theorem stepOp_skip (s : S) (op : UpStep.Op) (h : isCall op = true) (hc : callOf s op = none) :
    stepOp s op = (s, .word .skip) := by
  rw [stepOp_eq s op h, hc]

theorem stepOp_call (s : S) (op : UpStep.Op) (c : AllocFail.Op) (hc : callOf s op = some c) :
    ((stepR s.w c).1 = .contract → stepOp s op = (s, onContract s op)) ∧
    ((stepR s.w c).1 ≠ .contract →
      (stepOp s op).1.w = (stepR s.w c).2 ∧ (stepOp s op).2 = line ((stepR s.w c).1 == .ok) s.w (stepR s.w c).2) := by
  have hcall : isCall op = true := by
    cases op <;> simp [callOf] at hc <;> rfl
  have he := call_eq_stepR s.w c
  rw [stepOp_eq s op hcall, hc]
  rcases hr : call s.w c with ⟨rc, o, w'⟩
  rw [hr] at he
  simp only at he
  rw [← he]
  simp only
  cases rc <;> simp [hr]

theorem stepOp_sched (s : S) (op : UpStep.Op) (h : isCall op = false) (he : op ≠ .end_) :
    (stepOp s op).2 = .word .ok ∧
    ∃ f, (stepOp s op).1 = { s with w := { s.w with m := { s.w.m with f := f } } } := by
  cases op <;> simp [isCall] at h
  · exact ⟨rfl, _, rfl⟩
  · exact ⟨rfl, _, rfl⟩
  · exact ⟨rfl, _, rfl⟩
  · exact absurd rfl he

theorem stepOp_end (s : S) :
    (stepOp s .end_).1.w.m.live = (endWorld s).m.live ∧ (stepOp s .end_).1.w.live = (endWorld s).live ∧
    (stepOp s .end_).1.w.cache = (endWorld s).cache ∧ (stepOp s .end_).1.w.bad = (endWorld s).bad ∧
    ∃ left, (stepOp s .end_).2 = .end_ (endWorld s).m.live (endWorld s).m.n left := by
  simp only [stepOp, releaseAll]
  exact ⟨trivial, trivial, trivial, trivial, _, rfl⟩

end Percival.Proofs.UpStep
