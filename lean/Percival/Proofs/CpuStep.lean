import Percival.Model.CpuStep
import Percival.Proofs.CpuPaths
/-! Helper lemmas for `C03.exec_crc_line`: the L2 part of a `crc` line of `pmodel cpu`. -/
namespace Percival.Proofs.CpuStep
open Percival Percival.Model.CpuPaths Percival.Model.CpuStep Percival.Proofs.CpuPaths

theorem callsOf_length (hw : Option Variant) : ∀ (cs : List Bytes) (addr : Nat), (callsOf hw addr cs).length = cs.length
  | [], _ => rfl
  | c :: cs, addr => by simp [callsOf, callsOf_length hw cs]

theorem callsOf_data (hw : Option Variant) : ∀ (cs : List Bytes) (addr : Nat),
    (callsOf hw addr cs).flatMap (·.data) = cs.flatten
  | [], _ => rfl
  | c :: cs, addr => by simp [callsOf, callsOf_data hw cs]

/-- the states after each call: one per call, none of them a failure, the last one the byte-wise CRC of everything -/
theorem crcStates_spec : ∀ (calls : List Call) (s : UInt32),
    (crcStates calls s).length = calls.length ∧ (∀ o ∈ crcStates calls s, o ≠ none) ∧
    (calls ≠ [] → (crcStates calls s).getLast? = some (some ((calls.flatMap (·.data)).foldl byteStep s)))
  | [], s => by simp [crcStates]
  | c :: rest, s => by
    obtain ⟨i1, i2, i3⟩ := crcStates_spec rest (c.data.foldl byteStep s)
    simp only [crcStates, crcUpdate_eq]
    refine ⟨by simp [i1], ?_, fun _ => ?_⟩
    · intro o ho
      rcases List.mem_cons.mp ho with rfl | ho
      · simp
      · exact i2 o ho
    · cases rest with
      | nil => simp [crcStates]
      | cons c2 r2 =>
        have h3 := i3 (by simp)
        rw [List.getLast?_cons_of_ne_nil (by
          intro hnil
          have := i1; rw [hnil] at this; simp at this)]
        rw [h3]; simp [List.foldl_append]

end Percival.Proofs.CpuStep
