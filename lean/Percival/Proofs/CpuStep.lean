import Percival.Model.CpuStep
import Percival.Proofs.CpuPaths
import Percival.Proofs.CpuAesSpec
import Percival.Proofs.CpuAesni
import Percival.Proofs.AesStep
import Percival.Proofs.MDAbsorb
/-! Helper lemmas for the `exec_*` theorems of C03 (`pmodel cpu`): the L2 part of a `crc` line; the `aesblock` / `ctr`
answers are `Spec.Aes` / `Spec.Ctr`, and the models of the routed C code paths agree with them. -/
namespace Percival.Proofs.CpuStep
open Percival Percival.Model.CpuPaths Percival.Model.CpuStep Percival.Proofs.CpuPaths

theorem callsOf_length (hw : Option Variant) : ∀ (cs : List Bytes) (addr : Nat), (callsOf hw addr cs).length = cs.length
  | [], _ => rfl
  | c :: cs, addr => by simp [callsOf, callsOf_length hw cs]

theorem callsOf_data (hw : Option Variant) : ∀ (cs : List Bytes) (addr : Nat),
    (callsOf hw addr cs).flatMap (·.data) = cs.flatten
  | [], _ => rfl
  | c :: cs, addr => by simp [callsOf, callsOf_data hw cs]

/-- the states after each call: one per call, none of them a failure, the last one the byte-wise CRC of everything -/
theorem crcStates_spec : ∀ (calls : List Call) (s : UInt32),
    (crcStates calls s).length = calls.length ∧ (∀ o ∈ crcStates calls s, o ≠ none) ∧
    (calls ≠ [] → (crcStates calls s).getLast? = some (some ((calls.flatMap (·.data)).foldl byteStep s)))
  | [], s => by simp [crcStates]
  | c :: rest, s => by
    obtain ⟨i1, i2, i3⟩ := crcStates_spec rest (c.data.foldl byteStep s)
    simp only [crcStates, crcUpdate_eq]
    refine ⟨by simp [i1], ?_, fun _ => ?_⟩
    · intro o ho
      rcases List.mem_cons.mp ho with rfl | ho
      · simp
      · exact i2 o ho
    · cases rest with
      | nil => simp [crcStates]
      | cons c2 r2 =>
        have h3 := i3 (by simp)
        rw [List.getLast?_cons_of_ne_nil (by
          intro hnil
          have := i1; rw [hnil] at this; simp at this)]
        rw [h3]; simp [List.foldl_append]

/-! ## `aesblock` / `ctr` -/
section aes
open Percival.Spec

/-- what `stepOp` computes for an `aesblock` op is `Spec.Aes.encryptBlock` -/
theorem aesBlock_eq_spec (key blk : List UInt8) (hk : key.length = 16 ∨ key.length = 32) (hb : blk.length = 16) :
    aesBlock key blk = some (Aes.encryptBlock key blk) := by
  obtain ⟨b, h1, h2⟩ := CpuAesSpec.ofBytes_bytes blk hb
  unfold aesBlock
  rw [if_pos hk, h1, Option.bind_some]
  have := CpuAesSpec.encrypt_eq_spec key hk b
  rw [h2] at this
  exact this

theorem aesBlock_none (key blk : List UInt8) (h : ¬ ((key.length = 16 ∨ key.length = 32) ∧ blk.length = 16)) :
    aesBlock key blk = none := by
  unfold aesBlock
  by_cases hk : key.length = 16 ∨ key.length = 32
  · rw [if_pos hk, CpuAesSpec.ofBytes_none blk (fun hb => h ⟨hk, hb⟩)]; rfl
  · rw [if_neg hk]

theorem zipWith_take_drop {α β γ : Type} (g : α → β → γ) : ∀ (ks : List β) (n : Nat) (rest : List α) (tl : List β),
    ks.length = n → List.zipWith g rest (ks ++ tl) = List.zipWith g (rest.take n) ks ++ List.zipWith g (rest.drop n) tl
  | [], n, rest, tl, h => by
    have : n = 0 := by simpa using h.symm
    subst this; simp
  | k :: ks, n, [], tl, h => by simp
  | k :: ks, n, r :: rs, tl, h => by
    obtain ⟨n', rfl⟩ : ∃ n', n = n' + 1 := ⟨ks.length, by simpa using h.symm⟩
    simp only [List.cons_append, List.zipWith_cons_cons, List.take_succ_cons, List.drop_succ_cons]
    rw [zipWith_take_drop g ks n' rs tl (by simpa using h)]

/-- the block loop of `ctrStream`: block `j` of the input is XORed with `AES_k(nonce ‖ be64(j))` -/
theorem ctrGo_spec (key nonce : List UInt8) (hk : key.length = 16 ∨ key.length = 32) (hn : nonce.length = 8) :
    ∀ (f i : Nat) (rest : List UInt8) (acc : List (List UInt8)) (last : List UInt8), rest.length ≤ 16 * f →
      ∃ chunks, ctrGo key nonce f i rest acc last =
          some (chunks, if f = 0 then last else Aes.encryptBlock key (nonce ++ Ctr.be64 (i + f - 1))) ∧
        chunks.reverse.flatten = acc.reverse.flatten ++
          List.zipWith (· ^^^ ·) rest ((List.range' i f).flatMap fun j => Aes.encryptBlock key (nonce ++ Ctr.be64 j))
  | 0, i, rest, acc, last, h => by
    have : rest = [] := List.eq_nil_of_length_eq_zero (by omega)
    subst this
    exact ⟨acc, rfl, by simp⟩
  | f+1, i, rest, acc, last, h => by
    have hblk : (nonce ++ Ctr.be64 i).length = 16 := by rw [List.length_append, hn]; rfl
    have hks : (Aes.encryptBlock key (nonce ++ Ctr.be64 i)).length = 16 :=
      Proofs.Aes.encryptBlock_length key _ hk hblk
    have ha : aesBlock key (nonce ++ Spec.be64enc i) = some (Aes.encryptBlock key (nonce ++ Ctr.be64 i)) :=
      aesBlock_eq_spec key _ hk hblk
    obtain ⟨chunks, h1, h2⟩ := ctrGo_spec key nonce hk hn f (i + 1) (rest.drop 16)
      (List.zipWith (· ^^^ ·) (rest.take 16) (Aes.encryptBlock key (nonce ++ Ctr.be64 i)) :: acc)
      (Aes.encryptBlock key (nonce ++ Ctr.be64 i)) (by rw [List.length_drop]; omega)
    refine ⟨chunks, ?_, ?_⟩
    · simp only [ctrGo, ha, h1]
      congr 2
      by_cases hf : f = 0
      · subst hf; simp
      · rw [if_neg hf, if_neg (by omega)]; congr 3; omega
    · rw [h2, List.range'_succ, List.flatMap_cons, zipWith_take_drop _ _ 16 _ _ hks]
      simp

/-- the L2 view `ctrStream` reports after `n = data.length` bytes: `bytectr = n`; the counter half of `pblk` is
    `be64(⌈n/16⌉ − 1)` (undetermined before the first block); `buf` is the keystream block in use (shown only
    inside a block) -/
def l2Of (key : List UInt8) (nonce : UInt64) (data : List UInt8) : CtrL2 :=
  { bytectr := data.length, nonce := Ctr.be64 nonce.toNat,
    counter := if data.length = 0 then none else some (Ctr.be64 ((data.length + 15) / 16 - 1)),
    buf := if data.length % 16 = 0 then []
           else Ctr.keystreamBlock (Aes.encryptBlock key) nonce (data.length / 16) }

/-- **what `stepOp` computes for a `ctr` op**: SP 800-38A CTR (`Spec.Ctr.stream`) of FIPS-197 AES
    (`Spec.Aes.encryptBlock`), and the L2 view `l2Of` -/
theorem ctrStream_eq_spec (key data : List UInt8) (nonce : UInt64) (hk : key.length = 16 ∨ key.length = 32) :
    ctrStream key (Ctr.be64 nonce.toNat) data =
      some (Ctr.stream (Aes.encryptBlock key) nonce data, l2Of key nonce data) := by
  obtain ⟨chunks, h1, h2⟩ := ctrGo_spec key (Ctr.be64 nonce.toNat) hk rfl ((data.length + 15) / 16) 0 data [] []
    (by omega)
  have e1 : chunks.reverse.flatten = Ctr.stream (Aes.encryptBlock key) nonce data := by
    rw [h2, List.reverse_nil, List.flatten_nil, List.nil_append, ← List.range_eq_range']; rfl
  have e2 : (if data.length % 16 = 0 then []
      else if (data.length + 15) / 16 = 0 then []
        else Aes.encryptBlock key (Ctr.be64 nonce.toNat ++ Ctr.be64 (0 + (data.length + 15) / 16 - 1))) =
      (l2Of key nonce data).buf := by
    unfold l2Of
    by_cases hm : data.length % 16 = 0
    · simp only [hm, if_true]
    · simp only [hm, if_false]
      rw [if_neg (by omega), show 0 + (data.length + 15) / 16 - 1 = data.length / 16 by omega]; rfl
  unfold ctrStream
  rw [if_neg (by simp only [Proofs.AesCtr.be64_length]; omega)]
  simp only [h1, e1, e2]
  rfl

theorem ctrStream_none (key nb data : List UInt8) (h : ¬ ((key.length = 16 ∨ key.length = 32) ∧ nb.length = 8)) :
    ctrStream key nb data = none := by
  unfold ctrStream
  rw [if_pos (by
    by_cases hk : key.length = 16 ∨ key.length = 32
    · exact Or.inr (fun hn => h ⟨hk, hn⟩)
    · exact Or.inl hk)]

/-- every 8-byte string is the big-endian encoding of a 64-bit nonce -/
theorem be64_surj (nb : List UInt8) (h : nb.length = 8) : ∃ n : UInt64, Ctr.be64 n.toNat = nb := by
  obtain ⟨b0, b1, b2, b3, b4, b5, b6, b7, rfl⟩ := Proofs.AesCtr.len8 nb h
  have h0 := b0.toNat_lt; have h1 := b1.toNat_lt; have h2 := b2.toNat_lt; have h3 := b3.toNat_lt
  have h4 := b4.toNat_lt; have h5 := b5.toNat_lt; have h6 := b6.toNat_lt; have h7 := b7.toNat_lt
  refine ⟨UInt64.ofNat (b0.toNat * 2^56 + b1.toNat * 2^48 + b2.toNat * 2^40 + b3.toNat * 2^32 + b4.toNat * 2^24 +
    b5.toNat * 2^16 + b6.toNat * 2^8 + b7.toNat), ?_⟩
  rw [Proofs.AesStep.ofNat_toNat _ (by omega)]
  simp only [Ctr.be64, List.cons.injEq, and_true]
  refine ⟨?_, ?_, ?_, ?_, ?_, ?_, ?_, ?_⟩ <;>
    (apply UInt8.toNat_inj.mp
     rw [UInt8.toNat_ofNat']
     omega)

/-! ### the routed C code paths (`Model.AesCtr`, C02's statement-level model of crypto_aesctr*.c) -/

/-- what the harness prints of a `struct crypto_aesctr` (`bytectr`; `pblk`: only the nonce half and byte 15 before
    the first block; `buf` only inside a block) equals the L2 view `l2` -/
def L2Agrees {κ : Type} (s : Model.AesCtr.Stream κ) (l2 : CtrL2) : Prop :=
  s.bytectr.toNat = l2.bytectr ∧ s.pblk.take 8 = l2.nonce ∧
  (match l2.counter with
    | none => s.pblk[15]? = some 0xff
    | some c => s.pblk.drop 8 = c) ∧
  (l2.bytectr % 16 ≠ 0 → s.buf = l2.buf)

/-- a run of the code path with block function `enc` under the expanded key `k`: `crypto_aesctr_init` on a fresh object
    with memory contents `raw`, then the `crypto_aesctr_stream` calls `calls` (each with its own routing to the
    portable or the bulk loop): no call fails, the concatenated outputs are `out`, the final object shows `l2` -/
def CtrPathOk {κ : Type} (enc : κ → List UInt8 → List UInt8) (k : κ) (raw : Model.AesCtr.Raw) (nonce : UInt64)
    (calls : List Model.AesCtr.Call) (out : List UInt8) (l2 : CtrL2) : Prop :=
  ∃ s0 s outs, Model.AesCtr.init raw k nonce = some s0 ∧ Model.AesCtr.streamCalls enc s0 calls = some (s, outs) ∧
    outs.flatten = out ∧ outs.map List.length = calls.map (·.data.length) ∧ L2Agrees s l2

/-- any block function that is FIPS-197 AES under `key` on 16-byte blocks: the code path gives the Spec's stream and
    the L2 view of `ctrStream`, for every partition into calls and every routing -/
theorem ctrPath_ok {κ : Type} (enc : κ → List UInt8 → List UInt8)
    (hE : ∀ k b, b.length = 16 → (enc k b).length = 16) (k : κ) (key : List UInt8)
    (hagree : ∀ b, b.length = 16 → enc k b = Aes.encryptBlock key b)
    (raw : Model.AesCtr.Raw) (hraw : raw.pblk.length = 16) (nonce : UInt64) (calls : List Model.AesCtr.Call)
    (hlim : (Proofs.AesCtr.inputs calls).length < 2^64) :
    CtrPathOk enc k raw nonce calls (Ctr.stream (Aes.encryptBlock key) nonce (Proofs.AesCtr.inputs calls))
      (l2Of key nonce (Proofs.AesCtr.inputs calls)) := by
  obtain ⟨s0, h0, hinv, hz⟩ := Proofs.AesCtr.init2_spec enc
    { key := k, bytectr := raw.bytectr, buf := raw.buf, pblk := raw.pblk } (some k) nonce hraw
  have hz' : s0.bytectr.toNat = 0 := by rw [hz]; rfl
  obtain ⟨s, outs, hrun, hflat, hlens, hinvs, hpos⟩ :=
    Proofs.AesCtr.streamCalls_spec enc hE k nonce calls s0 hinv (by rw [hz']; omega)
  rw [hz', Nat.zero_add] at hpos
  refine ⟨s0, s, outs, h0, hrun, ?_, hlens, hpos, hinvs.nonceOk, ?_, ?_⟩
  · rw [hflat, hz', ← Proofs.AesCtr.stream_eq_streamAt _ _ (hE k)]
    exact Proofs.AesCtr.stream_congr _ _ nonce hagree _
  · have hc := hinvs.ctr
    rw [hpos] at hc
    unfold l2Of
    by_cases hn : (Proofs.AesCtr.inputs calls).length = 0
    · simp only [hn, if_true] at hc ⊢; exact hc
    · simp only [hn, if_false] at hc ⊢
      rw [hc]; congr 1; omega
  · intro hne
    have hb := hinvs.buf (by rw [hpos]; exact hne)
    rw [hb, hpos]
    unfold l2Of
    simp only [show ((Proofs.AesCtr.inputs calls).length % 16 = 0) = False from eq_false hne, if_false]
    exact hagree _ (by simp [Ctr.counterBlock, Proofs.AesCtr.be64_length])

/-! ### the three block functions a build can route to -/

/-- a 128- or 256-bit AES key -/
abbrev AesKey := { k : List UInt8 // k.length = 16 ∨ k.length = 32 }

/-- the block function of the AES-NI build by C03's instruction-level model (`Model.CpuAesni`:
    `crypto_aes_key_expand_aesni` = `MKRKEY128/256` with `AESKEYGENASSIST`, then `AESENC`… `AESENCLAST`) -/
def niEnc (k : AesKey) (b : List UInt8) : List UInt8 :=
  match (Model.CpuAesni.R.ofBytes b).bind (Model.CpuAesni.aesniEncrypt k.1) with
  | some c => c.bytes
  | none => []

/-- the same code by C02's instruction-level model (`Model.AesNi`, an independent transcription on byte strings) -/
def niEncB (k : AesKey) (b : List UInt8) : List UInt8 :=
  match (Model.AesNi.keyExpand k.1).bind (Model.AesNi.encryptBlock b) with
  | some c => c
  | none => []

/-- the AES-NI instruction model of C03, on bytes, is `Spec.Aes.encryptBlock` -/
theorem aesni_bytes_eq_spec (key blk : List UInt8) (hk : key.length = 16 ∨ key.length = 32) (hb : blk.length = 16) :
    (Model.CpuAesni.R.ofBytes blk).bind (fun b => (Model.CpuAesni.aesniEncrypt key b).map (·.bytes)) =
      some (Aes.encryptBlock key blk) := by
  obtain ⟨b, h1, h2⟩ := CpuAesSpec.ofBytes_bytes blk hb
  rw [h1, Option.bind_some, Proofs.CpuAesni.aesniEncrypt_eq key b hk, CpuAesSpec.encrypt_eq_spec key hk b, h2]

theorem niEnc_eq_spec (k : AesKey) (b : List UInt8) (hb : b.length = 16) : niEnc k b = Aes.encryptBlock k.1 b := by
  have h := aesni_bytes_eq_spec k.1 b k.2 hb
  unfold niEnc
  cases hx : Model.CpuAesni.R.ofBytes b with
  | none => rw [hx] at h; cases h
  | some r =>
    rw [hx, Option.bind_some] at h
    rw [Option.bind_some]
    cases hy : Model.CpuAesni.aesniEncrypt k.1 r with
    | none => rw [hy] at h; cases h
    | some c => rw [hy] at h; exact Option.some.inj h

theorem niEncB_eq_spec (k : AesKey) (b : List UInt8) (hb : b.length = 16) : niEncB k b = Aes.encryptBlock k.1 b := by
  unfold niEncB
  rw [Proofs.AesStep.niKey_encrypt k.1 b k.2 hb]; rfl

theorem niEnc_length (k : AesKey) (b : List UInt8) (hb : b.length = 16) : (niEnc k b).length = 16 := by
  rw [niEnc_eq_spec k b hb]; exact Proofs.Aes.encryptBlock_length k.1 b k.2 hb

theorem niEncB_length (k : AesKey) (b : List UInt8) (hb : b.length = 16) : (niEncB k b).length = 16 := by
  rw [niEncB_eq_spec k b hb]; exact Proofs.Aes.encryptBlock_length k.1 b k.2 hb

/-! ## `sha`, `xform`, `insn` -/

/-- the chaining value over a message that is a concatenation of 64-byte blocks is the fold of the compression function -/
theorem absorb_flatten (p : MD.Params) : ∀ (bs : List (List UInt8)) (s : p.St), (∀ b ∈ bs, b.length = 64) →
    MD.absorb p s bs.flatten = bs.foldl p.compress s
  | [], s, _ => Proofs.MD.absorb_short p s [] (by simp)
  | b :: bs, s, h => by
    rw [List.flatten_cons, Proofs.MD.absorb_block p s b _ (h b (by simp)), List.foldl_cons]
    exact absorb_flatten p bs _ (fun x hx => h x (by simp [hx]))

theorem regsOfBytes_some (s : List UInt8) (h : s.length = 32) : ∃ r, regsOfBytes s = some r := by
  match s, h with
  | [a0, a1, a2, a3, a4, a5, a6, a7, a8, a9, a10, a11, a12, a13, a14, a15, a16, a17, a18, a19, a20, a21, a22, a23,
     a24, a25, a26, a27, a28, a29, a30, a31], _ => exact ⟨_, rfl⟩

/-- `AESENC` of the instruction model, on bytes, is one FIPS-197 round as `Spec.Aes` writes it -/
theorem aesenc_bytes (a b : Model.CpuAesni.R) : (Model.CpuAesni.aesenc a b).bytes = Aes.round a.bytes b.bytes := by
  rw [Proofs.CpuAesni.aesenc_eq, CpuAesSpec.round_bytes]

theorem aesenclast_bytes (a b : Model.CpuAesni.R) :
    (Model.CpuAesni.aesenclast a b).bytes = Aes.finalRound a.bytes b.bytes := by
  rw [Proofs.CpuAesni.aesenclast_eq, CpuAesSpec.finalRound_bytes]

/-- the two transcriptions of `AESKEYGENASSIST` (C03: lanes, C02: byte strings) agree -/
theorem keygen_bytes (a : Model.CpuAesni.R) (imm : UInt8) :
    (Model.CpuAesni.aeskeygenassist a imm).bytes = Model.AesNi.aeskeygenassist a.bytes imm := by
  obtain ⟨⟨_, _, _, _⟩, ⟨_, _, _, _⟩, ⟨_, _, _, _⟩, ⟨_, _, _, _⟩⟩ := a
  simp [Model.CpuAesni.aeskeygenassist, Model.AesNi.aeskeygenassist, Model.AesNi.dword, Model.CpuAesni.R.bytes,
    Model.CpuAesni.W4.bytes, Model.CpuAesni.Fips.subWord, Model.CpuAesni.Fips.rotWord, Model.CpuAesni.W4.map,
    Aes.subWord, Aes.rotWord, Model.AesNi.pxor, Aes.xorBytes, CpuAesSpec.sbox_eq, Proofs.CpuAesni.W4.xor_def]

theorem stepOp_insn (cfg : Cfg) (i : Insn) : stepOp cfg (.insn (some i)) = .insn (insn i) := rfl

/-- the `CRC32` instruction on a source of 1, 4 or 8 bytes: the byte step folded over the source in address order -/
theorem insn_crc32 (a b c d : UInt8) (src : List UInt8) (h : src.length = 1 ∨ src.length = 4 ∨ src.length = 8) :
    insn (.crc32 [a, b, c, d] src) = some (.word (src.foldl byteStep (Spec.le32 a b c d))) := by
  rw [insn, if_pos h, ← crc32Insn_eq_fold]
  rfl

theorem ofBytes_of_bytes (r : Model.CpuAesni.R) : Model.CpuAesni.R.ofBytes r.bytes = some r := by
  obtain ⟨⟨_, _, _, _⟩, ⟨_, _, _, _⟩, ⟨_, _, _, _⟩, ⟨_, _, _, _⟩⟩ := r
  rfl

theorem insn_aesenc (ra rb : Model.CpuAesni.R) :
    insn (.aesenc ra.bytes rb.bytes) = some (.reg (Aes.round ra.bytes rb.bytes)) := by
  rw [insn, ofBytes_of_bytes, ofBytes_of_bytes, ← aesenc_bytes]
  rfl

theorem insn_aesenclast (ra rb : Model.CpuAesni.R) :
    insn (.aesenclast ra.bytes rb.bytes) = some (.reg (Aes.finalRound ra.bytes rb.bytes)) := by
  rw [insn, ofBytes_of_bytes, ofBytes_of_bytes, ← aesenclast_bytes]
  rfl

theorem insn_keygen (ra : Model.CpuAesni.R) (imm : UInt8) :
    insn (.keygen imm ra.bytes) = some (.reg (Model.AesNi.aeskeygenassist ra.bytes imm)) := by
  rw [insn, ofBytes_of_bytes, ← keygen_bytes]
  rfl

end aes

end Percival.Proofs.CpuStep
