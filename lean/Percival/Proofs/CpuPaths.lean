import Percival.Model.CpuPaths
import Percival.Proofs.Sha256Extend
/-! Helper lemmas for C03 (index arithmetic of `CRC32C_Update_SSE42`, GF(2) algebra of the `CRC32`
instruction, SSE2 lane identities). -/
namespace Percival.Proofs.CpuPaths
open Percival Percival.Spec Percival.Model.CpuPaths
open Percival.Spec.Crc32c (Poly addFront reduce mod castagnoli bitsLSB)


/-! ## constants of the current source (proved again in `Properties/C03.lean` as obligations) -/

theorem gen_crc :
    Gen.CpuPaths.sse42MinLen = 8 ∧ Gen.CpuPaths.sse42I0 = 0 ∧ Gen.CpuPaths.sse42PreSub = 8 ∧
    Gen.CpuPaths.sse42PreMask = 7 ∧ Gen.CpuPaths.sse42BlockMod = 8 ∧ Gen.CpuPaths.sse42BodyCmp = "<" ∧
    Gen.CpuPaths.sse42Stride = 8 ∧ Gen.CpuPaths.sse42Loads64 = [(0, 8)] ∧
    Gen.CpuPaths.sse42Loads32 = [(0, 4), (4, 4)] ∧ Gen.CpuPaths.sse42TailBound = 8 ∧
    Gen.CpuPaths.crcDispatchMinLen = 8 ∧ Gen.CpuPaths.crcInitState = 0x82f63b78 ∧
    Gen.CpuPaths.ctrDispatchMinLen = 16 := by
  decide

theorem minLen_eq : Gen.CpuPaths.sse42MinLen = 8 := gen_crc.1
theorem i0_eq : Gen.CpuPaths.sse42I0 = 0 := gen_crc.2.1
theorem stride_eq : Gen.CpuPaths.sse42Stride = 8 := gen_crc.2.2.2.2.2.2.1
theorem tailBound_eq : Gen.CpuPaths.sse42TailBound = 8 := gen_crc.2.2.2.2.2.2.2.2.2.1
theorem preMask_eq : Gen.CpuPaths.sse42PreMask = 7 := gen_crc.2.2.2.1
theorem dispatch_eq : Gen.CpuPaths.crcDispatchMinLen = 8 := gen_crc.2.2.2.2.2.2.2.2.2.2.1

theorem cmp_eq (i b : Nat) : cmpBy Gen.CpuPaths.sse42BodyCmp i b = decide (i < b) := by
  rw [gen_crc.2.2.2.2.2.1]; simp [cmpBy]

/-! ## index arithmetic -/

theorem preBlock_eq (addr : Nat) : preBlock addr = (8 - addr % 8) % 8 := by
  unfold preBlock
  rw [gen_crc.2.2.1, preMask_eq]
  omega

theorem inBlock_eq (addr len : Nat) :
    inBlock addr len = (len - preBlock addr) - (len - preBlock addr) % 8 := by
  unfold inBlock
  rw [gen_crc.2.2.2.2.1]

theorem bodyEnd_succ (inBlk f i : Nat) :
    bodyEnd inBlk (f+1) i = if i < inBlk then bodyEnd inBlk f (i + 8) else i := by
  simp [bodyEnd, cmp_eq, stride_eq]

theorem bodyEnd_ge (inBlk f i : Nat) : i ≤ bodyEnd inBlk f i := by
  induction f generalizing i with
  | zero => simp [bodyEnd]
  | succ f ih =>
    rw [bodyEnd_succ]
    split
    · have := ih (i + 8); omega
    · omega

/-- closed form of the loop exit: the body runs `⌈(in_block − i)/8⌉` times -/
theorem bodyEnd_closed (inBlk f i : Nat) (hf : inBlk ≤ i + 8 * f) :
    bodyEnd inBlk f i = if i < inBlk then i + 8 * ((inBlk - i + 7) / 8) else i := by
  induction f generalizing i with
  | zero => simp [bodyEnd]; omega
  | succ f ih =>
    rw [bodyEnd_succ]
    split
    · rw [ih (i + 8) (by omega)]
      split <;> omega
    · rfl

/-- the exit value of `i` for `len ≥ 8`: exactly `pre_block + in_block` -/
theorem stop_eq (addr len : Nat) (h : 8 ≤ len) :
    bodyEnd (inBlock addr len) (len + 1) (preBlock addr) = preBlock addr + inBlock addr len := by
  rw [bodyEnd_closed _ _ _ (by rw [inBlock_eq]; omega), inBlock_eq, preBlock_eq]
  split <;> omega

/-- consecutive accesses: each starts where the previous one ended -/
def Consec : List (Nat × Nat) → Nat → Nat → Prop
  | [], a, b => a = b
  | ow :: r, a, b => ow.1 = a ∧ Consec r (a + ow.2) b

theorem consec_append {l1 l2 : List (Nat × Nat)} {a m b : Nat}
    (h1 : Consec l1 a m) (h2 : Consec l2 m b) : Consec (l1 ++ l2) a b := by
  induction l1 generalizing a with
  | nil => simp only [Consec] at h1; subst h1; simpa using h2
  | cons ow r ih => exact ⟨h1.1, ih h1.2⟩

theorem consec_le {l : List (Nat × Nat)} {a b : Nat} (h : Consec l a b) : a ≤ b := by
  induction l generalizing a with
  | nil => simp only [Consec] at h; omega
  | cons ow r ih => have := ih h.2; omega

theorem consec_bytes (a n : Nat) : Consec ((List.range' a n).map fun i => (i, 1)) a (a + n) := by
  induction n generalizing a with
  | zero => simp [Consec]
  | succ n ih =>
    rw [List.range'_succ, List.map_cons]
    refine ⟨rfl, ?_⟩
    have := ih (a + 1)
    rwa [show a + 1 + n = a + (n + 1) by omega] at this

theorem bodyAcc_succ (v : Variant) (inBlk f i : Nat) :
    bodyAcc v inBlk (f+1) i =
      if i < inBlk then (bodyLoads v).map (fun ow => (i + ow.1, ow.2)) ++ bodyAcc v inBlk f (i + 8) else [] := by
  simp [bodyAcc, cmp_eq, stride_eq]

theorem loads_x64 (i : Nat) : (bodyLoads .x64).map (fun ow => (i + ow.1, ow.2)) = [(i, 8)] := by
  simp [bodyLoads, gen_crc.2.2.2.2.2.2.2.1]

theorem loads_x32 (i : Nat) : (bodyLoads .x32).map (fun ow => (i + ow.1, ow.2)) = [(i, 4), (i + 4, 4)] := by
  simp [bodyLoads, gen_crc.2.2.2.2.2.2.2.2.1]

theorem consec_loads (v : Variant) (i : Nat) :
    Consec ((bodyLoads v).map (fun ow => (i + ow.1, ow.2))) i (i + 8) := by
  cases v
  · rw [loads_x64]; simp [Consec]
  · rw [loads_x32]; simp [Consec]

theorem consec_body (v : Variant) (inBlk f i : Nat) :
    Consec (bodyAcc v inBlk f i) i (bodyEnd inBlk f i) := by
  induction f generalizing i with
  | zero => simp [bodyAcc, bodyEnd, Consec]
  | succ f ih =>
    rw [bodyAcc_succ, bodyEnd_succ]
    split
    · exact consec_append (consec_loads v i) (ih (i + 8))
    · simp [Consec]

theorem accesses_eq (v : Variant) (addr len : Nat) :
    accesses v addr len =
      headAcc 0 (preBlock addr) ++ bodyAcc v (inBlock addr len) (len + 1) (preBlock addr) ++
        tailAcc (bodyEnd (inBlock addr len) (len + 1) (preBlock addr)) len := by
  simp [accesses, i0_eq]

/-- **the three loops tile `[0, len)`** -/
theorem consec_accesses (v : Variant) (addr len : Nat) (h : 8 ≤ len) :
    Consec (accesses v addr len) 0 len := by
  rw [accesses_eq]
  have hstop := stop_eq addr len h
  have hle : preBlock addr + inBlock addr len ≤ len := by
    rw [inBlock_eq]; have := preBlock_eq addr; omega
  refine consec_append (consec_append ?_ (consec_body v _ _ _)) ?_
  · have := consec_bytes 0 (preBlock addr - 0)
    simpa [headAcc] using this
  · have := consec_bytes (bodyEnd (inBlock addr len) (len + 1) (preBlock addr))
      (len - bodyEnd (inBlock addr len) (len + 1) (preBlock addr))
    rw [hstop] at this ⊢
    rwa [show preBlock addr + inBlock addr len + (len - (preBlock addr + inBlock addr len)) = len by omega] at this

theorem consec_flatMap {l : List (Nat × Nat)} {a b : Nat} (h : Consec l a b) :
    l.flatMap (fun ow => List.range' ow.1 ow.2) = List.range' a (b - a) := by
  induction l generalizing a with
  | nil => simp only [Consec] at h; subst h; simp
  | cons ow r ih =>
    obtain ⟨h1, h2⟩ := h
    have hle := consec_le h2
    rw [List.flatMap_cons, ih h2, h1]
    rw [show b - a = ow.2 + (b - (a + ow.2)) by omega, ← List.range'_append_1]

/-- alignment of the multi-byte loads of the body -/
theorem body_aligned (v : Variant) (inBlk f i a : Nat) (ha : (a + i) % 8 = 0) :
    ∀ ow ∈ bodyAcc v inBlk f i,
      ow.2 = (match v with | .x64 => 8 | .x32 => 4) ∧ (a + ow.1) % ow.2 = 0 := by
  induction f generalizing i with
  | zero => simp [bodyAcc]
  | succ f ih =>
    rw [bodyAcc_succ]
    split
    · intro ow how
      rw [List.mem_append] at how
      rcases how with how | how
      · cases v
        · rw [loads_x64] at how; simp at how; subst how; simp; omega
        · rw [loads_x32] at how; simp at how
          rcases how with how | how <;> (subst how; simp; omega)
      · exact ih (i + 8) (by omega) ow how
    · simp

/-! ## GF(2) algebra of `Spec.Crc32c.addFront / reduce` -/

theorem addFront_nil_left (g : Poly) : addFront [] g = [] := by cases g <;> rfl
theorem addFront_nil_right (a : Poly) : addFront a [] = a := by cases a <;> rfl
theorem addFront_cons (a g : Bool) (as gs : Poly) :
    addFront (a :: as) (g :: gs) = (a ^^ g) :: addFront as gs := rfl

theorem length_addFront (a g : Poly) : (addFront a g).length = a.length := by
  induction a generalizing g with
  | nil => simp [addFront_nil_left]
  | cons x xs ih => cases g <;> simp [addFront_nil_right, addFront_cons, ih]

theorem addFront_zeros_right (a : Poly) (m : Nat) : addFront a (List.replicate m false) = a := by
  induction a generalizing m with
  | nil => simp [addFront_nil_left]
  | cons x xs ih =>
    cases m with
    | zero => simp [addFront_nil_right]
    | succ m => simp [List.replicate_succ, addFront_cons, ih]

theorem addFront_zeros_left (r : Poly) : addFront (List.replicate r.length false) r = r := by
  induction r with
  | nil => simp [addFront_nil_left]
  | cons x xs ih => simp [List.replicate_succ, addFront_cons, ih]

/-- `x ⊕ (y ⊕ g) = (x ⊕ y) ⊕ g`, all aligned at the front -/
theorem addFront_assoc (x y g : Poly) (h : g.length ≤ y.length) :
    addFront x (addFront y g) = addFront (addFront x y) g := by
  induction x generalizing y g with
  | nil => simp [addFront_nil_left]
  | cons a as ih =>
    cases y with
    | nil =>
      cases g with
      | nil => simp [addFront_nil_right]
      | cons _ _ => simp at h
    | cons b bs =>
      cases g with
      | nil => simp [addFront_nil_right]
      | cons c cs =>
        simp only [addFront_cons]
        rw [ih bs cs (by simpa using h), Bool.xor_assoc]

/-- adding `r` padded with zeros is adding `r` -/
theorem addFront_pad (x r : Poly) (m : Nat) (h : r.length ≤ m) :
    addFront x (addFront (List.replicate m false) r) = addFront x r := by
  induction x generalizing r m with
  | nil => simp [addFront_nil_left]
  | cons a as ih =>
    cases r with
    | nil => simp [addFront_nil_right, addFront_zeros_right]
    | cons b bs =>
      cases m with
      | zero => simp at h
      | succ m =>
        simp only [List.replicate_succ, addFront_cons, Bool.false_xor]
        rw [ih bs m (by simpa using h)]

theorem reduce_zero (gt a : Poly) : reduce gt 0 a = a := by cases a <;> rfl
theorem reduce_true (gt t : Poly) (n : Nat) : reduce gt (n+1) (true :: t) = reduce gt n (addFront t gt) := rfl
theorem reduce_false (gt t : Poly) (n : Nat) : reduce gt (n+1) (false :: t) = reduce gt n t := rfl

theorem length_reduce (gt : Poly) (n : Nat) (a : Poly) : (reduce gt n a).length = a.length - n := by
  induction n generalizing a with
  | zero => simp [reduce_zero]
  | succ n ih =>
    cases a with
    | nil => simp [reduce]
    | cons b t =>
      cases b
      · rw [reduce_false, ih]; simp
      · rw [reduce_true, ih, length_addFront]; simp

/-- low 32 coefficients of the Castagnoli polynomial -/
abbrev gt : Poly := castagnoli.tail

theorem length_gt : gt.length = 32 := by decide
theorem length_castagnoli : castagnoli.length = 33 := by decide

abbrev Z32 : Poly := List.replicate 32 false

/-- feed the bit string `d` (in transmission order) into the 32-coefficient remainder `r`:
    `(r·x^|d| + d·x³²) mod castagnoli` -/
def feed (r d : Poly) : Poly := reduce gt d.length (addFront (d ++ Z32) r)

theorem length_feed (r d : Poly) : (feed r d).length = 32 := by
  simp [feed, length_reduce, length_addFront]

theorem feed_nil (r : Poly) (h : r.length = 32) : feed r [] = r := by
  have := addFront_zeros_left r
  rw [h] at this
  show reduce gt 0 (addFront Z32 r) = r
  rw [reduce_zero]; exact this

theorem feed_cons (r : Poly) (h : r.length = 32) (d : Bool) (ds : Poly) :
    feed r (d :: ds) = feed (feed r [d]) ds := by
  cases r with
  | nil => simp at h
  | cons c r' =>
    have hr' : r'.length ≤ 32 := by simp at h; omega
    have hy : gt.length ≤ (addFront Z32 r').length := by rw [length_addFront, length_gt]; simp
    have one : feed (c :: r') [d] = if (d ^^ c) then addFront (addFront Z32 r') gt else addFront Z32 r' := by
      simp only [feed, List.length_cons, List.length_nil, List.cons_append, List.nil_append, addFront_cons]
      cases (d ^^ c)
      · rw [reduce_false, reduce_zero]; simp
      · rw [reduce_true, reduce_zero]; simp
    rw [one]
    simp only [feed, List.length_cons, List.cons_append, addFront_cons]
    cases (d ^^ c)
    · rw [reduce_false]
      simp only [Bool.false_eq_true, if_false]
      rw [addFront_pad _ _ _ hr']
    · rw [reduce_true]
      simp only [if_true]
      rw [addFront_assoc _ _ _ hy, addFront_pad _ _ _ hr']

theorem feed_append (r : Poly) (h : r.length = 32) (d1 d2 : Poly) :
    feed r (d1 ++ d2) = feed (feed r d1) d2 := by
  induction d1 generalizing r with
  | nil => rw [List.nil_append, feed_nil r h]
  | cons d ds ih =>
    rw [List.cons_append, feed_cons r h, ih _ (length_feed _ _), ← feed_cons r h]

/-! ## registers and polynomials -/

theorem testBit_natOfBits (l : List Bool) (i : Nat) : (natOfBitsLSB l).testBit i = l.getD i false := by
  induction l generalizing i with
  | nil => simp [natOfBitsLSB]
  | cons b t ih =>
    cases i with
    | zero =>
      simp only [natOfBitsLSB, Nat.testBit_zero, List.getD_cons_zero]
      cases b <;> simp <;> omega
    | succ i =>
      rw [Nat.testBit_succ, List.getD_cons_succ, ← ih i]
      congr 1
      simp only [natOfBitsLSB]
      cases b <;> simp <;> omega

theorem natOfBits_lt (l : List Bool) : natOfBitsLSB l < 2 ^ l.length := by
  induction l with
  | nil => simp [natOfBitsLSB]
  | cons b t ih =>
    simp only [natOfBitsLSB, List.length_cons, Nat.pow_succ]
    cases b <;> simp <;> omega

theorem length_polyOfState (s : UInt32) : (polyOfState s).length = 32 := by simp [polyOfState]

theorem polyOfState_stateOfPoly (p : Poly) (h : p.length = 32) : polyOfState (stateOfPoly p) = p := by
  have hlt : natOfBitsLSB p < 2 ^ 32 := by have := natOfBits_lt p; rwa [h] at this
  apply List.ext_getElem
  · simp [polyOfState, h]
  · intro i h1 h2
    simp only [polyOfState, stateOfPoly, List.getElem_map, List.getElem_range]
    rw [UInt32.toNat_ofNat', Nat.mod_eq_of_lt hlt, testBit_natOfBits]
    simp [List.getD_eq_getElem?_getD, h2]

theorem natOfBits_testBits (x n : Nat) :
    natOfBitsLSB ((List.range n).map fun i => x.testBit i) = x % 2 ^ n := by
  apply Nat.eq_of_testBit_eq
  intro i
  rw [testBit_natOfBits, Nat.testBit_mod_two_pow]
  by_cases h : i < n
  · simp [List.getD_eq_getElem?_getD, h]
  · simp [List.getD_eq_getElem?_getD, h]

theorem stateOfPoly_polyOfState (s : UInt32) : stateOfPoly (polyOfState s) = s := by
  simp only [stateOfPoly, polyOfState, natOfBits_testBits]
  apply UInt32.toNat_inj.mp
  rw [UInt32.toNat_ofNat']
  have := s.toNat_lt
  omega

/-! ## the `CRC32` instruction is the CRC step -/

theorem crc32Insn_eq_feed (s : UInt32) (src : Bytes) :
    crc32Insn s src = stateOfPoly (feed (polyOfState s) (bitsLSB src)) := by
  simp only [crc32Insn, mod, feed, length_addFront, List.length_append, List.length_replicate,
    length_castagnoli]
  rfl

theorem bitsLSB_append (a b : Bytes) : bitsLSB (a ++ b) = bitsLSB a ++ bitsLSB b := by
  simp [bitsLSB]

/-- one `CRC32` on `a ‖ b` = `CRC32` on `a`, then on `b` -/
theorem crc32Insn_append (s : UInt32) (a b : Bytes) :
    crc32Insn s (a ++ b) = crc32Insn (crc32Insn s a) b := by
  rw [crc32Insn_eq_feed, crc32Insn_eq_feed _ b, crc32Insn_eq_feed _ a, bitsLSB_append,
    feed_append _ (length_polyOfState s), polyOfState_stateOfPoly _ (length_feed _ _)]

theorem crc32Insn_nil (s : UInt32) : crc32Insn s [] = s := by
  rw [crc32Insn_eq_feed]
  simp only [bitsLSB, List.flatMap_nil]
  rw [feed_nil _ (length_polyOfState s), stateOfPoly_polyOfState]

/-- an n-byte `CRC32` = n one-byte `CRC32`s in address order -/
theorem crc32Insn_eq_fold (s : UInt32) (bs : Bytes) : crc32Insn s bs = bs.foldl byteStep s := by
  induction bs generalizing s with
  | nil => simp [crc32Insn_nil]
  | cons b bs ih =>
    rw [show b :: bs = [b] ++ bs from rfl, crc32Insn_append, ih]
    rfl

/-! ## `CRC32C_Update_SSE42` = the byte step folded over the buffer -/

theorem readAt_ok (buf : Bytes) (off w : Nat) (h : off + w ≤ buf.length) :
    readAt buf off w = some ((buf.drop off).take w) := by
  simp only [readAt, List.length_take, List.length_drop]
  rw [if_pos (by omega)]

theorem runAcc_consec (buf : Bytes) (l : List (Nat × Nat)) (a b : Nat) (s : UInt32)
    (hc : Consec l a b) (hb : b ≤ buf.length) :
    runAcc buf l s = some (((buf.drop a).take (b - a)).foldl byteStep s) := by
  induction l generalizing a s with
  | nil => simp only [Consec] at hc; subst hc; simp [runAcc]
  | cons ow r ih =>
    obtain ⟨h1, h2⟩ := hc
    have hle := consec_le h2
    simp only [runAcc]
    rw [h1, readAt_ok buf a ow.2 (by omega)]
    simp only
    rw [ih (a + ow.2) _ h2, crc32Insn_eq_fold, ← List.foldl_append]
    congr 2
    rw [show b - a = ow.2 + (b - (a + ow.2)) by omega, List.take_add, List.drop_drop]

theorem preBlock_aligned (addr : Nat) : (addr + preBlock addr) % 8 = 0 := by
  rw [preBlock_eq]; omega

/-- no `assert` fails, no load leaves the buffer, and the result is the byte-at-a-time CRC -/
theorem updateSse42_eq (v : Variant) (addr : Nat) (s : UInt32) (buf : Bytes) (h : 8 ≤ buf.length) :
    updateSse42 v addr s buf = some (buf.foldl byteStep s) := by
  have hstop := stop_eq addr buf.length h
  have hpre := preBlock_eq addr
  have hal := preBlock_aligned addr
  simp only [updateSse42, i0_eq, minLen_eq, preMask_eq, tailBound_eq, Nat.zero_max]
  rw [if_neg (by omega), if_neg (by omega), hstop, if_neg (by rw [inBlock_eq]; omega)]
  rw [runAcc_consec buf _ 0 buf.length s (consec_accesses v addr buf.length h) (Nat.le_refl _)]
  simp

theorem crcUpdate_eq (hw : Option Variant) (addr : Nat) (s : UInt32) (buf : Bytes) :
    crcUpdate hw addr s buf = some (buf.foldl byteStep s) := by
  cases hw with
  | none => rfl
  | some v =>
    simp only [crcUpdate, dispatch_eq]
    split
    · exact updateSse42_eq v addr s buf (by assumption)
    · rfl

theorem crcStream_eq (calls : List Call) (s : UInt32) :
    crcStream calls s = some ((calls.flatMap (·.data)).foldl byteStep s) := by
  induction calls generalizing s with
  | nil => rfl
  | cons c rest ih =>
    simp only [crcStream, crcUpdate_eq, List.flatMap_cons, List.foldl_append]
    exact ih _

/-! ## the fold of the byte step from `T_0_0x80` is `Spec.Crc32c.crc32c` -/

theorem polyOfState_fold (s : UInt32) (data : Bytes) :
    polyOfState (data.foldl byteStep s) = feed (polyOfState s) (bitsLSB data) := by
  rw [← crc32Insn_eq_fold, crc32Insn_eq_feed, polyOfState_stateOfPoly _ (length_feed _ _)]

theorem init_poly : polyOfState Gen.CpuPaths.crcInitState = gt := by
  rw [gen_crc.2.2.2.2.2.2.2.2.2.2.2.1]; decide

theorem length_bitsLSB (d : Bytes) : (bitsLSB d).length = 8 * d.length := by
  induction d with
  | nil => rfl
  | cons b t ih =>
    rw [show b :: t = [b] ++ t from rfl, bitsLSB_append, List.length_append, ih]
    simp [bitsLSB, Crc32c.bitsOfByte]; omega

theorem spec_eq_feed (data : Bytes) :
    Spec.Crc32c.crc32c data = Spec.Crc32c.bytesOfBits 4 (feed gt (bitsLSB data)) := by
  simp only [Spec.Crc32c.crc32c, mod, feed, length_castagnoli, List.length_cons, List.length_append,
    List.length_replicate]
  rw [show (bitsLSB data).length + 32 + 1 + 1 - 33 = (bitsLSB data).length + 1 by omega]
  rfl

theorem foldr_eq_natOfBits (l : List Bool) :
    l.foldr (fun b n => 2 * n + (if b then 1 else 0)) 0 = natOfBitsLSB l := by
  induction l with
  | nil => rfl
  | cons b t ih => simp only [List.foldr_cons, natOfBitsLSB, ih]; omega

theorem byte_of_testBits (x j : Nat) :
    natOfBitsLSB [x.testBit j, x.testBit (j+1), x.testBit (j+2), x.testBit (j+3), x.testBit (j+4),
      x.testBit (j+5), x.testBit (j+6), x.testBit (j+7)] = (x >>> j) % 2 ^ 8 := by
  rw [← natOfBits_testBits (x >>> j) 8]
  have hr : List.range 8 = [0, 1, 2, 3, 4, 5, 6, 7] := by decide
  simp [hr, Nat.testBit_shiftRight]

/-- `CRC32C_Final` writes the register little-endian = the remainder's coefficients as 4 bytes -/
theorem final_encoding (s : UInt32) : Spec.Crc32c.bytesOfBits 4 (polyOfState s) = le32enc s := by
  have hr : List.range 32 = [0, 1, 2, 3, 4, 5, 6, 7, 8, 9, 10, 11, 12, 13, 14, 15, 16, 17, 18, 19, 20,
    21, 22, 23, 24, 25, 26, 27, 28, 29, 30, 31] := by decide
  have e (l : List Bool) (w : UInt32) (n : Nat) (h : natOfBitsLSB l = n % 2 ^ 8) (hw : w.toNat = n) :
      UInt8.ofNat (l.foldr (fun b n => 2 * n + (if b then 1 else 0)) 0) = w.toUInt8 := by
    apply UInt8.toNat_inj.mp
    rw [UInt8.toNat_ofNat', UInt32.toNat_toUInt8, foldr_eq_natOfBits, h, hw]
    omega
  simp only [polyOfState, hr, List.map_cons, List.map_nil, Spec.Crc32c.bytesOfBits,
    Spec.Crc32c.byteOfBits, List.drop_succ_cons, List.drop_zero, List.take_succ_cons, List.take_zero,
    le32enc]
  have h0 := byte_of_testBits s.toNat 0
  have h8 := byte_of_testBits s.toNat 8
  have h16 := byte_of_testBits s.toNat 16
  have h24 := byte_of_testBits s.toNat 24
  simp only [Nat.zero_add, Nat.reduceAdd] at h0 h8 h16 h24
  rw [e _ s _ h0 (by simp), e _ (s >>> 8) _ h8 (by simp [UInt32.toNat_shiftRight]),
    e _ (s >>> 16) _ h16 (by simp [UInt32.toNat_shiftRight]),
    e _ (s >>> 24) _ h24 (by simp [UInt32.toNat_shiftRight])]

/-- the byte-step fold from the initial state, stored little-endian, is `Spec.Crc32c.crc32c` -/
theorem fold_eq_spec (data : Bytes) :
    crcFinal (data.foldl byteStep Gen.CpuPaths.crcInitState) = Spec.Crc32c.crc32c data := by
  rw [crcFinal, ← final_encoding, polyOfState_fold, init_poly, spec_eq_feed]

/-! ## SSE2 lane identities and the message schedule of `SHA256_Transform_sse2` -/

theorem lane64_17 (x : UInt32) :
    ((x.toUInt64 <<< 32 ||| x.toUInt64) >>> 17).toUInt32 = (x >>> 17) ||| (x <<< 15) := by
  apply UInt32.eq_of_toBitVec_eq
  simp
  ext i hi
  simp [BitVec.getElem_or, BitVec.getElem_shiftLeft, BitVec.getElem_ushiftRight, BitVec.getLsbD_setWidth]
  by_cases h : i < 15
  · have h1 : 17 + i < 32 := by omega
    have h2 : 17 + i < 64 := by omega
    simp [h, h1, h2]
  · have h1 : ¬ 17 + i < 32 := by omega
    have h2 : 17 + i < 64 := by omega
    have e : 17 + i - 32 = i - 15 := by omega
    have h4 : x.toBitVec.getLsbD (17 + i) = false := BitVec.getLsbD_of_ge _ _ (by omega)
    have h5 : i - 15 < 32 := by omega
    simp [h, h1, h2, e, h4, BitVec.getLsbD_eq_getElem h5]
    intro _; omega

/-- `PSRLQ` by 17 on a 64-bit lane holding the same word twice leaves `ROTR^17` in the low half -/
theorem rot17 (x : UInt32) : (srli64Lane x x 17).1 = Sha256.rotr x 17 := by
  have e : Sha256.rotr x 17 = (x >>> 17) ||| (x <<< 15) := rfl
  rw [e, ← lane64_17]
  rfl

theorem lane64_19 (x : UInt32) :
    ((x.toUInt64 <<< 32 ||| x.toUInt64) >>> 19).toUInt32 = (x >>> 19) ||| (x <<< 13) := by
  apply UInt32.eq_of_toBitVec_eq
  simp
  ext i hi
  simp [BitVec.getElem_or, BitVec.getElem_shiftLeft, BitVec.getElem_ushiftRight, BitVec.getLsbD_setWidth]
  by_cases h : i < 13
  · have h1 : 19 + i < 32 := by omega
    have h2 : 19 + i < 64 := by omega
    simp [h, h1, h2]
  · have h1 : ¬ 19 + i < 32 := by omega
    have h2 : 19 + i < 64 := by omega
    have e : 19 + i - 32 = i - 13 := by omega
    have h4 : x.toBitVec.getLsbD (19 + i) = false := BitVec.getLsbD_of_ge _ _ (by omega)
    have h5 : i - 13 < 32 := by omega
    simp [h, h1, h2, e, h4, BitVec.getLsbD_eq_getElem h5]
    intro _; omega

/-- `PSRLQ` by 19 on a 64-bit lane holding the same word twice leaves `ROTR^19` in the low half -/
theorem rot19 (x : UInt32) : (srli64Lane x x 19).1 = Sha256.rotr x 19 := by
  have e : Sha256.rotr x 19 = (x >>> 19) ||| (x <<< 13) := rfl
  rw [e, ← lane64_19]
  rfl

@[simp] theorem get0 (a : V4) : a.get 0 = a.x0 := rfl
@[simp] theorem get1 (a : V4) : a.get 1 = a.x1 := rfl
@[simp] theorem get2 (a : V4) : a.get 2 = a.x2 := rfl
@[simp] theorem get3 (a : V4) : a.get 3 = a.x3 := rfl

theorem s1_lane (x : UInt32) :
    ((srli64Lane x x 17).1 ^^^ (srli64Lane x x 19).1) ^^^ shr32 x 10 = Sha256.smallSigma1 x := by
  rw [rot17, rot19]; rfl

/-- `s1_128_low(a) = (σ₁(a₂), σ₁(a₃), 0, 0)` -/
theorem s1_low_eq (a : V4) : s1_128_low a = ⟨Sha256.smallSigma1 a.x2, Sha256.smallSigma1 a.x3, 0, 0⟩ := by
  simp only [s1_128_low, mm_shuffle_epi32, mm_xor_si128, mm_srli_epi64, mm_srli_epi32, mm_srli_si128_8,
    V4.zip, V4.map, get0, get2, get3, s1_lane]

/-- `s1_128_high(a) = (0, 0, σ₁(a₀), σ₁(a₁))` -/
theorem s1_high_eq (a : V4) : s1_128_high a = ⟨0, 0, Sha256.smallSigma1 a.x0, Sha256.smallSigma1 a.x1⟩ := by
  simp only [s1_128_high, mm_shuffle_epi32, mm_xor_si128, mm_srli_epi64, mm_srli_epi32, mm_slli_si128_8,
    V4.zip, V4.map, get0, get1, get2, s1_lane]

/-- `s0_128` is `σ₀` in every lane -/
theorem s0_eq (a : V4) : s0_128 a = V4.map Sha256.smallSigma0 a := rfl

theorem span_eq (a b : V4) : spanOneThree a b = ⟨a.x1, a.x2, a.x3, b.x0⟩ := rfl

/-- `MSG4` lane by lane: with `X0 … X3 = W[j-16 … j-1]` the result is `W[j … j+3]` of FIPS 180-4
    §6.2.2 (the last two lanes use the first two, which is what the "second half of s1" does) -/
theorem msg4_lanes (X0 X1 X2 X3 : V4) :
    msg4 X0 X1 X2 X3 =
      let a := Sha256.smallSigma1 X3.x2 + X2.x1 + Sha256.smallSigma0 X0.x1 + X0.x0
      let b := Sha256.smallSigma1 X3.x3 + X2.x2 + Sha256.smallSigma0 X0.x2 + X0.x1
      ⟨a, b, Sha256.smallSigma1 a + X2.x3 + Sha256.smallSigma0 X0.x3 + X0.x2,
        Sha256.smallSigma1 b + X3.x0 + Sha256.smallSigma0 X1.x0 + X0.x3⟩ := by
  simp only [msg4, s1_low_eq, s1_high_eq, s0_eq, span_eq, mm_add_epi32, V4.zip, V4.map, UInt32.add_zero,
    V4.mk.injEq]
  refine ⟨?_, ?_, ?_, ?_⟩ <;> ac_rfl

theorem extend_add (a b : Nat) (ws : List UInt32) :
    Sha256.extend (a + b) ws = Sha256.extend b (Sha256.extend a ws) := by
  induction a generalizing ws with
  | zero => simp [Sha256.extend]
  | succ a ih =>
    rw [show a + 1 + b = (a + b) + 1 by omega]
    simp only [Sha256.extend]
    cases h : Sha256.nextW ws with
    | some w => exact ih _
    | none =>
      cases b with
      | zero => rfl
      | succ b => simp [Sha256.extend, h]

/-- four more schedule words from the sixteen newest = one `MSG4` -/
theorem extend4 (X0 X1 X2 X3 : V4) (rest : List UInt32) :
    Sha256.extend 4 (X3.x3 :: X3.x2 :: X3.x1 :: X3.x0 :: X2.x3 :: X2.x2 :: X2.x1 :: X2.x0 ::
        X1.x3 :: X1.x2 :: X1.x1 :: X1.x0 :: X0.x3 :: X0.x2 :: X0.x1 :: X0.x0 :: rest) =
      (msg4 X0 X1 X2 X3).x3 :: (msg4 X0 X1 X2 X3).x2 :: (msg4 X0 X1 X2 X3).x1 :: (msg4 X0 X1 X2 X3).x0 ::
        (X3.x3 :: X3.x2 :: X3.x1 :: X3.x0 :: X2.x3 :: X2.x2 :: X2.x1 :: X2.x0 ::
        X1.x3 :: X1.x2 :: X1.x1 :: X1.x0 :: X0.x3 :: X0.x2 :: X0.x1 :: X0.x0 :: rest) := by
  rw [msg4_lanes]; rfl

theorem lanes_rev (y : Y4) (rest : List UInt32) :
    y.lanes.reverse ++ rest =
      y.y3.x3 :: y.y3.x2 :: y.y3.x1 :: y.y3.x0 :: y.y2.x3 :: y.y2.x2 :: y.y2.x1 :: y.y2.x0 ::
      y.y1.x3 :: y.y1.x2 :: y.y1.x1 :: y.y1.x0 :: y.y0.x3 :: y.y0.x2 :: y.y0.x1 :: y.y0.x0 :: rest := rfl

/-- sixteen more schedule words = the four `MSG4` calls of one loop iteration -/
theorem extend16 (y : Y4) (rest : List UInt32) :
    Sha256.extend 16 (y.lanes.reverse ++ rest) = (msgStep y).lanes.reverse ++ (y.lanes.reverse ++ rest) := by
  rw [show (16 : Nat) = 4 + 4 + 4 + 4 from rfl, extend_add, extend_add, extend_add, lanes_rev y rest, lanes_rev]
  rw [extend4 y.y0 y.y1 y.y2 y.y3 rest]
  rw [extend4 y.y1 y.y2 y.y3 (msg4 y.y0 y.y1 y.y2 y.y3) _]
  rw [extend4 y.y2 y.y3 (msg4 y.y0 y.y1 y.y2 y.y3) (msg4 y.y1 y.y2 y.y3 (msg4 y.y0 y.y1 y.y2 y.y3)) _]
  rw [extend4 y.y3 (msg4 y.y0 y.y1 y.y2 y.y3) (msg4 y.y1 y.y2 y.y3 (msg4 y.y0 y.y1 y.y2 y.y3))
    (msg4 y.y2 y.y3 (msg4 y.y0 y.y1 y.y2 y.y3) (msg4 y.y1 y.y2 y.y3 (msg4 y.y0 y.y1 y.y2 y.y3))) _]
  rfl

/-- `mm_bswap_epi32(loadu(p))` holds the four big-endian words at `p` -/
theorem loadBswap_eq (b0 b1 b2 b3 b4 b5 b6 b7 b8 b9 b10 b11 b12 b13 b14 b15 : UInt8) :
    loadBswap [b0, b1, b2, b3, b4, b5, b6, b7, b8, b9, b10, b11, b12, b13, b14, b15] =
      some ⟨be32 b0 b1 b2 b3, be32 b4 b5 b6 b7, be32 b8 b9 b10 b11, be32 b12 b13 b14 b15⟩ := by
  simp [loadBswap, mm_or_bytes, mm_slli_epi16_8, mm_srli_epi16_8, mm_shufflelo_epi16, mm_shufflehi_epi16,
    shuffleWords, lanesOfBytes, le32]

theorem uncons {α : Type} {l : List α} {n : Nat} (h : l.length = n + 1) :
    ∃ a t, l = a :: t ∧ t.length = n := by
  cases l with
  | nil => simp at h
  | cons a t => exact ⟨a, t, rfl, by simpa using h⟩

/-- a list of 64 bytes is 64 bytes -/
theorem bytes64 (P : Bytes → Prop) (hP : ∀ b0 b1 b2 b3 b4 b5 b6 b7 b8 b9 b10 b11 b12 b13 b14 b15 b16 b17 b18 b19 b20 b21 b22 b23 b24 b25 b26 b27 b28 b29 b30 b31 b32 b33 b34 b35 b36 b37 b38 b39 b40 b41 b42 b43 b44 b45 b46 b47 b48 b49 b50 b51 b52 b53 b54 b55 b56 b57 b58 b59 b60 b61 b62 b63 : UInt8, P [b0, b1, b2, b3, b4, b5, b6, b7, b8, b9, b10, b11, b12, b13, b14, b15, b16, b17, b18, b19, b20, b21, b22, b23, b24, b25, b26, b27, b28, b29, b30, b31, b32, b33, b34, b35, b36, b37, b38, b39, b40, b41, b42, b43, b44, b45, b46, b47, b48, b49, b50, b51, b52, b53, b54, b55, b56, b57, b58, b59, b60, b61, b62, b63]) (block : Bytes) (h : block.length = 64) :
    P block := by
  obtain ⟨b0, t0, rfl, h0⟩ := uncons h
  obtain ⟨b1, t1, rfl, h1⟩ := uncons h0
  obtain ⟨b2, t2, rfl, h2⟩ := uncons h1
  obtain ⟨b3, t3, rfl, h3⟩ := uncons h2
  obtain ⟨b4, t4, rfl, h4⟩ := uncons h3
  obtain ⟨b5, t5, rfl, h5⟩ := uncons h4
  obtain ⟨b6, t6, rfl, h6⟩ := uncons h5
  obtain ⟨b7, t7, rfl, h7⟩ := uncons h6
  obtain ⟨b8, t8, rfl, h8⟩ := uncons h7
  obtain ⟨b9, t9, rfl, h9⟩ := uncons h8
  obtain ⟨b10, t10, rfl, h10⟩ := uncons h9
  obtain ⟨b11, t11, rfl, h11⟩ := uncons h10
  obtain ⟨b12, t12, rfl, h12⟩ := uncons h11
  obtain ⟨b13, t13, rfl, h13⟩ := uncons h12
  obtain ⟨b14, t14, rfl, h14⟩ := uncons h13
  obtain ⟨b15, t15, rfl, h15⟩ := uncons h14
  obtain ⟨b16, t16, rfl, h16⟩ := uncons h15
  obtain ⟨b17, t17, rfl, h17⟩ := uncons h16
  obtain ⟨b18, t18, rfl, h18⟩ := uncons h17
  obtain ⟨b19, t19, rfl, h19⟩ := uncons h18
  obtain ⟨b20, t20, rfl, h20⟩ := uncons h19
  obtain ⟨b21, t21, rfl, h21⟩ := uncons h20
  obtain ⟨b22, t22, rfl, h22⟩ := uncons h21
  obtain ⟨b23, t23, rfl, h23⟩ := uncons h22
  obtain ⟨b24, t24, rfl, h24⟩ := uncons h23
  obtain ⟨b25, t25, rfl, h25⟩ := uncons h24
  obtain ⟨b26, t26, rfl, h26⟩ := uncons h25
  obtain ⟨b27, t27, rfl, h27⟩ := uncons h26
  obtain ⟨b28, t28, rfl, h28⟩ := uncons h27
  obtain ⟨b29, t29, rfl, h29⟩ := uncons h28
  obtain ⟨b30, t30, rfl, h30⟩ := uncons h29
  obtain ⟨b31, t31, rfl, h31⟩ := uncons h30
  obtain ⟨b32, t32, rfl, h32⟩ := uncons h31
  obtain ⟨b33, t33, rfl, h33⟩ := uncons h32
  obtain ⟨b34, t34, rfl, h34⟩ := uncons h33
  obtain ⟨b35, t35, rfl, h35⟩ := uncons h34
  obtain ⟨b36, t36, rfl, h36⟩ := uncons h35
  obtain ⟨b37, t37, rfl, h37⟩ := uncons h36
  obtain ⟨b38, t38, rfl, h38⟩ := uncons h37
  obtain ⟨b39, t39, rfl, h39⟩ := uncons h38
  obtain ⟨b40, t40, rfl, h40⟩ := uncons h39
  obtain ⟨b41, t41, rfl, h41⟩ := uncons h40
  obtain ⟨b42, t42, rfl, h42⟩ := uncons h41
  obtain ⟨b43, t43, rfl, h43⟩ := uncons h42
  obtain ⟨b44, t44, rfl, h44⟩ := uncons h43
  obtain ⟨b45, t45, rfl, h45⟩ := uncons h44
  obtain ⟨b46, t46, rfl, h46⟩ := uncons h45
  obtain ⟨b47, t47, rfl, h47⟩ := uncons h46
  obtain ⟨b48, t48, rfl, h48⟩ := uncons h47
  obtain ⟨b49, t49, rfl, h49⟩ := uncons h48
  obtain ⟨b50, t50, rfl, h50⟩ := uncons h49
  obtain ⟨b51, t51, rfl, h51⟩ := uncons h50
  obtain ⟨b52, t52, rfl, h52⟩ := uncons h51
  obtain ⟨b53, t53, rfl, h53⟩ := uncons h52
  obtain ⟨b54, t54, rfl, h54⟩ := uncons h53
  obtain ⟨b55, t55, rfl, h55⟩ := uncons h54
  obtain ⟨b56, t56, rfl, h56⟩ := uncons h55
  obtain ⟨b57, t57, rfl, h57⟩ := uncons h56
  obtain ⟨b58, t58, rfl, h58⟩ := uncons h57
  obtain ⟨b59, t59, rfl, h59⟩ := uncons h58
  obtain ⟨b60, t60, rfl, h60⟩ := uncons h59
  obtain ⟨b61, t61, rfl, h61⟩ := uncons h60
  obtain ⟨b62, t62, rfl, h62⟩ := uncons h61
  obtain ⟨b63, t63, rfl, h63⟩ := uncons h62
  have ht : t63 = [] := List.eq_nil_of_length_eq_zero h63
  subst ht
  exact hP b0 b1 b2 b3 b4 b5 b6 b7 b8 b9 b10 b11 b12 b13 b14 b15 b16 b17 b18 b19 b20 b21 b22 b23 b24 b25 b26 b27 b28 b29 b30 b31 b32 b33 b34 b35 b36 b37 b38 b39 b40 b41 b42 b43 b44 b45 b46 b47 b48 b49 b50 b51 b52 b53 b54 b55 b56 b57 b58 b59 b60 b61 b62 b63

/-- the sixteen big-endian words of a block, as the four registers `Y[0..3]` / `W[0..3]` -/
def blockY (b0 b1 b2 b3 b4 b5 b6 b7 b8 b9 b10 b11 b12 b13 b14 b15 b16 b17 b18 b19 b20 b21 b22 b23 b24 b25 b26 b27 b28 b29 b30 b31 b32 b33 b34 b35 b36 b37 b38 b39 b40 b41 b42 b43 b44 b45 b46 b47 b48 b49 b50 b51 b52 b53 b54 b55 b56 b57 b58 b59 b60 b61 b62 b63 : UInt8) : Y4 :=
  ⟨⟨be32 b0 b1 b2 b3, be32 b4 b5 b6 b7, be32 b8 b9 b10 b11, be32 b12 b13 b14 b15⟩,
   ⟨be32 b16 b17 b18 b19, be32 b20 b21 b22 b23, be32 b24 b25 b26 b27, be32 b28 b29 b30 b31⟩,
   ⟨be32 b32 b33 b34 b35, be32 b36 b37 b38 b39, be32 b40 b41 b42 b43, be32 b44 b45 b46 b47⟩,
   ⟨be32 b48 b49 b50 b51, be32 b52 b53 b54 b55, be32 b56 b57 b58 b59, be32 b60 b61 b62 b63⟩⟩

theorem loadBlock_explicit (b0 b1 b2 b3 b4 b5 b6 b7 b8 b9 b10 b11 b12 b13 b14 b15 b16 b17 b18 b19 b20 b21 b22 b23 b24 b25 b26 b27 b28 b29 b30 b31 b32 b33 b34 b35 b36 b37 b38 b39 b40 b41 b42 b43 b44 b45 b46 b47 b48 b49 b50 b51 b52 b53 b54 b55 b56 b57 b58 b59 b60 b61 b62 b63 : UInt8) :
    loadBlock [b0, b1, b2, b3, b4, b5, b6, b7, b8, b9, b10, b11, b12, b13, b14, b15, b16, b17, b18, b19, b20, b21, b22, b23, b24, b25, b26, b27, b28, b29, b30, b31, b32, b33, b34, b35, b36, b37, b38, b39, b40, b41, b42, b43, b44, b45, b46, b47, b48, b49, b50, b51, b52, b53, b54, b55, b56, b57, b58, b59, b60, b61, b62, b63] = some (blockY b0 b1 b2 b3 b4 b5 b6 b7 b8 b9 b10 b11 b12 b13 b14 b15 b16 b17 b18 b19 b20 b21 b22 b23 b24 b25 b26 b27 b28 b29 b30 b31 b32 b33 b34 b35 b36 b37 b38 b39 b40 b41 b42 b43 b44 b45 b46 b47 b48 b49 b50 b51 b52 b53 b54 b55 b56 b57 b58 b59 b60 b61 b62 b63) := by
  simp only [loadBlock, List.length_cons, List.length_nil]
  rw [if_neg (by decide)]
  simp only [List.take_succ_cons, List.take_zero, List.drop_succ_cons, List.drop_zero, loadBswap_eq]
  rfl

/-- the FIPS 180-4 schedule of a block, in groups of sixteen words: the block's words, then three
    times `msgStep` -/
theorem schedule_explicit (b0 b1 b2 b3 b4 b5 b6 b7 b8 b9 b10 b11 b12 b13 b14 b15 b16 b17 b18 b19 b20 b21 b22 b23 b24 b25 b26 b27 b28 b29 b30 b31 b32 b33 b34 b35 b36 b37 b38 b39 b40 b41 b42 b43 b44 b45 b46 b47 b48 b49 b50 b51 b52 b53 b54 b55 b56 b57 b58 b59 b60 b61 b62 b63 : UInt8) :
    Sha256.schedule [b0, b1, b2, b3, b4, b5, b6, b7, b8, b9, b10, b11, b12, b13, b14, b15, b16, b17, b18, b19, b20, b21, b22, b23, b24, b25, b26, b27, b28, b29, b30, b31, b32, b33, b34, b35, b36, b37, b38, b39, b40, b41, b42, b43, b44, b45, b46, b47, b48, b49, b50, b51, b52, b53, b54, b55, b56, b57, b58, b59, b60, b61, b62, b63] =
      (blockY b0 b1 b2 b3 b4 b5 b6 b7 b8 b9 b10 b11 b12 b13 b14 b15 b16 b17 b18 b19 b20 b21 b22 b23 b24 b25 b26 b27 b28 b29 b30 b31 b32 b33 b34 b35 b36 b37 b38 b39 b40 b41 b42 b43 b44 b45 b46 b47 b48 b49 b50 b51 b52 b53 b54 b55 b56 b57 b58 b59 b60 b61 b62 b63).lanes ++ (msgStep (blockY b0 b1 b2 b3 b4 b5 b6 b7 b8 b9 b10 b11 b12 b13 b14 b15 b16 b17 b18 b19 b20 b21 b22 b23 b24 b25 b26 b27 b28 b29 b30 b31 b32 b33 b34 b35 b36 b37 b38 b39 b40 b41 b42 b43 b44 b45 b46 b47 b48 b49 b50 b51 b52 b53 b54 b55 b56 b57 b58 b59 b60 b61 b62 b63)).lanes ++ (msgStep (msgStep (blockY b0 b1 b2 b3 b4 b5 b6 b7 b8 b9 b10 b11 b12 b13 b14 b15 b16 b17 b18 b19 b20 b21 b22 b23 b24 b25 b26 b27 b28 b29 b30 b31 b32 b33 b34 b35 b36 b37 b38 b39 b40 b41 b42 b43 b44 b45 b46 b47 b48 b49 b50 b51 b52 b53 b54 b55 b56 b57 b58 b59 b60 b61 b62 b63))).lanes ++
        (msgStep (msgStep (msgStep (blockY b0 b1 b2 b3 b4 b5 b6 b7 b8 b9 b10 b11 b12 b13 b14 b15 b16 b17 b18 b19 b20 b21 b22 b23 b24 b25 b26 b27 b28 b29 b30 b31 b32 b33 b34 b35 b36 b37 b38 b39 b40 b41 b42 b43 b44 b45 b46 b47 b48 b49 b50 b51 b52 b53 b54 b55 b56 b57 b58 b59 b60 b61 b62 b63)))).lanes := by
  generalize hy : blockY b0 b1 b2 b3 b4 b5 b6 b7 b8 b9 b10 b11 b12 b13 b14 b15 b16 b17 b18 b19 b20 b21 b22 b23 b24 b25 b26 b27 b28 b29 b30 b31 b32 b33 b34 b35 b36 b37 b38 b39 b40 b41 b42 b43 b44 b45 b46 b47 b48 b49 b50 b51 b52 b53 b54 b55 b56 b57 b58 b59 b60 b61 b62 b63 = y
  have hw : (wordsBE [b0, b1, b2, b3, b4, b5, b6, b7, b8, b9, b10, b11, b12, b13, b14, b15, b16, b17, b18, b19, b20, b21, b22, b23, b24, b25, b26, b27, b28, b29, b30, b31, b32, b33, b34, b35, b36, b37, b38, b39, b40, b41, b42, b43, b44, b45, b46, b47, b48, b49, b50, b51, b52, b53, b54, b55, b56, b57, b58, b59, b60, b61, b62, b63]).reverse = y.lanes.reverse ++ [] := by
    subst hy; rfl
  unfold Sha256.schedule
  rw [← Sha256.extend_eq]
  rw [hw, show (48 : Nat) = 16 + 16 + 16 from rfl, extend_add, extend_add, extend16, extend16, extend16]
  simp [List.reverse_append]

/-- **the array `W` left by `SHA256_Transform_sse2` is the FIPS 180-4 message schedule** -/
theorem sse2W_eq (block : Bytes) (h : block.length = 64) :
    sse2W block = some (Sha256.schedule block) := by
  refine bytes64 (fun b => sse2W b = some (Sha256.schedule b)) ?_ block h
  intro b0 b1 b2 b3 b4 b5 b6 b7 b8 b9 b10 b11 b12 b13 b14 b15 b16 b17 b18 b19 b20 b21 b22 b23 b24 b25 b26 b27 b28 b29 b30 b31 b32 b33 b34 b35 b36 b37 b38 b39 b40 b41 b42 b43 b44 b45 b46 b47 b48 b49 b50 b51 b52 b53 b54 b55 b56 b57 b58 b59 b60 b61 b62 b63
  simp only [sse2W, loadBlock_explicit, Option.map_some, schedule_explicit]

theorem transformSse2_eq (H : Sha256.Regs) (block : Bytes) (h : block.length = 64) :
    transformSse2 H block = some (Sha256.compress H block) := by
  simp [transformSse2, sse2W_eq block h, Sha256.compress]

/-! ## SHA-NI -/

theorem be32dec_128_eq (b0 b1 b2 b3 b4 b5 b6 b7 b8 b9 b10 b11 b12 b13 b14 b15 : UInt8) :
    be32dec_128 [b0, b1, b2, b3, b4, b5, b6, b7, b8, b9, b10, b11, b12, b13, b14, b15] =
      some ⟨be32 b0 b1 b2 b3, be32 b4 b5 b6 b7, be32 b8 b9 b10 b11, be32 b12 b13 b14 b15⟩ := by
  simp [be32dec_128, mm_shuffle_epi8, lanesOfBytes, le32]

/-- the SDM's round on `WK = W + K` is the FIPS 180-4 round -/
theorem sdmRound_eq (r : Sha256.Regs) (k w : UInt32) : sdmRound r (w + k) = Sha256.round r k w := by
  simp only [sdmRound, Sha256.round, Sha256.Regs.mk.injEq, and_true, true_and]
  refine ⟨?_, ?_⟩ <;> ac_rfl

/-- the register `ABEF` (`A` in the top lane) and `CDGH` of a set of working variables -/
def abef (r : Sha256.Regs) : V4 := ⟨r.f, r.e, r.b, r.a⟩
def cdgh (r : Sha256.Regs) : V4 := ⟨r.h, r.g, r.d, r.c⟩

/-- `RND4` = four FIPS rounds on the packed working variables -/
theorem rnd4_eq (r : Sha256.Regs) (w : V4) (k0 k1 k2 k3 : UInt32) :
    rnd4 ⟨abef r, cdgh r⟩ w k0 k1 k2 k3 =
      ⟨abef (Sha256.round (Sha256.round (Sha256.round (Sha256.round r k0 w.x0) k1 w.x1) k2 w.x2) k3 w.x3),
       cdgh (Sha256.round (Sha256.round (Sha256.round (Sha256.round r k0 w.x0) k1 w.x1) k2 w.x2) k3 w.x3)⟩ := by
  simp only [rnd4, sha256rnds2, abef, cdgh, mm_add_epi32, mm_srli_si128_8, V4.zip, sdmRound_eq]
  rfl

/-- `MSG4` of `sha256_shani.c` (`SHA256MSG1`, `PALIGNR`, `SHA256MSG2`) and `MSG4` of
    `sha256_sse2.c` compute the same four words -/
theorem msg4ni_eq (X0 X1 X2 X3 : V4) : msg4ni X0 X1 X2 X3 = msg4 X0 X1 X2 X3 := by
  have ha : X0.x0 + Sha256.smallSigma0 X0.x1 + X2.x1 + Sha256.smallSigma1 X3.x2 =
      Sha256.smallSigma1 X3.x2 + X2.x1 + Sha256.smallSigma0 X0.x1 + X0.x0 := by ac_rfl
  have hb : X0.x1 + Sha256.smallSigma0 X0.x2 + X2.x2 + Sha256.smallSigma1 X3.x3 =
      Sha256.smallSigma1 X3.x3 + X2.x2 + Sha256.smallSigma0 X0.x2 + X0.x1 := by ac_rfl
  rw [msg4_lanes]
  simp only [msg4ni, sha256msg1, sha256msg2, mm_add_epi32, mm_alignr_epi8_4, V4.zip, V4.mk.injEq, ha, hb,
    true_and]
  refine ⟨?_, ?_⟩ <;> ac_rfl

/-- sixteen rounds over explicit constants and one group of sixteen schedule words -/
def rounds16 (r : Sha256.Regs) (k : List UInt32) (y : Y4) : Sha256.Regs :=
  (k.zip y.lanes).foldl (fun r kw => Sha256.round r kw.1 kw.2) r

theorem rndmsgQuad_eq (r : Sha256.Regs) (y : Y4) (k0 k1 k2 k3 k4 k5 k6 k7 k8 k9 k10 k11 k12 k13 k14 k15 : UInt32) :
    rndmsgQuad ⟨abef r, cdgh r⟩ y [k0, k1, k2, k3, k4, k5, k6, k7, k8, k9, k10, k11, k12, k13, k14, k15] =
      some (⟨abef (rounds16 r [k0, k1, k2, k3, k4, k5, k6, k7, k8, k9, k10, k11, k12, k13, k14, k15] y),
             cdgh (rounds16 r [k0, k1, k2, k3, k4, k5, k6, k7, k8, k9, k10, k11, k12, k13, k14, k15] y)⟩,
            msgStep y) := by
  simp only [rndmsgQuad, rnd4_eq, msg4ni_eq]
  rfl

theorem rndQuad_eq (r : Sha256.Regs) (y : Y4) (k0 k1 k2 k3 k4 k5 k6 k7 k8 k9 k10 k11 k12 k13 k14 k15 : UInt32) :
    rndQuad ⟨abef r, cdgh r⟩ y [k0, k1, k2, k3, k4, k5, k6, k7, k8, k9, k10, k11, k12, k13, k14, k15] =
      some ⟨abef (rounds16 r [k0, k1, k2, k3, k4, k5, k6, k7, k8, k9, k10, k11, k12, k13, k14, k15] y),
            cdgh (rounds16 r [k0, k1, k2, k3, k4, k5, k6, k7, k8, k9, k10, k11, k12, k13, k14, k15] y)⟩ := by
  simp only [rndQuad, rnd4_eq]
  rfl

theorem shaniK_eq : Gen.CpuPaths.shaniK = Sha256.K := by decide

theorem length_lanes (y : Y4) : y.lanes.length = 16 := rfl

/-- 64 rounds = four groups of sixteen -/
theorem rounds_split (H : Sha256.Regs) (y a b c : Y4) :
    Sha256.rounds H (y.lanes ++ a.lanes ++ b.lanes ++ c.lanes) =
      rounds16 (rounds16 (rounds16 (rounds16 H (Sha256.K.take 16) y) ((Sha256.K.drop 16).take 16) a)
        ((Sha256.K.drop 32).take 16) b) (Sha256.K.drop 48) c := by
  have hk : Sha256.K = Sha256.K.take 16 ++ (Sha256.K.drop 16).take 16 ++ (Sha256.K.drop 32).take 16 ++
      Sha256.K.drop 48 := by decide
  unfold Sha256.rounds rounds16
  conv => lhs; rw [hk]
  rw [List.zip_append (by rw [List.length_append, List.length_append, List.length_append,
        List.length_append, length_lanes, length_lanes, length_lanes]; decide),
    List.zip_append (by rw [List.length_append, List.length_append, length_lanes, length_lanes]; decide),
    List.zip_append (by rw [length_lanes]; decide),
    List.foldl_append, List.foldl_append, List.foldl_append]

theorem loadBlockNi_explicit (b0 b1 b2 b3 b4 b5 b6 b7 b8 b9 b10 b11 b12 b13 b14 b15 b16 b17 b18 b19 b20 b21 b22 b23 b24 b25 b26 b27 b28 b29 b30 b31 b32 b33 b34 b35 b36 b37 b38 b39 b40 b41 b42 b43 b44 b45 b46 b47 b48 b49 b50 b51 b52 b53 b54 b55 b56 b57 b58 b59 b60 b61 b62 b63 : UInt8) :
    loadBlockNi [b0, b1, b2, b3, b4, b5, b6, b7, b8, b9, b10, b11, b12, b13, b14, b15, b16, b17, b18, b19, b20, b21, b22, b23, b24, b25, b26, b27, b28, b29, b30, b31, b32, b33, b34, b35, b36, b37, b38, b39, b40, b41, b42, b43, b44, b45, b46, b47, b48, b49, b50, b51, b52, b53, b54, b55, b56, b57, b58, b59, b60, b61, b62, b63] = some (blockY b0 b1 b2 b3 b4 b5 b6 b7 b8 b9 b10 b11 b12 b13 b14 b15 b16 b17 b18 b19 b20 b21 b22 b23 b24 b25 b26 b27 b28 b29 b30 b31 b32 b33 b34 b35 b36 b37 b38 b39 b40 b41 b42 b43 b44 b45 b46 b47 b48 b49 b50 b51 b52 b53 b54 b55 b56 b57 b58 b59 b60 b61 b62 b63) := by
  simp only [loadBlockNi, List.length_cons, List.length_nil]
  rw [if_neg (by decide)]
  simp only [List.take_succ_cons, List.take_zero, List.drop_succ_cons, List.drop_zero, be32dec_128_eq]
  rfl

theorem stateIn_eq (H : Sha256.Regs) : stateIn H = ⟨abef H, cdgh H⟩ := rfl

theorem stateOut_eq (H r : Sha256.Regs) : stateOut ⟨abef H, cdgh H⟩ ⟨abef r, cdgh r⟩ = Sha256.addRegs H r := by
  simp only [stateOut, Sha256.addRegs, abef, cdgh, mm_add_epi32, mm_unpackhi_epi64, mm_unpacklo_epi64,
    mm_shuffle_epi32, V4.zip, get0, get1, get2, get3, Sha256.Regs.mk.injEq]
  refine ⟨?_, ?_, ?_, ?_, ?_, ?_, ?_, ?_⟩ <;> exact UInt32.add_comm _ _

theorem K_quarters :
    Sha256.K.take 16 = [0x428a2f98, 0x71374491, 0xb5c0fbcf, 0xe9b5dba5, 0x3956c25b, 0x59f111f1,
      0x923f82a4, 0xab1c5ed5, 0xd807aa98, 0x12835b01, 0x243185be, 0x550c7dc3, 0x72be5d74, 0x80deb1fe,
      0x9bdc06a7, 0xc19bf174] ∧
    (Sha256.K.drop 16).take 16 = [0xe49b69c1, 0xefbe4786, 0x0fc19dc6, 0x240ca1cc, 0x2de92c6f,
      0x4a7484aa, 0x5cb0a9dc, 0x76f988da, 0x983e5152, 0xa831c66d, 0xb00327c8, 0xbf597fc7, 0xc6e00bf3,
      0xd5a79147, 0x06ca6351, 0x14292967] ∧
    (Sha256.K.drop 32).take 16 = [0x27b70a85, 0x2e1b2138, 0x4d2c6dfc, 0x53380d13, 0x650a7354,
      0x766a0abb, 0x81c2c92e, 0x92722c85, 0xa2bfe8a1, 0xa81a664b, 0xc24b8b70, 0xc76c51a3, 0xd192e819,
      0xd6990624, 0xf40e3585, 0x106aa070] ∧
    Sha256.K.drop 48 = [0x19a4c116, 0x1e376c08, 0x2748774c, 0x34b0bcb5, 0x391c0cb3, 0x4ed8aa4a,
      0x5b9cca4f, 0x682e6ff3, 0x748f82ee, 0x78a5636f, 0x84c87814, 0x8cc70208, 0x90befffa, 0xa4506ceb,
      0xbef9a3f7, 0xc67178f2] := by
  decide

/-- the sixteen `RNDMSG` lines = the 64 rounds over the schedule generated by `msgStep` -/
theorem shaniRounds_eq (r : Sha256.Regs) (y : Y4) :
    shaniRounds ⟨abef r, cdgh r⟩ y Sha256.K =
      some ⟨abef (Sha256.rounds r (y.lanes ++ (msgStep y).lanes ++ (msgStep (msgStep y)).lanes ++
              (msgStep (msgStep (msgStep y))).lanes)),
            cdgh (Sha256.rounds r (y.lanes ++ (msgStep y).lanes ++ (msgStep (msgStep y)).lanes ++
              (msgStep (msgStep (msgStep y))).lanes))⟩ := by
  rw [rounds_split]
  obtain ⟨hk0, hk1, hk2, hk3⟩ := K_quarters
  unfold shaniRounds
  rw [hk0, hk1, hk2, hk3]
  rw [rndmsgQuad_eq, Option.bind_some]
  rw [rndmsgQuad_eq, Option.bind_some]
  rw [rndmsgQuad_eq, Option.bind_some]
  rw [rndQuad_eq]

/-- **`SHA256_Transform_shani` is the FIPS 180-4 compression function** (given the SDM semantics
    of `SHA256RNDS2/MSG1/MSG2`, `PSHUFB`, `PALIGNR`, `PUNPCK*QDQ`, `PSHUFD`) -/
theorem transformShani_eq (H : Sha256.Regs) (block : Bytes) (h : block.length = 64) :
    transformShani H block = some (Sha256.compress H block) := by
  refine bytes64 (fun b => transformShani H b = some (Sha256.compress H b)) ?_ block h
  intro b0 b1 b2 b3 b4 b5 b6 b7 b8 b9 b10 b11 b12 b13 b14 b15 b16 b17 b18 b19 b20 b21 b22 b23 b24 b25 b26 b27 b28 b29 b30 b31 b32 b33 b34 b35 b36 b37 b38 b39 b40 b41 b42 b43 b44 b45 b46 b47 b48 b49 b50 b51 b52 b53 b54 b55 b56 b57 b58 b59 b60 b61 b62 b63
  unfold transformShani Sha256.compress
  rw [loadBlockNi_explicit, schedule_explicit, shaniK_eq, stateIn_eq]
  simp only [Option.bind_eq_bind, Option.bind_some, shaniRounds_eq, stateOut_eq, Option.pure_def]

theorem transformAccel_eq (p : ShaPath) (H : Sha256.Regs) (block : Bytes) (h : block.length = 64) :
    transformAccel p H block = some (Sha256.compress H block) := by
  cases p
  · exact transformSse2_eq H block h
  · exact transformShani_eq H block h

theorem absorbAccel_eq (H : Sha256.Regs) (calls : List (ShaPath × Bytes)) (h : ∀ pb ∈ calls, pb.2.length = 64) :
    absorbAccel H calls = some ((calls.map (·.2)).foldl Sha256.compress H) := by
  induction calls generalizing H with
  | nil => rfl
  | cons pb rest ih =>
    simp only [absorbAccel, transformAccel_eq pb.1 H pb.2 (h pb (by simp)), List.map_cons, List.foldl_cons]
    exact ih _ (fun b' hb' => h b' (by simp [hb']))

end Percival.Proofs.CpuPaths
