import Percival.Model.UpStep
import Percival.Proofs.AFUAcct
/-!
# C14, component `upstart`: the monitor accepts every line of the model — core (part A)

`Model.UpStep.stepOp` moves the world only by `AllocFail.stepR` (`call_fst`, `call_world`), so the proved
invariants `Inv` / `EvAcct` of `Model/AllocFail.lean` are carried along every protocol line
(`stepOp_inv`).  The monitor's verdict on a line is reduced here to three conditions on the library call the
line stands for:

* `NoFalseFail w c` — the call is within its contract and a failure comes with a refused request
  (from `Ready`, or directly for the two situations `Ready` does not cover; part B);
* `Present w c` for the release calls (part B: the harness' handle tables name existing, unowned objects);
* `ReleaseCovers s` for `end` (the harness' release order empties every table of the world; part E).
-/
namespace Percival.Proofs.UpMonSound
open Percival.Model Percival.Model.EvReg Percival.Model.AllocFail Percival.Model.UpStep
open Percival.Proofs.AllocFailUpper
open Percival.Proofs.EvRegNet (regNet netRegistered NetInv)
open Percival.Proofs.EvRegTimer (regImm regTimers TmInv Step Granted)
open Percival.Model.DsStep (sched rf)
open Percival.Spec.UpMon (monStep Kind Ans)

abbrev UOp := Percival.Model.UpStep.Op
abbrev LOp := Percival.Model.AllocFail.Op

/-! ## `call` is `stepR` -/

theorem call_fst (w : World) (c : LOp) : (call w c).1 = (stepR w c).1 := by
  cases c <;> simp only [call, stepR]
  case read fd => rcases networkRead w fd with ⟨_ | _, _⟩ <;> rfl
  case write fd => rcases networkWrite w fd with ⟨_ | _, _⟩ <;> rfl
  case accept fd => rcases networkAccept w fd with ⟨_ | _, _⟩ <;> rfl
  case connect a t s => rcases networkConnect w a t s with ⟨_ | _, _⟩ <;> rfl
  case nbrInit fd => rcases netbufReadInit w fd with ⟨_ | _, _⟩ <;> rfl
  case nbwInit fd => rcases netbufWriteInit w fd with ⟨_ | _, _⟩ <;> rfl
  case http a l s => rcases httpRequest w a l s with ⟨_ | _, _⟩ <;> rfl
  case https a l s hl => rcases httpsRequest w a l s hl with ⟨_ | _, _⟩ <;> rfl

theorem call_world (w : World) (c : LOp) : (call w c).2.2 = (stepR w c).2 := by
  cases c <;> simp only [call, stepR]
  case read fd => rcases networkRead w fd with ⟨_ | _, _⟩ <;> rfl
  case write fd => rcases networkWrite w fd with ⟨_ | _, _⟩ <;> rfl
  case accept fd => rcases networkAccept w fd with ⟨_ | _, _⟩ <;> rfl
  case connect a t s => rcases networkConnect w a t s with ⟨_ | _, _⟩ <;> rfl
  case nbrInit fd => rcases netbufReadInit w fd with ⟨_ | _, _⟩ <;> rfl
  case nbwInit fd => rcases netbufWriteInit w fd with ⟨_ | _, _⟩ <;> rfl
  case http a l s => rcases httpRequest w a l s with ⟨_ | _, _⟩ <;> rfl
  case https a l s hl => rcases httpsRequest w a l s hl with ⟨_ | _, _⟩ <;> rfl

/-! ## the shape of `stepOp` on a call line -/

theorem stepOp_call (s : S) (op : UOp) (hk : kindOf op = .call) :
    stepOp s op =
      match callOf s op with
      | none => (s, .word .skip)
      | some c =>
        match call s.w c with
        | (.contract, _, _) => (s, onContract s op)
        | (rc, o, w') => ({ book s op o (rc == .ok) with w := w' }, line (rc == .ok) s.w w') := by
  cases op <;> first | rfl | cases hk

theorem book_w (s : S) (op : UOp) (o : Option Nat) (ok : Bool) : (book s op o ok).w = s.w := by
  unfold book
  split <;> first | rfl | (split <;> rfl)

/-- the three ways a call line can go -/
theorem stepOp_call_cases (s : S) (op : UOp) (hk : kindOf op = .call) :
    (callOf s op = none ∧ stepOp s op = (s, .word .skip)) ∨
    (∃ c, callOf s op = some c ∧ (stepR s.w c).1 = .contract ∧ stepOp s op = (s, onContract s op)) ∨
    (∃ c, callOf s op = some c ∧ (stepR s.w c).1 ≠ .contract ∧
      stepOp s op = ({ book s op (call s.w c).2.1 ((stepR s.w c).1 == .ok) with w := (stepR s.w c).2 },
        line ((stepR s.w c).1 == .ok) s.w (stepR s.w c).2)) := by
  rw [stepOp_call s op hk]
  cases hc : callOf s op with
  | none => exact Or.inl ⟨rfl, rfl⟩
  | some c =>
    right
    have h1 := call_fst s.w c
    have h2 := call_world s.w c
    rcases hcall : call s.w c with ⟨rc, o, w'⟩
    rw [hcall] at h1 h2
    simp only at h1 h2
    cases rc with
    | contract => left; exact ⟨c, rfl, h1.symm, by simp only [hcall]⟩
    | ok => right; refine ⟨c, rfl, by rw [← h1]; simp, ?_⟩; rw [← h1, ← h2]; simp only [hcall]
    | fail => right; refine ⟨c, rfl, by rw [← h1]; simp, ?_⟩; rw [← h1, ← h2]; simp only [hcall]

/-! ## which call a line stands for: releases and the others -/

theorem relCall_isRelease (k : RelKind) (c : Nat) : isRelease (relCall k c) = true := by cases k <;> rfl

/-- only a `rel` line stands for a release call -/
theorem callOf_isRelease (s : S) (op : UOp) (c : LOp) (h : callOf s op = some c) (hr : isRelease c = true) :
    ∃ k hh x, op = .rel k hh ∧ obj (relTab s k) hh = some x ∧ c = relCall k x := by
  cases op with
  | rel k hh =>
    simp only [callOf, Option.map_eq_some_iff] at h
    obtain ⟨x, hx, rfl⟩ := h
    exact ⟨k, hh, x, rfl, hx, rfl⟩
  | start k hh sl =>
    simp only [callOf] at h
    split at h
    · split at h
      · cases h
      · cases k <;> (simp only [Option.some.injEq] at h; subst h; cases hr)
    · cases h
  | failat _ => cases h
  | failfrom _ => cases h
  | failoff => cases h
  | end_ => cases h
  | nbrInit hh sl =>
    simp only [callOf] at h
    repeat' split at h
    all_goals first | (cases h; done) | (cases h; cases hr)
  | nbwInit hh sl =>
    simp only [callOf] at h
    repeat' split at h
    all_goals first | (cases h; done) | (cases h; cases hr)
  | nbrWait hh len =>
    simp only [callOf] at h
    repeat' split at h
    all_goals first | (cases h; done) | (cases h; cases hr)
  | nbwReserve hh len =>
    simp only [callOf] at h
    repeat' split at h
    all_goals first | (cases h; done) | (cases h; cases hr)
  | nbwConsume hh len =>
    simp only [callOf] at h
    repeat' split at h
    all_goals first | (cases h; done) | (cases h; cases hr)
  | nbwWrite hh len =>
    simp only [callOf] at h
    repeat' split at h
    all_goals first | (cases h; done) | (cases h; cases hr)
  | ncStart hh a t =>
    simp only [callOf] at h
    repeat' split at h
    all_goals first | (cases h; done) | (cases h; cases hr)
  | hqStart hh a pl =>
    simp only [callOf] at h
    repeat' split at h
    all_goals first | (cases h; done) | (cases h; cases hr)
  | hqsStart hh a pl hl =>
    simp only [callOf] at h
    repeat' split at h
    all_goals first | (cases h; done) | (cases h; cases hr)

/-! ## what the monitor says about the model's lines -/

/-- the monitor accepts the line the model prints for `op` in state `s` -/
def Acc (s : S) (op : UOp) : Prop := (monStep () (kindOf op) (stepOp s op).2.ans).2 = none

theorem mon_skip : (monStep () .call (Out.word .skip).ans).2 = none := rfl

theorem mon_line_ok (w0 w : World) : (monStep () .call (line true w0 w).ans).2 = none := rfl

theorem mon_line_fail (w0 w : World) (h : w0.m.refusals < w.m.refusals) :
    (monStep () .call (line false w0 w).ans).2 = none := by
  have h0 : rf w0.m w.m > 0 := by unfold rf; omega
  have : decide (rf w0.m w.m > 0) = true := decide_eq_true h0
  simp [monStep, line, Out.ans, Spec.UpMon.accept, this]

/-- the call is within its contract, and if it fails a request was refused while it ran -/
def NoFalseFail (w : World) (c : LOp) : Prop :=
  (stepR w c).1 ≠ .contract ∧ ((stepR w c).1 = .fail → w.m.refusals < (stepR w c).2.m.refusals)

theorem ready_noFalseFail (w : World) (c : LOp) (h : Inv w) (hr : Ready w c) : NoFalseFail w c :=
  ⟨Top.ready_not_contract w c h hr, stepR_fail_refused w c h hr⟩

/-- **a call line is accepted** when the call it stands for is within its contract and fails only with a refused
request (`NoFalseFail`; the calls that are not releases), resp. names an object that is there and may be released
by the harness (`Present`; `netbuf_read_free` of a busy reader excepted: the harness skips it) -/
theorem acc_call (s : S) (op : UOp) (hk : kindOf op = .call) (hI : Inv s.w)
    (hcall : ∀ c, callOf s op = some c → isRelease c = false → NoFalseFail s.w c)
    (hrel : ∀ c, callOf s op = some c → isRelease c = true → (∃ r, c = .nbrFree r) ∨ Present s.w c) :
    Acc s op := by
  unfold Acc
  rw [hk]
  rcases stepOp_call_cases s op hk with ⟨_, he⟩ | ⟨c, hc, hrc, he⟩ | ⟨c, hc, hrc, he⟩
  · rw [he]; exact mon_skip
  · rw [he]
    cases hr : isRelease c with
    | false => exact absurd hrc (hcall c hc hr).1
    | true =>
      obtain ⟨k, hh, x, rfl, _, rfl⟩ := callOf_isRelease s op c hc hr
      rcases hrel _ hc hr with ⟨r, hr'⟩ | hp
      · cases k <;> first | exact mon_skip | cases hr'
      · have := (stepR_release_ok s.w _ hI hp).1
        rw [this] at hrc; cases hrc
  · rw [he]
    cases hrc' : (stepR s.w c).1 with
    | contract => exact absurd hrc' hrc
    | ok => exact mon_line_ok _ _
    | fail =>
      cases hr : isRelease c with
      | false => exact mon_line_fail _ _ ((hcall c hc hr).2 hrc')
      | true => exact absurd hrc' (Top.release_not_fail s.w c hr)

/-! ## the invariants of the world along a protocol line -/

/-- replacing the allocation schedule (`failat` / `failfrom` / `failoff`): no field of `Inv` reads `Mem.f` -/
def setF (w : World) (f : Nat → Nat → Bool) : World := { w with m := { w.m with f := f } }

theorem inv_setF {w : World} (h : Inv w) (f : Nat → Nat → Bool) : Inv (setF w f) :=
  { ev := ⟨h.ev.net, EvRegTimer.tmInv_congr w.ev w.ev w.m _ h.ev.tm rfl rfl (Nat.le_refl _), h.ev.heads⟩
    bad0 := h.bad0, fresh := h.fresh, nodup := h.nodup, owns := h.owns, cacheSites := h.cacheSites
    rd := h.rd, wr := h.wr, regNet := h.regNet, regTm := h.regTm, regImm := h.regImm, acct := h.acct
    refs := h.refs }

theorem evAcct_setF {w : World} (h : EvAcct w) (f : Nat → Nat → Bool) : EvAcct (setF w f) := h

/-- the harness' release order leaves no object in any table of the world (part E, `releaseCovers`, proves it from the
relation between the handle tables and the world) -/
def ReleaseCovers (s : S) : Prop :=
  tables (AllocFail.run (setF s.w (sched 0 0 0)) (releaseOps s)) = ⟨[], [], [], [], [], [], []⟩

theorem releaseAll_spec (s : S) (hI : Inv s.w) (hA : EvAcct s.w) (hc : ReleaseCovers s) :
    (releaseAll s).w.m.live = 0 ∧ Inv (releaseAll s).w ∧ EvAcct (releaseAll s).w ∧
    (releaseAll s).w = { m := (releaseAll s).w.m } ∧
    (releaseAll s).rd = [] ∧ (releaseAll s).wr = [] ∧ (releaseAll s).acc = [] ∧ (releaseAll s).conn = [] ∧
    (releaseAll s).nbr = [] ∧ (releaseAll s).nbw = [] ∧ (releaseAll s).nbwResv = [] ∧ (releaseAll s).http = [] := by
  have hI0 := inv_setF hI (sched 0 0 0)
  have hI1 := run_inv _ (releaseOps s) hI0
  have hA1 := evAcct_run _ (releaseOps s) hI0 (evAcct_setF hA _)
  obtain ⟨h1, h2, h3⟩ := atexitAll_frees_everything _ hI1 hA1 hc
  have hbad : (atexitAll (AllocFail.run (setF s.w (sched 0 0 0)) (releaseOps s))).bad = 0 :=
    (atexitPools_partial _ hI1.toInv0).2.2.2.2.2.2.1
  have hw : (releaseAll s).w =
      { m := { (atexitAll (AllocFail.run (setF s.w (sched 0 0 0)) (releaseOps s))).m with f := sched 0 0 0 } } := by
    have e : (releaseAll s).w =
      { m := { (atexitAll (AllocFail.run (setF s.w (sched 0 0 0)) (releaseOps s))).m with f := sched 0 0 0 },
        live := (atexitAll (AllocFail.run (setF s.w (sched 0 0 0)) (releaseOps s))).live,
        cache := (atexitAll (AllocFail.run (setF s.w (sched 0 0 0)) (releaseOps s))).cache,
        bad := (atexitAll (AllocFail.run (setF s.w (sched 0 0 0)) (releaseOps s))).bad } := rfl
    rw [e, h2, h3, hbad]
  refine ⟨?_, ?_, ?_, ?_, rfl, rfl, rfl, rfl, rfl, rfl, rfl, rfl⟩
  · rw [hw]; exact h1
  · rw [hw]; exact inv_init _ h1
  · rw [hw]; exact evAcct_init _
  · rw [hw]

theorem mon_end (live : Int) (n : Nat) (left : Option (Nat × Nat)) (h : live = 0) :
    (monStep () .end_ (Out.end_ live n left).ans).2 = none := by
  subst h; rfl

/-- the world after a call line: unchanged, or `stepR` of the call the line stands for -/
theorem stepOp_call_w (s : S) (op : UOp) (hk : kindOf op = .call) :
    (stepOp s op).1.w = s.w ∨ ∃ c, callOf s op = some c ∧ (stepOp s op).1.w = (stepR s.w c).2 := by
  rcases stepOp_call_cases s op hk with ⟨_, he⟩ | ⟨c, _, _, he⟩ | ⟨c, hc, _, he⟩
  · left; rw [he]
  · left; rw [he]
  · right; exact ⟨c, hc, by rw [he]⟩

/-- **one protocol line, core**: the line is accepted and `Inv` / `EvAcct` hold afterwards, given the three
conditions on the call the line stands for -/
theorem up_step_core (s : S) (op : UOp) (hI : Inv s.w) (hA : EvAcct s.w)
    (hcall : ∀ c, callOf s op = some c → isRelease c = false → NoFalseFail s.w c)
    (hrel : ∀ c, callOf s op = some c → isRelease c = true → (∃ r, c = .nbrFree r) ∨ Present s.w c)
    (hend : op = .end_ → ReleaseCovers s) :
    Acc s op ∧ Inv (stepOp s op).1.w ∧ EvAcct (stepOp s op).1.w := by
  have hcallk : kindOf op = .call → Acc s op ∧ Inv (stepOp s op).1.w ∧ EvAcct (stepOp s op).1.w := by
    intro hk
    refine ⟨acc_call s op hk hI hcall hrel, ?_⟩
    rcases stepOp_call_w s op hk with he | ⟨c, _, he⟩
    · rw [he]; exact ⟨hI, hA⟩
    · rw [he]; exact ⟨stepR_inv _ c hI, evAcct_stepR _ c hI hA⟩
  cases op with
  | failat k => exact ⟨rfl, inv_setF hI _, evAcct_setF hA _⟩
  | failfrom k => exact ⟨rfl, inv_setF hI _, evAcct_setF hA _⟩
  | failoff => exact ⟨rfl, inv_setF hI _, evAcct_setF hA _⟩
  | end_ =>
    obtain ⟨h1, h2, h3, _⟩ := releaseAll_spec s hI hA (hend rfl)
    exact ⟨mon_end _ _ _ h1, h2, h3⟩
  | start k h sl => exact hcallk rfl
  | nbrInit h sl => exact hcallk rfl
  | nbwInit h sl => exact hcallk rfl
  | nbrWait h len => exact hcallk rfl
  | nbwReserve h len => exact hcallk rfl
  | nbwConsume h len => exact hcallk rfl
  | nbwWrite h len => exact hcallk rfl
  | rel k h => exact hcallk rfl
  | ncStart h a t => exact hcallk rfl
  | hqStart h a pl => exact hcallk rfl
  | hqsStart h a pl hl => exact hcallk rfl

end Percival.Proofs.UpMonSound
