import Percival.Proofs.UpMonSoundF
/-!
# C14, component `upstart`: the monitor `Spec.UpMon.monStep` accepts every line of the model `Model.UpStep.stepOp`

`up_step_sound`: in a state satisfying `UInv` the line printed for any protocol op is accepted and `UInv` holds
afterwards; `up_run_sound`: along every run from the initial state.  What is assumed of a line (`WF`) is stated
below, with the reason.
-/
namespace Percival.Proofs.UpMonSound
open Percival.Model Percival.Model.EvReg Percival.Model.AllocFail Percival.Model.UpStep
open Percival.Proofs.AllocFailUpper
open Percival.Proofs.EvRegNet (regNet netRegistered NetInv)
open Percival.Model.Connect (AddrOutcome)
open Percival.Model.DsStep (sched rf)
open Percival.Spec.UpMon (monStep Kind Ans)

/-! ## descriptors of the buffered readers / writers are slot descriptors -/

def FdB (t : Tables) : Prop := (∀ r ∈ t.readers, r.fd < 88) ∧ (∀ x ∈ t.writers, x.fd < 88)

theorem fdB_ev {t t' : Tables} {c0 : LOp} {rc : Rc} {o : Option Nat} (hev : Ev t c0 rc o t') (hb : FdB t)
    (hnew : ∀ fd, c0 = .nbrInit fd ∨ c0 = .nbwInit fd → fd < 88) : FdB t' := by
  cases hev
  case nbrInit fd c r hid hfd hc hf =>
    exact ⟨fun y hy => by
      rcases List.mem_cons.1 hy with rfl | hy
      · rw [hfd]; exact hnew fd (Or.inl rfl)
      · exact hb.1 y hy, hb.2⟩
  case nbwInit fd c x hid hfd hc hres hf =>
    exact ⟨hb.1, fun y hy => by
      rcases List.mem_cons.1 hy with rfl | hy
      · rw [hfd]; exact hnew fd (Or.inr rfl)
      · exact hb.2 y hy⟩
  case nbrUpd len r r' hr hc hid hfd hc' =>
    refine ⟨?_, hb.2⟩
    show ∀ y ∈ updReader t.readers r', y.fd < 88
    unfold updReader
    rw [forall_upd Reader.id hr hid]
    exact ⟨fun y hy _ => hb.1 y hy, hfd ▸ hb.1 r hr⟩
  case nbrRead len r r' c hr hc hid hfd hc' hf =>
    refine ⟨?_, hb.2⟩
    show ∀ y ∈ updReader t.readers r', y.fd < 88
    unfold updReader
    rw [forall_upd Reader.id hr hid]
    exact ⟨fun y hy _ => hb.1 y hy, hfd ▸ hb.1 r hr⟩
  case nbrCancel r hr =>
    refine ⟨?_, hb.2⟩
    show ∀ y ∈ updReader t.readers { r with readCookie := none, immediate := false }, y.fd < 88
    unfold updReader
    rw [forall_upd Reader.id (a' := { r with readCookie := none, immediate := false }) hr rfl]
    exact ⟨fun y hy _ => hb.1 y hy, hb.1 r hr⟩
  case nbrFree r hr hc =>
    exact ⟨fun y hy => hb.1 y (List.mem_filter.1 hy).1, hb.2⟩
  case nbwReserve len x q hx hres hq =>
    refine ⟨hb.1, ?_⟩
    show ∀ y ∈ updWriter t.writers { x with reserved := true, queue := q }, y.fd < 88
    unfold updWriter
    rw [forall_upd Writer.id (a' := { x with reserved := true, queue := q }) hx rfl]
    exact ⟨fun y hy _ => hb.2 y hy, hb.2 x hx⟩
  case nbwUpd len x x' hx hid hfd hres hc hc0 =>
    refine ⟨hb.1, ?_⟩
    show ∀ y ∈ updWriter t.writers x', y.fd < 88
    unfold updWriter
    rw [forall_upd Writer.id hx hid]
    exact ⟨fun y hy _ => hb.2 y hy, hfd ▸ hb.2 x hx⟩
  case nbwStart len x x' wb c hx hid hfd hres hc hc' hf hc0 =>
    refine ⟨hb.1, ?_⟩
    show ∀ y ∈ updWriter t.writers x', y.fd < 88
    unfold updWriter
    rw [forall_upd Writer.id hx hid]
    exact ⟨fun y hy _ => hb.2 y hy, hfd ▸ hb.2 x hx⟩
  case nbwFree x hx =>
    exact ⟨hb.1, fun y hy => hb.2 y (List.mem_filter.1 hy).1⟩
  all_goals exact hb

/-! ## the pre-checks of `callOf` put the call within its contract -/

theorem fdOk_of_slot (w : World) (fd : Nat) (isW : Bool) (hb : slotBusy w.ev fd isW = false) (hfd : fd < 88) :
    fdOk w fd isW := by
  refine ⟨fun hr => ?_, ?_⟩
  · obtain ⟨rec, h1, h2⟩ := (Percival.Proofs.EvRegNet.netRegistered_iff w.ev fd isW).1 hr
    simp only [slotBusy, h1] at hb
    rw [h2] at hb; cases hb
  · have : EArray.SIZE_MAX = 2^64 - 1 := rfl
    rw [this]; omega

/-- `netbuf_read_wait(R, 0, …)` of an idle reader only schedules an immediate event: the descriptor plays no role -/
theorem nbrWait_zero (w : World) (rid : Nat) (r : Reader) (hf : w.readers.find? (·.id == rid) = some r)
    (hc : r.readCookie = none) (hi : r.immediate = false) : NoFalseFail w (.nbrWait rid 0) := by
  have hm := EvRegTimer.immReg_fail_refused w.ev r.id 0 w.m
  unfold NoFalseFail
  show (netbufReadWait w rid 0).1 ≠ .contract ∧ ((netbufReadWait w rid 0).1 = .fail → _ < (netbufReadWait w rid 0).2.m.refusals)
  simp only [netbufReadWait, hf, hc, hi, Option.isSome_none, Bool.or_self, Bool.false_eq_true, if_false, ge_iff_le,
    Nat.zero_le, if_true]
  rcases hir : immReg w.ev r.id 0 w.m with ⟨ok, e', m'⟩
  rw [hir] at hm
  cases ok
  · exact ⟨by simp, fun _ => hm rfl⟩
  · exact ⟨by simp, fun h => by cases h⟩

/-- `netbuf_write_consume` while a write is in progress only appends to the queue -/
theorem nbwConsume_busy (w : World) (wid len : Nat) (x : Writer) (hf : w.writers.find? (·.id == wid) = some x)
    (hok : consumeOk x len) (hcur : x.curr.isSome = true) : (netbufWriteConsume w wid len).1 = .ok := by
  obtain ⟨hres, wb, hq, hlen⟩ := hok
  have hlt : ¬ wb.buflen - wb.datalen < len := by omega
  simp only [netbufWriteConsume, hf, hres, Bool.not_true, Bool.false_eq_true, if_false, hq, hlt, poke, hcur,
    Bool.true_or, if_true]

/-- `netbuf_write_write` while a write is in progress: reserve (the only step that can fail, by a refused
request) and append -/
theorem nbwWrite_busy (w : World) (wid len : Nat) (x : Writer) (hI : Inv w)
    (hf : w.writers.find? (·.id == wid) = some x) (hres : x.reserved = false) (hcur : x.curr.isSome = true) :
    NoFalseFail w (.nbwWrite wid len) := by
  obtain ⟨hx, rfl⟩ := Run.find_key (fun x : Writer => x.id) hf
  unfold NoFalseFail
  show (netbufWriteWrite w x.id len).1 ≠ .contract ∧
    ((netbufWriteWrite w x.id len).1 = .fail → _ < (netbufWriteWrite w x.id len).2.m.refusals)
  cases hfailed : x.failed with
  | true =>
    simp only [netbufWriteWrite, hf, hfailed, if_true]
    exact ⟨by simp, fun h => by cases h⟩
  | false =>
    obtain ⟨_, _, hciff, _, hfail, hok⟩ := netbufWriteReserve_spec w x len hI.toInv0 hx
    have hI1 : Inv (netbufWriteReserve w x.id len).2 := stepR_inv w (.nbwReserve x.id len) hI
    simp only [netbufWriteWrite, hf, hfailed, Bool.false_eq_true, if_false]
    rcases hR : netbufWriteReserve w x.id len with ⟨rc, w1⟩
    rw [hR] at hciff hfail hok hI1
    cases rc with
    | contract => have := hciff.1 rfl; rw [hres] at this; cases this
    | fail => exact ⟨by simp, fun _ => (hfail rfl).2⟩
    | ok =>
      obtain ⟨_, q, _, hq, ht⟩ := hok rfl
      have hw1 : w1.writers = updWriter w.writers { x with reserved := true, queue := q } := congrArg Tables.writers ht
      have hx1 : ({ x with reserved := true, queue := q } : Writer) ∈ w1.writers := by
        rw [hw1]; exact Top.mem_updWriter' hx rfl
      have hfind := nbw_find (nbw_writers_nodup hI1.toInv0) hx1
      have := nbwConsume_busy w1 x.id len _ hfind ⟨rfl, hq⟩ hcur
      simp only
      exact ⟨by rw [this]; simp, fun h => by rw [this] at h; cases h⟩

/-! ## the invariant of the protocol state, and what is assumed of a line -/

/-- the invariant of the protocol state: the proved invariants of the world (`Inv`, `EvAcct`), the handle tables
name exactly the objects the harness may release (`HInv`), buffered readers / writers sit on slot descriptors
(`FdB`), the length the harness believes reserved in a writer is available (`ResvOk`) -/
structure UInv (s : S) : Prop where
  inv : Inv s.w
  acct : EvAcct s.w
  tabs : HInv s
  fds : FdB (tables s.w)
  resv : ResvOk s

/-- what is assumed of a line, beyond `UInv`:

* `conn` — for `nc_start` / `hq_start` / `hqs_start`: the descriptor `socket()` would return (`freshFd`: the lowest one not used
  by an outstanding connect) has no write registration and fits the socket list, and there are fewer than `2^32`
  timers.  `freshFd` avoids only the sockets of `w.conns`; it could reach a slot descriptor (64‥87) only with more
  than 60 connects outstanding, the harness has 32 + 32 handles and the generator makes < 60 ops per case.

(For `end` nothing is assumed: `ReleaseCovers s` is proved from `UInv` in part E, `releaseCovers`.) -/
structure WF (s : S) (op : UOp) : Prop where
  conn : ∀ a tm l fd, (callOf s op = some (.connect a tm fd) ∨ callOf s op = some (.http a l fd) ∨
      ∃ hl, callOf s op = some (.https a l fd hl)) →
    (skipFailNow a ≠ [] → fdOk s.w fd true) ∧ s.w.ev.timers.length < 2^32

theorem noFalseFail_of_ok {w : World} {c : LOp} (h : (stepR w c).1 = .ok) : NoFalseFail w c :=
  ⟨by rw [h]; simp, fun hf => by rw [h] at hf; cases hf⟩

/-- **part 2**: the pre-checks of `callOf` (and `WF`) make every non-release call `NoFalseFail` -/
theorem call_noFalseFail (s : S) (op : UOp) (U : UInv s) (wf : WF s op) (c0 : LOp) (hc : callOf s op = some c0)
    (hr : isRelease c0 = false) : NoFalseFail s.w c0 := by
  have hI := U.inv
  cases op with
  | failat _ => cases hc
  | failfrom _ => cases hc
  | failoff => cases hc
  | end_ => cases hc
  | start k h sl =>
    obtain ⟨_, hsl, _, hb, rfl⟩ := callOf_start hc
    have hfd : FDBASE + sl < 88 := by simp only [FDBASE, NSLOT] at *; omega
    cases k
    · exact ready_noFalseFail _ _ hI (fdOk_of_slot s.w _ false hb hfd)
    · exact ready_noFalseFail _ _ hI (fdOk_of_slot s.w _ true hb hfd)
    · exact ready_noFalseFail _ _ hI (fdOk_of_slot s.w _ false hb hfd)
  | nbrInit h sl =>
    obtain ⟨_, _, _, rfl⟩ := callOf_nbrInit hc
    exact ready_noFalseFail _ _ hI trivial
  | nbwInit h sl =>
    obtain ⟨_, _, _, rfl⟩ := callOf_nbwInit hc
    exact ready_noFalseFail _ _ hI trivial
  | ncStart h a tm =>
    obtain ⟨_, _, rfl⟩ := callOf_ncStart hc
    exact ready_noFalseFail _ _ hI (wf.conn a tm 0 _ (Or.inl hc))
  | hqStart h a pl =>
    obtain ⟨_, _, rfl⟩ := callOf_hqStart hc
    exact ready_noFalseFail _ _ hI (wf.conn a none _ _ (Or.inr (Or.inl hc)))
  | hqsStart h a pl hl =>
    obtain ⟨_, _, rfl⟩ := callOf_hqsStart hc
    exact ready_noFalseFail _ _ hI (wf.conn a none _ _ (Or.inr (Or.inr ⟨hl, hc⟩)))
  | nbrWait h len =>
    obtain ⟨rid, r, _, hf, hcr, hi, hslot, rfl⟩ := callOf_nbrWait hc
    obtain ⟨hrm, hid⟩ := Run.find_key (fun x : Reader => x.id) hf
    cases len with
    | zero => exact nbrWait_zero s.w rid r hf hcr hi
    | succ n =>
      exact ready_noFalseFail _ _ hI ⟨r, hrm, hid, hcr, hi, fdOk_of_slot s.w _ false (hslot (Nat.succ_pos n)) (U.fds.1 r hrm)⟩
  | nbwReserve h len =>
    obtain ⟨wid, x, _, hf, hres, rfl⟩ := callOf_nbwReserve hc
    obtain ⟨hxm, hid⟩ := Run.find_key (fun x : Writer => x.id) hf
    exact ready_noFalseFail _ _ hI ⟨x, hxm, hid, hres⟩
  | nbwConsume h len =>
    obtain ⟨wid, x, hobj, hf, hres, hlen, hslot, rfl⟩ := callOf_nbwConsume hc
    obtain ⟨hxm, hid⟩ := Run.find_key (fun x : Writer => x.id) hf
    have hok : consumeOk x len := by
      obtain ⟨wb, hq, hroom⟩ := U.resv (h, wid) (look_some (obj_some hobj).2) x hxm hid hres
      exact ⟨hres, wb, hq, Nat.le_trans hlen hroom⟩
    cases hcur : x.curr with
    | none => exact ready_noFalseFail _ _ hI ⟨x, hxm, hid, hok, fdOk_of_slot s.w _ true (hslot hcur) (U.fds.2 x hxm)⟩
    | some p => exact noFalseFail_of_ok (nbwConsume_busy s.w wid len x hf hok (by simp [hcur]))
  | nbwWrite h len =>
    obtain ⟨wid, x, _, hf, hres, hslot, rfl⟩ := callOf_nbwWrite hc
    obtain ⟨hxm, hid⟩ := Run.find_key (fun x : Writer => x.id) hf
    cases hcur : x.curr with
    | none => exact ready_noFalseFail _ _ hI ⟨x, hxm, hid, hres, fdOk_of_slot s.w _ true (hslot hcur) (U.fds.2 x hxm)⟩
    | some p => exact nbwWrite_busy s.w wid len x hI hf hres (by simp [hcur])
  | rel k h =>
    obtain ⟨c, _, rfl⟩ := callOf_rel hc
    rw [relCall_isRelease] at hr; cases hr

/-! ## part 3: a handle of the harness names an object that is there and is the harness' to release -/

theorem vis_of_obj {s : S} (H : HInv s) {k : K} {h c : Nat} (ho : obj (tab s k) h = some c) : Vis (tables s.w) k c :=
  (H.vis k c).1 (List.mem_map.2 ⟨(h, c), look_some (obj_some ho).2, rfl⟩)

theorem rel_present (s : S) (op : UOp) (U : UInv s) (c0 : LOp) (hc : callOf s op = some c0)
    (hr : isRelease c0 = true) : (∃ r, c0 = .nbrFree r) ∨ Present s.w c0 := by
  obtain ⟨k, h, c, rfl, ho, rfl⟩ := callOf_isRelease s op c0 hc hr
  cases k
  · right
    obtain ⟨h1, h2⟩ := vis_of_obj (k := .rd) U.tabs ho
    obtain ⟨a, ha, hac⟩ := List.mem_map.1 h1
    exact ⟨⟨a, ha, hac⟩, by simp only [readOwned, List.any_eq_false, beq_iff_eq]; exact fun x hx => h2 x hx⟩
  · right
    obtain ⟨h1, h2⟩ := vis_of_obj (k := .wr) U.tabs ho
    obtain ⟨a, ha, hac⟩ := List.mem_map.1 h1
    refine ⟨⟨a, ha, hac⟩, ?_⟩
    simp only [writeOwned, List.any_eq_false, beq_iff_eq]
    exact fun x hx => h2 x hx
  · right
    obtain ⟨a, ha, hac⟩ := List.mem_map.1 (vis_of_obj (k := .acc) U.tabs ho)
    exact ⟨a, ha, hac⟩
  · right
    obtain ⟨h1, h2⟩ := vis_of_obj (k := .conn) U.tabs ho
    obtain ⟨a, ha, hac⟩ := List.mem_map.1 h1
    exact ⟨⟨a, ha, hac⟩, by simp only [connOwned, List.any_eq_false, beq_iff_eq]; exact fun x hx => h2 x hx⟩
  · right
    obtain ⟨a, ha, hac⟩ := List.mem_map.1 (vis_of_obj (k := .http) U.tabs ho)
    exact ⟨a, ha, hac⟩
  · right
    obtain ⟨a, ha, hac⟩ := List.mem_map.1 (vis_of_obj (k := .nbw) U.tabs ho)
    exact ⟨a, ha, hac⟩
  · right
    obtain ⟨a, ha, hac⟩ := List.mem_map.1 (vis_of_obj (k := .nbr) U.tabs ho)
    exact ⟨a, ha, hac⟩
  · left; exact ⟨c, rfl⟩

/-! ## one line, and a whole run -/

theorem callOf_init_fd {s : S} {op : UOp} {c0 : LOp} (hc : callOf s op = some c0) :
    ∀ fd, c0 = .nbrInit fd ∨ c0 = .nbwInit fd → fd < 88 := by
  intro fd h
  cases op with
  | failat _ => cases hc
  | failfrom _ => cases hc
  | failoff => cases hc
  | end_ => cases hc
  | start k hh sl =>
    obtain ⟨_, _, _, _, rfl⟩ := callOf_start hc
    cases k <;> rcases h with h | h <;> cases h
  | nbrInit hh sl =>
    obtain ⟨_, hsl, _, rfl⟩ := callOf_nbrInit hc
    rcases h with h | h <;> cases h
    simp only [FDBASE, NSLOT] at *; omega
  | nbwInit hh sl =>
    obtain ⟨_, hsl, _, rfl⟩ := callOf_nbwInit hc
    rcases h with h | h <;> cases h
    simp only [FDBASE, NSLOT] at *; omega
  | ncStart hh a tm => obtain ⟨_, _, rfl⟩ := callOf_ncStart hc; rcases h with h | h <;> cases h
  | hqStart hh a pl => obtain ⟨_, _, rfl⟩ := callOf_hqStart hc; rcases h with h | h <;> cases h
  | hqsStart hh a pl hl => obtain ⟨_, _, rfl⟩ := callOf_hqsStart hc; rcases h with h | h <;> cases h
  | nbrWait hh len => obtain ⟨_, _, _, _, _, _, _, rfl⟩ := callOf_nbrWait hc; rcases h with h | h <;> cases h
  | nbwReserve hh len => obtain ⟨_, _, _, _, _, rfl⟩ := callOf_nbwReserve hc; rcases h with h | h <;> cases h
  | nbwConsume hh len => obtain ⟨_, _, _, _, _, _, _, rfl⟩ := callOf_nbwConsume hc; rcases h with h | h <;> cases h
  | nbwWrite hh len => obtain ⟨_, _, _, _, _, _, rfl⟩ := callOf_nbwWrite hc; rcases h with h | h <;> cases h
  | rel k hh => obtain ⟨c, _, rfl⟩ := callOf_rel hc; cases k <;> rcases h with h | h <;> cases h

theorem delta_refl (t : Tables) : Delta t t none none := fun k c => by simp

theorem uinv_init : UInv ({} : S) :=
  ⟨inv_init _ rfl, evAcct_init _,
   ⟨fun k c => by cases k <;> simp [tab, Vis, tables], fun k => by cases k <;> exact ⟨by simp [tab], by simp [tab], by simp [tab]⟩⟩,
   ⟨by simp [tables], by simp [tables]⟩, fun p hp => by cases hp⟩

theorem tabs_step (s : S) (op : UOp) (U : UInv s) (wf : WF s op) :
    HInv (stepOp s op).1 ∧ FdB (tables (stepOp s op).1.w) ∧ ResvOk (stepOp s op).1 := by
  have hcallk : kindOf op = .call → HInv (stepOp s op).1 ∧ FdB (tables (stepOp s op).1.w) ∧ ResvOk (stepOp s op).1 := by
    intro hk
    rcases stepOp_call_cases s op hk with ⟨_, he⟩ | ⟨c, _, _, he⟩ | ⟨c, hc, hnc, he⟩
    · rw [he]; exact ⟨U.tabs, U.fds, U.resv⟩
    · rw [he]; exact ⟨U.tabs, U.fds, U.resv⟩
    · rw [he]
      exact ⟨hinv_book s op c _ U.tabs U.inv hc hnc, fdB_ev (ev_stepR s.w c U.inv hnc) U.fds (callOf_init_fd hc),
        resv_book s op c U.tabs U.inv U.resv hc hnc⟩
  cases op with
  | failat k => exact ⟨hinv_same U.tabs (fun k => by cases k <;> rfl) (delta_refl _), U.fds, U.resv⟩
  | failfrom k => exact ⟨hinv_same U.tabs (fun k => by cases k <;> rfl) (delta_refl _), U.fds, U.resv⟩
  | failoff => exact ⟨hinv_same U.tabs (fun k => by cases k <;> rfl) (delta_refl _), U.fds, U.resv⟩
  | end_ =>
    obtain ⟨_, _, _, hw, h1, h2, h3, h4, h5, h6, _, h8⟩ := releaseAll_spec s U.inv U.acct (releaseCovers s U.inv U.tabs)
    show HInv (releaseAll s) ∧ FdB (tables (releaseAll s).w) ∧ ResvOk (releaseAll s)
    refine ⟨⟨fun k c => ?_, fun k => ?_⟩, ?_, fun p hp => by rw [h6] at hp; cases hp⟩
    · rw [hw]
      cases k <;> simp [tab, Vis, tables, h1, h2, h3, h4, h5, h6, h8]
    · cases k <;> simp only [tab, h1, h2, h3, h4, h5, h6, h8] <;> exact ⟨by simp, by simp, by simp⟩
    · rw [hw]; exact ⟨by simp [tables], by simp [tables]⟩
  | start k h sl => exact hcallk rfl
  | nbrInit h sl => exact hcallk rfl
  | nbwInit h sl => exact hcallk rfl
  | nbrWait h len => exact hcallk rfl
  | nbwReserve h len => exact hcallk rfl
  | nbwConsume h len => exact hcallk rfl
  | nbwWrite h len => exact hcallk rfl
  | rel k h => exact hcallk rfl
  | ncStart h a t => exact hcallk rfl
  | hqStart h a pl => exact hcallk rfl
  | hqsStart h a pl hl => exact hcallk rfl

/-- **One protocol line**: in a state satisfying `UInv`, for a line satisfying `WF`, the monitor accepts the line
the model prints, and `UInv` holds in the next state. -/
theorem up_step_sound (s : S) (op : UOp) (h : UInv s) (wf : WF s op) :
    (monStep () (kindOf op) (stepOp s op).2.ans).2 = none ∧ UInv (stepOp s op).1 := by
  obtain ⟨hacc, hI', hA'⟩ :=
    up_step_core s op h.inv h.acct (call_noFalseFail s op h wf) (rel_present s op h)
      (fun _ => releaseCovers s h.inv h.tabs)
  obtain ⟨hT, hF, hR⟩ := tabs_step s op h wf
  exact ⟨hacc, hI', hA', hT, hF, hR⟩

/-- every line of a run is well-formed in the state it is executed in -/
def WFRun : S → List UOp → Prop
  | _, [] => True
  | s, op :: rest => WF s op ∧ WFRun (stepOp s op).1 rest

/-- **A whole run**: from a state satisfying `UInv` (the initial state `{}` does: `uinv_init`), every line of a
well-formed run is accepted by the monitor. -/
theorem up_run_sound (s : S) (ops : List UOp) (h : UInv s) (wf : WFRun s ops) :
    ∀ p ∈ (runOps s ops).zip ops, (monStep () (kindOf p.2) p.1.2.ans).2 = none := by
  induction ops generalizing s with
  | nil => intro p hp; simp [runOps] at hp
  | cons op rest ih =>
    obtain ⟨hacc, hU⟩ := up_step_sound s op h wf.1
    intro p hp
    simp only [runOps, List.zip_cons_cons, List.mem_cons] at hp
    rcases hp with rfl | hp
    · exact hacc
    · exact ih _ hU wf.2 p hp

/-! ## non-vacuity -/

example : UInv ({} : S) := uinv_init

/-- under the schedule `failat 3`, `start read 0 0` (network_read on slot 0) fails at its third request:
the model prints `fail rf=1`, which the monitor accepts -/
example : (stepOp (stepOp {} (.failat 3)).1 (.start .read 0 0)).2.ans = { head := .fail, ntoks := 2, rf := some 1 } := by
  decide
example : (monStep () .call (stepOp (stepOp {} (.failat 3)).1 (.start .read 0 0)).2.ans).2 = none := by decide
/-- without a schedule the same line answers `ok rf=0` and the handle is booked -/
example : (stepOp {} (.start .read 0 0)).2.ans = { head := .ok, ntoks := 2, rf := some 0 } ∧
    (stepOp {} (.start .read 0 0)).1.rd = [(0, 0)] := by decide
/-- releasing it, then `end`: `end live=0` -/
example : (stepOp (stepOp (stepOp {} (.start .read 0 0)).1 (.rel .nrCancel 0)).1 .end_).2.ans =
    { head := .end_, ntoks := 3, live := some 0, leaked := some 0 } := by decide +kernel

/-- `WF` holds for the lines of a concrete run: a read on slot 0, a connect, `end` -/
example : WF {} (.start .read 0 0) :=
  ⟨fun a tm l fd h => (by rcases h with h | h | ⟨hl, h⟩ <;> cases h)⟩

example : WF {} (.ncStart 0 [.success] none) := by
  refine ⟨fun a tm l fd h => ?_⟩
  refine ⟨fun _ => ⟨?_, ?_⟩, by decide⟩
  · rintro ⟨id, hm⟩
    rcases h with h | h | ⟨hl, h⟩ <;> cases h
    simp [Percival.Proofs.EvRegNet.regNet, EvReg.registry, EvReg.netOf] at hm
  · rcases h with h | h | ⟨hl, h⟩ <;> cases h
    decide

example : ReleaseCovers (stepOp {} (.start .read 0 0)).1 :=
  releaseCovers _ (up_step_sound {} (.start .read 0 0) uinv_init
    ⟨fun a tm l fd h => (by rcases h with h | h | ⟨hl, h⟩ <;> cases h)⟩).2.inv
    (up_step_sound {} (.start .read 0 0) uinv_init
    ⟨fun a tm l fd h => (by rcases h with h | h | ⟨hl, h⟩ <;> cases h)⟩).2.tabs

end Percival.Proofs.UpMonSound
