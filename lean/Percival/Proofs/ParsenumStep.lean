import Percival.Model.ParsenumStep
import Percival.Proofs.IeeeStrtod
import Percival.Proofs.Parsenum
import Percival.Proofs.ParsenumFloat
import Percival.Proofs.HumansizeExec
set_option linter.unusedSimpArgs false
/-! Helper lemmas for C16: the functions of `Model/ParsenumStep.lean` (what `pmodel parsenum` runs). -/
namespace Percival.Proofs.ParsenumStep
open Percival.Model.ParsenumStep Percival.Spec.Ieee Percival.Spec.Parsenum
open Percival.Proofs.Ieee

theorem oddPartAux_spec : ∀ (f n k : Nat), n ≤ f → n ≠ 0 →
    ∃ j, (oddPartAux f n k).2 = k + j ∧ n = (oddPartAux f n k).1 * 2 ^ j ∧ (oddPartAux f n k).1 % 2 = 1 := by
  intro f
  induction f with
  | zero => intro n k h1 h2; omega
  | succ f ih =>
    intro n k h1 h2
    unfold oddPartAux
    split
    · rename_i he
      obtain ⟨j, e1, e2, e3⟩ := ih (n / 2) (k + 1) (by omega) (by omega)
      refine ⟨j + 1, by omega, ?_, e3⟩
      rw [Nat.pow_succ, ← Nat.mul_assoc, ← e2]; omega
    · exact ⟨0, rfl, by simp, by omega⟩

/-- `n = m · 2^k` with `m` odd -/
theorem oddPart_spec (n : Nat) (hn : n ≠ 0) : n = (oddPart n).1 * 2 ^ (oddPart n).2 ∧ (oddPart n).1 % 2 = 1 := by
  obtain ⟨j, e1, e2, e3⟩ := oddPartAux_spec n n 0 (Nat.le_refl _) hn
  unfold oddPart
  rw [e1, Nat.zero_add]; exact ⟨e2, e3⟩

theorem rat_eq_num_div_den (q : Rat) : q = (q.num : Rat) / (q.den : Rat) := by
  have h := Rat.num_divInt_den q
  rw [Rat.divInt_eq_div, Rat.intCast_natCast] at h
  exact h.symm

/-- the token printed for a datum denotes the datum -/
theorem flTok_toFl (x : Fl) (h : FlNonneg x) : (flTok x).toFl = x := by
  cases x with
  | nan => rfl
  | inf neg => rfl
  | fin neg q =>
    have hq : 0 ≤ q := h
    have hnum : 0 ≤ q.num := Rat.num_nonneg.mpr hq
    simp only [flTok]
    split
    · rename_i h0
      have : q.num = 0 := by omega
      rw [Rat.num_eq_zero] at this
      subst this; rfl
    · rename_i h0
      have hn : ((q.num.toNat : Nat) : Rat) = (q.num : Rat) := by
        rw [← Rat.intCast_natCast, Int.toNat_of_nonneg hnum]
      have hq' := rat_eq_num_div_den q
      split
      · rename_i hd
        obtain ⟨e1, -⟩ := oddPart_spec q.num.toNat (by omega)
        simp only [FlTok.toFl]
        rw [← Rat.natCast_mul, ← e1, hn]
        rw [hd] at hq'
        congr 1
        calc (q.num : Rat) = (q.num : Rat) / ((1 : Nat) : Rat) := by simp; grind
          _ = q := hq'.symm
      · rename_i hd
        split
        · rename_i hd1
          obtain ⟨e1, -⟩ := oddPart_spec q.den q.den_nz
          rw [hd1, Nat.one_mul] at e1
          simp only [FlTok.toFl]
          rw [← e1, hn, ← hq']
        · simp only [FlTok.toFl]
          rw [hn, ← hq']


/-! ### every datum the float model leaves in `*x` has a non-negative magnitude -/

open Percival.Model.Strtod Percival.Model.ParsenumFloat Percival.Proofs.ParsenumFloat Percival.Proofs.FloatNumeral in
theorem strtod_val_nonneg (s : List UInt8) : FlNonneg (strtod s).val := by
  cases hs : scanF s with
  | none => rw [strtod_of_none hs]; exact Rat.le_refl
  | some r =>
    obtain ⟨neg, sub, e⟩ := r
    rw [strtod_of_scanF hs]
    have hacc : Spec.FloatNumeral.FAccepts true s neg sub := (faccepts_iff_scan true s neg sub).mpr ⟨e, hs, Or.inl rfl⟩
    exact converts_nonneg (toDouble_converts neg sub (faccepts_nonneg hacc))

theorem narrows_nonneg {d v : Fl} (h : Narrows d v) : FlNonneg v := by
  cases d with
  | nan => rw [show v = .nan from h]; trivial
  | inf n => rw [show v = .inf n from h]; trivial
  | fin n mag =>
    cases v with
    | nan => trivial
    | inf n => trivial
    | fin n' mag' => exact h.2.1

open Percival.Model.ParsenumFloat in
theorem fstore_nonneg (t : FTy) {d : Fl} (h : FlNonneg d) : FlNonneg (fstore t d) := by
  cases t with
  | f64 => exact h
  | f32 => exact narrows_nonneg (toBinary32_narrows d h)

open Percival.Model.ParsenumFloat in
theorem ex6_done_nonneg {t : FTy} {s : List UInt8} {mn mx : Fl} {base : Nat} {tr : Bool} {x : Fl} {e : Model.Strto.Errno}
    (h : parsenumEx6 t s mn mx base tr = .done x e) : FlNonneg x := by
  unfold parsenumEx6 at h
  split at h
  · split at h
    · simp only [parsenumFloat] at h
      split at h
      · injection h with h1 _; subst h1; exact fstore_nonneg t (strtod_val_nonneg s)
      · split at h
        · injection h with h1 _; subst h1; exact fstore_nonneg t (strtod_val_nonneg s)
        · injection h with h1 _; subst h1; exact fstore_nonneg t (strtod_val_nonneg s)
    · cases h
  · cases h

/-- the token of every reported datum denotes it -/
theorem fout_of_ex6 {t : Model.ParsenumFloat.FTy} {s : List UInt8} {mn mx : Fl} {base : Nat} {tr : Bool} :
    match Model.ParsenumFloat.parsenumEx6 t s mn mx base tr with
    | .done x e => FOut.of (Model.ParsenumFloat.parsenumEx6 t s mn mx base tr) = .done (flTok x) e ∧ (flTok x).toFl = x
    | .abort => FOut.of (Model.ParsenumFloat.parsenumEx6 t s mn mx base tr) = .abort := by
  split
  · rename_i x e h; rw [h]; exact ⟨rfl, flTok_toFl x (ex6_done_nonneg h)⟩
  · rename_i h; rw [h]; rfl

/-! ### the contract of the integer form -/

theorem isOoc_iff (t : IntTy) (mn mx : CVal) :
    isOoc t mn mx = true ↔ t.signed = true ∧ ¬ (InType t mn.toInt ∧ InType t mx.toInt) := by
  unfold isOoc InType
  simp only [Bool.and_eq_true, Bool.not_eq_true', Bool.and_eq_false_iff, decide_eq_true_eq, decide_eq_false_iff_not]
  constructor
  · rintro ⟨h1, h2⟩; exact ⟨h1, by omega⟩
  · rintro ⟨h1, h2⟩; exact ⟨h1, by omega⟩

theorem isOoc_of_boundsOk {t : IntTy} {mn mx : CVal} (h : BoundsOk t mn mx) : isOoc t mn mx = false := by
  cases ho : isOoc t mn mx with
  | false => rfl
  | true =>
    obtain ⟨h1, h2⟩ := (isOoc_iff t mn mx).mp ho
    exact absurd (h.2.2 h1) h2

/-- for an odd-significand token of an integer datum (`up`), the significand is odd -/
theorem flTok_up_odd {x : Fl} {neg : Bool} {m k : Nat} (h : flTok x = .up neg m k) : m % 2 = 1 := by
  cases x with
  | nan => cases h
  | inf n => cases h
  | fin n q =>
    simp only [flTok] at h
    split at h
    · cases h
    · rename_i h0
      split at h
      · injection h with _ h2 h3
        rw [← h2]
        exact (oddPart_spec q.num.toNat (by omega)).2
      · split at h <;> cases h

/-! ### `hs_fmt` from the model's answer (for concrete instances: the enumeration is too deep for the kernel's evaluator) -/

theorem hsFmt_of_model {n : Nat} {str : List UInt8} (hn : n < 2 ^ 64) (hm : Model.Humansize.format n = .str str) :
    stepOp (.hsFmt n) = .hsFmt (some str) (.str str) := by
  obtain ⟨str', h1, h2⟩ := Percival.Proofs.HumansizeExec.format_eq_spec n (by omega)
  rw [hm] at h2
  have h3 : str = str' := by injection h2
  rw [← h3] at h1
  have : stepOp (.hsFmt n) = .hsFmt (Spec.HumansizeExec.specFormat n) (Model.Humansize.format n) := by
    simp only [stepOp, if_pos hn]
  rw [this, h1, hm]

end Percival.Proofs.ParsenumStep
