import Percival.Model.NetbufWrite
import Percival.Proofs.NetbufRead
/-! Helper lemmas for C07, writer half: what has been sent plus what is still queued is what was written. -/
namespace Percival.Proofs.NetbufWrite
open Percival.Spec.ByteStream Percival.Model.Netbuf Percival.Model.NetbufWrite
open Percival.Proofs.NetbufRead (slice_eq blit_eq sub_eq)

theorem last_split {α : Type} (q : List α) (x : α) (h : q.getLast? = some x) : q = q.dropLast ++ [x] := by
  induction q with
  | nil => simp at h
  | cons a t ih =>
    cases t with
    | nil => simp at h; simp [h]
    | cons b t' =>
      simp only [List.getLast?_cons_cons] at h
      simp only [List.dropLast_cons_cons, List.cons_append]
      rw [← ih h]

/-- the data of all queued buffers, in queue order -/
def qdata (q : List WBuf) : Bytes := (q.map WBuf.data).flatten

def currData (w : W) : Bytes :=
  match w.curr with
  | some wb => wb.data
  | none => []

/-- everything accepted from the application and not yet reported written by the transport -/
def pendingData (w : W) : Bytes := currData w ++ qdata w.queue

@[simp] theorem qdata_nil : qdata [] = [] := rfl
@[simp] theorem qdata_cons (wb : WBuf) (q : List WBuf) : qdata (wb :: q) = wb.data ++ qdata q := by
  simp [qdata]
@[simp] theorem qdata_append (q1 q2 : List WBuf) : qdata (q1 ++ q2) = qdata q1 ++ qdata q2 := by
  simp [qdata]

structure BufOK (wb : WBuf) : Prop where
  len : wb.buf.length = wb.buflen
  dat : wb.datalen ≤ wb.buflen

theorem data_length {wb : WBuf} (h : BufOK wb) : wb.data.length = wb.datalen := by
  obtain ⟨h1, h2⟩ := h
  simp [WBuf.data, List.length_take]; omega

theorem data_empty {wb : WBuf} (h : wb.datalen = 0) : wb.data = [] := by
  simp [WBuf.data, h]

/-- the loop which discards empty buffers keeps the queued data and stops at a non-empty buffer -/
theorem dropEmpty_spec (q : List WBuf) :
    qdata (dropEmpty q) = qdata q ∧ (∀ wb ∈ dropEmpty q, wb ∈ q) ∧
      (∀ wb rest, dropEmpty q = wb :: rest → wb.datalen ≠ 0) := by
  induction q with
  | nil => simp [dropEmpty]
  | cons wb t ih =>
    unfold dropEmpty
    by_cases h : wb.datalen = 0
    · rw [if_pos h]
      refine ⟨by simp [ih.1, data_empty h], fun x hx => List.mem_cons_of_mem _ (ih.2.1 x hx), ih.2.2⟩
    · rw [if_neg h]
      refine ⟨rfl, fun x hx => hx, ?_⟩
      intro wb' rest e
      simp only [List.cons.injEq] at e
      rw [← e.1]; exact h

structure Inv (w : W) : Prop where
  q : ∀ wb ∈ w.queue, BufOK wb
  c : ∀ wb, w.curr = some wb → BufOK wb ∧ 0 < wb.datalen
  failedIdle : w.failed = true → w.curr = none
  idle : w.failed = false → w.curr = none → qdata w.queue = []

theorem inv_init : Inv init := by
  refine ⟨?_, ?_, ?_, ?_⟩ <;> simp [init]

/-- `poke` never fails, keeps the flags and the pending data, and afterwards an unfailed writer
without an outstanding write has nothing queued -/
theorem poke_spec {w : W} (hq : ∀ wb ∈ w.queue, BufOK wb) (hc : ∀ wb, w.curr = some wb → BufOK wb ∧ 0 < wb.datalen)
    (hf : w.failed = true → w.curr = none) :
    ∃ w', poke w = .ok w' ∧ w'.failed = w.failed ∧ w'.reserved = w.reserved ∧
      pendingData w' = pendingData w ∧ Inv w' ∧ (w.curr.isSome → w' = w) := by
  unfold poke
  by_cases h1 : (w.curr.isSome || w.queue.isEmpty) = true
  · rw [if_pos h1]
    refine ⟨w, rfl, rfl, rfl, rfl, ⟨hq, hc, hf, ?_⟩, fun _ => rfl⟩
    intro _ hcn
    simp only [hcn, Option.isSome_none, Bool.false_or, List.isEmpty_iff] at h1
    simp [h1]
  · rw [if_neg h1]
    simp only [Bool.or_eq_true, not_or, Bool.not_eq_true, Option.isSome_eq_false_iff, Option.isNone_iff_eq_none] at h1
    obtain ⟨hcn, _⟩ := h1
    by_cases h2 : w.failed = true
    · rw [if_pos h2]
      exact ⟨w, rfl, rfl, rfl, rfl, ⟨hq, hc, hf, by intro h; simp [h] at h2⟩, by simp [hcn]⟩
    · rw [if_neg h2]
      obtain ⟨hd, hmem, hne⟩ := dropEmpty_spec w.queue
      cases hde : dropEmpty w.queue with
      | nil =>
        simp only [Res.pure_eq]
        refine ⟨_, rfl, rfl, rfl, ?_, ⟨?_, ?_, ?_, ?_⟩, by simp [hcn]⟩
        · rw [hde] at hd
          simp [pendingData, currData, hcn, ← hd]
        · intro wb hwb; simp at hwb
        · intro wb hwb; exact hc wb hwb
        · exact hf
        · intro _ _; rfl
      | cons wb rest =>
        have hwb0 := hne wb rest hde
        have hok : BufOK wb := hq wb (hmem wb (by rw [hde]; exact List.mem_cons_self))
        simp only []
        rw [if_neg hwb0, slice_eq _ _ _ (by have := hok.len; have := hok.dat; omega)]
        simp only [Res.ok_bind, Res.pure_eq]
        refine ⟨_, rfl, rfl, rfl, ?_, ⟨?_, ?_, ?_, ?_⟩, by simp [hcn]⟩
        · rw [hde] at hd
          simp only [pendingData, currData, hcn, List.nil_append, ← hd, qdata_cons]
        · intro x hx
          exact hq x (hmem x (by rw [hde]; exact List.mem_cons_of_mem _ hx))
        · intro x hx
          simp only [Option.some.injEq] at hx
          subst hx
          exact ⟨hok, by omega⟩
        · intro hft
          exact absurd hft h2
        · intro _ hcn'
          simp at hcn'


/-- how the model mirrors the outstanding reservation of the call protocol: the reserved bytes are
inside the last queued buffer, behind its data -/
def ResvRel (w : W) : Option Nat → Prop
  | none => w.reserved = false
  | some n => w.reserved = true ∧ ∃ wb, w.queue.getLast? = some wb ∧ n ≤ wb.buflen - wb.datalen

theorem newBuflen_ge (n : Nat) : n ≤ newBuflen n := by
  unfold newBuflen; split <;> omega

theorem reserve_spec {w : W} (hi : Inv w) (hr : ResvRel w none) (n : Nat) :
    ∃ w', reserve w n = .ok w' ∧ Inv w' ∧ ResvRel w' (some n) ∧ pendingData w' = pendingData w ∧
      w'.failed = w.failed ∧ w'.curr = w.curr := by
  have hres : w.reserved = false := hr
  unfold reserve
  rw [if_neg (by simp [hres])]
  simp only []
  -- the new-buffer branch
  have fresh : ∀ w0 : W, w0 = { w with reserved := true, queue := w.queue ++
      [{ buf := List.replicate (newBuflen n) 0, buflen := newBuflen n, datalen := 0 }] } →
      Inv w0 ∧ ResvRel w0 (some n) ∧ pendingData w0 = pendingData w ∧ w0.failed = w.failed ∧ w0.curr = w.curr := by
    intro w0 e
    subst e
    refine ⟨⟨?_, hi.c, hi.failedIdle, ?_⟩, ⟨rfl, _, List.getLast?_concat, by simp [newBuflen_ge]⟩, ?_, rfl, rfl⟩
    · intro wb hwb
      simp only [List.mem_append, List.mem_singleton] at hwb
      rcases hwb with hwb | rfl
      · exact hi.q wb hwb
      · exact ⟨by simp, by simp⟩
    · intro hf hc
      simp [hi.idle hf hc, WBuf.data]
    · simp [pendingData, currData, WBuf.data]
  cases hl : w.queue.getLast? with
  | none =>
    simp only [Res.pure_eq]
    exact ⟨_, rfl, fresh _ rfl⟩
  | some wb =>
    have hmem : wb ∈ w.queue := List.mem_of_getLast? hl
    have hok := hi.q wb hmem
    simp only []
    rw [sub_eq _ _ hok.dat]
    simp only [Res.ok_bind]
    by_cases hfit : n ≤ wb.buflen - wb.datalen
    · rw [if_pos hfit]
      simp only [Res.pure_eq]
      exact ⟨_, rfl, ⟨hi.q, hi.c, hi.failedIdle, hi.idle⟩, ⟨rfl, wb, hl, hfit⟩, rfl, rfl, rfl⟩
    · rw [if_neg hfit]
      simp only [Res.pure_eq]
      exact ⟨_, rfl, fresh _ rfl⟩

/-- the data of a buffer after `d` was stored behind it and `datalen` advanced -/
theorem data_blit (wb : WBuf) (hok : BufOK wb) (d : Bytes) :
    (wb.buf.take wb.datalen ++ (d ++ wb.buf.drop (wb.datalen + d.length))).take (wb.datalen + d.length)
      = wb.data ++ d := by
  have h1 := hok.len
  have h2 := hok.dat
  have hl : (wb.buf.take wb.datalen ++ d).length = wb.datalen + d.length := by
    simp [List.length_take]; omega
  rw [← List.append_assoc, ← hl, List.take_left' rfl]
  rfl

/-- … and if `datalen` did not advance (failed writer) the data is unchanged -/
theorem data_blit_keep (wb : WBuf) (hok : BufOK wb) (d : Bytes) :
    (wb.buf.take wb.datalen ++ (d ++ wb.buf.drop (wb.datalen + d.length))).take wb.datalen = wb.data := by
  have h1 := hok.len
  have h2 := hok.dat
  rw [List.take_append_of_le_length (by simp [List.length_take]; omega)]
  simp [WBuf.data, List.take_take]

theorem consume_spec {w : W} (hi : Inv w) (n : Nat) (hr : ResvRel w (some n)) (d : Bytes) (hd : d.length ≤ n) :
    ∃ w', consume w d = .ok w' ∧ Inv w' ∧ ResvRel w' none ∧ w'.failed = w.failed ∧
      (w.failed = false → pendingData w' = pendingData w ++ d) ∧ (w.failed = true → w'.curr = none) := by
  obtain ⟨hres, wb, hl, hn⟩ := hr
  have hmem : wb ∈ w.queue := List.mem_of_getLast? hl
  have hok := hi.q wb hmem
  have hlen := hok.len
  have hdat := hok.dat
  have hsplit := last_split _ _ hl
  unfold consume
  rw [if_neg (by simp [hres]), hl]
  simp only []
  rw [sub_eq _ _ hdat]
  simp only [Res.ok_bind]
  rw [if_neg (by omega), blit_eq _ _ _ (by omega)]
  simp only [Res.ok_bind]
  -- the writer just before `poke`
  let wb' : WBuf := ⟨wb.buf.take wb.datalen ++ (d ++ wb.buf.drop (wb.datalen + d.length)), wb.buflen, if w.failed = true then wb.datalen else wb.datalen + d.length⟩
  have hq' : ∀ x ∈ w.queue.dropLast ++ [wb'], BufOK x := by
    intro x hx
    simp only [List.mem_append, List.mem_singleton] at hx
    rcases hx with hx | rfl
    · exact hi.q x ((List.dropLast_sublist _).subset hx)
    · refine ⟨?_, ?_⟩
      · simp [wb', List.length_take, List.length_drop]; omega
      · show (if w.failed = true then wb.datalen else wb.datalen + d.length) ≤ wb.buflen
        split <;> omega
  obtain ⟨w', e, hf', hr', hp', hinv', _⟩ := poke_spec (w := ⟨w.queue.dropLast ++ [wb'], w.curr, false, w.failed⟩) hq' hi.c hi.failedIdle
  refine ⟨w', e, hinv', ?_, hf', ?_, ?_⟩
  · show w'.reserved = false
    rw [hr']
  · intro hnf
    rw [hp']
    simp only [pendingData, currData, qdata_append, qdata_cons, qdata_nil, List.append_nil]
    rw [hsplit] at *
    simp only [qdata_append, qdata_cons, qdata_nil, List.append_nil, List.dropLast_concat, List.append_assoc]
    congr 2
    have hdl : wb'.datalen = wb.datalen + d.length := by simp [wb', hnf]
    show wb'.buf.take wb'.datalen = wb.data ++ d
    rw [hdl]
    exact data_blit wb hok d
  · intro hft
    have := hinv'.failedIdle (by rw [hf']; exact hft)
    exact this


theorem write_spec {w : W} (hi : Inv w) (hr : ResvRel w none) (d : Bytes) :
    ∃ w', write w d = .ok w' ∧ Inv w' ∧ ResvRel w' none ∧ w'.failed = w.failed ∧
      (w.failed = false → pendingData w' = pendingData w ++ d) ∧ (w.failed = true → w' = w) := by
  unfold write
  by_cases hf : w.failed = true
  · rw [if_pos hf]
    exact ⟨w, rfl, hi, hr, rfl, fun h => by simp [h] at hf, fun _ => rfl⟩
  · rw [if_neg hf]
    obtain ⟨w1, e1, i1, r1, p1, f1, _⟩ := reserve_spec hi hr d.length
    obtain ⟨w2, e2, i2, r2, f2, p2, _⟩ := consume_spec i1 d.length r1 d (Nat.le_refl _)
    rw [e1]
    simp only [Res.ok_bind]
    refine ⟨w2, e2, i2, r2, by rw [f2, f1], ?_, fun h => absurd h hf⟩
    intro hnf
    rw [p2 (by rw [f1]; exact hnf), p1]

/-- completion of the outstanding write -/
theorem net_spec {w : W} (hi : Inv w) (hr : ResvRel w none) (ev : WEv) (hfit : fits w (.net ev)) :
    ∃ w' o, step w (.net ev) = .ok (w', o) ∧ Inv w' ∧ ResvRel w' none ∧ w.failed = false ∧
      (match ev with
       | .done _ => w'.failed = false ∧ o.failcb = false ∧ o.sent ++ pendingData w' = pendingData w
       | .fail _ => w'.failed = true ∧ o.failcb = true ∧ o.sent <+: pendingData w) := by
  obtain ⟨wb, hc, hev⟩ := hfit
  have hres : w.reserved = false := hr
  obtain ⟨hok, hpos⟩ := hi.c wb hc
  have hlen := hok.len
  have hdat := hok.dat
  have hnf : w.failed = false := by
    cases hf : w.failed
    · rfl
    · have := hi.failedIdle hf
      rw [hc] at this
      simp at this
  cases ev with
  | done n =>
    simp only at hev
    subst hev
    obtain ⟨w', e, hf', hr', hp', hinv', _⟩ := poke_spec (w := ⟨w.queue, none, w.reserved, false⟩) hi.q (by simp) (by simp)
    refine ⟨w', ⟨(wb.buf.drop 0).take wb.datalen, false⟩, ?_, hinv', ?_, hnf, ?_⟩
    · simp only [step, hc, takenOf, writelenOf, writbuf, hres, hnf]
      rw [slice_eq _ _ _ (by omega)]
      rw [hres] at e
      simp [e]
    · show w'.reserved = false
      rw [hr']; exact hres
    · refine ⟨by rw [hf'], rfl, ?_⟩
      rw [hp']
      simp [pendingData, currData, hc, WBuf.data]
  | fail p =>
    simp only at hev
    refine ⟨⟨w.queue, none, w.reserved, true⟩, ⟨(wb.buf.drop 0).take p, true⟩, ?_, ⟨hi.q, by simp, by simp, by simp⟩, hres, hnf, rfl, rfl, ?_⟩
    · simp only [step, hc, takenOf, writelenOf, writbuf, hres, hnf]
      rw [slice_eq _ _ _ (by omega)]
      simp
    · simp only [pendingData, currData, hc, WBuf.data, List.drop_zero]
      refine List.IsPrefix.trans ?_ (List.prefix_append _ _)
      have : List.take p wb.buf = List.take p (List.take wb.datalen wb.buf) := by
        rw [List.take_take]; congr 1; omega
      rw [this]
      exact List.take_prefix _ _


/-- The writer state together with the history it has to account for: the reservation of the call
protocol, everything written so far, everything the peer has received so far, the number of failure
callbacks so far. -/
structure Good (w : W) (rs : Option Nat) (wr sent : Bytes) (fails : Nat) : Prop where
  inv : Inv w
  resv : ResvRel w rs
  stream : w.failed = false → sent ++ pendingData w = wr
  pre : sent <+: wr
  fcount : fails = if w.failed = true then 1 else 0

theorem good_init : Good init none [] [] 0 :=
  ⟨inv_init, rfl, by simp [pendingData, currData, init], List.prefix_refl _, by simp [init]⟩

def opWrites : WOp → Bytes
  | .write d => d
  | .consume d => d
  | _ => []

def opFails : WOp → Bool
  | .net (.fail _) => true
  | _ => false

theorem writesOf_cons (op : WOp) (ops : List WOp) : writesOf (op :: ops) = opWrites op ++ writesOf ops := by
  cases op <;> simp [writesOf, opWrites]

theorem hasFail_cons (op : WOp) (ops : List WOp) : hasFail (op :: ops) = (opFails op || hasFail ops) := by
  cases op with
  | net ev => cases ev <;> simp [hasFail, opFails]
  | _ => simp [hasFail, opFails]

theorem step_good {w : W} {rs rs' : Option Nat} {wr sent : Bytes} {fails : Nat} {op : WOp}
    (g : Good w rs wr sent fails) (hc : clientStep rs op = some rs') (hf : fits w op) :
    ∃ w' o, step w op = .ok (w', o) ∧
      Good w' rs' (wr ++ opWrites op) (sent ++ o.sent) (fails + (if o.failcb = true then 1 else 0)) ∧
      w'.failed = (w.failed || opFails op) := by
  obtain ⟨hi, hr, hs, hp, hfc⟩ := g
  cases rs with
  | none =>
    cases op with
    | reserve n =>
      simp only [clientStep, Option.some.injEq] at hc
      subst hc
      obtain ⟨w', e, i', r', p', f', _⟩ := reserve_spec hi hr n
      refine ⟨w', {}, by simp [step, e], ⟨i', r', ?_, ?_, ?_⟩, by simp [f', opFails]⟩
      · intro h; simp only [opWrites, List.append_nil, p']; exact hs (by rw [← f']; exact h)
      · simpa [opWrites] using hp
      · simp [f', hfc]
    | consume d => simp [clientStep] at hc
    | write d =>
      simp only [clientStep, Option.some.injEq] at hc
      subst hc
      obtain ⟨w', e, i', r', f', p', _⟩ := write_spec hi hr d
      refine ⟨w', {}, by simp [step, e], ⟨i', r', ?_, ?_, ?_⟩, by simp [f', opFails]⟩
      · intro h
        have hnf : w.failed = false := by rw [← f']; exact h
        simp only [opWrites, List.append_nil, p' hnf, ← List.append_assoc, hs hnf]
      · simp only [opWrites, List.append_nil]
        exact List.IsPrefix.trans hp (List.prefix_append _ _)
      · simp [f', hfc]
    | net ev =>
      simp only [clientStep, Option.some.injEq] at hc
      subst hc
      obtain ⟨w', o, e, i', r', hnf, hev⟩ := net_spec hi hr ev hf
      have hwr := hs hnf
      cases ev with
      | done n =>
        obtain ⟨f', c', s'⟩ := hev
        have heq : (sent ++ o.sent) ++ pendingData w' = wr := by rw [List.append_assoc, s', hwr]
        refine ⟨w', o, e, ⟨i', r', ?_, ?_, ?_⟩, by simp [f', hnf, opFails]⟩
        · intro _; simpa [opWrites] using heq
        · simp only [opWrites, List.append_nil]; rw [← heq]; exact List.prefix_append _ _
        · simp [f', c', hfc, hnf]
      | fail p =>
        obtain ⟨f', c', s'⟩ := hev
        refine ⟨w', o, e, ⟨i', r', ?_, ?_, ?_⟩, by simp [f', opFails]⟩
        · intro h; rw [f'] at h; simp at h
        · simp only [opWrites, List.append_nil]; rw [← hwr]
          exact (List.prefix_append_right_inj sent).2 s'
        · simp [f', c', hfc, hnf]
  | some n =>
    cases op with
    | consume d =>
      simp only [clientStep] at hc
      split at hc
      · rename_i hd
        simp only [Option.some.injEq] at hc
        subst hc
        obtain ⟨w', e, i', r', f', p', _⟩ := consume_spec hi n hr d hd
        refine ⟨w', {}, by simp [step, e], ⟨i', r', ?_, ?_, ?_⟩, by simp [f', opFails]⟩
        · intro h
          have hnf : w.failed = false := by rw [← f']; exact h
          simp only [opWrites, List.append_nil, p' hnf, ← List.append_assoc, hs hnf]
        · simp only [opWrites, List.append_nil]
          exact List.IsPrefix.trans hp (List.prefix_append _ _)
        · simp [f', hfc]
      · simp at hc
    | reserve _ => simp [clientStep] at hc
    | write _ => simp [clientStep] at hc
    | net _ => simp [clientStep] at hc

theorem run_good (ops : List WOp) : ∀ {w : W} {rs rs' : Option Nat} {wr sent : Bytes} {fails : Nat},
    Good w rs wr sent fails → clientRun rs ops = some rs' → transportOK w ops →
    ∃ w' outs, run w ops = .ok (w', outs) ∧
      Good w' rs' (wr ++ writesOf ops) (sent ++ sentOf outs) (fails + failcbsOf outs) ∧
      w'.failed = (w.failed || hasFail ops) := by
  induction ops with
  | nil =>
    intro w rs rs' wr sent fails g hc _
    simp only [clientRun, Option.some.injEq] at hc
    subst hc
    exact ⟨w, [], rfl, by simpa [writesOf, sentOf, failcbsOf] using g, by simp [hasFail]⟩
  | cons op ops ih =>
    intro w rs rs' wr sent fails g hc ht
    simp only [clientRun] at hc
    split at hc
    · rename_i rs1 hcs
      obtain ⟨hf, hnext⟩ := ht
      obtain ⟨w1, o, e1, g1, f1⟩ := step_good g hcs hf
      obtain ⟨w2, outs, e2, g2, f2⟩ := ih g1 hc (hnext w1 o e1)
      refine ⟨w2, o :: outs, by simp [run, e1, e2], ?_, ?_⟩
      · rw [writesOf_cons]
        simp only [sentOf, failcbsOf]
        rw [← List.append_assoc, ← List.append_assoc, ← Nat.add_assoc]
        exact g2
      · rw [f2, f1, hasFail_cons, Bool.or_assoc]
    · simp at hc

/-- once failed: every allowed continuation sends nothing, calls nothing back and never has a
transport request outstanding -/
theorem run_failed (ops : List WOp) : ∀ {w : W} {rs rs' : Option Nat} {wr sent : Bytes} {fails : Nat},
    Good w rs wr sent fails → w.failed = true → clientRun rs ops = some rs' → transportOK w ops →
    ∃ w' outs, run w ops = .ok (w', outs) ∧ sentOf outs = [] ∧ failcbsOf outs = 0 ∧
      w'.failed = true ∧ w'.curr = none := by
  induction ops with
  | nil =>
    intro w rs rs' wr sent fails g hfl _ _
    exact ⟨w, [], rfl, rfl, rfl, hfl, g.inv.failedIdle hfl⟩
  | cons op ops ih =>
    intro w rs rs' wr sent fails g hfl hc ht
    simp only [clientRun] at hc
    split at hc
    · rename_i rs1 hcs
      obtain ⟨hf, hnext⟩ := ht
      obtain ⟨w1, o, e1, g1, f1⟩ := step_good g hcs hf
      have hfl1 : w1.failed = true := by rw [f1, hfl]; rfl
      -- a failed writer has no outstanding request, so `op` is a call, and calls send nothing
      have ho : o.sent = [] ∧ o.failcb = false := by
        cases op with
        | net ev =>
          obtain ⟨wb, hcur, _⟩ := hf
          rw [g.inv.failedIdle hfl] at hcur
          simp at hcur
        | reserve n =>
          simp only [step] at e1
          cases hres : reserve w n with
          | ok w' => rw [hres] at e1; simp at e1; simp [← e1.2]
          | _ => rw [hres] at e1; simp at e1
        | consume d =>
          simp only [step] at e1
          cases hres : consume w d with
          | ok w' => rw [hres] at e1; simp at e1; simp [← e1.2]
          | _ => rw [hres] at e1; simp at e1
        | write d =>
          simp only [step] at e1
          cases hres : write w d with
          | ok w' => rw [hres] at e1; simp at e1; simp [← e1.2]
          | _ => rw [hres] at e1; simp at e1
      obtain ⟨w2, outs, e2, s2, c2, f2, cur2⟩ := ih g1 hfl1 hc (hnext w1 o e1)
      exact ⟨w2, o :: outs, by simp [run, e1, e2], by simp [sentOf, ho.1, s2], by simp [failcbsOf, ho.2, c2], f2, cur2⟩
    · simp at hc

theorem run_append (o1 o2 : List WOp) : ∀ (w : W),
    run w (o1 ++ o2) = (do
      let (w1, outs1) ← run w o1
      let (w2, outs2) ← run w1 o2
      pure (w2, outs1 ++ outs2)) := by
  induction o1 with
  | nil =>
    intro w
    simp only [List.nil_append, run, Res.pure_eq, Res.ok_bind]
    cases run w o2 <;> rfl
  | cons op ops ih =>
    intro w
    simp only [List.cons_append, run]
    cases hs : step w op with
    | ok p =>
      obtain ⟨w1, o⟩ := p
      simp only [Res.ok_bind]
      rw [ih w1]
      cases run w1 ops with
      | ok p1 =>
        obtain ⟨w2, os⟩ := p1
        simp only [Res.ok_bind, Res.pure_eq]
        cases run w2 o2 with
        | ok p2 => simp
        | _ => rfl
      | _ => rfl
    | _ => rfl

theorem clientRun_append (o1 o2 : List WOp) : ∀ (s : Option Nat),
    clientRun s (o1 ++ o2) = (clientRun s o1).bind (fun s1 => clientRun s1 o2) := by
  induction o1 with
  | nil => intro s; rfl
  | cons op ops ih =>
    intro s
    simp only [List.cons_append, clientRun]
    cases clientStep s op with
    | none => rfl
    | some s' => exact ih s'

theorem transportOK_append (o1 o2 : List WOp) : ∀ (w : W), transportOK w (o1 ++ o2) →
    transportOK w o1 ∧ ∀ w1 outs1, run w o1 = .ok (w1, outs1) → transportOK w1 o2 := by
  induction o1 with
  | nil =>
    intro w h
    refine ⟨trivial, ?_⟩
    intro w1 outs1 e
    simp only [run, Res.pure_eq, Res.ok.injEq, Prod.mk.injEq] at e
    rw [← e.1]; exact h
  | cons op ops ih =>
    intro w h
    obtain ⟨hf, hnext⟩ := h
    refine ⟨⟨hf, fun w' o e => (ih w' (hnext w' o e)).1⟩, ?_⟩
    intro w1 outs1 e
    simp only [run] at e
    cases hs : step w op with
    | ok p =>
      obtain ⟨w', o⟩ := p
      rw [hs] at e
      simp only [Res.ok_bind] at e
      cases hr : run w' ops with
      | ok p1 =>
        obtain ⟨w'', os⟩ := p1
        rw [hr] at e
        simp only [Res.ok_bind, Res.pure_eq, Res.ok.injEq, Prod.mk.injEq] at e
        rw [← e.1]
        exact (ih w' (hnext w' o hs)).2 w'' os hr
      | _ => rw [hr] at e; simp at e
    | _ => rw [hs] at e; simp at e

theorem transportOK_of_b (ops : List WOp) : ∀ (w : W), transportOKb w ops = true → transportOK w ops := by
  induction ops with
  | nil => intro _ _; trivial
  | cons op ops ih =>
    intro w h
    simp only [transportOKb, Bool.and_eq_true] at h
    obtain ⟨hf, hn⟩ := h
    refine ⟨?_, ?_⟩
    · cases op with
      | net ev =>
        simp only [fitsb] at hf
        cases hc : w.curr with
        | none => rw [hc] at hf; simp at hf
        | some wb =>
          rw [hc] at hf
          refine ⟨wb, hc, ?_⟩
          cases ev <;> simpa using hf
      | _ => trivial
    · intro w' o e
      rw [e] at hn
      exact ih w' hn


/-- for concrete examples: the hypotheses of the property theorems from two evaluations -/
theorem hyps_of_eval {ops : List WOp} (h1 : (clientRun none ops).isSome = true)
    (h2 : transportOKb init ops = true) :
    (∃ rs, clientRun none ops = some rs) ∧ transportOK init ops :=
  ⟨Option.isSome_iff_exists.1 h1, transportOK_of_b _ _ h2⟩

end Percival.Proofs.NetbufWrite
