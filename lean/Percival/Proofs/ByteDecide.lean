/-! `decide` for statements quantified over one byte: `∀ c : UInt8, P c` is checked on the 256 values. -/
namespace Percival.Proofs

instance decidableForallUInt8 (P : UInt8 → Prop) [DecidablePred P] : Decidable (∀ c, P c) :=
  decidable_of_iff (∀ n : Fin 256, P (UInt8.ofNatLT n.val n.isLt))
    ⟨fun h c => by
        have := h ⟨c.toNat, c.toNat_lt⟩
        simpa using this,
     fun h n => h _⟩

end Percival.Proofs
