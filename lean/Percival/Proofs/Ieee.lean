import Percival.Proofs.IeeeNearest
/-! C16: `Model.Strtod.roundTo` / `toDouble` / `toBinary32` against `Spec/Ieee.lean`. -/
namespace Percival.Proofs.Ieee
open Percival.Model.Strtod Percival.Proofs.IeeeArith Percival.Spec.Ieee
open Ctx (resM resE)

theorem mul_den_eq_num (q : Rat) : q * (q.den : Rat) = (q.num : Rat) := by
  have h := Rat.num_divInt_den q
  rw [Rat.divInt_eq_div, Rat.intCast_natCast] at h
  have hd : (q.den : Rat) ≠ 0 := by
    intro h0; exact q.den_nz (Rat.natCast_eq_zero_iff.mp h0)
  calc q * (q.den : Rat) = (q.num : Rat) / (q.den : Rat) * (q.den : Rat) := by rw [h]
    _ = q.num := Rat.div_mul_cancel hd

/-- the formats for which the model is proved: at least two significant bits, a non-empty exponent range -/
structure Valid (f : Format) : Prop where
  p_ge : 2 ≤ f.p
  range : f.qmin ≤ f.qmax

theorem binary64_valid : Valid binary64 := ⟨by decide, by decide⟩
theorem binary32_valid : Valid binary32 := ⟨by decide, by decide⟩

/-- `roundTo` on a positive rational, in terms of the nearest multiple -/
theorem roundTo_pos (f : Format) (hv : Valid f) (neg : Bool) (q : Rat) (hq : 0 < q) :
    ∃ (e0 : Int) (mu m : Nat) (ix : Bool), Ctx f q e0 m ∧ NearestInt q (2 ^ e0) mu ∧
      (ix = true ↔ q ≠ m * 2 ^ clampE f e0) ∧
      roundTo f neg q =
        if f.qmax < resE f e0 m then (.inf neg, true, false)
        else (.fin neg (m * 2 ^ clampE f e0), false,
              ix && decide (e0 < f.qmin ∧ ¬ (e0 + 1 = f.qmin ∧ mu = 2 ^ f.p))) := by
  have hnum : 0 < q.num := by
    have := (Rat.num_nonneg (q := q)).mpr (Rat.le_of_lt hq)
    have h0 : q.num ≠ 0 := fun h => by rw [Rat.num_eq_zero] at h; rw [h] at hq; exact absurd hq (by decide)
    omega
  have hn : 0 < q.num.toNat := by omega
  have hqd : q * (q.den : Rat) = (q.num.toNat : Rat) := by
    rw [mul_den_eq_num, ← Rat.intCast_natCast, Int.toNat_of_nonneg (by omega)]
  obtain ⟨e0, mu, m, ix, n1, n2, hmu, hm, hix, hr⟩ :=
    roundPos_spec f (by have := hv.p_ge; omega) q.num.toNat q.den hn q.den_pos q hqd
  refine ⟨e0, mu, m, ix, ⟨hv.p_ge, n1, n2, hm⟩, hmu, hix, ?_⟩
  unfold roundTo
  rw [if_neg (by omega), hr]
  simp only
  have hval := Ctx.res_val (f := f) (e0 := e0) (m := m) (by have := hv.p_ge; omega)
  unfold resM resE at hval
  unfold resE
  rw [pow2_eq, hval]

/-! ### signs and zero -/

theorem finite_neg (f : Format) (x : Rat) : f.Finite (-x) ↔ f.Finite x := by
  unfold Format.Finite; rw [Rat.abs_neg]

theorem even_neg (f : Format) (x : Rat) : f.Even (-x) ↔ f.Even x := by
  unfold Format.Even; rw [Rat.abs_neg]

theorem abs_sub_neg (a b : Rat) : (-a - b).abs = (a - -b).abs := by
  rw [← Rat.abs_neg]; congr 1; grind

theorem isNearestEven_neg {f : Format} {x d : Rat} (h : IsNearestEven f x d) : IsNearestEven f (-x) (-d) := by
  obtain ⟨h1, h2, h3⟩ := h
  refine ⟨(finite_neg f d).mpr h1, ?_, ?_⟩
  · intro d' hd'
    have := h2 (-d') ((finite_neg f d').mpr hd')
    rw [abs_sub_neg, abs_sub_neg, Rat.neg_neg]
    exact this
  · intro d' hd' hne heq
    rw [even_neg]
    apply h3 (-d') ((finite_neg f d').mpr hd')
    · intro h; apply hne; rw [← h, Rat.neg_neg]
    · rw [abs_sub_neg, abs_sub_neg, Rat.neg_neg] at heq; exact heq

theorem isNearestEven_signed {f : Format} {x d : Rat} (neg : Bool) (h : IsNearestEven f x d) :
    IsNearestEven f (Fl.signed neg x) (Fl.signed neg d) := by
  cases neg
  · exact h
  · exact isNearestEven_neg h

theorem signed_abs (neg : Bool) {q : Rat} (hq : 0 ≤ q) : (Fl.signed neg q).abs = q := by
  cases neg
  · exact Rat.abs_of_nonneg hq
  · show (-q).abs = q; rw [Rat.abs_neg]; exact Rat.abs_of_nonneg hq

theorem finite_signed (f : Format) (neg : Bool) (x : Rat) : f.Finite (Fl.signed neg x) ↔ f.Finite x := by
  cases neg
  · exact Iff.rfl
  · exact finite_neg f x

theorem finite_zero (f : Format) (hv : Valid f) : f.Finite 0 :=
  ⟨0, f.qmin, Nat.two_pow_pos _, Int.le_refl _, hv.range, by simp [Rat.abs_zero]⟩

theorem abs_eq_zero {x : Rat} (h : x.abs = 0) : x = 0 := Rat.abs_eq_zero_iff.mp h

theorem isNearestEven_zero (f : Format) (hv : Valid f) : IsNearestEven f 0 0 := by
  refine ⟨finite_zero f hv, fun d' _ => ?_, fun d' _ hne heq => ?_⟩
  · rw [Rat.sub_self]; exact Rat.abs_nonneg
  · exfalso; apply hne
    rw [Rat.sub_self, Rat.abs_zero] at heq
    have := abs_eq_zero heq
    grind

theorem overflowAt_pos (f : Format) : 0 < f.overflowAt := by
  rw [overflowAt_eq]
  have h1 := one_le_p2 f.p
  exact Rat.mul_pos (by grind) (p2_pos _)

theorem tiny_lt_overflow (f : Format) (hv : Valid f) : f.tinyBelow < f.overflowAt := by
  rw [overflowAt_eq, tinyBelow_eq]
  have h1 := one_le_p2 f.p
  have h2 : (2 : Rat) ^ (f.qmin - 1) < 2 ^ f.qmax := p2_lt (by have := hv.range; omega)
  exact Rat.mul_lt_mul_of_pos_left h2 (by grind)

/-! ### the rounding theorem -/

/-- `roundTo` delivers the correctly rounded datum, its overflow flag is the overflow of the specification, and
    its underflow flag is "tiny and inexact" -/
theorem roundTo_spec (f : Format) (hv : Valid f) (neg : Bool) (q : Rat) (hq : 0 ≤ q) :
    RoundsTo f neg q (roundTo f neg q).1 ∧
    ((roundTo f neg q).2.1 = true ↔ f.Overflows (Fl.signed neg q)) ∧
    ((roundTo f neg q).2.2 = true ↔ ((Fl.signed neg q).abs < f.tinyBelow ∧ ¬ f.Finite (Fl.signed neg q))) := by
  unfold Format.Overflows
  rw [signed_abs neg hq, finite_signed]
  by_cases h0 : q = 0
  · subst h0
    have hr : roundTo f neg 0 = (.fin neg 0, false, false) := by unfold roundTo; simp
    rw [hr]
    have hp := overflowAt_pos f
    refine ⟨⟨rfl, Rat.le_refl, ?_, ?_⟩, ?_, ?_⟩
    · unfold Format.Overflows; rw [signed_abs neg Rat.le_refl]; exact Rat.not_le.mpr hp
    · have := isNearestEven_signed neg (isNearestEven_zero f hv); exact this
    · simp only [Bool.false_eq_true, false_iff]; exact Rat.not_le.mpr hp
    · simp only [Bool.false_eq_true, false_iff]; intro h; exact h.2 (finite_zero f hv)
  · have hpos : 0 < q := Rat.lt_of_le_of_ne hq (fun h => h0 h.symm)
    obtain ⟨e0, mu, m, ix, c, hmu, hix, hr⟩ := roundTo_pos f hv neg q hpos
    have hov := c.overflow_iff hv.range
    unfold Format.Overflows at hov
    rw [Rat.abs_of_nonneg hq] at hov
    have htiny := c.tiny_iff hmu
    rw [hr]
    by_cases ho : f.qmax < resE f e0 m
    · rw [if_pos ho]
      have hO := hov.mp ho
      refine ⟨⟨rfl, ?_⟩, ?_, ?_⟩
      · unfold Format.Overflows; rw [signed_abs neg hq]; exact hO
      · simp [hO]
      · simp only [Bool.false_eq_true, false_iff]
        intro h
        have := tiny_lt_overflow f hv
        grind
    · rw [if_neg ho]
      have hO : ¬ f.overflowAt ≤ q := fun h => ho (hov.mpr h)
      have hne := c.nearestEven (by omega)
      have hex := c.exact_iff (by omega)
      refine ⟨⟨rfl, Ctx.res_nonneg, ?_, isNearestEven_signed neg hne⟩, ?_, ?_⟩
      · unfold Format.Overflows; rw [signed_abs neg hq]; exact hO
      · simp [hO]
      · simp only [Bool.and_eq_true, decide_eq_true_eq]
        rw [hix, htiny, ← hex]
        exact ⟨fun h => ⟨h.2, h.1⟩, fun h => ⟨h.2, h.1⟩⟩

end Percival.Proofs.Ieee
