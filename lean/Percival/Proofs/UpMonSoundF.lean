import Percival.Proofs.UpMonSoundE
/-!
# C14, component `upstart` — part F: the length the harness believes reserved is available

`ResvOk s`: for every writer handle, if the writer is `reserved` then its last buffer has at least `resvOf s h`
bytes free — what `netbuf_write_consume` asserts (`consumeOk`) when the harness' own check `len ≤ resvOf s h` passes.
-/
namespace Percival.Proofs.UpMonSound
open Percival.Model Percival.Model.EvReg Percival.Model.AllocFail Percival.Model.UpStep
open Percival.Proofs.AllocFailUpper

def ResvOk (s : S) : Prop :=
  ∀ p ∈ s.nbw, ∀ x ∈ s.w.writers, x.id = p.2 → x.reserved = true →
    ∃ wb, x.queue.getLast? = some wb ∧ resvOf s p.1 ≤ wb.buflen - wb.datalen

/-- a writer that is `reserved` after a call was so before, or the call is the `netbuf_write_reserve` that
made room for it -/
theorem reserved_ev {t t' : Tables} {c0 : LOp} {rc : Rc} {o : Option Nat} (hev : Ev t c0 rc o t') :
    ∀ y ∈ t'.writers, y.reserved = true → y ∈ t.writers ∨
      (∃ x len, c0 = .nbwReserve x.id len ∧ rc = .ok ∧ x ∈ t.writers ∧ x.reserved = false ∧ y.id = x.id ∧
        ∃ wb, y.queue.getLast? = some wb ∧ len ≤ wb.buflen - wb.datalen) := by
  cases hev
  case nbwInit fd c x hid hfd hc hres hf =>
    intro y hy hr
    rcases List.mem_cons.1 hy with rfl | hy
    · rw [hres] at hr; cases hr
    · exact Or.inl hy
  case nbwReserve len x q hx hres hq =>
    show ∀ y ∈ updWriter t.writers { x with reserved := true, queue := q }, _
    unfold updWriter
    rw [forall_upd Writer.id (a' := { x with reserved := true, queue := q }) hx rfl]
    exact ⟨fun y hy _ _ => Or.inl hy, fun _ => Or.inr ⟨x, len, rfl, rfl, hx, hres, rfl, hq⟩⟩
  case nbwUpd len x x' hx hid hfd hres hc hc0 =>
    show ∀ y ∈ updWriter t.writers x', _
    unfold updWriter
    rw [forall_upd Writer.id hx hid]
    exact ⟨fun y hy _ _ => Or.inl hy, fun h => by rw [hres] at h; cases h⟩
  case nbwStart len x x' wb c hx hid hfd hres hc hc' hf hc0 =>
    show ∀ y ∈ updWriter t.writers x', _
    unfold updWriter
    rw [forall_upd Writer.id hx hid]
    exact ⟨fun y hy _ _ => Or.inl hy, fun h => by rw [hres] at h; cases h⟩
  case nbwFree x hx =>
    exact fun y hy _ => Or.inl (List.mem_filter.1 hy).1
  all_goals exact fun y hy _ => Or.inl hy

/-- what `book` does to the writer handles and the reserved lengths -/
theorem book_nbw (s : S) (op : UOp) (o : Option Nat) (ok : Bool) :
    ((book s op o ok).nbw = s.nbw ∧ (book s op o ok).nbwResv = s.nbwResv) ∨
    (∃ h sl c, op = .nbwInit h sl ∧ o = some c ∧ (book s op o ok).nbw = (h, c) :: s.nbw ∧
      (book s op o ok).nbwResv = s.nbwResv) ∨
    (∃ h len, op = .nbwReserve h len ∧ ok = true ∧ (book s op o ok).nbw = s.nbw ∧
      (book s op o ok).nbwResv = (h, len) :: UpStep.drop s.nbwResv h) ∨
    (∃ h, op = .rel .nbwFree h ∧ (book s op o ok).nbw = UpStep.drop s.nbw h ∧
      (book s op o ok).nbwResv = UpStep.drop s.nbwResv h) := by
  cases op with
  | nbwInit h sl =>
    cases o with
    | none => exact Or.inl ⟨rfl, rfl⟩
    | some c => exact Or.inr (Or.inl ⟨h, sl, c, rfl, rfl, rfl, rfl⟩)
  | nbwReserve h len =>
    cases ok with
    | false => exact Or.inl ⟨rfl, rfl⟩
    | true => exact Or.inr (Or.inr (Or.inl ⟨h, len, rfl, rfl, rfl, rfl⟩))
  | rel k h =>
    cases k
    case nbwFree => exact Or.inr (Or.inr (Or.inr ⟨h, rfl, rfl, rfl⟩))
    all_goals exact Or.inl ⟨rfl, rfl⟩
  | start k h sl => cases k <;> cases o <;> exact Or.inl ⟨rfl, rfl⟩
  | nbrInit h sl => cases o <;> exact Or.inl ⟨rfl, rfl⟩
  | ncStart h a t => cases o <;> exact Or.inl ⟨rfl, rfl⟩
  | hqStart h a pl => cases o <;> exact Or.inl ⟨rfl, rfl⟩
  | hqsStart h a pl hl => cases o <;> exact Or.inl ⟨rfl, rfl⟩
  | _ => exact Or.inl ⟨rfl, rfl⟩

theorem look_drop_ne (t : List (Nat × Nat)) {h h' : Nat} (hne : h' ≠ h) : look (UpStep.drop t h) h' = look t h' := by
  unfold look UpStep.drop
  congr 1
  induction t with
  | nil => rfl
  | cons p rest ih =>
    simp only [List.filter_cons]
    cases hb : (p.1 != h) with
    | false =>
      have hp : p.1 = h := by simpa using hb
      have hq : (p.1 == h') = false := by
        rw [hp]; simp only [beq_eq_false_iff_ne, ne_eq]; exact fun e => hne e.symm
      simp only [Bool.false_eq_true, if_false, List.find?_cons, hq, ih]
    | true =>
      simp only [if_true, List.find?_cons, ih]

theorem look_cons_self (t : List (Nat × Nat)) (h v : Nat) : look ((h, v) :: t) h = some v := by
  simp [look]

theorem look_cons_ne (t : List (Nat × Nat)) {h h' : Nat} (v : Nat) (hne : h' ≠ h) : look ((h, v) :: t) h' = look t h' := by
  have : ¬ h = h' := fun e => hne e.symm
  simp [look, this]

/-- only an `nbw_reserve` line stands for `netbuf_write_reserve` -/
theorem callOf_is_reserve {s : S} {op : UOp} {wid len : Nat} (hc : callOf s op = some (.nbwReserve wid len)) :
    ∃ h x, op = .nbwReserve h len ∧ obj s.nbw h = some wid ∧ s.w.writers.find? (·.id == wid) = some x ∧
      x.reserved = false := by
  cases op with
  | failat _ => cases hc
  | failfrom _ => cases hc
  | failoff => cases hc
  | end_ => cases hc
  | start k hh sl => obtain ⟨_, _, _, _, h⟩ := callOf_start hc; cases k <;> cases h
  | nbrInit hh sl => obtain ⟨_, _, _, h⟩ := callOf_nbrInit hc; cases h
  | nbwInit hh sl => obtain ⟨_, _, _, h⟩ := callOf_nbwInit hc; cases h
  | ncStart hh a tm => obtain ⟨_, _, h⟩ := callOf_ncStart hc; cases h
  | hqStart hh a pl => obtain ⟨_, _, h⟩ := callOf_hqStart hc; cases h
  | hqsStart hh a pl hl => obtain ⟨_, _, h⟩ := callOf_hqsStart hc; cases h
  | nbrWait hh l => obtain ⟨_, _, _, _, _, _, _, h⟩ := callOf_nbrWait hc; cases h
  | nbwReserve hh l =>
    obtain ⟨wid', x, h1, h2, h3, h⟩ := callOf_nbwReserve hc
    cases h
    exact ⟨hh, x, rfl, h1, h2, h3⟩
  | nbwConsume hh l => obtain ⟨_, _, _, _, _, _, _, h⟩ := callOf_nbwConsume hc; cases h
  | nbwWrite hh l => obtain ⟨_, _, _, _, _, _, h⟩ := callOf_nbwWrite hc; cases h
  | rel k hh => obtain ⟨c, _, h⟩ := callOf_rel hc; cases k <;> cases h

/-- `ResvOk` is kept by a call that was carried out -/
theorem resv_book (s : S) (op : UOp) (c0 : LOp) (H : HInv s) (hI : Inv s.w) (R : ResvOk s)
    (hc : callOf s op = some c0) (hnc : (stepR s.w c0).1 ≠ .contract) :
    ResvOk { book s op (call s.w c0).2.1 ((stepR s.w c0).1 == .ok) with w := (stepR s.w c0).2 } := by
  have hev := ev_stepR s.w c0 hI hnc
  have hfr := add_fresh hev
  have hre := reserved_ev hev
  have hndw : (s.w.writers.map (·.id)).Nodup := (nd_of_inv hI).2.2.2.2.2.1
  generalize (call s.w c0).2.1 = o at hev hfr hre ⊢
  generalize hok : ((stepR s.w c0).1 == .ok) = ok at ⊢
  intro p hp y hy hid hres
  change p ∈ (book s op o ok).nbw at hp
  change y ∈ (stepR s.w c0).2.writers at hy
  show ∃ wb, y.queue.getLast? = some wb ∧
    (match look (book s op o ok).nbwResv p.1 with | some n => n | none => 0) ≤ wb.buflen - wb.datalen
  have hold : ∀ q ∈ s.nbw, ∀ x ∈ s.w.writers, x.id = q.2 → x.reserved = true →
      ∃ wb, x.queue.getLast? = some wb ∧ (match look s.nbwResv q.1 with | some n => n | none => 0) ≤ wb.buflen - wb.datalen := R
  rcases hre y hy hres with hyold | ⟨x, len, rfl, hrc, hx, hxres, hyid, wb, hq, hlen⟩
  · -- the writer was there (and reserved) before
    rcases book_nbw s op o ok with ⟨e1, e2⟩ | ⟨h, sl, c, rfl, rfl, e1, e2⟩ | ⟨h, len, rfl, rfl, e1, e2⟩ | ⟨h, rfl, e1, e2⟩
    · rw [e1] at hp; rw [e2]; exact hold p hp y hyold hid hres
    · rw [e1] at hp; rw [e2]
      rcases List.mem_cons.1 hp with rfl | hp
      · obtain ⟨_, _, _, rfl⟩ := callOf_nbwInit hc
        exact absurd (List.mem_map.2 ⟨y, hyold, hid⟩) (hfr .nbw c rfl)
      · exact hold p hp y hyold hid hres
    · rw [e1] at hp; rw [e2]
      obtain ⟨wid, x, hobj, hf, hxres, rfl⟩ := callOf_nbwReserve hc
      obtain ⟨hxm, hxid⟩ := Run.find_key (fun x : Writer => x.id) hf
      by_cases hph : p.1 = h
      · exfalso
        have hpe : p = (h, wid) := pair_unique_fst (H.good .nbw).hnd hp (look_some (obj_some hobj).2) hph
        have : y = x := by
          have hs := (forall_split Writer.id hndw hxm (fun z => z.id = wid → z = x)).2
            ⟨fun z _ hne he => absurd (he.trans hxid.symm) hne, fun _ => rfl⟩
          exact hs y hyold (by rw [hid, hpe])
        rw [this, hxres] at hres; cases hres
      · rw [look_cons_ne _ _ hph, look_drop_ne _ hph]; exact hold p hp y hyold hid hres
    · rw [e1] at hp; rw [e2]
      have hp' := List.mem_filter.1 hp
      have hne : p.1 ≠ h := by simpa using hp'.2
      rw [look_drop_ne _ hne]; exact hold p hp'.1 y hyold hid hres
  · -- the call is the `netbuf_write_reserve` that made room
    obtain ⟨h, x', rfl, hobj, hf, _⟩ := callOf_is_reserve hc
    have hokt : ok = true := by rw [← hok, hrc]; rfl
    subst hokt
    have e1 : (book s (.nbwReserve h len) o true).nbw = s.nbw := rfl
    have e2 : (book s (.nbwReserve h len) o true).nbwResv = (h, len) :: UpStep.drop s.nbwResv h := rfl
    rw [e1] at hp; rw [e2]
    have hpe : p = (h, x.id) :=
      pair_unique_snd (H.good .nbw).ond hp (look_some (obj_some hobj).2) (by rw [← hid, hyid])
    rw [hpe, look_cons_self]
    exact ⟨wb, hq, hlen⟩

end Percival.Proofs.UpMonSound
