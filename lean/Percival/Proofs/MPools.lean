import Percival.Proofs.DsStep
/-!
# Several pools of one process (C12): interleaved runs project onto single-pool runs

A source file may instantiate `MPOOL` several times; the pools share nothing but the allocator.  `run` below is the
interleaved run of a family of pools (each operation names the pool it goes to) under one oracle `Mem`.

The allocator *is* shared: between two operations of a pool the other pools make requests, so the request counter
(which names new objects and indexes the oracle) and the ghost counters move.  A pool sees of this exactly `Ext`:
the same decision function, counters not decreased.  `RunI` is the single-pool run `MPool.run` in such an environment
(every step is `MPool.step`; before each step and at the end the environment may have used the allocator); with an idle
environment it is `MPool.run` (`runI_of_run`).

* `run_proj` — **projection**: for every pool `k`, the operations addressed to `k` with the answers they got in the
  interleaved run, and `k`'s final state, are a `RunI` of pool `k` alone from its initial state.
* `runI_refines` — `RunI` keeps the simulation relation `MPool.R` and its trace is admitted by "the set of objects in
  use" (the proof is `MPool.step_ok`, step by step): so `malloc` never hands out an object in use and NULL comes only
  with a refused request, in every pool of every interleaving (`run_refines`), and each pool's exit handler empties its
  cache and releases exactly what the pool holds (`run_exit`).
-/
namespace Percival.Proofs.MPools
open Percival.Model Percival.Model.MPool Percival.Spec.DS
open Percival.Proofs.DsStep (Ext R_transport mp_step_ext)

abbrev Pools := Nat → MP

def upd (ps : Pools) (k : Nat) (p : MP) : Pools := fun j => if j = k then p else ps j

/-- the interleaved run of the pools `ps` under one allocator: `(k, op)` is `op` on pool `k` -/
def run (sz : Nat) (ps : Pools) : List (Nat × MpOp) → Mem → List (Nat × MpOp × MpAns) × Pools × Mem
  | [], m => ([], ps, m)
  | (k, op) :: rest, m =>
    ((k, op, (step sz (ps k) op m).1) :: (run sz (upd ps k (step sz (ps k) op m).2.1) rest (step sz (ps k) op m).2.2).1,
     (run sz (upd ps k (step sz (ps k) op m).2.1) rest (step sz (ps k) op m).2.2).2)

/-- the operations of pool `k` and their answers -/
def proj (k : Nat) (tr : List (Nat × MpOp × MpAns)) : List (MpOp × MpAns) :=
  tr.filterMap fun x => if x.1 = k then some x.2 else none

/-- the single-pool run in an environment that also uses the allocator -/
inductive RunI (sz : Nat) : MP → Mem → List (MpOp × MpAns) → MP → Mem → Prop
  | done {p : MP} {m m' : Mem} : Ext m m' → RunI sz p m [] p m'
  | step {p : MP} {m m1 : Mem} {op : MpOp} {tr : List (MpOp × MpAns)} {p'' : MP} {m'' : Mem} :
      Ext m m1 → RunI sz (MPool.step sz p op m1).2.1 (MPool.step sz p op m1).2.2 tr p'' m'' →
      RunI sz p m ((op, (MPool.step sz p op m1).1) :: tr) p'' m''

theorem RunI.weaken {sz : Nat} {p p' : MP} {m0 m m' : Mem} {tr : List (MpOp × MpAns)} (e : Ext m0 m)
    (h : RunI sz p m tr p' m') : RunI sz p m0 tr p' m' := by
  cases h with
  | done e' => exact .done (e.trans e')
  | step e' h' => exact .step (e.trans e') h'

/-- with an idle environment `RunI` is `MPool.run` -/
theorem runI_of_run (sz : Nat) : ∀ (ops : List MpOp) (p : MP) (m : Mem),
    RunI sz p m (MPool.run sz p ops m).1 (MPool.run sz p ops m).2.1 (MPool.run sz p ops m).2.2
  | [], _, m => .done (Ext.refl m)
  | op :: rest, p, m => by
    have ih := runI_of_run sz rest (MPool.step sz p op m).2.1 (MPool.step sz p op m).2.2
    simp only [MPool.run]
    exact .step (Ext.refl m) ih

/-- **projection**: in an interleaved run, pool `k` makes a single-pool run of its own operations -/
theorem run_proj (sz : Nat) (k : Nat) : ∀ (ops : List (Nat × MpOp)) (ps : Pools) (m : Mem),
    RunI sz (ps k) m (proj k (run sz ps ops m).1) ((run sz ps ops m).2.1 k) (run sz ps ops m).2.2
  | [], _, m => .done (Ext.refl m)
  | (j, op) :: rest, ps, m => by
    have ih := run_proj sz k rest (upd ps j (step sz (ps j) op m).2.1) (step sz (ps j) op m).2.2
    simp only [run, proj, List.filterMap_cons]
    by_cases hj : j = k
    · subst hj
      simp only [if_true]
      simp only [upd, if_true] at ih
      exact .step (Ext.refl m) ih
    · simp only [hj, if_false]
      have hk : upd ps j (step sz (ps j) op m).2.1 k = ps k := by
        simp only [upd]; rw [if_neg (fun h => hj h.symm)]
      rw [hk] at ih
      exact RunI.weaken (mp_step_ext sz (ps j) op m) ih

/-- a pool the operations never name is left alone -/
theorem run_frame (sz : Nat) (k : Nat) : ∀ (ops : List (Nat × MpOp)) (ps : Pools) (m : Mem),
    (∀ x ∈ ops, x.1 ≠ k) → (run sz ps ops m).2.1 k = ps k
  | [], _, _, _ => rfl
  | (j, op) :: rest, ps, m, h => by
    have hj : j ≠ k := h (j, op) List.mem_cons_self
    simp only [run]
    rw [run_frame sz k rest _ _ (fun x hx => h x (List.mem_cons_of_mem _ hx))]
    simp only [upd]; rw [if_neg (fun e => hj e.symm)]

/-- the caller's contract along a trace: only objects held are freed -/
def Held : List Nat → List (MpOp × MpAns) → Prop
  | _, [] => True
  | u, (op, an) :: rest =>
    (match op with | .free x => x ∈ u | .malloc => True) ∧ ∀ u', mpAdmit u op an = some u' → Held u' rest

/-- **a single-pool run in an environment refines "the set of objects in use"** and keeps `MPool.R` (with the
environment's blocks as part of the base) -/
theorem runI_refines {sz : Nat} {p p' : MP} {m m' : Mem} {tr : List (MpOp × MpAns)} (h : RunI sz p m tr p' m') :
    ∀ (u : List Nat) (base : Int), MPool.R p m u base → Held u tr →
    ∃ u' base', mpAdmitAll u tr = some u' ∧ MPool.R p' m' u' base' := by
  induction h with
  | @done p m m' e =>
    intro u base hR _
    exact ⟨u, base + (m'.live - m.live), rfl, R_transport hR e (by omega)⟩
  | @step p m m1 op tr p'' m'' e _ ih =>
    intro u base hR hH
    have hR1 : MPool.R p m1 u (base + (m1.live - m.live)) := R_transport hR e (by omega)
    obtain ⟨u1, ha, hR2⟩ := MPool.step_ok sz p op m1 u _ hR1 hH.1
    obtain ⟨u', b', ha', hR'⟩ := ih u1 _ hR2 (hH.2 u1 ha)
    exact ⟨u', b', by simp only [mpAdmitAll, ha]; exact ha', hR'⟩

/-- **every pool of every interleaving**: from pools in their load-time state (any cache sizes), the answers pool `k`
gave are admitted by `k`'s own set of objects in use — `malloc` never returns an object that is still in use — and `k`
ends in a state satisfying `R` -/
theorem run_refines (sz : Nat) (sizes : Nat → Nat) (k : Nat) (ops : List (Nat × MpOp)) (m : Mem)
    (hH : Held [] (proj k (run sz (fun j => MPool.init (sizes j)) ops m).1)) :
    ∃ u' base', mpAdmitAll [] (proj k (run sz (fun j => MPool.init (sizes j)) ops m).1) = some u' ∧
      MPool.R ((run sz (fun j => MPool.init (sizes j)) ops m).2.1 k) (run sz (fun j => MPool.init (sizes j)) ops m).2.2
        u' base' :=
  runI_refines (run_proj sz k ops (fun j => MPool.init (sizes j)) m) [] m.live (MPool.init_R (sizes k) m) hH

/-- … and at exit pool `k`'s handler leaves nothing cached: the cache is empty and what stays allocated of the pool
is exactly its objects in use -/
theorem run_exit (sz : Nat) (sizes : Nat → Nat) (k : Nat) (ops : List (Nat × MpOp)) (m : Mem)
    (hH : Held [] (proj k (run sz (fun j => MPool.init (sizes j)) ops m).1)) :
    ∃ u' base', mpAdmitAll [] (proj k (run sz (fun j => MPool.init (sizes j)) ops m).1) = some u' ∧
      (MPool.atexit ((run sz (fun j => MPool.init (sizes j)) ops m).2.1 k)
        (run sz (fun j => MPool.init (sizes j)) ops m).2.2).1.stack = [] ∧
      (MPool.atexit ((run sz (fun j => MPool.init (sizes j)) ops m).2.1 k)
        (run sz (fun j => MPool.init (sizes j)) ops m).2.2).2.live = base' + u'.length := by
  obtain ⟨u', b', ha, hR⟩ := run_refines sz sizes k ops m hH
  have he := MPool.atexit_spec _ _ u' b' hR
  exact ⟨u', b', ha, he.1, he.2.2⟩

end Percival.Proofs.MPools
