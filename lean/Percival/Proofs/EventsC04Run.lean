import Percival.Proofs.EventsC04Tm
/-!
# C04: every trace of the model is accepted by the C04 monitor (helper lemmas for `run_admissible_C04`)
-/
set_option linter.unusedSimpArgs false
namespace Percival.Proofs.EventsC04
open Percival.Spec.Events Percival.Spec.Events.C04 Percival.Model.Events Percival.Model
open Percival.Proofs.EventsNet Percival.Proofs.EventsImm Percival.Proofs.EventsLive Percival.Proofs.EventsTQ

/-! ## the run: every trace the model produces is accepted by the C04 monitor -/

theorem run_append (m : M) (t1 t2 : Trace) :
    C04.run m (t1 ++ t2) = (C04.run m t1).bind (fun m' => C04.run m' t2) := by
  induction t1 generalizing m with
  | nil => rfl
  | cons e es ih =>
    simp only [List.cons_append, C04.run]
    cases hs : C04.step m e with
    | error err => rfl
    | ok m' => simp only [bind, Except.bind]; exact ih m'

theorem run_snoc (m0 m : M) (tr : List Ev) (e : Ev) (h : C04.run m0 tr.reverse = .ok m) :
    C04.run m0 (e :: tr).reverse = C04.step m e := by
  rw [List.reverse_cons, run_append, h]
  simp only [Except.bind, C04.run]
  cases C04.step m e <;> rfl

/-- the trace so far is accepted -/
def Adm (s : State) : Prop := ∃ m, C04.run {} s.trace.reverse = .ok m

/-- accepted so far, and the monitor's state is related to the model's -/
def Good (C : TQContract) (s : State) : Prop :=
  s.fault = false ∧ ∃ m, C04.run {} s.trace.reverse = .ok m ∧ Rel C m s

/-- either `Good`, or the model stopped (out of fuel) with an accepted trace -/
def Weak (C : TQContract) (s : State) : Prop := Good C s ∨ (s.fault = true ∧ Adm s)

theorem Good.adm {C : TQContract} {s : State} (h : Good C s) : Adm s := by
  obtain ⟨_, m, hm, _⟩ := h; exact ⟨m, hm⟩

theorem Weak.adm {C : TQContract} {s : State} (h : Weak C s) : Adm s := by
  rcases h with h | h
  · exact h.adm
  · exact h.2

theorem rel_of_eq {C : TQContract} {m : M} {s s' : State} (r : Rel C m s)
    (h1 : s'.net = s.net) (h2 : s'.imm = s.imm) (h3 : s'.tq = s.tq) (h4 : s'.timers = s.timers)
    (h5 : s'.nextRec = s.nextRec) (h6 : s'.clock = s.clock) : Rel C m s' := by
  refine ⟨r.keys, by rw [h6]; exact r.clock, by rw [h2]; exact r.imm, by rw [h1]; exact r.net, ?_⟩
  rw [h3, h4, h5]; exact r.tm

/-- events the C04 monitor ignores -/
def Ignored (e : Ev) : Prop := ∀ m : M, C04.step m e = .ok m

theorem ignored_skip (o : Op) (hc : ∀ us, o ≠ .clock us) : Ignored (.op o .skip) := by
  intro m; cases o <;> first | rfl | (exact absurd rfl (hc _))

theorem ignored_eexist (id fd : Nat) (d : Dir) : Ignored (.op (.regNet id fd d) .eexist) := fun _ => rfl
theorem ignored_enoent (fd : Nat) (d : Dir) : Ignored (.op (.cancelNet fd d) .enoent) := fun _ => rfl
theorem ignored_int (r : Res) : Ignored (.op .interrupt r) := fun _ => by cases r <;> rfl
theorem ignored_done (r : Res) : Ignored (.op .done r) := fun _ => by cases r <;> rfl
theorem ignored_runBegin : Ignored .runBegin := fun _ => rfl
theorem ignored_cbEnd (rc : Int) : Ignored (.cbEnd rc) := fun _ => rfl
theorem ignored_ret (rc : Int) : Ignored (.ret rc) := fun _ => rfl
theorem ignored_spinBegin : Ignored .spinBegin := fun _ => rfl
theorem ignored_spinRet (rc : Int) : Ignored (.spinRet rc) := fun _ => rfl
theorem ignored_fault : Ignored .fault := fun _ => rfl

theorem adm_emit {s s' : State} (h : Adm s) (e : Ev) (he : Ignored e) (ht : s'.trace = e :: s.trace) : Adm s' := by
  obtain ⟨m, hm⟩ := h
  exact ⟨m, by rw [ht, run_snoc _ m _ _ hm, he m]⟩

/-- one accepted event: from any related monitor state the monitor accepts `e` and stays related -/
theorem good_step {C : TQContract} {s s' : State} (hg : Good C s) (e : Ev) (hf : s'.fault = false)
    (ht : s'.trace = e :: s.trace)
    (h : ∀ m, Rel C m s → ∃ m', C04.step m e = .ok m' ∧ Rel C m' s') : Good C s' := by
  obtain ⟨_, m, hm, hr⟩ := hg
  obtain ⟨m', hs, hr'⟩ := h m hr
  exact ⟨hf, m', by rw [ht, run_snoc _ m _ _ hm, hs], hr'⟩

theorem good_ignored {C : TQContract} {s s' : State} (hg : Good C s) (e : Ev) (he : Ignored e) (hf : s'.fault = false)
    (ht : s'.trace = e :: s.trace)
    (h1 : s'.net = s.net) (h2 : s'.imm = s.imm) (h3 : s'.tq = s.tq) (h4 : s'.timers = s.timers)
    (h5 : s'.nextRec = s.nextRec) (h6 : s'.clock = s.clock) : Good C s' :=
  good_step hg e hf ht (fun m r => ⟨m, he m, rel_of_eq r h1 h2 h3 h4 h5 h6⟩)

theorem weak_ignored {C : TQContract} {s s' : State} (hw : Weak C s) (e : Ev) (he : Ignored e) (hf : s'.fault = s.fault)
    (ht : s'.trace = e :: s.trace)
    (h1 : s'.net = s.net) (h2 : s'.imm = s.imm) (h3 : s'.tq = s.tq) (h4 : s'.timers = s.timers)
    (h5 : s'.nextRec = s.nextRec) (h6 : s'.clock = s.clock) : Weak C s' := by
  rcases hw with hg | ⟨hfl, ha⟩
  · exact Or.inl (good_ignored hg e he (by rw [hf]; exact hg.1) ht h1 h2 h3 h4 h5 h6)
  · exact Or.inr ⟨by rw [hf]; exact hfl, adm_emit ha e he ht⟩

theorem weak_faulted {s : State} (C : TQContract) (h : Adm s) : Weak C (faulted s) :=
  Or.inr ⟨rfl, adm_emit h .fault ignored_fault rfl⟩


/-- the rest of the relation when registration `id` (an immediate) leaves the table -/
theorem rel_remove_imm {C : TQContract} {m : M} {s : State} (r : Rel C m s) (id p : Nat) (l : List C05.Imm) (q' : Imm)
    (_hq : RQ s.imm l) (hnd : IdsNodup l) (hiff : ∀ id p, lookup m.live id = some (.imm p) ↔ (⟨id, p⟩ : C05.Imm) ∈ l)
    (hm : (⟨id, p⟩ : C05.Imm) ∈ l) (hq' : RQ q' (l.filter (fun i => i.id != id))) :
    Rel C { m with live := remove m.live id } { s with imm := q' } := by
  have hlive : lookup m.live id = some (.imm p) := (hiff id p).mpr hm
  refine ⟨keys_remove _ _ r.keys, r.clock, ?_, ?_, ?_⟩
  · refine ⟨_, hq', filter_idsNodup hnd id, ?_⟩
    intro id' p'
    rw [lookup_remove_iff, hiff, List.mem_filter]
    simp only [bne_iff_ne, ne_eq, and_comm]
  · apply RNet.congr _ r.net
    intro id' fd d rs
    rw [lookup_remove_iff]
    constructor
    · exact fun h => h.2
    · intro h; refine ⟨?_, h⟩
      intro hc; subst hc; rw [hlive] at h; cases h
  · apply RTm.congr _ r.tm
    intro id' us dl
    rw [lookup_remove_iff]
    constructor
    · exact fun h => h.2
    · intro h; refine ⟨?_, h⟩
      intro hc; subst hc; rw [hlive] at h; cases h

theorem applyOp_fault (s : State) (o : Op) (h : s.fault = true) : applyOp s o = s := by
  unfold applyOp; simp [h]

theorem applyOp_good (C : TQContract) (s : State) (o : Op) (hg : Good C s) : Good C (applyOp s o) := by
  have hf := hg.1
  obtain ⟨_, m, hm, hr⟩ := hg
  have hg : Good C s := ⟨hf, m, hm, hr⟩
  unfold applyOp
  simp only [hf, Bool.false_eq_true, if_false]
  cases o with
  | regImm id prio =>
    simp only
    by_cases hc : (isLive s id || decide (prio ≥ 32)) = true
    · simp only [hc, if_true]
      exact good_ignored hg _ (ignored_skip _ (by intro us h; cases h)) (by first | rfl | exact hf) rfl rfl rfl rfl rfl rfl rfl
    · have hc' : (isLive s id || decide (prio ≥ 32)) = false := by simpa using hc
      simp only [hc', Bool.false_eq_true, if_false]
      simp only [Bool.or_eq_true, decide_eq_true_eq, not_or, Bool.not_eq_true] at hc
      obtain ⟨q', heq, hr'⟩ := rel_regImm hr id prio hc.1 (by omega)
      simp only [heq]
      exact ⟨by first | rfl | exact hf, _, by show C04.run {} (_ :: s.trace).reverse = _; rw [run_snoc _ m _ _ hm]; rfl,
        rel_of_eq hr' rfl rfl rfl rfl rfl rfl⟩
  | cancelImm id =>
    simp only
    cases hp : immPrioOf s.imm id with
    | none =>
      exact good_ignored hg _ (ignored_skip _ (by intro us h; cases h)) (by first | rfl | exact hf) rfl rfl rfl rfl rfl rfl rfl
    | some p =>
      obtain ⟨q', heq, hr'⟩ := rel_cancelImm hr id p hp
      simp only [heq]
      exact ⟨by first | rfl | exact hf, _, by show C04.run {} (_ :: s.trace).reverse = _; rw [run_snoc _ m _ _ hm]; rfl,
        rel_of_eq hr' rfl rfl rfl rfl rfl rfl⟩
  | regNet id fd d =>
    simp only
    by_cases hc : isLive s id = true
    · simp only [hc, if_true]
      exact good_ignored hg _ (ignored_skip _ (by intro us h; cases h)) (by first | rfl | exact hf) rfl rfl rfl rfl rfl rfl rfl
    · simp only [hc, Bool.false_eq_true, if_false]
      have hl : isLive s id = false := by simpa using hc
      rcases netRegister_spec s.net id fd d hr.net.inv with ⟨id0, _, heq⟩ | ⟨hfree, n', heq, hinv, _, hslot, hent, hrev, _⟩
      · simp only [heq]
        exact good_ignored hg _ (ignored_eexist id fd d) (by first | rfl | exact hf) rfl rfl rfl rfl rfl rfl rfl
      · simp only [heq]
        have hr' := rel_regNet_ok hr id fd d n' hl hfree hinv hslot hent hrev
        exact ⟨by first | rfl | exact hf, _, by show C04.run {} (_ :: s.trace).reverse = _; rw [run_snoc _ m _ _ hm]; rfl,
          rel_of_eq hr' rfl rfl rfl rfl rfl rfl⟩
  | cancelNet fd d =>
    simp only
    rcases netCancel_spec s.net fd d hr.net.inv with ⟨_, heq⟩ | ⟨id, n', hs, heq, hinv, _, hslot, hent⟩
    · simp only [heq]
      exact good_ignored hg _ (ignored_enoent fd d) (by first | rfl | exact hf) rfl rfl rfl rfl rfl rfl rfl
    · simp only [heq]
      have hr' := rel_cancelNet_ok hr id fd d n' hs hinv hslot hent
      exact ⟨by first | rfl | exact hf, _, by show C04.run {} (_ :: s.trace).reverse = _; rw [run_snoc _ m _ _ hm]; rfl,
        rel_of_eq hr' rfl rfl rfl rfl rfl rfl⟩
  | regTimer id usec =>
    simp only
    by_cases hc : isLive s id = true
    · simp only [hc, if_true]
      exact good_ignored hg _ (ignored_skip _ (by intro us h; cases h)) (by first | rfl | exact hf) rfl rfl rfl rfl rfl rfl rfl
    · simp only [hc, Bool.false_eq_true, if_false]
      have hl : isLive s id = false := by simpa using hc
      cases hgt : gettimeout s.clock ((usec / 1000000 : Nat) : Int) ((usec % 1000000 : Nat) : Int) with
      | mk sec us =>
        simp only
        have hr' := rel_regTimer hr id usec sec us hl hgt
        exact ⟨by first | rfl | exact hf, _, by show C04.run {} (_ :: s.trace).reverse = _; rw [run_snoc _ m _ _ hm]; rfl,
          rel_of_eq hr' rfl rfl rfl rfl rfl rfl⟩
  | cancelTimer id =>
    simp only
    cases ht : timerOf s id with
    | none =>
      exact good_ignored hg _ (ignored_skip _ (by intro us h; cases h)) (by first | rfl | exact hf) rfl rfl rfl rfl rfl rfl rfl
    | some t =>
      obtain ⟨q', heq, hr'⟩ := rel_cancelTimer hr id t ht
      simp only [heq]
      exact ⟨by first | rfl | exact hf, _, by show C04.run {} (_ :: s.trace).reverse = _; rw [run_snoc _ m _ _ hm]; rfl,
        rel_of_eq hr' rfl rfl rfl rfl rfl rfl⟩
  | resetTimer id =>
    simp only
    cases ht : timerOf s id with
    | none =>
      exact good_ignored hg _ (ignored_skip _ (by intro us h; cases h)) (by first | rfl | exact hf) rfl rfl rfl rfl rfl rfl rfl
    | some t =>
      cases hgt : gettimeout s.clock t.osec t.ousec with
      | mk sec us =>
        obtain ⟨q', us0, dl0, heq, hl, hr'⟩ := rel_resetTimer hr id t sec us ht hgt
        simp only [hgt, heq]
        refine ⟨by first | rfl | exact hf, _, ?_, rel_of_eq hr' rfl rfl rfl rfl rfl rfl⟩
        show C04.run {} (_ :: s.trace).reverse = _
        rw [run_snoc _ m _ _ hm]
        simp only [C04.step, hl]
        rfl
  | interrupt =>
    exact good_ignored hg _ (ignored_int _) (by first | rfl | exact hf) rfl rfl rfl rfl rfl rfl rfl
  | clock us =>
    have hr' := rel_clock hr us
    exact ⟨by first | rfl | exact hf, _, by show C04.run {} (_ :: s.trace).reverse = _; rw [run_snoc _ m _ _ hm]; rfl,
      rel_of_eq hr' rfl rfl rfl rfl rfl rfl⟩
  | done =>
    exact good_ignored hg _ (ignored_done _) (by first | rfl | exact hf) rfl rfl rfl rfl rfl rfl rfl


theorem foldl_good (C : TQContract) : ∀ (ops : List Op) (s : State), Good C s → Good C (ops.foldl applyOp s) := by
  intro ops
  induction ops with
  | nil => intro s h; exact h
  | cons o os ih => intro s h; exact ih _ (applyOp_good C s o h)

/-- the record of registration `id` has just been taken out of the model's state `s`; the monitor
    (in the state reached by the trace so far) accepts its invocation -/
def Fireable (C : TQContract) (s : State) (id : Nat) : Prop :=
  s.fault = false ∧ ∃ m m', C04.run {} s.trace.reverse = .ok m ∧ C04.step m (.cb id) = .ok m' ∧ Rel C m' s

theorem Fireable.adm {C : TQContract} {s : State} {id : Nat} (h : Fireable C s id) : Adm s := by
  obtain ⟨_, m, _, hm, _⟩ := h; exact ⟨m, hm⟩

theorem doevent_good (C : TQContract) (s : State) (id : Nat) (h : Fireable C s id) : Good C (doevent s id).1 := by
  obtain ⟨hf, m, m', hm, hs, hr⟩ := h
  have h1 : Good C (emit { s with cbcount := s.cbcount + 1 } (.cb id)) :=
    ⟨hf, m', by show C04.run {} (_ :: s.trace).reverse = _; rw [run_snoc _ m _ _ hm, hs],
      rel_of_eq hr rfl rfl rfl rfl rfl rfl⟩
  unfold doevent
  simp only
  split
  · exact good_ignored h1 _ (ignored_cbEnd 98) h1.1 rfl rfl rfl rfl rfl rfl rfl
  · have h2 := foldl_good C (scriptOf (emit { s with cbcount := s.cbcount + 1 } (.cb id)) id).ops _ h1
    exact good_ignored h2 _ (ignored_cbEnd _) h2.1 rfl rfl rfl rfl rfl rfl rfl

/-! ### the three `get`s -/

theorem immGetS_good (C : TQContract) (s : State) (h : Good C s) :
    (immGetS s).1.trace = s.trace ∧
    match (immGetS s).2 with
    | none => Good C (immGetS s).1
    | some id => Fireable C (immGetS s).1 id := by
  obtain ⟨hf, m, hm, hr⟩ := h
  obtain ⟨l, hq, hnd, hiff⟩ := hr.imm
  unfold immGetS
  simp only
  refine ⟨trivial, ?_⟩
  rcases immGet_rq s.imm l hq with ⟨hl, hnone, hq'⟩ | ⟨j, hn, hsome, hq'⟩
  · rw [hnone]
    simp only
    refine ⟨hf, m, hm, ⟨hr.keys, hr.clock, ⟨[], hq', by simp [IdsNodup], ?_⟩, hr.net, hr.tm⟩⟩
    subst hl; exact hiff
  · rw [hsome]
    simp only
    obtain ⟨hj, _, _⟩ := nextImm_spec l j hn
    have hlive : lookup m.live j.id = some (.imm j.prio) := (hiff j.id j.prio).mpr hj
    rw [erase_eq_filter_id hnd hj] at hq'
    refine ⟨hf, m, { m with live := remove m.live j.id }, hm, ?_, ?_⟩
    · simp only [C04.step, hlive]; rfl
    · exact rel_of_eq (rel_remove_imm hr j.id j.prio l _ hq hnd hiff hj hq') rfl rfl rfl rfl rfl rfl

theorem netGetS_good (C : TQContract) (s : State) (h : Good C s) :
    (netGetS s).1.trace = s.trace ∧
    match (netGetS s).2 with
    | none => Good C (netGetS s).1
    | some id => Fireable C (netGetS s).1 id := by
  obtain ⟨hf, m, hm, hr⟩ := h
  unfold netGetS
  obtain ⟨n', hres⟩ := netGet_spec s.net hr.net.inv
  rcases hres with ⟨heq, hinv, hx, _⟩ | ⟨id, n1, p, heq, hfound, hinv⟩
  · simp only [heq]
    exact ⟨trivial, hf, m, hm, rel_of_eq (rel_net_expanded hr n' hx hinv) rfl rfl rfl rfl rfl rfl⟩
  · simp only [heq]
    obtain ⟨m', hs, hr'⟩ := rel_netGet_found hr n1 n' p id hfound hinv
    exact ⟨trivial, hf, m, m', hm, hs, rel_of_eq hr' rfl rfl rfl rfl rfl rfl⟩

theorem timerGet_good (C : TQContract) (s : State) (h : Good C s) :
    (timerGet s).1.trace = s.trace ∧
    match (timerGet s).2 with
    | none => Good C (timerGet s).1
    | some id => Fireable C (timerGet s).1 id := by
  obtain ⟨hf, m, hm, hr⟩ := h
  unfold timerGet
  cases hg : TimerQueue.getptr s.tq ((s.clock / 1000000 : Nat) : Int) ((s.clock % 1000000 : Nat) : Int) with
  | mk q' res =>
    cases res with
    | none => simp only; exact ⟨trivial, hf, m, hm, hr⟩
    | some rp =>
      obtain ⟨rr, id⟩ := rp
      simp only
      obtain ⟨m', hs, hr'⟩ := rel_timerGet_some hr q' rr id hg
      exact ⟨trivial, hf, m, m', hm, hs, rel_of_eq hr' rfl rfl rfl rfl rfl rfl⟩


/-! ### poll and events_network_select -/

/-- `Good` once `fdscanpos` has been reset (between poll's return and the end of `events_network_select`) -/
def GoodPre (C : TQContract) (s : State) : Prop :=
  Good C { s with net := { s.net with scan := topScan s.net } }

theorem good_rescan {C : TQContract} {s : State} (h : Good C s) : GoodPre C s := by
  obtain ⟨hf, m, hm, hr⟩ := h
  exact ⟨hf, m, hm, rel_of_eq (rel_rescan hr) rfl rfl rfl rfl rfl rfl⟩

theorem answer_good (C : TQContract) (s : State) (timeout : Int) (adv : Nat) (a : List (Nat × Bits)) (rest : List PollAns)
    (h : Good C s) : GoodPre C (pollLoop.answer s timeout adv a rest) := by
  obtain ⟨hf, m, hm, hr⟩ := h
  unfold pollLoop.answer
  simp only
  split
  · -- stuck
    refine ⟨hf, { m with clock := m.clock + adv }, ?_, ?_⟩
    · show C04.run {} (_ :: s.trace).reverse = _
      rw [run_snoc _ m _ _ hm]; rfl
    · exact rel_of_eq (rel_rescan (rel_clock hr adv)) rfl rfl rfl rfl rfl rfl
  · refine ⟨hf, _, ?_, rel_of_eq (rel_poll_ok hr a _) rfl rfl rfl rfl rfl rfl⟩
    show C04.run {} (_ :: s.trace).reverse = _
    rw [run_snoc _ m _ _ hm]; rfl

theorem pollLoop_good (C : TQContract) (wait : Option ((Int × Int) × Nat)) : ∀ (q : List PollAns) (timeout : Int) (s : State),
    Good C s → GoodPre C (pollLoop s wait timeout q) := by
  intro q
  induction q with
  | nil => intro timeout s h; unfold pollLoop; exact answer_good C s timeout 0 [] [] h
  | cons x rest ih =>
    intro timeout s h
    cases x with
    | ans adv a => unfold pollLoop; exact answer_good C s timeout adv a rest h
    | eintr adv =>
      unfold pollLoop
      simp only
      obtain ⟨hf, m, hm, hr⟩ := h
      have h1 : Good C (emit { s with clock := s.clock + adv, pollq := rest }
          (.poll timeout adv (pollEntries s.net.fds (fun _ => {})) .eintr)) := by
        refine ⟨hf, { m with clock := m.clock + adv }, ?_, rel_of_eq (rel_clock hr adv) rfl rfl rfl rfl rfl rfl⟩
        show C04.run {} (_ :: s.trace).reverse = _
        rw [run_snoc _ m _ _ hm]; rfl
      split
      · exact good_rescan h1
      · exact ih _ _ h1
    | intr adv =>
      -- a signal handler calls events_interrupt() during this poll: for C04 only the clock moves
      unfold pollLoop
      obtain ⟨hf, m, hm, hr⟩ := h
      refine ⟨hf, { m with clock := m.clock + adv }, ?_, ?_⟩
      · show C04.run {} (_ :: s.trace).reverse = _
        rw [run_snoc _ m _ _ hm]; rfl
      · exact rel_of_eq (rel_rescan (rel_clock hr adv)) rfl rfl rfl rfl rfl rfl

theorem netSelect_good (C : TQContract) (s : State) (tv : Option (Int × Int)) (h : Good C s) : Good C (netSelect s tv) := by
  have := pollLoop_good C (waitStart s tv) s.pollq (selectTimeout tv) s h
  unfold netSelect
  exact this


/-! ### events_run_internal -/

theorem good_of_weak {C : TQContract} {s : State} (h : Weak C s) (hf : s.fault = false) : Good C s := by
  rcases h with h | ⟨h, _⟩
  · exact h
  · rw [hf] at h; cases h

theorem immLoop_weak (C : TQContract) : ∀ (f : Nat) (s : State) (id : Nat), Fireable C s id →
    Weak C (immLoop f s id).1 := by
  intro f
  induction f with
  | zero => intro s id h; exact weak_faulted C h.adm
  | succ f ih =>
    intro s id h
    unfold immLoop
    have h1 := doevent_good C s id h
    cases hd : doevent s id with
    | mk s1 rc =>
      rw [hd] at h1
      simp only at h1 ⊢
      split
      · exact Or.inl h1
      · split
        · exact Or.inl h1
        · split
          · exact Or.inl h1
          · have h2 := immGetS_good C s1 h1
            cases hi : immGetS s1 with
            | mk s2 r2 =>
              rw [hi] at h2
              cases r2 with
              | none => exact Or.inl h2.2
              | some id' => exact ih s2 id' h2.2

theorem mainLoop_weak (C : TQContract) : ∀ (f : Nat) (s : State), Weak C s → Weak C (mainLoop f s).1 := by
  intro f
  induction f with
  | zero => intro s h; exact weak_faulted C h.adm
  | succ f ih =>
    intro s h
    unfold mainLoop
    by_cases hf : s.fault = true
    · simp only [hf, if_true]; exact h
    · have hf' : s.fault = false := by simpa using hf
      simp only [hf', Bool.false_eq_true, if_false]
      have hg := good_of_weak h hf'
      split
      · exact h
      · -- immediate?
        have h1 := immGetS_good C s hg
        cases hi : immGetS s with
        | mk s1 r1 =>
          rw [hi] at h1
          cases r1 with
          | some id =>
            simp only
            have h2 := doevent_good C s1 id h1.2
            cases hd : doevent s1 id with
            | mk s2 rc =>
              rw [hd] at h2
              simp only
              split
              · exact Or.inl h2
              · exact ih s2 (Or.inl h2)
          | none =>
            simp only
            have hg1 : Good C s1 := h1.2
            -- network?
            have h3 := netGetS_good C s1 hg1
            cases hn : netGetS s1 with
            | mk s2 r2 =>
              rw [hn] at h3
              cases r2 with
              | some id =>
                simp only
                have h4 := doevent_good C s2 id h3.2
                cases hd : doevent s2 id with
                | mk s3 rc =>
                  rw [hd] at h4
                  simp only
                  split
                  · exact Or.inl h4
                  · exact ih s3 (Or.inl h4)
              | none =>
                simp only
                have hg2 : Good C s2 := h3.2
                simp only [hg2.1, Bool.false_eq_true, if_false]
                have hg3 := netSelect_good C s2 (some (0, 0)) hg2
                have h5 := netGetS_good C _ hg3
                cases hn2 : netGetS (netSelect s2 (some (0, 0))) with
                | mk s4 r4 =>
                  rw [hn2] at h5
                  cases r4 with
                  | some id =>
                    simp only
                    have h6 := doevent_good C s4 id h5.2
                    cases hd : doevent s4 id with
                    | mk s5 rc =>
                      rw [hd] at h6
                      simp only
                      split
                      · exact Or.inl h6
                      · exact ih s5 (Or.inl h6)
                  | none =>
                    simp only
                    have hg4 : Good C s4 := h5.2
                    simp only [hg4.1, Bool.false_eq_true, if_false]
                    have h7 := timerGet_good C s4 hg4
                    cases ht : timerGet s4 with
                    | mk s5 r5 =>
                      rw [ht] at h7
                      cases r5 with
                      | some id =>
                        simp only
                        have h8 := doevent_good C s5 id h7.2
                        cases hd : doevent s5 id with
                        | mk s6 rc =>
                          rw [hd] at h8
                          simp only
                          split
                          · exact Or.inl h8
                          · exact ih s6 (Or.inl h8)
                      | none => exact Or.inl h7.2

theorem runInternal_weak (C : TQContract) (fuel : Nat) (s : State) (h : Good C s) : Weak C (runInternal fuel s).1 := by
  unfold runInternal
  have h1 := immGetS_good C s h
  cases hi : immGetS s with
  | mk s1 r1 =>
    rw [hi] at h1
    cases r1 with
    | some id => exact immLoop_weak C fuel s1 id h1.2
    | none =>
      simp only
      exact mainLoop_weak C fuel _ (Or.inl (netSelect_good C s1 _ h1.2))

theorem eventsRun_weak (C : TQContract) (fuel : Nat) (s : State) (h : Good C s) : Weak C (eventsRun fuel s) := by
  unfold eventsRun
  simp only
  have h0 : Good C (emit { s with cbcount := 0 } .runBegin) :=
    good_ignored h _ ignored_runBegin h.1 rfl rfl rfl rfl rfl rfl rfl
  have h1 := runInternal_weak C fuel _ h0
  cases hr : runInternal fuel (emit { s with cbcount := 0 } .runBegin) with
  | mk s1 rc =>
    rw [hr] at h1
    dsimp only at h1 ⊢
    by_cases hf1 : s1.fault = true
    · rw [if_pos hf1]; exact h1
    · rw [if_neg hf1]
      exact weak_ignored h1 _ (ignored_ret rc) rfl rfl rfl rfl rfl rfl rfl rfl

/-- the loop of `events_spin`: every turn is an `events_run_internal` -/
theorem spinLoop_weak (C : TQContract) (fuel : Nat) : ∀ (n : Nat) (s : State) (rc : Int), Weak C s →
    Weak C (spinLoop fuel n s rc).1 := by
  intro n
  induction n with
  | zero => intro s rc h; exact weak_faulted C h.adm
  | succ n ih =>
    intro s rc h
    unfold spinLoop
    by_cases hc : s.done = false ∧ rc = 0 ∧ s.intr = false ∧ s.fault = false
    · rw [if_pos hc]
      rcases h with hg | ⟨hf, _⟩
      · exact ih _ _ (runInternal_weak C fuel s hg)
      · rw [hc.2.2.2] at hf; cases hf
    · rw [if_neg hc]; exact h

theorem eventsSpin_weak (C : TQContract) (fuel : Nat) (s : State) (h : Good C s) : Weak C (eventsSpin fuel s) := by
  unfold eventsSpin
  dsimp only
  have h0 : Good C (emit { s with cbcount := 0 } .spinBegin) :=
    good_ignored h _ ignored_spinBegin h.1 rfl rfl rfl rfl rfl rfl rfl
  have h1 := spinLoop_weak C fuel spinFuel _ 0 (Or.inl h0)
  by_cases hf1 : (spinLoop fuel spinFuel (emit { s with cbcount := 0 } .spinBegin) 0).1.fault = true
  · rw [if_pos hf1]; exact h1
  · rw [if_neg hf1]
    exact weak_ignored h1 _ (ignored_spinRet _) rfl rfl rfl rfl rfl rfl rfl rfl

theorem stepTop_weak (C : TQContract) (fuel : Nat) (s : State) (t : Top) (h : Weak C s) : Weak C (stepTop fuel s t) := by
  cases t with
  | api o =>
    show Weak C (applyOp s o)
    rcases h with hg | ⟨hf, ha⟩
    · exact Or.inl (applyOp_good C s o hg)
    · rw [applyOp_fault s o hf]; exact Or.inr ⟨hf, ha⟩
  | script id sc =>
    show Weak C { s with scripts := (id, sc) :: s.scripts }
    rcases h with ⟨hf, m, hm, hr⟩ | ⟨hf, ha⟩
    · exact Or.inl ⟨hf, m, hm, rel_of_eq hr rfl rfl rfl rfl rfl rfl⟩
    · exact Or.inr ⟨hf, ha⟩
  | pollAns a =>
    show Weak C { s with pollq := s.pollq ++ [a] }
    rcases h with ⟨hf, m, hm, hr⟩ | ⟨hf, ha⟩
    · exact Or.inl ⟨hf, m, hm, rel_of_eq hr rfl rfl rfl rfl rfl rfl⟩
    · exact Or.inr ⟨hf, ha⟩
  | run =>
    show Weak C (if s.fault then s else eventsRun fuel s)
    by_cases hf : s.fault = true
    · simp only [hf, if_true]; exact h
    · have hf' : s.fault = false := by simpa using hf
      simp only [hf', Bool.false_eq_true, if_false]
      exact eventsRun_weak C fuel s (good_of_weak h hf')
  | spin =>
    show Weak C (if s.fault then s else eventsSpin fuel s)
    by_cases hf : s.fault = true
    · simp only [hf, if_true]; exact h
    · have hf' : s.fault = false := by simpa using hf
      simp only [hf', Bool.false_eq_true, if_false]
      exact eventsSpin_weak C fuel s (good_of_weak h hf')

theorem rel_init (C : TQContract) : Rel C {} {} := by
  refine ⟨by simp [KeysNodup], rfl, ⟨[], rq_init, by simp [IdsNodup], by simp [lookup]⟩, ⟨inv_init, ?_, ?_, ?_⟩, ⟨⟨C.empty, by simp, by simp, ?_, by simp, by simp⟩, ?_, ?_⟩⟩
  · intro id fd d; simp [lookup, slot]
  · intro j e d id he; simp at he
  · intro j e he; simp at he
  · show TimerQueue.empty.h.a.toList.Perm []
    simp [TimerQueue.empty, Heap.empty]
  · intro id us dl; simp [lookup, TmView]
  · intro id us dl h; simp [lookup] at h

theorem foldl_weak (C : TQContract) (fuel : Nat) : ∀ (prog : List Top) (s : State), Weak C s →
    Weak C (prog.foldl (stepTop fuel) s) := by
  intro prog
  induction prog with
  | nil => intro s h; exact h
  | cons t ts ih => intro s h; exact ih _ (stepTop_weak C fuel s t h)

/-- every trace of the model is accepted by the C04 monitor -/
theorem run_admissible (C : TQContract) (fuel : Nat) (prog : List Top) : C04.admissible (Model.Events.run fuel prog) = true := by
  have h0 : Weak C ({} : State) := Or.inl ⟨rfl, {}, rfl, rel_init C⟩
  obtain ⟨m, hm⟩ := (foldl_weak C fuel prog {} h0).adm
  unfold C04.admissible Model.Events.run
  rw [hm]

end Percival.Proofs.EventsC04
