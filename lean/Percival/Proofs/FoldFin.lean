/-! A fold over `List.finRange n` as a fold over `List.range' 0 n` (helper lemma for C01). -/
namespace Percival.Proofs.FoldFin

theorem map_val_finRange (n : Nat) : (List.finRange n).map Fin.val = List.range' 0 n := by
  apply List.ext_getElem
  · simp
  · intro i h1 h2
    simp

theorem foldl_finRange {σ : Type} (n : Nat) (g : σ → Fin n → σ) (g' : σ → Nat → σ)
    (h : ∀ s (i : Fin n), g' s i.val = g s i) (s : σ) :
    (List.finRange n).foldl g s = (List.range' 0 n).foldl g' s := by
  rw [← map_val_finRange, List.foldl_map]
  congr 1
  funext s i
  exact (h s i).symm

end Percival.Proofs.FoldFin
