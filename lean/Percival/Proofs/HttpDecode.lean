import Percival.Proofs.Http
import Percival.Proofs.HttpNum
/-! C09, batch decoding: running the model on `serialize r` (whole stream buffered) returns `r`. -/
namespace Percival.Proofs.HttpDecode
open Percival.Model.Http Percival.Proofs.Http Percival.Proofs.HttpNum

local notation "crlf" => ([13, 10] : List UInt8)

/-- lines followed by CRLF each -/
def joined (lines : List (List UInt8)) : List UInt8 := (lines.map (· ++ crlf)).flatten

/-- a line of a header block: not empty, no CR, LF, NUL -/
def LineOK (l : List UInt8) : Prop := l ≠ [] ∧ ∀ c ∈ l, c ≠ 13 ∧ c ≠ 10 ∧ c ≠ 0

theorem joined_cons (l : List UInt8) (ls : List (List UInt8)) : joined (l :: ls) = l ++ crlf ++ joined ls := by
  simp [joined]

theorem joined_nil : joined [] = [] := rfl

/-! ## findeol / sgetline on a line -/

theorem findeolAux_skip (line : List UInt8) (h : ∀ c ∈ line, c ≠ 13) (rest : List UInt8) (i : Nat) :
    findeolAux (line ++ rest) i = findeolAux rest (i + line.length) := by
  induction line generalizing i with
  | nil => simp
  | cons a t ih =>
    have ha : a ≠ 13 := h a (by simp)
    have : (a == 13) = false := by simp [ha]
    simp only [List.cons_append, findeolAux, this, Bool.false_and]
    rw [if_neg (by simp), ih (fun c hc => h c (by simp [hc]))]
    simp only [List.length_cons]
    congr 1
    omega

theorem findeol_line (line : List UInt8) (h : ∀ c ∈ line, c ≠ 13) (rest : List UInt8) :
    findeol (line ++ crlf ++ rest) = line.length := by
  simp only [findeol, List.append_assoc]
  rw [findeolAux_skip line h]
  simp [findeolAux]

theorem sgetline_line (line : List UInt8) (h : ∀ c ∈ line, c ≠ 13) (rest : List UInt8) :
    sgetline (line ++ crlf ++ rest) = some (line, rest) := by
  simp only [sgetline, findeol_line line h rest]
  have hl : line.length < (line ++ crlf ++ rest).length := by simp
  rw [if_pos hl]
  simp

/-! ## counting and parsing passes -/

theorem countLines_joined (lines : List (List UInt8)) (h : ∀ l ∈ lines, LineOK l) (n : Nat) :
    countLines (joined lines ++ crlf) n = n + lines.length + 1 := by
  induction lines generalizing n with
  | nil =>
    simp only [joined_nil, List.nil_append]
    rw [countLines_cons]
    have : findeol [13, 10] = 0 := by decide
    rw [this]
    simp [countLines_nil]
  | cons l ls ih =>
    obtain ⟨hne, hl⟩ := h l (by simp)
    obtain ⟨a, t, rfl⟩ := List.exists_cons_of_ne_nil hne
    have hno : ∀ c ∈ a :: t, c ≠ 13 := fun c hc => (hl c hc).1
    rw [joined_cons]
    have hform : (a :: t) ++ crlf ++ joined ls ++ crlf = a :: (t ++ crlf ++ joined ls ++ crlf) := by simp
    rw [hform, countLines_cons, ← hform]
    have hfe : findeol (a :: t ++ crlf ++ joined ls ++ crlf) = (a :: t).length := by
      have := findeol_line (a :: t) hno (joined ls ++ crlf)
      simpa [List.append_assoc] using this
    rw [hfe]
    have hdrop : ((a :: t) ++ crlf ++ joined ls ++ crlf).drop ((a :: t).length + 2) = joined ls ++ crlf := by
      simp
    rw [hdrop, ih (fun l' hl' => h l' (by simp [hl']))]
    simp only [List.length_cons]
    omega

theorem parseHeaders_joined (lines : List (List UInt8)) (h : ∀ l ∈ lines, LineOK l)
    (acc : List (List UInt8 × List UInt8)) :
    parseHeaders lines.length (joined lines ++ crlf) acc = .ok (acc.reverse ++ lines.map splitHeader) crlf := by
  induction lines generalizing acc with
  | nil => simp [parseHeaders, joined_nil]
  | cons l ls ih =>
    obtain ⟨hne, hl⟩ := h l (by simp)
    have hno : ∀ c ∈ l, c ≠ 13 := fun c hc => (hl c hc).1
    have h0 : l.contains 0 = false := by
      rw [Bool.eq_false_iff]
      intro hc
      rw [List.contains_iff_mem] at hc
      exact (hl 0 hc).2.2 rfl
    rw [joined_cons]
    simp only [List.length_cons, parseHeaders]
    have := sgetline_line l hno (joined ls ++ crlf)
    simp only [List.append_assoc] at this ⊢
    rw [this]
    simp only [h0]
    rw [ih (fun l' hl' => h l' (by simp [hl']))]
    simp

/-! ## the scan for the end of the headers -/

theorem scanHdr_nomatch (a b c d : UInt8) (t : List UInt8) (i : Nat)
    (h : ¬ (a = 13 ∧ b = 10 ∧ c = 13 ∧ d = 10)) :
    scanHdr (a :: b :: c :: d :: t) i = scanHdr (b :: c :: d :: t) (i + 1) := by
  rw [scanHdr_cons4]
  have : (a == 13 && b == 10 && c == 13 && d == 10) = false := by
    rw [Bool.eq_false_iff]
    intro hc
    simp only [Bool.and_eq_true, beq_iff_eq] at hc
    exact h ⟨hc.1.1.1, hc.1.1.2, hc.1.2, hc.2⟩
  rw [this]
  rfl

theorem exists_three (l : List UInt8) (h : 3 ≤ l.length) : ∃ b c d t, l = b :: c :: d :: t := by
  match l, h with
  | b :: c :: d :: t, _ => exact ⟨b, c, d, t, rfl⟩
  | [], h => simp at h
  | [_], h => simp at h
  | [_, _], h => simp at h

theorem scanHdr_skip (pre : List UInt8) (h : ∀ c ∈ pre, c ≠ 13) (tail : List UInt8) (ht : 3 ≤ tail.length) (i : Nat) :
    scanHdr (pre ++ tail) i = scanHdr tail (i + pre.length) := by
  induction pre generalizing i with
  | nil => simp
  | cons a p ih =>
    have ha : a ≠ 13 := h a (by simp)
    obtain ⟨b, c, d, t, hbt⟩ := exists_three (p ++ tail) (by simp; omega)
    simp only [List.cons_append]
    rw [hbt, scanHdr_nomatch a b c d t i (fun hc => ha hc.1), ← hbt, ih (fun c hc => h c (by simp [hc]))]
    simp only [List.length_cons]
    congr 1
    omega

theorem scanHdr_joined (lines : List (List UInt8)) (h : ∀ l ∈ lines, LineOK l) (hne : lines ≠ [])
    (rest : List UInt8) (i : Nat) :
    scanHdr (joined lines ++ crlf ++ rest) i = i + (joined lines).length - 2 := by
  induction lines generalizing i with
  | nil => exact absurd rfl hne
  | cons l ls ih =>
    obtain ⟨hlne, hl⟩ := h l (by simp)
    have hno : ∀ c ∈ l, c ≠ 13 := fun c hc => (hl c hc).1
    cases ls with
    | nil =>
      rw [joined_cons, joined_nil]
      have : l ++ crlf ++ [] ++ crlf ++ rest = l ++ (13 :: 10 :: 13 :: 10 :: rest) := by simp
      rw [this, scanHdr_skip l hno _ (by simp)]
      rw [scanHdr_cons4]
      simp
      omega
    | cons l2 ls2 =>
      obtain ⟨hl2ne, hl2⟩ := h l2 (by simp)
      obtain ⟨c2, t2, rfl⟩ := List.exists_cons_of_ne_nil hl2ne
      have hc2 : c2 ≠ 13 := (hl2 c2 (by simp)).1
      rw [joined_cons]
      have hih := ih (fun l' hl' => h l' (by simp [hl'])) (by simp) (i + l.length + 2)
      -- after `l`: CR LF c2 …
      have e1 : l ++ crlf ++ joined ((c2 :: t2) :: ls2) ++ crlf ++ rest =
          l ++ (13 :: 10 :: (joined ((c2 :: t2) :: ls2) ++ crlf ++ rest)) := by simp
      rw [e1, scanHdr_skip l hno _ (by simp; omega)]
      have e2 : joined ((c2 :: t2) :: ls2) ++ crlf ++ rest = c2 :: (t2 ++ crlf ++ joined ls2 ++ crlf ++ rest) := by
        rw [joined_cons]; simp
      obtain ⟨d, t, hdt⟩ : ∃ d t, t2 ++ crlf ++ joined ls2 ++ crlf ++ rest = d :: t := by
        cases t2 with
        | nil => exact ⟨13, [10] ++ joined ls2 ++ [13, 10] ++ rest, by simp⟩
        | cons x xs => exact ⟨x, xs ++ [13, 10] ++ joined ls2 ++ [13, 10] ++ rest, by simp⟩
      rw [e2, hdt, scanHdr_nomatch 13 10 c2 d t _ (fun hc => hc2 hc.2.2.1)]
      -- now at LF
      have e3 : (10 : UInt8) :: c2 :: d :: t = [10] ++ (c2 :: d :: t) := rfl
      have h3 : 3 ≤ (c2 :: d :: t).length := by
        have hlen := congrArg List.length hdt
        simp at hlen
        simp
        omega
      rw [e3, scanHdr_skip [10] (by simp) _ h3]
      rw [← hdt, ← e2]
      have e4 : i + l.length + 1 + [(10 : UInt8)].length = i + l.length + 2 := by simp
      rw [e4, hih]
      simp only [List.length_append, List.length_cons, List.length_nil]
      have : 2 ≤ (joined ((c2 :: t2) :: ls2)).length := by rw [joined_cons]; simp; omega
      omega

/-! ## one header field -/

theorem takeWhile_stop {p : UInt8 → Bool} (a : List UInt8) (x : UInt8) (t : List UInt8)
    (ha : ∀ c ∈ a, p c = true) (hx : p x = false) : (a ++ x :: t).takeWhile p = a := by
  induction a with
  | nil => simp [hx]
  | cons c a' ih =>
    simp only [List.cons_append, List.takeWhile_cons, ha c (by simp), if_true]
    rw [ih (fun c' hc' => ha c' (by simp [hc']))]

theorem dropWhile_stop {p : UInt8 → Bool} (a : List UInt8) (rest : List UInt8)
    (ha : ∀ c ∈ a, p c = true) (hx : ∀ c, rest.head? = some c → p c = false) : (a ++ rest).dropWhile p = rest := by
  induction a with
  | nil => simpa using dropWhile_head rest hx
  | cons c a' ih =>
    simp only [List.cons_append, List.dropWhile_cons, ha c (by simp), if_true]
    exact ih (fun c' hc' => ha c' (by simp [hc']))

theorem dropWhile_append_all {p : UInt8 → Bool} (x y : List UInt8) (hx : ∀ c ∈ x, p c = true) :
    (x ++ y).dropWhile p = y.dropWhile p := by
  induction x with
  | nil => rfl
  | cons c x' ih =>
    simp only [List.cons_append, List.dropWhile_cons, hx c (by simp), if_true]
    exact ih (fun c' hc' => hx c' (by simp [hc']))

theorem rstrip_append_ows (a w : List UInt8) (hw : ∀ c ∈ w, isOWS c = true) : rstripOWS (a ++ w) = rstripOWS a := by
  simp only [rstripOWS, List.reverse_append]
  rw [dropWhile_append_all _ _ (fun c hc => hw c (by simpa using hc))]

theorem getLast?_append_ne_nil (x v : List UInt8) (hv : v ≠ []) : (x ++ v).getLast? = v.getLast? := by
  rw [List.getLast?_append]
  cases hgl : v.getLast? with
  | none => rw [List.getLast?_eq_none_iff] at hgl; exact absurd hgl hv
  | some c => simp

theorem rstrip_id (a : List UInt8) (h : ∀ c, a.getLast? = some c → isOWS c = false) : rstripOWS a = a := by
  simp only [rstripOWS]
  rw [dropWhile_head a.reverse (fun c hc => h c (by rw [← List.head?_reverse]; exact hc))]
  simp

theorem isOWS_eq (c : UInt8) : Percival.Spec.HttpResp.isOWS c = isOWS c := rfl

theorem all_iff {p : UInt8 → Bool} (l : List UInt8) : l.all p = true ↔ ∀ c ∈ l, p c = true := by
  simp [List.all_eq_true]

theorem splitHeader_line (h : Percival.Spec.HttpResp.Hdr) (hwf : h.WF) : splitHeader h.line = (h.name, h.value) := by
  obtain ⟨hname, hvalue, hpre, hpost, hhead, hlast⟩ := hwf
  rw [all_iff] at hname hvalue hpre hpost
  have hname58 : ∀ c ∈ h.name, (c != 58) = true := by
    intro c hc
    have := hname c hc
    simp only [Bool.and_eq_true, Percival.Spec.HttpResp.COLON] at this
    exact this.2
  have hcol : isOWS 58 = false := by decide
  have hne58 : ((58 : UInt8) != 58) = false := by decide
  simp only [splitHeader, Percival.Spec.HttpResp.Hdr.line, Percival.Spec.HttpResp.COLON]
  by_cases hv : h.value = []
  · have hs : rstripOWS (h.name ++ [58] ++ h.pre ++ h.value ++ h.post) = h.name ++ [58] := by
      rw [hv, List.append_nil, List.append_assoc (h.name ++ [58])]
      rw [rstrip_append_ows _ _ (by
        intro c hc
        rw [List.mem_append] at hc
        rcases hc with hc | hc
        · rw [← isOWS_eq]; exact hpre c hc
        · rw [← isOWS_eq]; exact hpost c hc)]
      apply rstrip_id
      intro c hc
      simp at hc
      subst hc
      exact hcol
    rw [hs]
    have h1 : (h.name ++ [58]).takeWhile (· != 58) = h.name := takeWhile_stop h.name 58 [] hname58 hne58
    have h2 : (h.name ++ [58]).dropWhile (· != 58) = [58] :=
      dropWhile_stop h.name [58] hname58 (by intro c hc; simp at hc; subst hc; exact hne58)
    rw [h1, h2, hv]
    rfl
  · have hs : rstripOWS (h.name ++ [58] ++ h.pre ++ h.value ++ h.post) = h.name ++ [58] ++ h.pre ++ h.value := by
      rw [rstrip_append_ows _ _ (by intro c hc; rw [← isOWS_eq]; exact hpost c hc)]
      apply rstrip_id
      intro c hc
      rw [getLast?_append_ne_nil _ _ hv] at hc
      rw [← isOWS_eq]
      exact hlast c hc
    rw [hs]
    have e : h.name ++ [58] ++ h.pre ++ h.value = h.name ++ 58 :: (h.pre ++ h.value) := by simp
    have h1 : (h.name ++ 58 :: (h.pre ++ h.value)).takeWhile (· != 58) = h.name :=
      takeWhile_stop h.name 58 _ hname58 hne58
    have h2 : (h.name ++ 58 :: (h.pre ++ h.value)).dropWhile (· != 58) = 58 :: (h.pre ++ h.value) :=
      dropWhile_stop h.name _ hname58 (by intro c hc; simp at hc; subst hc; exact hne58)
    rw [e, h1, h2]
    simp only []
    have h3 : (h.pre ++ h.value).dropWhile isOWS = h.value :=
      dropWhile_stop h.pre h.value (by intro c hc; rw [← isOWS_eq]; exact hpre c hc)
        (by intro c hc; rw [← isOWS_eq]; exact hhead c hc)
    rw [h3]

/-! ## the status line -/

theorem dec1 : Percival.Spec.HttpResp.dec 1 = [49] := by decide

theorem digitVal10_none_of_not_digit (c : UInt8) (h : Percival.Spec.HttpResp.isDigit c = false) : digitVal 10 c = none := by
  simp only [Percival.Spec.HttpResp.isDigit] at h
  simp only [digitVal, h]
  simp

theorem after10_of (rest : List UInt8) (h : ∀ c, rest.head? = some c → digitVal 10 c = none) : After 10 rest :=
  ⟨h, fun hc => by omega⟩

theorem scanStatusLine_ok (ovf : Bool → Nat → Int) (b : Percival.Spec.HttpResp.Block) (lo hi : Nat) (hhi : hi ≤ 599)
    (hwf : b.WF lo hi) :
    scanStatusLine ovf b.statusLine = some { major := 1, minor := (b.minor : Int), status := (b.status : Int) } := by
  obtain ⟨hminor, hlo, hhi', hreason, hrhead, _⟩ := hwf
  have hpre : httpSlash.isPrefixOf b.statusLine = true := by
    simp [httpSlash, Percival.Spec.HttpResp.Block.statusLine, Percival.Spec.HttpResp.http1dot]
  have hdrop : b.statusLine.drop 5 = Percival.Spec.HttpResp.dec 1 ++
      (46 :: (Percival.Spec.HttpResp.dec b.minor ++ (32 :: (Percival.Spec.HttpResp.dec b.status ++ b.reason)))) := by
    rw [dec1]
    simp [Percival.Spec.HttpResp.Block.statusLine, Percival.Spec.HttpResp.http1dot, Percival.Spec.HttpResp.SP]
  simp only [scanStatusLine, hpre, if_true, hdrop]
  rw [dec_eq 1, scanInt_numeral ovf 1 _ (after10_of _ (by intro c hc; simp at hc; subst hc; decide)) (by decide)]
  simp only []
  rw [dec_eq b.minor, scanInt_numeral ovf b.minor _ (after10_of _ (by intro c hc; simp at hc; subst hc; decide))
    (by simp only [INT_MAX]; omega)]
  simp only []
  have hsp : ((32 : UInt8) :: ((digitsOf 10 b.status).map Percival.Spec.HttpResp.digitChar ++ b.reason)).dropWhile isSpace =
      (digitsOf 10 b.status).map Percival.Spec.HttpResp.digitChar ++ b.reason := by
    have h32 : isSpace 32 = true := by decide
    simp only [List.dropWhile_cons, h32, if_true]
    obtain ⟨c, hc, hcm⟩ := head_numeral_append 10 (Or.inl rfl) b.status b.reason
    exact dropWhile_head _ (fun c' hc' => by rw [hc] at hc'; cases hc'; exact (numeral_bytes 10 (Or.inl rfl) b.status c hcm).1)
  rw [dec_eq b.status, hsp, scanInt_numeral ovf b.status _
    (after10_of _ (fun c hc => digitVal10_none_of_not_digit c (hrhead c hc))) (by simp only [INT_MAX]; omega)]
  rfl

/-! ## a whole header block -/

open Percival.Spec.HttpResp in
/-- the lines of a header block -/
def blockLines (b : Block) : List (List UInt8) := b.statusLine :: b.headers.map Hdr.line

open Percival.Spec.HttpResp in
theorem serialize_eq_joined (b : Block) : b.serialize = joined (blockLines b) ++ crlf := by
  simp [Block.serialize, blockLines, joined, Percival.Spec.HttpResp.crlf, CR, LF, List.map_map, Function.comp_def]

theorem lineSafe_ne (c : UInt8) (h : Percival.Spec.HttpResp.lineSafe c = true) : c ≠ 13 ∧ c ≠ 10 ∧ c ≠ 0 := by
  simp only [Percival.Spec.HttpResp.lineSafe, Percival.Spec.HttpResp.CR, Percival.Spec.HttpResp.LF, Bool.and_eq_true,
    bne_iff_ne, ne_eq] at h
  exact ⟨h.1.1, h.1.2, h.2⟩

theorem ows_safe (c : UInt8) (h : Percival.Spec.HttpResp.isOWS c = true) : c ≠ 13 ∧ c ≠ 10 ∧ c ≠ 0 := by
  simp only [Percival.Spec.HttpResp.isOWS, Percival.Spec.HttpResp.SP, Percival.Spec.HttpResp.HT, Bool.or_eq_true,
    beq_iff_eq] at h
  rcases h with h | h <;> subst h <;> decide

open Percival.Spec.HttpResp in
theorem hdrLine_ok (h : Hdr) (hwf : h.WF) : LineOK h.line := by
  obtain ⟨hname, hvalue, hpre, hpost, _, _⟩ := hwf
  rw [all_iff] at hname hvalue hpre hpost
  refine ⟨by simp [Hdr.line], ?_⟩
  intro c hc
  simp only [Hdr.line, List.mem_append, List.mem_singleton] at hc
  rcases hc with (((hc | hc) | hc) | hc) | hc
  · have := hname c hc
    simp only [Bool.and_eq_true] at this
    exact lineSafe_ne c this.1
  · subst hc; decide
  · exact ows_safe c (hpre c hc)
  · exact lineSafe_ne c (hvalue c hc)
  · exact ows_safe c (hpost c hc)

open Percival.Spec.HttpResp in
theorem statusLine_ok (b : Block) (lo hi : Nat) (hwf : b.WF lo hi) : LineOK b.statusLine := by
  obtain ⟨_, _, _, hreason, _, _⟩ := hwf
  rw [all_iff] at hreason
  refine ⟨by simp [Block.statusLine, http1dot], ?_⟩
  intro c hc
  simp only [Block.statusLine, List.mem_append, List.mem_singleton] at hc
  rcases hc with (((hc | hc) | hc) | hc) | hc
  · simp only [http1dot, List.mem_cons, List.mem_nil_iff, or_false] at hc
    rcases hc with h | h | h | h | h | h | h <;> subst h <;> decide
  · have := numeral_bytes 10 (Or.inl rfl) b.minor c (by rw [← dec_eq]; exact hc)
    exact ⟨this.2.2.2.2.2.1, this.2.2.2.2.2.2.1, this.2.2.2.2.2.2.2.1⟩
  · subst hc; decide
  · have := numeral_bytes 10 (Or.inl rfl) b.status c (by rw [← dec_eq]; exact hc)
    exact ⟨this.2.2.2.2.2.1, this.2.2.2.2.2.2.1, this.2.2.2.2.2.2.2.1⟩
  · exact lineSafe_ne c (hreason c hc)

open Percival.Spec.HttpResp in
theorem blockLines_ok (b : Block) (lo hi : Nat) (hwf : b.WF lo hi) : ∀ l ∈ blockLines b, LineOK l := by
  intro l hl
  simp only [blockLines, List.mem_cons, List.mem_map] at hl
  rcases hl with rfl | ⟨h, hh, rfl⟩
  · exact statusLine_ok b lo hi hwf
  · exact hdrLine_ok h (hwf.2.2.2.2.2 h hh)

open Percival.Spec.HttpResp in
theorem gotHeaders_block (ovf : Bool → Nat → Int) (st : St) (b : Block) (lo hi : Nat) (hlo : 100 ≤ lo) (hhi : hi ≤ 599)
    (hwf : b.WF lo hi) :
    gotHeaders ovf st b.serialize =
      afterParse st (b.status : Int) (b.headers.map (fun h => (h.name, h.value))) b.serialize.length := by
  have hlines := blockLines_ok b lo hi hwf
  have hN : countLines b.serialize 0 = b.headers.length + 2 := by
    rw [serialize_eq_joined, countLines_joined _ hlines]
    simp [blockLines]
  have hsl := statusLine_ok b lo hi hwf
  have hS : sgetline b.serialize = some (b.statusLine, joined (b.headers.map Hdr.line) ++ crlf) := by
    rw [serialize_eq_joined]
    simp only [blockLines, joined_cons]
    have := sgetline_line b.statusLine (fun c hc => (hsl.2 c hc).1) (joined (b.headers.map Hdr.line) ++ crlf)
    simpa [List.append_assoc] using this
  have h0 : b.statusLine.contains 0 = false := by
    rw [Bool.eq_false_iff]
    intro hc
    rw [List.contains_iff_mem] at hc
    exact (hsl.2 0 hc).2.2 rfl
  have hscan := scanStatusLine_ok ovf b lo hi hhi hwf
  have hP : parseHeaders b.headers.length (joined (b.headers.map Hdr.line) ++ crlf) [] =
      .ok (b.headers.map (fun h => (h.name, h.value))) crlf := by
    have := parseHeaders_joined (b.headers.map Hdr.line)
      (fun l hl => hlines l (by simp only [blockLines, List.mem_cons]; right; exact hl)) []
    simp only [List.length_map, List.reverse_nil, List.nil_append, List.map_map] at this
    rw [this]
    congr 1
    apply List.map_congr_left
    intro h hh
    exact splitHeader_line h (hwf.2.2.2.2.2 h hh)
  obtain ⟨_, hlo', hhi', _, _, _⟩ := hwf
  have hrange : (decide ((b.status : Int) < Percival.Gen.Http.STATUS_MIN) || decide ((b.status : Int) > Percival.Gen.Http.STATUS_MAX)) = false := by
    have h1 : ¬ ((b.status : Int) < Percival.Gen.Http.STATUS_MIN) := by
      simp only [Percival.Gen.Http.STATUS_MIN]; omega
    have h2 : ¬ ((b.status : Int) > Percival.Gen.Http.STATUS_MAX) := by
      simp only [Percival.Gen.Http.STATUS_MAX]; omega
    simp [h1, h2]
  simp only [gotHeaders, hN, hS, h0, hscan]
  rw [if_neg (by omega)]
  have hk : b.headers.length + 2 - 2 = b.headers.length := by omega
  simp only [hk, hP, hrange]
  simp

open Percival.Spec.HttpResp in
theorem serialize_length (b : Block) : b.serialize.length = (joined (blockLines b)).length + 2 := by
  rw [serialize_eq_joined]; simp

open Percival.Spec.HttpResp in
theorem joined_blockLines_length (b : Block) : 2 ≤ (joined (blockLines b)).length := by
  simp only [blockLines, joined_cons]; simp; omega

open Percival.Spec.HttpResp in
theorem readHeader_block (ovf : Bool → Nat → Int) (st : St) (b : Block) (lo hi : Nat) (hlo : 100 ≤ lo) (hhi : hi ≤ 599)
    (hwf : b.WF lo hi) (rest : List UInt8) (hh : st.hepos = 0) :
    readHeader ovf st .ok (b.serialize ++ rest) =
      afterParse { st with hepos := b.serialize.length - 4 } (b.status : Int)
        (b.headers.map (fun h => (h.name, h.value))) b.serialize.length := by
  have hlines := blockLines_ok b lo hi hwf
  have hscan := scanHdr_joined (blockLines b) hlines (by simp [blockLines]) rest 0
  have hlen := serialize_length b
  have h2 := joined_blockLines_length b
  simp only [readHeader, hh, List.drop_zero]
  have hne : (Status.ok != Status.ok) = false := by decide
  simp only [hne]
  rw [serialize_eq_joined, hscan]
  rw [← serialize_eq_joined]
  have e1 : 0 + (joined (blockLines b)).length - 2 + 4 = b.serialize.length := by omega
  have e2 : 0 + (joined (blockLines b)).length - 2 = b.serialize.length - 4 := by omega
  rw [e1, e2]
  have hle : b.serialize.length ≤ (b.serialize ++ rest).length := by simp
  simp only [hle, if_true, Bool.false_eq_true, if_false]
  have htake : (b.serialize ++ rest).take b.serialize.length = b.serialize := by simp
  rw [htake]
  exact gotHeaders_block ovf _ b lo hi hlo hhi hwf

/-! ## chaining -/

theorem step_goto (ovf : Bool → Nat → Int) (f : Nat) (st : St) (h : Handler) (s : Status) (buf : List UInt8) (c0 : Nat)
    (st' : St) (c : Nat) (h' : Handler) (hm : micro ovf st h s buf = .goto st' c h') :
    step ovf (f + 1) st h s buf c0 = step ovf f st' h' .ok (buf.drop c) (c0 + c) := by
  simp only [step, hm]

theorem step_done (ovf : Bool → Nat → Int) (f : Nat) (st : St) (h : Handler) (s : Status) (buf : List UInt8) (c0 : Nat)
    (r : Option Resp) (hm : micro ovf st h s buf = .done r) :
    step ovf (f + 1) st h s buf c0 = .done r := by
  simp only [step, hm]

theorem step_wait (ovf : Bool → Nat → Int) (f : Nat) (st : St) (h : Handler) (s : Status) (buf : List UInt8) (c0 : Nat)
    (st' : St) (c k : Nat) (h' : Handler) (hm : micro ovf st h s buf = .wait st' c k h') :
    step ovf (f + 1) st h s buf c0 = .wait st' (c0 + c) k h' := by
  simp only [step, hm]

theorem interim_cond (n : Nat) (h1 : 100 ≤ n) (h2 : n ≤ 199) :
    (decide (Percival.Gen.Http.INTERIM_MIN ≤ (n : Int)) && decide ((n : Int) ≤ Percival.Gen.Http.INTERIM_MAX)) = true := by
  have a : Percival.Gen.Http.INTERIM_MIN ≤ (n : Int) := by simp only [Percival.Gen.Http.INTERIM_MIN]; omega
  have b : (n : Int) ≤ Percival.Gen.Http.INTERIM_MAX := by simp only [Percival.Gen.Http.INTERIM_MAX]; omega
  simp [a, b]

theorem not_interim_cond (n : Nat) (h1 : 200 ≤ n) :
    (decide (Percival.Gen.Http.INTERIM_MIN ≤ (n : Int)) && decide ((n : Int) ≤ Percival.Gen.Http.INTERIM_MAX)) = false := by
  have b : ¬ ((n : Int) ≤ Percival.Gen.Http.INTERIM_MAX) := by simp only [Percival.Gen.Http.INTERIM_MAX]; omega
  simp [b]

/-- state ready to read a (further) header block -/
structure Ready (st : St) (ishead : Bool) (max : Nat) : Prop where
  hepos : st.hepos = 0
  bodylen : st.bodylen = 0
  bodyRev : st.bodyRev = []
  alloc : st.alloc ≤ st.max
  max : st.max = max
  ishead : st.ishead = ishead

open Percival.Spec.HttpResp in
theorem step_interims (ovf : Bool → Nat → Int) (bs : List Block) (hwf : ∀ b ∈ bs, b.WF 100 199) :
    ∀ (st : St) (ishead : Bool) (max : Nat), Ready st ishead max →
    ∃ st', Ready st' ishead max ∧ ∀ (f : Nat) (rest : List UInt8) (c0 : Nat),
      step ovf (f + bs.length) st .readHeader .ok ((bs.map Block.serialize).flatten ++ rest) c0 =
        step ovf f st' .readHeader .ok rest (c0 + ((bs.map Block.serialize).flatten).length) := by
  induction bs with
  | nil => intro st ishead max hr; exact ⟨st, hr, fun f rest c0 => by simp⟩
  | cons b bs ih =>
    intro st ishead max hr
    have hb := hwf b (by simp)
    have hm : ∀ rest, micro ovf st .readHeader .ok (b.serialize ++ ((bs.map Block.serialize).flatten ++ rest)) =
        .goto { st with hepos := 0, status := (b.status : Int), headers := [] } b.serialize.length .readHeader := by
      intro rest
      simp only [micro]
      rw [readHeader_block ovf st b 100 199 (by omega) (by omega) hb _ hr.hepos]
      simp only [afterParse, interim_cond b.status hb.2.1 hb.2.2.1, if_true]
    have hr' : Ready { st with hepos := 0, status := (b.status : Int), headers := [] } ishead max :=
      ⟨rfl, hr.bodylen, hr.bodyRev, hr.alloc, hr.max, hr.ishead⟩
    obtain ⟨st', hr'', hstep⟩ := ih (fun b' hb' => hwf b' (by simp [hb'])) _ ishead max hr'
    refine ⟨st', hr'', ?_⟩
    intro f rest c0
    simp only [List.map_cons, List.flatten_cons, List.append_assoc, List.length_cons, List.length_append]
    have e : f + (bs.length + 1) = (f + bs.length) + 1 := by omega
    rw [e, step_goto ovf _ st .readHeader .ok _ c0 _ _ _ (hm rest)]
    have hd : (b.serialize ++ ((bs.map Block.serialize).flatten ++ rest)).drop b.serialize.length =
        (bs.map Block.serialize).flatten ++ rest := by simp
    rw [hd, hstep]
    congr 1
    omega

/-! ## bodies -/

theorem addbody_eq (st : St) (piece : List UInt8) (ha : st.alloc ≤ st.max) (h : st.bodylen + piece.length ≤ st.max) :
    ∃ a, a ≤ st.max ∧ st.bodylen + piece.length ≤ a ∧
      addbody st piece = some { st with alloc := a, bodylen := st.bodylen + piece.length, bodyRev := piece.reverse ++ st.bodyRev } := by
  simp only [addbody]
  rw [if_pos h]
  by_cases hg : st.bodylen + piece.length > st.alloc
  · have hb := growAlloc_bounds st.alloc (st.bodylen + piece.length) st.max h
    simp only [if_pos hg]
    rw [if_pos hb.1]
    exact ⟨_, hb.2, hb.1, rfl⟩
  · simp only [if_neg hg]
    rw [if_pos (by omega)]
    exact ⟨_, ha, by omega, rfl⟩

theorem cstr_id (l : List UInt8) (h : ∀ c ∈ l, c ≠ 0) : cstr l = l := by
  simp only [cstr]
  induction l with
  | nil => rfl
  | cons c t ih =>
    have hc : (c != 0) = true := by simp [h c (by simp)]
    simp only [List.takeWhile_cons, hc, if_true]
    rw [ih (fun c' hc' => h c' (by simp [hc']))]

/-- the state while a body is being collected: `got` so far -/
structure BodySt (st : St) (status : Int) (hdrs : List (List UInt8 × List UInt8)) (max : Nat) (chunked : Bool)
    (got : List UInt8) : Prop where
  status : st.status = status
  headers : st.headers = hdrs
  max : st.max = max
  chunked : st.chunked = chunked
  bodylen : st.bodylen = got.length
  bodyRev : st.bodyRev = got.reverse
  alloc : st.alloc ≤ st.max

theorem mkResp_bodySt {st : St} {status : Int} {hdrs : List (List UInt8 × List UInt8)} {max : Nat} {ch : Bool}
    {got : List UInt8} (h : BodySt st status hdrs max ch got) :
    mkResp st = { status := status, headers := hdrs, body := some got } := by
  simp [mkResp, h.status, h.headers, h.bodyRev]

/-- `Content-Length` body, everything buffered -/
theorem readData_length (st : St) (status : Int) (hdrs : List (List UInt8 × List UInt8)) (max : Nat)
    (hs : BodySt st status hdrs max false []) (body tail : List UInt8) (hrl : st.readlen = body.length)
    (hfit : body.length ≤ max) :
    readData st .ok (body ++ tail) = .done (some { status := status, headers := hdrs, body := some body }) := by
  have hne : (Status.ok != Status.ok) = false := by decide
  simp only [readData, hne, Bool.false_eq_true, if_false]
  have hbl : (if (body ++ tail).length > st.readlen then st.readlen else (body ++ tail).length) = body.length := by
    rw [hrl]; simp only [List.length_append]; split <;> omega
  rw [hbl]
  have hel : eolLen st.chunked st.readlen body.length = 0 := by simp [eolLen, hs.chunked]
  rw [hel]
  have htake : (body ++ tail).take (body.length - 0) = body := by simp
  rw [htake]
  have hmax := hs.max
  have hbl0 := hs.bodylen
  simp only [List.length_nil] at hbl0
  obtain ⟨a, ha1, ha2, he⟩ := addbody_eq st body hs.alloc (by omega)
  rw [he]
  simp only [hrl, Nat.sub_self, beq_self_eq_true, if_true, hs.chunked, Bool.false_eq_true, if_false]
  simp [mkResp, hs.status, hs.headers, hs.bodyRev]

/-- read-to-EOF body, everything buffered: the body is taken, then one more byte is awaited -/
theorem readToEof_all (st : St) (status : Int) (hdrs : List (List UInt8 × List UInt8)) (max : Nat) (ch : Bool)
    (hs : BodySt st status hdrs max ch []) (body : List UInt8) (hfit : body.length ≤ max) :
    ∃ st', BodySt st' status hdrs max ch body ∧ readToEof st .ok body = .wait st' body.length 1 .readToEof := by
  have hmax := hs.max
  have hbl0 := hs.bodylen
  simp only [List.length_nil] at hbl0
  obtain ⟨a, ha1, ha2, he⟩ := addbody_eq st body hs.alloc (by omega)
  refine ⟨{ st with alloc := a, bodylen := st.bodylen + body.length, bodyRev := body.reverse ++ st.bodyRev }, ?_, ?_⟩
  · exact ⟨hs.status, hs.headers, hs.max, hs.chunked, by simp [hbl0], by simp [hs.bodyRev], ha1⟩
  · simp only [readToEof]
    rw [if_neg (by omega), if_neg (by omega), he]

theorem readToEof_eof (st : St) (status : Int) (hdrs : List (List UInt8 × List UInt8)) (max : Nat) (ch : Bool)
    (got : List UInt8) (hs : BodySt st status hdrs max ch got) (buf : List UInt8) :
    readToEof st .eof buf = .done (some { status := status, headers := hdrs, body := some got }) := by
  simp only [readToEof, mkResp_bodySt hs]

/-! ## chunks -/

theorem ext_after16 (e : List UInt8) (he : Percival.Spec.HttpResp.extWF e) : After 16 e := by
  refine ⟨?_, ?_⟩
  · intro c hc
    have := he.2 c hc
    subst this
    decide
  · intro _ c hc
    have := he.2 c hc
    subst this
    decide

theorem ext_bytes (e : List UInt8) (he : Percival.Spec.HttpResp.extWF e) : ∀ c ∈ e, c ≠ 13 ∧ c ≠ 10 ∧ c ≠ 0 := by
  intro c hc
  have := he.1
  rw [all_iff] at this
  exact lineSafe_ne c (this c hc)

theorem sizeLine_bytes (n : Nat) (e : List UInt8) (he : Percival.Spec.HttpResp.extWF e) :
    ∀ c ∈ Percival.Spec.HttpResp.hex n ++ e, c ≠ 13 ∧ c ≠ 10 ∧ c ≠ 0 := by
  intro c hc
  rw [List.mem_append] at hc
  rcases hc with hc | hc
  · have := numeral_bytes 16 (Or.inr rfl) n c (by rw [← hex_eq]; exact hc)
    exact ⟨this.2.2.2.2.2.1, this.2.2.2.2.2.2.1, this.2.2.2.2.2.2.2.1⟩
  · exact ext_bytes e he c hc

/-- a chunk-size line (size `n`, extension `e`), everything buffered: the parsed size -/
theorem chunkLine_parse (n : Nat) (e : List UInt8) (he : Percival.Spec.HttpResp.extWF e) (more : List UInt8)
    (hn : n ≤ SIZE_MAX) :
    let buf := Percival.Spec.HttpResp.hex n ++ e ++ crlf ++ more
    findeol buf = (Percival.Spec.HttpResp.hex n ++ e).length ∧
    parsenumSize 16 true (cstr (buf.take (findeol buf))) = some n := by
  intro buf
  have hb := sizeLine_bytes n e he
  have hfe : findeol buf = (Percival.Spec.HttpResp.hex n ++ e).length :=
    findeol_line _ (fun c hc => (hb c hc).1) more
  refine ⟨hfe, ?_⟩
  rw [hfe]
  have htake : buf.take (Percival.Spec.HttpResp.hex n ++ e).length = Percival.Spec.HttpResp.hex n ++ e := by
    show ((Percival.Spec.HttpResp.hex n ++ e ++ crlf) ++ more).take _ = _
    rw [List.append_assoc (Percival.Spec.HttpResp.hex n ++ e)]
    exact List.take_left' rfl
  rw [htake, cstr_id _ (fun c hc => (hb c hc).2.2), hex_eq]
  exact parsenumSize_numeral 16 (Or.inr rfl) n e (ext_after16 e he) true (Or.inl rfl) hn

theorem chunkedHeader_chunk (st : St) (status : Int) (hdrs : List (List UInt8 × List UInt8)) (max : Nat)
    (got : List UInt8) (hs : BodySt st status hdrs max true got)
    (n : Nat) (e : List UInt8) (he : Percival.Spec.HttpResp.extWF e) (more : List UInt8)
    (hn0 : n ≠ 0) (hfit : got.length + n ≤ max) (hsz : n + 2 ≤ SIZE_MAX) :
    chunkedHeader st .ok (Percival.Spec.HttpResp.hex n ++ e ++ crlf ++ more) =
      .goto { st with readlen := n + 2 } ((Percival.Spec.HttpResp.hex n ++ e).length + 2) .readData := by
  obtain ⟨hfe, hparse⟩ := chunkLine_parse n e he more (by omega)
  have hne : (Status.ok != Status.ok) = false := by decide
  simp only [chunkedHeader, hne, Bool.false_eq_true, if_false, hparse]
  rw [hfe]
  have hneq : ((Percival.Spec.HttpResp.hex n ++ e).length != (Percival.Spec.HttpResp.hex n ++ e ++ crlf ++ more).length) = true := by
    simp
  simp only [hneq, if_true]
  have hbl := hs.bodylen
  have hmx := hs.max
  rw [if_neg (by simp only [List.length_append, List.length_cons, List.length_nil]; omega), if_neg (by simpa using hn0),
    if_neg (by omega), if_neg (by omega), if_neg (by simp only [SIZE_MAX] at hsz ⊢; omega)]

theorem readData_chunk (st : St) (status : Int) (hdrs : List (List UInt8 × List UInt8)) (max : Nat)
    (got : List UInt8) (hs : BodySt st status hdrs max true got)
    (data more : List UInt8) (hrl : st.readlen = data.length + 2) (hfit : got.length + data.length ≤ max) :
    ∃ st', BodySt st' status hdrs max true (got ++ data) ∧
      readData st .ok (data ++ crlf ++ more) = .goto st' (data.length + 2) .chunkedHeader := by
  have hbl := hs.bodylen
  have hmx := hs.max
  obtain ⟨a, ha1, ha2, he⟩ := addbody_eq st data hs.alloc (by omega)
  refine ⟨{ st with alloc := a, bodylen := st.bodylen + data.length, bodyRev := data.reverse ++ st.bodyRev, readlen := 0 }, ?_, ?_⟩
  · exact ⟨hs.status, hs.headers, hs.max, hs.chunked, by simp [hbl], by simp [hs.bodyRev], ha1⟩
  · have hne : (Status.ok != Status.ok) = false := by decide
    simp only [readData, hne, Bool.false_eq_true, if_false]
    have hblen : (if (data ++ crlf ++ more).length > st.readlen then st.readlen else (data ++ crlf ++ more).length) =
        data.length + 2 := by
      rw [hrl]; simp only [List.length_append, List.length_cons, List.length_nil]; split <;> omega
    rw [hblen]
    have hel : eolLen st.chunked st.readlen (data.length + 2) = 2 := by
      rw [hs.chunked, hrl]
      simp [eolLen]
      intro h; omega
    rw [hel]
    have htake : (data ++ crlf ++ more).take (data.length + 2 - 2) = data := by simp
    rw [htake, he]
    simp only [hrl, Nat.sub_self, beq_self_eq_true, if_true, hs.chunked]

open Percival.Spec.HttpResp in
theorem serializeChunk_eq (c : List UInt8 × List UInt8) :
    serializeChunk c = hex c.1.length ++ c.2 ++ [13, 10] ++ (c.1 ++ [13, 10]) := by
  simp [serializeChunk, Percival.Spec.HttpResp.crlf, CR, LF]

open Percival.Spec.HttpResp in
/-- all chunks, everything buffered -/
theorem step_chunks (ovf : Bool → Nat → Int) (status : Int) (hdrs : List (List UInt8 × List UInt8)) (max : Nat)
    (cs : List (List UInt8 × List UInt8)) (hcs : ∀ c ∈ cs, c.1 ≠ [] ∧ extWF c.2) :
    ∀ (st : St) (got : List UInt8), BodySt st status hdrs max true got →
      got.length + ((cs.map (·.1)).flatten).length ≤ max → ((cs.map (·.1)).flatten).length + 2 ≤ SIZE_MAX →
      ∀ (f : Nat) (more : List UInt8) (c0 : Nat),
      ∃ st', BodySt st' status hdrs max true (got ++ (cs.map (·.1)).flatten) ∧
        step ovf (f + 2 * cs.length) st .chunkedHeader .ok ((cs.map serializeChunk).flatten ++ more) c0 =
          step ovf f st' .chunkedHeader .ok more (c0 + ((cs.map serializeChunk).flatten).length) := by
  induction cs with
  | nil => intro st got hs _ _ f more c0; exact ⟨st, by simpa using hs, by simp⟩
  | cons c cs ih =>
    intro st got hs hfit hsz f more c0
    obtain ⟨hdata, hext⟩ := hcs c (by simp)
    simp only [List.map_cons, List.flatten_cons, List.length_append] at hfit hsz
    have hn0 : c.1.length ≠ 0 := by
      intro h; exact hdata (List.eq_nil_of_length_eq_zero h)
    -- chunk-size line
    have hbuf : (serializeChunk c ++ (cs.map serializeChunk).flatten) ++ more =
        hex c.1.length ++ c.2 ++ crlf ++ (c.1 ++ crlf ++ ((cs.map serializeChunk).flatten ++ more)) := by
      rw [serializeChunk_eq]
      simp only [List.append_assoc]
    have hm1 := chunkedHeader_chunk st status hdrs max got hs c.1.length c.2 hext
      (c.1 ++ crlf ++ ((cs.map serializeChunk).flatten ++ more)) hn0 (by omega) (by omega)
    have hs1 : BodySt { st with readlen := c.1.length + 2 } status hdrs max true got :=
      ⟨hs.status, hs.headers, hs.max, hs.chunked, hs.bodylen, hs.bodyRev, hs.alloc⟩
    obtain ⟨st2, hs2, hm2⟩ := readData_chunk { st with readlen := c.1.length + 2 } status hdrs max got hs1 c.1
      ((cs.map serializeChunk).flatten ++ more) rfl (by omega)
    obtain ⟨st', hs', hstep⟩ := ih (fun c' hc' => hcs c' (by simp [hc'])) st2 (got ++ c.1) hs2
      (by simp only [List.length_append]; omega) (by omega) f more
      (c0 + ((hex c.1.length ++ c.2).length + 2) + (c.1.length + 2))
    refine ⟨st', by simpa [List.append_assoc] using hs', ?_⟩
    simp only [List.map_cons, List.flatten_cons, List.length_cons]
    have ef : f + 2 * (cs.length + 1) = (f + 2 * cs.length + 1) + 1 := by omega
    rw [ef, hbuf, step_goto ovf _ st .chunkedHeader .ok _ c0 _ _ _ hm1]
    have hd1 : (hex c.1.length ++ c.2 ++ crlf ++ (c.1 ++ crlf ++ ((cs.map serializeChunk).flatten ++ more))).drop
        ((hex c.1.length ++ c.2).length + 2) = c.1 ++ crlf ++ ((cs.map serializeChunk).flatten ++ more) := by
      rw [List.append_assoc (hex c.1.length ++ c.2)]
      show ((hex c.1.length ++ c.2) ++ ([13, 10] ++ (c.1 ++ crlf ++ ((cs.map serializeChunk).flatten ++ more)))).drop _ = _
      rw [List.drop_append]
      simp
    rw [hd1, step_goto ovf _ _ .readData .ok _ _ _ _ _ hm2]
    have hd2 : (c.1 ++ crlf ++ ((cs.map serializeChunk).flatten ++ more)).drop (c.1.length + 2) =
        (cs.map serializeChunk).flatten ++ more := by simp
    rw [hd2, hstep]
    congr 1
    rw [serializeChunk_eq]
    simp only [List.length_append, List.length_cons, List.length_nil]
    omega

theorem hex0 : Percival.Spec.HttpResp.hex 0 = [48] := by decide

/-- the last chunk, everything buffered -/
theorem chunkedHeader_last (st : St) (status : Int) (hdrs : List (List UInt8 × List UInt8)) (max : Nat)
    (got : List UInt8) (hs : BodySt st status hdrs max true got)
    (e : List UInt8) (he : Percival.Spec.HttpResp.extWF e) (tail : List UInt8) :
    chunkedHeader st .ok ([48] ++ e ++ crlf ++ tail) = .done (some { status := status, headers := hdrs, body := some got }) := by
  obtain ⟨hfe, hparse⟩ := chunkLine_parse 0 e he tail (by simp [SIZE_MAX])
  rw [hex0] at hfe hparse
  have hne : (Status.ok != Status.ok) = false := by decide
  simp only [chunkedHeader, hne, Bool.false_eq_true, if_false, hparse]
  rw [hfe]
  have hneq : (([48] ++ e).length != ([48] ++ e ++ crlf ++ tail).length) = true := by simp
  simp only [hneq, if_true]
  rw [if_neg (by simp only [List.length_append, List.length_cons, List.length_nil]; omega)]
  simp [mkResp_bodySt hs]

/-! ## the whole-stream reader -/

/-- the reader which delivers everything at the first wait -/
def whole (n : Nat) : Unit → Nat → Nat → Unit × Arrival := fun _ _ _ => ((), Arrival.more n)

theorem step_first (ovf : Bool → Nat → Int) (ishead : Bool) (max : Nat) :
    step ovf 1 (initSt ishead max) .readHeader .ok [] 0 = .wait (initSt ishead max) 0 1 .readHeader := by
  simp [step, micro, readHeader, scanHdr, initSt, Percival.Gen.Http.MAXHDR]

theorem run_succ {σ : Type} (ovf : Bool → Nat → Int) (oracle : σ → Nat → Nat → σ × Arrival) (f : Nat) (o : σ) (st : St)
    (h : Handler) (s : Status) (rest : List UInt8) (rlen b : Nat) (ws : List Nat) :
    run ovf oracle (f + 1) o st h s rest rlen b ws =
      match step ovf (b + 1) st h s (rest.take b) 0 with
      | .done r => .callback r ws.reverse
      | .abort w => .abort w ws.reverse
      | .wait st' c k h' =>
        if k ≤ b - c then run ovf oracle f (oracle o c k).1 st' h' .ok (rest.drop c) (rlen - c) (b - c) (k :: ws) else
        match (oracle o c k).2 with
        | .more extra =>
          if k ≤ rlen - c then
            run ovf oracle f (oracle o c k).1 st' h' .ok (rest.drop c) (rlen - c)
              (if k + extra > rlen - c then rlen - c else k + extra) (k :: ws)
          else run ovf oracle f (oracle o c k).1 st' h' .eof (rest.drop c) (rlen - c) (rlen - c) (k :: ws)
        | .eof => run ovf oracle f (oracle o c k).1 st' h' .eof (rest.drop c) (rlen - c) (b - c) (k :: ws)
        | .err => run ovf oracle f (oracle o c k).1 st' h' .err (rest.drop c) (rlen - c) (b - c) (k :: ws) := by
  simp only [run]
  cases step ovf (b + 1) st h s (rest.take b) 0 <;> rfl

/-- with the whole-stream reader, the run is the event-loop callback on the complete data -/
theorem runAll_whole (ovf : Bool → Nat → Int) (ishead : Bool) (max : Nat) (data : List UInt8) (hne : data ≠ []) :
    runAll ovf (whole data.length) () ishead max data =
      run ovf (whole data.length) (data.length + 2) () (initSt ishead max) .readHeader .ok data data.length data.length [1] := by
  have hpos : 0 < data.length := List.length_pos_iff.mpr hne
  simp only [runAll]
  rw [show data.length + 3 = (data.length + 2) + 1 from rfl, run_succ]
  simp only [List.take_zero, Nat.zero_add, step_first, whole, List.drop_zero, Nat.sub_zero]
  rw [if_neg (by omega), if_pos (by omega), if_pos (by omega)]

/-! ## the final header block and its framing -/

theorem findHeader_map (hs : List Percival.Spec.HttpResp.Hdr) (nm : List UInt8) :
    findHeader (hs.map (fun h => (h.name, h.value))) nm = Percival.Spec.HttpResp.firstValue hs nm := by
  simp only [findHeader, Percival.Spec.HttpResp.firstValue, List.find?_map, Option.map_map]
  rfl

theorem nobody_cond (ishead : Bool) (n : Nat) :
    (ishead || (n : Int) == Percival.Gen.Http.NOBODY_A || (n : Int) == Percival.Gen.Http.NOBODY_B) =
      Percival.Spec.HttpResp.bodiless ishead n := by
  have a : ((n : Int) == Percival.Gen.Http.NOBODY_A) = (n == 204) := by
    simp only [Percival.Gen.Http.NOBODY_A]
    rw [Bool.eq_iff_iff]; simp; omega
  have b : ((n : Int) == Percival.Gen.Http.NOBODY_B) = (n == 304) := by
    simp only [Percival.Gen.Http.NOBODY_B]
    rw [Bool.eq_iff_iff]; simp; omega
  rw [a, b]
  rfl

/-- `afterParse` for a final (non-1xx) status -/
theorem afterParse_final (st : St) (n : Nat) (hn : 200 ≤ n) (hdrs : List (List UInt8 × List UInt8)) (len : Nat) :
    afterParse st (n : Int) hdrs len =
      (if Percival.Spec.HttpResp.bodiless st.ishead n then
        .done (some { status := (n : Int), headers := hdrs, body := some [] })
      else if isChunkedTE (findHeader hdrs hTransferEncoding) then
        .goto { st with status := (n : Int), headers := hdrs, chunked := true } len .chunkedHeader
      else
      match findHeader hdrs hContentLength with
      | some clen =>
        match parsenumSize 10 false clen with
        | none => .done none
        | some k =>
          if k > st.max then tooBig { st with status := (n : Int), headers := hdrs }
          else .goto { st with status := (n : Int), headers := hdrs, readlen := k, chunked := false } len .readData
      | none => .goto { st with status := (n : Int), headers := hdrs } len .readToEof) := by
  simp only [afterParse, not_interim_cond n hn, Bool.false_eq_true, if_false, nobody_cond]
  rfl

open Percival.Spec.HttpResp in
theorem micro_final (ovf : Bool → Nat → Int) (st : St) (ishead : Bool) (max : Nat) (hr : Ready st ishead max)
    (b : Block) (hwf : b.WF 200 599) (rest : List UInt8) :
    micro ovf st .readHeader .ok (b.serialize ++ rest) =
      afterParse { st with hepos := b.serialize.length - 4 } (b.status : Int)
        (b.headers.map (fun h => (h.name, h.value))) b.serialize.length := by
  simp only [micro]
  exact readHeader_block ovf st b 200 599 (by omega) (by omega) hwf rest hr.hepos

theorem parse_dec (n : Nat) (hn : n ≤ SIZE_MAX) : parsenumSize 10 false (Percival.Spec.HttpResp.dec n) = some n := by
  have := parsenumSize_numeral 10 (Or.inl rfl) n [] ⟨by simp, by simp⟩ false (Or.inr rfl) hn
  simpa [dec_eq] using this

theorem flatten_length_ge {α : Type} (f : α → List UInt8) (k : Nat) (l : List α) (h : ∀ x ∈ l, k ≤ (f x).length) :
    k * l.length ≤ ((l.map f).flatten).length := by
  induction l with
  | nil => simp
  | cons a t ih =>
    have h1 := h a (by simp)
    have h2 := ih (fun x hx => h x (by simp [hx]))
    simp only [List.map_cons, List.flatten_cons, List.length_append, List.length_cons]
    rw [Nat.mul_add]
    omega

open Percival.Spec.HttpResp in
theorem block_length_ge (b : Block) : 4 ≤ b.serialize.length := by
  have := serialize_length b
  have := joined_blockLines_length b
  omega

open Percival.Spec.HttpResp in
/-- the final header block and what follows it, everything buffered: after `G` direct calls the
    event-loop callback ends with the response, or (read-to-EOF) with a wait which EOF turns into it -/
theorem step_final (ovf : Bool → Nat → Int) (st : St) (ishead : Bool) (max : Nat) (hr : Ready st ishead max)
    (r : Percival.Spec.HttpResp.Resp) (hwfF : r.final.WF 200 599)
    (hfr : bodiless ishead r.final.status = false → framingWF r.final.headers r.framing)
    (hmax : (expectedBody r ishead).length ≤ max) (hsz : r.framing.body.length + 2 ≤ SIZE_MAX) (c0 : Nat) :
    let tailBytes := if bodiless ishead r.final.status then [] else r.framing.serialize
    let resp : Model.Http.Resp := { status := (r.final.status : Int), headers := expectedHeaders r,
                                    body := some (expectedBody r ishead) }
    ∃ G, G ≤ (r.final.serialize ++ tailBytes).length ∧ ∀ f,
      (step ovf (f + G + 1) st .readHeader .ok (r.final.serialize ++ tailBytes) c0 = .done (some resp)) ∨
      (∃ st', step ovf (f + G + 1) st .readHeader .ok (r.final.serialize ++ tailBytes) c0 =
          .wait st' (c0 + (r.final.serialize ++ tailBytes).length) 1 .readToEof ∧
        ∀ buf, readToEof st' .eof buf = .done (some resp)) := by
  intro tailBytes resp
  have hF4 := block_length_ge r.final
  have h200 : 200 ≤ r.final.status := hwfF.2.1
  have hmicro := fun rest => micro_final ovf st ishead max hr r.final hwfF rest
  have hish := hr.ishead
  have hmx := hr.max
  cases hb : bodiless ishead r.final.status with
  | true =>
    -- no body
    refine ⟨0, Nat.zero_le _, fun f => Or.inl ?_⟩
    apply step_done
    rw [hmicro, afterParse_final _ _ h200]
    simp only [hish, hb, if_true]
    simp [resp, expectedHeaders, expectedBody, hb]
  | false =>
    have hfw := hfr hb
    have hbody : expectedBody r ishead = r.framing.body := by simp [expectedBody, hb]
    have htb : tailBytes = r.framing.serialize := by simp [tailBytes, hb]
    rw [htb]
    rw [hbody] at hmax
    cases hfm : r.framing with
    | length body tail =>
      rw [hfm] at hfw hmax hsz
      simp only [framingWF, Framing.body] at hfw hmax hsz
      refine ⟨1, by simp only [List.length_append]; omega, fun f => Or.inl ?_⟩
      have hm : micro ovf st .readHeader .ok (r.final.serialize ++ (Framing.length body tail).serialize) =
          .goto { st with hepos := r.final.serialize.length - 4, status := (r.final.status : Int),
                          headers := r.final.headers.map (fun h => (h.name, h.value)),
                          readlen := body.length, chunked := false } r.final.serialize.length .readData := by
        rw [hmicro, afterParse_final _ _ h200]
        simp only [hish, hb, Bool.false_eq_true, if_false, findHeader_map]
        rw [show hTransferEncoding = sTransferEncoding from rfl, show hContentLength = sContentLength from rfl,
          hfw.1, hfw.2]
        simp only [isChunkedTE, Bool.false_eq_true, if_false]
        rw [parse_dec body.length (by omega)]
        (try dsimp only)
        rw [if_neg (by (try dsimp only); omega)]
      rw [step_goto ovf _ st .readHeader .ok _ c0 _ _ _ hm]
      apply step_done
      have hd : (r.final.serialize ++ (Framing.length body tail).serialize).drop r.final.serialize.length = body ++ tail := by
        simp [Framing.serialize]
      rw [hd]
      simp only [micro]
      have hs2 : BodySt { st with hepos := r.final.serialize.length - 4, status := (r.final.status : Int),
                                  headers := r.final.headers.map (fun h => (h.name, h.value)),
                                  readlen := body.length, chunked := false }
          (r.final.status : Int) (r.final.headers.map (fun h => (h.name, h.value))) max false [] :=
        ⟨rfl, rfl, hmx, rfl, by simp [hr.bodylen], by simp [hr.bodyRev], hr.alloc⟩
      rw [readData_length _ _ _ max hs2 body tail rfl hmax]
      simp [resp, expectedHeaders, hbody, hfm, Framing.body]
    | chunked cs lastExt tail =>
      rw [hfm] at hfw hmax hsz
      simp only [framingWF, Framing.body] at hfw hmax hsz
      obtain ⟨hte, hcs, hlast⟩ := hfw
      have hcl : 2 * cs.length ≤ ((cs.map serializeChunk).flatten).length :=
        flatten_length_ge serializeChunk 2 cs (fun c _ => by rw [serializeChunk_eq]; simp; omega)
      refine ⟨1 + 2 * cs.length, by simp only [Framing.serialize, List.length_append]; omega, fun f => Or.inl ?_⟩
      have hm : micro ovf st .readHeader .ok (r.final.serialize ++ (Framing.chunked cs lastExt tail).serialize) =
          .goto { st with hepos := r.final.serialize.length - 4, status := (r.final.status : Int),
                          headers := r.final.headers.map (fun h => (h.name, h.value)), chunked := true }
            r.final.serialize.length .chunkedHeader := by
        rw [hmicro, afterParse_final _ _ h200]
        simp only [hish, hb, Bool.false_eq_true, if_false, findHeader_map]
        rw [show hTransferEncoding = sTransferEncoding from rfl, hte]
        have : isChunkedTE (some Percival.Spec.HttpResp.sChunked) = true := by decide
        simp only [this, if_true]
      have ef : f + (1 + 2 * cs.length) + 1 = ((f + 1) + 2 * cs.length) + 1 := by omega
      rw [ef, step_goto ovf _ st .readHeader .ok _ c0 _ _ _ hm]
      have hd : (r.final.serialize ++ (Framing.chunked cs lastExt tail).serialize).drop r.final.serialize.length =
          (cs.map serializeChunk).flatten ++ ([48] ++ lastExt ++ crlf ++ tail) := by
        simp [Framing.serialize, Percival.Spec.HttpResp.crlf, CR, LF]
      rw [hd]
      have hs2 : BodySt { st with hepos := r.final.serialize.length - 4, status := (r.final.status : Int),
                                  headers := r.final.headers.map (fun h => (h.name, h.value)), chunked := true }
          (r.final.status : Int) (r.final.headers.map (fun h => (h.name, h.value))) max true [] :=
        ⟨rfl, rfl, hmx, rfl, by simp [hr.bodylen], by simp [hr.bodyRev], hr.alloc⟩
      obtain ⟨st', hs', hstep⟩ := step_chunks ovf (r.final.status : Int) (r.final.headers.map (fun h => (h.name, h.value))) max
        cs hcs _ [] hs2
        (by simpa using hmax) hsz (f + 1) ([48] ++ lastExt ++ crlf ++ tail) (c0 + r.final.serialize.length)
      rw [hstep]
      apply step_done
      simp only [micro]
      rw [chunkedHeader_last st' _ _ max _ hs' lastExt hlast tail]
      simp [resp, expectedHeaders, hbody, hfm, Framing.body]
    | close body =>
      rw [hfm] at hfw hmax
      simp only [framingWF, Framing.body] at hfw hmax
      refine ⟨1, by simp only [List.length_append]; omega, fun f => Or.inr ?_⟩
      have hm : micro ovf st .readHeader .ok (r.final.serialize ++ (Framing.close body).serialize) =
          .goto { st with hepos := r.final.serialize.length - 4, status := (r.final.status : Int),
                          headers := r.final.headers.map (fun h => (h.name, h.value)) }
            r.final.serialize.length .readToEof := by
        rw [hmicro, afterParse_final _ _ h200]
        simp only [hish, hb, Bool.false_eq_true, if_false, findHeader_map]
        rw [show hTransferEncoding = sTransferEncoding from rfl, show hContentLength = sContentLength from rfl,
          hfw.1, hfw.2]
        simp only [isChunkedTE, Bool.false_eq_true, if_false]
      have hs2 : BodySt { st with hepos := r.final.serialize.length - 4, status := (r.final.status : Int),
                                  headers := r.final.headers.map (fun h => (h.name, h.value)) }
          (r.final.status : Int) (r.final.headers.map (fun h => (h.name, h.value))) max st.chunked [] :=
        ⟨rfl, rfl, hmx, rfl, by simp [hr.bodylen], by simp [hr.bodyRev], hr.alloc⟩
      obtain ⟨st', hs', hw⟩ := readToEof_all _ _ _ max st.chunked hs2 body hmax
      refine ⟨st', ?_, ?_⟩
      · rw [step_goto ovf _ st .readHeader .ok _ c0 _ _ _ hm]
        have hd : (r.final.serialize ++ (Framing.close body).serialize).drop r.final.serialize.length = body := by
          simp [Framing.serialize]
        rw [hd, step_wait ovf _ _ .readToEof .ok body _ _ _ _ _ (by simpa [micro] using hw)]
        simp [Framing.serialize, Nat.add_assoc]
      · intro buf
        rw [readToEof_eof st' _ _ max _ body hs' buf]
        simp [resp, expectedHeaders, hbody, hfm, Framing.body]

theorem ready_init (ishead : Bool) (max : Nat) : Ready (initSt ishead max) ishead max :=
  ⟨rfl, rfl, rfl, by simp [initSt], rfl, rfl⟩

open Percival.Spec.HttpResp in
/-- **Batch decoding**: the model run on the wire format of a well-formed response, the whole stream buffered,
    ends in the callback with exactly that response. -/
theorem decode_serialize (ovf : Bool → Nat → Int) (r : Percival.Spec.HttpResp.Resp) (ishead : Bool) (max : Nat)
    (hwf : r.WF ishead) (hmax : (expectedBody r ishead).length ≤ max) (hsz : r.framing.body.length + 2 ≤ SIZE_MAX) :
    ∃ ws, runAll ovf (whole (serialize r ishead).length) () ishead max (serialize r ishead) =
      .callback (some { status := (r.final.status : Int), headers := expectedHeaders r,
                        body := some (expectedBody r ishead) }) ws := by
  obtain ⟨hwfI, hwfF, hfr⟩ := hwf
  -- the stream: interim blocks, then the final block and what follows it
  have hdata : serialize r ishead = (r.interim.map Block.serialize).flatten ++
      (r.final.serialize ++ (if bodiless ishead r.final.status then [] else r.framing.serialize)) := by
    simp [serialize, List.append_assoc]
  generalize hI : (r.interim.map Block.serialize).flatten = I at hdata
  generalize hT : (r.final.serialize ++ (if bodiless ishead r.final.status then [] else r.framing.serialize)) = T at hdata
  have hF4 := block_length_ge r.final
  have hTlen : 4 ≤ T.length := by rw [← hT]; simp only [List.length_append]; omega
  have hIlen : r.interim.length ≤ I.length := by
    have := flatten_length_ge Block.serialize 1 r.interim (fun b _ => by have := block_length_ge b; omega)
    rw [hI] at this; omega
  rw [hdata]
  generalize hdd : I ++ T = data
  have hdl : data.length = I.length + T.length := by rw [← hdd]; simp
  have hne : data ≠ [] := by
    intro h; rw [h] at hdl; simp at hdl; omega
  rw [runAll_whole ovf ishead max data hne]
  rw [show data.length + 2 = (data.length + 1) + 1 from rfl, run_succ]
  have htk : data.take data.length = data := List.take_length
  rw [htk]
  -- interim responses
  obtain ⟨st1, hr1, hint⟩ := step_interims ovf r.interim hwfI (initSt ishead max) ishead max (ready_init ishead max)
  rw [hI] at hint
  -- final block
  obtain ⟨G, hG, hfin⟩ := step_final ovf st1 ishead max hr1 r hwfF hfr hmax hsz (0 + I.length)
  rw [hT] at hG hfin
  have hfuel : data.length + 1 = ((data.length - G - r.interim.length) + G + 1) + r.interim.length := by omega
  have hstepeq : step ovf (data.length + 1) (initSt ishead max) .readHeader .ok data 0 =
      step ovf ((data.length - G - r.interim.length) + G + 1) st1 .readHeader .ok T (0 + I.length) := by
    rw [hfuel, ← hdd, hint]
  rw [hstepeq]
  rcases hfin (data.length - G - r.interim.length) with hdone | ⟨st2, hwait, hread⟩
  · rw [hdone]
    exact ⟨_, rfl⟩
  · rw [hwait]
    have hc : 0 + I.length + T.length = data.length := by omega
    rw [hc]
    simp only [whole, Nat.sub_self]
    rw [if_neg (by omega), if_neg (by omega)]
    obtain ⟨k, hk⟩ : ∃ k, data.length + 1 = k + 1 := ⟨data.length, rfl⟩
    rw [hk, run_succ]
    have hs : step ovf (0 + 1) st2 .readToEof .eof ((data.drop data.length).take 0) 0 =
        .done (some { status := (r.final.status : Int), headers := expectedHeaders r,
                      body := some (expectedBody r ishead) }) := by
      apply step_done
      simp only [micro]
      exact hread _
    rw [hs]
    exact ⟨_, rfl⟩

end Percival.Proofs.HttpDecode
