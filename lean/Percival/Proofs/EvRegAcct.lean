import Percival.Proofs.EvRegNet
import Percival.Proofs.EvRegTimer
/-!
# C14: the event layer's own storage is accounted for exactly

`evBlocks e` counts the heap blocks the event layer (`events_immediate.c`, `events_timer.c`,
`events_network.c` on the model `EvReg`) holds in state `e`: what its two pools cache (and their grown stack
arrays), the records and queue nodes held by registrations, the timer queue's and the socket list's
structures and buffers, the pollfd array.  Every operation moves the oracle's ghost counter `Mem.live` by
exactly the change of `evBlocks` — for every oracle, on success and on every error path — and once nothing
is registered the exit handlers (`shutdown`) release all of it.
-/
namespace Percival.Proofs.EvRegAcct
open Percival.Model Percival.Model.EvReg
open Percival.Proofs.EvRegNet (regNet NetInv)
open Percival.Proofs.EvRegTimer (regImm regTimers TmInv)
open Percival.Proofs.EArray (malloc_ok malloc_fail realloc_ok realloc_fail free_facts pair_eta)

/-! ### the count -/

/-- a buffer of `alloc` bytes is a block iff `alloc ≠ 0` -/
def bb (alloc : Nat) : Int := if alloc = 0 then 0 else 1

/-- a pool holds its cached objects and, once grown, its stack array -/
def poolBlocks (p : MPool.MP) : Int := p.stack.length + (if p.dyn then 1 else 0)

/-- the timer queue: `struct timerqueue`, `struct ptrheap`, `struct elasticarray` and the array's buffer
(the per-timer records are counted with the timers) -/
def tqBlocks : Option HeapAlloc.TQA → Int
  | none => 0
  | some t => 3 + bb t.alloc

/-- the socket list `S`: its structure and its buffer -/
def sBlocks : Option Nat → Int
  | none => 0
  | some a => 1 + bb a

/-- the number of blocks the event layer holds in state `e`: the pools' cached objects and stack arrays;
an event record and a queue node per immediate event; an event record, a `struct timerrec` of
events_timer.c and a timer-queue record per timer; an event record per network registration; the timer
queue's own blocks; `S`; the pollfd array -/
def evBlocks (e : Ev) : Int :=
  poolBlocks e.recPool + poolBlocks e.qPool +
  2 * (regImm e).flatten.length + 3 * (regTimers e).length + (regNet e).length +
  tqBlocks e.tq + sBlocks e.sAlloc + bb e.fdsAlloc

/-- the one structural fact the count needs: before `init()` of events_network.c there is no socket record
and no pollfd array (`init()` resets both without freeing anything).  The first half is `NetInv.uninit`. -/
def AcctInv (e : Ev) : Prop := e.sAlloc = none → e.socks = [] ∧ e.fdsAlloc = 0

theorem acctInv_init : AcctInv ({} : Ev) := fun _ => ⟨rfl, rfl⟩

theorem acctInv_of_some {e : Ev} (h : e.sAlloc ≠ none) : AcctInv e := fun h' => absurd h' h

/-- `AcctInv` only reads three fields -/
theorem acctInv_congr {e e' : Ev} (h : AcctInv e) (h1 : e'.sAlloc = e.sAlloc) (h2 : e'.socks = e.socks)
    (h3 : e'.fdsAlloc = e.fdsAlloc) : AcctInv e' := by
  intro hs; rw [h2, h3]; exact h (by rw [← h1]; exact hs)

theorem evBlocks_init : evBlocks ({} : Ev) = 0 := by decide

/-! ### the count on the raw fields -/

/-- registrations held by a socket record -/
def cnt (r : SockRec) : Nat := (if r.reader.isSome then 1 else 0) + (if r.writer.isSome then 1 else 0)

def netCount : List SockRec → Nat
  | [] => 0
  | r :: rest => cnt r + netCount rest

theorem length_netOf : ∀ (l : List SockRec) (fd : Nat), (netOf fd l).length = netCount l
  | [], _ => rfl
  | r :: rest, fd => by
    simp only [netOf, List.length_append, length_netOf rest (fd + 1), netCount, cnt]
    cases r.reader <;> cases r.writer <;> simp

theorem length_regImm_flatten (e : Ev) : (regImm e).flatten.length = e.heads.flatten.length := by
  simp only [regImm, registry, ← List.map_flatten, List.length_map]

theorem evBlocks_raw (e : Ev) : evBlocks e =
    poolBlocks e.recPool + poolBlocks e.qPool + 2 * e.heads.flatten.length + 3 * e.timers.length +
    netCount e.socks + tqBlocks e.tq + sBlocks e.sAlloc + bb e.fdsAlloc := by
  simp only [evBlocks, length_regImm_flatten]
  simp only [regTimers, regNet, registry, List.length_map, length_netOf]

/-- the count only reads the pools, the registry and the three storage descriptors -/
theorem evBlocks_congr {e e' : Ev} (h1 : e'.recPool = e.recPool) (h2 : e'.qPool = e.qPool)
    (h3 : registry e' = registry e) (h4 : e'.tq = e.tq) (h5 : e'.sAlloc = e.sAlloc) (h6 : e'.fdsAlloc = e.fdsAlloc) :
    evBlocks e' = evBlocks e := by
  simp only [evBlocks, regImm, regTimers, regNet, h1, h2, h3, h4, h5, h6]

/-! ### the oracle's counter through the primitives -/

theorem malloc_live (m : Mem) (sz : Nat) :
    (m.malloc sz).2.live = m.live + (if (m.malloc sz).1 then 1 else 0) := by
  cases h : m.f m.n sz <;> simp [Mem.malloc, h]

theorem realloc_live (m : Mem) (w : Bool) (sz : Nat) :
    (m.realloc w sz).2.live = m.live + (if (m.realloc w sz).1 && w then 1 else 0) := by
  cases h : m.f m.n sz <;> cases w <;> simp [Mem.realloc, h]

theorem free_live (m : Mem) (b : Bool) : (m.free b).live = m.live - (if b then 0 else 1) := (free_facts m b).2.1

/-- `mpool_malloc`: the counter moves with the pool's holdings, plus the object handed out -/
theorem pool_malloc_live (p : MPool.MP) (len : Nat) (m : Mem) :
    (MPool.malloc p len m).2.2.live - m.live =
      poolBlocks (MPool.malloc p len m).2.1 - poolBlocks p + (if (MPool.malloc p len m).1.isSome then 1 else 0) := by
  unfold MPool.malloc
  simp only
  cases hd : p.dyn <;>
  cases hst : p.stack with
  | cons x rest => simp [poolBlocks, hst, hd]; omega
  | nil =>
    simp only
    cases hr : (m.malloc len).1
    · rw [pair_eta _ hr]
      simp [poolBlocks, hst, hd, (malloc_fail hr).2.1]
    · rw [pair_eta _ hr]
      simp [poolBlocks, hst, hd, (malloc_ok hr).2.1]; omega

/-- `mpool_free`: the object goes into the cache or is freed (and the stack array may be replaced) -/
theorem pool_free_live (p : MPool.MP) (obj : Nat) (m : Mem) :
    (MPool.free p obj m).2.live - m.live = poolBlocks (MPool.free p obj m).1 - poolBlocks p - 1 := by
  unfold MPool.free
  split
  · simp only [poolBlocks, List.length_cons]; omega
  · split
    · cases hr : (m.malloc ((p.allocsize * 2 * 8) % EArray.SZ)).1
      · rw [pair_eta _ hr]
        cases hd : p.dyn <;> simp [MPool.resetStats, poolBlocks, free_live, (malloc_fail hr).2.1, hd] <;> omega
      · rw [pair_eta _ hr]
        cases hd : p.dyn <;> simp [MPool.resetStats, poolBlocks, free_live, (malloc_ok hr).2.1, hd] <;> omega
    · cases hd : p.dyn <;> simp [MPool.resetStats, poolBlocks, free_live, hd] <;> omega

/-- `mpool_atexit` releases everything the pool holds -/
theorem pool_atexit_live (p : MPool.MP) (m : Mem) : (MPool.atexit p m).2.live = m.live - poolBlocks p := by
  have hf := (Percival.Proofs.MPool.foldl_free_live p.stack m).1
  simp only [MPool.atexit, poolBlocks]
  cases hd : p.dyn
  · simp only [Bool.false_eq_true, if_false, hf]; omega
  · simp only [if_true, free_live, hf]; simp; omega

/-! ### the elastic array (no invariant needed for the count) -/

theorem resize_live (a : EArray.EA) (n : Nat) (m : Mem) :
    (EArray.resize a n m).2.2.live - m.live = bb (EArray.resize a n m).2.1.alloc - bb a.alloc := by
  unfold EArray.resize
  simp only
  split
  · simp only [free_live, bb]
    by_cases ha : a.alloc = 0 <;> simp [ha]; omega
  · rename_i h0
    split
    · cases hr : (m.realloc (a.alloc == 0) (EArray.wantAlloc a.alloc n)).1
      · rw [pair_eta _ hr]; simp only [(realloc_fail hr).2.1]; omega
      · rw [pair_eta _ hr]
        simp only [(realloc_ok hr).2.1, bb, h0, if_false]
        by_cases ha : a.alloc = 0 <;> simp [ha]; omega
    · simp

theorem resizeRec_live (a : EArray.EA) (n : Nat) (r : Spec.DS.RecLen) (m : Mem) :
    (EArray.resizeRec a n r m).2.2.live - m.live = bb (EArray.resizeRec a n r m).2.1.alloc - bb a.alloc := by
  unfold EArray.resizeRec
  split
  · simp
  · exact resize_live _ _ _

theorem resizeRec_false (a : EArray.EA) (n : Nat) (r : Spec.DS.RecLen) (m : Mem)
    (h : (EArray.resizeRec a n r m).1 = false) : (EArray.resizeRec a n r m).2.1 = a := by
  unfold EArray.resizeRec at h ⊢
  split
  · rfl
  · rename_i hg
    simp only [hg, if_false] at h
    unfold EArray.resize at h ⊢
    simp only at h ⊢
    split
    · rename_i h0; simp [h0] at h
    · rename_i h0
      simp only [h0, if_false] at h
      split
      · rename_i hne
        rw [if_pos hne] at h
        cases hr : (m.realloc (a.alloc == 0) (EArray.wantAlloc a.alloc (n * r.val % EArray.SZ))).1
        · rw [pair_eta _ hr]
        · rw [pair_eta _ hr] at h; simp at h
      · rename_i hne; rw [if_neg hne] at h; simp at h

theorem append_live (a : EArray.EA) (d : List UInt8) (k : Nat) (r : Spec.DS.RecLen) (m : Mem) :
    (EArray.append a d k r m).2.2.live - m.live = bb (EArray.append a d k r m).2.1.alloc - bb a.alloc := by
  unfold EArray.append
  simp only
  split
  · simp
  · have := resize_live a ((a.size + k * r.val % EArray.SZ) % EArray.SZ) m
    split
    · rename_i heq; rw [heq] at this; exact this
    · rename_i heq; rw [heq] at this
      split
      · split
        · exact this
        · split <;> exact this
      · exact this

theorem shrink_live (a : EArray.EA) (k : Nat) (r : Spec.DS.RecLen) (m : Mem) :
    (EArray.shrink a k r m).2.live - m.live = bb (EArray.shrink a k r m).1.alloc - bb a.alloc := by
  unfold EArray.shrink
  simp only
  generalize (if k > EArray.SIZE_MAX / r.val ∨ k * r.val % EArray.SZ > a.size then 0
    else a.size - k * r.val % EArray.SZ) = ns
  have := resize_live a ns m
  split <;> (rename_i heq; rw [heq] at this; exact this)

theorem eaFree_live (a : EArray.EA) (m : Mem) : (EArray.free a m).live = m.live - 1 - bb a.alloc := by
  simp only [EArray.free, free_live, bb]
  by_cases ha : a.alloc = 0 <;> simp [ha]

/-- `elasticarray_init`: structure and buffer on success, nothing on failure -/
theorem eaInit_live (k : Nat) (r : Spec.DS.RecLen) (m : Mem) :
    match EArray.init k r m with
    | (some a, m') => m'.live - m.live = 1 + bb a.alloc
    | (none, m') => m'.live = m.live := by
  unfold EArray.init
  cases hr : (m.malloc EArray.structSize).1
  · rw [pair_eta _ hr]; exact (malloc_fail hr).2.1
  · rw [pair_eta _ hr]
    dsimp only
    have h2 := resizeRec_live { size := 0, alloc := 0, buf := [] } k r (m.malloc EArray.structSize).2
    have hm := (malloc_ok hr).2.1
    rcases hres : EArray.resizeRec { size := 0, alloc := 0, buf := [] } k r (m.malloc EArray.structSize).2
      with ⟨ok, a, m2⟩
    rw [hres] at h2
    have h2' : m2.live - (m.malloc EArray.structSize).2.live = bb a.alloc - bb 0 := h2
    have hb0 : bb 0 = 0 := rfl
    cases ok
    · dsimp only; rw [eaFree_live]; omega
    · dsimp only; omega

/-! ### `ptrheap` and `timerqueue` -/

theorem heapInit_live (m : Mem) :
    match HeapAlloc.init m with
    | (some ha, m') => m'.live - m.live = 2 + bb ha.alloc
    | (none, m') => m'.live = m.live := by
  unfold HeapAlloc.init
  cases hr : (m.malloc HeapAlloc.structSize).1
  · rw [pair_eta _ hr]; exact (malloc_fail hr).2.1
  · rw [pair_eta _ hr]
    dsimp only
    have h2 := eaInit_live 0 SeqMap.ptrLen (m.malloc HeapAlloc.structSize).2
    have hm := (malloc_ok hr).2.1
    rcases hres : EArray.init 0 SeqMap.ptrLen (m.malloc HeapAlloc.structSize).2 with ⟨oa, m2⟩
    rw [hres] at h2
    cases oa
    · dsimp only at h2 ⊢; rw [free_live]; simp; omega
    · dsimp only at h2 ⊢; omega

theorem tqInit_live (m : Mem) :
    match HeapAlloc.tqInit m with
    | (some t, m') => m'.live - m.live = tqBlocks (some t)
    | (none, m') => m'.live = m.live := by
  unfold HeapAlloc.tqInit
  cases hr : (m.malloc HeapAlloc.tqStructSize).1
  · rw [pair_eta _ hr]; exact (malloc_fail hr).2.1
  · rw [pair_eta _ hr]
    dsimp only
    have h2 := heapInit_live (m.malloc HeapAlloc.tqStructSize).2
    have hm := (malloc_ok hr).2.1
    rcases hres : HeapAlloc.init (m.malloc HeapAlloc.tqStructSize).2 with ⟨oa, m2⟩
    rw [hres] at h2
    cases oa
    · dsimp only at h2 ⊢; rw [free_live]; simp; omega
    · dsimp only at h2 ⊢; simp only [tqBlocks]; omega

/-- `timerqueue_add`: the record if it succeeds; the array's buffer may appear -/
theorem tqAdd_live (t : HeapAlloc.TQA) (sec usec : Int) (ptr : Nat) (m : Mem) :
    ∀ R, HeapAlloc.tqAdd t sec usec ptr m = R →
    R.2.2.live - m.live = bb R.2.1.alloc - bb t.alloc + (if R.1.isSome then 1 else 0) := by
  intro R hR
  unfold HeapAlloc.tqAdd at hR
  cases hr : (m.malloc HeapAlloc.tqRecSize).1
  · rw [pair_eta _ hr] at hR; subst hR; simp [(malloc_fail hr).2.1]
  · rw [pair_eta _ hr] at hR
    dsimp only at hR
    have hm := (malloc_ok hr).2.1
    have h2 := append_live (HeapAlloc.shape t.q.h.a.size t.alloc) (SeqMap.encPtr m.n) 1 SeqMap.ptrLen
      (m.malloc HeapAlloc.tqRecSize).2
    have hsh : (HeapAlloc.shape t.q.h.a.size t.alloc).alloc = t.alloc := rfl
    rw [hsh] at h2
    rcases hres : EArray.append (HeapAlloc.shape t.q.h.a.size t.alloc) (SeqMap.encPtr m.n) 1 SeqMap.ptrLen
      (m.malloc HeapAlloc.tqRecSize).2 with ⟨st, a', m2⟩
    rw [hres] at hR h2
    cases st <;> (dsimp only at hR h2; subst hR; simp [free_live]; omega)

/-- `timerqueue_delete`: the record goes; the array's buffer may go -/
theorem tqDelete_live {t t' : HeapAlloc.TQA} {r : Nat} {m m' : Mem} (h : HeapAlloc.tqDelete t r m = some (t', m')) :
    m'.live - m.live = bb t'.alloc - bb t.alloc - 1 := by
  unfold HeapAlloc.tqDelete at h
  split at h
  · cases h
  · have h2 := shrink_live (HeapAlloc.shape t.q.h.a.size t.alloc) 1 SeqMap.ptrLen m
    rcases hres : EArray.shrink (HeapAlloc.shape t.q.h.a.size t.alloc) 1 SeqMap.ptrLen m with ⟨a', m1⟩
    rw [hres] at h h2
    simp only [Option.some.injEq, Prod.mk.injEq] at h
    obtain ⟨rfl, rfl⟩ := h
    simp only [HeapAlloc.shape, free_live] at h2 ⊢
    simp; omega

/-- `timerqueue_free` of a queue (its records are the timers') -/
theorem tqFree_live (t : HeapAlloc.TQA) (m : Mem) : (HeapAlloc.tqFree t m).live = m.live - tqBlocks (some t) := by
  simp only [HeapAlloc.tqFree, HeapAlloc.free, HeapAlloc.heapOf, eaFree_live, free_live, HeapAlloc.shape, tqBlocks]
  simp; omega

/-! ### `events_mkrec` / `events_freerec` -/

open Percival.Proofs.EvRegTimer (mkrec_eq freerec_eq immReg_eq tmReg_eq tmQ tmBody) in
theorem mkrec_live (e : Ev) (m : Mem) :
    (mkrec e m).2.2.live - m.live =
      evBlocks (mkrec e m).2.1 - evBlocks e + (if (mkrec e m).1.isSome then 1 else 0) := by
  have h := pool_malloc_live e.recPool recSize m
  rw [mkrec_eq]
  simp only [evBlocks_raw]
  omega

open Percival.Proofs.EvRegTimer (freerec_eq) in
theorem freerec_live (e : Ev) (rid : Nat) (m : Mem) :
    (freerec e rid m).2.live - m.live = evBlocks (freerec e rid m).1 - evBlocks e - 1 := by
  have h := pool_free_live e.recPool rid m
  rw [freerec_eq]
  simp only [evBlocks_raw]
  omega

/-! ### immediate events -/

theorem flatten_modify_length {α : Type} (x : α) : ∀ (l : List (List α)) (i : Nat), i < l.length →
    (l.modify i (· ++ [x])).flatten.length = l.flatten.length + 1
  | [], i, h => by simp at h
  | a :: l, 0, _ => by simp; omega
  | a :: l, i + 1, h => by
    have := flatten_modify_length x l i (by simpa using h)
    simp only [List.modify_succ_cons, List.flatten_cons, List.length_append, this]; omega

theorem length_filter_ne {α : Type} (f : α → Nat) : ∀ (l : List α) (a : α), a ∈ l → (l.map f).Nodup →
    (l.filter (fun x => f x != f a)).length + 1 = l.length
  | [], _, h, _ => by cases h
  | x :: rest, a, ha, hnd => by
    simp only [List.map_cons, List.nodup_cons] at hnd
    rcases List.mem_cons.1 ha with rfl | ha
    · have : rest.filter (fun x => f x != f a) = rest := by
        apply List.filter_eq_self.2
        intro y hy
        have : f y ≠ f a := fun h => hnd.1 (h ▸ List.mem_map_of_mem hy)
        simpa using this
      simp [this]
    · have hne : f x ≠ f a := fun h => hnd.1 (h ▸ List.mem_map_of_mem ha)
      have hb : (f x != f a) = true := by simpa using hne
      simp only [List.filter_cons, hb, if_true, List.length_cons]
      have := length_filter_ne f rest a ha hnd.2
      omega

open Percival.Proofs.EvRegTimer (immReg_eq) in
/-- `events_immediate_register` (needs the queue `prio` to exist: `prio < 32`) -/
theorem immReg_acct (e : Ev) (id prio : Nat) (m : Mem) (hp : prio < (regImm e).length) :
    (immReg e id prio m).2.2.live - m.live = evBlocks (immReg e id prio m).2.1 - evBlocks e := by
  have hp' : prio < e.heads.length := by simpa [regImm, registry] using hp
  rw [immReg_eq]
  have l1 := pool_malloc_live e.recPool recSize m
  rcases h1 : MPool.malloc e.recPool recSize m with ⟨o, p, m1⟩
  rw [h1] at l1
  cases o with
  | none =>
    simp only [evBlocks_raw]
    simp at l1
    omega
  | some rid =>
    dsimp only
    have l2 := pool_malloc_live e.qPool qSize m1
    rcases h2 : MPool.malloc e.qPool qSize m1 with ⟨oq, qp, m2⟩
    rw [h2] at l2
    cases oq with
    | none =>
      have l3 := pool_free_live p rid m2
      simp only [evBlocks_raw]
      simp at l1 l2
      omega
    | some qid =>
      simp only [evBlocks_raw, flatten_modify_length _ _ _ hp']
      simp at l1 l2
      omega

theorem immReg_acctInv (e : Ev) (id prio : Nat) (m : Mem) (h : AcctInv e) : AcctInv (immReg e id prio m).2.1 := by
  obtain ⟨_, _, h3, h4, _, h6⟩ := Percival.Proofs.EvRegTimer.immReg_other e id prio m
  exact acctInv_congr h h3 h4 h6

/-- `events_immediate_cancel` (ids of pending immediate events are distinct) -/
theorem immCancel_acct (e : Ev) (id : Nat) (m : Mem) (hnd : (regImm e).flatten.Nodup) {e' : Ev} {m' : Mem}
    (h : immCancel e id m = some (e', m')) : m'.live - m.live = evBlocks e' - evBlocks e := by
  have hnd' : (e.heads.flatten.map (·.id)).Nodup := by
    simpa [regImm, registry, List.map_flatten] using hnd
  unfold immCancel at h
  cases hfind : e.heads.flatten.find? (·.id == id) with
  | none => rw [hfind] at h; cases h
  | some ent =>
    rw [hfind] at h
    have hmem := List.mem_of_find?_eq_some hfind
    have hid : ent.id = id := by simpa using List.find?_some hfind
    subst hid
    have hlen := length_filter_ne (·.id) e.heads.flatten ent hmem hnd'
    have hfl : (e.heads.map (·.filter (·.id != ent.id))).flatten = e.heads.flatten.filter (·.id != ent.id) := by
      rw [List.filter_flatten]
    simp only [Percival.Proofs.EvRegTimer.freerec_eq, Option.some.injEq, Prod.mk.injEq] at h
    obtain ⟨rfl, rfl⟩ := h
    have l1 := pool_free_live e.recPool ent.rid m
    have l2 := pool_free_live e.qPool ent.qid (MPool.free e.recPool ent.rid m).2
    simp only [evBlocks_raw, hfl]
    omega

theorem immCancel_acctInv (e : Ev) (id : Nat) (m : Mem) (ha : AcctInv e) {e' : Ev} {m' : Mem}
    (h : immCancel e id m = some (e', m')) : AcctInv e' := by
  unfold immCancel at h
  split at h
  · cases h
  · simp only [Percival.Proofs.EvRegTimer.freerec_eq, Option.some.injEq, Prod.mk.injEq] at h
    obtain ⟨rfl, rfl⟩ := h
    exact ha

/-! ### timers -/

open Percival.Proofs.EvRegTimer (tmQ tmBody tmReg_eq) in
/-- creating the timer queue when it is missing -/
theorem tmQ_live (e : Ev) (m : Mem) :
    match tmQ e m with
    | (some t, m0) => m0.live - m.live = tqBlocks (some t) - tqBlocks e.tq
    | (none, m0) => m0.live = m.live := by
  unfold tmQ
  cases htq : e.tq with
  | some t => simp
  | none =>
    dsimp only
    have := tqInit_live m
    rcases hres : HeapAlloc.tqInit m with ⟨o, m0⟩
    rw [hres] at this
    cases o with
    | none => exact this
    | some t => dsimp only at this ⊢; simp only [this, tqBlocks]; omega

open Percival.Proofs.EvRegTimer (tmBody) in
theorem tmBody_live (e : Ev) (t : HeapAlloc.TQA) (id : Nat) (usec now : Int) (m0 : Mem) :
    ∀ R, tmBody e t id usec now m0 = R →
    R.2.2.live - m0.live = evBlocks R.2.1 - evBlocks { e with tq := some t } := by
  intro R hR
  unfold tmBody at hR
  have l1 := pool_malloc_live e.recPool recSize m0
  rcases h1 : MPool.malloc e.recPool recSize m0 with ⟨o, p, m1⟩
  rw [h1] at hR l1
  cases o with
  | none =>
    dsimp only at hR; subst hR
    simp only [evBlocks_raw]
    simp at l1; omega
  | some rid =>
    dsimp only at hR
    simp at l1
    cases hr : (m1.malloc tmSize).1
    · rw [pair_eta _ hr] at hR
      dsimp only at hR; subst hR
      have hm := (malloc_fail hr).2.1
      have l3 := pool_free_live p rid (m1.malloc tmSize).2
      simp only [evBlocks_raw]
      omega
    · rw [pair_eta _ hr] at hR
      dsimp only at hR
      have hm := (malloc_ok hr).2.1
      have l3 := tqAdd_live t (secOf (now + usec)) (usecOf (now + usec)) m1.n (m1.malloc tmSize).2 _ rfl
      rcases h3 : HeapAlloc.tqAdd t (secOf (now + usec)) (usecOf (now + usec)) m1.n (m1.malloc tmSize).2
        with ⟨oc, t', m3⟩
      rw [h3] at hR l3
      cases oc with
      | none =>
        dsimp only at hR; subst hR
        have l4 := pool_free_live p rid (m3.free false)
        simp only [evBlocks_raw, tqBlocks, free_live] at l4 ⊢
        simp at l3 l4 ⊢; omega
      | some r =>
        dsimp only at hR; subst hR
        simp only [evBlocks_raw, tqBlocks, List.length_cons]
        simp at l3 ⊢; omega

open Percival.Proofs.EvRegTimer (tmQ tmBody tmReg_eq) in
/-- `events_timer_register`, for every oracle and on every path (no hypothesis needed) -/
theorem tmReg_acct (e : Ev) (id : Nat) (usec now : Int) (m : Mem) :
    (tmReg e id usec now m).2.2.live - m.live = evBlocks (tmReg e id usec now m).2.1 - evBlocks e := by
  rw [tmReg_eq]
  have l0 := tmQ_live e m
  rcases hq : tmQ e m with ⟨ot, m0⟩
  rw [hq] at l0
  cases ot with
  | none => dsimp only at l0 ⊢; omega
  | some t =>
    dsimp only at l0 ⊢
    have l1 := tmBody_live e t id usec now m0 _ rfl
    have : evBlocks { e with tq := some t } = evBlocks e + (tqBlocks (some t) - tqBlocks e.tq) := by
      simp only [evBlocks_raw]; omega
    omega

theorem tmReg_acctInv (e : Ev) (id : Nat) (usec now : Int) (m : Mem) (h : AcctInv e) :
    AcctInv (tmReg e id usec now m).2.1 := by
  obtain ⟨_, _, _, h4, h5, _, h7⟩ := Percival.Proofs.EvRegTimer.tmReg_other e id usec now m
  exact acctInv_congr h h4 h5 h7

/-- `events_timer_cancel` (ids of registered timers are distinct: `TmInv.nodup`) -/
theorem tmCancel_acct' (e : Ev) (id : Nat) (m : Mem) (hnd : (regTimers e).Nodup) {e' : Ev} {m' : Mem}
    (h : tmCancel e id m = some (e', m')) : m'.live - m.live = evBlocks e' - evBlocks e := by
  have hnd' : (e.timers.map (·.id)).Nodup := hnd
  unfold tmCancel at h
  cases hfind : e.timers.find? (·.id == id) with
  | none => rw [hfind] at h; cases htq : e.tq <;> rw [htq] at h <;> cases h
  | some ent =>
    cases htq : e.tq with
    | none => rw [hfind, htq] at h; cases h
    | some t =>
      rw [hfind, htq] at h
      dsimp only at h
      have hmem := List.mem_of_find?_eq_some hfind
      have hid : ent.id = id := by simpa using List.find?_some hfind
      subst hid
      have hlen := length_filter_ne (·.id) e.timers ent hmem hnd'
      cases hdel : HeapAlloc.tqDelete t ent.tqr m with
      | none => rw [hdel] at h; cases h
      | some r =>
        obtain ⟨t', m1⟩ := r
        rw [hdel] at h
        have l1 := tqDelete_live hdel
        simp only [Percival.Proofs.EvRegTimer.freerec_eq, Option.some.injEq, Prod.mk.injEq] at h
        obtain ⟨rfl, rfl⟩ := h
        have l2 := pool_free_live e.recPool ent.rid m1
        simp only [evBlocks_raw, tqBlocks, htq, free_live]
        simp; omega

theorem tmCancel_acct (e : Ev) (id : Nat) (m : Mem) (hi : TmInv e m) {e' : Ev} {m' : Mem}
    (h : tmCancel e id m = some (e', m')) : m'.live - m.live = evBlocks e' - evBlocks e :=
  tmCancel_acct' e id m hi.nodup h

theorem tmCancel_acctInv (e : Ev) (id : Nat) (m : Mem) (ha : AcctInv e) {e' : Ev} {m' : Mem}
    (h : tmCancel e id m = some (e', m')) : AcctInv e' := by
  unfold tmCancel at h
  split at h
  · split at h
    · cases h
    · simp only [Percival.Proofs.EvRegTimer.freerec_eq, Option.some.injEq, Prod.mk.injEq] at h
      obtain ⟨rfl, rfl⟩ := h
      exact ha
  · cases h

/-! ### sockets -/

open Percival.Proofs.EvRegNet (growS growPoll regAt netReg_eq bitOf)

theorem netCount_set : ∀ (l : List SockRec) (s : Nat) (r r' : SockRec), l[s]? = some r →
    netCount (l.set s r') + cnt r = netCount l + cnt r'
  | [], s, r, r', h => by simp at h
  | x :: l, 0, r, r', h => by
    simp only [List.getElem?_cons_zero, Option.some.injEq] at h
    subst h
    simp only [List.set_cons_zero, netCount]; omega
  | x :: l, s + 1, r, r', h => by
    have := netCount_set l s r r' (by simpa using h)
    simp only [List.set_cons_succ, netCount]; omega

theorem netCount_append_empty (l : List SockRec) (k : Nat) :
    netCount (l ++ List.replicate k SockRec.empty) = netCount l := by
  induction l with
  | nil =>
    induction k with
    | zero => rfl
    | succ k ih => simpa [List.replicate_succ, netCount, cnt, SockRec.empty] using ih
  | cons x l ih => simp only [List.cons_append, netCount, ih]

theorem cnt_setSlot_some (rec : SockRec) (w : Bool) (p : Option Nat) (x : Nat × Nat) (h : slot rec w = none) :
    cnt (setSlot { rec with pollpos := p } w (some x)) = cnt rec + 1 := by
  cases w <;> simp [slot] at h <;> simp [setSlot, cnt, h] <;> omega

theorem cnt_setSlot_none (rec : SockRec) (w : Bool) (x : Nat × Nat) (h : slot rec w = some x) :
    cnt (setSlot rec w none) + 1 = cnt rec := by
  cases w <;> simp [slot] at h <;> simp [setSlot, cnt, h] <;> omega

/-- `init()` of events_network.c -/
theorem netInit_acct (e : Ev) (m : Mem) (ha : AcctInv e) :
    (netInit e m).2.2.live - m.live = evBlocks (netInit e m).2.1 - evBlocks e ∧ AcctInv (netInit e m).2.1 := by
  unfold netInit
  cases hsa : e.sAlloc with
  | some a => exact ⟨by simp, ha⟩
  | none =>
    dsimp only
    have := eaInit_live 0 sockLen m
    have hu := ha hsa
    rcases hi : EArray.init 0 sockLen m with ⟨o, m'⟩
    rw [hi] at this
    cases o with
    | none => dsimp only at this ⊢; exact ⟨by omega, ha⟩
    | some a =>
      dsimp only at this ⊢
      refine ⟨?_, fun h => by cases h⟩
      simp only [evBlocks_raw, hsa, hu.1, hu.2, sBlocks, netCount, bb]
      simp only [bb] at this
      omega

theorem growS_acct (e0 : Ev) (sal s : Nat) (m0 : Mem) (hs : e0.sAlloc = some sal) (ha : AcctInv e0) :
    (growS e0 sal s m0).2.2.live - m0.live = evBlocks (growS e0 sal s m0).2.1 - evBlocks e0 ∧
    AcctInv (growS e0 sal s m0).2.1 ∧ (growS e0 sal s m0).2.1.sAlloc ≠ none := by
  unfold growS
  split
  · have h := resizeRec_live (sShape e0.socks.length sal) (s + 1) sockLen m0
    rcases hr : EArray.resizeRec (sShape e0.socks.length sal) (s + 1) sockLen m0 with ⟨ok, a', m1⟩
    rw [hr] at h
    have hsh : (sShape e0.socks.length sal).alloc = sal := rfl
    rw [hsh] at h
    have hfa := resizeRec_false (sShape e0.socks.length sal) (s + 1) sockLen m0
    rw [hr] at hfa
    cases ok
    · dsimp only at h hfa ⊢
      have : a'.alloc = sal := by rw [hfa rfl]; exact hsh
      rw [this] at h
      exact ⟨by omega, ha, by simp [hs]⟩
    · dsimp only at h ⊢
      refine ⟨?_, acctInv_of_some (by simp), by simp⟩
      simp only [evBlocks_raw, netCount_append_empty, hs, sBlocks]
      omega
  · exact ⟨by simp, ha, by simp [hs]⟩

theorem growPoll_acct (e2 : Ev) (pollpos : Option Nat) (s : Nat) (m2 : Mem) :
    (growPoll e2 pollpos s m2).2.2.live - m2.live = evBlocks (growPoll e2 pollpos s m2).2.1 - evBlocks e2 ∧
    ((growPoll e2 pollpos s m2).2.1.fdsAlloc = 0 → e2.fdsAlloc = 0) := by
  unfold growPoll
  cases pollpos with
  | some pp => simp
  | none =>
    dsimp only
    split
    · cases hr : (m2.realloc (e2.fdsAlloc == 0) ((if e2.fdsAlloc = 0 then 16 else e2.fdsAlloc * 2) * pollfdSize)).1
      · rw [pair_eta _ hr]
        dsimp only
        exact ⟨by simp only [(realloc_fail hr).2.1]; omega, id⟩
      · rw [pair_eta _ hr]
        dsimp only
        rw [(realloc_ok hr).2.1]
        by_cases h0 : e2.fdsAlloc = 0
        · simp only [evBlocks_raw, h0, bb]; simp; omega
        · refine ⟨?_, fun h => ?_⟩
          · have : e2.fdsAlloc * 2 ≠ 0 := by omega
            simp only [evBlocks_raw, h0, bb, this, if_false]; simp [h0]
          · simp only [h0, if_false] at h; omega
    · exact ⟨by simp only [evBlocks_raw]; omega, id⟩

theorem regAt_acct (e1 : Ev) (id s : Nat) (w : Bool) (m1 : Mem) (ha : AcctInv e1) (hs : e1.sAlloc ≠ none) :
    (regAt e1 id s w m1).2.2.live - m1.live = evBlocks (regAt e1 id s w m1).2.1 - evBlocks e1 ∧
    AcctInv (regAt e1 id s w m1).2.1 := by
  unfold regAt
  cases hsk : e1.socks[s]? with
  | none => exact ⟨by simp, ha⟩
  | some rec =>
    dsimp only
    split
    · exact ⟨by simp, ha⟩
    · rename_i hsl
      have hsl : slot rec w = none := by simpa using hsl
      have hmk := Percival.Proofs.EvRegNet.mkrec_spec e1 m1
      have lmk := mkrec_live e1 m1
      rcases hmkr : mkrec e1 m1 with ⟨o, e2, m2⟩
      rw [hmkr] at hmk lmk
      dsimp only at hmk lmk
      have ha2 : AcctInv e2 := acctInv_congr ha hmk.2.2.1 hmk.2.2.2.1 hmk.2.2.2.2.2.1
      cases o with
      | none => dsimp only; simp at lmk; exact ⟨by omega, ha2⟩
      | some rid =>
        dsimp only
        simp at lmk
        have hgp := Percival.Proofs.EvRegNet.growPoll_spec e2 rec.pollpos s m2
        have lgp := growPoll_acct e2 rec.pollpos s m2
        rcases hgpr : growPoll e2 rec.pollpos s m2 with ⟨opp, e3, m3⟩
        rw [hgpr] at hgp lgp
        dsimp only at hgp lgp
        have hs3 : e3.sAlloc ≠ none := by rw [hgp.2.2.1, hmk.2.2.1]; exact hs
        cases opp with
        | none =>
          dsimp only
          have lfr := freerec_live e3 rid m3
          have hfr := Percival.Proofs.EvRegNet.freerec_spec e3 rid m3
          exact ⟨by omega, acctInv_of_some (by rw [hfr.2.2.1]; exact hs3)⟩
        | some pp =>
          dsimp only
          refine ⟨?_, acctInv_of_some hs3⟩
          have hsk3 : e3.socks[s]? = some rec := by rw [hgp.2.2.2.1, hmk.2.2.2.1]; exact hsk
          have hc := netCount_set e3.socks s rec (setSlot { rec with pollpos := some pp } w (some (rid, id))) hsk3
          rw [cnt_setSlot_some rec w (some pp) (rid, id) hsl] at hc
          have : evBlocks { e3 with socks := e3.socks.set s (setSlot { rec with pollpos := some pp } w (some (rid, id)))
                                    fds := e3.fds.modify pp (fun p => (p.1, p.2 ||| bitOf w)) } = evBlocks e3 + 1 := by
            simp only [evBlocks_raw]; omega
          omega

/-- `events_network_register`, for every oracle and every outcome -/
theorem netReg_master (e : Ev) (id s : Nat) (w : Bool) (m : Mem) (ha : AcctInv e) :
    (netReg e id s w m).2.2.live - m.live = evBlocks (netReg e id s w m).2.1 - evBlocks e ∧
    AcctInv (netReg e id s w m).2.1 := by
  rw [netReg_eq]
  have hi := netInit_acct e m ha
  have hsp := (Percival.Proofs.EvRegNet.netInit_spec e m).2.2.2.1
  rcases hni : netInit e m with ⟨ok0, e0, m0⟩
  rw [hni] at hi hsp
  dsimp only at hi hsp
  cases ok0
  · exact hi
  · dsimp only
    cases hsa : e0.sAlloc with
    | none => exact hi
    | some sal =>
      dsimp only
      have hg := growS_acct e0 sal s m0 hsa hi.2
      rcases hgr : growS e0 sal s m0 with ⟨ok1, e1, m1⟩
      rw [hgr] at hg
      dsimp only at hg
      cases ok1
      · dsimp only; exact ⟨by omega, hg.2.1⟩
      · dsimp only
        have hr := regAt_acct e1 id s w m1 hg.2.1 hg.2.2
        exact ⟨by omega, hr.2⟩

theorem netReg_acct (e : Ev) (id s : Nat) (w : Bool) (m : Mem) (ha : AcctInv e) :
    (netReg e id s w m).2.2.live - m.live = evBlocks (netReg e id s w m).2.1 - evBlocks e :=
  (netReg_master e id s w m ha).1

theorem netReg_acctInv (e : Ev) (id s : Nat) (w : Bool) (m : Mem) (ha : AcctInv e) : AcctInv (netReg e id s w m).2.1 :=
  (netReg_master e id s w m ha).2

/-- `events_network_cancel`, for every oracle and every outcome (registered or not) -/
theorem netCancel_master (e : Ev) (s : Nat) (w : Bool) (m : Mem) (ha : AcctInv e) :
    (netCancel e s w m).2.2.live - m.live = evBlocks (netCancel e s w m).2.1 - evBlocks e ∧
    AcctInv (netCancel e s w m).2.1 := by
  unfold netCancel
  have hi := netInit_acct e m ha
  have hsp := (Percival.Proofs.EvRegNet.netInit_spec e m).2.2.2.1
  rcases hni : netInit e m with ⟨ok0, e0, m0⟩
  rw [hni] at hi hsp
  dsimp only at hi hsp
  cases ok0
  · exact hi
  · dsimp only
    have hs0 : e0.sAlloc ≠ none := (hsp rfl).1
    cases hs : e0.socks[s]? with
    | none => exact hi
    | some rec =>
      dsimp only
      cases hsl : slot rec w with
      | none => exact hi
      | some p =>
        obtain ⟨rid, x⟩ := p
        dsimp only
        cases hpp : rec.pollpos with
        | none => exact hi
        | some pp =>
          dsimp only
          have lfr := freerec_live e0 rid m0
          have hfr := Percival.Proofs.EvRegNet.freerec_spec e0 rid m0
          rcases hfrr : freerec e0 rid m0 with ⟨e1, m1⟩
          rw [hfrr] at lfr hfr
          dsimp only at lfr hfr ⊢
          have hco := Percival.Proofs.EvRegNet.clearbit_other
            { e1 with socks := e1.socks.set s (setSlot rec w none) } pp (if w = true then POLLOUT else POLLIN)
          have hs1 : e1.socks[s]? = some rec := by rw [hfr.2.2.2.1]; exact hs
          have hc := netCount_set e1.socks s rec (setSlot rec w none) hs1
          have hc2 := cnt_setSlot_none rec w (rid, x) hsl
          have h1 : evBlocks (clearbit { e1 with socks := e1.socks.set s (setSlot rec w none) } pp
              (if w = true then POLLOUT else POLLIN)) = evBlocks { e1 with socks := e1.socks.set s (setSlot rec w none) } :=
            evBlocks_congr hco.2.2.1 hco.1.2.2.2.2 hco.2.2.2.2 hco.1.2.2.1 hco.2.1 hco.2.2.2.1
          have h2 : evBlocks { e1 with socks := e1.socks.set s (setSlot rec w none) } + 1 = evBlocks e1 := by
            simp only [evBlocks_raw]; omega
          refine ⟨by omega, acctInv_of_some ?_⟩
          rw [hco.2.1]
          dsimp only
          rw [hfr.2.2.1]
          exact hs0

theorem netCancel_acct (e : Ev) (s : Nat) (w : Bool) (m : Mem) (ha : AcctInv e) :
    (netCancel e s w m).2.2.live - m.live = evBlocks (netCancel e s w m).2.1 - evBlocks e :=
  (netCancel_master e s w m ha).1

theorem netCancel_acctInv (e : Ev) (s : Nat) (w : Bool) (m : Mem) (ha : AcctInv e) :
    AcctInv (netCancel e s w m).2.1 :=
  (netCancel_master e s w m ha).2

/-! ### the exit handlers -/

/-- with no network registration the pollfd array is empty: an entry belongs to a descriptor with a reader
or a writer -/
theorem fds_nil_of_no_reg {e : Ev} (hn : NetInv e) (h1 : regNet e = []) : e.fds = [] := by
  cases hf : e.fds with
  | nil => rfl
  | cons p rest =>
    exfalso
    obtain ⟨fd, bits⟩ := p
    obtain ⟨rec, hs, hp⟩ := hn.back 0 fd bits (by rw [hf]; rfl)
    have hb := (hn.polled fd rec 0 hs hp).2
    have hc := (Percival.Proofs.EvRegNet.evBits_cases rec).2.2.2
    have hmem : ∀ w id, (fd, w, id) ∉ regNet e := by intro w id; rw [h1]; simp
    cases hr : rec.reader with
    | some x => exact hmem false x.2 ((Percival.Proofs.EvRegNet.mem_regNet e fd false x.2).2 ⟨rec, x.1, hs, by simp [slot, hr]⟩)
    | none =>
      cases hw : rec.writer with
      | some x => exact hmem true x.2 ((Percival.Proofs.EvRegNet.mem_regNet e fd true x.2).2 ⟨rec, x.1, hs, by simp [slot, hw]⟩)
      | none => exact hb (hc.2 ⟨hr, hw⟩)

/-- `events_timer_shutdown` -/
def sdTq (e : Ev) (m : Mem) : Ev × Mem :=
  match e.tq with
  | some t => if (Heap.getmin t.q.h).isNone then ({ e with tq := none }, HeapAlloc.tqFree t m) else (e, m)
  | none => (e, m)

/-- `events_network_shutdown` -/
def sdNet (e1 : Ev) (m1 : Mem) : Ev × Mem :=
  match e1.sAlloc with
  | some sal =>
    if e1.fds.isEmpty then
      ({ e1 with sAlloc := none, socks := [], fdsAlloc := 0 },
       EArray.free (sShape e1.socks.length sal) (m1.free (e1.fdsAlloc == 0)))
    else (e1, m1)
  | none => (e1, m1)

theorem shutdown_snd (e : Ev) (m : Mem) :
    (shutdown e m).2 =
      (MPool.atexit (sdNet (sdTq e m).1 (sdTq e m).2).1.qPool
        (MPool.atexit (sdNet (sdTq e m).1 (sdTq e m).2).1.recPool (sdNet (sdTq e m).1 (sdTq e m).2).2).2).2 := rfl

/-- **once nothing is registered, the exit handlers release everything the event layer holds** -/
theorem shutdown_acct (e : Ev) (m : Mem) (hn : NetInv e) (ht : TmInv e m) (ha : AcctInv e)
    (h1 : regNet e = []) (h2 : regTimers e = []) (h3 : (regImm e).flatten = []) :
    (shutdown e m).2.live = m.live - evBlocks e := by
  have hfds := fds_nil_of_no_reg hn h1
  have htm : e.timers = [] := by simpa [regTimers, registry] using h2
  rw [shutdown_snd]
  -- the timer queue, if it exists, is empty and is freed
  have hA : (sdTq e m).2.live = m.live - tqBlocks e.tq ∧ (sdTq e m).1.sAlloc = e.sAlloc ∧ (sdTq e m).1.fds = e.fds ∧
        (sdTq e m).1.fdsAlloc = e.fdsAlloc ∧ (sdTq e m).1.recPool = e.recPool ∧ (sdTq e m).1.qPool = e.qPool := by
    unfold sdTq
    cases htq : e.tq with
    | none => exact ⟨by simp [tqBlocks], rfl, rfl, rfl, rfl, rfl⟩
    | some t =>
      have hsz : t.q.h.a.size = 0 := by rw [ht.size htq, htm]; rfl
      have hmin : (Heap.getmin t.q.h).isNone = true := by
        simp only [Heap.getmin]
        rw [Array.getElem?_eq_none (by omega)]; rfl
      simp only [hmin, if_true, and_true]
      exact tqFree_live t m
  generalize sdTq e m = A at hA
  obtain ⟨e1, m1⟩ := A
  obtain ⟨lA, a1, a2, a3, a5, a6⟩ := hA
  dsimp only at lA a1 a2 a3 a5 a6 ⊢
  have hB : (sdNet e1 m1).2.live = m1.live - sBlocks e.sAlloc - bb e.fdsAlloc ∧
        (sdNet e1 m1).1.recPool = e.recPool ∧ (sdNet e1 m1).1.qPool = e.qPool := by
    unfold sdNet
    cases hsa : e1.sAlloc with
    | none =>
      have := ha (by rw [← a1]; exact hsa)
      exact ⟨by rw [← a1, hsa, this.2]; simp [sBlocks, bb], a5, a6⟩
    | some sal =>
      have he : e1.fds.isEmpty = true := by rw [a2, hfds]; rfl
      simp only [he, if_true]
      refine ⟨?_, a5, a6⟩
      have hsh : (sShape e1.socks.length sal).alloc = sal := rfl
      rw [eaFree_live, hsh, free_live, ← a1, hsa, a3]
      simp only [sBlocks, bb]
      by_cases h0 : e.fdsAlloc = 0 <;> simp [h0] <;> omega
  generalize sdNet e1 m1 = B at hB
  obtain ⟨e2, m2⟩ := B
  obtain ⟨lB, b1, b2⟩ := hB
  dsimp only at lB b1 b2 ⊢
  rw [pool_atexit_live, pool_atexit_live, b1, b2, lB, lA]
  simp only [evBlocks, h1, h2, h3, List.length_nil]
  omega

/- All the requested theorems are proved as stated, for every oracle.  Side conditions used:
   `immReg_acct`: `prio < (regImm e).length` (the queue exists; the upper layers use `prio = 0`);
   `immCancel_acct`: `(regImm e).flatten.Nodup`; `tmCancel_acct`: `TmInv e m` (only its `nodup`: `tmCancel_acct'`);
   `netReg_acct`, `netCancel_acct`: `AcctInv e`; `tmReg_acct`: none;
   `shutdown_acct`: `NetInv e`, `TmInv e m`, `AcctInv e` and the three "nothing registered" hypotheses.
   `AcctInv` holds initially (`acctInv_init`) and is kept by all six operations (`*_acctInv`). -/

end Percival.Proofs.EvRegAcct
