import Percival.Model.SockAddr
import Percival.Model.Lines
import Percival.Proofs.ByteDecide
namespace Percival.Proofs.SockAddr
open Percival.Model Percival.Model.SockAddr Percival.Proofs

theorem rdR_lt {b : Buf} {i : Nat} (h : i < b.size) : rdR b i = .ok b[i] := by
  simp [rdR, rd, h]

theorem rdR_list (l : List UInt8) (i : Nat) (h : i < l.length) : rdR l.toArray i = .ok l[i] := by
  simp [rdR, rd, h]

theorem rdR_append (pre post : List UInt8) (c : UInt8) : rdR (pre ++ c :: post).toArray pre.length = .ok c := by
  simp [rdR, rd]

theorem copyOut_eq (b : Buf) (n off : Nat) (h : off + n ≤ b.size) :
    copyOut b off n = .ok ((b.toList.drop off).take n) := by
  induction n generalizing off with
  | zero => simp [copyOut]
  | succ n ih =>
    have h1 : off < b.size := by omega
    rw [copyOut, rdR_lt h1, Res.ok_bind, ih (off+1) (by omega), Res.ok_bind]
    have : List.drop off b.toList = b[off] :: List.drop (off+1) b.toList :=
      List.drop_eq_getElem_cons (by simpa using h1)
    rw [this]; simp

theorem copyOut_all (b : Buf) : copyOut b 0 b.size = .ok b.toList := by
  rw [copyOut_eq b b.size 0 (by omega)]; simp [← Array.length_toList]

/-! ### C strings inside a buffer -/

theorem cstrAtF_ok (s : List UInt8) (h0 : ∀ c ∈ s, c ≠ 0) (pre post : List UInt8) (f : Nat) (hf : s.length < f) :
    cstrAtF (pre ++ s ++ 0 :: post).toArray f pre.length = .ok s := by
  induction s generalizing pre f with
  | nil =>
    cases f with
    | zero => simp at hf
    | succ f =>
      rw [cstrAtF, List.append_nil, rdR_append]; simp
  | cons c s ih =>
    cases f with
    | zero => simp at hf
    | succ f =>
      have hc : c ≠ 0 := h0 c (by simp)
      have e : pre ++ c :: s ++ 0 :: post = pre ++ c :: (s ++ 0 :: post) := by simp
      rw [cstrAtF, e, rdR_append, Res.ok_bind]
      have e2 : pre ++ c :: (s ++ 0 :: post) = (pre ++ [c]) ++ s ++ 0 :: post := by simp
      have := ih (fun x hx => h0 x (by simp [hx])) (pre ++ [c]) f (by simpa using hf)
      rw [e2]
      simp only [List.length_append, List.length_cons, List.length_nil, Nat.zero_add] at this
      rw [this]
      simp [hc]

theorem cstrAt_ok (b : Buf) (pre s post : List UInt8) (hb : b.toList = pre ++ s ++ 0 :: post)
    (h0 : ∀ c ∈ s, c ≠ 0) : cstrAt b pre.length = .ok s := by
  have e : b = (pre ++ s ++ 0 :: post).toArray := by rw [← hb]
  subst e
  unfold cstrAt
  apply cstrAtF_ok s h0
  simp; omega

theorem cstrAt_ok' (b : Buf) (i : Nat) (pre s post : List UInt8) (hb : b.toList = pre ++ s ++ 0 :: post)
    (hi : pre.length = i) (h0 : ∀ c ∈ s, c ≠ 0) : cstrAt b i = .ok s := by
  subst hi; exact cstrAt_ok b pre s post hb h0

theorem cstrAt_cstr (s : List UInt8) (h0 : ∀ c ∈ s, c ≠ 0) : cstrAt (cstr s) 0 = .ok s :=
  cstrAt_ok' (cstr s) 0 [] s [] (by simp [cstr]) rfl h0

theorem split_first_nul (L : List UInt8) (h : (0 : UInt8) ∈ L) :
    ∃ s post, L = s ++ 0 :: post ∧ ∀ c ∈ s, c ≠ 0 := by
  induction L with
  | nil => simp at h
  | cons x xs ih =>
    by_cases hx : x = 0
    · exact ⟨[], xs, by simp [hx], by simp⟩
    · have : (0 : UInt8) ∈ xs := by
        rcases List.mem_cons.mp h with h | h
        · exact absurd h.symm hx
        · exact h
      obtain ⟨s, post, e, h0⟩ := ih this
      refine ⟨x :: s, post, by simp [e], ?_⟩
      intro c hc
      rcases List.mem_cons.mp hc with hc | hc
      · subst hc; exact hx
      · exact h0 c hc

theorem wr_ok (b : Buf) (i : Nat) (v : UInt8) (h : i < b.size) :
    ∃ b', wr b i v = .ok b' ∧ b'.toList = b.toList.set i v ∧ b'.size = b.size := by
  refine ⟨b.set i v, by simp [wr, h], by simp, by simp⟩

theorem set_mid (pre s post : List UInt8) (k : Nat) (hk : k < s.length) :
    (pre ++ s ++ 0 :: post).set (pre.length + k) 0 = pre ++ s.take k ++ 0 :: (s.drop (k+1) ++ 0 :: post) := by
  have e : s = s.take k ++ s[k] :: s.drop (k+1) := by
    conv => lhs; rw [← List.take_append_drop k s, List.drop_eq_getElem_cons hk]
  have hl1 : (s.take k).length = k := by simp; omega
  generalize s.take k = s1 at e hl1 ⊢
  generalize s.drop (k+1) = s2 at e ⊢
  generalize s[k] = c at e
  subst e
  have hl : (pre ++ s1).length = pre.length + k := by simp [hl1]
  have e2 : pre ++ (s1 ++ c :: s2) ++ 0 :: post = (pre ++ s1) ++ c :: (s2 ++ 0 :: post) := by simp
  rw [e2, ← hl, List.set_append_right _ _ (Nat.le_refl _)]
  simp

theorem set_end (pre s post : List UInt8) :
    (pre ++ s ++ 0 :: post).set (pre.length + s.length) 0 = pre ++ s ++ 0 :: post := by
  have hl : (pre ++ s).length = pre.length + s.length := by simp
  rw [← hl, List.set_append_right _ _ (Nat.le_refl _)]
  simp

/-- writing a NUL inside (or at the end of) a string cuts it there -/
theorem set_cut (pre s post : List UInt8) (k : Nat) (hk : k ≤ s.length) :
    ∃ post', (pre ++ s ++ 0 :: post).set (pre.length + k) 0 = pre ++ s.take k ++ 0 :: post' := by
  by_cases h : k < s.length
  · exact ⟨_, set_mid pre s post k h⟩
  · have : k = s.length := by omega
    subst this
    exact ⟨post, by rw [set_end]; simp⟩

theorem strchrL_lt (s : List UInt8) (c : UInt8) (e : Nat) (h : strchrL s c = some e) : e < s.length := by
  unfold strchrL at h
  split at h
  · injection h with h; omega
  · simp at h

/-- `*p++ = '\0'` at an index inside the string: two strings -/
theorem split_ok (b : Buf) (line post : List UInt8) (hb : b.toList = line ++ 0 :: post) (h0 : ∀ c ∈ line, c ≠ 0)
    (e : Nat) (he : e < line.length) :
    ∃ b', wr b e 0 = .ok b' ∧ b'.size = b.size ∧ cstrAt b' 0 = .ok (line.take e) ∧
      cstrAt b' (e + 1) = .ok (line.drop (e + 1)) ∧
      b'.toList = line.take e ++ 0 :: (line.drop (e+1) ++ 0 :: post) := by
  have hsz : line.length < b.size := by rw [← Array.length_toList, hb]; simp
  obtain ⟨b', hw, hl, hs⟩ := wr_ok b e 0 (by omega)
  have hbl : b'.toList = line.take e ++ 0 :: (line.drop (e+1) ++ 0 :: post) := by
    have := set_mid [] line post e he
    rw [hl, hb]; simpa using this
  refine ⟨b', hw, hs, ?_, ?_, hbl⟩
  · exact cstrAt_ok' b' 0 [] _ _ (by simpa using hbl) rfl (fun c hc => h0 c (List.mem_of_mem_take hc))
  · exact cstrAt_ok' b' (e+1) (line.take e ++ [0]) (line.drop (e+1)) post (by simpa using hbl)
      (by simp; omega) (fun c hc => h0 c (List.mem_of_mem_drop hc))

theorem natJoin (n : Nat) (h : n < 2^32) :
   (n % 256) ||| ((n / 256 % 256) <<< 8) ||| ((n/65536 % 256) <<< 16) ||| ((n / 16777216 % 256) <<< 24) = n := by
  rw [Nat.or_comm (n % 256), ← Nat.shiftLeft_add_eq_or_of_lt (by omega)]
  rw [Nat.or_comm _ ((n/65536 % 256) <<< 16), ← Nat.shiftLeft_add_eq_or_of_lt (by simp only [Nat.shiftLeft_eq]; omega)]
  rw [Nat.or_comm _ ((n / 16777216 % 256) <<< 24), ← Nat.shiftLeft_add_eq_or_of_lt (by simp only [Nat.shiftLeft_eq]; omega)]
  simp only [Nat.shiftLeft_eq]; omega

theorem and255 (a : Nat) : a % 256 &&& 255 = a % 256 := by
  have := Nat.and_two_pow_sub_one_eq_mod (a % 256) 8
  simp at this; simpa using this

theorem join32 (x : UInt32) :
    ((x &&& 0xff).toUInt8.toUInt32 ||| (((x >>> 8) &&& 0xff).toUInt8.toUInt32 <<< 8) |||
      (((x >>> 16) &&& 0xff).toUInt8.toUInt32 <<< 16) ||| (((x >>> 24) &&& 0xff).toUInt8.toUInt32 <<< 24)) = x := by
  apply UInt32.toNat_inj.mp
  have := natJoin x.toNat x.toNat_lt
  simp [and255, Nat.shiftRight_eq_div_pow]
  rw [Nat.mod_eq_of_lt (a := _ <<< 8) (by simp only [Nat.shiftLeft_eq]; omega),
    Nat.mod_eq_of_lt (a := _ <<< 16) (by simp only [Nat.shiftLeft_eq]; omega),
    Nat.mod_eq_of_lt (a := _ <<< 24) (by simp only [Nat.shiftLeft_eq]; omega)]
  exact this

theorem read32_bytes32 (pre post : List UInt8) (x : UInt32) :
    read32 (pre ++ bytes32 x ++ post).toArray pre.length = .ok x := by
  simp only [read32, bytes32]
  have e0 := rdR_append pre ([((x >>> 8) &&& 0xff).toUInt8, ((x >>> 16) &&& 0xff).toUInt8, ((x >>> 24) &&& 0xff).toUInt8] ++ post) (x &&& 0xff).toUInt8
  have e1 := rdR_append (pre ++ [(x &&& 0xff).toUInt8]) ([((x >>> 16) &&& 0xff).toUInt8, ((x >>> 24) &&& 0xff).toUInt8] ++ post) ((x >>> 8) &&& 0xff).toUInt8
  have e2 := rdR_append (pre ++ [(x &&& 0xff).toUInt8, ((x >>> 8) &&& 0xff).toUInt8]) ([((x >>> 24) &&& 0xff).toUInt8] ++ post) ((x >>> 16) &&& 0xff).toUInt8
  have e3 := rdR_append (pre ++ [(x &&& 0xff).toUInt8, ((x >>> 8) &&& 0xff).toUInt8, ((x >>> 16) &&& 0xff).toUInt8]) post ((x >>> 24) &&& 0xff).toUInt8
  simp only [List.length_append, List.length_cons, List.length_nil, List.append_assoc, List.cons_append, List.nil_append] at e0 e1 e2 e3 ⊢
  rw [e0, Res.ok_bind, e1, Res.ok_bind, e2, Res.ok_bind, e3, Res.ok_bind, join32]

theorem read32_safe (b : Buf) (p : Nat) (h : p + 4 ≤ b.size) : ∃ x, read32 b p = .ok x := by
  simp only [read32]
  rw [rdR_lt (by omega : p < b.size), rdR_lt (by omega : p+1 < b.size), rdR_lt (by omega : p+2 < b.size), rdR_lt (by omega : p+3 < b.size)]
  simp

theorem deserialize_of (b : Buf) (f st n : UInt32) (hl : b.size = 12 + n.toNat)
    (r0 : read32 b 0 = .ok f) (r1 : read32 b 4 = .ok st) (r2 : read32 b 8 = .ok n) :
    deserialize b b.size = .ok (some { family := f, socktype := st, namelen := n, name := (b.toList.drop 12).toArray }) := by
  simp only [deserialize]
  rw [if_neg (by omega), r0, Res.ok_bind, r1, Res.ok_bind, r2, Res.ok_bind, hl]
  simp only [bne_self_eq_false, Bool.false_eq_true, ↓reduceIte]
  rw [copyOut_eq _ _ _ (by omega), Res.ok_bind]
  rw [List.take_of_length_le (by simp; omega)]

theorem deserialize_serialize (a : SockAddr) (h : a.WF) :
    ∃ bytes, serialize a = .ok bytes ∧ bytes.length = 12 + a.namelen.toNat ∧
      deserialize bytes.toArray bytes.length = .ok (some a) := by
  unfold SockAddr.WF at h
  have hc : copyOut a.name 0 a.namelen.toNat = .ok a.name.toList := by rw [← h]; exact copyOut_all _
  have l4 : ∀ x, (bytes32 x).length = 4 := fun _ => rfl
  have hl : (bytes32 a.family ++ bytes32 a.socktype ++ bytes32 a.namelen ++ a.name.toList).length = 12 + a.namelen.toNat := by
    simp [l4, h]; omega
  refine ⟨bytes32 a.family ++ bytes32 a.socktype ++ bytes32 a.namelen ++ a.name.toList, ?_, hl, ?_⟩
  · simp [serialize, hc]
  · have r0 := read32_bytes32 [] (bytes32 a.socktype ++ bytes32 a.namelen ++ a.name.toList) a.family
    have r1 := read32_bytes32 (bytes32 a.family) (bytes32 a.namelen ++ a.name.toList) a.socktype
    have r2 := read32_bytes32 (bytes32 a.family ++ bytes32 a.socktype) (a.name.toList) a.namelen
    simp only [List.nil_append, List.length_nil, List.length_append, l4, ← List.append_assoc] at r0 r1 r2
    have := deserialize_of (bytes32 a.family ++ bytes32 a.socktype ++ bytes32 a.namelen ++ a.name.toList).toArray
      a.family a.socktype a.namelen (by simpa using hl) r0 r1 r2
    rw [List.size_toArray] at this
    rw [this]
    have hd : List.drop 12 (bytes32 a.family ++ bytes32 a.socktype ++ bytes32 a.namelen ++ a.name.toList) = a.name.toList := by
      rw [List.drop_append_of_le_length (by simp [l4])]
      simp [bytes32]
    cases a
    simp only [hd]

theorem dup_eq (a : SockAddr) (h : a.WF) : dup a = .ok a := by
  unfold SockAddr.WF at h
  have hc : copyOut a.name 0 a.namelen.toNat = .ok a.name.toList := by rw [← h]; exact copyOut_all _
  simp [dup, hc]

theorem deserialize_safe (buf : Buf) :
    ∃ r, deserialize buf buf.size = .ok r ∧
      ∀ a, r = some a → a.WF ∧ buf.size = 12 + a.namelen.toNat ∧ a.name.toList = buf.toList.drop 12 := by
  by_cases h12 : buf.size < 12
  · exact ⟨none, by simp [deserialize, h12], by simp⟩
  · obtain ⟨f, r0⟩ := read32_safe buf 0 (by omega)
    obtain ⟨st, r1⟩ := read32_safe buf 4 (by omega)
    obtain ⟨n, r2⟩ := read32_safe buf 8 (by omega)
    by_cases hn : buf.size = 12 + n.toNat
    · refine ⟨_, deserialize_of buf f st n hn r0 r1 r2, ?_⟩
      intro a ha
      injection ha with ha
      subst ha
      simp [SockAddr.WF]; omega
    · refine ⟨none, ?_, by simp⟩
      simp only [deserialize]
      rw [if_neg h12, r0, Res.ok_bind, r1, Res.ok_bind, r2, Res.ok_bind]
      simp [hn]


/-! ### resolve / ensure_port -/

theorem rdR_toList (b : Buf) (i : Nat) (c : UInt8) (h : b.toList[i]? = some c) : rdR b i = .ok c := by
  simp [rdR, rd_eq_toList, h]

theorem strrchrL_none (s : List UInt8) (c : UInt8) (h : c ∉ s) : strrchrL s c = none := by
  induction s with
  | nil => rfl
  | cons x xs ih =>
    have hx : ¬ (x = c) := fun e => h (by simp [e])
    have : c ∉ xs := fun e => h (by simp [e])
    simp [strrchrL, ih this, hx]

theorem strrchrL_lt (s : List UInt8) (c : UInt8) (k : Nat) (h : strrchrL s c = some k) : k < s.length := by
  induction s generalizing k with
  | nil => simp [strrchrL] at h
  | cons x xs ih =>
    simp only [strrchrL] at h
    split at h
    · rename_i k' hk'
      injection h with h
      have := ih k' hk'
      simp; omega
    · split at h
      · injection h with h; simp; omega
      · simp at h

theorem strrchrL_append (pre post : List UInt8) (c : UInt8) (h : c ∉ post) :
    strrchrL (pre ++ c :: post) c = some pre.length := by
  induction pre with
  | nil => simp [strrchrL, strrchrL_none post c h]
  | cons x xs ih => simp [strrchrL, ih]

/-- the block `s = strdup(addr)` after `*ports++ = '\0'` at the last colon -/
theorem resolve_buf (addr : List UInt8) (h0 : ∀ c ∈ addr, c ≠ 0) (colon : Nat) (hlt : colon < addr.length) :
    ∃ sb, wr (cstr addr) colon 0 = .ok sb ∧ cstrAt sb 0 = .ok (addr.take colon) ∧
      cstrAt sb (colon + 1) = .ok (addr.drop (colon + 1)) ∧
      (∀ j (hj : j < colon), rdR sb j = .ok addr[j]) ∧ rdR sb colon = .ok 0 ∧
      (1 ≤ colon → cstrAt sb 1 = .ok ((addr.take colon).drop 1)) := by
  obtain ⟨sb, hw, _, h1, h2, hbl⟩ := split_ok (cstr addr) addr [] (by simp [cstr]) h0 colon hlt
  have hlen : (addr.take colon).length = colon := by simp; omega
  refine ⟨sb, hw, h1, h2, ?_, ?_, ?_⟩
  · intro j hj
    apply rdR_toList
    rw [hbl, List.getElem?_append_left (by omega)]
    simp [hj]
  · apply rdR_toList
    rw [hbl, List.getElem?_append_right (by omega)]
    simp [hlen]
  · intro hc
    have e : addr.take colon = (addr.take colon).take 1 ++ (addr.take colon).drop 1 := (List.take_append_drop 1 _).symm
    apply cstrAt_ok' sb 1 ((addr.take colon).take 1) _ (addr.drop (colon+1) ++ [0])
    · rw [hbl]; conv => lhs; rw [e]
    · simp; omega
    · intro c hc; exact h0 c (List.mem_of_mem_take (List.mem_of_mem_drop hc))

theorem rdInt_pred (b : Buf) (k : Nat) (hk : 1 ≤ k) : rdInt b ((k : Int) - 1) = rdR b (k - 1) := by
  have : ((k : Int) - 1) = ((k - 1 : Nat) : Int) := by omega
  rw [this]; simp only [rdInt, Int.toNat_natCast]
  rw [if_neg (by omega)]

theorem cstr_head (addr : List UInt8) : ∃ c0, rdR (cstr addr) 0 = .ok c0 ∧ (addr ++ [0]).head? = some c0 := by
  cases addr with
  | nil => exact ⟨0, by simp [cstr, rdR, rd], rfl⟩
  | cons x xs => exact ⟨x, by simp [cstr, rdR, rd], rfl⟩

theorem resolve_safe (pton4 pton6 : List UInt8 → Option (List UInt8)) (addr : List UInt8) (h0 : ∀ c ∈ addr, c ≠ 0) :
    ∃ r, resolve pton4 pton6 (cstr addr) = .ok r := by
  obtain ⟨c0, hc0, _⟩ := cstr_head addr
  unfold resolve
  rw [hc0, Res.ok_bind, cstrAt_cstr addr h0, Res.ok_bind]
  split
  · split <;> exact ⟨_, rfl⟩
  · simp only []
    cases hcol : strrchrL addr 0x3a with
    | none => exact ⟨_, rfl⟩
    | some colon =>
      have hlt := strrchrL_lt _ _ _ hcol
      obtain ⟨sb, hw, h1, h2, hj, hz, h3⟩ := resolve_buf addr h0 colon hlt
      have hlen : (addr.take colon).length = colon := by simp; omega
      simp only []
      rw [hw, Res.ok_bind, h1, Res.ok_bind, h2, Res.ok_bind, hlen]
      by_cases hc : colon = 0
      · subst hc
        rw [hz, Res.ok_bind]
        rw [if_pos (by decide)]
        exact ⟨_, rfl⟩
      · rw [hj 0 (by omega), Res.ok_bind]
        split
        · exact ⟨_, rfl⟩
        · rename_i hs0
          rw [rdInt_pred _ _ (by omega), hj (colon - 1) (by omega), Res.ok_bind]
          split
          · exact ⟨_, rfl⟩
          · rename_i hlast
            rw [h3 (by omega), Res.ok_bind]
            have hc2 : 2 ≤ colon := by
              apply Classical.byContradiction
              intro hn
              have : colon = 1 := by omega
              subst this
              simp at hs0 hlast
              rw [hs0] at hlast
              exact absurd hlast (by decide)
            rw [if_neg (by simp; omega)]
            repeat' split
            all_goals exact ⟨_, rfl⟩

theorem ensurePort_safe (addr : List UInt8) (h0 : ∀ c ∈ addr, c ≠ 0) :
    ∃ r, ensurePort (cstr addr) = .ok r ∧ (r = addr ∨ r = addr ++ [0x3a, 0x30]) := by
  obtain ⟨c0, hc0, _⟩ := cstr_head addr
  unfold ensurePort
  rw [cstrAt_cstr addr h0, Res.ok_bind, hc0, Res.ok_bind]
  simp only []
  split
  · exact ⟨_, rfl, Or.inl rfl⟩
  · rename_i hk0
    split
    · exact ⟨_, rfl, Or.inl rfl⟩
    · split
      · split
        · exact ⟨_, rfl, Or.inr rfl⟩
        · exact ⟨_, rfl, Or.inl rfl⟩
      · cases hcol : strrchrL addr 0x3a with
        | none => exact ⟨_, rfl, Or.inr rfl⟩
        | some k =>
          have hlt := strrchrL_lt _ _ _ hcol
          have hk : k ≠ 0 := by
            intro h; subst h; simp [hcol] at hk0
          simp only []
          have : k - 1 < (cstr addr).size := by simp [cstr]; omega
          rw [rdInt_pred _ _ (by omega), rdR_lt this, Res.ok_bind]
          split
          · exact ⟨_, rfl, Or.inr rfl⟩
          · exact ⟨_, rfl, Or.inl rfl⟩

theorem digit_facts : ∀ d : UInt8, 0x30 ≤ d → d ≤ 0x39 → isSpace d = false ∧ isDigit d = true ∧ d ≠ 0x2d ∧ d ≠ 0x2b ∧ d ≠ 0x3a ∧ d ≠ 0 := by
  decide +kernel

def dv (v : Nat) (l : List UInt8) : Nat := l.foldl (fun v d => 10 * v + (d.toNat - 0x30)) v

theorem dv_shift (l : List UInt8) (v : Nat) : dv v l = v * 10 ^ l.length + dv 0 l := by
  induction l generalizing v with
  | nil => simp [dv]
  | cons d l ih =>
    have e1 : dv v (d :: l) = dv (10 * v + (d.toNat - 0x30)) l := rfl
    have e2 : dv 0 (d :: l) = dv (d.toNat - 0x30) l := by simp [dv]
    rw [e1, e2, ih (10 * v + (d.toNat - 0x30)), ih (d.toNat - 0x30)]
    rw [List.length_cons, Nat.pow_succ, Nat.add_mul]
    have : 10 * v * 10 ^ l.length = v * (10 ^ l.length * 10) := by
      rw [Nat.mul_comm 10 v, Nat.mul_assoc, Nat.mul_comm 10]
    omega

theorem digitsVal_eq (l : List UInt8) : digitsVal l = dv 0 l := rfl

theorem ofNat_digit (n : Nat) : (UInt8.ofNat (0x30 + n % 10)).toNat - 0x30 = n % 10 ∧
    0x30 ≤ UInt8.ofNat (0x30 + n % 10) ∧ UInt8.ofNat (0x30 + n % 10) ≤ 0x39 := by
  have h : n % 10 < 10 := Nat.mod_lt _ (by omega)
  have e : (UInt8.ofNat (0x30 + n % 10)).toNat = 0x30 + n % 10 := by
    simp; omega
  refine ⟨by omega, ?_, ?_⟩
  · rw [UInt8.le_iff_toNat_le, e]; simp
  · rw [UInt8.le_iff_toNat_le, e]; simp; omega

theorem decF_digits (f n : Nat) (acc : List UInt8) (h : ∀ c ∈ acc, 0x30 ≤ c ∧ c ≤ 0x39) :
    ∀ c ∈ decF f n acc, 0x30 ≤ c ∧ c ≤ 0x39 := by
  induction f generalizing n acc with
  | zero => simpa [decF] using h
  | succ f ih =>
    have h' : ∀ c ∈ UInt8.ofNat (0x30 + n % 10) :: acc, 0x30 ≤ c ∧ c ≤ 0x39 := by
      intro c hc
      rcases List.mem_cons.mp hc with hc | hc
      · subst hc; exact (ofNat_digit n).2
      · exact h c hc
    simp only [decF]
    split
    · exact h'
    · exact ih _ _ h'

theorem decF_ne_nil (f n : Nat) (acc : List UInt8) : decF (f+1) n acc ≠ [] := by
  induction f generalizing n acc with
  | zero => simp [decF]
  | succ f ih =>
    rw [decF]
    split
    · simp
    · exact ih _ _

theorem decF_val (f n : Nat) (acc : List UInt8) (hf : n < f) :
    dv 0 (decF f n acc) = n * 10 ^ acc.length + dv 0 acc := by
  induction f generalizing n acc with
  | zero => omega
  | succ f ih =>
    have e2 : dv 0 (UInt8.ofNat (0x30 + n % 10) :: acc) = dv (n % 10) acc := by
      simp only [dv, List.foldl_cons]; rw [(ofNat_digit n).1]; simp
    simp only [decF]
    split
    · rename_i h0
      rw [e2, dv_shift]
      have : n % 10 = n := by omega
      rw [this]
    · rename_i h0
      rw [ih (n/10) _ (by omega), e2, dv_shift acc (n % 10), List.length_cons, Nat.pow_succ]
      have e := Nat.div_add_mod n 10
      have : n * 10 ^ acc.length = 10 * (n / 10) * 10 ^ acc.length + n % 10 * 10 ^ acc.length := by
        rw [← Nat.add_mul, e]
      have : 10 * (n / 10) * 10 ^ acc.length = n / 10 * (10 ^ acc.length * 10) := by
        rw [Nat.mul_comm 10 (n/10), Nat.mul_assoc, Nat.mul_comm 10]
      omega

theorem decimal_digits (p : Nat) : ∀ c ∈ decimal p, 0x30 ≤ c ∧ c ≤ 0x39 :=
  decF_digits _ _ [] (by simp)

theorem decimal_val (p : Nat) : digitsVal (decimal p) = p := by
  rw [digitsVal_eq, decimal, decF_val _ _ _ (by omega)]; simp [dv]

theorem parsePort_digits (s : List UInt8) (hne : s ≠ []) (hd : ∀ c ∈ s, 0x30 ≤ c ∧ c ≤ 0x39) :
    parsePort s = if digitsVal s < 1 ∨ digitsVal s > 65535 then none else some (digitsVal s) := by
  cases s with
  | nil => exact absurd rfl hne
  | cons d rest =>
    obtain ⟨f1, f2, f3, f4, _, _⟩ := digit_facts d (hd d (by simp)).1 (hd d (by simp)).2
    have hall : (d :: rest).all isDigit = true := by
      rw [List.all_eq_true]
      intro c hc
      exact (digit_facts c (hd c hc).1 (hd c hc).2).2.1
    unfold parsePort
    have e : List.dropWhile isSpace (d :: rest) = d :: rest := by simp [List.dropWhile, f1]
    simp only [e]
    split
    · rename_i h; injection h with h; exact absurd h f3
    · rename_i h; injection h with h; exact absurd h f4
    · simp [hall]

theorem parsePort_decimal (p : Nat) (h1 : 1 ≤ p) (h2 : p ≤ 65535) : parsePort (decimal p) = some p := by
  rw [parsePort_digits (decimal p) (decF_ne_nil _ _ _) (decimal_digits p), decimal_val]
  rw [if_neg (by omega)]

theorem resolve_unix (pton4 pton6 : List UInt8 → Option (List UInt8)) (path : List UInt8)
    (hs : path.head? = some 0x2f) (h0 : ∀ c ∈ path, c ≠ 0) (hl : path.length < sunPathSize) :
    resolve pton4 pton6 (cstr path) = .ok (.addr (mkUn path)) := by
  have hc0 : rdR (cstr path) 0 = .ok 0x2f := by
    apply rdR_toList
    cases path with
    | nil => simp at hs
    | cons x xs => simp at hs; simp [cstr, hs]
  unfold resolve
  rw [hc0, Res.ok_bind, cstrAt_cstr path h0, Res.ok_bind, if_pos (by decide), if_neg (by omega)]

/-- `"[" t "]:" ports` -/
theorem resolve_bracket (pton4 pton6 : List UInt8 → Option (List UInt8)) (t ports : List UInt8)
    (h0t : ∀ c ∈ t, c ≠ 0) (h0p : ∀ c ∈ ports, c ≠ 0) (hcp : (0x3a : UInt8) ∉ ports) :
    resolve pton4 pton6 (cstr ([0x5b] ++ t ++ [0x5d, 0x3a] ++ ports)) =
      match parsePort ports with
      | none => .ok .err
      | some p =>
        if (strchrL t 0x3a).isSome then
          match pton6 t with
          | some a => .ok (.addr (mkIn6 a p))
          | none => .ok .err
        else
          match pton4 t with
          | some a => .ok (.addr (mkIn a p))
          | none => .ok .err := by
  generalize haddr : [0x5b] ++ t ++ [0x5d, 0x3a] ++ ports = addr
  have e1 : addr = (0x5b :: (t ++ [0x5d])) ++ 0x3a :: ports := by rw [← haddr]; simp
  have h0 : ∀ c ∈ addr, c ≠ 0 := by
    intro c hc
    rw [e1] at hc
    simp at hc
    rcases hc with hc | hc | hc | hc | hc
    · rw [hc]; decide
    · exact h0t c hc
    · rw [hc]; decide
    · rw [hc]; decide
    · exact h0p c hc
  have hcol : strrchrL addr 0x3a = some (t.length + 2) := by
    rw [e1, strrchrL_append _ _ _ hcp]; simp
  have hlt : t.length + 2 < addr.length := by rw [e1]; simp; omega
  have hA : addr.take (t.length + 2) = 0x5b :: (t ++ [0x5d]) := by
    rw [e1, List.take_append_of_le_length (by simp), List.take_of_length_le (by simp)]
  have hD : addr.drop (t.length + 2 + 1) = ports := by
    have e2 : addr = (0x5b :: (t ++ [0x5d]) ++ [0x3a]) ++ ports := by rw [e1]; simp
    rw [e2, List.drop_left' (by simp)]
  have hg0 : addr[0]'(by omega) = 0x5b := by simp [e1]
  have hgl : addr[t.length + 2 - 1]'(by omega) = 0x5d := by
    simp [e1]
  obtain ⟨sb, hw, h1, h2, hj, hz, h3⟩ := resolve_buf addr h0 (t.length + 2) hlt
  have hc0 : rdR (cstr addr) 0 = .ok 0x5b := by
    apply rdR_toList; simp [cstr, e1]
  unfold resolve
  rw [hc0, Res.ok_bind, cstrAt_cstr addr h0, Res.ok_bind, if_neg (by decide)]
  simp only [hcol]
  rw [hw, Res.ok_bind, h1, Res.ok_bind, h2, Res.ok_bind, hj 0 (by omega), Res.ok_bind, hg0, if_neg (by decide)]
  rw [hA, hD]
  have : (0x5b :: (t ++ [0x5d])).length = t.length + 2 := by simp
  rw [this, rdInt_pred _ _ (by omega), hj _ (by omega), Res.ok_bind, hgl, if_neg (by decide)]
  rw [h3 (by omega), Res.ok_bind, hA]
  simp
  rfl

theorem strchrL_none (s : List UInt8) (c : UInt8) (h : c ∉ s) : strchrL s c = none := by
  unfold strchrL
  rw [if_neg]
  have := List.idxOf_eq_length h
  omega

theorem strchrL_isSome (s : List UInt8) (c : UInt8) (h : c ∈ s) : (strchrL s c).isSome = true := by
  unfold strchrL
  rw [if_pos (List.idxOf_lt_length_iff.mpr h)]; rfl

theorem decimal_nul (p : Nat) : ∀ c ∈ decimal p, c ≠ 0 := fun c hc =>
  (digit_facts c (decimal_digits p c hc).1 (decimal_digits p c hc).2).2.2.2.2.2

theorem decimal_colon (p : Nat) : (0x3a : UInt8) ∉ decimal p := fun hc =>
  (digit_facts _ (decimal_digits p _ hc).1 (decimal_digits p _ hc).2).2.2.2.2.1 rfl

theorem resolve_v4 (pton4 pton6 : List UInt8 → Option (List UInt8)) (t a : List UInt8) (p : Nat)
    (ht : pton4 t = some a) (hc : ∀ c ∈ t, c ≠ 0x3a) (h0 : ∀ c ∈ t, c ≠ 0) (h1 : 1 ≤ p) (h2 : p ≤ 65535) :
    resolve pton4 pton6 (cstr ([0x5b] ++ t ++ [0x5d, 0x3a] ++ decimal p)) = .ok (.addr (mkIn a p)) := by
  rw [resolve_bracket pton4 pton6 t (decimal p) h0 (decimal_nul p) (decimal_colon p), parsePort_decimal p h1 h2]
  simp only []
  rw [strchrL_none t 0x3a (fun h => hc _ h rfl)]
  simp [ht]

theorem resolve_v6 (pton4 pton6 : List UInt8 → Option (List UInt8)) (t a : List UInt8) (p : Nat)
    (ht : pton6 t = some a) (hc : 0x3a ∈ t) (h0 : ∀ c ∈ t, c ≠ 0) (h1 : 1 ≤ p) (h2 : p ≤ 65535) :
    resolve pton4 pton6 (cstr ([0x5b] ++ t ++ [0x5d, 0x3a] ++ decimal p)) = .ok (.addr (mkIn6 a p)) := by
  rw [resolve_bracket pton4 pton6 t (decimal p) h0 (decimal_nul p) (decimal_colon p), parsePort_decimal p h1 h2]
  simp only []
  rw [strchrL_isSome t 0x3a hc]
  simp [ht]

/-! ### prettyprint -/

theorem port_bytes (p : Nat) (hp : p ≤ 65535) :
    (UInt8.ofNat (p / 256)).toNat * 256 + (UInt8.ofNat (p % 256)).toNat = p := by
  have h1 : (UInt8.ofNat (p / 256)).toNat = p / 256 := by simp; omega
  have h2 : (UInt8.ofNat (p % 256)).toNat = p % 256 := by simp
  rw [h1, h2]; omega

theorem prettyprint_in (ntop4 ntop6 : List UInt8 → Option (List UInt8)) (a t : List UInt8) (p : Nat)
    (ha : a.length = 4) (ht : ntop4 a = some t) (hp : p ≤ 65535) :
    prettyprint ntop4 ntop6 (mkIn a p) = .ok (some ([0x5b] ++ t ++ [0x5d, 0x3a] ++ decimal p)) := by
  have hsz : (mkIn a p).name.size = 16 := by simp [mkIn, zeros, ha]
  have hc : copyOut (mkIn a p).name 0 sizeofSockaddrIn = .ok (mkIn a p).name.toList := by
    have := copyOut_all (mkIn a p).name
    rw [hsz] at this; exact this
  have hl : (mkIn a p).name.toList = [0x02, 0x00, UInt8.ofNat (p / 256), UInt8.ofNat (p % 256)] ++ a ++ zeros 8 := rfl
  have hf : (mkIn a p).family = AF_INET := rfl
  have hn : (mkIn a p).namelen = 16 := rfl
  unfold prettyprint
  rw [hf, hn, if_pos (by rfl), if_neg (by decide), hc, Res.ok_bind, hl]
  have e1 : (([0x02, 0x00, UInt8.ofNat (p / 256), UInt8.ofNat (p % 256)] ++ a ++ zeros 8).drop 4).take 4 = a := by
    simp only [List.cons_append, List.nil_append, List.drop_succ_cons, List.drop_zero]
    exact List.take_left' ha
  have e2 : (([0x02, 0x00, UInt8.ofNat (p / 256), UInt8.ofNat (p % 256)] ++ a ++ zeros 8).drop 2).take 2 =
      [UInt8.ofNat (p / 256), UInt8.ofNat (p % 256)] := by
    simp
  rw [e1, ht]
  simp only [e2]
  rw [port_bytes p hp]

theorem prettyprint_in6 (ntop4 ntop6 : List UInt8 → Option (List UInt8)) (a t : List UInt8) (p : Nat)
    (ha : a.length = 16) (ht : ntop6 a = some t) (hp : p ≤ 65535) :
    prettyprint ntop4 ntop6 (mkIn6 a p) = .ok (some ([0x5b] ++ t ++ [0x5d, 0x3a] ++ decimal p)) := by
  have hsz : (mkIn6 a p).name.size = 28 := by simp [mkIn6, zeros, ha]
  have hc : copyOut (mkIn6 a p).name 0 sizeofSockaddrIn6 = .ok (mkIn6 a p).name.toList := by
    have := copyOut_all (mkIn6 a p).name
    rw [hsz] at this; exact this
  have hl : (mkIn6 a p).name.toList =
      [0x0a, 0x00, UInt8.ofNat (p / 256), UInt8.ofNat (p % 256)] ++ zeros 4 ++ a ++ zeros 4 := rfl
  have hf : (mkIn6 a p).family = AF_INET6 := rfl
  have hn : (mkIn6 a p).namelen = 28 := rfl
  unfold prettyprint
  rw [hf, hn, if_neg (by decide), if_pos (by rfl), if_neg (by decide), hc, Res.ok_bind, hl]
  have e1 : (([0x0a, 0x00, UInt8.ofNat (p / 256), UInt8.ofNat (p % 256)] ++ zeros 4 ++ a ++ zeros 4).drop 8).take 16 = a := by
    simp only [zeros, List.replicate, List.cons_append, List.nil_append, List.drop_succ_cons, List.drop_zero]
    exact List.take_left' ha
  have e2 : (([0x0a, 0x00, UInt8.ofNat (p / 256), UInt8.ofNat (p % 256)] ++ zeros 4 ++ a ++ zeros 4).drop 2).take 2 =
      [UInt8.ofNat (p / 256), UInt8.ofNat (p % 256)] := by
    simp
  rw [e1, ht]
  simp only [e2]
  rw [port_bytes p hp]

theorem prettyprint_un (ntop4 ntop6 : List UInt8 → Option (List UInt8)) (path : List UInt8)
    (h0 : ∀ c ∈ path, c ≠ 0) (hl : path.length < sunPathSize) :
    prettyprint ntop4 ntop6 (mkUn path) = .ok (some path) := by
  have hz : zeros (sunPathSize - path.length) = 0 :: zeros (sunPathSize - path.length - 1) := by
    have : sunPathSize - path.length = (sunPathSize - path.length - 1) + 1 := by omega
    rw [zeros, this, List.replicate_succ]; rfl
  have hb : (mkUn path).name.toList = [0x01, 0x00] ++ path ++ 0 :: zeros (sunPathSize - path.length - 1) := by
    rw [← hz]; rfl
  have hc := cstrAt_ok' (mkUn path).name 2 [0x01, 0x00] path _ hb rfl h0
  have hf : (mkUn path).family = AF_UNIX := rfl
  unfold prettyprint
  rw [hf, if_neg (by decide), if_neg (by decide), if_pos (by rfl), hc, Res.ok_bind]

end Percival.Proofs.SockAddr

namespace Percival.Proofs.Lines
open Percival.Model Percival.Model.Lines Percival.Proofs.SockAddr

theorem takeLine_length_le (n : Nat) (file : List UInt8) : (takeLine n file).length ≤ n := by
  induction n generalizing file with
  | zero => simp [takeLine]
  | succ n ih =>
    cases file with
    | nil => simp [takeLine]
    | cons c cs =>
      simp only [takeLine]
      split
      · simp
      · have := ih cs; simp; omega

theorem takeLine_ne_nil (n : Nat) (file : List UInt8) (hn : 1 ≤ n) (hf : file ≠ []) : takeLine n file ≠ [] := by
  cases n with
  | zero => omega
  | succ n =>
    cases file with
    | nil => exact absurd rfl hf
    | cons c cs => simp only [takeLine]; split <;> simp

theorem takeLine_nil_file (n : Nat) : takeLine n [] = [] := by
  cases n <;> simp [takeLine]

theorem store_ok (l : List UInt8) (buf : Buf) (i : Nat) (h : i + l.length < buf.size) :
    ∃ b post, store buf i l = .ok b ∧ b.size = buf.size ∧ b.toList = buf.toList.take i ++ l ++ 0 :: post := by
  induction l generalizing buf i with
  | nil =>
    obtain ⟨b, hw, hl, hs⟩ := wr_ok buf i 0 (by simpa using h)
    refine ⟨b, buf.toList.drop (i+1), by simp [store, hw], hs, ?_⟩
    rw [hl, List.set_eq_take_append_cons_drop, if_pos (by simpa using h)]
    simp
  | cons c cs ih =>
    simp only [List.length_cons] at h
    obtain ⟨b1, hw, hl, hs⟩ := wr_ok buf i c (by omega)
    obtain ⟨b, post, hst, hsz, hbl⟩ := ih b1 (i+1) (by omega)
    refine ⟨b, post, by simp [store, hw, hst], by omega, ?_⟩
    rw [hbl, hl, List.set_eq_take_append_cons_drop, if_pos (by simp; omega)]
    have : (List.take i buf.toList).length = i := by simp; omega
    rw [List.take_append, this, List.take_of_length_le (by omega)]
    simp

/-- `fgets` into a buffer of its declared size (≥ 2) -/
theorem fgets_ok (buf : Buf) (h2 : 2 ≤ buf.size) (file : List UInt8) :
    (fgets buf buf.size file = .ok none) ∨
    ∃ b l post rest, fgets buf buf.size file = .ok (some (b, rest)) ∧ b.size = buf.size ∧
      b.toList = l ++ 0 :: post ∧ rest.length < file.length := by
  unfold fgets
  have hlen := takeLine_length_le (buf.size - 1) file
  by_cases hl : takeLine (buf.size - 1) file = []
  · left; simp [hl]
  · right
    obtain ⟨b, post, hst, hsz, hbl⟩ := store_ok (takeLine (buf.size - 1) file) buf 0 (by omega)
    have hf : file ≠ [] := by
      intro h; subst h; exact hl (takeLine_nil_file _)
    refine ⟨b, takeLine (buf.size - 1) file, post, file.drop (takeLine (buf.size - 1) file).length, ?_, hsz, by simpa using hbl, ?_⟩
    · simp [hl, hst]
    · have : 0 < (takeLine (buf.size - 1) file).length := List.length_pos_iff.mpr hl
      have : 0 < file.length := List.length_pos_iff.mpr hf
      simp; omega

/-- the string at the start of a buffer that contains a NUL -/
theorem line_ok (b : Buf) (l post : List UInt8) (hb : b.toList = l ++ 0 :: post) :
    ∃ line post', b.toList = line ++ 0 :: post' ∧ (∀ c ∈ line, c ≠ 0) ∧ cstrAt b 0 = .ok line ∧ line.length < b.size := by
  obtain ⟨line, post', e, h0⟩ := split_first_nul b.toList (by rw [hb]; simp)
  refine ⟨line, post', e, h0, cstrAt_ok' b 0 [] line post' (by simpa using e) rfl h0, ?_⟩
  rw [← Array.length_toList, e]; simp

theorem strcspn_le (line rej : List UInt8) : strcspnL line rej ≤ line.length := by
  unfold strcspnL; exact (List.takeWhile_sublist _).length_le

theorem take_len_takeWhile (p : UInt8 → Bool) (l : List UInt8) : l.take (l.takeWhile p).length = l.takeWhile p := by
  induction l with
  | nil => simp
  | cons x xs ih =>
    by_cases h : p x
    · rw [List.takeWhile_cons_of_pos h]; simp [ih]
    · rw [List.takeWhile_cons_of_neg h]; simp

theorem mem_takeWhile (p : UInt8 → Bool) (l : List UInt8) : ∀ c ∈ l.takeWhile p, p c = true := by
  induction l with
  | nil => simp
  | cons x xs ih =>
    by_cases h : p x
    · rw [List.takeWhile_cons_of_pos h]
      intro c hc
      rcases List.mem_cons.mp hc with hc | hc
      · subst hc; exact h
      · exact ih c hc
    · rw [List.takeWhile_cons_of_neg h]; simp

theorem take_strcspn (line rej : List UInt8) :
    line.take (strcspnL line rej) = line.takeWhile fun c => !rej.contains c := by
  unfold strcspnL; exact take_len_takeWhile _ _

theorem take_strcspn_mem (line : List UInt8) : ∀ c ∈ line.take (strcspnL line [0x0d, 0x0a]), c ≠ 0x0a ∧ c ≠ 0x0d := by
  intro c hc
  rw [take_strcspn] at hc
  have := mem_takeWhile _ _ c hc
  simp at this
  exact ⟨this.2, this.1⟩

/-- `buf[strcspn(buf, "\r\n")] = '\0'` -/
theorem chomp_ok (b : Buf) (line post : List UInt8) (hb : b.toList = line ++ 0 :: post) (k : Nat) (hk : k ≤ line.length) :
    ∃ b' post', wr b k 0 = .ok b' ∧ b'.size = b.size ∧ b'.toList = line.take k ++ 0 :: post' := by
  have hsz : line.length < b.size := by rw [← Array.length_toList, hb]; simp
  obtain ⟨b', hw, hl, hs⟩ := wr_ok b k 0 (by omega)
  obtain ⟨post', e⟩ := set_cut [] line post k hk
  refine ⟨b', post', hw, hs, ?_⟩
  rw [hl, hb]; simpa using e

/-- shorter than the buffer, no NUL / LF / CR -/
def Good (size : Nat) (s : List UInt8) : Prop := s.length < size ∧ ∀ c ∈ s, c ≠ 0 ∧ c ≠ 0x0a ∧ c ≠ 0x0d

/-- read the line, cut it at the first CR/LF, read it again -/
theorem chomp_line (b : Buf) (l post : List UInt8) (hb : b.toList = l ++ 0 :: post) :
    ∃ line b' post', cstrAt b 0 = .ok line ∧ strcspnL line [0x0d, 0x0a] < b.size ∧
      wr b (strcspnL line [0x0d, 0x0a]) 0 = .ok b' ∧ b'.size = b.size ∧
      b'.toList = line.take (strcspnL line [0x0d, 0x0a]) ++ 0 :: post' ∧
      cstrAt b' 0 = .ok (line.take (strcspnL line [0x0d, 0x0a])) ∧
      Good b.size (line.take (strcspnL line [0x0d, 0x0a])) := by
  obtain ⟨line, post1, e, h0, hc, hlen⟩ := line_ok b l post hb
  have hk := strcspn_le line [0x0d, 0x0a]
  obtain ⟨b', post', hw, hsz, hbl⟩ := chomp_ok b line post1 e _ hk
  have h0' : ∀ c ∈ line.take (strcspnL line [0x0d, 0x0a]), c ≠ 0 := fun c hc => h0 c (List.mem_of_mem_take hc)
  refine ⟨line, b', post', hc, by omega, hw, hsz, hbl, ?_, ?_, ?_⟩
  · exact cstrAt_ok' b' 0 [] _ post' (by simpa using hbl) rfl h0'
  · simp; omega
  · intro c hc
    exact ⟨h0' c hc, take_strcspn_mem line c hc⟩

theorem readpassFile_safe (init : Buf) (hsz : 2 ≤ init.size) (file : List UInt8) :
    ∃ r, readpassFile init file = .ok r ∧
      ∀ pw, r = some pw → pw.length < init.size ∧ ∀ c ∈ pw, c ≠ 0 ∧ c ≠ 0x0a ∧ c ≠ 0x0d := by
  have tail : ∀ (b : Buf) (rest l post : List UInt8), b.size = init.size → b.toList = l ++ 0 :: post →
      ∃ r, (if (!rest.isEmpty) = true then (Res.ok none : Res (Option (List UInt8)))
        else cstrAt b 0 >>= fun line => wr b (strcspnL line [0x0d, 0x0a]) 0 >>= fun b =>
          cstrAt b 0 >>= fun pw => .ok (some pw)) = .ok r ∧
        ∀ pw, r = some pw → pw.length < init.size ∧ ∀ c ∈ pw, c ≠ 0 ∧ c ≠ 0x0a ∧ c ≠ 0x0d := by
    intro b rest l post hs hb
    by_cases hr : (!rest.isEmpty) = true
    · exact ⟨none, by rw [if_pos hr], by simp⟩
    · obtain ⟨line, b', post', h1, _, h2, _, _, h3, h4⟩ := chomp_line b l post hb
      refine ⟨some (line.take (strcspnL line [0x0d, 0x0a])), ?_, ?_⟩
      · rw [if_neg hr, h1, Res.ok_bind, h2, Res.ok_bind, h3, Res.ok_bind]
      · intro pw hpw
        injection hpw with hpw
        subst hpw
        rw [← hs]; exact h4
  unfold readpassFile
  rcases fgets_ok init hsz file with h | ⟨b, l, post, rest, h, hs, hb, _⟩
  · obtain ⟨b, hw, hl, hs⟩ := wr_ok init 0 0 (by omega)
    rw [h, Res.ok_bind]
    simp only [hw, Res.ok_bind]
    have hb : b.toList = [] ++ 0 :: init.toList.drop 1 := by
      rw [hl, List.set_eq_take_append_cons_drop, if_pos (by simp; omega)]; simp
    exact tail b file [] _ hs hb
  · rw [h, Res.ok_bind]
    simp only [Res.ok_bind]
    exact tail b rest l post hs hb

def OptGood (size : Nat) (o : Option (List UInt8)) : Prop := ∀ s, o = some s → Good size s

theorem keysLoopF_ok (size : Nat) (h2 : 2 ≤ size) (fuel : Nat) (buf : Buf) (file : List UInt8)
    (id secret : Option (List UInt8)) (hs : buf.size = size) (hf : file.length < fuel)
    (hid : OptGood size id) (hsec : OptGood size secret) :
    ∃ r, keysLoopF size fuel buf file id secret = .ok r ∧
      ∀ i s, r = some (i, s) → OptGood size i ∧ OptGood size s := by
  induction fuel generalizing buf file id secret with
  | zero => omega
  | succ f ih =>
    have done : ∃ r, (Res.ok (some (id, secret)) : Res (Option (Option (List UInt8) × Option (List UInt8)))) = .ok r ∧
        ∀ i s, r = some (i, s) → OptGood size i ∧ OptGood size s := by
      refine ⟨_, rfl, ?_⟩
      intro i s h
      injection h with h; injection h with h1 h2
      subst h1; subst h2; exact ⟨hid, hsec⟩
    have err : ∃ r, (Res.ok none : Res (Option (Option (List UInt8) × Option (List UInt8)))) = .ok r ∧
        ∀ i s, r = some (i, s) → OptGood size i ∧ OptGood size s := ⟨none, rfl, by simp⟩
    unfold keysLoopF
    subst hs
    rcases fgets_ok buf h2 file with h | ⟨b, l, post, rest, h, hbs, hb, hrest⟩
    · rw [h, Res.ok_bind]; exact done
    · rw [h, Res.ok_bind]
      simp only []
      obtain ⟨line, b1, post1, h1, hk, hw1, hs1, hbl1, hc1, hg1⟩ := chomp_line b l post hb
      rw [h1, Res.ok_bind, rdR_lt hk, Res.ok_bind]
      split
      · exact done
      · rw [hw1, Res.ok_bind, hc1, Res.ok_bind]
        generalize hline2 : line.take (strcspnL line [0x0d, 0x0a]) = line2 at hbl1 hc1 hg1
        cases hse : strchrL line2 0x3d with
        | none => exact err
        | some e =>
          have he := strchrL_lt _ _ _ hse
          obtain ⟨b2, hw2, hs2, hn, hv, _⟩ := split_ok b1 line2 post1 hbl1 (fun c hc => (hg1.2 c hc).1) e he
          simp only []
          rw [hw2, Res.ok_bind, hn, Res.ok_bind, hv, Res.ok_bind]
          have hval : Good buf.size (line2.drop (e+1)) := by
            refine ⟨?_, fun c hc => hg1.2 c (List.mem_of_mem_drop hc)⟩
            have := hg1.1; simp; omega
          have hvo : OptGood buf.size (some (line2.drop (e+1))) := by
            intro s hs; injection hs with hs; subst hs; exact hval
          split
          · cases id with
            | some _ => exact err
            | none => exact ih b2 rest (some (line2.drop (e+1))) secret (by omega) (by omega) hvo hsec
          · split
            · cases secret with
              | some _ => exact err
              | none => exact ih b2 rest id (some (line2.drop (e+1))) (by omega) (by omega) hid hvo
            · exact err

theorem awsReadkeys_full (init : Buf) (hsz : 2 ≤ init.size) (file : List UInt8) :
    ∃ r, awsReadkeys init file = .ok r ∧ ∀ id secret, r = .keys id secret → Good init.size id ∧ Good init.size secret := by
  obtain ⟨r, hr, hg⟩ := keysLoopF_ok init.size hsz (file.length + 1) init file none none rfl (by omega)
    (by intro s h; simp at h) (by intro s h; simp at h)
  unfold awsReadkeys
  rw [hr, Res.ok_bind]
  split
  · rename_i id secret
    refine ⟨_, rfl, ?_⟩
    intro i s h
    injection h with h1 h2
    subst h1; subst h2
    have := hg _ _ rfl
    exact ⟨this.1 _ rfl, this.2 _ rfl⟩
  · exact ⟨.fail, rfl, by simp⟩

theorem awsReadkeys_safe (init : Buf) (hsz : 2 ≤ init.size) (file : List UInt8) :
    ∃ r, awsReadkeys init file = .ok r := by
  obtain ⟨r, h, _⟩ := awsReadkeys_full init hsz file
  exact ⟨r, h⟩

theorem awsReadkeys_range (init : Buf) (hsz : 2 ≤ init.size) (file : List UInt8) (id secret : List UInt8)
    (h : awsReadkeys init file = .ok (.keys id secret)) :
    id.length < init.size ∧ secret.length < init.size ∧
      (∀ c ∈ id ++ secret, c ≠ 0 ∧ c ≠ 0x0a ∧ c ≠ 0x0d) := by
  obtain ⟨r, hr, hg⟩ := awsReadkeys_full init hsz file
  rw [h] at hr
  injection hr with hr
  obtain ⟨g1, g2⟩ := hg id secret hr.symm
  refine ⟨g1.1, g2.1, ?_⟩
  intro c hc
  rcases List.mem_append.mp hc with hc | hc
  · exact g1.2 c hc
  · exact g2.2 c hc

end Percival.Proofs.Lines
