import Percival.Proofs.AllocFail
/-!
# The network part of event registration (`events_network.c` on the model `EvReg`): invariant and contract

`NetInv` is the consistency invariant between the socket list `S` and the `pollfd` array; `netReg` and
`netCancel` keep it for every allocation oracle, and their effect on the abstract registry is a `Perm`.
-/
namespace Percival.Proofs.EvRegNet
open Percival.Model Percival.Model.EvReg

/-! ### definitions -/

def regNet (e : Ev) : List (Nat × Bool × Nat) := (registry e).net

def netRegistered (e : Ev) (s : Nat) (w : Bool) : Prop := ∃ id, (s, w, id) ∈ regNet e

/-- every request from `m.n` on is granted -/
def Granted (m : Mem) : Prop := ∀ n sz, m.n ≤ n → m.f n sz = true

/-- the `events` word a socket record stands for: `POLLIN` (1) iff a reader, `POLLOUT` (4) iff a writer -/
def evBits (r : SockRec) : Nat := (if r.reader.isSome then 1 else 0) + (if r.writer.isSome then 4 else 0)

/-- the consistency invariant of events_network.c -/
structure NetInv (e : Ev) : Prop where
  /-- before `init()` there is nothing -/
  uninit : e.sAlloc = none → e.socks = [] ∧ e.fds = []
  /-- a descriptor without a pollfd entry has no registration -/
  idle : ∀ (s : Nat) (rec : SockRec), e.socks[s]? = some rec → rec.pollpos = none → rec.reader = none ∧ rec.writer = none
  /-- a descriptor with a pollfd entry: the entry is its own, and asks for exactly the registered directions
  (so the word is 1, 4 or 5: `evBits_cases`) -/
  polled : ∀ (s : Nat) (rec : SockRec) (pp : Nat), e.socks[s]? = some rec → rec.pollpos = some pp →
    e.fds[pp]? = some (s, evBits rec) ∧ evBits rec ≠ 0
  /-- every pollfd entry belongs to the descriptor that points at it -/
  back : ∀ (pp fd bits : Nat), e.fds[pp]? = some (fd, bits) → ∃ rec : SockRec, e.socks[fd]? = some rec ∧ rec.pollpos = some pp

theorem evBits_cases (r : SockRec) :
    (evBits r = 0 ∨ evBits r = 1 ∨ evBits r = 4 ∨ evBits r = 5) ∧
    (evBits r &&& 1 ≠ 0 ↔ r.reader.isSome) ∧ (evBits r &&& 4 ≠ 0 ↔ r.writer.isSome) ∧
    (evBits r = 0 ↔ r.reader = none ∧ r.writer = none) := by
  unfold evBits
  cases r.reader <;> cases r.writer <;> simp

/-- the pollfd entry of a polled descriptor, in the words of the C: `events ∈ {1,4,5}`, `POLLIN` iff a
reader, `POLLOUT` iff a writer -/
theorem NetInv.polled_bits {e : Ev} (h : NetInv e) {s pp : Nat} {rec : SockRec} (hs : e.socks[s]? = some rec)
    (hp : rec.pollpos = some pp) :
    ∃ bits, e.fds[pp]? = some (s, bits) ∧ (bits = 1 ∨ bits = 4 ∨ bits = 5) ∧
      (bits &&& POLLIN ≠ 0 ↔ rec.reader.isSome) ∧ (bits &&& POLLOUT ≠ 0 ↔ rec.writer.isSome) := by
  obtain ⟨h1, h2⟩ := h.polled s rec pp hs hp
  have hc := evBits_cases rec
  refine ⟨_, h1, ?_, hc.2.1, hc.2.2.1⟩
  rcases hc.1 with h0 | h0
  · exact absurd h0 h2
  · exact h0

theorem netInv_init : NetInv ({} : Ev) := by
  constructor <;> simp

/-- NetInv only reads the network fields -/
theorem netInv_congr (e e' : Ev) (h : NetInv e) (h1 : e'.sAlloc = e.sAlloc) (h2 : e'.socks = e.socks)
    (h3 : e'.fds = e.fds) (_h4 : e'.fdsAlloc = e.fdsAlloc) : NetInv e' := by
  obtain ⟨a, b, c, d⟩ := h
  constructor
  · rw [h1, h2, h3]; exact a
  · rw [h2]; exact b
  · rw [h2, h3]; exact c
  · rw [h2, h3]; exact d

theorem granted_of_mono {m m' : Mem} (hg : Granted m) (hf : m'.f = m.f) (hn : m.n ≤ m'.n) : Granted m' := by
  intro n sz hle
  rw [hf]
  exact hg n sz (Nat.le_trans hn hle)

/-! ### the registry of a socket list -/

theorem mem_netOf : ∀ (l : List SockRec) (fd s : Nat) (w : Bool) (id : Nat),
    (s, w, id) ∈ netOf fd l ↔ fd ≤ s ∧ ∃ rec rid, l[s - fd]? = some rec ∧ slot rec w = some (rid, id)
  | [], fd, s, w, id => by simp [netOf]
  | r :: rest, fd, s, w, id => by
    simp only [netOf, List.mem_append, mem_netOf rest (fd + 1) s w id]
    constructor
    · rintro ((h | h) | ⟨h1, rec, rid, h2, h3⟩)
      · cases hr : r.reader with
        | none => simp [hr] at h
        | some p =>
          simp only [hr, List.mem_singleton, Prod.mk.injEq] at h
          obtain ⟨rfl, rfl, rfl⟩ := h
          exact ⟨Nat.le_refl _, r, p.1, by simp, by simp [slot, hr]⟩
      · cases hr : r.writer with
        | none => simp [hr] at h
        | some p =>
          simp only [hr, List.mem_singleton, Prod.mk.injEq] at h
          obtain ⟨rfl, rfl, rfl⟩ := h
          exact ⟨Nat.le_refl _, r, p.1, by simp, by simp [slot, hr]⟩
      · refine ⟨by omega, rec, rid, ?_, h3⟩
        have : s - fd = (s - (fd + 1)) + 1 := by omega
        rw [this]; simpa using h2
    · rintro ⟨h1, rec, rid, h2, h3⟩
      by_cases hs : s = fd
      · subst hs
        simp only [Nat.sub_self, List.getElem?_cons_zero, Option.some.injEq] at h2
        subst h2
        left
        cases w
        · left
          simp only [slot, Bool.false_eq_true, if_false] at h3
          simp [h3]
        · right
          simp only [slot, if_true] at h3
          simp [h3]
      · right
        refine ⟨by omega, rec, rid, ?_, h3⟩
        have : s - fd = (s - (fd + 1)) + 1 := by omega
        rw [this] at h2; simpa using h2

theorem nodup_netOf : ∀ (l : List SockRec) (fd : Nat), (netOf fd l).Nodup
  | [], fd => by simp [netOf]
  | r :: rest, fd => by
    have ih := nodup_netOf rest (fd + 1)
    have hm := mem_netOf rest (fd + 1)
    simp only [netOf]
    rw [List.nodup_append, List.nodup_append]
    refine ⟨⟨?_, ?_, ?_⟩, ih, ?_⟩
    · cases r.reader <;> simp
    · cases r.writer <;> simp
    · cases r.reader <;> cases r.writer <;> simp
    · intro a ha b hb
      obtain ⟨s, w, id⟩ := b
      have hle := ((hm s w id).1 hb).1
      have : a.1 = fd := by
        cases hr : r.reader <;> cases hw : r.writer <;> simp [hr, hw] at ha
        all_goals (first | (rcases ha with rfl | rfl <;> rfl) | (subst ha; rfl))
      intro hab
      subst hab
      simp only at this
      omega

theorem mem_regNet (e : Ev) (s : Nat) (w : Bool) (id : Nat) :
    (s, w, id) ∈ regNet e ↔ ∃ rec rid, e.socks[s]? = some rec ∧ slot rec w = some (rid, id) := by
  simp [regNet, registry, mem_netOf]

theorem netRegistered_iff (e : Ev) (s : Nat) (w : Bool) :
    netRegistered e s w ↔ ∃ rec, e.socks[s]? = some rec ∧ (slot rec w).isSome := by
  unfold netRegistered
  simp only [mem_regNet]
  constructor
  · rintro ⟨id, rec, rid, h1, h2⟩
    exact ⟨rec, h1, by simp [h2]⟩
  · rintro ⟨rec, h1, h2⟩
    cases hsl : slot rec w with
    | none => simp [hsl] at h2
    | some p => exact ⟨p.2, rec, p.1, h1, hsl⟩

theorem regNet_unique (e : Ev) (s : Nat) (w : Bool) (i j : Nat) :
    (s, w, i) ∈ regNet e → (s, w, j) ∈ regNet e → i = j := by
  simp only [mem_regNet]
  rintro ⟨rec, rid, h1, h2⟩ ⟨rec', rid', h1', h2'⟩
  rw [h1] at h1'
  cases h1'
  rw [h2] at h2'
  cases h2'
  rfl

theorem regNet_nodup (e : Ev) : (regNet e).Nodup := nodup_netOf _ _


/-! ### the invariant on the two arrays alone, and the primitive updates that keep it -/

/-- `NetInv` without `uninit`, as a predicate of the socket list and the pollfd array -/
structure SF (socks : List SockRec) (fds : List (Nat × Nat)) : Prop where
  idle : ∀ (s : Nat) (rec : SockRec), socks[s]? = some rec → rec.pollpos = none → rec.reader = none ∧ rec.writer = none
  polled : ∀ (s : Nat) (rec : SockRec) (pp : Nat), socks[s]? = some rec → rec.pollpos = some pp →
    fds[pp]? = some (s, evBits rec) ∧ evBits rec ≠ 0
  back : ∀ (pp fd bits : Nat), fds[pp]? = some (fd, bits) → ∃ rec : SockRec, socks[fd]? = some rec ∧ rec.pollpos = some pp

def bitOf (w : Bool) : Nat := if w then POLLOUT else POLLIN

theorem evBits_set (rec : SockRec) (w : Bool) (p : Option Nat) (x : Nat × Nat) (h : slot rec w = none) :
    evBits (setSlot { rec with pollpos := p } w (some x)) = evBits rec ||| bitOf w := by
  cases w <;> simp [slot] at h <;> simp [setSlot, evBits, h, bitOf, POLLIN, POLLOUT] <;> cases rec.writer <;> cases rec.reader <;> simp

theorem evBits_clear (rec : SockRec) (w : Bool) :
    evBits (setSlot rec w none) = evBits rec &&& (bitOf w ^^^ 7) := by
  cases w <;> simp [setSlot, evBits, bitOf, POLLIN, POLLOUT] <;> cases rec.writer <;> cases rec.reader <;> simp

theorem sf_reg_some {socks fds} (h : SF socks fds) (s : Nat) (rec : SockRec) (w : Bool) (pp : Nat) (x : Nat × Nat)
    (hs : socks[s]? = some rec) (hsl : slot rec w = none) (hp : rec.pollpos = some pp) :
    SF (socks.set s (setSlot { rec with pollpos := some pp } w (some x)))
       (fds.modify pp (fun p => (p.1, p.2 ||| bitOf w))) := by
  have hb := evBits_set rec w (some pp) x hsl
  obtain ⟨h1, h2, h3⟩ := h
  have hpp := h2 s rec pp hs hp
  constructor
  · intro s' rec' hs' hp'
    grind [setSlot]
  · intro s' rec' pp' hs' hp'
    grind [setSlot]
  · intro pp' fd bits hf
    grind [setSlot]

theorem sf_reg_none {socks fds} (h : SF socks fds) (s : Nat) (rec : SockRec) (w : Bool) (x : Nat × Nat)
    (hs : socks[s]? = some rec) (hsl : slot rec w = none) (hp : rec.pollpos = none) :
    SF (socks.set s (setSlot { rec with pollpos := some fds.length } w (some x)))
       ((fds ++ [(s, 0)]).modify fds.length (fun p => (p.1, p.2 ||| bitOf w))) := by
  have hb := evBits_set rec w (some fds.length) x hsl
  obtain ⟨h1, h2, h3⟩ := h
  have hpp := h1 s rec hs hp
  have h0 : evBits rec = 0 := by simp [evBits, hpp]
  have hbw : bitOf w ≠ 0 := by cases w <;> simp [bitOf, POLLIN, POLLOUT]
  constructor
  · intro s' rec' hs' hp'
    grind [setSlot]
  · intro s' rec' pp' hs' hp'
    grind [setSlot]
  · intro pp' fd bits hf
    grind [setSlot]

theorem sf_grow {socks fds} (h : SF socks fds) (k : Nat) : SF (socks ++ List.replicate k SockRec.empty) fds := by
  obtain ⟨h1, h2, h3⟩ := h
  constructor
  · intro s' rec' hs' hp'
    grind [SockRec.empty]
  · intro s' rec' pp' hs' hp'
    grind [SockRec.empty]
  · intro pp' fd bits hf
    grind [SockRec.empty]

theorem sf_clear_keep {socks fds} (h : SF socks fds) (s : Nat) (rec : SockRec) (w : Bool) (pp : Nat)
    (hs : socks[s]? = some rec) (hp : rec.pollpos = some pp) (hne : evBits (setSlot rec w none) ≠ 0) :
    SF (socks.set s (setSlot rec w none)) (fds.set pp (s, evBits (setSlot rec w none))) := by
  obtain ⟨h1, h2, h3⟩ := h
  have hpp := h2 s rec pp hs hp
  have hq : (setSlot rec w none).pollpos = some pp := by cases w <;> simp [setSlot, hp]
  constructor
  · intro s' rec' hs' hp'
    grind
  · intro s' rec' pp' hs' hp'
    grind
  · intro pp' fd bits hf
    grind

theorem sf_clear_last {socks fds} (h : SF socks fds) (s : Nat) (rec : SockRec) (w : Bool) (pp : Nat)
    (hs : socks[s]? = some rec) (hp : rec.pollpos = some pp) (h0 : evBits (setSlot rec w none) = 0)
    (hl : pp = fds.length - 1) :
    SF ((socks.set s (setSlot rec w none)).modify s (fun r => { r with pollpos := none })) fds.dropLast := by
  obtain ⟨h1, h2, h3⟩ := h
  have hpp := h2 s rec pp hs hp
  have hq := (evBits_cases (setSlot rec w none)).2.2.2.1 h0
  constructor
  · intro s' rec' hs' hp'
    grind
  · intro s' rec' pp' hs' hp'
    grind
  · intro pp' fd bits hf
    grind

theorem sf_clear_swap {socks fds} (h : SF socks fds) (s : Nat) (rec : SockRec) (w : Bool) (pp lfd lev : Nat)
    (hs : socks[s]? = some rec) (hp : rec.pollpos = some pp) (h0 : evBits (setSlot rec w none) = 0)
    (hl : pp ≠ fds.length - 1) (hlast : fds[fds.length - 1]? = some (lfd, lev)) :
    SF (((socks.set s (setSlot rec w none)).modify s (fun r => { r with pollpos := none })).modify lfd
          (fun r => { r with pollpos := some pp }))
       (fds.set pp (lfd, lev)).dropLast := by
  obtain ⟨h1, h2, h3⟩ := h
  have hpp := h2 s rec pp hs hp
  have hq := (evBits_cases (setSlot rec w none)).2.2.2.1 h0
  obtain ⟨lrec, hl1, hl2⟩ := h3 _ _ _ hlast
  have hl3 := h2 _ _ _ hl1 hl2
  have hne : lfd ≠ s := by grind
  have hev : ∀ (r : SockRec) (p : Option Nat), evBits { r with pollpos := p } = evBits r := fun _ _ => rfl
  constructor
  · intro s' rec' hs' hp'
    grind
  · intro s' rec' pp' hs' hp'
    by_cases e1 : s' = lfd
    · subst e1
      have : rec' = { lrec with pollpos := some pp } := by grind
      subst this
      grind
    · by_cases e2 : s' = s
      · grind
      · have hs'' : socks[s']? = some rec' := by grind
        have := h2 _ _ _ hs'' hp'
        grind
  · intro pp' fd bits hf
    grind


theorem netInv_iff (e : Ev) : NetInv e ↔ (e.sAlloc = none → e.socks = [] ∧ e.fds = []) ∧ SF e.socks e.fds :=
  ⟨fun ⟨a, b, c, d⟩ => ⟨a, b, c, d⟩, fun ⟨a, b, c, d⟩ => ⟨a, b, c, d⟩⟩

/-! ### the oracle is only advanced -/

/-- `m'` is `m` after some requests; if `m` grants everything from now on, none of them was refused -/
def Adv (m m' : Mem) : Prop :=
  m'.f = m.f ∧ m.n ≤ m'.n ∧ m.refusals ≤ m'.refusals ∧ (Granted m → m'.refusals = m.refusals)

theorem Adv.refl (m : Mem) : Adv m m := ⟨rfl, Nat.le_refl _, Nat.le_refl _, fun _ => rfl⟩

theorem Adv.trans {a b c : Mem} (h1 : Adv a b) (h2 : Adv b c) : Adv a c := by
  obtain ⟨f1, n1, r1, g1⟩ := h1
  obtain ⟨f2, n2, r2, g2⟩ := h2
  refine ⟨f2.trans f1, Nat.le_trans n1 n2, Nat.le_trans r1 r2, fun hg => ?_⟩
  rw [g2 (granted_of_mono hg f1 n1), g1 hg]

theorem adv_malloc (m : Mem) (sz : Nat) : Adv m (m.malloc sz).2 ∧
    ((m.malloc sz).1 = true → (m.malloc sz).2.refusals = m.refusals ∧ (m.malloc sz).2.n = m.n + 1) ∧
    ((m.malloc sz).1 = false → m.refusals < (m.malloc sz).2.refusals) := by
  unfold Adv Granted Mem.malloc
  cases hf : m.f m.n sz
  · simp only [Bool.false_eq_true, if_false]
    refine ⟨⟨trivial, by omega, by omega, fun hg => ?_⟩, by simp, by simp⟩
    rw [hg m.n sz (Nat.le_refl _)] at hf; cases hf
  · simp

theorem adv_realloc (m : Mem) (b : Bool) (sz : Nat) : Adv m (m.realloc b sz).2 ∧
    ((m.realloc b sz).1 = true → (m.realloc b sz).2.refusals = m.refusals) ∧
    ((m.realloc b sz).1 = false → m.refusals < (m.realloc b sz).2.refusals) := by
  unfold Adv Granted Mem.realloc
  cases hf : m.f m.n sz
  · simp only [Bool.false_eq_true, if_false]
    refine ⟨⟨trivial, by omega, by omega, fun hg => ?_⟩, by simp, by simp⟩
    rw [hg m.n sz (Nat.le_refl _)] at hf; cases hf
  · simp

theorem adv_free (m : Mem) (b : Bool) : Adv m (m.free b) ∧ (m.free b).refusals = m.refusals ∧ (m.free b).n = m.n := by
  cases b <;> simp [Mem.free, Adv]

theorem adv_pool_malloc (p : MPool.MP) (len : Nat) (m : Mem) : Adv m (MPool.malloc p len m).2.2 ∧
    ((MPool.malloc p len m).1.isSome → (MPool.malloc p len m).2.2.refusals = m.refusals) ∧
    ((MPool.malloc p len m).1 = none → m.refusals < (MPool.malloc p len m).2.2.refusals) := by
  unfold MPool.malloc
  simp only
  split
  · exact ⟨Adv.refl m, fun _ => rfl, by simp⟩
  · have h := adv_malloc m len
    cases hr : (m.malloc len).1
    · rw [Percival.Proofs.EArray.pair_eta _ hr]
      exact ⟨h.1, by simp, fun _ => h.2.2 hr⟩
    · rw [Percival.Proofs.EArray.pair_eta _ hr]
      exact ⟨h.1, fun _ => (h.2.1 hr).1, by simp⟩

theorem adv_pool_free (p : MPool.MP) (obj : Nat) (m : Mem) : Adv m (MPool.free p obj m).2 ∧
    (p.stacklen < p.allocsize → (MPool.free p obj m).2 = m) := by
  unfold MPool.free
  split
  · exact ⟨Adv.refl m, fun _ => rfl⟩
  · rename_i hlt
    refine ⟨?_, fun h => absurd h hlt⟩
    split
    · have h := adv_malloc m ((p.allocsize * 2 * 8) % EArray.SZ)
      cases hr : (m.malloc ((p.allocsize * 2 * 8) % EArray.SZ)).1
      · rw [Percival.Proofs.EArray.pair_eta _ hr]
        exact h.1.trans (adv_free _ _).1
      · rw [Percival.Proofs.EArray.pair_eta _ hr]
        simp only
        split
        · exact h.1.trans (adv_free _ _).1
        · exact h.1
    · exact (adv_free _ _).1

theorem adv_resize (a : EArray.EA) (n : Nat) (m : Mem) : Adv m (EArray.resize a n m).2.2 ∧
    ((EArray.resize a n m).1 = true → (EArray.resize a n m).2.2.refusals = m.refusals) ∧
    ((EArray.resize a n m).1 = false → m.refusals < (EArray.resize a n m).2.2.refusals) := by
  unfold EArray.resize
  simp only
  split
  · have := adv_free m (a.alloc == 0)
    exact ⟨this.1, fun _ => this.2.1, by simp⟩
  · split
    · have h := adv_realloc m (a.alloc == 0) (EArray.wantAlloc a.alloc n)
      cases hr : (m.realloc (a.alloc == 0) (EArray.wantAlloc a.alloc n)).1
      · rw [Percival.Proofs.EArray.pair_eta _ hr]
        exact ⟨h.1, by simp, fun _ => h.2.2 hr⟩
      · rw [Percival.Proofs.EArray.pair_eta _ hr]
        exact ⟨h.1, fun _ => h.2.1 hr, by simp⟩
    · exact ⟨Adv.refl m, fun _ => rfl, by simp⟩

theorem adv_resizeRec (a : EArray.EA) (n : Nat) (r : Percival.Spec.DS.RecLen) (m : Mem) :
    Adv m (EArray.resizeRec a n r m).2.2 ∧
    ((EArray.resizeRec a n r m).1 = true → (EArray.resizeRec a n r m).2.2.refusals = m.refusals) ∧
    ((EArray.resizeRec a n r m).1 = false →
      m.refusals < (EArray.resizeRec a n r m).2.2.refusals ∨ n > EArray.SIZE_MAX / r.val) := by
  unfold EArray.resizeRec
  split
  · exact ⟨Adv.refl m, fun _ => rfl, fun _ => Or.inr (by assumption)⟩
  · have := adv_resize a ((n * r.val) % EArray.SZ) m
    exact ⟨this.1, this.2.1, fun h => Or.inl (this.2.2 h)⟩

theorem adv_ea_init (m : Mem) : Adv m (EArray.init 0 sockLen m).2 ∧
    ((EArray.init 0 sockLen m).1.isSome → (EArray.init 0 sockLen m).2.refusals = m.refusals) ∧
    ((EArray.init 0 sockLen m).1 = none → m.refusals < (EArray.init 0 sockLen m).2.refusals) := by
  unfold EArray.init
  have h := adv_malloc m EArray.structSize
  cases hr : (m.malloc EArray.structSize).1
  · rw [Percival.Proofs.EArray.pair_eta _ hr]
    exact ⟨h.1, by simp, fun _ => h.2.2 hr⟩
  · rw [Percival.Proofs.EArray.pair_eta _ hr]
    simp only
    have h2 := adv_resizeRec { size := 0, alloc := 0, buf := [] } 0 sockLen (m.malloc EArray.structSize).2
    rcases hres : EArray.resizeRec { size := 0, alloc := 0, buf := [] } 0 sockLen (m.malloc EArray.structSize).2
      with ⟨ok, a, m2⟩
    rw [hres] at h2
    cases ok
    · have := h2.2.2 rfl
      simp only [EArray.free]
      refine ⟨h.1.trans (h2.1.trans ((adv_free _ _).1.trans (adv_free _ _).1)), by simp, fun _ => ?_⟩
      rw [(adv_free _ _).2.1, (adv_free _ _).2.1]
      rcases this with h3 | h3
      · have := (h.2.1 hr).1; simp only at h3; omega
      · simp at h3
    · exact ⟨h.1.trans h2.1, fun _ => by rw [h2.2.1 rfl]; exact (h.2.1 hr).1, by simp⟩


/-! ### `netReg` as a composition of named steps -/

/-- the parts of the state the network functions never touch -/
def Frame (e e' : Ev) : Prop :=
  e'.heads = e.heads ∧ e'.minq = e.minq ∧ e'.tq = e.tq ∧ e'.timers = e.timers ∧ e'.qPool = e.qPool

theorem Frame.refl (e : Ev) : Frame e e := ⟨rfl, rfl, rfl, rfl, rfl⟩

theorem Frame.trans {a b c : Ev} (h1 : Frame a b) (h2 : Frame b c) : Frame a c := by
  obtain ⟨a1, a2, a3, a4, a5⟩ := h1
  obtain ⟨b1, b2, b3, b4, b5⟩ := h2
  exact ⟨b1.trans a1, b2.trans a2, b3.trans a3, b4.trans a4, b5.trans a5⟩

/-- "grow the socket list if necessary" -/
def growS (e0 : Ev) (sal s : Nat) (m0 : Mem) : Bool × Ev × Mem :=
  if s ≥ e0.socks.length then
    match EArray.resizeRec (sShape e0.socks.length sal) (s + 1) sockLen m0 with
    | (true, a', m1) =>
      (true, { e0 with sAlloc := some a'.alloc
                       socks := e0.socks ++ List.replicate (s + 1 - e0.socks.length) SockRec.empty }, m1)
    | (false, _, m1) => (false, e0, m1)
  else (true, e0, m0)

/-- `growpollfd` if the descriptor is not in the pollfd array yet -/
def growPoll (e2 : Ev) (pollpos : Option Nat) (s : Nat) (m2 : Mem) : Option Nat × Ev × Mem :=
  match pollpos with
  | some pp => (some pp, e2, m2)
  | none =>
    if e2.fdsAlloc = e2.fds.length then
      let nalloc := if e2.fdsAlloc = 0 then 16 else e2.fdsAlloc * 2
      match m2.realloc (e2.fdsAlloc == 0) (nalloc * pollfdSize) with
      | (true, m3) => (some e2.fds.length, { e2 with fdsAlloc := nalloc, fds := e2.fds ++ [(s, 0)] }, m3)
      | (false, m3) => (none, e2, m3)
    else (some e2.fds.length, { e2 with fds := e2.fds ++ [(s, 0)] }, m2)

/-- the registration proper, once `S` is long enough -/
def regAt (e1 : Ev) (id s : Nat) (isWrite : Bool) (m1 : Mem) : NetRes × Ev × Mem :=
  match e1.socks[s]? with
  | none => (.broken, e1, m1)
  | some rec =>
    if (slot rec isWrite).isSome then (.exists_, e1, m1) else
    match mkrec e1 m1 with
    | (none, e2, m2) => (.fail, e2, m2)
    | (some rid, e2, m2) =>
      match growPoll e2 rec.pollpos s m2 with
      | (none, e3, m3) =>
        match freerec e3 rid m3 with
        | (e4, m4) => (.fail, e4, m4)
      | (some pp, e3, m3) =>
        (.ok, { e3 with socks := e3.socks.set s (setSlot { rec with pollpos := some pp } isWrite (some (rid, id)))
                        fds := e3.fds.modify pp (fun p => (p.1, p.2 ||| bitOf isWrite)) }, m3)

theorem netReg_eq (e : Ev) (id s : Nat) (w : Bool) (m : Mem) :
    netReg e id s w m =
      match netInit e m with
      | (false, e0, m0) => (.fail, e0, m0)
      | (true, e0, m0) =>
        match e0.sAlloc with
        | none => (.broken, e0, m0)
        | some sal =>
          match growS e0 sal s m0 with
          | (false, e1, m1) => (.fail, e1, m1)
          | (true, e1, m1) => regAt e1 id s w m1 := rfl


/-! ### what each step does -/

theorem netInit_spec (e : Ev) (m : Mem) :
    Frame e (netInit e m).2.1 ∧ Adv m (netInit e m).2.2 ∧ (netInit e m).2.1.recPool = e.recPool ∧
    ((netInit e m).1 = true → (netInit e m).2.1.sAlloc ≠ none ∧ (netInit e m).2.2.refusals = m.refusals) ∧
    ((netInit e m).1 = false → (netInit e m).2.1 = e ∧ m.refusals < (netInit e m).2.2.refusals) ∧
    (e.sAlloc ≠ none → netInit e m = (true, e, m)) ∧
    (NetInv e → NetInv (netInit e m).2.1 ∧ registry (netInit e m).2.1 = registry e) := by
  unfold netInit
  cases hsa : e.sAlloc with
  | some a => simp [Frame.refl, Adv.refl, hsa]
  | none =>
    simp only
    have h := adv_ea_init m
    rcases hi : EArray.init 0 sockLen m with ⟨o, m'⟩
    rw [hi] at h
    cases o with
    | none =>
      simp only at h ⊢
      exact ⟨Frame.refl e, h.1, (by trivial), by simp, fun _ => ⟨(by trivial), h.2.2 (by trivial)⟩, by simp, fun hv => ⟨hv, (by trivial)⟩⟩
    | some a =>
      simp only at h ⊢
      refine ⟨⟨(by trivial), (by trivial), (by trivial), (by trivial), (by trivial)⟩, h.1, (by trivial), fun _ => ⟨by simp, h.2.1 (by trivial)⟩, by simp, by simp, fun hv => ?_⟩
      have := hv.uninit hsa
      refine ⟨?_, by simp [registry, this.1]⟩
      constructor <;> simp

theorem growS_spec (e0 : Ev) (sal s : Nat) (m0 : Mem) :
    Frame e0 (growS e0 sal s m0).2.1 ∧ Adv m0 (growS e0 sal s m0).2.2 ∧
    (growS e0 sal s m0).2.1.recPool = e0.recPool ∧
    ((growS e0 sal s m0).1 = true →
      s < (growS e0 sal s m0).2.1.socks.length ∧ (growS e0 sal s m0).2.2.refusals = m0.refusals) ∧
    ((growS e0 sal s m0).1 = false → (growS e0 sal s m0).2.1 = e0 ∧
      (m0.refusals < (growS e0 sal s m0).2.2.refusals ∨ EArray.SIZE_MAX < 24 * (s + 1))) ∧
    registry (growS e0 sal s m0).2.1 = registry e0 ∧
    (NetInv e0 → e0.sAlloc ≠ none → NetInv (growS e0 sal s m0).2.1) := by
  unfold growS
  split
  · rename_i hge
    have h := adv_resizeRec (sShape e0.socks.length sal) (s + 1) sockLen m0
    rcases hr : EArray.resizeRec (sShape e0.socks.length sal) (s + 1) sockLen m0 with ⟨ok, a', m1⟩
    rw [hr] at h
    cases ok
    · simp only at h ⊢
      refine ⟨Frame.refl e0, h.1, (by trivial), by simp, fun _ => ⟨(by trivial), ?_⟩, (by trivial), fun hv _ => hv⟩
      rcases h.2.2 (by trivial) with h1 | h1
      · exact Or.inl h1
      · right
        have : sockLen.val = 24 := rfl
        rw [this, Percival.Proofs.EArray.SIZE_MAX_eq] at h1
        rw [Percival.Proofs.EArray.SIZE_MAX_eq]
        omega
    · simp only at h ⊢
      refine ⟨⟨(by trivial), (by trivial), (by trivial), (by trivial), (by trivial)⟩, h.1, (by trivial), fun _ => ⟨?_, h.2.1 (by trivial)⟩, by simp, ?_, fun hv _ => ?_⟩
      · simp only [List.length_append, List.length_replicate]; omega
      · simp [registry, AllocFail.netOf_append_empty]
      · rw [netInv_iff] at hv ⊢
        exact ⟨by simp, sf_grow hv.2 _⟩
  · rename_i hlt
    exact ⟨Frame.refl e0, Adv.refl m0, rfl, fun _ => ⟨Nat.lt_of_not_le hlt, rfl⟩, by simp, rfl, fun hv _ => hv⟩

theorem mkrec_spec (e : Ev) (m : Mem) :
    Frame e (mkrec e m).2.1 ∧ Adv m (mkrec e m).2.2 ∧
    (mkrec e m).2.1.sAlloc = e.sAlloc ∧ (mkrec e m).2.1.socks = e.socks ∧ (mkrec e m).2.1.fds = e.fds ∧
    (mkrec e m).2.1.fdsAlloc = e.fdsAlloc ∧
    ((mkrec e m).1.isSome → (mkrec e m).2.2.refusals = m.refusals) ∧
    ((mkrec e m).1 = none → m.refusals < (mkrec e m).2.2.refusals) := by
  unfold mkrec
  have h := adv_pool_malloc e.recPool recSize m
  rcases hr : MPool.malloc e.recPool recSize m with ⟨o, p, m'⟩
  rw [hr] at h
  exact ⟨⟨rfl, rfl, rfl, rfl, rfl⟩, h.1, rfl, rfl, rfl, rfl, h.2.1, h.2.2⟩

theorem freerec_spec (e : Ev) (rid : Nat) (m : Mem) :
    Frame e (freerec e rid m).1 ∧ Adv m (freerec e rid m).2 ∧
    (freerec e rid m).1.sAlloc = e.sAlloc ∧ (freerec e rid m).1.socks = e.socks ∧ (freerec e rid m).1.fds = e.fds ∧
    (freerec e rid m).1.fdsAlloc = e.fdsAlloc ∧
    (e.recPool.stacklen < e.recPool.allocsize → (freerec e rid m).2 = m) := by
  unfold freerec
  have h := adv_pool_free e.recPool rid m
  rcases hr : MPool.free e.recPool rid m with ⟨p, m'⟩
  rw [hr] at h
  exact ⟨⟨rfl, rfl, rfl, rfl, rfl⟩, h.1, rfl, rfl, rfl, rfl, h.2⟩

theorem growPoll_spec (e2 : Ev) (pollpos : Option Nat) (s : Nat) (m2 : Mem) :
    Frame e2 (growPoll e2 pollpos s m2).2.1 ∧ Adv m2 (growPoll e2 pollpos s m2).2.2 ∧
    (growPoll e2 pollpos s m2).2.1.sAlloc = e2.sAlloc ∧ (growPoll e2 pollpos s m2).2.1.socks = e2.socks ∧
    (growPoll e2 pollpos s m2).2.1.recPool = e2.recPool ∧
    (∀ pp, (growPoll e2 pollpos s m2).1 = some pp →
      (growPoll e2 pollpos s m2).2.2.refusals = m2.refusals ∧
      ((pollpos = some pp ∧ (growPoll e2 pollpos s m2).2.1.fds = e2.fds) ∨
       (pollpos = none ∧ pp = e2.fds.length ∧ (growPoll e2 pollpos s m2).2.1.fds = e2.fds ++ [(s, 0)]))) ∧
    ((growPoll e2 pollpos s m2).1 = none →
      (growPoll e2 pollpos s m2).2.1 = e2 ∧ m2.refusals < (growPoll e2 pollpos s m2).2.2.refusals) := by
  unfold growPoll
  cases pollpos with
  | some pp => simp [Frame.refl, Adv.refl]
  | none =>
    simp only
    split
    · have h := adv_realloc m2 (e2.fdsAlloc == 0) ((if e2.fdsAlloc = 0 then 16 else e2.fdsAlloc * 2) * pollfdSize)
      cases hr : (m2.realloc (e2.fdsAlloc == 0) ((if e2.fdsAlloc = 0 then 16 else e2.fdsAlloc * 2) * pollfdSize)).1
      · rw [Percival.Proofs.EArray.pair_eta _ hr]
        simp only
        exact ⟨Frame.refl e2, h.1, (by trivial), (by trivial), (by trivial), by simp, fun _ => ⟨(by trivial), h.2.2 hr⟩⟩
      · rw [Percival.Proofs.EArray.pair_eta _ hr]
        simp only
        refine ⟨⟨(by trivial), (by trivial), (by trivial), (by trivial), (by trivial)⟩, h.1, (by trivial), (by trivial), (by trivial), ?_, by simp⟩
        intro pp hpp
        simp only [Option.some.injEq] at hpp
        exact ⟨h.2.1 hr, Or.inr ⟨(by trivial), hpp.symm, (by trivial)⟩⟩
    · refine ⟨⟨(by trivial), (by trivial), (by trivial), (by trivial), (by trivial)⟩, Adv.refl m2, (by trivial), (by trivial), (by trivial), ?_, by simp⟩
      intro pp hpp
      simp only [Option.some.injEq] at hpp
      exact ⟨(by trivial), Or.inr ⟨(by trivial), hpp.symm, (by trivial)⟩⟩


theorem slot_setSlot (r : SockRec) (w w' : Bool) (v : Option (Nat × Nat)) :
    slot (setSlot r w v) w' = if w' = w then v else slot r w' := by
  cases w <;> cases w' <;> simp [slot, setSlot]

theorem slot_pollpos (r : SockRec) (p : Option Nat) (w : Bool) : slot { r with pollpos := p } w = slot r w := by
  cases w <;> rfl

theorem regAt_frame (e1 : Ev) (id s : Nat) (w : Bool) (m1 : Mem) :
    Frame e1 (regAt e1 id s w m1).2.1 ∧ Adv m1 (regAt e1 id s w m1).2.2 ∧ (regAt e1 id s w m1).1 ≠ .noent ∧
    ((regAt e1 id s w m1).2.2.refusals ≠ m1.refusals → (regAt e1 id s w m1).1 = .fail) := by
  unfold regAt
  cases hs : e1.socks[s]? with
  | none => exact ⟨Frame.refl _, Adv.refl _, by simp, by simp⟩
  | some rec =>
    simp only
    split
    · exact ⟨Frame.refl _, Adv.refl _, by simp, by simp⟩
    · have hmk := mkrec_spec e1 m1
      rcases hmkr : mkrec e1 m1 with ⟨o, e2, m2⟩
      rw [hmkr] at hmk
      cases o with
      | none => exact ⟨hmk.1, hmk.2.1, by simp, by simp⟩
      | some rid =>
        simp only at hmk ⊢
        have hgp := growPoll_spec e2 rec.pollpos s m2
        rcases hgpr : growPoll e2 rec.pollpos s m2 with ⟨opp, e3, m3⟩
        rw [hgpr] at hgp
        cases opp with
        | none =>
          simp only at hgp ⊢
          have hfr := freerec_spec e3 rid m3
          exact ⟨hmk.1.trans (hgp.1.trans hfr.1), hmk.2.1.trans (hgp.2.1.trans hfr.2.1), by simp, by simp⟩
        | some pp =>
          simp only at hgp ⊢
          refine ⟨hmk.1.trans (hgp.1.trans ⟨(by trivial), (by trivial), (by trivial), (by trivial), (by trivial)⟩),
            hmk.2.1.trans hgp.2.1, by simp, fun hne => absurd ?_ hne⟩
          have h1 := (hgp.2.2.2.2.2.1 pp (by trivial)).1
          have h2 := hmk.2.2.2.2.2.2.1 (by simp)
          omega

theorem regAt_spec (e1 : Ev) (id s : Nat) (w : Bool) (m1 : Mem) (h : NetInv e1) (hlen : s < e1.socks.length) :
    NetInv (regAt e1 id s w m1).2.1 ∧
    (((regAt e1 id s w m1).1 = .ok ∧ ¬ netRegistered e1 s w ∧
        (∀ x, x ∈ regNet (regAt e1 id s w m1).2.1 ↔ x = (s, w, id) ∨ x ∈ regNet e1)) ∨
     ((regAt e1 id s w m1).1 = .exists_ ∧ netRegistered e1 s w ∧ registry (regAt e1 id s w m1).2.1 = registry e1) ∨
     ((regAt e1 id s w m1).1 = .fail ∧ m1.refusals < (regAt e1 id s w m1).2.2.refusals ∧
        registry (regAt e1 id s w m1).2.1 = registry e1)) := by
  unfold regAt
  cases hs : e1.socks[s]? with
  | none =>
    have := List.getElem?_eq_none_iff.1 hs
    omega
  | some rec =>
    simp only
    split
    · rename_i hsl
      refine ⟨h, Or.inr (Or.inl ⟨(by trivial), ?_, (by trivial)⟩)⟩
      rw [netRegistered_iff]
      exact ⟨rec, hs, hsl⟩
    · rename_i hsl
      have hsl : slot rec w = none := by simpa using hsl
      have hmk := mkrec_spec e1 m1
      have hrm := AllocFail.registry_mkrec e1 m1
      rcases hmkr : mkrec e1 m1 with ⟨o, e2, m2⟩
      rw [hmkr] at hmk hrm
      simp only at hmk hrm
      have h2 : NetInv e2 := netInv_congr e1 e2 h hmk.2.2.1 hmk.2.2.2.1 hmk.2.2.2.2.1 hmk.2.2.2.2.2.1
      cases o with
      | none => exact ⟨h2, Or.inr (Or.inr ⟨(by trivial), hmk.2.2.2.2.2.2.2 (by trivial), hrm⟩)⟩
      | some rid =>
        simp only at hmk ⊢
        have hgp := growPoll_spec e2 rec.pollpos s m2
        rcases hgpr : growPoll e2 rec.pollpos s m2 with ⟨opp, e3, m3⟩
        rw [hgpr] at hgp
        cases opp with
        | none =>
          simp only at hgp ⊢
          have hfr := freerec_spec e3 rid m3
          have hrf := AllocFail.registry_freerec e3 rid m3
          obtain ⟨he3, hlt⟩ := hgp.2.2.2.2.2.2 (by trivial)
          subst he3
          refine ⟨netInv_congr e3 _ h2 hfr.2.2.1 hfr.2.2.2.1 hfr.2.2.2.2.1 hfr.2.2.2.2.2.1,
            Or.inr (Or.inr ⟨(by trivial), ?_, by rw [hrf, hrm]⟩)⟩
          have := hfr.2.1.2.2.1
          have := hmk.2.1.2.2.1
          omega
        | some pp =>
          simp only at hgp ⊢
          obtain ⟨_, hcase⟩ := hgp.2.2.2.2.2.1 pp (by trivial)
          have hss : e3.socks = e1.socks := hgp.2.2.2.1.trans hmk.2.2.2.1
          have hfd : e2.fds = e1.fds := hmk.2.2.2.2.1
          refine ⟨?_, Or.inl ⟨(by trivial), ?_, ?_⟩⟩
          · rw [netInv_iff] at h ⊢
            refine ⟨fun hn => ?_, ?_⟩
            · have : e3.sAlloc = e1.sAlloc := hgp.2.2.1.trans hmk.2.2.1
              simp only at hn
              rw [this] at hn
              have := (h.1 hn).1
              rw [this] at hs
              simp at hs
            · simp only
              rw [hss]
              rcases hcase with ⟨hp, hf⟩ | ⟨hp, hpp, hf⟩
              · rw [hf, hfd]
                exact sf_reg_some h.2 s rec w pp (rid, id) hs hsl hp
              · rw [hf, hfd, hpp, hfd]
                exact sf_reg_none h.2 s rec w (rid, id) hs hsl hp
          · rw [netRegistered_iff]
            rintro ⟨rec', h1, h2'⟩
            rw [hs] at h1
            cases h1
            simp [hsl] at h2'
          · rintro ⟨s', w', id'⟩
            rw [mem_regNet, mem_regNet]
            simp only
            rw [hss]
            by_cases hs' : s' = s
            · subst hs'
              rw [List.getElem?_set_self hlen, hs]
              simp only [Option.some.injEq, Prod.mk.injEq, true_and]
              constructor
              · rintro ⟨rec', rid', h1, h2'⟩
                subst h1
                rw [slot_setSlot, slot_pollpos] at h2'
                by_cases hw : w' = w
                · simp only [hw, if_true, Option.some.injEq, Prod.mk.injEq] at h2'
                  exact Or.inl ⟨hw, h2'.2.symm⟩
                · simp only [hw, if_false] at h2'
                  exact Or.inr ⟨_, _, rfl, h2'⟩
              · rintro (⟨hw, hid⟩ | ⟨rec', rid', h1, h2'⟩)
                · exact ⟨_, rid, rfl, by rw [slot_setSlot, hw, hid]; simp⟩
                · subst h1
                  refine ⟨_, rid', rfl, ?_⟩
                  rw [slot_setSlot, slot_pollpos]
                  by_cases hw : w' = w
                  · rw [hw, hsl] at h2'; cases h2'
                  · simp only [hw, if_false]; exact h2'
            · rw [List.getElem?_set_ne (fun h => hs' h.symm)]
              simp [hs']


/-! ### `netReg` -/

theorem netReg_frame (e : Ev) (id s : Nat) (w : Bool) (m : Mem) :
    Frame e (netReg e id s w m).2.1 ∧ Adv m (netReg e id s w m).2.2 ∧ (netReg e id s w m).1 ≠ .noent ∧
    ((netReg e id s w m).2.2.refusals ≠ m.refusals → (netReg e id s w m).1 = .fail) := by
  rw [netReg_eq]
  have hi := netInit_spec e m
  rcases hni : netInit e m with ⟨ok0, e0, m0⟩
  rw [hni] at hi
  simp only at hi
  cases ok0
  · exact ⟨hi.1, hi.2.1, by simp, by simp⟩
  · simp only
    cases hsa : e0.sAlloc with
    | none => exact absurd hsa (hi.2.2.2.1 rfl).1
    | some sal =>
      simp only
      have hg := growS_spec e0 sal s m0
      rcases hgr : growS e0 sal s m0 with ⟨ok1, e1, m1⟩
      rw [hgr] at hg
      simp only at hg
      cases ok1
      · exact ⟨hi.1.trans hg.1, hi.2.1.trans hg.2.1, by simp, by simp⟩
      · simp only
        have hr := regAt_frame e1 id s w m1
        refine ⟨hi.1.trans (hg.1.trans hr.1), hi.2.1.trans (hg.2.1.trans hr.2.1), hr.2.2.1, fun hne => hr.2.2.2 ?_⟩
        have := (hi.2.2.2.1 rfl).2
        have := (hg.2.2.2.1 rfl).2
        omega

theorem netReg_spec (e : Ev) (id s : Nat) (w : Bool) (m : Mem) (h : NetInv e) :
    NetInv (netReg e id s w m).2.1 ∧
    (((netReg e id s w m).1 = .ok ∧ ¬ netRegistered e s w ∧
        (∀ x, x ∈ regNet (netReg e id s w m).2.1 ↔ x = (s, w, id) ∨ x ∈ regNet e)) ∨
     ((netReg e id s w m).1 = .exists_ ∧ netRegistered e s w ∧ registry (netReg e id s w m).2.1 = registry e) ∨
     ((netReg e id s w m).1 = .fail ∧ registry (netReg e id s w m).2.1 = registry e ∧
        (m.refusals < (netReg e id s w m).2.2.refusals ∨ EArray.SIZE_MAX < 24 * (s + 1)))) := by
  rw [netReg_eq]
  have hi := netInit_spec e m
  rcases hni : netInit e m with ⟨ok0, e0, m0⟩
  rw [hni] at hi
  simp only at hi
  obtain ⟨hv0, hr0⟩ := hi.2.2.2.2.2.2 h
  cases ok0
  · exact ⟨hv0, Or.inr (Or.inr ⟨rfl, hr0, Or.inl (hi.2.2.2.2.1 rfl).2⟩)⟩
  · simp only
    cases hsa : e0.sAlloc with
    | none => exact absurd hsa (hi.2.2.2.1 rfl).1
    | some sal =>
      simp only
      have hg := growS_spec e0 sal s m0
      rcases hgr : growS e0 sal s m0 with ⟨ok1, e1, m1⟩
      rw [hgr] at hg
      simp only at hg
      have hv1 : NetInv e1 := hg.2.2.2.2.2.2 hv0 (by simp [hsa])
      have hr1 : registry e1 = registry e := hg.2.2.2.2.2.1.trans hr0
      have hm0 := (hi.2.2.2.1 rfl).2
      cases ok1
      · simp only
        refine ⟨hv1, Or.inr (Or.inr ⟨(by trivial), hr1, ?_⟩)⟩
        rcases (hg.2.2.2.2.1 rfl).2 with h1 | h1
        · exact Or.inl (by omega)
        · exact Or.inr h1
      · simp only
        obtain ⟨hlen, hm1⟩ := hg.2.2.2.1 rfl
        have hr := regAt_spec e1 id s w m1 hv1 hlen
        have hn1 : regNet e1 = regNet e := by simp only [regNet, hr1]
        have hreg : netRegistered e1 s w ↔ netRegistered e s w := by simp only [netRegistered, hn1]
        refine ⟨hr.1, ?_⟩
        rcases hr.2 with ⟨a, b, c⟩ | ⟨a, b, c⟩ | ⟨a, b, c⟩
        · exact Or.inl ⟨a, by rw [← hreg]; exact b, by rw [← hn1]; exact c⟩
        · exact Or.inr (Or.inl ⟨a, hreg.1 b, c.trans hr1⟩)
        · exact Or.inr (Or.inr ⟨a, c.trans hr1, Or.inl (by omega)⟩)

theorem netReg_inv (e : Ev) (id s : Nat) (w : Bool) (m : Mem) (h : NetInv e) : NetInv (netReg e id s w m).2.1 :=
  (netReg_spec e id s w m h).1

/-- the parts `netReg` never touches -/
theorem netReg_other (e : Ev) (id s : Nat) (w : Bool) (m : Mem) :
    let e' := (netReg e id s w m).2.1
    e'.heads = e.heads ∧ e'.minq = e.minq ∧ e'.tq = e.tq ∧ e'.timers = e.timers ∧ e'.qPool = e.qPool :=
  (netReg_frame e id s w m).1

theorem netReg_ok (e : Ev) (id s : Nat) (w : Bool) (m : Mem) (h : NetInv e) (hok : (netReg e id s w m).1 = .ok) :
    ¬ netRegistered e s w ∧ (regNet (netReg e id s w m).2.1).Perm ((s, w, id) :: regNet e) := by
  rcases (netReg_spec e id s w m h).2 with ⟨_, b, c⟩ | ⟨a, _⟩ | ⟨a, _⟩
  · refine ⟨b, ?_⟩
    rw [List.perm_ext_iff_of_nodup (regNet_nodup _)]
    · intro x; rw [c x]; simp
    · rw [List.nodup_cons]
      exact ⟨fun hm => b ⟨id, hm⟩, regNet_nodup e⟩
  · rw [hok] at a; cases a
  · rw [hok] at a; cases a

theorem netReg_notok (e : Ev) (id s : Nat) (w : Bool) (m : Mem) (h : NetInv e) (hf : (netReg e id s w m).1 ≠ .ok) :
    registry (netReg e id s w m).2.1 = registry e :=
  AllocFail.net_fail_unchanged e id s w m (fun hn => (h.uninit hn).1) hf

theorem netReg_not_broken (e : Ev) (id s : Nat) (w : Bool) (m : Mem) (h : NetInv e) :
    (netReg e id s w m).1 ≠ .broken ∧ (netReg e id s w m).1 ≠ .noent := by
  refine ⟨?_, (netReg_frame e id s w m).2.2.1⟩
  rcases (netReg_spec e id s w m h).2 with ⟨a, _⟩ | ⟨a, _⟩ | ⟨a, _⟩ <;> rw [a] <;> simp

/-- (holds without the invariant as well: `netReg_frame`) -/
theorem netReg_refused (e : Ev) (id s : Nat) (w : Bool) (m : Mem) (_h : NetInv e)
    (hr : (netReg e id s w m).2.2.refusals ≠ m.refusals) : (netReg e id s w m).1 = .fail :=
  (netReg_frame e id s w m).2.2.2 hr

theorem netReg_exists (e : Ev) (id s : Nat) (w : Bool) (m : Mem) (h : NetInv e)
    (hx : (netReg e id s w m).1 = .exists_) : netRegistered e s w := by
  rcases (netReg_spec e id s w m h).2 with ⟨a, _⟩ | ⟨_, b, _⟩ | ⟨a, _⟩
  · rw [hx] at a; cases a
  · exact b
  · rw [hx] at a; cases a

theorem netReg_fail_refused (e : Ev) (id s : Nat) (w : Bool) (m : Mem) (h : NetInv e)
    (hs : 24 * (s + 1) ≤ EArray.SIZE_MAX) (hf : (netReg e id s w m).1 = .fail) :
    (netReg e id s w m).2.2.refusals > m.refusals := by
  rcases (netReg_spec e id s w m h).2 with ⟨a, _⟩ | ⟨a, _⟩ | ⟨_, _, c⟩
  · rw [hf] at a; cases a
  · rw [hf] at a; cases a
  · rcases c with c | c
    · exact c
    · omega

theorem netReg_granted (e : Ev) (id s : Nat) (w : Bool) (m : Mem) (h : NetInv e) (hg : Granted m)
    (hfree : ¬ netRegistered e s w) (hs : 24 * (s + 1) ≤ EArray.SIZE_MAX) : (netReg e id s w m).1 = .ok := by
  rcases (netReg_spec e id s w m h).2 with ⟨a, _⟩ | ⟨_, b, _⟩ | ⟨a, _⟩
  · exact a
  · exact absurd b hfree
  · have h1 := netReg_fail_refused e id s w m h hs a
    have h2 := (netReg_frame e id s w m).2.1.2.2.2 hg
    omega

/-- the oracle itself is only advanced -/
theorem netReg_mono (e : Ev) (id s : Nat) (w : Bool) (m : Mem) :
    let m' := (netReg e id s w m).2.2
    m'.f = m.f ∧ m.n ≤ m'.n ∧ m.refusals ≤ m'.refusals :=
  let h := (netReg_frame e id s w m).2.1
  ⟨h.1, h.2.1, h.2.2.1⟩


/-! ### `clearbit` and `netCancel` -/

theorem netOf_modify_pollpos (p : Option Nat) : ∀ (l : List SockRec) (i fd : Nat),
    netOf fd (l.modify i (fun r => { r with pollpos := p })) = netOf fd l
  | [], i, fd => by simp
  | r :: rest, 0, fd => by simp [netOf]
  | r :: rest, i + 1, fd => by simp [netOf, netOf_modify_pollpos p rest i (fd + 1)]

theorem clearbit_other (e : Ev) (pp bit : Nat) :
    Frame e (clearbit e pp bit) ∧ (clearbit e pp bit).sAlloc = e.sAlloc ∧ (clearbit e pp bit).recPool = e.recPool ∧
    (clearbit e pp bit).fdsAlloc = e.fdsAlloc ∧ registry (clearbit e pp bit) = registry e := by
  unfold clearbit
  split
  · exact ⟨Frame.refl e, rfl, rfl, rfl, rfl⟩
  · simp only
    split
    · exact ⟨⟨rfl, rfl, rfl, rfl, rfl⟩, rfl, rfl, rfl, rfl⟩
    · split
      · split
        · exact ⟨⟨rfl, rfl, rfl, rfl, rfl⟩, rfl, rfl, rfl, by simp [registry, netOf_modify_pollpos]⟩
        · exact ⟨Frame.refl e, rfl, rfl, rfl, rfl⟩
      · exact ⟨⟨rfl, rfl, rfl, rfl, rfl⟩, rfl, rfl, rfl, by simp [registry, netOf_modify_pollpos]⟩

theorem clearbit_sf (e2 : Ev) (socks : List SockRec) (fds : List (Nat × Nat)) (s : Nat) (rec : SockRec) (w : Bool)
    (pp : Nat) (hSF : SF socks fds) (hs : socks[s]? = some rec) (hp : rec.pollpos = some pp)
    (hsocks : e2.socks = socks.set s (setSlot rec w none)) (hfds : e2.fds = fds) :
    SF (clearbit e2 pp (bitOf w)).socks (clearbit e2 pp (bitOf w)).fds := by
  have hpp := (hSF.polled s rec pp hs hp).1
  unfold clearbit
  rw [hfds, hpp]
  simp only
  rw [← evBits_clear, hsocks]
  split
  · rename_i hne
    exact sf_clear_keep hSF s rec w pp hs hp hne
  · rename_i h0
    have h0 : evBits (setSlot rec w none) = 0 := by simpa using h0
    split
    · rename_i hl
      have hlt : fds.length - 1 < fds.length := by
        have := (List.getElem?_eq_some_iff.1 hpp).1
        omega
      cases hlast : fds[fds.length - 1]? with
      | none =>
        have := List.getElem?_eq_none_iff.1 hlast
        omega
      | some p =>
        obtain ⟨lfd, lev⟩ := p
        simp only
        exact sf_clear_swap hSF s rec w pp lfd lev hs hp h0 hl hlast
    · rename_i hl
      have hl : pp = fds.length - 1 := by simpa using hl
      exact sf_clear_last hSF s rec w pp hs hp h0 hl

theorem mem_netOf_clear (l : List SockRec) (s : Nat) (rec : SockRec) (w : Bool) (rid id : Nat)
    (hs : l[s]? = some rec) (hsl : slot rec w = some (rid, id)) (x : Nat × Bool × Nat) :
    x ∈ netOf 0 l ↔ x = (s, w, id) ∨ x ∈ netOf 0 (l.set s (setSlot rec w none)) := by
  obtain ⟨s', w', id'⟩ := x
  have hlen : s < l.length := (List.getElem?_eq_some_iff.1 hs).1
  rw [mem_netOf, mem_netOf]
  simp only [Nat.zero_le, true_and, Nat.sub_zero, Prod.mk.injEq]
  by_cases hs' : s' = s
  · subst hs'
    rw [List.getElem?_set_self hlen, hs]
    simp only [Option.some.injEq, true_and]
    constructor
    · rintro ⟨rec', rid', h1, h2⟩
      subst h1
      by_cases hw : w' = w
      · subst hw
        rw [hsl] at h2
        simp only [Option.some.injEq, Prod.mk.injEq] at h2
        exact Or.inl ⟨rfl, h2.2.symm⟩
      · exact Or.inr ⟨_, rid', rfl, by rw [slot_setSlot]; simp only [hw, if_false]; exact h2⟩
    · rintro (⟨hw, hid⟩ | ⟨rec', rid', h1, h2⟩)
      · exact ⟨_, rid, rfl, by rw [hw, hid]; exact hsl⟩
      · subst h1
        rw [slot_setSlot] at h2
        by_cases hw : w' = w
        · simp [hw] at h2
        · simp only [hw, if_false] at h2
          exact ⟨_, rid', rfl, h2⟩
  · rw [List.getElem?_set_ne (fun h => hs' h.symm)]
    simp [hs']

theorem netCancel_frame (e : Ev) (s : Nat) (w : Bool) (m : Mem) :
    Frame e (netCancel e s w m).2.1 ∧ Adv m (netCancel e s w m).2.2 := by
  unfold netCancel
  have hi := netInit_spec e m
  rcases hni : netInit e m with ⟨ok0, e0, m0⟩
  rw [hni] at hi
  simp only at hi
  cases ok0
  · exact ⟨hi.1, hi.2.1⟩
  · simp only
    cases hs : e0.socks[s]? with
    | none => exact ⟨hi.1, hi.2.1⟩
    | some rec =>
      simp only
      cases hsl : slot rec w with
      | none => exact ⟨hi.1, hi.2.1⟩
      | some p =>
        obtain ⟨rid, x⟩ := p
        simp only
        cases hpp : rec.pollpos with
        | none => exact ⟨hi.1, hi.2.1⟩
        | some pp =>
          simp only
          have hfr := freerec_spec e0 rid m0
          have hco := clearbit_other { (freerec e0 rid m0).1 with
            socks := (freerec e0 rid m0).1.socks.set s (setSlot rec w none) } pp (bitOf w)
          exact ⟨hi.1.trans (hfr.1.trans (Frame.trans ⟨rfl, rfl, rfl, rfl, rfl⟩ hco.1)), hi.2.1.trans hfr.2.1⟩

/-- what `netCancel` does to a registered event -/
theorem netCancel_spec (e : Ev) (s id : Nat) (w : Bool) (m : Mem) (h : NetInv e) (hreg : (s, w, id) ∈ regNet e) :
    ∃ rec rid pp, e.socks[s]? = some rec ∧ slot rec w = some (rid, id) ∧ rec.pollpos = some pp ∧
      netCancel e s w m =
        (.ok, clearbit { (freerec e rid m).1 with socks := (freerec e rid m).1.socks.set s (setSlot rec w none) } pp
                (bitOf w), (freerec e rid m).2) := by
  obtain ⟨rec, rid, hs, hsl⟩ := (mem_regNet e s w id).1 hreg
  have hsa : e.sAlloc ≠ none := by
    intro hn
    have := (h.uninit hn).1
    rw [this] at hs
    simp at hs
  have hi := (netInit_spec e m).2.2.2.2.2.1 hsa
  cases hpp : rec.pollpos with
  | none =>
    have := h.idle s rec hs hpp
    cases w <;> simp [slot, this] at hsl
  | some pp =>
    refine ⟨rec, rid, pp, hs, hsl, hpp, ?_⟩
    unfold netCancel
    rw [hi]
    simp only [hs, hsl, hpp]
    rfl

/-- "cancel cannot fail" -/
theorem netCancel_ok (e : Ev) (s id : Nat) (w : Bool) (m : Mem) (h : NetInv e) (hreg : (s, w, id) ∈ regNet e) :
    (netCancel e s w m).1 = .ok ∧ NetInv (netCancel e s w m).2.1 ∧
    (regNet e).Perm ((s, w, id) :: regNet (netCancel e s w m).2.1) := by
  obtain ⟨rec, rid, pp, hs, hsl, hpp, heq⟩ := netCancel_spec e s id w m h hreg
  rw [heq]
  have hfr := freerec_spec e rid m
  rcases hfrr : freerec e rid m with ⟨e1, m1⟩
  rw [hfrr] at hfr
  simp only at hfr ⊢
  have hco := clearbit_other { e1 with socks := e1.socks.set s (setSlot rec w none) } pp (bitOf w)
  have hsf := (netInv_iff e).1 h
  refine ⟨(by trivial), ?_, ?_⟩
  · rw [netInv_iff]
    refine ⟨fun hn => ?_, ?_⟩
    · rw [hco.2.1] at hn
      simp only at hn
      rw [hfr.2.2.1] at hn
      have := (h.uninit hn).1
      rw [this] at hs
      simp at hs
    · exact clearbit_sf _ e.socks e.fds s rec w pp hsf.2 hs hpp (by simp only; rw [hfr.2.2.2.1]) hfr.2.2.2.2.1
  · have hrn : regNet (clearbit { e1 with socks := e1.socks.set s (setSlot rec w none) } pp (bitOf w)) =
        netOf 0 (e.socks.set s (setSlot rec w none)) := by
      simp only [regNet, hco.2.2.2.2]
      simp only [registry]
      rw [hfr.2.2.2.1]
    have hmem := mem_netOf_clear e.socks s rec w rid id hs hsl
    have hnot : (s, w, id) ∉ netOf 0 (e.socks.set s (setSlot rec w none)) := by
      rw [mem_netOf]
      have hlen : s < e.socks.length := (List.getElem?_eq_some_iff.1 hs).1
      simp only [Nat.zero_le, true_and, Nat.sub_zero]
      rw [List.getElem?_set_self hlen]
      rintro ⟨rec', rid', h1, h2⟩
      simp only [Option.some.injEq] at h1
      subst h1
      rw [slot_setSlot] at h2
      simp at h2
    rw [hrn, List.perm_ext_iff_of_nodup (regNet_nodup e)]
    · intro x
      rw [List.mem_cons]
      exact hmem x
    · rw [List.nodup_cons]
      exact ⟨hnot, nodup_netOf _ _⟩

theorem netCancel_other (e : Ev) (s : Nat) (w : Bool) (m : Mem) :
    let e' := (netCancel e s w m).2.1
    e'.heads = e.heads ∧ e'.minq = e.minq ∧ e'.tq = e.tq ∧ e'.timers = e.timers ∧ e'.qPool = e.qPool :=
  (netCancel_frame e s w m).1

theorem netCancel_noalloc (e : Ev) (s id : Nat) (w : Bool) (m : Mem) (h : NetInv e) (hreg : (s, w, id) ∈ regNet e)
    (hroom : e.recPool.stacklen < e.recPool.allocsize) : (netCancel e s w m).2.2.n = m.n := by
  obtain ⟨rec, rid, pp, _, _, _, heq⟩ := netCancel_spec e s id w m h hreg
  rw [heq]
  simp only
  rw [(freerec_spec e rid m).2.2.2.2.2.2 hroom]

theorem netCancel_mono (e : Ev) (s : Nat) (w : Bool) (m : Mem) :
    let m' := (netCancel e s w m).2.2
    m'.f = m.f ∧ m.n ≤ m'.n ∧ m.refusals ≤ m'.refusals :=
  let h := (netCancel_frame e s w m).2
  ⟨h.1, h.2.1, h.2.2.1⟩

/- Unfinished: nothing.  All the requested theorems are proved as stated (`regNet_nodup` for the full triples).
   Also exported: `mem_regNet`, `NetInv.polled_bits` (the {1,4,5} / POLLIN / POLLOUT reading of `polled`),
   `netInv_iff`/`SF`, `Adv` (the oracle advanced; includes "nothing refused when `Granted`"), `Frame`,
   `netReg_frame`, `netReg_spec` (ok / exists_ / fail trichotomy), `netCancel_spec`, `netCancel_frame`. -/

end Percival.Proofs.EvRegNet
