import Percival.Proofs.HttpDecode
/-! C09, segmentation independence: the decoding of a well-formed response does not depend on how its
    bytes arrive. -/
namespace Percival.Proofs.HttpSeg
open Percival.Model.Http Percival.Proofs.Http Percival.Proofs.HttpNum Percival.Proofs.HttpDecode

local notation "crlf" => ([13, 10] : List UInt8)

/-! ## the end-of-headers scan finds the first terminator, from any earlier start -/

theorem scanHdr_first (l : List UInt8) : ∀ (i p : Nat), i ≤ p → p < scanHdr l i → p - i + 4 ≤ l.length →
    (l.drop (p - i)).take 4 ≠ term4 := by
  induction l with
  | nil => intro i p _ h2 h3; simp at h3
  | cons a t ih =>
    intro i p h1 h2 h3
    by_cases hlen : (a :: t).length < 4
    · simp at hlen h3; omega
    · obtain ⟨b, c, d, t3, rfl⟩ := exists_three t (by simp at hlen; omega)
      rw [scanHdr_cons4] at h2
      split at h2
      · omega
      · rename_i hc
        by_cases hp : p = i
        · subst hp
          simp only [Nat.sub_self, List.drop_zero]
          intro heq
          apply hc
          simp [term4] at heq
          simp [heq]
        · have := ih (i + 1) p (by omega) h2 (by simp only [List.length_cons] at h3 ⊢; omega)
          have e : p - i = (p - (i + 1)) + 1 := by omega
          rw [e, List.drop_succ_cons]
          exact this

theorem scanHdr_bound (l : List UInt8) : ∀ (i : Nat), scanHdr l i = i ∨ scanHdr l i + 3 ≤ i + l.length := by
  induction l with
  | nil => intro i; left; rw [scanHdr_short [] i (by simp)]
  | cons a t ih =>
    intro i
    by_cases hlen : (a :: t).length < 4
    · left; exact scanHdr_short _ i hlen
    · obtain ⟨b, c, d, t3, rfl⟩ := exists_three t (by simp at hlen; omega)
      rw [scanHdr_cons4]
      split
      · left; rfl
      · right
        rcases ih (i + 1) with h | h
        · rw [h]; simp only [List.length_cons]; omega
        · simp only [List.length_cons] at h ⊢; omega

theorem joined_ends (lines : List (List UInt8)) (hne : lines ≠ []) : ∃ Y, joined lines = Y ++ crlf := by
  induction lines with
  | nil => exact absurd rfl hne
  | cons l ls ih =>
    cases ls with
    | nil => exact ⟨l, by simp [joined_cons, joined_nil]⟩
    | cons l2 ls2 =>
      obtain ⟨Y, hY⟩ := ih (by simp)
      exact ⟨l ++ crlf ++ Y, by rw [joined_cons, hY]; simp⟩

/-- a header block: lines without CR/LF/NUL, each followed by CRLF, then the blank line -/
structure IsBlock (block : List UInt8) : Prop where
  ex : ∃ lines, (∀ l ∈ lines, LineOK l) ∧ lines ≠ [] ∧ block = joined lines ++ crlf

theorem block_len4 {block : List UInt8} (hb : IsBlock block) : 4 ≤ block.length := by
  obtain ⟨lines, _, hne, rfl⟩ := hb.ex
  obtain ⟨Y, hY⟩ := joined_ends lines hne
  rw [hY]; simp

theorem block_ends {block : List UInt8} (hb : IsBlock block) (more : List UInt8) :
    ((block ++ more).drop (block.length - 4)).take 4 = term4 := by
  obtain ⟨lines, _, hne, rfl⟩ := hb.ex
  obtain ⟨Y, hY⟩ := joined_ends lines hne
  rw [hY]
  have e : (Y ++ crlf ++ crlf ++ more) = Y ++ (13 :: 10 :: 13 :: 10 :: more) := by simp
  have hl : (Y ++ crlf ++ crlf).length - 4 = Y.length := by simp
  rw [e, hl, List.drop_left' rfl]
  rfl

theorem block_scan0 {block : List UInt8} (hb : IsBlock block) (more : List UInt8) :
    scanHdr (block ++ more) 0 = block.length - 4 := by
  obtain ⟨lines, hl, hne, rfl⟩ := hb.ex
  have := scanHdr_joined lines hl hne more 0
  rw [this]
  simp only [List.length_append, List.length_cons, List.length_nil]
  omega

/-- the only terminator inside a block is its end -/
theorem block_first_term {block : List UInt8} (hb : IsBlock block) (more : List UInt8) (p : Nat)
    (hp : p + 4 ≤ block.length) (ht : ((block ++ more).drop p).take 4 = term4) : p = block.length - 4 := by
  by_cases hlt : p < block.length - 4
  · exfalso
    have h0 := block_scan0 hb more
    have := scanHdr_first (block ++ more) 0 p (Nat.zero_le _) (by rw [h0]; exact hlt)
      (by simp only [List.length_append]; omega)
    simp only [Nat.sub_zero] at this
    exact this ht
  · omega

/-- scanning from any `hepos` not beyond the terminator finds it -/
theorem scan_from {block : List UInt8} (hb : IsBlock block) (more : List UInt8) (hepos : Nat)
    (hh : hepos + 4 ≤ block.length) :
    scanHdr ((block ++ more).drop hepos) hepos = block.length - 4 := by
  have hL := block_len4 hb
  obtain ⟨s1, s2, s3⟩ := scanHdr_spec ((block ++ more).drop hepos) hepos
  rw [List.length_drop, List.length_append] at s2 s3
  generalize hr : scanHdr ((block ++ more).drop hepos) hepos = r at s1 s2 s3
  have hle : r ≤ block.length - 4 := by
    rcases Nat.lt_or_ge (block.length - 4) r with hgt | hge
    · exfalso
      have := scanHdr_first ((block ++ more).drop hepos) hepos (block.length - 4) (by omega) (by rw [hr]; exact hgt)
        (by rw [List.length_drop, List.length_append]; omega)
      rw [List.drop_drop] at this
      have e : hepos + (block.length - 4 - hepos) = block.length - 4 := by omega
      rw [e] at this
      exact this (block_ends hb more)
    · exact hge
  have ht := s3 (by omega)
  rw [List.drop_drop] at ht
  have e : hepos + (r - hepos) = r := by omega
  rw [e] at ht
  exact block_first_term hb more r (by omega) ht

/-- on a buffer which ends inside the block, the scan does not find a terminator and `hepos` stays before it -/
theorem scan_prefix {block : List UInt8} (hb : IsBlock block) (more : List UInt8) (hepos b : Nat)
    (hh : hepos + 4 ≤ block.length) (hbl : b < block.length) :
    let buf := (block ++ more).take b
    let hp := scanHdr (buf.drop hepos) hepos
    ¬ (hp + 4 ≤ buf.length) ∧ hp + 4 ≤ block.length ∧ hepos ≤ hp := by
  intro buf hp
  have hbuflen : buf.length = b := by simp only [buf, List.length_take, List.length_append]; omega
  obtain ⟨s1, s2, s3⟩ := scanHdr_spec (buf.drop hepos) hepos
  rw [List.length_drop] at s2 s3
  have hnf : ¬ (hp + 4 ≤ buf.length) := by
    intro hfound
    have ht := s3 (by omega)
    rw [List.drop_drop] at ht
    have e : hepos + (hp - hepos) = hp := by omega
    rw [e] at ht
    -- the same four bytes are in the block
    have hsame : ((block ++ more).drop hp).take 4 = (buf.drop hp).take 4 := by
      simp only [buf]
      rw [List.drop_take, List.take_take]
      congr 1
      omega
    have := block_first_term hb more hp (by omega) (by rw [hsame]; exact ht)
    omega
  refine ⟨hnf, ?_, s1⟩
  rcases Nat.lt_or_ge buf.length hepos with h | h
  · -- nothing to scan
    have : buf.drop hepos = [] := List.drop_eq_nil_of_le (by omega)
    have hp0 : hp = hepos := by simp only [hp, this]; rw [scanHdr_short [] hepos (by simp)]
    omega
  · rcases scanHdr_bound (buf.drop hepos) hepos with hb' | hb'
    · have : hp = hepos := hb'
      omega
    · rw [List.length_drop] at hb'
      have : hp + 3 ≤ hepos + (buf.length - hepos) := hb'
      omega

/-! ## `callback_read_header` on a header block, from any `hepos`, complete or not -/

open Percival.Spec.HttpResp in
theorem isBlock_serialize (b : Block) (lo hi : Nat) (hwf : b.WF lo hi) : IsBlock b.serialize :=
  ⟨⟨blockLines b, blockLines_ok b lo hi hwf, by simp [blockLines], serialize_eq_joined b⟩⟩

open Percival.Spec.HttpResp in
theorem readHeader_block' (ovf : Bool → Nat → Int) (st : St) (b : Block) (lo hi : Nat) (hlo : 100 ≤ lo) (hhi : hi ≤ 599)
    (hwf : b.WF lo hi) (rest : List UInt8) (hh : st.hepos + 4 ≤ b.serialize.length) :
    readHeader ovf st .ok (b.serialize ++ rest) =
      afterParse { st with hepos := b.serialize.length - 4 } (b.status : Int)
        (b.headers.map (fun h => (h.name, h.value))) b.serialize.length := by
  have hb := isBlock_serialize b lo hi hwf
  have hL := block_len4 hb
  have hscan := scan_from hb rest st.hepos hh
  have hne : (Status.ok != Status.ok) = false := by decide
  simp only [readHeader, hne, Bool.false_eq_true, if_false, hscan]
  have e1 : b.serialize.length - 4 + 4 = b.serialize.length := by omega
  rw [e1]
  have hle : b.serialize.length ≤ (b.serialize ++ rest).length := by simp
  simp only [hle, if_true]
  have htake : (b.serialize ++ rest).take b.serialize.length = b.serialize := by simp
  rw [htake]
  exact gotHeaders_block ovf _ b lo hi hlo hhi hwf

/-- the buffer ends inside the block: wait for one more byte, `hepos` advanced but still before the terminator -/
theorem readHeader_partial (ovf : Bool → Nat → Int) (st : St) (block more : List UInt8) (hb : IsBlock block) (b' : Nat)
    (hh : st.hepos + 4 ≤ block.length) (hbl : b' < block.length) (hsize : block.length ≤ Percival.Gen.Http.MAXHDR + 1) :
    ∃ hp, hp + 4 ≤ block.length ∧
      readHeader ovf st .ok ((block ++ more).take b') = .wait { st with hepos := hp } 0 (b' + 1) .readHeader := by
  obtain ⟨h1, h2, _⟩ := scan_prefix hb more st.hepos b' hh hbl
  have hbuflen : ((block ++ more).take b').length = b' := by
    simp only [List.length_take, List.length_append]; omega
  refine ⟨_, h2, ?_⟩
  have hne : (Status.ok != Status.ok) = false := by decide
  simp only [readHeader, hne, Bool.false_eq_true, if_false]
  rw [if_neg h1, hbuflen, if_neg (by omega)]

/-! ## the other handlers on an incomplete buffer -/

theorem take_append_ge (x y : List UInt8) (b : Nat) (h : x.length ≤ b) : (x ++ y).take b = x ++ y.take (b - x.length) := by
  rw [List.take_append]
  rw [List.take_of_length_le h]

theorem take_append_le (x y : List UInt8) (b : Nat) (h : b ≤ x.length) : (x ++ y).take b = x.take b := by
  rw [List.take_append]
  have : b - x.length = 0 := by omega
  rw [this]; simp

theorem findeol_none (l : List UInt8) (h : ∀ c ∈ l, c ≠ 13) : findeol l = l.length := by
  have := findeolAux_skip l h [] 0
  simpa [findeol, findeolAux] using this

theorem findeol_none_cr (l : List UInt8) (h : ∀ c ∈ l, c ≠ 13) : findeol (l ++ [13]) = l.length + 1 := by
  have := findeolAux_skip l h [13] 0
  simpa [findeol, findeolAux] using this

/-- a chunk-size line whose CRLF has not completely arrived: wait for one more byte -/
theorem chunkedHeader_partial (st : St) (line more : List UInt8) (hl : ∀ c ∈ line, c ≠ 13) (b : Nat)
    (hb : b < line.length + 2) (hshort : line.length + 1 < Percival.Gen.Http.MAXCHLEN) :
    chunkedHeader st .ok ((line ++ crlf ++ more).take b) = .wait st 0 (b + 1) .chunkedHeader := by
  have hne : (Status.ok != Status.ok) = false := by decide
  have hbuf : (line ++ crlf ++ more).take b = line.take b ∨ (line ++ crlf ++ more).take b = line ++ [13] := by
    rcases Nat.lt_or_ge line.length b with h | h
    · right
      have hb1 : b = line.length + 1 := by omega
      rw [List.append_assoc, take_append_ge _ _ _ (by omega), hb1]
      simp
    · left
      rw [List.append_assoc, take_append_le _ _ _ h]
  have hlen : ((line ++ crlf ++ more).take b).length = b := by
    simp only [List.length_take, List.length_append, List.length_cons, List.length_nil]; omega
  have hfe : findeol ((line ++ crlf ++ more).take b) = b := by
    rcases hbuf with h | h
    · rw [h, findeol_none _ (fun c hc => hl c (List.mem_of_mem_take hc))]
      rw [← h, hlen]
    · rw [h, findeol_none_cr _ hl]
      rw [h] at hlen; simp at hlen; omega
  simp only [chunkedHeader, hne, Bool.false_eq_true, if_false, hfe, hlen]
  have : (b != b) = false := by simp
  simp only [this, Bool.false_eq_true, if_false]
  rw [if_neg (by omega)]

/-- the position inside a chunk: `rem` data bytes, then the EOL of which `j` bytes are already consumed -/
def chunkRest (rem : List UInt8) (j : Nat) (next : List UInt8) : List UInt8 :=
  rem ++ ([13, 10] : List UInt8).drop j ++ next

theorem eolLen_a (R m : Nat) (h : ¬ (R - m < 2)) : eolLen true R m = 0 := by
  simp only [eolLen, if_true, if_neg h]
  rw [if_neg (by omega)]

theorem eolLen_b (R m : Nat) (h : R - m < 2) (h2 : 2 - (R - m) ≤ m) : eolLen true R m = 2 - (R - m) := by
  simp only [eolLen, if_true, if_pos h]
  rw [if_neg (by omega)]

theorem eolLen_c (R m : Nat) (h : R - m < 2) (h2 : m < 2 - (R - m)) : eolLen true R m = m := by
  simp only [eolLen, if_true, if_pos h]
  rw [if_pos (by omega)]

/-- of the `m` bytes taken now from inside a chunk, the body gets the data bytes among them -/
theorem eolLen_take (R m : Nat) (hm : m ≤ R) (rem : List UInt8) (j : Nat) (hj : j ≤ 1) (hj1 : j = 1 → rem = [])
    (hR : R = rem.length + 2 - j) (next : List UInt8) :
    ((chunkRest rem j next).take m).take (m - eolLen true R m) = rem.take m := by
  rw [List.take_take]
  have hmin : min (m - eolLen true R m) m = m - eolLen true R m := by omega
  rw [hmin]
  rcases Nat.eq_or_lt_of_le hj with h1 | h0
  · -- one EOL byte left, no data
    have hrem := hj1 h1
    subst hrem
    subst h1
    simp only [List.length_nil] at hR
    have hR1 : R = 1 := by omega
    subst hR1
    rcases Nat.eq_or_lt_of_le hm with hm1 | hm0
    · subst hm1
      rw [eolLen_c 1 1 (by omega) (by omega)]
      simp
    · have : m = 0 := by omega
      subst this
      simp
  · have hj0 : j = 0 := by omega
    subst hj0
    simp only [Nat.sub_zero] at hR
    simp only [chunkRest, List.drop_zero]
    rcases Nat.lt_or_ge rem.length m with hgt | hle
    · have hb : eolLen true R m = 2 - (R - m) := eolLen_b R m (by omega) (by omega)
      rw [hb]
      have e : m - (2 - (R - m)) = rem.length := by omega
      rw [e, List.append_assoc, List.take_left' rfl, List.take_of_length_le (by omega)]
    · rw [eolLen_a R m (by omega)]
      simp only [Nat.sub_zero]
      rw [List.append_assoc, take_append_le _ _ _ hle]

theorem chunkRest_length (rem : List UInt8) (j : Nat) (hj : j ≤ 1) (next : List UInt8) :
    (chunkRest rem j next).length = rem.length + 2 - j + next.length := by
  simp only [chunkRest, List.length_append, List.length_drop, List.length_cons, List.length_nil]
  omega

/-- `callback_readdata` inside a chunk, on the first `b` bytes of what remains of the stream -/
theorem readData_chunkpos (st : St) (status : Int) (hdrs : List (List UInt8 × List UInt8)) (max : Nat) (got : List UInt8)
    (hs : BodySt st status hdrs max true got) (rem : List UInt8) (j : Nat) (hj : j ≤ 1) (hj1 : j = 1 → rem = [])
    (next : List UInt8) (hrl : st.readlen = rem.length + 2 - j) (hfit : got.length + rem.length ≤ max)
    (b : Nat) (hb : b ≤ (chunkRest rem j next).length) :
    ∃ st', BodySt st' status hdrs max true (got ++ rem.take (min b st.readlen)) ∧ st'.readlen = st.readlen - min b st.readlen ∧
      readData st .ok ((chunkRest rem j next).take b) =
        (if st.readlen - min b st.readlen = 0 then .goto st' (min b st.readlen) .chunkedHeader
         else .wait st' (min b st.readlen)
           (if st.readlen - min b st.readlen > Percival.Gen.Http.WAITCAP then Percival.Gen.Http.WAITCAP
            else st.readlen - min b st.readlen) .readData) := by
  have hbl := hs.bodylen
  have hmx := hs.max
  have hne : (Status.ok != Status.ok) = false := by decide
  have hbuflen : ((chunkRest rem j next).take b).length = b := by rw [List.length_take]; omega
  generalize hm : min b st.readlen = m
  have hmb : m ≤ b := by omega
  have hmR : m ≤ st.readlen := by omega
  have hbl' : (if ((chunkRest rem j next).take b).length > st.readlen then st.readlen
      else ((chunkRest rem j next).take b).length) = m := by
    rw [hbuflen]; split <;> omega
  have hpiece : ((chunkRest rem j next).take b).take (m - eolLen st.chunked st.readlen m) = rem.take m := by
    rw [hs.chunked]
    have := eolLen_take st.readlen m hmR rem j hj hj1 hrl next
    rw [List.take_take] at this ⊢
    have e1 : min (m - eolLen true st.readlen m) b = m - eolLen true st.readlen m := by omega
    have e2 : min (m - eolLen true st.readlen m) m = m - eolLen true st.readlen m := by omega
    rw [e1]; rw [e2] at this; exact this
  have hplen : (rem.take m).length ≤ rem.length := by rw [List.length_take]; omega
  obtain ⟨a, ha1, ha2, he⟩ := addbody_eq st (rem.take m) hs.alloc (by omega)
  refine ⟨{ st with alloc := a, bodylen := st.bodylen + (rem.take m).length, bodyRev := (rem.take m).reverse ++ st.bodyRev,
                    readlen := st.readlen - m }, ?_, rfl, ?_⟩
  · exact ⟨hs.status, hs.headers, hs.max, hs.chunked, by simp [hbl], by simp [hs.bodyRev], ha1⟩
  · simp only [readData, hne, Bool.false_eq_true, if_false, hbl', hpiece, he]
    by_cases hz : st.readlen - m = 0
    · simp only [hz, beq_self_eq_true, if_true, hs.chunked]
    · have : (st.readlen - m == 0) = false := by simp [hz]
      simp only [this, Bool.false_eq_true, if_false, hz]

theorem chunkRest_drop (rem : List UInt8) (j : Nat) (hj : j ≤ 1) (hj1 : j = 1 → rem = []) (next : List UInt8) (b : Nat)
    (hb : b < rem.length + 2 - j) :
    (chunkRest rem j next).drop b = chunkRest (rem.drop b) (if b > rem.length then 1 else j) next := by
  rcases Nat.eq_or_lt_of_le hj with h1 | h0
  · have := hj1 h1
    subst this; subst h1
    simp at hb
    subst hb
    simp [chunkRest]
  · have hj0 : j = 0 := by omega
    subst hj0
    simp only [Nat.sub_zero] at hb
    simp only [chunkRest, List.drop_zero]
    rcases Nat.lt_or_ge rem.length b with hgt | hle
    · have hb1 : b = rem.length + 1 := by omega
      subst hb1
      simp only [if_pos hgt]
      rw [List.append_assoc, List.drop_append]
      simp
    · rw [if_neg (by omega)]
      rw [List.append_assoc, List.drop_append]
      have : b - rem.length = 0 := by omega
      simp [this]

/-- `callback_readdata` for a `Content-Length` body, on the first `b` bytes of what remains -/
theorem readData_lenpos (st : St) (status : Int) (hdrs : List (List UInt8 × List UInt8)) (max : Nat) (got : List UInt8)
    (hs : BodySt st status hdrs max false got) (rem tail : List UInt8) (hrl : st.readlen = rem.length)
    (hfit : got.length + rem.length ≤ max) (b : Nat) (hb : b ≤ (rem ++ tail).length) :
    ∃ st', BodySt st' status hdrs max false (got ++ rem.take b) ∧ st'.readlen = rem.length - min b rem.length ∧
      readData st .ok ((rem ++ tail).take b) =
        (if rem.length - min b rem.length = 0 then .done (some { status := status, headers := hdrs, body := some (got ++ rem) })
         else .wait st' (min b rem.length)
           (if rem.length - min b rem.length > Percival.Gen.Http.WAITCAP then Percival.Gen.Http.WAITCAP
            else rem.length - min b rem.length) .readData) := by
  have hbl := hs.bodylen
  have hmx := hs.max
  have hne : (Status.ok != Status.ok) = false := by decide
  have hbuflen : ((rem ++ tail).take b).length = b := by rw [List.length_take]; omega
  generalize hm : min b rem.length = m
  have hbl' : (if ((rem ++ tail).take b).length > st.readlen then st.readlen else ((rem ++ tail).take b).length) = m := by
    rw [hbuflen, hrl]; split <;> omega
  have hel : eolLen st.chunked st.readlen m = 0 := by simp [eolLen, hs.chunked]
  have hpiece : ((rem ++ tail).take b).take (m - 0) = rem.take b := by
    rw [Nat.sub_zero, List.take_take]
    rcases Nat.lt_or_ge rem.length b with h | h
    · have : min m b = rem.length := by omega
      rw [this, List.take_left' rfl, List.take_of_length_le (by omega)]
    · have : min m b = b := by omega
      rw [this, take_append_le _ _ _ h]
  have hplen : (rem.take b).length ≤ rem.length := by rw [List.length_take]; omega
  obtain ⟨a, ha1, ha2, he⟩ := addbody_eq st (rem.take b) hs.alloc (by omega)
  refine ⟨{ st with alloc := a, bodylen := st.bodylen + (rem.take b).length, bodyRev := (rem.take b).reverse ++ st.bodyRev,
                    readlen := st.readlen - m }, ?_, by simp [hrl], ?_⟩
  · exact ⟨hs.status, hs.headers, hs.max, hs.chunked, by simp [hbl], by simp [hs.bodyRev], ha1⟩
  · simp only [readData, hne, Bool.false_eq_true, if_false, hbl', hel, hpiece, he]
    by_cases hz : rem.length - m = 0
    · have hz' : st.readlen - m = 0 := by rw [hrl]; exact hz
      simp only [hz, hz', beq_self_eq_true, if_true, hs.chunked, Bool.false_eq_true, if_false]
      have hall : rem.take b = rem := List.take_of_length_le (by omega)
      simp [mkResp, hs.status, hs.headers, hs.bodyRev, hall]
    · have hz' : (st.readlen - m == 0) = false := by rw [hrl]; simp [hz]
      have hz'' : (rem.length - m == 0) = false := by simp [hz]
      simp only [hz'', Bool.false_eq_true, if_false, hz, hrl]

/-- `callback_read_toeof` on the first `b` bytes of what remains -/
theorem readToEof_pos (st : St) (status : Int) (hdrs : List (List UInt8 × List UInt8)) (max : Nat) (ch : Bool)
    (got : List UInt8) (hs : BodySt st status hdrs max ch got) (rem : List UInt8) (hfit : got.length + rem.length ≤ max)
    (b : Nat) (hb : b ≤ rem.length) :
    ∃ st', BodySt st' status hdrs max ch (got ++ rem.take b) ∧
      readToEof st .ok (rem.take b) = .wait st' b 1 .readToEof := by
  have hbl := hs.bodylen
  have hmx := hs.max
  have hlen : (rem.take b).length = b := by rw [List.length_take]; omega
  obtain ⟨a, ha1, ha2, he⟩ := addbody_eq st (rem.take b) hs.alloc (by omega)
  refine ⟨{ st with alloc := a, bodylen := st.bodylen + (rem.take b).length, bodyRev := (rem.take b).reverse ++ st.bodyRev }, ?_, ?_⟩
  · exact ⟨hs.status, hs.headers, hs.max, hs.chunked, by simp [hbl], by simp [hs.bodyRev], ha1⟩
  · simp only [readToEof]
    rw [if_neg (by omega), if_neg (by omega), he, hlen]

/-! ## where the parser stands in a well-formed response -/

open Percival.Spec.HttpResp

/-- the response being received, the request kind and the caller's limit -/
structure Ctx where
  r : Percival.Spec.HttpResp.Resp
  ishead : Bool
  max : Nat

def Ctx.status (C : Ctx) : Int := (C.r.final.status : Int)
def Ctx.hdrs (C : Ctx) : List (List UInt8 × List UInt8) := expectedHeaders C.r
def Ctx.body (C : Ctx) : List UInt8 := expectedBody C.r C.ishead
def Ctx.resp (C : Ctx) : Model.Http.Resp := { status := C.status, headers := C.hdrs, body := some C.body }
def Ctx.after (C : Ctx) : List UInt8 := if bodiless C.ishead C.r.final.status then [] else C.r.framing.serialize

/-- what follows the chunks -/
def Ctx.chunkEnd (C : Ctx) : List UInt8 :=
  match C.r.framing with
  | .chunked _ le tail => [48] ++ le ++ crlf ++ tail
  | _ => []

def Ctx.lenTail (C : Ctx) : List UInt8 :=
  match C.r.framing with
  | .length _ t => t
  | _ => []

/-- a chunk whose size line fits the client's 256-byte window -/
def ChunkOK (c : List UInt8 × List UInt8) : Prop :=
  c.1 ≠ [] ∧ extWF c.2 ∧ (hex c.1.length ++ c.2).length + 1 < Percival.Gen.Http.MAXCHLEN

structure Ctx.OK (C : Ctx) : Prop where
  wfF : C.r.final.WF 200 599
  fr : bodiless C.ishead C.r.final.status = false → framingWF C.r.final.headers C.r.framing
  fit : C.body.length ≤ C.max
  sz : C.r.framing.body.length + 2 ≤ SIZE_MAX
  finalSize : C.r.final.serialize.length ≤ Percival.Gen.Http.MAXHDR + 1
  chunkLines : bodiless C.ishead C.r.final.status = false → ∀ cs le tail, C.r.framing = .chunked cs le tail →
    (∀ c ∈ cs, ChunkOK c) ∧ ([48] ++ le).length + 1 < Percival.Gen.Http.MAXCHLEN

inductive Pos where
  /-- reading header blocks: the interim blocks still to come, then the final block -/
  | hdr (is : List Block)
  /-- before a chunk-size line; the chunks still to come -/
  | chunkHdr (cs : List (List UInt8 × List UInt8))
  /-- inside a chunk: `rem` data bytes left, `j` EOL bytes already consumed -/
  | chunkData (rem : List UInt8) (j : Nat) (cs : List (List UInt8 × List UInt8))
  | lenData (rem : List UInt8)
  | eofData (rem : List UInt8)

def chunksBytes (cs : List (List UInt8 × List UInt8)) : List UInt8 := (cs.map serializeChunk).flatten
def chunksData (cs : List (List UInt8 × List UInt8)) : List UInt8 := (cs.map (·.1)).flatten

/-- the unconsumed part of the stream -/
def Pos.bytes (C : Ctx) : Pos → List UInt8
  | .hdr is => (is.map Block.serialize).flatten ++ (C.r.final.serialize ++ C.after)
  | .chunkHdr cs => chunksBytes cs ++ C.chunkEnd
  | .chunkData rem j cs => chunkRest rem j (chunksBytes cs ++ C.chunkEnd)
  | .lenData rem => rem ++ C.lenTail
  | .eofData rem => rem

def Pos.handler : Pos → Handler
  | .hdr _ => .readHeader
  | .chunkHdr _ => .chunkedHeader
  | .chunkData _ _ _ => .readData
  | .lenData _ => .readData
  | .eofData _ => .readToEof

def firstLen (C : Ctx) : List Block → Nat
  | [] => C.r.final.serialize.length
  | b :: _ => b.serialize.length

def IsChunked (C : Ctx) : Prop :=
  bodiless C.ishead C.r.final.status = false ∧ ∃ cs le tail, C.r.framing = .chunked cs le tail

/-- the parser state agrees with the position -/
def Sync (C : Ctx) : Pos → St → Prop
  | .hdr is, st =>
    (∀ b ∈ is, b.WF 100 199 ∧ b.serialize.length ≤ Percival.Gen.Http.MAXHDR + 1) ∧
    st.bodylen = 0 ∧ st.bodyRev = [] ∧ st.alloc ≤ st.max ∧ st.max = C.max ∧ st.ishead = C.ishead ∧
    st.hepos + 4 ≤ firstLen C is
  | .chunkHdr cs, st =>
    IsChunked C ∧ (∀ c ∈ cs, ChunkOK c) ∧
    ∃ got, BodySt st C.status C.hdrs C.max true got ∧ got ++ chunksData cs = C.body
  | .chunkData rem j cs, st =>
    IsChunked C ∧ (∀ c ∈ cs, ChunkOK c) ∧ j ≤ 1 ∧ (j = 1 → rem = []) ∧ st.readlen = rem.length + 2 - j ∧
    ∃ got, BodySt st C.status C.hdrs C.max true got ∧ got ++ rem ++ chunksData cs = C.body
  | .lenData rem, st =>
    st.readlen = rem.length ∧
    ∃ got, BodySt st C.status C.hdrs C.max false got ∧ got ++ rem = C.body
  | .eofData rem, st =>
    ∃ got ch, BodySt st C.status C.hdrs C.max ch got ∧ got ++ rem = C.body

/-- the verdict on one handler invocation on the first `b` bytes of the unconsumed stream -/
def MicroSync (C : Ctx) (p : Pos) (b : Nat) : Micro → Prop
  | .done r => r = some C.resp
  | .goto st' c h' => 0 < c ∧ c ≤ b ∧ ∃ p', h' = p'.handler ∧ Sync C p' st' ∧ p'.bytes C = (p.bytes C).drop c
  | .wait st' c k h' => c ≤ b ∧ b - c < k ∧ ∃ p', h' = p'.handler ∧ Sync C p' st' ∧ p'.bytes C = (p.bytes C).drop c ∧
      (k ≤ (p'.bytes C).length ∨ (k = 1 ∧ ∃ rem, p' = .eofData rem))
  | .abort _ => False

theorem waitcap_pos : 0 < Percival.Gen.Http.WAITCAP := by decide

theorem sync_eofData (ovf : Bool → Nat → Int) (C : Ctx) (hok : C.OK) (rem : List UInt8) (st : St)
    (hs : Sync C (.eofData rem) st) (b : Nat) (hb : b ≤ ((Pos.eofData rem).bytes C).length) :
    MicroSync C (.eofData rem) b (micro ovf st (Pos.eofData rem).handler .ok (((Pos.eofData rem).bytes C).take b)) := by
  obtain ⟨got, ch, hbs, hbody⟩ := hs
  simp only [Pos.bytes] at hb ⊢
  have hfit : got.length + rem.length ≤ C.max := by
    have := hok.fit; rw [← hbody] at this; simpa using this
  obtain ⟨st', hs', hw⟩ := readToEof_pos st _ _ _ _ got hbs rem hfit b hb
  simp only [Pos.handler, micro, hw, MicroSync]
  refine ⟨Nat.le_refl _, by omega, .eofData (rem.drop b), rfl, ⟨got ++ rem.take b, ch, hs', ?_⟩, rfl, Or.inr ⟨by first | rfl | trivial, _, rfl⟩⟩
  rw [List.append_assoc, List.take_append_drop]; exact hbody

theorem sync_lenData (ovf : Bool → Nat → Int) (C : Ctx) (hok : C.OK) (rem : List UInt8) (st : St)
    (hs : Sync C (.lenData rem) st) (b : Nat) (hb : b ≤ ((Pos.lenData rem).bytes C).length) :
    MicroSync C (.lenData rem) b (micro ovf st (Pos.lenData rem).handler .ok (((Pos.lenData rem).bytes C).take b)) := by
  obtain ⟨hrl, got, hbs, hbody⟩ := hs
  simp only [Pos.bytes] at hb ⊢
  have hfit : got.length + rem.length ≤ C.max := by
    have := hok.fit; rw [← hbody] at this; simpa using this
  obtain ⟨st', hs', hrl', hw⟩ := readData_lenpos st _ _ _ got hbs rem C.lenTail hrl hfit b hb
  simp only [Pos.handler, micro, hw]
  have hcap := waitcap_pos
  by_cases hz : rem.length - min b rem.length = 0
  · simp only [hz, if_true, MicroSync, Ctx.resp, hbody]
  · simp only [hz, if_false, MicroSync]
    have hbr : b < rem.length := by omega
    have hm : min b rem.length = b := by omega
    rw [hm] at hrl' ⊢
    refine ⟨Nat.le_refl _, by split <;> omega, .lenData (rem.drop b), rfl, ⟨by rw [hrl', List.length_drop], got ++ rem.take b, hs', ?_⟩, ?_, Or.inl ?_⟩
    · rw [List.append_assoc, List.take_append_drop]; exact hbody
    · simp only [Pos.bytes]
      rw [List.drop_append]
      have : b - rem.length = 0 := by omega
      simp [this]
    · simp only [Pos.bytes, List.length_append, List.length_drop]
      split <;> omega

theorem chunkRest_drop_all (rem : List UInt8) (j : Nat) (hj : j ≤ 1) (next : List UInt8) :
    (chunkRest rem j next).drop (rem.length + 2 - j) = next := by
  simp only [chunkRest]
  have hl : (rem ++ ([13, 10] : List UInt8).drop j).length = rem.length + 2 - j := by
    simp only [List.length_append, List.length_drop, List.length_cons, List.length_nil]; omega
  rw [← hl, List.drop_left' rfl]

theorem sync_chunkData (ovf : Bool → Nat → Int) (C : Ctx) (hok : C.OK) (rem : List UInt8) (j : Nat)
    (cs : List (List UInt8 × List UInt8)) (st : St)
    (hs : Sync C (.chunkData rem j cs) st) (b : Nat) (hb : b ≤ ((Pos.chunkData rem j cs).bytes C).length) :
    MicroSync C (.chunkData rem j cs) b
      (micro ovf st (Pos.chunkData rem j cs).handler .ok (((Pos.chunkData rem j cs).bytes C).take b)) := by
  obtain ⟨hch, hcs, hj, hj1, hrl, got, hbs, hbody⟩ := hs
  simp only [Pos.bytes] at hb ⊢
  have hfit : got.length + rem.length ≤ C.max := by
    have := hok.fit; rw [← hbody] at this; simp only [List.length_append] at this; omega
  obtain ⟨st', hs', hrl', hw⟩ := readData_chunkpos st _ _ _ got hbs rem j hj hj1 _ hrl hfit b hb
  simp only [Pos.handler, micro, hw]
  have hcap := waitcap_pos
  have hlen := chunkRest_length rem j hj (chunksBytes cs ++ C.chunkEnd)
  by_cases hz : st.readlen - min b st.readlen = 0
  · simp only [hz, if_true, MicroSync]
    have hm : min b st.readlen = rem.length + 2 - j := by omega
    rw [hm] at hs' ⊢
    have htk : rem.take (rem.length + 2 - j) = rem := List.take_of_length_le (by omega)
    rw [htk] at hs'
    refine ⟨by omega, by omega, .chunkHdr cs, rfl, ⟨hch, hcs, got ++ rem, hs', hbody⟩, ?_⟩
    simp only [Pos.bytes]
    exact (chunkRest_drop_all rem j hj _).symm
  · simp only [hz, if_false, MicroSync]
    have hbr : b < rem.length + 2 - j := by omega
    have hm : min b st.readlen = b := by omega
    rw [hm] at hrl' hs' ⊢
    have hpos : 0 < st.readlen - b := by omega
    refine ⟨Nat.le_refl _, by split <;> omega, .chunkData (rem.drop b) (if b > rem.length then 1 else j) cs, rfl,
      ⟨hch, hcs, by split <;> omega, ?_, ?_, got ++ rem.take b, hs', ?_⟩, ?_, Or.inl ?_⟩
    · intro h
      by_cases hgt : b > rem.length
      · exact List.drop_eq_nil_of_le (by omega)
      · rw [if_neg hgt] at h
        rw [hj1 h]; simp
    · rw [hrl', hrl, List.length_drop]; split <;> omega
    · rw [List.append_assoc got, List.take_append_drop]; exact hbody
    · simp only [Pos.bytes]
      exact (chunkRest_drop rem j hj hj1 _ b hbr).symm
    · simp only [Pos.bytes]
      rw [chunkRest_length _ _ (by split <;> omega), List.length_drop, hrl]
      split <;> split <;> omega

theorem chunksBytes_cons (c : List UInt8 × List UInt8) (cs : List (List UInt8 × List UInt8)) (e : List UInt8) :
    chunksBytes (c :: cs) ++ e = hex c.1.length ++ c.2 ++ crlf ++ (c.1 ++ crlf ++ (chunksBytes cs ++ e)) := by
  simp only [chunksBytes, List.map_cons, List.flatten_cons, serializeChunk_eq, List.append_assoc]

theorem chunksData_cons (c : List UInt8 × List UInt8) (cs : List (List UInt8 × List UInt8)) :
    chunksData (c :: cs) = c.1 ++ chunksData cs := by
  simp [chunksData]

theorem sync_chunkHdr (ovf : Bool → Nat → Int) (C : Ctx) (hok : C.OK) (cs : List (List UInt8 × List UInt8)) (st : St)
    (hs : Sync C (.chunkHdr cs) st) (b : Nat) (hb : b ≤ ((Pos.chunkHdr cs).bytes C).length) :
    MicroSync C (.chunkHdr cs) b (micro ovf st (Pos.chunkHdr cs).handler .ok (((Pos.chunkHdr cs).bytes C).take b)) := by
  obtain ⟨hch, hcs, got, hbs, hbody⟩ := hs
  obtain ⟨hbl, cs0, le, tail, hfm⟩ := hch
  have hfw := hok.fr hbl
  rw [hfm] at hfw
  simp only [framingWF] at hfw
  obtain ⟨_, _, hle⟩ := hfw
  have hlines := (hok.chunkLines hbl cs0 le tail hfm).2
  have hbodyF : C.body = C.r.framing.body := by simp [Ctx.body, expectedBody, hbl]
  have hfit := hok.fit
  have hsz := hok.sz
  rw [← hbodyF, ← hbody] at hsz
  rw [← hbody] at hfit
  simp only [Pos.handler, micro]
  cases cs with
  | nil =>
    have hend : C.chunkEnd = [48] ++ le ++ crlf ++ tail := by simp [Ctx.chunkEnd, hfm]
    simp only [Pos.bytes, chunksBytes, List.map_nil, List.flatten_nil, List.nil_append, hend] at hb ⊢
    have hno13 : ∀ c ∈ ([48] : List UInt8) ++ le, c ≠ 13 := by
      intro c hc
      simp only [List.mem_append, List.mem_singleton] at hc
      rcases hc with rfl | hc
      · decide
      · exact (ext_bytes le hle c hc).1
    by_cases hpart : b < ([48] ++ le).length + 2
    · rw [chunkedHeader_partial st _ tail hno13 b hpart hlines]
      simp only [MicroSync]
      refine ⟨Nat.zero_le _, by omega, .chunkHdr [], rfl, ⟨⟨hbl, cs0, le, tail, hfm⟩, hcs, got, hbs, hbody⟩, ?_, Or.inl ?_⟩
      · simp [Pos.bytes, chunksBytes, hend]
      · simp only [Pos.bytes, chunksBytes, List.map_nil, List.flatten_nil, List.nil_append, hend]
        simp only [List.length_append, List.length_cons, List.length_nil] at hpart ⊢
        omega
    · have htk : (([48] : List UInt8) ++ le ++ crlf ++ tail).take b =
          [48] ++ le ++ crlf ++ tail.take (b - ([48] ++ le ++ crlf).length) := by
        rw [take_append_ge _ _ _ (by simp only [List.length_append, List.length_cons, List.length_nil] at hpart ⊢; omega)]
      rw [htk, chunkedHeader_last st _ _ _ got hbs le hle]
      simp only [MicroSync, Ctx.resp]
      simp [chunksData] at hbody
      rw [hbody]
  | cons c cs' =>
    obtain ⟨hdata, hext, hshort⟩ := hcs c (by simp)
    rw [chunksData_cons] at hbody hfit hsz
    simp only [List.length_append] at hfit hsz
    simp only [Pos.bytes] at hb ⊢
    rw [chunksBytes_cons] at hb ⊢
    have hno13 := fun x hx => (sizeLine_bytes c.1.length c.2 hext x hx).1
    by_cases hpart : b < (hex c.1.length ++ c.2).length + 2
    · rw [chunkedHeader_partial st _ _ hno13 b hpart hshort]
      simp only [MicroSync]
      refine ⟨Nat.zero_le _, by omega, .chunkHdr (c :: cs'), rfl,
        ⟨⟨hbl, cs0, le, tail, hfm⟩, hcs, got, hbs, by rw [chunksData_cons]; exact hbody⟩, ?_, Or.inl ?_⟩
      · simp only [Pos.bytes, List.drop_zero]
      · simp only [Pos.bytes]; rw [chunksBytes_cons]
        simp only [List.length_append, List.length_cons, List.length_nil] at hpart ⊢
        omega
    · have htk : (hex c.1.length ++ c.2 ++ crlf ++ (c.1 ++ crlf ++ (chunksBytes cs' ++ C.chunkEnd))).take b =
          hex c.1.length ++ c.2 ++ crlf ++
            (c.1 ++ crlf ++ (chunksBytes cs' ++ C.chunkEnd)).take (b - (hex c.1.length ++ c.2 ++ crlf).length) := by
        rw [take_append_ge _ _ _ (by simp only [List.length_append, List.length_cons, List.length_nil] at hpart ⊢; omega)]
      have hn0 : c.1.length ≠ 0 := fun h => hdata (List.eq_nil_of_length_eq_zero h)
      rw [htk, chunkedHeader_chunk st _ _ _ got hbs c.1.length c.2 hext _ hn0 (by omega) (by omega)]
      simp only [MicroSync]
      have hbs' : BodySt { st with readlen := c.1.length + 2 } C.status C.hdrs C.max true got :=
        ⟨hbs.status, hbs.headers, hbs.max, hbs.chunked, hbs.bodylen, hbs.bodyRev, hbs.alloc⟩
      refine ⟨by omega, by omega, .chunkData c.1 0 cs', rfl,
        ⟨⟨hbl, cs0, le, tail, hfm⟩, fun c' hc' => hcs c' (by simp [hc']), Nat.zero_le _, by omega, rfl, got, hbs',
          by rw [List.append_assoc]; exact hbody⟩, ?_⟩
      simp only [Pos.bytes, chunkRest, List.drop_zero]
      rw [chunksBytes_cons, List.append_assoc (hex c.1.length ++ c.2)]
      rw [List.drop_append]
      simp

/-- the final header block is completely buffered: the framing decision -/
theorem sync_final (ovf : Bool → Nat → Int) (C : Ctx) (hok : C.OK) (st : St) (hs : Sync C (.hdr []) st) (b : Nat)
    (_hb : b ≤ ((Pos.hdr []).bytes C).length) (hge : C.r.final.serialize.length ≤ b) :
    MicroSync C (.hdr []) b (micro ovf st .readHeader .ok (((Pos.hdr []).bytes C).take b)) := by
  obtain ⟨_, hbl0, hbr0, hal, hmx, hish, hhe⟩ := hs
  simp only [firstLen] at hhe
  have h200 : 200 ≤ C.r.final.status := hok.wfF.2.1
  have hF4 := block_length_ge C.r.final
  simp only [Pos.bytes, List.map_nil, List.flatten_nil, List.nil_append]
  rw [take_append_ge _ _ _ hge]
  simp only [micro]
  rw [readHeader_block' ovf st C.r.final 200 599 (by omega) (by omega) hok.wfF _ hhe, afterParse_final _ _ h200]
  simp only [hish]
  cases hb0 : bodiless C.ishead C.r.final.status with
  | true =>
    simp only [if_true, MicroSync, Ctx.resp, Ctx.status, Ctx.hdrs, Ctx.body, expectedHeaders, expectedBody, hb0]
  | false =>
    have hfw := hok.fr hb0
    have hbodyF : C.body = C.r.framing.body := by simp [Ctx.body, expectedBody, hb0]
    have hafter : C.after = C.r.framing.serialize := by simp [Ctx.after, hb0]
    have hfit := hok.fit
    rw [hbodyF] at hfit
    simp only [Bool.false_eq_true, if_false, findHeader_map]
    rw [show hTransferEncoding = sTransferEncoding from rfl, show hContentLength = sContentLength from rfl]
    cases hfm : C.r.framing with
    | length body tail =>
      rw [hfm] at hfw hfit
      simp only [framingWF, Framing.body] at hfw hfit
      have hsz := hok.sz
      rw [hfm] at hsz
      simp only [Framing.body] at hsz
      rw [hfw.1, hfw.2]
      simp only [isChunkedTE, Bool.false_eq_true, if_false]
      rw [parse_dec body.length (by omega)]
      (try dsimp only)
      rw [if_neg (by (try dsimp only); omega)]
      simp only [MicroSync]
      refine ⟨by omega, hge, .lenData body, rfl, ⟨rfl, [], ⟨rfl, rfl, hmx, rfl, by simp [hbl0], by simp [hbr0], hal⟩, ?_⟩, ?_⟩
      · simp [hbodyF, hfm, Framing.body]
      · simp [Pos.bytes, Ctx.lenTail, hfm, hafter, Framing.serialize]
    | chunked cs le tail =>
      rw [hfm] at hfw hfit
      simp only [framingWF, Framing.body] at hfw hfit
      rw [hfw.1]
      have : isChunkedTE (some Percival.Spec.HttpResp.sChunked) = true := by decide
      simp only [this, if_true, MicroSync]
      refine ⟨by omega, hge, .chunkHdr cs, rfl,
        ⟨⟨hb0, cs, le, tail, hfm⟩, (hok.chunkLines hb0 cs le tail hfm).1, [],
          ⟨rfl, rfl, hmx, rfl, by simp [hbl0], by simp [hbr0], hal⟩, ?_⟩, ?_⟩
      · simp [hbodyF, hfm, Framing.body, chunksData]
      · simp [Pos.bytes, Ctx.chunkEnd, hfm, hafter, Framing.serialize, chunksBytes, Percival.Spec.HttpResp.crlf, CR, LF]
    | close body =>
      rw [hfm] at hfw hfit
      simp only [framingWF, Framing.body] at hfw hfit
      rw [hfw.1, hfw.2]
      simp only [isChunkedTE, Bool.false_eq_true, if_false, MicroSync]
      refine ⟨by omega, hge, .eofData body, rfl, ⟨[], st.chunked, ⟨rfl, rfl, hmx, rfl, by simp [hbl0], by simp [hbr0], hal⟩, ?_⟩, ?_⟩
      · simp [hbodyF, hfm, Framing.body]
      · simp [Pos.bytes, hafter, hfm, Framing.serialize]

theorem sync_hdr (ovf : Bool → Nat → Int) (C : Ctx) (hok : C.OK) (is : List Block) (st : St)
    (hs : Sync C (.hdr is) st) (b : Nat) (hb : b ≤ ((Pos.hdr is).bytes C).length) :
    MicroSync C (.hdr is) b (micro ovf st (Pos.hdr is).handler .ok (((Pos.hdr is).bytes C).take b)) := by
  have hs0 := hs
  obtain ⟨his, hbl0, hbr0, hal, hmx, hish, hhe⟩ := hs
  simp only [Pos.handler]
  cases is with
  | nil =>
    simp only [firstLen] at hhe
    by_cases hpart : b < C.r.final.serialize.length
    · -- the final block is not complete yet
      simp only [Pos.bytes, List.map_nil, List.flatten_nil, List.nil_append, micro] at hb ⊢
      have hblk := isBlock_serialize C.r.final 200 599 hok.wfF
      obtain ⟨hp, hhp, hw⟩ := readHeader_partial ovf st _ C.after hblk b hhe hpart hok.finalSize
      rw [hw]
      simp only [MicroSync]
      refine ⟨Nat.zero_le _, by omega, .hdr [], rfl, ⟨his, hbl0, hbr0, hal, hmx, hish, hhp⟩, by simp [Pos.bytes], Or.inl ?_⟩
      simp only [Pos.bytes, List.map_nil, List.flatten_nil, List.nil_append, List.length_append]
      omega
    · exact sync_final ovf C hok st hs0 b hb (by omega)
  | cons B is' =>
    obtain ⟨hwfB, hszB⟩ := his B (by simp)
    simp only [firstLen] at hhe
    have hblk := isBlock_serialize B 100 199 hwfB
    have hB4 := block_len4 hblk
    simp only [Pos.bytes, List.map_cons, List.flatten_cons, micro] at hb ⊢
    rw [List.append_assoc] at hb ⊢
    by_cases hpart : b < B.serialize.length
    · obtain ⟨hp, hhp, hw⟩ := readHeader_partial ovf st _ _ hblk b hhe hpart hszB
      rw [hw]
      simp only [MicroSync]
      refine ⟨Nat.zero_le _, by omega, .hdr (B :: is'), rfl, ⟨his, hbl0, hbr0, hal, hmx, hish, hhp⟩, ?_, Or.inl ?_⟩
      · simp [Pos.bytes]
      · simp only [Pos.bytes, List.map_cons, List.flatten_cons, List.length_append]
        omega
    · rw [take_append_ge _ _ _ (by omega)]
      rw [readHeader_block' ovf st B 100 199 (by omega) (by omega) hwfB _ hhe]
      simp only [afterParse, interim_cond B.status hwfB.2.1 hwfB.2.2.1, if_true, MicroSync]
      refine ⟨by omega, by omega, .hdr is', rfl, ⟨fun b' hb' => his b' (by simp [hb']), hbl0, hbr0, hal, hmx, hish, ?_⟩, ?_⟩
      · -- the next block has at least four bytes
        simp only [Nat.zero_add]
        cases is' with
        | nil => exact block_length_ge C.r.final
        | cons B2 _ => exact block_length_ge B2
      · simp [Pos.bytes]

theorem micro_sync (ovf : Bool → Nat → Int) (C : Ctx) (hok : C.OK) (p : Pos) (st : St) (hs : Sync C p st) (b : Nat)
    (hb : b ≤ (p.bytes C).length) : MicroSync C p b (micro ovf st p.handler .ok ((p.bytes C).take b)) := by
  cases p with
  | hdr is => exact sync_hdr ovf C hok is st hs b hb
  | chunkHdr cs => exact sync_chunkHdr ovf C hok cs st hs b hb
  | chunkData rem j cs => exact sync_chunkData ovf C hok rem j cs st hs b hb
  | lenData rem => exact sync_lenData ovf C hok rem st hs b hb
  | eofData rem => exact sync_eofData ovf C hok rem st hs b hb

/-- the verdict on one event-loop callback -/
def StepSync (C : Ctx) (p : Pos) (b c0 : Nat) : StepRes → Prop
  | .done r => r = some C.resp
  | .wait st' c k h' => c0 ≤ c ∧ c - c0 ≤ b ∧ b - (c - c0) < k ∧ ∃ p', h' = p'.handler ∧ Sync C p' st' ∧
      p'.bytes C = (p.bytes C).drop (c - c0) ∧ (k ≤ (p'.bytes C).length ∨ (k = 1 ∧ ∃ rem, p' = .eofData rem))
  | .abort _ => False

theorem step_sync (ovf : Bool → Nat → Int) (C : Ctx) (hok : C.OK) : ∀ (F : Nat) (p : Pos) (st : St) (b c0 : Nat),
    Sync C p st → b ≤ (p.bytes C).length → b < F →
    StepSync C p b c0 (step ovf F st p.handler .ok ((p.bytes C).take b) c0) := by
  intro F
  induction F with
  | zero => intro p st b c0 _ _ h; omega
  | succ F ih =>
    intro p st b c0 hs hb hF
    have hm := micro_sync ovf C hok p st hs b hb
    simp only [step]
    generalize micro ovf st p.handler .ok ((p.bytes C).take b) = m at hm
    cases m with
    | goto st' c h' =>
      simp only [MicroSync] at hm
      obtain ⟨hc0, hcb, p', hh, hs', hbytes⟩ := hm
      subst hh
      have hbuf : ((p.bytes C).take b).drop c = (p'.bytes C).take (b - c) := by
        rw [hbytes, List.drop_take]
      (try dsimp only)
      rw [hbuf]
      have hb' : b - c ≤ (p'.bytes C).length := by rw [hbytes, List.length_drop]; omega
      have := ih p' st' (b - c) (c0 + c) hs' hb' (by omega)
      generalize step ovf F st' p'.handler .ok ((p'.bytes C).take (b - c)) (c0 + c) = r at this
      cases r with
      | done r => exact this
      | abort w => exact this
      | wait st'' c2 k h'' =>
        simp only [StepSync] at this ⊢
        obtain ⟨a1, a2, a3, p'', a4, a5, a6, a7⟩ := this
        refine ⟨by omega, by omega, by omega, p'', a4, a5, ?_, a7⟩
        rw [a6, hbytes, List.drop_drop]
        congr 1
        omega
    | wait st' c k h' =>
      simp only [MicroSync] at hm
      obtain ⟨hcb, hk, p', hh, hs', hbytes, hor⟩ := hm
      simp only [StepSync]
      have e : c0 + c - c0 = c := by omega
      rw [e]
      exact ⟨by omega, hcb, hk, p', hh, hs', hbytes, hor⟩
    | done r => simpa [StepSync, MicroSync] using hm
    | abort w => simp [MicroSync] at hm

/-- a reader/network which delivers the stream completely: every wait is answered with data as long as
    the stream has enough of it (the run itself turns a wait the stream cannot satisfy into EOF) -/
def Faithful {σ : Type} (oracle : σ → Nat → Nat → σ × Arrival) : Prop :=
  ∀ o c k, ∃ e, (oracle o c k).2 = .more e

theorem run_sync {σ : Type} (ovf : Bool → Nat → Int) (oracle : σ → Nat → Nat → σ × Arrival) (hfa : Faithful oracle)
    (C : Ctx) (hok : C.OK) : ∀ (f : Nat) (o : σ) (p : Pos) (st : St) (rest : List UInt8) (rlen b : Nat) (ws : List Nat),
    Sync C p st → rest = p.bytes C → rlen = rest.length → b ≤ rlen → rlen - b + 2 ≤ f →
    ∃ ws', run ovf oracle f o st p.handler .ok rest rlen b ws = .callback (some C.resp) ws' := by
  intro f
  induction f with
  | zero => intro o p st rest rlen b ws _ _ _ _ h; omega
  | succ f ih =>
    intro o p st rest rlen b ws hs hrest hrl hb hfuel
    subst hrest
    have hss := step_sync ovf C hok (b + 1) p st b 0 hs (by omega) (by omega)
    rw [run_succ]
    generalize step ovf (b + 1) st p.handler .ok ((p.bytes C).take b) 0 = r0 at hss
    cases r0 with
    | done r => simp only [StepSync] at hss; subst hss; exact ⟨_, rfl⟩
    | abort w => simp [StepSync] at hss
    | wait st' c k h' =>
      simp only [StepSync, Nat.sub_zero] at hss
      obtain ⟨_, hcb, hk, p', hh, hs', hbytes, hor⟩ := hss
      subst hh
      (try dsimp only)
      rw [if_neg (by omega)]
      obtain ⟨e, he⟩ := hfa o c k
      rw [he]
      (try dsimp only)
      have hrl' : rlen - c = ((p.bytes C).drop c).length := by rw [List.length_drop, hrl]
      by_cases hkr : k ≤ rlen - c
      · rw [if_pos hkr]
        generalize hb2 : (if k + e > rlen - c then rlen - c else k + e) = b2
        have hb2a : k ≤ b2 := by subst hb2; split <;> omega
        have hb2b : b2 ≤ rlen - c := by subst hb2; split <;> omega
        exact ih _ p' st' _ (rlen - c) b2 (k :: ws) hs' hbytes.symm hrl' hb2b (by omega)
      · rw [if_neg hkr]
        -- the stream is exhausted: this only happens while reading to EOF
        have hlen' : (p'.bytes C).length = rlen - c := by rw [hbytes, List.length_drop, hrl]
        rcases hor with hle | ⟨hk1', rem, hp'⟩
        · omega
        · subst hp'
          obtain ⟨got, ch, hbs, hbody⟩ := hs'
          simp only [Pos.bytes] at hlen'
          obtain ⟨f', hf'⟩ : ∃ f', f = f' + 1 := ⟨f - 1, by omega⟩
          rw [hf', run_succ]
          have hdone : step ovf (rlen - c + 1) st' .readToEof .eof (((p.bytes C).drop c).take (rlen - c)) 0 =
              .done (some C.resp) := by
            apply step_done
            simp only [micro]
            rw [readToEof_eof st' _ _ _ _ got hbs]
            have hk1 : rem = [] := by
              apply List.eq_nil_of_length_eq_zero; omega
            rw [hk1, List.append_nil] at hbody
            simp [Ctx.resp, hbody]
          simp only [Pos.handler]
          rw [hdone]
          exact ⟨_, rfl⟩

/-- **Segmentation independence**: a well-formed response whose header blocks and chunk-size lines respect
    the client's limits is decoded exactly, however its bytes arrive. -/
theorem decode_segmented {σ : Type} (ovf : Bool → Nat → Int) (oracle : σ → Nat → Nat → σ × Arrival) (hfa : Faithful oracle)
    (o : σ) (r : Percival.Spec.HttpResp.Resp) (ishead : Bool) (max : Nat)
    (hwf : r.WF ishead) (hmax : (expectedBody r ishead).length ≤ max) (hsz : r.framing.body.length + 2 ≤ SIZE_MAX)
    (hblocks : (∀ b ∈ r.interim, b.serialize.length ≤ Percival.Gen.Http.MAXHDR + 1) ∧
      r.final.serialize.length ≤ Percival.Gen.Http.MAXHDR + 1)
    (hlines : ∀ cs le tail, r.framing = .chunked cs le tail →
      (∀ c ∈ cs, (hex c.1.length ++ c.2).length + 1 < Percival.Gen.Http.MAXCHLEN) ∧
      ([48] ++ le).length + 1 < Percival.Gen.Http.MAXCHLEN) :
    ∃ ws, runAll ovf oracle o ishead max (serialize r ishead) =
      .callback (some { status := (r.final.status : Int), headers := expectedHeaders r,
                        body := some (expectedBody r ishead) }) ws := by
  obtain ⟨hwfI, hwfF, hfr⟩ := hwf
  let C : Ctx := { r := r, ishead := ishead, max := max }
  have hok : C.OK := by
    refine ⟨hwfF, hfr, hmax, hsz, hblocks.2, ?_⟩
    intro hb0 cs le tail hfm
    have hfw := hfr hb0
    rw [hfm] at hfw
    simp only [framingWF] at hfw
    obtain ⟨_, hcs, _⟩ := hfw
    have hl := hlines cs le tail hfm
    exact ⟨fun c hc => ⟨(hcs c hc).1, (hcs c hc).2, hl.1 c hc⟩, hl.2⟩
  have hsync : Sync C (.hdr r.interim) (initSt ishead max) := by
    refine ⟨fun b hb => ⟨hwfI b hb, hblocks.1 b hb⟩, rfl, rfl, by simp [initSt], rfl, rfl, ?_⟩
    simp only [initSt, Nat.zero_add]
    cases hri : r.interim with
    | nil => exact block_length_ge r.final
    | cons B _ => exact block_length_ge B
  have hbytes : serialize r ishead = (Pos.hdr r.interim).bytes C := by
    simp [serialize, Pos.bytes, Ctx.after, C, List.append_assoc]
  have := run_sync ovf oracle hfa C hok ((serialize r ishead).length + 3) o (.hdr r.interim) (initSt ishead max)
    (serialize r ishead) (serialize r ishead).length 0 [] hsync hbytes rfl (Nat.zero_le _) (by omega)
  simpa [runAll, Pos.handler, Ctx.resp, Ctx.status, Ctx.hdrs, Ctx.body, C] using this

end Percival.Proofs.HttpSeg
