import Percival.Proofs.UpMonSoundD
/-!
# C14, component `upstart` — part E: the harness' `release_all` empties the world

`HInv` says that the handle tables name *exactly* the objects of the world that are not owned by another object.
Releasing these, kind by kind in the harness' order (`releaseOps`), removes every object: each release is `Present`
(so it is carried out, `stepR_release_ok`), removes its object and the objects it owns and nothing else (`delta`).
Hence `ReleaseCovers s`, the hypothesis `atexitAll_frees_everything` needs.
-/
namespace Percival.Proofs.UpMonSound
open Percival.Model Percival.Model.EvReg Percival.Model.AllocFail Percival.Model.UpStep
open Percival.Proofs.AllocFailUpper
open Percival.Model.DsStep (sched)

def kOf : RelKind → K
  | .nrCancel => .rd | .nwCancel => .wr | .naCancel => .acc | .ncCancel => .conn | .hqCancel => .http
  | .nbwFree => .nbw | .nbrCancel => .nbr | .nbrFree => .nbr

theorem present_of_vis (w : World) (rk : RelKind) (c : Nat) (hv : Vis (tables w) (kOf rk) c) (hrk : rk ≠ .nbrFree) :
    Present w (relCall rk c) := by
  cases rk
  · obtain ⟨h1, h2⟩ := hv
    obtain ⟨a, ha, hac⟩ := List.mem_map.1 h1
    exact ⟨⟨a, ha, hac⟩, by simp only [readOwned, List.any_eq_false, beq_iff_eq]; exact fun x hx => h2 x hx⟩
  · obtain ⟨h1, h2⟩ := hv
    obtain ⟨a, ha, hac⟩ := List.mem_map.1 h1
    refine ⟨⟨a, ha, hac⟩, ?_⟩
    simp only [writeOwned, List.any_eq_false, beq_iff_eq]
    exact fun x hx => h2 x hx
  · obtain ⟨a, ha, hac⟩ := List.mem_map.1 hv
    exact ⟨a, ha, hac⟩
  · obtain ⟨h1, h2⟩ := hv
    obtain ⟨a, ha, hac⟩ := List.mem_map.1 h1
    exact ⟨⟨a, ha, hac⟩, by simp only [connOwned, List.any_eq_false, beq_iff_eq]; exact fun x hx => h2 x hx⟩
  · obtain ⟨a, ha, hac⟩ := List.mem_map.1 hv
    exact ⟨a, ha, hac⟩
  · obtain ⟨a, ha, hac⟩ := List.mem_map.1 hv
    exact ⟨a, ha, hac⟩
  · obtain ⟨a, ha, hac⟩ := List.mem_map.1 hv
    exact ⟨a, ha, hac⟩
  · exact absurd rfl hrk

/-- one release call that is `Present`: carried out, `Inv` kept, exactly `delOf` removed -/
theorem rel_step (w : World) (hI : Inv w) (c0 : LOp) (hr : isRelease c0 = true) (hp : Present w c0) :
    Inv (step w c0) ∧ Delta (tables w) (tables (step w c0)) none (delOf c0) ∧ gone w (step w c0) c0 := by
  obtain ⟨hok, hg⟩ := stepR_release_ok w c0 hI hp
  have hnc : (stepR w c0).1 ≠ .contract := by rw [hok]; simp
  have hd := delta (ev_stepR w c0 hI hnc) (tOk_of_inv hI)
  have ha : addOf c0 (call w c0).2.1 = none := by cases c0 <;> first | rfl | cases hr
  rw [ha] at hd
  rw [step_eq]
  exact ⟨stepR_inv w c0 hI, hd, hg⟩

theorem delOf_relCall (rk : RelKind) (c : Nat) (h : rk ≠ .nbrCancel) : delOf (relCall rk c) = some (kOf rk, c) := by
  cases rk <;> first | rfl | exact absurd rfl h

/-- releasing a list of distinct objects of one kind (all but the buffered readers, which need two calls) -/
theorem phase_simple (rk : RelKind) (hrk1 : rk ≠ .nbrFree) (hrk2 : rk ≠ .nbrCancel) :
    ∀ (cs : List Nat) (w : World), Inv w → cs.Nodup → (∀ c ∈ cs, Vis (tables w) (kOf rk) c) →
      Inv (AllocFail.run w (cs.map (relCall rk))) ∧
      ∀ k' c', Vis (tables (AllocFail.run w (cs.map (relCall rk)))) k' c' ↔
        (Vis (tables w) k' c' ∧ ¬ (k' = kOf rk ∧ c' ∈ cs))
  | [], w, hI, _, _ => ⟨hI, fun k' c' => by simp [AllocFail.run]⟩
  | c :: rest, w, hI, hnd, hv => by
    obtain ⟨hI1, hd1, _⟩ := rel_step w hI _ (relCall_isRelease rk c)
      (present_of_vis w rk c (hv c List.mem_cons_self) hrk1)
    rw [delOf_relCall rk c hrk2] at hd1
    have hnd' := List.nodup_cons.1 hnd
    have hv1 : ∀ c'' ∈ rest, Vis (tables (step w (relCall rk c))) (kOf rk) c'' := by
      intro c'' hc''
      refine (hd1 _ _).2 (Or.inl ⟨hv c'' (List.mem_cons_of_mem _ hc''), ?_⟩)
      intro he
      simp only [Option.some.injEq, Prod.mk.injEq, true_and] at he
      exact hnd'.1 (he ▸ hc'')
    obtain ⟨hI2, hd2⟩ := phase_simple rk hrk1 hrk2 rest (step w (relCall rk c)) hI1 hnd'.2 hv1
    refine ⟨hI2, fun k' c' => ?_⟩
    show Vis (tables (AllocFail.run (step w (relCall rk c)) (rest.map (relCall rk)))) k' c' ↔ _
    rw [hd2 k' c', hd1 k' c']
    simp only [ne_eq, Option.some.injEq, Prod.mk.injEq, reduceCtorEq, or_false, List.mem_cons]
    constructor
    · rintro ⟨⟨h1, h2⟩, h3⟩
      refine ⟨h1, ?_⟩
      rintro ⟨rfl, h4 | h4⟩
      · exact h2 ⟨rfl, h4.symm⟩
      · exact h3 ⟨rfl, h4⟩
    · rintro ⟨h1, h2⟩
      exact ⟨⟨h1, fun ⟨h3, h4⟩ => h2 ⟨h3.symm, Or.inl h4.symm⟩⟩, fun ⟨h3, h4⟩ => h2 ⟨h3, Or.inr h4⟩⟩

/-- releasing the buffered readers: cancel the wait, then free -/
theorem phase_nbr :
    ∀ (cs : List Nat) (w : World), Inv w → cs.Nodup → (∀ c ∈ cs, Vis (tables w) .nbr c) →
      Inv (AllocFail.run w (cs.flatMap (fun x => [AllocFail.Op.nbrCancel x, AllocFail.Op.nbrFree x]))) ∧
      ∀ k' c', Vis (tables (AllocFail.run w (cs.flatMap (fun x => [AllocFail.Op.nbrCancel x, AllocFail.Op.nbrFree x])))) k' c' ↔
        (Vis (tables w) k' c' ∧ ¬ (k' = .nbr ∧ c' ∈ cs))
  | [], w, hI, _, _ => ⟨hI, fun k' c' => by simp [AllocFail.run]⟩
  | c :: rest, w, hI, hnd, hv => by
    have hp1 : Present w (.nbrCancel c) := by
      obtain ⟨a, ha, hac⟩ := List.mem_map.1 (hv c List.mem_cons_self)
      exact ⟨a, ha, hac⟩
    obtain ⟨hI1, hd1, hg1⟩ := rel_step w hI (.nbrCancel c) rfl hp1
    have hp2 : Present (step w (.nbrCancel c)) (.nbrFree c) := by
      have : Vis (tables (step w (.nbrCancel c))) .nbr c :=
        (hd1 _ _).2 (Or.inl ⟨hv c List.mem_cons_self, by simp [delOf]⟩)
      obtain ⟨a, ha, hac⟩ := List.mem_map.1 this
      exact ⟨a, ha, hac, hg1 a ha hac⟩
    obtain ⟨hI2, hd2, _⟩ := rel_step _ hI1 (.nbrFree c) rfl hp2
    have hnd' := List.nodup_cons.1 hnd
    have hv2 : ∀ c'' ∈ rest, Vis (tables (step (step w (.nbrCancel c)) (.nbrFree c))) .nbr c'' := by
      intro c'' hc''
      refine (hd2 _ _).2 (Or.inl ⟨(hd1 _ _).2 (Or.inl ⟨hv c'' (List.mem_cons_of_mem _ hc''), by simp [delOf]⟩), ?_⟩)
      intro he
      simp only [delOf, Option.some.injEq, Prod.mk.injEq, true_and] at he
      exact hnd'.1 (he ▸ hc'')
    obtain ⟨hI3, hd3⟩ := phase_nbr rest _ hI2 hnd'.2 hv2
    refine ⟨hI3, fun k' c' => ?_⟩
    show Vis (tables (AllocFail.run (step (step w (.nbrCancel c)) (.nbrFree c))
      (rest.flatMap (fun x => [AllocFail.Op.nbrCancel x, AllocFail.Op.nbrFree x])))) k' c' ↔ _
    rw [hd3 k' c', hd2 k' c', hd1 k' c']
    simp only [delOf, ne_eq, Option.some.injEq, Prod.mk.injEq, reduceCtorEq, or_false, List.mem_cons, not_false_eq_true,
      and_true]
    constructor
    · rintro ⟨⟨h1, h2⟩, h3⟩
      refine ⟨h1, ?_⟩
      rintro ⟨rfl, h4 | h4⟩
      · exact h2 ⟨rfl, h4.symm⟩
      · exact h3 ⟨rfl, h4⟩
    · rintro ⟨h1, h2⟩
      exact ⟨⟨h1, fun ⟨h3, h4⟩ => h2 ⟨h3.symm, Or.inl h4.symm⟩⟩, fun ⟨h3, h4⟩ => h2 ⟨h3, Or.inr h4⟩⟩

/-- no releasable object left: no object left -/
theorem tables_empty_of_noVis (t : Tables) (h : ∀ k c, ¬ Vis t k c) : t = ⟨[], [], [], [], [], [], []⟩ := by
  obtain ⟨reads, writes, accepts, conns, readers, writers, https⟩ := t
  have h5 : readers = [] := List.eq_nil_iff_forall_not_mem.2 fun a ha => h .nbr a.id (List.mem_map_of_mem ha)
  have h6 : writers = [] := List.eq_nil_iff_forall_not_mem.2 fun a ha => h .nbw a.id (List.mem_map_of_mem ha)
  have h7 : https = [] := List.eq_nil_iff_forall_not_mem.2 fun a ha => h .http a.cookie (List.mem_map_of_mem ha)
  have h3 : accepts = [] := List.eq_nil_iff_forall_not_mem.2 fun a ha => h .acc a.cookie (List.mem_map_of_mem ha)
  subst h5 h6 h7 h3
  have h1 : reads = [] := List.eq_nil_iff_forall_not_mem.2 fun a ha =>
    h .rd a.cookie ⟨List.mem_map_of_mem ha, fun r hr => by cases hr⟩
  have h2 : writes = [] := List.eq_nil_iff_forall_not_mem.2 fun a ha =>
    h .wr a.cookie ⟨List.mem_map_of_mem ha, fun r hr => by cases hr⟩
  have h4 : conns = [] := List.eq_nil_iff_forall_not_mem.2 fun a ha =>
    h .conn a.cookie ⟨List.mem_map_of_mem ha, fun r hr => by cases hr⟩
  subst h1 h2 h4
  rfl

theorem asc_perm (t : List (Nat × Nat)) : (asc t).Perm (t.map (·.2)) :=
  (List.mergeSort_perm t _).map _

theorem run_append (w : World) (a b : List LOp) : AllocFail.run w (a ++ b) = AllocFail.run (AllocFail.run w a) b :=
  List.foldl_append ..

/-- one phase of `release_all`, in terms of the objects `V0` that were releasable at its start -/
theorem chain {V0 : K → Nat → Prop} {w : World} {done : K → Prop} (k : K) (cs : List Nat) (ops : List LOp)
    (hph : (∀ c ∈ cs, Vis (tables w) k c) → Inv (AllocFail.run w ops) ∧
      ∀ k' c', Vis (tables (AllocFail.run w ops)) k' c' ↔ (Vis (tables w) k' c' ∧ ¬ (k' = k ∧ c' ∈ cs)))
    (hV : ∀ k' c', Vis (tables w) k' c' ↔ (V0 k' c' ∧ ¬ done k')) (hk : ¬ done k) (hcs : ∀ c, c ∈ cs ↔ V0 k c) :
    Inv (AllocFail.run w ops) ∧
    ∀ k' c', Vis (tables (AllocFail.run w ops)) k' c' ↔ (V0 k' c' ∧ ¬ (done k' ∨ k' = k)) := by
  obtain ⟨hI', hd⟩ := hph (fun c hc => (hV k c).2 ⟨(hcs c).1 hc, hk⟩)
  refine ⟨hI', fun k' c' => ?_⟩
  rw [hd, hV]
  constructor
  · rintro ⟨⟨h1, h2⟩, h3⟩
    exact ⟨h1, fun h => h.elim h2 (fun e => h3 ⟨e, (hcs c').2 (e ▸ h1)⟩)⟩
  · rintro ⟨h1, h2⟩
    exact ⟨⟨h1, fun h => h2 (Or.inl h)⟩, fun ⟨e, _⟩ => h2 (Or.inr e)⟩

/-- **part 4**: the harness' release order empties every table of the world -/
theorem releaseCovers (s : S) (hI : Inv s.w) (H : HInv s) : ReleaseCovers s := by
  have hI0 : Inv (setF s.w (sched 0 0 0)) := inv_setF hI _
  have hcs : ∀ k c, c ∈ asc (tab s k) ↔ Vis (tables s.w) k c := fun k c => by
    rw [(asc_perm _).mem_iff]; exact H.vis k c
  have hnd : ∀ k, (asc (tab s k)).Nodup := fun k => (asc_perm _).nodup_iff.2 (H.good k).ond
  have hV0 : ∀ k' c', Vis (tables (setF s.w (sched 0 0 0))) k' c' ↔ (Vis (tables s.w) k' c' ∧ ¬ False) := by
    intro k' c'; simp; exact Iff.rfl
  unfold ReleaseCovers releaseOps
  simp only [run_append]
  have p1 := chain .http (asc s.http) ((asc s.http).map AllocFail.Op.httpCancel)
    (phase_simple .hqCancel (by decide) (by decide) _ _ hI0 (hnd .http)) hV0 (fun h => h) (hcs .http)
  have p2 := chain .conn (asc s.conn) ((asc s.conn).map AllocFail.Op.connectCancel)
    (phase_simple .ncCancel (by decide) (by decide) _ _ p1.1 (hnd .conn)) p1.2 (by simp) (hcs .conn)
  have p3 := chain .acc (asc s.acc) ((asc s.acc).map AllocFail.Op.acceptCancel)
    (phase_simple .naCancel (by decide) (by decide) _ _ p2.1 (hnd .acc)) p2.2 (by simp) (hcs .acc)
  have p4 := chain .rd (asc s.rd) ((asc s.rd).map AllocFail.Op.readCancel)
    (phase_simple .nrCancel (by decide) (by decide) _ _ p3.1 (hnd .rd)) p3.2 (by simp) (hcs .rd)
  have p5 := chain .wr (asc s.wr) ((asc s.wr).map AllocFail.Op.writeCancel)
    (phase_simple .nwCancel (by decide) (by decide) _ _ p4.1 (hnd .wr)) p4.2 (by simp) (hcs .wr)
  have p6 := chain .nbr (asc s.nbr) ((asc s.nbr).flatMap (fun x => [AllocFail.Op.nbrCancel x, AllocFail.Op.nbrFree x]))
    (phase_nbr _ _ p5.1 (hnd .nbr)) p5.2 (by simp) (hcs .nbr)
  have p7 := chain .nbw (asc s.nbw) ((asc s.nbw).map AllocFail.Op.nbwFree)
    (phase_simple .nbwFree (by decide) (by decide) _ _ p6.1 (hnd .nbw)) p6.2 (by simp) (hcs .nbw)
  apply tables_empty_of_noVis
  intro k c hv
  have := (p7.2 k c).1 hv
  cases k <;> simp at this

end Percival.Proofs.UpMonSound
