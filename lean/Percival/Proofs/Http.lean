import Percival.Model.Http
/-! Helper lemmas for C08: buffer scanning, the header block's line structure, `addbody`, and the
    per-handler step invariant. -/
namespace Percival.Proofs.Http
open Percival.Model.Http Percival.Gen.Http

/-! ## findeol -/

theorem findeolAux_ge (l : Bytes) (i : Nat) : i ≤ findeolAux l i := by
  induction l generalizing i with
  | nil => simp [findeolAux]
  | cons a t ih =>
    simp only [findeolAux]
    split
    · omega
    · have := ih (i + 1); omega

theorem findeolAux_le (l : Bytes) (i : Nat) : findeolAux l i ≤ i + l.length := by
  induction l generalizing i with
  | nil => simp [findeolAux]
  | cons a t ih =>
    simp only [findeolAux, List.length_cons]
    split
    · omega
    · have := ih (i + 1); omega

theorem findeolAux_spec (l : Bytes) (i : Nat) (h : findeolAux l i < i + l.length) :
    l[findeolAux l i - i]? = some 13 ∧ l[findeolAux l i - i + 1]? = some 10 := by
  induction l generalizing i with
  | nil => simp [findeolAux] at h
  | cons a t ih =>
    simp only [findeolAux] at h ⊢
    split
    · rename_i hc
      simp only [Bool.and_eq_true, beq_iff_eq] at hc
      obtain ⟨ha, ht⟩ := hc
      subst ha
      cases t with
      | nil => simp at ht
      | cons b t' => simp at ht; simp [ht]
    · rename_i hc
      rw [if_neg hc] at h
      have hge := findeolAux_ge t (i + 1)
      have := ih (i + 1) (by simp only [List.length_cons] at h; omega)
      have e1 : findeolAux t (i + 1) - i = (findeolAux t (i + 1) - (i + 1)) + 1 := by omega
      rw [e1]
      simpa using this

theorem findeolAux_first (l : Bytes) (i j : Nat) (h1 : l[j]? = some 13) (h2 : l[j + 1]? = some 10) :
    findeolAux l i ≤ i + j := by
  induction l generalizing i j with
  | nil => simp at h1
  | cons a t ih =>
    simp only [findeolAux]
    split
    · omega
    · rename_i hc
      cases j with
      | zero =>
        exfalso
        apply hc
        simp at h1 h2
        subst h1
        cases t with
        | nil => simp at h2
        | cons b t' => simp at h2; simp [h2]
      | succ j' =>
        have := ih (i + 1) j' (by simpa using h1) (by simpa using h2)
        omega

theorem findeol_le (l : Bytes) : findeol l ≤ l.length := by
  have := findeolAux_le l 0; simpa [findeol] using this

theorem findeol_spec (l : Bytes) (h : findeol l < l.length) :
    l[findeol l]? = some 13 ∧ l[findeol l + 1]? = some 10 := by
  have := findeolAux_spec l 0 (by simpa [findeol] using h)
  simpa [findeol] using this

theorem findeol_first (l : Bytes) (j : Nat) (h1 : l[j]? = some 13) (h2 : l[j + 1]? = some 10) :
    findeol l ≤ j := by
  have := findeolAux_first l 0 j h1 h2; simpa [findeol] using this

/-! ## the header block: greedy CRLF splitting of a block ending in CRLF CRLF -/

def term4 : Bytes := [13, 10, 13, 10]

/-- one line taken off a block `pre ++ CRLF CRLF`: the rest is `CRLF` or again such a block -/
theorem dropline (pre : Bytes) :
    let l := pre ++ term4
    findeol l < l.length ∧
    ((l.drop (findeol l + 2) = [13, 10]) ∨
     (findeol l + 2 ≤ pre.length ∧ l.drop (findeol l + 2) = pre.drop (findeol l + 2) ++ term4)) := by
  intro l
  have hlen : l.length = pre.length + 4 := by simp [l, term4]
  have h13 : l[pre.length]? = some 13 := by simp [l, term4]
  have h10 : l[pre.length + 1]? = some 10 := by simp [l, term4]
  have hle := findeol_first l pre.length h13 h10
  have hlt : findeol l < l.length := by omega
  refine ⟨hlt, ?_⟩
  have hs := findeol_spec l hlt
  by_cases he : findeol l = pre.length
  · left
    rw [he]
    simp [l, term4]
  · right
    have hne : findeol l + 1 ≠ pre.length := by
      intro hc
      rw [hc] at hs
      rw [h13] at hs
      simp at hs
    have h2 : findeol l + 2 ≤ pre.length := by omega
    refine ⟨h2, ?_⟩
    simp only [l]
    rw [List.drop_append_of_le_length h2]

theorem countLinesF_fuel (m : Nat) : ∀ (l : Bytes) (f1 f2 n : Nat), l.length ≤ m → l.length ≤ f1 → l.length ≤ f2 →
    countLinesF f1 l n = countLinesF f2 l n := by
  induction m with
  | zero =>
    intro l f1 f2 n hl _ _
    have : l = [] := List.eq_nil_of_length_eq_zero (by omega)
    subst this
    cases f1 <;> cases f2 <;> simp [countLinesF]
  | succ m ih =>
    intro l f1 f2 n hl h1 h2
    cases l with
    | nil => cases f1 <;> cases f2 <;> simp [countLinesF]
    | cons a t =>
      cases f1 with
      | zero => simp at h1
      | succ f1 =>
        cases f2 with
        | zero => simp at h2
        | succ f2 =>
          simp only [countLinesF]
          have hd : ((a :: t).drop (findeol (a :: t) + 2)).length ≤ t.length := by
            simp only [List.length_drop, List.length_cons]; omega
          simp only [List.length_cons] at hl h1 h2
          exact ih _ f1 f2 (n + 1) (by omega) (by omega) (by omega)

theorem countLines_cons (a : UInt8) (t : Bytes) (n : Nat) :
    countLines (a :: t) n = countLines ((a :: t).drop (findeol (a :: t) + 2)) (n + 1) := by
  simp only [countLines, List.length_cons, countLinesF]
  have hd : ((a :: t).drop (findeol (a :: t) + 2)).length ≤ t.length := by
    simp only [List.length_drop, List.length_cons]; omega
  exact countLinesF_fuel _ _ _ _ _ (Nat.le_refl _) hd (Nat.le_refl _)

theorem countLines_nil (n : Nat) : countLines [] n = n := by
  simp [countLines, countLinesF]

/-- counting pass and parsing pass agree on a block ending in CRLF CRLF (or the final CRLF) -/
theorem lines_ok (m : Nat) : ∀ (l : Bytes), l.length ≤ m → (l = [13, 10] ∨ ∃ pre, l = pre ++ term4) →
    ∀ (n : Nat) (acc : List (Bytes × Bytes)), ∃ k, countLines l n = n + k + 1 ∧
      (parseHeaders k l acc = .nul ∨ ∃ hdrs rest, parseHeaders k l acc = .ok hdrs rest ∧ rest.length = 2) := by
  induction m with
  | zero =>
    intro l hl hs n acc
    exfalso
    have : l = [] := List.eq_nil_of_length_eq_zero (by omega)
    subst this
    rcases hs with h | ⟨pre, h⟩
    · simp at h
    · have := congrArg List.length h; simp [term4] at this
  | succ m ih =>
    intro l hl hs n acc
    rcases hs with h | ⟨pre, h⟩
    · subst h
      refine ⟨0, ?_, ?_⟩
      · rw [countLines_cons]
        have : findeol [13, 10] = 0 := by decide
        rw [this]
        simp [countLines_nil]
      · right; exact ⟨acc.reverse, [13, 10], by simp [parseHeaders], by simp⟩
    · subst h
      obtain ⟨hlt, hrest⟩ := dropline pre
      -- the block is non-empty
      have hne : pre ++ term4 ≠ [] := by simp [term4]
      obtain ⟨a, t, hat⟩ := List.exists_cons_of_ne_nil hne
      have hshort : ((pre ++ term4).drop (findeol (pre ++ term4) + 2)).length ≤ m := by
        simp only [List.length_drop]; omega
      have hs' : ((pre ++ term4).drop (findeol (pre ++ term4) + 2) = [13, 10] ∨
          ∃ pre', (pre ++ term4).drop (findeol (pre ++ term4) + 2) = pre' ++ term4) := by
        rcases hrest with h1 | ⟨_, h2⟩
        · left; exact h1
        · right; exact ⟨_, h2⟩
      have hsg : sgetline (pre ++ term4) =
          some ((pre ++ term4).take (findeol (pre ++ term4)), (pre ++ term4).drop (findeol (pre ++ term4) + 2)) := by
        simp only [sgetline]; rw [if_pos hlt]
      by_cases hnul : ((pre ++ term4).take (findeol (pre ++ term4))).contains 0 = true
      · obtain ⟨k', hc, _⟩ := ih _ hshort hs' (n + 1) acc
        refine ⟨k' + 1, ?_, ?_⟩
        · rw [hat, countLines_cons, ← hat, hc]; omega
        · left; simp only [parseHeaders, hsg]; rw [if_pos hnul]
      · obtain ⟨k', hc, hp⟩ := ih _ hshort hs' (n + 1)
          (splitHeader ((pre ++ term4).take (findeol (pre ++ term4))) :: acc)
        refine ⟨k' + 1, ?_, ?_⟩
        · rw [hat, countLines_cons, ← hat, hc]; omega
        · simp only [parseHeaders, hsg]; rw [if_neg hnul]; exact hp

/-! ## scanHdr -/

theorem scanHdr_cons4 (a b c d : UInt8) (t : Bytes) (i : Nat) :
    scanHdr (a :: b :: c :: d :: t) i =
      if (a == 13 && b == 10 && c == 13 && d == 10) = true then i else scanHdr (b :: c :: d :: t) (i + 1) := by
  rw [scanHdr]

theorem scanHdr_short (l : Bytes) (i : Nat) (h : l.length < 4) : scanHdr l i = i := by
  match l, h with
  | [], _ => rw [scanHdr]
  | [_], _ => rw [scanHdr]; simp
  | [_, _], _ => rw [scanHdr]; simp
  | [_, _, _], _ => rw [scanHdr]; simp
  | _ :: _ :: _ :: _ :: _, h => simp at h; omega

theorem scanHdr_spec (l : Bytes) (i : Nat) :
    i ≤ scanHdr l i ∧ scanHdr l i ≤ i + l.length ∧
    (scanHdr l i + 4 ≤ i + l.length → (l.drop (scanHdr l i - i)).take 4 = term4) := by
  induction l generalizing i with
  | nil => rw [scanHdr_short [] i (by simp)]; refine ⟨by omega, by omega, ?_⟩; intro hh; simp at hh; omega
  | cons a t ih =>
    by_cases hlen : (a :: t).length < 4
    · rw [scanHdr_short _ i hlen]
      refine ⟨by omega, by omega, ?_⟩
      intro hh; omega
    · obtain ⟨b, c, d, t3, rfl⟩ : ∃ b c d t3, t = b :: c :: d :: t3 := by
        match t, hlen with
        | b :: c :: d :: t3, _ => exact ⟨b, c, d, t3, rfl⟩
        | [], h => simp at h
        | [_], h => simp at h
        | [_, _], h => simp at h
      rw [scanHdr_cons4]
      split
      · rename_i hc
        simp only [Bool.and_eq_true, beq_iff_eq] at hc
        obtain ⟨⟨⟨ha, hb⟩, hc'⟩, hd⟩ := hc
        subst ha hb hc' hd
        simp [term4]
      · obtain ⟨h1, h2, h3⟩ := ih (i + 1)
        generalize scanHdr (b :: c :: d :: t3) (i + 1) = r at h1 h2 h3
        refine ⟨by omega, by simp only [List.length_cons] at h2 ⊢; omega, ?_⟩
        intro hh
        have e : r - i = (r - (i + 1)) + 1 := by omega
        rw [e, List.drop_succ_cons]
        apply h3
        simp only [List.length_cons] at hh ⊢; omega

/-! ## addbody -/

theorem growAlloc_bounds (alloc need max : Nat) (h : need ≤ max) :
    need ≤ growAlloc alloc need max ∧ growAlloc alloc need max ≤ max := by
  simp only [growAlloc]
  split <;> split <;> omega

theorem addbody_ok (st : St) (piece : Bytes) (hinv : st.alloc ≤ st.max)
    (h : st.bodylen + piece.length ≤ st.max) :
    ∃ st', addbody st piece = some st' ∧
      (st'.bodylen = st.bodylen + piece.length ∧ st'.bodyRev = piece.reverse ++ st.bodyRev) ∧ st'.max = st.max ∧
      st'.bodylen ≤ st'.alloc ∧ st'.alloc ≤ st'.max ∧ st'.status = st.status ∧ st'.chunked = st.chunked ∧
      st'.readlen = st.readlen ∧ st'.hepos = st.hepos := by
  simp only [addbody]
  rw [if_pos h]
  by_cases hg : st.bodylen + piece.length > st.alloc
  · have hb := growAlloc_bounds st.alloc (st.bodylen + piece.length) st.max h
    simp only [if_pos hg]
    rw [if_pos hb.1]
    exact ⟨_, rfl, ⟨rfl, rfl⟩, rfl, by simp; exact hb.1, hb.2, rfl, rfl, rfl, rfl⟩
  · simp only [if_neg hg]
    rw [if_pos (by omega)]
    exact ⟨_, rfl, ⟨rfl, rfl⟩, rfl, by simp; omega, hinv, rfl, rfl, rfl, rfl⟩

theorem bodylen_ok {st st' : St} {piece : Bytes} (h0 : st.bodylen = st.bodyRev.length)
    (hb : st'.bodylen = st.bodylen + piece.length ∧ st'.bodyRev = piece.reverse ++ st.bodyRev) :
    st'.bodylen = st'.bodyRev.length := by
  rw [hb.1, hb.2, h0]; simp; omega

/-! ## the step invariant -/

/-- parser-state invariant, per handler about to run -/
def Inv (st : St) (h : Handler) : Prop :=
  st.bodylen = st.bodyRev.length ∧
  st.bodylen ≤ st.alloc ∧ st.alloc ≤ st.max ∧
  (h ≠ .readHeader → 100 ≤ st.status ∧ st.status ≤ 599) ∧
  (h = .readHeader → st.bodylen = 0) ∧
  (h = .chunkedHeader → st.chunked = true) ∧
  (h = .readData →
    (st.chunked = true → 1 ≤ st.readlen ∧ st.bodylen + st.readlen ≤ st.max + 2) ∧
    (st.chunked = false → st.bodylen + st.readlen ≤ st.max))

/-- … together with what ties it to the snapshot: `hepos` lies inside the unconsumed bytes -/
def InvBuf (st : St) (h : Handler) (buf : Bytes) : Prop :=
  Inv st h ∧ (h = .readHeader → st.hepos ≤ buf.length)

/-- what C08 promises about anything handed to the caller's callback -/
def RespOK (max : Nat) : Option Resp → Prop
  | none => True
  | some r => 100 ≤ r.status ∧ r.status ≤ 599 ∧
      (match r.body with
       | some b => b.length ≤ max
       | none => True)

/-- the verdict on one handler invocation -/
def MicroOK (st : St) (buf : Bytes) : Micro → Prop
  | .goto st' c h' => 0 < c ∧ c ≤ buf.length ∧ st'.max = st.max ∧ InvBuf st' h' (buf.drop c)
  | .wait st' c k h' => c ≤ buf.length ∧ buf.length - c < k ∧ st'.max = st.max ∧ InvBuf st' h' (buf.drop c)
  | .done r => RespOK st.max r
  | .abort _ => False

theorem invBuf_mono {st : St} {h : Handler} {b1 b2 : Bytes} (hi : InvBuf st h b1) (hl : b1.length ≤ b2.length) :
    InvBuf st h b2 := ⟨hi.1, fun e => Nat.le_trans (hi.2 e) hl⟩

theorem readToEof_ok (st : St) (s : Status) (buf : Bytes) (hi : InvBuf st .readToEof buf) :
    MicroOK st buf (readToEof st s buf) := by
  obtain ⟨⟨h0, h1, h2, h3, _, _, _⟩, _⟩ := hi
  have hs := h3 (by decide)
  cases s with
  | err => simp [readToEof, MicroOK, RespOK]
  | eof => simp only [readToEof, MicroOK, RespOK, mkResp]; exact ⟨hs.1, hs.2, by simp; omega⟩
  | ok =>
    simp only [readToEof]
    rw [if_neg (by omega)]
    split
    · simp only [tooBig, MicroOK, RespOK]; exact ⟨hs.1, hs.2, trivial⟩
    · rename_i hle
      obtain ⟨st', he, hb, hm, ha1, ha2, hst, _, _, _⟩ := addbody_ok st buf h2 (by omega)
      rw [he]
      simp only [MicroOK]
      refine ⟨by omega, by omega, hm, ⟨bodylen_ok h0 hb, ha1, ha2, ?_, ?_, ?_, ?_⟩, ?_⟩
      · intro _; rw [hst]; exact hs
      · intro hc; cases hc
      · intro hc; cases hc
      · intro hc; cases hc
      · intro hc; cases hc

theorem eolLen_le (chunked : Bool) (readlen buflen : Nat) : eolLen chunked readlen buflen ≤ buflen := by
  simp only [eolLen]
  split
  · split <;> split <;> omega
  · omega

theorem readData_ok (st : St) (s : Status) (buf : Bytes) (hi : InvBuf st .readData buf) :
    MicroOK st buf (readData st s buf) := by
  obtain ⟨⟨h0, h1, h2, h3, _, _, h4⟩, _⟩ := hi
  have hs := h3 (by decide)
  obtain ⟨hc1, hc2⟩ := h4 rfl
  simp only [readData]
  split
  · simp [MicroOK, RespOK]
  · generalize hbl : (if buf.length > st.readlen then st.readlen else buf.length) = buflen
    have hbl1 : buflen ≤ buf.length := by subst hbl; split <;> omega
    have hbl2 : buflen ≤ st.readlen := by subst hbl; split <;> omega
    have hbl3 : buflen = st.readlen ∨ buflen = buf.length := by subst hbl; split <;> omega
    have hel := eolLen_le st.chunked st.readlen buflen
    have hfit : st.bodylen + (buf.take (buflen - eolLen st.chunked st.readlen buflen)).length ≤ st.max := by
      rw [List.length_take]
      cases hch : st.chunked with
      | false =>
        have := hc2 hch
        simp only [eolLen]; simp; omega
      | true =>
        have := hc1 hch
        simp only [eolLen]; simp
        split <;> split <;> omega
    obtain ⟨st', he, hb, hm, ha1, ha2, hst, hchk, _, _⟩ := addbody_ok st _ h2 hfit
    rw [he]
    (try dsimp only)
    split
    · rename_i hz
      simp only [beq_iff_eq] at hz
      have hz' : st.readlen - buflen = 0 := hz
      split
      · rename_i hch
        simp only [MicroOK]
        have := hc1 hch
        refine ⟨by omega, hbl1, hm, ⟨bodylen_ok h0 hb, ha1, ha2, ?_, ?_, ?_, ?_⟩, ?_⟩
        · intro _; (try dsimp only); rw [hst]; exact hs
        · intro hc; cases hc
        · intro _; (try dsimp only); rw [hchk]; exact hch
        · intro hc; cases hc
        · intro hc; cases hc
      · simp only [MicroOK, RespOK, mkResp]
        rw [hst]
        have := bodylen_ok h0 hb
        exact ⟨hs.1, hs.2, by simp; omega⟩
    · rename_i hz
      simp only [beq_iff_eq] at hz
      have hz' : st.readlen - buflen ≠ 0 := hz
      simp only [MicroOK]
      have hall : buflen = buf.length := by omega
      refine ⟨hbl1, ?_, hm, ⟨bodylen_ok h0 hb, ha1, ha2, ?_, ?_, ?_, ?_⟩, ?_⟩
      · have hw : 0 < WAITCAP := by decide
        (try dsimp only); split <;> omega
      · intro _; (try dsimp only); rw [hst]; exact hs
      · intro hc; cases hc
      · intro hc; cases hc
      · intro _
        (try dsimp only)
        rw [hchk, hb.1, List.length_take]
        constructor
        · intro hch
          have := hc1 hch
          simp only [eolLen, hch]; simp
          split <;> split <;> omega
        · intro hch
          have := hc2 hch
          simp only [eolLen, hch]; simp
          omega
      · intro hc; cases hc

theorem chunkedHeader_ok (st : St) (s : Status) (buf : Bytes) (hi : InvBuf st .chunkedHeader buf) :
    MicroOK st buf (chunkedHeader st s buf) := by
  obtain ⟨⟨h0, h1, h2, h3, _, h5, _⟩, _⟩ := hi
  have hs := h3 (by decide)
  have hch := h5 rfl
  simp only [chunkedHeader]
  split
  · simp [MicroOK, RespOK]
  · split
    · rename_i hne
      have hne' : findeol buf ≠ buf.length := by simpa using hne
      have hlt : findeol buf < buf.length := by have := findeol_le buf; omega
      have hsp := findeol_spec buf hlt
      have h2le : findeol buf + 2 ≤ buf.length := by
        have := hsp.2
        have h' : findeol buf + 1 < buf.length := by
          rcases Nat.lt_or_ge (findeol buf + 1) buf.length with h | h
          · exact h
          · rw [List.getElem?_eq_none h] at this; cases this
        omega
      split
      · simp [MicroOK, RespOK]
      · rename_i clen _
        rw [if_neg (by omega)]
        split
        · simp only [MicroOK, RespOK, mkResp]; exact ⟨hs.1, hs.2, by simp; omega⟩
        · rename_i hnz
          rw [if_neg (by omega)]
          split
          · simp only [tooBig, MicroOK, RespOK]; exact ⟨hs.1, hs.2, trivial⟩
          · split
            · simp only [tooBig, MicroOK, RespOK]; exact ⟨hs.1, hs.2, trivial⟩
            · rename_i hfit _
              simp only [MicroOK]
              simp only [beq_iff_eq] at hnz
              refine ⟨by omega, h2le, (by first | rfl | trivial), ⟨h0, h1, h2, ?_, ?_, ?_, ?_⟩, ?_⟩
              · intro _; exact hs
              · intro hc; cases hc
              · intro hc; cases hc
              · intro _
                refine ⟨fun _ => ⟨by (try dsimp only); omega, by (try dsimp only); omega⟩, ?_⟩
                intro hc; dsimp only at hc; rw [hch] at hc; cases hc
              · intro hc; cases hc
    · split
      · simp [MicroOK, RespOK]
      · simp only [MicroOK]
        refine ⟨by omega, by omega, (by first | rfl | trivial), ⟨h0, h1, h2, fun _ => hs, ?_, fun _ => hch, ?_⟩, ?_⟩
        · intro hc; cases hc
        · intro hc; cases hc
        · intro hc; cases hc

/-- structure of a header block for the two passes of `gotheaders` -/
theorem head_structure (pre : Bytes) : ∃ k l0 rest0,
    countLines (pre ++ term4) 0 = k + 2 ∧ sgetline (pre ++ term4) = some (l0, rest0) ∧
    (parseHeaders k rest0 [] = .nul ∨ ∃ hdrs rest, parseHeaders k rest0 [] = .ok hdrs rest ∧ rest.length = 2) := by
  obtain ⟨hlt, hrest⟩ := dropline pre
  have hne : pre ++ term4 ≠ [] := by simp [term4]
  obtain ⟨a, t, hat⟩ := List.exists_cons_of_ne_nil hne
  have hs' : ((pre ++ term4).drop (findeol (pre ++ term4) + 2) = [13, 10] ∨
      ∃ pre', (pre ++ term4).drop (findeol (pre ++ term4) + 2) = pre' ++ term4) := by
    rcases hrest with h1 | ⟨_, h2⟩
    · left; exact h1
    · right; exact ⟨_, h2⟩
  obtain ⟨k, hc, hp⟩ := lines_ok _ _ (Nat.le_refl _) hs' 1 []
  refine ⟨k, (pre ++ term4).take (findeol (pre ++ term4)), (pre ++ term4).drop (findeol (pre ++ term4) + 2), ?_, ?_, hp⟩
  · rw [hat, countLines_cons, ← hat, hc]; omega
  · simp only [sgetline]; rw [if_pos hlt]

theorem gotHeaders_ok (ovf : Bool → Nat → Int) (st : St) (buf pre : Bytes)
    (hi : Inv st .readHeader) (hlen : (pre ++ term4).length ≤ buf.length) :
    MicroOK st buf (gotHeaders ovf st (pre ++ term4)) := by
  obtain ⟨h0, h1, h2, _, hbody, _, _⟩ := hi
  have hb := hbody rfl
  obtain ⟨k, l0, rest0, hN, hS, hP⟩ := head_structure pre
  have hpos : 0 < (pre ++ term4).length := by simp [term4]
  simp only [gotHeaders, hN, hS]
  rw [if_neg (by omega)]
  split
  · simp [MicroOK, RespOK]
  · split
    · simp [MicroOK, RespOK]
    · rename_i sl _
      split
      · simp [MicroOK, RespOK]
      · split
        · simp [MicroOK, RespOK]
        · rename_i hrange
          have hr : 100 ≤ sl.status ∧ sl.status ≤ 599 := by
            simp [STATUS_MIN, STATUS_MAX] at hrange
            obtain ⟨ha, hb'⟩ := hrange
            have ha' : ¬ (sl.status < 100) := of_decide_eq_false ha
            omega
          have hk : k + 2 - 2 = k := by omega
          rw [hk]
          rcases hP with hP | ⟨hdrs, rest, hP, hrl⟩
          · rw [hP]; simp [MicroOK, RespOK]
          · rw [hP]
            (try dsimp only)
            rw [if_neg (by simp [hrl])]
            simp only [afterParse]
            split
            · -- 1xx: back to reading headers
              simp only [MicroOK]
              refine ⟨hpos, hlen, (by first | rfl | trivial), ⟨h0, ?_, h2, ?_, ?_, ?_, ?_⟩, ?_⟩
              · exact h1
              · intro hc; exact absurd rfl hc
              · intro _; exact hb
              · intro hc; cases hc
              · intro hc; cases hc
              · intro _; exact Nat.zero_le _
            · split
              · simp only [MicroOK, RespOK]; exact ⟨hr.1, hr.2, by simp⟩
              · split
                · simp only [MicroOK]
                  refine ⟨hpos, hlen, (by first | rfl | trivial), ⟨h0, h1, h2, fun _ => hr, ?_, fun _ => rfl, ?_⟩, ?_⟩
                  · intro hc; cases hc
                  · intro hc; cases hc
                  · intro hc; cases hc
                · split
                  · split
                    · simp [MicroOK, RespOK]
                    · rename_i len _
                      split
                      · simp only [tooBig, MicroOK, RespOK]; exact ⟨hr.1, hr.2, trivial⟩
                      · rename_i hfit
                        simp only [MicroOK]
                        refine ⟨hpos, hlen, (by first | rfl | trivial), ⟨h0, h1, h2, fun _ => hr, ?_, ?_, ?_⟩, ?_⟩
                        · intro hc; cases hc
                        · intro hc; cases hc
                        · intro _
                          refine ⟨(fun hc => by cases hc), fun _ => ?_⟩
                          (try dsimp only); omega
                        · intro hc; cases hc
                  · simp only [MicroOK]
                    refine ⟨hpos, hlen, (by first | rfl | trivial), ⟨h0, h1, h2, fun _ => hr, ?_, ?_, ?_⟩, ?_⟩
                    · intro hc; cases hc
                    · intro hc; cases hc
                    · intro hc; cases hc
                    · intro hc; cases hc

theorem take_term4 (buf : Bytes) (hp : Nat) (ht : (buf.drop hp).take 4 = term4) :
    buf.take (hp + 4) = buf.take hp ++ term4 := by
  rw [List.take_add, ht]

theorem readHeader_ok (ovf : Bool → Nat → Int) (st : St) (s : Status) (buf : Bytes)
    (hi : InvBuf st .readHeader buf) : MicroOK st buf (readHeader ovf st s buf) := by
  obtain ⟨hinv, hhe⟩ := hi
  have hhe' := hhe rfl
  simp only [readHeader]
  split
  · simp [MicroOK, RespOK]
  · obtain ⟨s1, s2, s3⟩ := scanHdr_spec (buf.drop st.hepos) st.hepos
    rw [List.length_drop] at s2 s3
    generalize scanHdr (buf.drop st.hepos) st.hepos = hp at s1 s2 s3
    split
    · rename_i h4
      have ht : (buf.drop hp).take 4 = term4 := by
        have := s3 (by omega)
        rw [List.drop_drop] at this
        have e : st.hepos + (hp - st.hepos) = hp := by omega
        rw [e] at this; exact this
      rw [take_term4 buf hp ht]
      have hinv' : Inv { st with hepos := hp } .readHeader := hinv
      have := gotHeaders_ok ovf { st with hepos := hp } buf (buf.take hp) hinv'
        (by rw [← take_term4 buf hp ht, List.length_take]; omega)
      exact this
    · split
      · simp [MicroOK, RespOK]
      · simp only [MicroOK]
        obtain ⟨i0, i1, i2, i3, i4, i5, i6⟩ := hinv
        refine ⟨by omega, by omega, (by first | rfl | trivial), ⟨i0, i1, i2, i3, i4, i5, i6⟩, ?_⟩
        intro _; simp; omega

theorem micro_ok (ovf : Bool → Nat → Int) (st : St) (h : Handler) (s : Status) (buf : Bytes)
    (hi : InvBuf st h buf) : MicroOK st buf (micro ovf st h s buf) := by
  cases h with
  | readHeader => exact readHeader_ok ovf st s buf hi
  | chunkedHeader => exact chunkedHeader_ok st s buf hi
  | readData => exact readData_ok st s buf hi
  | readToEof => exact readToEof_ok st s buf hi

/-! ## one event-loop callback -/

/-- the verdict on one event-loop callback: a wait for strictly more than is buffered, or the callback -/
def StepOK (st : St) (buf : Bytes) (c0 : Nat) : StepRes → Prop
  | .wait st' c k h' => c0 ≤ c ∧ c - c0 ≤ buf.length ∧ buf.length - (c - c0) < k ∧ st'.max = st.max ∧
      InvBuf st' h' (buf.drop (c - c0))
  | .done r => RespOK st.max r
  | .abort _ => False

theorem step_ok (ovf : Bool → Nat → Int) : ∀ (f : Nat) (st : St) (h : Handler) (s : Status) (buf : Bytes) (c0 : Nat),
    InvBuf st h buf → buf.length < f → StepOK st buf c0 (step ovf f st h s buf c0) := by
  intro f
  induction f with
  | zero => intro st h s buf c0 _ hf; omega
  | succ f ih =>
    intro st h s buf c0 hi hf
    have hm := micro_ok ovf st h s buf hi
    simp only [step]
    generalize micro ovf st h s buf = m at hm
    cases m with
    | goto st' c h' =>
      simp only [MicroOK] at hm
      obtain ⟨hc0, hc1, hmax, hinv⟩ := hm
      have := ih st' h' .ok (buf.drop c) (c0 + c) hinv (by rw [List.length_drop]; omega)
      (try dsimp only)
      generalize step ovf f st' h' .ok (buf.drop c) (c0 + c) = r at this
      cases r with
      | wait st'' c' k h'' =>
        simp only [StepOK] at this ⊢
        obtain ⟨a1, a2, a3, a4, a5⟩ := this
        rw [List.length_drop] at a2 a3
        rw [List.drop_drop] at a5
        have e : c + (c' - (c0 + c)) = c' - c0 := by omega
        rw [e] at a5
        exact ⟨by omega, by omega, by omega, by rw [a4, hmax], a5⟩
      | done r => simp only [StepOK] at this ⊢; rw [← hmax]; exact this
      | abort w => simp only [StepOK] at this
    | wait st' c k h' =>
      simp only [MicroOK] at hm
      obtain ⟨hc1, hk, hmax, hinv⟩ := hm
      simp only [StepOK]
      have e : c0 + c - c0 = c := by omega
      rw [e]
      exact ⟨by omega, hc1, hk, hmax, hinv⟩
    | done r => simpa [StepOK, MicroOK] using hm
    | abort w => simp [MicroOK] at hm

/-- a handler entered with EOF or an error always ends the request -/
theorem micro_not_ok (ovf : Bool → Nat → Int) (st : St) (h : Handler) (s : Status) (buf : Bytes) (hs : s ≠ .ok) :
    ∃ r, micro ovf st h s buf = .done r := by
  cases h with
  | readHeader =>
    simp only [micro, readHeader]
    rw [if_pos (by cases s <;> simp at hs ⊢)]
    exact ⟨_, rfl⟩
  | chunkedHeader =>
    simp only [micro, chunkedHeader]
    rw [if_pos (by cases s <;> simp at hs ⊢)]
    exact ⟨_, rfl⟩
  | readData =>
    simp only [micro, readData]
    rw [if_pos (by cases s <;> simp at hs ⊢)]
    exact ⟨_, rfl⟩
  | readToEof =>
    cases s with
    | ok => exact absurd rfl hs
    | eof => exact ⟨_, rfl⟩
    | err => exact ⟨_, rfl⟩

theorem step_not_ok (ovf : Bool → Nat → Int) (f : Nat) (st : St) (h : Handler) (s : Status) (buf : Bytes) (c0 : Nat)
    (hs : s ≠ .ok) : ∃ r, step ovf (f + 1) st h s buf c0 = .done r := by
  obtain ⟨r, hr⟩ := micro_not_ok ovf st h s buf hs
  exact ⟨r, by simp only [step, hr]⟩

/-! ## a whole run, for any reader/network behaviour -/

theorem run_ok {σ : Type} (ovf : Bool → Nat → Int) (oracle : σ → Nat → Nat → σ × Arrival) :
    ∀ (f : Nat) (o : σ) (st : St) (h : Handler) (s : Status) (rest : Bytes) (rlen b : Nat) (ws : List Nat),
    rlen = rest.length → b ≤ rlen → InvBuf st h (rest.take b) → (s = .ok → rlen - b + 2 ≤ f) → 1 ≤ f →
    ∃ r ws', run ovf oracle f o st h s rest rlen b ws = .callback r ws' ∧ RespOK st.max r := by
  intro f
  induction f with
  | zero => intro o st h s rest rlen b ws _ _ _ _ hf; omega
  | succ f ih =>
    intro o st h s rest rlen b ws hrl hb hi hfuel _
    have hsl : (rest.take b).length = b := by rw [List.length_take]; omega
    have hso := step_ok ovf (b + 1) st h s (rest.take b) 0 hi (by omega)
    simp only [run]
    generalize hstep : step ovf (b + 1) st h s (rest.take b) 0 = r0 at hso
    cases r0 with
    | done r => exact ⟨r, _, rfl, hso⟩
    | abort w => simp [StepOK] at hso
    | wait st' c k h' =>
      have hsok : s = .ok := by
        by_cases hs : s = .ok
        · exact hs
        · obtain ⟨r, hr⟩ := step_not_ok ovf b st h s (rest.take b) 0 hs
          rw [hr] at hstep; cases hstep
      have hf2 := hfuel hsok
      simp only [StepOK] at hso
      obtain ⟨_, hc, hk, hmax, hinv⟩ := hso
      rw [hsl] at hc hk
      simp only [Nat.sub_zero] at hc hk hinv
      (try dsimp only)
      generalize oracle o c k = oa
      obtain ⟨o', a⟩ := oa
      (try dsimp only)
      rw [if_neg (by omega)]
      have hrl' : rlen - c = (rest.drop c).length := by rw [List.length_drop]; omega
      have hdl : ((rest.take b).drop c).length = b - c := by rw [List.length_drop, hsl]
      cases a with
      | more extra =>
        (try dsimp only)
        split
        · rename_i hkr
          generalize hb2 : (if k + extra > rlen - c then rlen - c else k + extra) = b2
          have hb2a : k ≤ b2 := by subst hb2; split <;> omega
          have hb2b : b2 ≤ rlen - c := by subst hb2; split <;> omega
          have hi2 : InvBuf st' h' ((rest.drop c).take b2) :=
            invBuf_mono hinv (by rw [hdl, List.length_take]; omega)
          obtain ⟨r, ws', hr, hok⟩ := ih o' st' h' .ok (rest.drop c) (rlen - c) b2 (k :: ws) hrl' hb2b hi2
            (fun _ => by omega) (by omega)
          exact ⟨r, ws', hr, by rw [← hmax]; exact hok⟩
        · have hi2 : InvBuf st' h' ((rest.drop c).take (rlen - c)) :=
            invBuf_mono hinv (by rw [hdl, List.length_take]; omega)
          obtain ⟨r, ws', hr, hok⟩ := ih o' st' h' .eof (rest.drop c) (rlen - c) (rlen - c) (k :: ws) hrl' (Nat.le_refl _) hi2
            (fun hc => by cases hc) (by omega)
          exact ⟨r, ws', hr, by rw [← hmax]; exact hok⟩
      | eof =>
        have hi2 : InvBuf st' h' ((rest.drop c).take (b - c)) :=
          invBuf_mono hinv (by rw [hdl, List.length_take]; omega)
        obtain ⟨r, ws', hr, hok⟩ := ih o' st' h' .eof (rest.drop c) (rlen - c) (b - c) (k :: ws) hrl' (by omega) hi2
          (fun hc => by cases hc) (by omega)
        exact ⟨r, ws', hr, by rw [← hmax]; exact hok⟩
      | err =>
        have hi2 : InvBuf st' h' ((rest.drop c).take (b - c)) :=
          invBuf_mono hinv (by rw [hdl, List.length_take]; omega)
        obtain ⟨r, ws', hr, hok⟩ := ih o' st' h' .err (rest.drop c) (rlen - c) (b - c) (k :: ws) hrl' (by omega) hi2
          (fun hc => by cases hc) (by omega)
        exact ⟨r, ws', hr, by rw [← hmax]; exact hok⟩

theorem initSt_inv (ishead : Bool) (max : Nat) (buf : Bytes) : InvBuf (initSt ishead max) .readHeader buf := by
  refine ⟨⟨by simp [initSt], by simp [initSt], by simp [initSt], ?_, ?_, ?_, ?_⟩, ?_⟩
  · intro hc; exact absurd rfl hc
  · intro _; rfl
  · intro hc; cases hc
  · intro hc; cases hc
  · intro _; simp [initSt]

theorem runAll_ok {σ : Type} (ovf : Bool → Nat → Int) (oracle : σ → Nat → Nat → σ × Arrival) (o : σ)
    (ishead : Bool) (max : Nat) (data : Bytes) :
    ∃ r ws, runAll ovf oracle o ishead max data = .callback r ws ∧ RespOK max r := by
  have := run_ok ovf oracle (data.length + 3) o (initSt ishead max) .readHeader .ok data data.length 0 []
    rfl (Nat.zero_le _) (initSt_inv ishead max _) (fun _ => by omega) (by omega)
  simpa [runAll, initSt] using this

end Percival.Proofs.Http
