import Percival.Proofs.UpMonSoundA
/-!
# C14, component `upstart` — part B: what one library call does to the object tables

`Ev t c rc o t'`: the call `c` with outcome `rc ≠ contract`, returning the object `o`, takes the object tables `t`
to `t'`.  One constructor per shape of change, with the side facts (freshness of the new identifier, which object
is updated, what the update keeps) that the per-call specifications of `Proofs/AFU*.lean` give.  `ev_stepR`
extracts it from `Inv`; parts C and D reason on the explicit shapes only.
-/
namespace Percival.Proofs.UpMonSound
open Percival.Model Percival.Model.EvReg Percival.Model.AllocFail Percival.Model.UpStep
open Percival.Proofs.AllocFailUpper
open Percival.Model.Connect (AddrOutcome)

/-- the change of the tables made by one call that was carried out -/
inductive Ev (t : Tables) : LOp → Rc → Option Nat → Tables → Prop
  /-- a failure (or `netbuf_write_write` on a writer that has failed) that leaves every table as it was -/
  | same (c0 : LOp) (rc : Rc) (hrel : isRelease c0 = false) : Ev t c0 rc none t
  | read (fd c : Nat) (hf : ∀ a ∈ t.reads, a.cookie ≠ c) :
      Ev t (.read fd) .ok (some c) { t with reads := ⟨c, fd⟩ :: t.reads }
  | write (fd c : Nat) (hf : ∀ a ∈ t.writes, a.cookie ≠ c) :
      Ev t (.write fd) .ok (some c) { t with writes := ⟨c, fd⟩ :: t.writes }
  | accept (fd c : Nat) (hf : ∀ a ∈ t.accepts, a.cookie ≠ c) :
      Ev t (.accept fd) .ok (some c) { t with accepts := ⟨c, fd⟩ :: t.accepts }
  | connect (a : List AddrOutcome) (tm : Option Int) (s c : Nat) (k : Conn) (hk : k.cookie = c)
      (hf : ∀ a ∈ t.conns, a.cookie ≠ c) :
      Ev t (.connect a tm s) .ok (some c) { t with conns := k :: t.conns }
  | nbrInit (fd c : Nat) (r : Reader) (hid : r.id = c) (hfd : r.fd = fd) (hc : r.readCookie = none)
      (hf : ∀ a ∈ t.readers, a.id ≠ c) :
      Ev t (.nbrInit fd) .ok (some c) { t with readers := r :: t.readers }
  | nbwInit (fd c : Nat) (x : Writer) (hid : x.id = c) (hfd : x.fd = fd) (hc : x.curr = none) (hres : x.reserved = false)
      (hf : ∀ a ∈ t.writers, a.id ≠ c) :
      Ev t (.nbwInit fd) .ok (some c) { t with writers := x :: t.writers }
  /-- `http_request` / `https_request` (`ho`: the duplicated host name of the latter) -/
  | http (c0 : LOp) (a : List AddrOutcome) (l s x hd c : Nat) (ho : Option Nat) (k : Conn)
      (hc0 : c0 = .http a l s ∨ ∃ hl, c0 = .https a l s hl) (hk : k.cookie = c)
      (hfc : ∀ a ∈ t.conns, a.cookie ≠ c) (hfx : ∀ a ∈ t.https, a.cookie ≠ x) :
      Ev t c0 .ok (some x) { t with https := ⟨x, hd, some c, ho⟩ :: t.https, conns := k :: t.conns }
  | readCancel (c : Nat) (hun : ∀ r ∈ t.readers, r.readCookie ≠ some c) :
      Ev t (.readCancel c) .ok none { t with reads := t.reads.filter (fun x => x.cookie != c) }
  | writeCancel (c : Nat) (hun : ∀ x ∈ t.writers, x.curr.map (·.2) ≠ some c) :
      Ev t (.writeCancel c) .ok none { t with writes := t.writes.filter (fun x => x.cookie != c) }
  | acceptCancel (c : Nat) :
      Ev t (.acceptCancel c) .ok none { t with accepts := t.accepts.filter (fun x => x.cookie != c) }
  | connectCancel (c : Nat) (hun : ∀ x ∈ t.https, x.conn ≠ some c) :
      Ev t (.connectCancel c) .ok none { t with conns := t.conns.filter (fun x => x.cookie != c) }
  /-- `netbuf_read_wait` that did not start a read: failed, or the data was there (immediate event) -/
  | nbrUpd (len : Nat) (rc : Rc) (r r' : Reader) (hr : r ∈ t.readers) (hc : r.readCookie = none)
      (hid : r'.id = r.id) (hfd : r'.fd = r.fd) (hc' : r'.readCookie = none) :
      Ev t (.nbrWait r.id len) rc none { t with readers := updReader t.readers r' }
  | nbrRead (len : Nat) (r r' : Reader) (c : Nat) (hr : r ∈ t.readers) (hc : r.readCookie = none)
      (hid : r'.id = r.id) (hfd : r'.fd = r.fd) (hc' : r'.readCookie = some c) (hf : ∀ a ∈ t.reads, a.cookie ≠ c) :
      Ev t (.nbrWait r.id len) .ok none { t with readers := updReader t.readers r', reads := ⟨c, r.fd⟩ :: t.reads }
  | nbrCancel (r : Reader) (hr : r ∈ t.readers) :
      Ev t (.nbrCancel r.id) .ok none
        { t with readers := updReader t.readers { r with readCookie := none, immediate := false },
                 reads := match r.readCookie with
                   | some c => t.reads.filter (fun x => x.cookie != c)
                   | none => t.reads }
  | nbrFree (r : Reader) (hr : r ∈ t.readers) (hc : r.readCookie = none) :
      Ev t (.nbrFree r.id) .ok none { t with readers := t.readers.filter (fun x => x.id != r.id) }
  | nbwReserve (len : Nat) (x : Writer) (q : List WBuf) (hx : x ∈ t.writers) (hres : x.reserved = false)
      (hq : ∃ wb, q.getLast? = some wb ∧ len ≤ wb.buflen - wb.datalen) :
      Ev t (.nbwReserve x.id len) .ok none { t with writers := updWriter t.writers { x with reserved := true, queue := q } }
  /-- `netbuf_write_consume` / `netbuf_write_write` that did not start a write -/
  | nbwUpd (c0 : LOp) (rc : Rc) (len : Nat) (x x' : Writer) (hc0 : c0 = .nbwConsume x.id len ∨ c0 = .nbwWrite x.id len)
      (hx : x ∈ t.writers) (hid : x'.id = x.id) (hfd : x'.fd = x.fd) (hres : x'.reserved = false) (hc : x'.curr = x.curr) :
      Ev t c0 rc none { t with writers := updWriter t.writers x' }
  | nbwStart (c0 : LOp) (len : Nat) (x x' : Writer) (wb : WBuf) (c : Nat)
      (hc0 : c0 = .nbwConsume x.id len ∨ c0 = .nbwWrite x.id len)
      (hx : x ∈ t.writers) (hid : x'.id = x.id) (hfd : x'.fd = x.fd) (hres : x'.reserved = false)
      (hc : x.curr = none) (hc' : x'.curr = some (wb, c)) (hf : ∀ a ∈ t.writes, a.cookie ≠ c) :
      Ev t c0 .ok none { t with writers := updWriter t.writers x', writes := ⟨c, x.fd⟩ :: t.writes }
  | nbwFree (x : Writer) (hx : x ∈ t.writers) :
      Ev t (.nbwFree x.id) .ok none
        { t with writers := t.writers.filter (fun y => y.id != x.id),
                 writes := match x.curr with
                   | some (_, c) => t.writes.filter (fun y => y.cookie != c)
                   | none => t.writes }
  | httpCancel (x : Http) (hx : x ∈ t.https) :
      Ev t (.httpCancel x.cookie) .ok none
        { t with https := t.https.filter (fun y => y.cookie != x.cookie),
                 conns := match x.conn with
                   | some c => t.conns.filter (fun y => y.cookie != c)
                   | none => t.conns }

/-- the head of a list without repeated keys is not in the tail -/
theorem fresh_of_nodup {α : Type} (f : α → Nat) {a : α} {l : List α} (h : ((a :: l).map f).Nodup) :
    ∀ b ∈ l, f b ≠ f a := by
  simp only [List.map_cons, List.nodup_cons] at h
  intro b hb he
  exact h.1 (he ▸ List.mem_map_of_mem hb)

theorem nd_of_inv {w : World} (h : Inv w) :
    ((tables w).reads.map (·.cookie)).Nodup ∧ ((tables w).writes.map (·.cookie)).Nodup ∧
    ((tables w).accepts.map (·.cookie)).Nodup ∧ ((tables w).conns.map (·.cookie)).Nodup ∧
    ((tables w).readers.map (·.id)).Nodup ∧ ((tables w).writers.map (·.id)).Nodup ∧
    ((tables w).https.map (·.cookie)).Nodup := tables_nodup h.owns.nodupE

theorem ev_read (w : World) (fd : Nat) (hI : Inv w) :
    Ev (tables w) (.read fd) (stepR w (.read fd)).1 (call w (.read fd)).2.1 (tables (stepR w (.read fd)).2) := by
  obtain ⟨_, _, hfail, hok, _, _⟩ := networkRead_spec w fd hI.toInv0
  have hI' := stepR_inv w (.read fd) hI
  rcases h : networkRead w fd with ⟨_ | c, w'⟩
  · rw [h] at hfail
    simp only [stepR, call, h]
    rw [(hfail rfl).tables]
    exact Ev.same _ _ rfl
  · rw [h] at hok
    simp only [stepR, h] at hI'
    simp only [stepR, call, h]
    obtain ⟨_, ht, _⟩ := hok c rfl
    have hnd := (nd_of_inv hI').1
    simp only at ht
    rw [ht] at hnd ⊢
    exact Ev.read fd c (fresh_of_nodup NetReq.cookie hnd)

theorem ev_write (w : World) (fd : Nat) (hI : Inv w) :
    Ev (tables w) (.write fd) (stepR w (.write fd)).1 (call w (.write fd)).2.1 (tables (stepR w (.write fd)).2) := by
  obtain ⟨_, _, hfail, hok, _, _⟩ := networkWrite_spec w fd hI.toInv0
  have hI' := stepR_inv w (.write fd) hI
  rcases h : networkWrite w fd with ⟨_ | c, w'⟩
  · rw [h] at hfail
    simp only [stepR, call, h]
    rw [(hfail rfl).tables]
    exact Ev.same _ _ rfl
  · rw [h] at hok
    simp only [stepR, h] at hI'
    simp only [stepR, call, h]
    obtain ⟨_, ht, _⟩ := hok c rfl
    have hnd := (nd_of_inv hI').2.1
    simp only at ht
    rw [ht] at hnd ⊢
    exact Ev.write fd c (fresh_of_nodup NetReq.cookie hnd)

theorem ev_accept (w : World) (fd : Nat) (hI : Inv w) :
    Ev (tables w) (.accept fd) (stepR w (.accept fd)).1 (call w (.accept fd)).2.1 (tables (stepR w (.accept fd)).2) := by
  obtain ⟨_, _, hfail, hok, _, _⟩ := networkAccept_spec w fd hI.toInv0
  have hI' := stepR_inv w (.accept fd) hI
  rcases h : networkAccept w fd with ⟨_ | c, w'⟩
  · rw [h] at hfail
    simp only [stepR, call, h]
    rw [(hfail rfl).tables]
    exact Ev.same _ _ rfl
  · rw [h] at hok
    simp only [stepR, h] at hI'
    simp only [stepR, call, h]
    obtain ⟨_, ht, _⟩ := hok c rfl
    have hnd := (nd_of_inv hI').2.2.1
    simp only at ht
    rw [ht] at hnd ⊢
    exact Ev.accept fd c (fresh_of_nodup NetReq.cookie hnd)

theorem ev_connect (w : World) (a : List AddrOutcome) (tm : Option Int) (s : Nat) (hI : Inv w) :
    Ev (tables w) (.connect a tm s) (stepR w (.connect a tm s)).1 (call w (.connect a tm s)).2.1
      (tables (stepR w (.connect a tm s)).2) := by
  obtain ⟨_, _, hfail, hok, _, _⟩ := networkConnect_spec w a tm s hI.toInv0
  have hI' := stepR_inv w (.connect a tm s) hI
  rcases h : networkConnect w a tm s with ⟨_ | c, w'⟩
  · rw [h] at hfail
    simp only [stepR, call, h]
    rw [(hfail rfl).tables]
    exact Ev.same _ _ rfl
  · rw [h] at hok
    simp only [stepR, h] at hI'
    simp only [stepR, call, h]
    obtain ⟨_, ht, _⟩ := hok c rfl
    have hnd := (nd_of_inv hI').2.2.2.1
    simp only at ht
    rw [ht] at hnd ⊢
    have hf := fresh_of_nodup Conn.cookie hnd
    rw [Run.connEntry_cookie] at hf
    exact Ev.connect a tm s c _ (Run.connEntry_cookie c a tm s) hf

theorem ev_nbrInit (w : World) (fd : Nat) (hI : Inv w) :
    Ev (tables w) (.nbrInit fd) (stepR w (.nbrInit fd)).1 (call w (.nbrInit fd)).2.1 (tables (stepR w (.nbrInit fd)).2) := by
  obtain ⟨_, _, hfail, hok⟩ := netbufReadInit_spec w fd hI.toInv0
  have hI' := stepR_inv w (.nbrInit fd) hI
  rcases h : netbufReadInit w fd with ⟨_ | c, w'⟩
  · rw [h] at hfail
    simp only [stepR, call, h]
    rw [(hfail rfl).1.tables]
    exact Ev.same _ _ rfl
  · rw [h] at hok
    simp only [stepR, h] at hI'
    simp only [stepR, call, h]
    obtain ⟨b, _, ht, _⟩ := hok c rfl
    have hnd := (nd_of_inv hI').2.2.2.2.1
    simp only at ht
    rw [ht] at hnd ⊢
    exact Ev.nbrInit fd c _ rfl rfl rfl (fresh_of_nodup Reader.id hnd)

theorem ev_nbwInit (w : World) (fd : Nat) (hI : Inv w) :
    Ev (tables w) (.nbwInit fd) (stepR w (.nbwInit fd)).1 (call w (.nbwInit fd)).2.1 (tables (stepR w (.nbwInit fd)).2) := by
  obtain ⟨_, _, hfail, hok⟩ := netbufWriteInit_spec w fd hI.toInv0
  have hI' := stepR_inv w (.nbwInit fd) hI
  rcases h : netbufWriteInit w fd with ⟨_ | c, w'⟩
  · rw [h] at hfail
    simp only [stepR, call, h]
    rw [(hfail rfl).1.tables]
    exact Ev.same _ _ rfl
  · rw [h] at hok
    simp only [stepR, h] at hI'
    simp only [stepR, call, h]
    obtain ⟨_, ht, _⟩ := hok c rfl
    have hnd := (nd_of_inv hI').2.2.2.2.2.1
    simp only at ht
    rw [ht] at hnd ⊢
    exact Ev.nbwInit fd c _ rfl rfl rfl rfl (fresh_of_nodup Writer.id hnd)

theorem ev_http (w : World) (a : List AddrOutcome) (l s : Nat) (hI : Inv w) :
    Ev (tables w) (.http a l s) (stepR w (.http a l s)).1 (call w (.http a l s)).2.1
      (tables (stepR w (.http a l s)).2) := by
  obtain ⟨_, _, hfail, hok, _, _⟩ := httpRequest_spec w a l s hI.toInv0
  have hI' := stepR_inv w (.http a l s) hI
  rcases h : httpRequest w a l s with ⟨_ | x, w'⟩
  · rw [h] at hfail
    simp only [stepR, call, h]
    rw [(hfail rfl).tables]
    exact Ev.same _ _ rfl
  · rw [h] at hok
    simp only [stepR, h] at hI'
    simp only [stepR, call, h]
    obtain ⟨hd, c, _, ht, _⟩ := hok x rfl
    have hndc := (nd_of_inv hI').2.2.2.1
    have hndx := (nd_of_inv hI').2.2.2.2.2.2
    simp only at ht
    rw [ht] at hndc hndx ⊢
    have hf := fresh_of_nodup Conn.cookie hndc
    rw [Run.connEntry_cookie] at hf
    exact Ev.http _ a l s x hd c none _ (Or.inl rfl) (Run.connEntry_cookie c a none s) hf (fresh_of_nodup Http.cookie hndx)

theorem ev_https (w : World) (a : List AddrOutcome) (l s hl : Nat) (hI : Inv w) :
    Ev (tables w) (.https a l s hl) (stepR w (.https a l s hl)).1 (call w (.https a l s hl)).2.1
      (tables (stepR w (.https a l s hl)).2) := by
  obtain ⟨_, _, hfail, hok, _, _⟩ := httpsRequest_spec w a l s hl hI.toInv0
  have hI' := stepR_inv w (.https a l s hl) hI
  rcases h : httpsRequest w a l s hl with ⟨_ | x, w'⟩
  · rw [h] at hfail
    simp only [stepR, call, h]
    rw [(hfail rfl).tables]
    exact Ev.same _ _ rfl
  · rw [h] at hok
    simp only [stepR, h] at hI'
    simp only [stepR, call, h]
    obtain ⟨sh, hd, c, _, ht, _⟩ := hok x rfl
    have hndc := (nd_of_inv hI').2.2.2.1
    have hndx := (nd_of_inv hI').2.2.2.2.2.2
    simp only at ht
    rw [ht] at hndc hndx ⊢
    have hf := fresh_of_nodup Conn.cookie hndc
    rw [Run.connEntry_cookie] at hf
    exact Ev.http _ a l s x hd c (some sh) _ (Or.inr ⟨hl, rfl⟩) (Run.connEntry_cookie c a none s) hf
      (fresh_of_nodup Http.cookie hndx)

theorem ev_readCancel (w : World) (c : Nat) (hI : Inv w) (hnc : (stepR w (.readCancel c)).1 ≠ .contract) :
    Ev (tables w) (.readCancel c) (stepR w (.readCancel c)).1 (call w (.readCancel c)).2.1
      (tables (stepR w (.readCancel c)).2) := by
  show Ev (tables w) (.readCancel c) (stepR w (.readCancel c)).1 none (tables (stepR w (.readCancel c)).2)
  cases hown : readOwned w c with
  | true => simp [stepR, hown] at hnc
  | false =>
    cases hf : w.reads.find? (·.cookie == c) with
    | none =>
      have : networkReadCancel w c = none := by simp only [networkReadCancel, hf]
      simp [stepR, hown, this] at hnc
    | some a =>
      have ha := Run.find_key (fun x : NetReq => x.cookie) hf
      obtain ⟨w', hcall, _, _, _, ht, _⟩ := networkReadCancel_spec w a hI.toInv0 ha.1
      rw [ha.2] at hcall ht
      simp only [stepR, hown, hcall, Bool.false_eq_true, if_false]
      rw [ht]
      have hun : ∀ r ∈ w.readers, r.readCookie ≠ some c := by simpa [readOwned] using hown
      exact Ev.readCancel c hun

theorem ev_writeCancel (w : World) (c : Nat) (hI : Inv w) (hnc : (stepR w (.writeCancel c)).1 ≠ .contract) :
    Ev (tables w) (.writeCancel c) (stepR w (.writeCancel c)).1 (call w (.writeCancel c)).2.1
      (tables (stepR w (.writeCancel c)).2) := by
  show Ev (tables w) (.writeCancel c) (stepR w (.writeCancel c)).1 none (tables (stepR w (.writeCancel c)).2)
  cases hown : writeOwned w c with
  | true => simp [stepR, hown] at hnc
  | false =>
    cases hf : w.writes.find? (·.cookie == c) with
    | none =>
      have : networkWriteCancel w c = none := by simp only [networkWriteCancel, hf]
      simp [stepR, hown, this] at hnc
    | some a =>
      have ha := Run.find_key (fun x : NetReq => x.cookie) hf
      obtain ⟨w', hcall, _, _, _, ht, _⟩ := networkWriteCancel_spec w a hI.toInv0 ha.1
      rw [ha.2] at hcall ht
      simp only [stepR, hown, hcall, Bool.false_eq_true, if_false]
      rw [ht]
      have hun : ∀ x ∈ w.writers, x.curr.map (·.2) ≠ some c := by simpa [writeOwned] using hown
      exact Ev.writeCancel c hun

theorem ev_acceptCancel (w : World) (c : Nat) (hI : Inv w) (hnc : (stepR w (.acceptCancel c)).1 ≠ .contract) :
    Ev (tables w) (.acceptCancel c) (stepR w (.acceptCancel c)).1 (call w (.acceptCancel c)).2.1
      (tables (stepR w (.acceptCancel c)).2) := by
  show Ev (tables w) (.acceptCancel c) (stepR w (.acceptCancel c)).1 none (tables (stepR w (.acceptCancel c)).2)
  cases hf : w.accepts.find? (·.cookie == c) with
  | none =>
    have : networkAcceptCancel w c = none := by simp only [networkAcceptCancel, hf]
    simp [stepR, this] at hnc
  | some a =>
    have ha := Run.find_key (fun x : NetReq => x.cookie) hf
    obtain ⟨w', hcall, _, _, _, _, ht, _⟩ := networkAcceptCancel_spec w a hI.toInv0 ha.1
    rw [ha.2] at hcall ht
    simp only [stepR, hcall]
    rw [ht]
    exact Ev.acceptCancel c

theorem ev_connectCancel (w : World) (c : Nat) (hI : Inv w) (hnc : (stepR w (.connectCancel c)).1 ≠ .contract) :
    Ev (tables w) (.connectCancel c) (stepR w (.connectCancel c)).1 (call w (.connectCancel c)).2.1
      (tables (stepR w (.connectCancel c)).2) := by
  show Ev (tables w) (.connectCancel c) (stepR w (.connectCancel c)).1 none (tables (stepR w (.connectCancel c)).2)
  cases hown : connOwned w c with
  | true => simp [stepR, hown] at hnc
  | false =>
    cases hf : w.conns.find? (·.cookie == c) with
    | none =>
      have : networkConnectCancel w c = none := by simp only [networkConnectCancel, hf]
      simp [stepR, hown, this] at hnc
    | some a =>
      have ha := Run.find_key (fun x : Conn => x.cookie) hf
      obtain ⟨w', hcall, _, _, _, _, ht⟩ := networkConnectCancel_spec w a hI.toInv0 ha.1
      rw [ha.2] at hcall ht
      simp only [stepR, hown, hcall, Bool.false_eq_true, if_false]
      rw [ht]
      have hun : ∀ x ∈ w.https, x.conn ≠ some c := by simpa [connOwned] using hown
      exact Ev.connectCancel c hun

theorem ev_nbrWait (w : World) (rid len : Nat) (hI : Inv w) (hnc : (stepR w (.nbrWait rid len)).1 ≠ .contract) :
    Ev (tables w) (.nbrWait rid len) (stepR w (.nbrWait rid len)).1 (call w (.nbrWait rid len)).2.1
      (tables (stepR w (.nbrWait rid len)).2) := by
  show Ev (tables w) (.nbrWait rid len) (netbufReadWait w rid len).1 none (tables (netbufReadWait w rid len).2)
  change (netbufReadWait w rid len).1 ≠ .contract at hnc
  have hI' : Inv (netbufReadWait w rid len).2 := stepR_inv w (.nbrWait rid len) hI
  rcases Top.nbrWait_lookup w rid len with he | ⟨r, hr, rfl⟩
  · rw [he] at hnc; exact absurd rfl hnc
  · obtain ⟨_, _, hciff, _, hfail, hok, _, _⟩ := netbufReadWait_spec w r len hI.toInv0 hr
    have hc : r.readCookie = none := by
      cases hrc : r.readCookie with
      | none => rfl
      | some c => exact absurd (hciff.2 (Or.inl (by simp [hrc]))) hnc
    cases hrc : (netbufReadWait w r.id len).1 with
    | contract => exact absurd hrc hnc
    | fail =>
      obtain ⟨_, r', h1, h2, _, h4, _, ht⟩ := hfail hrc
      rw [ht]
      exact Ev.nbrUpd len .fail r r' hr hc h1 h2 h4
    | ok =>
      rcases (hok hrc).2 with ⟨_, ht⟩ | ⟨_, r', c, h1, h2, _, h4, _, _, ht⟩
      · rw [ht]
        exact Ev.nbrUpd len .ok r { r with immediate := true } hr hc rfl rfl hc
      · have hnd := (nd_of_inv hI').1
        rw [ht] at hnd ⊢
        exact Ev.nbrRead len r r' c hr hc h1 h2 h4 (fresh_of_nodup NetReq.cookie hnd)

theorem ev_nbrCancel (w : World) (rid : Nat) (hI : Inv w) (hnc : (stepR w (.nbrCancel rid)).1 ≠ .contract) :
    Ev (tables w) (.nbrCancel rid) (stepR w (.nbrCancel rid)).1 (call w (.nbrCancel rid)).2.1
      (tables (stepR w (.nbrCancel rid)).2) := by
  show Ev (tables w) (.nbrCancel rid) (stepR w (.nbrCancel rid)).1 none (tables (stepR w (.nbrCancel rid)).2)
  cases hf : w.readers.find? (·.id == rid) with
  | none =>
    have : netbufReadWaitCancel w rid = none := by simp only [netbufReadWaitCancel, hf]
    simp [stepR, this] at hnc
  | some r =>
    have ha := Run.find_key (fun x : Reader => x.id) hf
    obtain ⟨w', hcall, _, _, ht⟩ := netbufReadWaitCancel_spec w r hI.toInv0 ha.1 (hI.refs.rdRef r ha.1)
    obtain ⟨hr, rfl⟩ := ha
    simp only [stepR, hcall]
    rw [ht]
    exact Ev.nbrCancel r hr

theorem ev_nbrFree (w : World) (rid : Nat) (hI : Inv w) (hnc : (stepR w (.nbrFree rid)).1 ≠ .contract) :
    Ev (tables w) (.nbrFree rid) (stepR w (.nbrFree rid)).1 (call w (.nbrFree rid)).2.1
      (tables (stepR w (.nbrFree rid)).2) := by
  show Ev (tables w) (.nbrFree rid) (stepR w (.nbrFree rid)).1 none (tables (stepR w (.nbrFree rid)).2)
  cases hf : w.readers.find? (·.id == rid) with
  | none =>
    have : netbufReadFree w rid = none := by simp only [netbufReadFree, hf]
    simp [stepR, this] at hnc
  | some r =>
    obtain ⟨hr, rfl⟩ := Run.find_key (fun x : Reader => x.id) hf
    obtain ⟨hbusy, hidle⟩ := netbufReadFree_spec w r hI.toInv0 hr
    cases hc : r.readCookie with
    | some c =>
      have := hbusy (Or.inl (by simp [hc]))
      simp [stepR, this] at hnc
    | none =>
      cases him : r.immediate with
      | true =>
        have := hbusy (Or.inr him)
        simp [stepR, this] at hnc
      | false =>
        obtain ⟨w', hcall, _, _, _, _, ht⟩ := hidle hc him
        simp only [stepR, hcall]
        rw [ht]
        exact Ev.nbrFree r hr hc

theorem ev_nbwReserve (w : World) (wid len : Nat) (hI : Inv w) (hnc : (stepR w (.nbwReserve wid len)).1 ≠ .contract) :
    Ev (tables w) (.nbwReserve wid len) (stepR w (.nbwReserve wid len)).1 (call w (.nbwReserve wid len)).2.1
      (tables (stepR w (.nbwReserve wid len)).2) := by
  show Ev (tables w) (.nbwReserve wid len) (netbufWriteReserve w wid len).1 none (tables (netbufWriteReserve w wid len).2)
  change (netbufWriteReserve w wid len).1 ≠ .contract at hnc
  rcases Top.nbwReserve_lookup w wid len with he | ⟨x, hx, rfl⟩
  · rw [he] at hnc; exact absurd rfl hnc
  · obtain ⟨_, _, hciff, _, hfail, hok⟩ := netbufWriteReserve_spec w x len hI.toInv0 hx
    have hres : x.reserved = false := by
      cases hr : x.reserved with
      | false => rfl
      | true => exact absurd (hciff.2 hr) hnc
    cases hrc : (netbufWriteReserve w x.id len).1 with
    | contract => exact absurd hrc hnc
    | fail =>
      rw [(hfail hrc).1.tables]
      exact Ev.same _ _ rfl
    | ok =>
      obtain ⟨_, q, _, hq, ht⟩ := hok hrc
      rw [ht]
      exact Ev.nbwReserve len x q hx hres hq

theorem ev_nbwConsume (w : World) (wid len : Nat) (hI : Inv w) (hnc : (stepR w (.nbwConsume wid len)).1 ≠ .contract) :
    Ev (tables w) (.nbwConsume wid len) (stepR w (.nbwConsume wid len)).1 (call w (.nbwConsume wid len)).2.1
      (tables (stepR w (.nbwConsume wid len)).2) := by
  show Ev (tables w) (.nbwConsume wid len) (netbufWriteConsume w wid len).1 none (tables (netbufWriteConsume w wid len).2)
  change (netbufWriteConsume w wid len).1 ≠ .contract at hnc
  have hI' : Inv (netbufWriteConsume w wid len).2 := stepR_inv w (.nbwConsume wid len) hI
  rcases Top.nbwConsume_lookup w wid len with he | ⟨x, hx, rfl⟩
  · rw [he] at hnc; exact absurd rfl hnc
  · obtain ⟨_, _, _, _, hrest, _⟩ := netbufWriteConsume_spec w x len hI.toInv0 hx (hI.refs.wrRef x hx)
    obtain ⟨x', h1, h2, h3, _, hc⟩ := hrest hnc
    rcases hc with ⟨h5, ht, _⟩ | ⟨h5, hok, wb, c, h6, ht⟩
    · rw [ht]
      exact Ev.nbwUpd _ _ len x x' (Or.inl rfl) hx h1 h2 h3 h5
    · have hnd := (nd_of_inv hI').2.1
      rw [ht] at hnd ⊢
      rw [hok]
      exact Ev.nbwStart _ len x x' wb c (Or.inl rfl) hx h1 h2 h3 h5 h6 (fresh_of_nodup NetReq.cookie hnd)

theorem ev_nbwWrite (w : World) (wid len : Nat) (hI : Inv w) (hnc : (stepR w (.nbwWrite wid len)).1 ≠ .contract) :
    Ev (tables w) (.nbwWrite wid len) (stepR w (.nbwWrite wid len)).1 (call w (.nbwWrite wid len)).2.1
      (tables (stepR w (.nbwWrite wid len)).2) := by
  show Ev (tables w) (.nbwWrite wid len) (netbufWriteWrite w wid len).1 none (tables (netbufWriteWrite w wid len).2)
  change (netbufWriteWrite w wid len).1 ≠ .contract at hnc
  have hI' : Inv (netbufWriteWrite w wid len).2 := stepR_inv w (.nbwWrite wid len) hI
  rcases Top.nbwWrite_lookup w wid len with he | ⟨x, hx, rfl⟩
  · rw [he] at hnc; exact absurd rfl hnc
  · obtain ⟨_, _, hfl, _, _, hrest, _⟩ := netbufWriteWrite_spec w x len hI.toInv0 hx (hI.refs.wrRef x hx)
    cases hfailed : x.failed with
    | true =>
      rw [hfl hfailed]
      exact Ev.same _ _ rfl
    | false =>
      obtain ⟨x', h1, h2, h3, _, hc⟩ := hrest hfailed hnc
      rcases hc with ⟨h5, ht, _⟩ | ⟨h5, hok, wb, c, h6, ht⟩
      · rw [ht]
        exact Ev.nbwUpd _ _ len x x' (Or.inr rfl) hx h1 h2 h3 h5
      · have hnd := (nd_of_inv hI').2.1
        rw [ht] at hnd ⊢
        rw [hok]
        exact Ev.nbwStart _ len x x' wb c (Or.inr rfl) hx h1 h2 h3 h5 h6 (fresh_of_nodup NetReq.cookie hnd)

theorem ev_nbwFree (w : World) (wid : Nat) (hI : Inv w) (hnc : (stepR w (.nbwFree wid)).1 ≠ .contract) :
    Ev (tables w) (.nbwFree wid) (stepR w (.nbwFree wid)).1 (call w (.nbwFree wid)).2.1
      (tables (stepR w (.nbwFree wid)).2) := by
  show Ev (tables w) (.nbwFree wid) (stepR w (.nbwFree wid)).1 none (tables (stepR w (.nbwFree wid)).2)
  cases hf : w.writers.find? (·.id == wid) with
  | none =>
    have : netbufWriteFree w wid = none := by simp only [netbufWriteFree, hf]
    simp [stepR, this] at hnc
  | some x =>
    obtain ⟨hx, rfl⟩ := Run.find_key (fun x : Writer => x.id) hf
    obtain ⟨w', hcall, _, _, ht⟩ := netbufWriteFree_spec w x hI.toInv0 hx (hI.refs.wrRef x hx)
    simp only [stepR, hcall]
    rw [ht]
    exact Ev.nbwFree x hx

theorem ev_httpCancel (w : World) (hid : Nat) (hI : Inv w) (hnc : (stepR w (.httpCancel hid)).1 ≠ .contract) :
    Ev (tables w) (.httpCancel hid) (stepR w (.httpCancel hid)).1 (call w (.httpCancel hid)).2.1
      (tables (stepR w (.httpCancel hid)).2) := by
  show Ev (tables w) (.httpCancel hid) (stepR w (.httpCancel hid)).1 none (tables (stepR w (.httpCancel hid)).2)
  cases hf : w.https.find? (·.cookie == hid) with
  | none =>
    have : httpRequestCancel w hid = none := by simp only [httpRequestCancel, hf]
    simp [stepR, this] at hnc
  | some x =>
    obtain ⟨hx, rfl⟩ := Run.find_key (fun x : Http => x.cookie) hf
    obtain ⟨w', hcall, _, _, ht⟩ := httpRequestCancel_spec w x hI.toInv0 hx (hI.refs.htRef x hx)
    simp only [stepR, hcall]
    rw [ht]
    exact Ev.httpCancel x hx

/-- **what one call that was carried out does to the object tables** -/
theorem ev_stepR (w : World) (c0 : LOp) (hI : Inv w) (hnc : (stepR w c0).1 ≠ .contract) :
    Ev (tables w) c0 (stepR w c0).1 (call w c0).2.1 (tables (stepR w c0).2) := by
  cases c0 with
  | read fd => exact ev_read w fd hI
  | write fd => exact ev_write w fd hI
  | accept fd => exact ev_accept w fd hI
  | connect a t s => exact ev_connect w a t s hI
  | nbrInit fd => exact ev_nbrInit w fd hI
  | nbwInit fd => exact ev_nbwInit w fd hI
  | http a l s => exact ev_http w a l s hI
  | https a l s hl => exact ev_https w a l s hl hI
  | readCancel c => exact ev_readCancel w c hI hnc
  | writeCancel c => exact ev_writeCancel w c hI hnc
  | acceptCancel c => exact ev_acceptCancel w c hI hnc
  | connectCancel c => exact ev_connectCancel w c hI hnc
  | nbrWait r len => exact ev_nbrWait w r len hI hnc
  | nbrCancel r => exact ev_nbrCancel w r hI hnc
  | nbrFree r => exact ev_nbrFree w r hI hnc
  | nbwReserve x len => exact ev_nbwReserve w x len hI hnc
  | nbwConsume x len => exact ev_nbwConsume w x len hI hnc
  | nbwWrite x len => exact ev_nbwWrite w x len hI hnc
  | nbwFree x => exact ev_nbwFree w x hI hnc
  | httpCancel h => exact ev_httpCancel w h hI hnc

end Percival.Proofs.UpMonSound
