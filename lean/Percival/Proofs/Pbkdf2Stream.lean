import Percival.Model.Pbkdf2
import Percival.Spec.Pbkdf2
import Percival.Proofs.HmacStream
/-! `Model.Pbkdf2` (copied HMAC contexts, `INT(i+1)`, truncated last block) computes RFC 8018 §5.2
(helper lemmas for C01). -/
namespace Percival.Proofs.Pbkdf2Stream
open Percival.Spec Percival.Model Percival.Model.Hash Percival.Proofs.MDStream Percival.Proofs.HmacStream
open Percival.Model.Pbkdf2 (H inner outer xor32)

variable {p : MD.Params}

/-- `PRF(P, ·)` -/
abbrev prf (p : MD.Params) (P : Bytes) : Bytes → Bytes := Spec.Hmac.hmac (MD.hash p) P

theorem prf_len (ok : HashOK H p) (P m : Bytes) : (prf p P m).length = 32 := by
  unfold prf Spec.Hmac.hmac
  exact ok.hlen _

theorem xorIter_len (ok : HashOK H p) (P : Bytes) (n : Nat) (u t : Bytes) (ht : t.length = 32) :
    (Spec.Pbkdf2.xorIter (prf p P) n u t).length = 32 := by
  induction n generalizing u t with
  | zero => simpa [Spec.Pbkdf2.xorIter] using ht
  | succ n ih =>
    simp only [Spec.Pbkdf2.xorIter]
    apply ih
    simp [Spec.Pbkdf2.xorBytes, ht, prf_len ok]

/-- the inner loop `for (j = 2; j <= c; j++)` -/
theorem inner_eq (ok : HashOK H p) (Ph : Hmac.Ctx H) (P : Bytes) (hP : HInv ok Ph P [])
    (n : Nat) (U T : Bytes) (hT : T.length = 32) :
    inner Ph n U T = some (Spec.Pbkdf2.xorIter (prf p P) n U T) := by
  induction n generalizing U T with
  | zero => rfl
  | succ n ih =>
    simp only [inner, Spec.Pbkdf2.xorIter]
    have h1 := final_hinv ok _ P _ (update_hinv ok Ph P [] U hP)
    simp only [List.nil_append] at h1
    rw [h1]
    simp only [Option.bind_eq_bind, Option.bind_some, xor32, hT, prf_len ok, and_self, if_true]
    exact ih _ _ (by simp [hT, prf_len ok])

/-- `T_{i+1}` -/
abbrev Tblk (p : MD.Params) (P S : Bytes) (c i : Nat) : Bytes := Spec.Pbkdf2.F (prf p P) 32 S c (i + 1)

theorem Tblk_len (ok : HashOK H p) (P S : Bytes) (c i : Nat) : (Tblk p P S c i).length = 32 := by
  unfold Tblk Spec.Pbkdf2.F
  cases c with
  | zero => simp
  | succ c => exact xorIter_len ok P _ _ _ (prf_len ok _ _)

/-- `T_1 ‖ … ‖ T_i` -/
abbrev G (p : MD.Params) (P S : Bytes) (c i : Nat) : Bytes := Spec.Pbkdf2.blocks (prf p P) 32 S c i

theorem G_succ (P S : Bytes) (c i : Nat) : G p P S c (i + 1) = G p P S c i ++ Tblk p P S c i := by
  simp [G, Spec.Pbkdf2.blocks, List.range_succ, List.flatMap_append]

theorem G_len (ok : HashOK H p) (P S : Bytes) (c i : Nat) : (G p P S c i).length = 32 * i := by
  induction i with
  | zero => simp [G, Spec.Pbkdf2.blocks]
  | succ i ih => rw [G_succ, List.length_append, ih, Tblk_len ok]; omega

/-- the outer loop from block `i` on -/
theorem outer_eq (ok : HashOK H p) (Ph PSh : Hmac.Ctx H) (P S : Bytes) (c dkLen : Nat) (hc : 1 ≤ c)
    (hP : HInv ok Ph P []) (hPS : HInv ok PSh P S)
    (k i : Nat) (buf : Bytes) (hk : dkLen - i * 32 = k) (hi : i ≤ (dkLen + 31) / 32)
    (hlen : buf.length = dkLen) (hpre : buf.take (32 * i) = (G p P S c i).take dkLen) :
    outer Ph PSh c dkLen i buf = some ((G p P S c ((dkLen + 31) / 32)).take dkLen) := by
  induction k using Nat.strongRecOn generalizing i buf with
  | _ k ih =>
    rw [outer]
    by_cases hlt : i * 32 < dkLen
    · simp only [hlt, if_true]
      -- U_1
      have h1 := final_hinv ok _ P _ (update_hinv ok PSh P S (be32enc (UInt32.ofNat (i + 1))) hPS)
      rw [h1]
      simp only [Option.bind_eq_bind, Option.bind_some]
      rw [inner_eq ok Ph P hP _ _ _ (prf_len ok _ _)]
      simp only [Option.bind_some]
      -- the model's T is the spec's T_{i+1}
      have hT : Spec.Pbkdf2.xorIter (prf p P) (c - 1) (prf p P (S ++ be32enc (UInt32.ofNat (i + 1))))
          (prf p P (S ++ be32enc (UInt32.ofNat (i + 1)))) = Tblk p P S c i := by
        obtain ⟨c', rfl⟩ : ∃ c', c = c' + 1 := ⟨c - 1, by omega⟩
        rfl
      rw [hT]
      have hTl := Tblk_len ok P S c i
      have hGl := G_len ok P S c i
      generalize hclen : (if dkLen - i * 32 > 32 then 32 else dkLen - i * 32) = clen
      have hclen' : clen = min 32 (dkLen - i * 32) := by rw [← hclen]; split <;> omega
      apply ih (dkLen - (i + 1) * 32) (by omega) (i + 1) _ rfl (by omega)
      · rw [memcpy_length]; exact hlen
        simp [List.length_take, hTl]; omega
      · rw [G_succ]
        have hGi : (G p P S c i).take dkLen = G p P S c i := List.take_of_length_le (by omega)
        rw [hGi] at hpre
        have hpre' : buf.take (i * 32) = G p P S c i := by rw [Nat.mul_comm]; exact hpre
        -- both sides are `G i ++ T.take clen`
        have hR : (G p P S c i ++ Tblk p P S c i).take dkLen = G p P S c i ++ (Tblk p P S c i).take clen := by
          rw [List.take_append, hGi, hGl]
          congr 1
          by_cases hb : dkLen - i * 32 > 32
          · rw [List.take_of_length_le (by omega), List.take_of_length_le (by omega)]
          · congr 1; omega
        have hXl : ((Tblk p P S c i).take clen).length = clen := by simp [List.length_take, hTl]; omega
        rw [hR]
        unfold memcpy
        rw [hpre', hXl]
        have hL : (G p P S c i ++ (Tblk p P S c i).take clen).length = 32 * i + clen := by
          simp [hGl, hXl]
        by_cases hb : dkLen - i * 32 ≥ 32
        · have : 32 * (i + 1) = (G p P S c i ++ (Tblk p P S c i).take clen).length := by rw [hL]; omega
          rw [this, List.take_left']; rfl
        · rw [List.drop_of_length_le (by omega), List.append_nil]
          exact List.take_of_length_le (by rw [hL]; omega)
    · simp only [hlt, if_false]
      have : i = (dkLen + 31) / 32 := by omega
      subst this
      rw [← hpre, List.take_of_length_le (by omega)]

/-- `PBKDF2_SHA256` is RFC 8018 PBKDF2 with PRF = HMAC over the hash `p` -/
theorem pbkdf2_stream_eq_spec (ok : HashOK H p) (P S : Bytes) (c dkLen : Nat) (hc : 1 ≤ c) :
    Model.Pbkdf2.pbkdf2 P S c dkLen = some (Spec.Pbkdf2.pbkdf2 (Spec.Hmac.hmac (MD.hash p)) 32 P S c dkLen) := by
  unfold Model.Pbkdf2.pbkdf2 Spec.Pbkdf2.pbkdf2
  obtain ⟨Ph, hinit, hP⟩ := init_hinv ok P
  rw [hinit]
  simp only [Option.bind_eq_bind, Option.bind_some]
  have hPS := update_hinv ok Ph P [] S hP
  simp only [List.nil_append] at hPS
  exact outer_eq ok Ph _ P S c dkLen hc hP hPS _ 0 _ rfl (by omega) (by simp) (by simp [G, Spec.Pbkdf2.blocks])

end Percival.Proofs.Pbkdf2Stream
