import Percival.Proofs.Numeral
import Percival.Model.Parsenum
/-! Helper lemmas for C16: `parsenum_signed` / `parsenum_unsigned` / the macros, in terms of the scan. -/
namespace Percival.Proofs.Parsenum
open Percival.Spec.Numeral Percival.Spec.Parsenum Percival.Model.Strto Percival.Model.Parsenum
open Percival.Proofs.Numeral

theorem strtoimax_none {base : Nat} {s : List UInt8} (hs : scan base s = none) :
    strtoimax s base = { val := 0, endOff := 0, errno := .ok } := by
  simp [strtoimax, hs]

theorem strtoimax_some {base : Nat} {s : List UInt8} {r : Scan} (hs : scan base s = some r) :
    (strtoimax s base).endOff = r.endOff ∧
    ((IMIN ≤ scanValue r ∧ scanValue r ≤ IMAX ∧ (strtoimax s base).val = scanValue r ∧ (strtoimax s base).errno = .ok) ∨
     (scanValue r < IMIN ∧ (strtoimax s base).val = IMIN ∧ (strtoimax s base).errno = .erange) ∨
     (scanValue r > IMAX ∧ (strtoimax s base).val = IMAX ∧ (strtoimax s base).errno = .erange)) := by
  simp only [strtoimax, hs, scanValue, IMIN, IMAX]
  cases r.neg <;> simp <;> split <;> simp <;> omega

/-- `parsenum_signed` in terms of the scan (bounds are `intmax_t` values) -/
theorem parsenumSigned_spec (s : List UInt8) (mn mx : Int) (base : Nat) (tr : Bool)
    (hmn : IMIN ≤ mn) (hmx : mx ≤ IMAX) :
    match scan base s with
    | none => (parsenumSigned s mn mx base tr).2 = .einval
    | some r =>
      if tr = false ∧ r.endOff ≠ s.length then (parsenumSigned s mn mx base tr).2 = .einval
      else if mn ≤ scanValue r ∧ scanValue r ≤ mx then parsenumSigned s mn mx base tr = (scanValue r, .ok)
      else (parsenumSigned s mn mx base tr).2 = .erange := by
  cases hs : scan base s with
  | none => simp [parsenumSigned, strtoimax_none hs, malformed]
  | some r =>
    have hpos := scan_endOff_pos hs
    obtain ⟨he, hv⟩ := strtoimax_some hs
    simp only [parsenumSigned, malformed, he]
    generalize (strtoimax s base).val = val at hv
    generalize (strtoimax s base).errno = en at hv
    have h0 : ¬ (r.endOff = 0) := by omega
    by_cases hm : tr = false ∧ r.endOff ≠ s.length
    · simp [hm, h0]
    · simp only [hm, if_false]
      have : (decide (r.endOff = 0) || !tr && decide (r.endOff ≠ s.length)) = false := by
        cases tr <;> simp_all
      simp only [this, Bool.false_eq_true, if_false]
      simp only [IMIN, IMAX] at *
      by_cases hr : mn ≤ scanValue r ∧ scanValue r ≤ mx
      · simp only [hr, and_self, if_true]
        rcases hv with ⟨_, _, rfl, rfl⟩ | ⟨_, rfl, rfl⟩ | ⟨_, rfl, rfl⟩
        · have : ¬ (scanValue r < mn ∨ scanValue r > mx) := by omega
          simp [this]
        · omega
        · omega
      · simp only [hr, if_false]
        rcases hv with ⟨_, _, rfl, rfl⟩ | ⟨_, rfl, rfl⟩ | ⟨_, rfl, rfl⟩
        · have : (scanValue r < mn ∨ scanValue r > mx) := by omega
          simp [this]
        · split <;> simp
        · split <;> simp

theorem strtoumax_none {base : Nat} {s : List UInt8} (hs : scan base s = none) :
    strtoumax s base = { val := 0, endOff := 0, errno := .ok } := by
  simp [strtoumax, hs]

theorem strtoumax_some {base : Nat} {s : List UInt8} {r : Scan} (hs : scan base s = some r) :
    (strtoumax s base).endOff = r.endOff ∧
    ((r.mag ≤ UMAX ∧ (strtoumax s base).errno = .ok ∧
        (strtoumax s base).val = (if r.neg then (2 ^ 64 - r.mag) % 2 ^ 64 else r.mag)) ∨
     (r.mag > UMAX ∧ (strtoumax s base).val = UMAX ∧ (strtoumax s base).errno = .erange)) := by
  simp only [strtoumax, hs]
  by_cases h : r.mag > UMAX
  · simp [h]
  · simp only [h, if_false]
    cases r.neg <;> simp <;> omega

/-- `parsenum_unsigned` in terms of the scan -/
theorem parsenumUnsigned_spec (s : List UInt8) (mn mx tmax : Nat) (base : Nat) (tr : Bool)
    (htm : tmax ≤ UMAX) :
    match scan base s with
    | none => (parsenumUnsigned s mn mx tmax base tr).2 = .einval
    | some r =>
      if tr = false ∧ r.endOff ≠ s.length then (parsenumUnsigned s mn mx tmax base tr).2 = .einval
      else if 0 ≤ scanValue r ∧ (mn : Int) ≤ scanValue r ∧ scanValue r ≤ mx ∧ scanValue r ≤ tmax then
        parsenumUnsigned s mn mx tmax base tr = ((scanValue r).toNat, .ok)
      else (parsenumUnsigned s mn mx tmax base tr).2 = .erange := by
  cases hs : scan base s with
  | none => simp [parsenumUnsigned, strtoumax_none hs, malformed]
  | some r =>
    have hpos := scan_endOff_pos hs
    have hminus : minusAfterSpace s = r.neg := minus_of_scan hs
    obtain ⟨neg, mag, eo⟩ := r
    simp only at hpos hminus
    obtain ⟨he, hv⟩ := strtoumax_some hs
    simp only at he hv
    simp only [parsenumUnsigned, malformed, he, hminus]
    generalize (strtoumax s base).val = val at hv
    generalize (strtoumax s base).errno = en at hv
    have h0 : ¬ (eo = 0) := by omega
    by_cases hm : tr = false ∧ eo ≠ s.length
    · simp [hm, h0]
    · simp only [hm, if_false]
      have : (decide (eo = 0) || !tr && decide (eo ≠ s.length)) = false := by
        cases tr <;> simp_all
      simp only [this, Bool.false_eq_true, if_false]
      simp only [UMAX, scanValue] at *
      rcases hv with ⟨hmag, rfl, rfl⟩ | ⟨hmag, rfl, rfl⟩
      · cases neg
        · simp only [Bool.false_eq_true, if_false, and_false]
          by_cases hr : (mn : Int) ≤ mag ∧ (mag : Int) ≤ mx ∧ (mag : Int) ≤ tmax
          · have h1 : ¬ (mag < mn ∨ mag > mx ∨ mag > tmax) := by omega
            have h2 : (0 : Int) ≤ mag := by omega
            simp [h1, hr, h2]
          · have h1 : (mag < mn ∨ mag > mx ∨ mag > tmax) := by omega
            simp [h1]; omega
        · simp only [if_true, and_true]
          by_cases hz : mag = 0
          · simp only [hz]
            by_cases hr : mn = 0
            · subst hr; simp
            · have : 0 < mn := by omega
              simp [this]; omega
          · have hneg : ¬ ((0 : Int) ≤ -(mag : Int)) := by omega
            simp only [hneg, false_and, if_false]
            have : (2 ^ 64 - mag) % 2 ^ 64 ≠ 0 := by omega
            split <;> simp_all
      · have hneg : ¬ ((0 : Int) ≤ (if neg = true then -(mag : Int) else (mag : Int)) ∧
            (mn : Int) ≤ (if neg = true then -(mag : Int) else (mag : Int)) ∧
            (if neg = true then -(mag : Int) else (mag : Int)) ≤ mx ∧
            (if neg = true then -(mag : Int) else (mag : Int)) ≤ tmax) := by
          split <;> omega
        simp only [hneg, if_false]
        split
        · rfl
        · split <;> rfl

/-! ### the macros -/

instance (t : IntTy) (min max : CVal) (v : Int) : Decidable (InRange t min max v) := by
  unfold InRange InType; exact inferInstance

instance (t : IntTy) (v : Int) : Decidable (InType t v) := by
  unfold InType; exact inferInstance

/-- the specification as a function of the scan; `P` = "the value is acceptable" -/
def expected (P : Int → Prop) [DecidablePred P] (base : Nat) (tr : Bool) (s : List UInt8) : Answer :=
  match scan base s with
  | none => .einval
  | some r =>
    if tr = false ∧ r.endOff ≠ s.length then .einval
    else if P (scanValue r) then .ok (scanValue r) else .erange

theorem probeFloat_false (t : IntTy) : probeFloat t = false := by cases t <;> decide
theorem probeUnsigned_eq (t : IntTy) : probeUnsigned t = !t.signed := by cases t <;> decide

theorem store_neg_one (t : IntTy) : store t (-1) = if t.signed then -1 else t.hi := by
  cases t <;> decide

theorem store_of_inType {t : IntTy} {v : Int} (h : InType t v) : store t v = v := by
  cases t <;> simp [InType, IntTy.lo, IntTy.hi, IntTy.signed, IntTy.bits] at h <;>
    simp [store, IntTy.signed, IntTy.bits] <;> omega

theorem inType_intmax {t : IntTy} {v : Int} (h : InType t v) : IMIN ≤ v ∧ v ≤ UMAX := by
  cases t <;> simp [InType, IntTy.lo, IntTy.hi, IntTy.signed, IntTy.bits] at h <;>
    simp [IMIN, UMAX] <;> omega

theorem inType_signed {t : IntTy} {v : Int} (ht : t.signed = true) (h : InType t v) : IMIN ≤ v ∧ v ≤ IMAX := by
  cases t <;> simp [IntTy.signed] at ht <;> simp [InType, IntTy.lo, IntTy.hi, IntTy.signed, IntTy.bits] at h <;>
    simp [IMIN, IMAX] <;> omega

theorem toImax_of_le {c : CVal} (h1 : IMIN ≤ c.toInt) (h2 : c.toInt ≤ IMAX) : c.toImax = c.toInt := by
  cases c with
  | s v => rfl
  | u v => simp [CVal.toImax, CVal.toInt, IMIN, IMAX] at *; omega

theorem ex6_signed (t : IntTy) (s : List UInt8) (min max : CVal) (base : Nat) (tr : Bool)
    (ht : t.signed = true) (hok : BoundsOk t min max) :
    (parsenumEx6 t s min max base tr).answer = expected (InRange t min max) base tr s := by
  obtain ⟨_, _, hb⟩ := hok
  obtain ⟨hmin, hmax⟩ := hb ht
  obtain ⟨a1, a2⟩ := inType_signed ht hmin
  obtain ⟨b1, b2⟩ := inType_signed ht hmax
  have e1 := toImax_of_le a1 a2
  have e2 := toImax_of_le b1 b2
  have hx : store t (-1) ≤ 0 := by rw [store_neg_one, ht]; simp
  simp only [parsenumEx6, probeFloat_false, probeUnsigned_eq, ht, hx, e1, e2, Bool.not_true,
    Bool.false_eq_true, if_false, if_true, not_false_eq_true]
  have hspec := parsenumSigned_spec s min.toInt max.toInt base tr a1 b2
  unfold expected
  cases hs : scan base s with
  | none =>
    simp only [hs] at hspec ⊢
    rcases hp : parsenumSigned s min.toInt max.toInt base tr with ⟨v, e⟩
    simp only [hp] at hspec; subst hspec; rfl
  | some r =>
    simp only [hs] at hspec ⊢
    rcases hp : parsenumSigned s min.toInt max.toInt base tr with ⟨v, e⟩
    simp only [hp] at hspec
    by_cases hm : tr = false ∧ r.endOff ≠ s.length
    · rw [if_pos hm] at hspec ⊢; subst hspec; rfl
    · rw [if_neg hm] at hspec ⊢
      by_cases hr : min.toInt ≤ scanValue r ∧ scanValue r ≤ max.toInt
      · rw [if_pos hr] at hspec
        injection hspec with h1 h2; subst h1 h2
        have hin : InType t (scanValue r) := by
          unfold InType at *; omega
        have : InRange t min max (scanValue r) := ⟨hr.1, hr.2, hin⟩
        rw [if_pos this, store_of_inType hin]; rfl
      · rw [if_neg hr] at hspec; subst hspec
        have : ¬ InRange t min max (scanValue r) := fun h => hr ⟨h.1, h.2.1⟩
        rw [if_neg this]; rfl


theorem umin_spec {c : CVal} (hv : c.Valid) (sv : Int) (h0 : 0 ≤ sv) :
    (((if c.le0 then 0 else c.toUmax : Nat) : Int) ≤ sv ↔ c.toInt ≤ sv) := by
  cases c with
  | s v =>
    simp only [CVal.Valid, IMIN, IMAX] at hv
    simp only [CVal.le0, CVal.toUmax, CVal.toInt, decide_eq_true_eq]
    split
    · simp; omega
    · have : ((v % 2 ^ 64).toNat : Int) = v := by omega
      rw [this]
  | u v =>
    simp only [CVal.le0, CVal.toUmax, CVal.toInt, decide_eq_true_eq]
    split
    · simp; omega
    · rfl

theorem umax_spec {c : CVal} (hv : c.Valid) (h0 : 0 ≤ c.toInt) : (c.toUmax : Int) = c.toInt := by
  cases c with
  | s v =>
    simp only [CVal.Valid, IMIN, IMAX] at hv
    simp only [CVal.toUmax, CVal.toInt] at *
    omega
  | u v => rfl

theorem negmax_spec {c : CVal} (hv : c.Valid) : (c.leImax = true ∧ c.toImax < 0) ↔ c.toInt < 0 := by
  cases c with
  | s v => simp [CVal.leImax, CVal.toImax, CVal.toInt]
  | u v =>
    simp only [CVal.Valid, UMAX] at hv
    simp [CVal.leImax, CVal.toImax, CVal.toInt, IMAX]
    constructor
    · rintro ⟨h1, h2⟩; have := of_decide_eq_true h1; omega
    · intro h; omega

theorem unsigned_facts {t : IntTy} (ht : t.signed = false) :
    ((store t (-1)).toNat : Int) = t.hi ∧ t.lo = 0 ∧ (store t (-1)).toNat ≤ UMAX := by
  cases t <;> simp [IntTy.signed] at ht <;> decide

theorem ex6_unsigned (t : IntTy) (s : List UInt8) (min max : CVal) (base : Nat) (tr : Bool)
    (ht : t.signed = false) (hok : BoundsOk t min max) :
    (parsenumEx6 t s min max base tr).answer = expected (InRange t min max) base tr s := by
  obtain ⟨hvmin, hvmax, _⟩ := hok
  obtain ⟨htm, hlo, htmle⟩ := unsigned_facts ht
  simp only [parsenumEx6, probeFloat_false, probeUnsigned_eq, ht, Bool.not_false,
    Bool.false_eq_true, if_false, not_true_eq_false]
  generalize hmn : (if min.le0 = true then 0 else min.toUmax) = mn
  have hmnspec := fun sv h0 => umin_spec hvmin sv h0
  simp only [hmn] at hmnspec
  have hspec := parsenumUnsigned_spec s mn max.toUmax (store t (-1)).toNat base tr htmle
  unfold expected
  rcases hp : parsenumUnsigned s mn max.toUmax (store t (-1)).toNat base tr with ⟨v, e⟩
  simp only [hp] at hspec
  cases hs : scan base s with
  | none =>
    simp only [hs] at hspec ⊢
    subst hspec; simp [Outcome.answer]
  | some r =>
    simp only [hs] at hspec ⊢
    by_cases hm : tr = false ∧ r.endOff ≠ s.length
    · rw [if_pos hm] at hspec ⊢; subst hspec; simp [Outcome.answer]
    · rw [if_neg hm] at hspec ⊢
      by_cases hneg : max.toInt < 0
      · have hnr : ¬ InRange t min max (scanValue r) := by
          intro h; unfold InRange InType at h; omega
        have hpost : max.leImax = true ∧ max.toImax < 0 := (negmax_spec hvmax).mpr hneg
        rw [if_neg hnr]
        split at hspec
        · injection hspec with h1 h2; subst h2
          simp [hpost, Outcome.answer]
        · subst hspec; simp [Outcome.answer]
      · have hpost : ¬ (max.leImax = true ∧ max.toImax < 0) := fun h => hneg ((negmax_spec hvmax).mp h)
        have hmx := umax_spec hvmax (by omega)
        have hpost' : ¬ (max.leImax = true ∧ max.toImax < 0 ∧ e = Errno.ok) := fun h => hpost ⟨h.1, h.2.1⟩
        rw [if_neg hpost']
        by_cases hr : InRange t min max (scanValue r)
        · rw [if_pos hr]
          have hr' := hr
          unfold InRange InType at hr'
          have h0 : 0 ≤ scanValue r := by omega
          have : 0 ≤ scanValue r ∧ (mn : Int) ≤ scanValue r ∧ scanValue r ≤ max.toUmax ∧
              scanValue r ≤ (store t (-1)).toNat := by
            refine ⟨h0, (hmnspec _ h0).mpr hr'.1, ?_, ?_⟩ <;> omega
          rw [if_pos this] at hspec
          injection hspec with h1 h2; subst h1 h2
          have : ((scanValue r).toNat : Int) = scanValue r := by omega
          rw [this, store_of_inType hr.2.2]; rfl
        · rw [if_neg hr]
          have : ¬ (0 ≤ scanValue r ∧ (mn : Int) ≤ scanValue r ∧ scanValue r ≤ max.toUmax ∧
              scanValue r ≤ (store t (-1)).toNat) := by
            intro ⟨h0, h1, h2, h3⟩
            apply hr
            unfold InRange InType
            refine ⟨(hmnspec _ h0).mp h1, ?_, ?_, ?_⟩ <;> omega
          rw [if_neg this] at hspec
          subst hspec; rfl


theorem ex6_master (t : IntTy) (s : List UInt8) (min max : CVal) (base : Nat) (tr : Bool)
    (hok : BoundsOk t min max) :
    (parsenumEx6 t s min max base tr).answer = expected (InRange t min max) base tr s := by
  cases ht : t.signed
  · exact ex6_unsigned t s min max base tr ht hok
  · exact ex6_signed t s min max base tr ht hok

theorem ex4_master (t : IntTy) (s : List UInt8) (base : Nat) (tr : Bool) (ht : t.signed = false) :
    (parsenumEx4 t s base tr).answer = expected (InType t) base tr s := by
  obtain ⟨htm, hlo, htmle⟩ := unsigned_facts ht
  simp only [parsenumEx4, probeFloat_false, probeUnsigned_eq, ht, Bool.not_false,
    Bool.false_eq_true, if_false, if_true]
  have hspec := parsenumUnsigned_spec s 0 (store t (-1)).toNat (store t (-1)).toNat base tr htmle
  unfold expected
  rcases hp : parsenumUnsigned s 0 (store t (-1)).toNat (store t (-1)).toNat base tr with ⟨v, e⟩
  simp only [hp] at hspec
  cases hs : scan base s with
  | none => simp only [hs] at hspec ⊢; subst hspec; simp [Outcome.answer]
  | some r =>
    simp only [hs] at hspec ⊢
    by_cases hm : tr = false ∧ r.endOff ≠ s.length
    · rw [if_pos hm] at hspec ⊢; subst hspec; simp [Outcome.answer]
    · rw [if_neg hm] at hspec ⊢
      by_cases hr : InType t (scanValue r)
      · rw [if_pos hr]
        have hr' := hr
        unfold InType at hr'
        have : 0 ≤ scanValue r ∧ ((0 : Nat) : Int) ≤ scanValue r ∧ scanValue r ≤ (store t (-1)).toNat ∧
            scanValue r ≤ (store t (-1)).toNat := by omega
        rw [if_pos this] at hspec
        injection hspec with h1 h2; subst h1 h2
        have : ((scanValue r).toNat : Int) = scanValue r := by omega
        rw [this, store_of_inType hr]; rfl
      · rw [if_neg hr]
        have : ¬ (0 ≤ scanValue r ∧ ((0 : Nat) : Int) ≤ scanValue r ∧ scanValue r ≤ (store t (-1)).toNat ∧
            scanValue r ≤ (store t (-1)).toNat) := by
          intro ⟨h0, _, h2, _⟩; apply hr; unfold InType; omega
        rw [if_neg this] at hspec
        subst hspec; rfl

theorem ex4_signed_abort (t : IntTy) (s : List UInt8) (base : Nat) (tr : Bool) (ht : t.signed = true) :
    parsenumEx4 t s base tr = .abort := by
  simp [parsenumEx4, probeFloat_false, probeUnsigned_eq, ht]

section expected
variable (P : Int → Prop) [DecidablePred P] (base : Nat) (tr : Bool) (s : List UInt8)

theorem not_malformed_iff (r : Scan) : ¬ (tr = false ∧ r.endOff ≠ s.length) ↔ (tr = true ∨ r.endOff = s.length) := by
  cases tr <;> simp

theorem expected_ok_iff (v : Int) :
    expected P base tr s = .ok v ↔ Accepts base tr s v ∧ P v := by
  rw [accepts_iff_scan]
  unfold expected
  cases hs : scan base s with
  | none => simp
  | some r =>
    simp only [Option.some.injEq, exists_eq_left']
    by_cases hm : tr = false ∧ r.endOff ≠ s.length
    · rw [if_pos hm]
      have : ¬ (tr = true ∨ r.endOff = s.length) := fun h => ((not_malformed_iff tr s r).mpr h) hm
      simp [this]
    · rw [if_neg hm]
      have hm' := (not_malformed_iff tr s r).mp hm
      by_cases hp : P (scanValue r)
      · rw [if_pos hp]
        constructor
        · intro h; injection h with h; subst h; exact ⟨⟨hm', rfl⟩, hp⟩
        · rintro ⟨⟨_, rfl⟩, _⟩; rfl
      · rw [if_neg hp]
        constructor
        · intro h; cases h
        · rintro ⟨⟨_, rfl⟩, h⟩; exact absurd h hp

theorem expected_einval_iff :
    expected P base tr s = .einval ↔ ¬ ∃ v, Accepts base tr s v := by
  simp only [accepts_iff_scan]
  unfold expected
  cases hs : scan base s with
  | none => simp
  | some r =>
    simp only [Option.some.injEq, exists_eq_left']
    by_cases hm : tr = false ∧ r.endOff ≠ s.length
    · rw [if_pos hm]
      have : ¬ (tr = true ∨ r.endOff = s.length) := fun h => ((not_malformed_iff tr s r).mpr h) hm
      simp [this]
    · rw [if_neg hm]
      have hm' := (not_malformed_iff tr s r).mp hm
      constructor
      · intro h; split at h <;> cases h
      · intro h; exact absurd ⟨scanValue r, hm', rfl⟩ h

theorem expected_erange_iff :
    expected P base tr s = .erange ↔ ∃ v, Accepts base tr s v ∧ ¬ P v := by
  simp only [accepts_iff_scan]
  unfold expected
  cases hs : scan base s with
  | none => simp
  | some r =>
    simp only [Option.some.injEq, exists_eq_left']
    by_cases hm : tr = false ∧ r.endOff ≠ s.length
    · rw [if_pos hm]
      have : ¬ (tr = true ∨ r.endOff = s.length) := fun h => ((not_malformed_iff tr s r).mpr h) hm
      simp [this]
    · rw [if_neg hm]
      have hm' := (not_malformed_iff tr s r).mp hm
      by_cases hp : P (scanValue r)
      · rw [if_pos hp]
        constructor
        · intro h; cases h
        · rintro ⟨v, ⟨_, rfl⟩, h⟩; exact absurd hp h
      · rw [if_neg hp]
        constructor
        · intro _; exact ⟨scanValue r, ⟨hm', rfl⟩, hp⟩
        · intro _; rfl

theorem expected_ne_abort : expected P base tr s ≠ .abort := by
  unfold expected
  split
  · simp
  · split
    · simp
    · split <;> simp

end expected

theorem accepts_unique {base : Nat} {tr : Bool} {s : List UInt8} {v w : Int}
    (h1 : Accepts base tr s v) (h2 : Accepts base tr s w) : v = w := by
  rw [accepts_iff_scan] at h1 h2
  obtain ⟨r, hr, _, rfl⟩ := h1
  obtain ⟨r', hr', _, rfl⟩ := h2
  rw [hr] at hr'; injection hr' with h; rw [h]


end Percival.Proofs.Parsenum
