import Percival.Model.AesStep
import Percival.Proofs.Aes
import Percival.Proofs.AesCtr
import Percival.Proofs.AesNi
/-! Helper lemmas for the `exec_*` theorems of C02: the function `pmodel aes` runs (`Model.AesStep.stepOp`)
keeps "the Spec-side bookkeeping describes the model's stream object" and therefore never reports `model!=spec`. -/
namespace Percival.Proofs.AesStep
open Percival.Spec Percival.Model Percival.Model.AesCtr Percival.Model.AesStep Percival.Proofs.AesCtr

/-- the block cipher under well-formed round keys maps 16-byte blocks to 16-byte blocks -/
theorem enc_length (k : Key) (b : List UInt8) (hb : b.length = 16) : (enc k b).length = 16 :=
  Proofs.Aes.cipher_length k.1 b k.2.1 k.2.2 hb

/-- `expandKey` is FIPS-197 KeyExpansion for every 128/256-bit key: the shape test in it never fails -/
theorem expandKey_eq (k : List UInt8) (h : k.length = 16 ∨ k.length = 32) :
    ∃ hwf, expandKey k = some ⟨Aes.keyExpansion k, hwf⟩ := by
  have hs := Proofs.Aes.keyExpansion_spec k h
  have hwf : WfKeys (Aes.keyExpansion k) := ⟨by rw [hs.1]; omega, hs.2⟩
  exact ⟨hwf, by unfold expandKey; rw [if_pos h, dif_pos hwf]⟩

theorem expandKey_none (k : List UInt8) (h : ¬ (k.length = 16 ∨ k.length = 32)) : expandKey k = none := by
  unfold expandKey; rw [if_neg h]

/-- **The reachable-state invariant**: the Spec-side bookkeeping (`skey`, `nonce`, `pos`) describes the model's
    stream object — the representation invariant of `struct crypto_aesctr` for that key and nonce holds and
    `bytectr` is the Spec-side byte position. -/
structure LiveOk (l : Live) : Prop where
  inv : Inv enc l.skey l.nonce l.s
  pos : l.s.bytectr.toNat = l.pos

/-- the invariant of `St` -/
def ExecInv (st : St) : Prop := ∀ l, st.live = some l → LiveOk l

theorem raw_len : raw.pblk.length = 16 := rfl

/-- one stream call on a described stream: the model returns the Spec's bytes (`same = true`) and stays described -/
theorem doStream_spec (hw : Bool) (l : Live) (data : List UInt8) (h : LiveOk l)
    (hlim : l.pos + data.length < 2^64) :
    ∃ l', doStream hw l data = some (l', Ctr.streamAt (enc l.skey) l.nonce l.pos data, true) ∧ LiveOk l' ∧
      l'.skey = l.skey ∧ l'.nonce = l.nonce ∧ l'.pos = l.pos + data.length := by
  obtain ⟨s', hcall, hinv, hctr⟩ :=
    stream_call_spec enc enc_length l.skey l.nonce hw l.s data h.inv (by rw [h.pos]; exact hlim)
  unfold doStream
  rw [hcall, h.pos]
  simp only [beq_self_eq_true]
  exact ⟨_, rfl, ⟨hinv, by rw [hctr, h.pos]⟩, rfl, rfl, rfl⟩

theorem ofNat_toNat (n : Nat) (h : n < 2^64) : (UInt64.ofNat n).toNat = n := by
  simp [UInt64.toNat_ofNat']; omega

/-- the white-box jump establishes the invariant at byte position `16·(n+1)` -/
theorem seekState_spec (key : Key) (nonce : UInt64) (s : Stream Key) (n : Nat) (h : Inv enc key nonce s)
    (hlim : 16 * (n + 1) < 2^64) :
    ∃ s', seekState s n = some s' ∧ s'.pblk = Ctr.counterBlock nonce n ∧ s'.key = s.key ∧ s'.buf = s.buf ∧
      s'.bytectr.toNat = 16 * (n + 1) ∧ Inv enc key nonce s' := by
  obtain ⟨hkey, hlen, hnonce, _, _⟩ := h
  have hw : writeAt s.pblk 8 (be64enc (UInt64.ofNat n)) = some (Ctr.counterBlock nonce n) := by
    unfold writeAt
    rw [be64enc_eq, ofNat_toNat n (by omega), be64_length, if_pos (by omega), hnonce,
      List.drop_of_length_le (by omega)]
    simp [Ctr.counterBlock]
  have hb : (UInt64.ofNat (16 * (n + 1))).toNat = 16 * (n + 1) := ofNat_toNat _ hlim
  unfold seekState
  rw [hw]
  refine ⟨_, rfl, rfl, rfl, rfl, hb, ⟨hkey, by simp [Ctr.counterBlock, be64_length], ?_, ?_, ?_⟩⟩
  · exact List.take_left' (be64_length _)
  · simp only [hb]
    rw [if_neg (by omega)]
    show List.drop 8 (Ctr.be64 nonce.toNat ++ Ctr.be64 n) = _
    rw [List.drop_left' (be64_length _)]
    congr 1; omega
  · simp only [hb]; intro hne; omega

/-- at a block boundary `buf` is dead: any contents keep the invariant -/
theorem inv_setBuf (key : Key) (nonce : UInt64) (s : Stream Key) (b : List UInt8) (h : Inv enc key nonce s)
    (hz : s.bytectr.toNat % 16 = 0) : Inv enc key nonce { s with buf := b } :=
  ⟨h.keyOk, h.len, h.nonceOk, h.ctr, fun hne => absurd hz hne⟩

/-- a described stream at byte position `16·(n+1)` has `pblk = nonce_be64 ‖ n_be64` -/
theorem pblk_at_boundary (key : Key) (nonce : UInt64) (s : Stream Key) (n : Nat) (h : Inv enc key nonce s)
    (hp : s.bytectr.toNat = 16 * (n + 1)) : s.pblk = Ctr.counterBlock nonce n := by
  have hc := h.ctr
  rw [if_neg (by omega), hp] at hc
  have : (16 * (n + 1) - 1) / 16 = n := by omega
  rw [this] at hc
  rw [← List.take_append_drop 8 s.pblk, h.nonceOk, hc]; rfl

/-- the white-box jump writes down exactly the state a described stream has at byte position `16·(n+1)`,
    except for `buf` (dead at a block boundary: `inv_setBuf`), which it leaves as it was -/
theorem seekState_eq_streamed (key : Key) (nonce : UInt64) (s s' : Stream Key) (n : Nat)
    (h : Inv enc key nonce s) (h' : Inv enc key nonce s') (hp : s'.bytectr.toNat = 16 * (n + 1)) :
    seekState s n = some { s' with buf := s.buf } := by
  have hlim : 16 * (n + 1) < 2^64 := by rw [← hp]; exact UInt64.toNat_lt _
  obtain ⟨s1, h1, hpb, hk, hb, hc, _⟩ := seekState_spec key nonce s n h hlim
  rw [h1]
  have e1 : s1.pblk = s'.pblk := by rw [hpb, pblk_at_boundary key nonce s' n h' hp]
  have e2 : s1.key = s'.key := by rw [hk, h.keyOk, h'.keyOk]
  have e3 : s1.bytectr = s'.bytectr := UInt64.toNat_inj.mp (by rw [hc, hp])
  cases s1; cases s'
  simp only at e1 e2 e3 hb
  simp [e1, e2, e3, hb]

/-! ## one step -/

theorem init_spec (rks : Key) (nonce : UInt64) :
    ∃ s, AesCtr.init raw rks nonce = some s ∧ LiveOk { s := s, skey := rks, nonce := nonce, pos := 0 } := by
  obtain ⟨s0, h0, hinv, hz⟩ := init2_spec enc
    { key := rks, bytectr := raw.bytectr, buf := raw.buf, pblk := raw.pblk } (some rks) nonce raw_len
  exact ⟨s0, h0, ⟨hinv, by rw [hz]; rfl⟩⟩

/-- `crypto_aesctr_buf` on the harness' fresh object, either routing: SP 800-38A under the expanded key -/
theorem ctrBuf_spec (hw : Bool) (rks : Key) (nonce : UInt64) (data : List UInt8) (hlim : data.length < 2^64) :
    ctrBuf enc hw raw rks nonce data = some (Ctr.stream (enc rks) nonce data) := by
  obtain ⟨s0, h0, hl0⟩ := init_spec rks nonce
  have hp0 : s0.bytectr.toNat = 0 := hl0.pos
  obtain ⟨s', hcall, _, _⟩ := stream_call_spec enc enc_length rks nonce hw s0 data hl0.inv
    (by rw [hp0]; omega)
  unfold ctrBuf
  rw [h0]; simp only []
  rw [hcall, hp0, stream_eq_streamAt _ _ (enc_length rks)]; rfl

/-- `bigstream` within its own bounds: never `model!=spec`, never `model-oob`, and the stream it leaves is described -/
theorem bigStream_spec (st : St) (rks : Key) (nonce : UInt64) (n t : Nat) (again : Bool)
    (hn : 16 ≤ n) (hn' : n ≤ bigLimit) (ht : t ≤ bigTail) :
    ExecInv (bigStream st rks nonce n t again).1 ∧ (bigStream st rks nonce n t again).2.mismatch = false ∧
      (bigStream st rks nonce n t again).2 ≠ .modelOob := by
  obtain ⟨s0, h0, hl0⟩ := init_spec rks nonce
  have hnb : n / 16 - 1 + 1 = n / 16 := by omega
  have hbl : bigLimit = 2^32 + 2^20 := rfl
  have hbt : bigTail = 65536 := rfl
  obtain ⟨s1, h1, _, _, _, hb1, hinv1⟩ := seekState_spec rks nonce s0 (n / 16 - 1) hl0.inv (by omega)
  rw [hnb] at hb1
  have hl1 : LiveOk { s := { s1 with buf := if st.hw then s0.buf else enc rks s1.pblk },
                      skey := rks, nonce := nonce, pos := 16 * (n / 16) } :=
    ⟨inv_setBuf rks nonce s1 _ hinv1 (by omega), hb1⟩
  obtain ⟨l2, hd2, hl2, hk2, hn2, hp2⟩ := doStream_spec st.hw _ (List.replicate (n % 16) 0) hl1
    (by simp only [List.length_replicate]; omega)
  simp only [List.length_replicate] at hp2
  obtain ⟨l3, hd3, hl3, _, _, _⟩ := doStream_spec st.hw l2 (List.replicate t 0) hl2
    (by simp only [List.length_replicate]; omega)
  unfold bigStream
  simp only [h0, h1, hd2, hd3]
  refine ⟨?_, rfl, by simp⟩
  intro l hl
  simp only [Option.some.injEq] at hl
  rw [← hl]; exact hl3

/-- **Invariant preservation, one op.**  From a state whose bookkeeping describes the stream, an op within the
    contract leads to such a state again, and its answer is neither `model!=spec` nor `model-oob`. -/
theorem stepOp_inv (st : St) (h : ExecInv st) (op : Op) (hc : op.inContract st = true) :
    ExecInv (stepOp st op).1 ∧ (stepOp st op).2.mismatch = false ∧ (stepOp st op).2 ≠ .modelOob := by
  cases op with
  | malformed => exact ⟨h, rfl, by simp [stepOp]⟩
  | expand k =>
    simp only [stepOp]
    cases expandKey k with
    | none => exact ⟨h, rfl, by simp⟩
    | some rks => exact ⟨h, rfl, by simp⟩
  | block blk =>
    unfold stepOp
    cases st.key with
    | none => exact ⟨h, rfl, by simp⟩
    | some rks =>
      simp only []
      split
      · exact ⟨h, rfl, by simp⟩
      · exact ⟨h, rfl, by simp⟩
  | init nonce =>
    unfold stepOp
    cases st.key with
    | none => exact ⟨h, rfl, by simp⟩
    | some rks =>
      obtain ⟨s, h0, hl⟩ := init_spec rks nonce
      simp only [h0]
      refine ⟨?_, rfl, by simp⟩
      intro l hl'
      simp only [Option.some.injEq] at hl'
      rw [← hl']; exact hl
  | init2 nonce newkey =>
    unfold stepOp
    cases hlive : st.live with
    | none => exact ⟨by rw [ExecInv, hlive]; simp, rfl, by simp⟩
    | some l =>
      have hl := h l hlive
      simp only []
      cases newKeyArg newkey with
      | none => exact ⟨by intro l' h'; rw [hlive] at h'; cases h'; exact hl, rfl, by simp⟩
      | some nk =>
        obtain ⟨s', h2, hinv, hz⟩ := init2_spec enc l.s nk nonce hl.inv.len
        rw [hl.inv.keyOk] at hinv
        simp only [h2]
        refine ⟨?_, rfl, by simp⟩
        intro l' hl'
        simp only [Option.some.injEq] at hl'
        rw [← hl']; exact ⟨hinv, by rw [hz]; rfl⟩
  | seek nb =>
    unfold stepOp
    cases hlive : st.live with
    | none => exact ⟨by rw [ExecInv, hlive]; simp, rfl, by simp⟩
    | some l =>
      have hl := h l hlive
      cases nb with
      | zero => exact ⟨by intro l' h'; rw [hlive] at h'; cases h'; exact hl, rfl, by simp⟩
      | succ n =>
        have hlim : 16 * (n + 1) < 2^64 := by simpa [Op.inContract] using hc
        obtain ⟨s', hs, _, _, _, hb, hinv⟩ := seekState_spec l.skey l.nonce l.s n hl.inv hlim
        simp only [hs]
        refine ⟨?_, rfl, by simp⟩
        intro l' hl'
        simp only [Option.some.injEq] at hl'
        rw [← hl']; exact ⟨hinv, hb⟩
  | stream data =>
    unfold stepOp
    cases hlive : st.live with
    | none => exact ⟨by rw [ExecInv, hlive]; simp, rfl, by simp⟩
    | some l =>
      have hl := h l hlive
      have hlim : l.pos + data.length < 2^64 := by simpa [Op.inContract, hlive] using hc
      obtain ⟨l', hd, hl', _, _, _⟩ := doStream_spec st.hw l data hl hlim
      simp only [hd]
      refine ⟨?_, rfl, by simp⟩
      intro l'' h''
      simp only [Option.some.injEq] at h''
      rw [← h'']; exact hl'
  | streamzero n =>
    unfold stepOp
    cases hlive : st.live with
    | none => exact ⟨by rw [ExecInv, hlive]; simp, rfl, by simp⟩
    | some l =>
      have hl := h l hlive
      have hlim : l.pos + (List.replicate n (0 : UInt8)).length < 2^64 := by
        simpa [Op.inContract, hlive] using hc
      obtain ⟨l', hd, hl', _, _, _⟩ := doStream_spec st.hw l (List.replicate n 0) hl hlim
      simp only [hd]
      refine ⟨?_, rfl, by simp⟩
      intro l'' h''
      simp only [Option.some.injEq] at h''
      rw [← h'']; exact hl'
  | bigstream nonce n t again =>
    unfold stepOp
    cases st.key with
    | none => exact ⟨h, rfl, by simp⟩
    | some rks =>
      simp only []
      split
      · exact ⟨h, rfl, by simp⟩
      · rename_i hb
        exact bigStream_spec st rks nonce n t again (by omega) (by omega) (by omega)
  | buf nonce data =>
    unfold stepOp
    cases st.key with
    | none => exact ⟨h, rfl, by simp⟩
    | some rks =>
      have hlim : data.length < 2^64 := by simpa [Op.inContract] using hc
      have hb := ctrBuf_spec st.hw rks nonce data hlim
      simp only [hb, beq_self_eq_true]
      exact ⟨h, rfl, by simp⟩
  | free =>
    unfold stepOp
    cases hlive : st.live with
    | none => exact ⟨by rw [ExecInv, hlive]; simp, rfl, by simp⟩
    | some l => exact ⟨by intro l' h'; simp at h', rfl, by simp⟩

theorem init_inv (hw : Bool) : ExecInv { hw := hw } := by intro l h; simp at h

/-- every run within the contract -/
theorem runOps_inv : ∀ (ops : List Op) (st : St), ExecInv st → allInContract st ops = true →
    ExecInv (runOps st ops).1 ∧ ∀ o ∈ (runOps st ops).2, o.mismatch = false ∧ o ≠ .modelOob
  | [], st, h, _ => ⟨h, fun o ho => by cases ho⟩
  | op :: ops, st, h, hc => by
    simp only [allInContract, Bool.and_eq_true] at hc
    obtain ⟨h1, h2, h3⟩ := stepOp_inv st h op hc.1
    obtain ⟨i1, i2⟩ := runOps_inv ops _ h1 hc.2
    refine ⟨i1, ?_⟩
    intro o ho
    simp only [runOps, List.mem_cons] at ho
    rcases ho with rfl | ho
    · exact ⟨h2, h3⟩
    · exact i2 o ho

/-- `stream` on a described live stream -/
theorem stepOp_stream (st : St) (l : Live) (data : List UInt8) (hlive : st.live = some l) (hl : LiveOk l)
    (hlim : l.pos + data.length < 2^64) :
    ∃ l', stepOp st (.stream data) = ({ st with live := some l' },
        .stream (Ctr.streamAt (enc l.skey) l.nonce l.pos data) true l'.s) ∧ LiveOk l' ∧
      l'.skey = l.skey ∧ l'.nonce = l.nonce ∧ l'.pos = l.pos + data.length := by
  obtain ⟨l', hd, hl', h1, h2, h3⟩ := doStream_spec st.hw l data hl hlim
  refine ⟨l', ?_, hl', h1, h2, h3⟩
  simp only [stepOp, hlive, hd]

/-- a run of `stream` ops on a described live stream: the L1 parts, concatenated, are the Spec's stream from the
    Spec-side position on — so the position bookkeeping is the right one -/
theorem runStreams_spec : ∀ (ds : List (List UInt8)) (st : St) (l : Live), st.live = some l → LiveOk l →
    l.pos + ds.flatten.length < 2^64 →
    (runOps st (ds.map .stream)).2.length = ds.length ∧
    (∀ o ∈ (runOps st (ds.map .stream)).2, ∃ w s, o = .stream w true s) ∧
    ((runOps st (ds.map .stream)).2.map Out.want).flatten = Ctr.streamAt (enc l.skey) l.nonce l.pos ds.flatten
  | [], st, l, _, _, _ => by simp [runOps, streamAt_nil]
  | d :: ds, st, l, hlive, hl, hlim => by
    rw [List.flatten_cons, List.length_append] at hlim
    obtain ⟨l', hs, hl', hk, hn, hp⟩ := stepOp_stream st l d hlive hl (by omega)
    obtain ⟨i1, i2, i3⟩ := runStreams_spec ds { st with live := some l' } l' rfl hl' (by rw [hp]; omega)
    simp only [List.map_cons, runOps, hs]
    refine ⟨by simp [i1], ?_, ?_⟩
    · intro o ho
      rcases List.mem_cons.mp ho with rfl | ho
      · exact ⟨_, _, rfl⟩
      · exact i2 o ho
    · rw [List.flatten_cons, i3, hk, hn, hp, List.flatten_cons,
        streamAt_append _ _ (enc_length l.skey)]
      rfl

/-! ## hw mode: the instruction-level key next to the FIPS-197 key -/

/-- the current key and its instruction-level expansion come from the same key bytes -/
def KeyInv (st : St) : Prop :=
  ∀ rks, st.key = some rks → ∃ k, (k.length = 16 ∨ k.length = 32) ∧ rks.1 = Aes.keyExpansion k ∧
    st.nikey = AesNi.keyExpand k

theorem stepOp_key_unchanged (st : St) (op : Op) (h : ∀ k, op ≠ .expand k) :
    (stepOp st op).1.key = st.key ∧ (stepOp st op).1.nikey = st.nikey := by
  cases op with
  | expand k => exact absurd rfl (h k)
  | bigstream nonce n t again =>
    simp only [stepOp, bigStream]
    repeat' split
    all_goals first | exact ⟨rfl, rfl⟩ | trivial | simp
  | _ =>
    simp only [stepOp]
    repeat' split
    all_goals first | exact ⟨rfl, rfl⟩ | trivial | simp

theorem stepOp_keyInv (st : St) (op : Op) (h : KeyInv st) : KeyInv (stepOp st op).1 := by
  by_cases hop : ∀ k, op ≠ .expand k
  · obtain ⟨h1, h2⟩ := stepOp_key_unchanged st op hop
    intro rks hr
    rw [h1] at hr
    rw [h2]; exact h rks hr
  · have : ∃ k, op = .expand k := by
      cases op <;> first | exact ⟨_, rfl⟩ | exact absurd (fun k => by simp) hop
    obtain ⟨k, rfl⟩ := this
    simp only [stepOp]
    cases hx : expandKey k with
    | none => exact h
    | some rks =>
      by_cases hk : k.length = 16 ∨ k.length = 32
      · obtain ⟨hwf, he⟩ := expandKey_eq k hk
        rw [he] at hx
        intro rks' hr
        simp only [Option.some.injEq] at hr hx
        exact ⟨k, hk, by rw [← hr, ← hx], rfl⟩
      · rw [expandKey_none k hk] at hx; cases hx

theorem niKey_encrypt (k blk : List UInt8) (hk : k.length = 16 ∨ k.length = 32) (hb : blk.length = 16) :
    (AesNi.keyExpand k).bind (AesNi.encryptBlock blk) = some (Aes.cipher (Aes.keyExpansion k) blk) := by
  rw [Proofs.AesNi.keyExpand_eq_fips k hk]
  have hs := Proofs.Aes.keyExpansion_spec k hk
  show AesNi.encryptBlock blk ⟨Aes.keyExpansion k, k.length / 4 + 6⟩ = _
  exact Proofs.AesNi.encryptBlock_eq_cipher _ _ blk (by omega) (by rw [hs.1]) hs.2 hb

/-- a `block` answer in hw mode: the ciphertext of the instruction-level model (L2) is the Spec's (L1);
    an `expand` answer in hw mode: the round keys of the instruction-level model are FIPS-197's -/
theorem stepOp_hw_l2 (st : St) (h : KeyInv st) (op : Op) :
    (∀ ct ni, (stepOp st op).2 = .block ct (some ni) → ni = some ct) ∧
    (∀ k rk, op = .expand k → (stepOp st op).2 = .expanded (some rk) → rk = some (Aes.keyExpansion k).flatten) := by
  constructor
  · intro ct ni ho
    cases op <;> simp only [stepOp, bigStream] at ho
    case block blk =>
      cases hkey : st.key with
      | none => rw [hkey] at ho; cases ho
      | some rks =>
        rw [hkey] at ho
        simp only [] at ho
        obtain ⟨k, hk, hr, hn⟩ := h rks hkey
        by_cases hb : blk.length = 16
        · rw [if_pos hb] at ho
          simp only [Out.block.injEq] at ho
          obtain ⟨h1, h2⟩ := ho
          by_cases hhw : st.hw = true
          · rw [if_pos hhw, hn, niKey_encrypt k blk hk hb, ← hr, h1] at h2
            exact (Option.some.inj h2).symm
          · rw [if_neg hhw] at h2; cases h2
        · rw [if_neg hb] at ho; cases ho
    all_goals (repeat' split at ho) <;> cases ho
  · intro k rk hop ho
    subst hop
    simp only [stepOp] at ho
    cases hx : expandKey k with
    | none => rw [hx] at ho; cases ho
    | some rks =>
      rw [hx] at ho
      simp only [Out.expanded.injEq] at ho
      by_cases hk : k.length = 16 ∨ k.length = 32
      · rw [Proofs.AesNi.keyExpand_eq_fips k hk] at ho
        by_cases hhw : st.hw = true
        · rw [if_pos hhw] at ho
          simp only [Option.map_some, Option.some.injEq] at ho
          exact ho.symm
        · rw [if_neg hhw] at ho; cases ho
      · rw [expandKey_none k hk] at hx; cases hx

theorem runOps_hw_l2 : ∀ (ops : List Op) (st : St), KeyInv st →
    ∀ o ∈ (runOps st ops).2, (∀ ct ni, o = .block ct (some ni) → ni = some ct) ∧
      (∀ rk, o = .expanded (some rk) → ∃ k, rk = some (Aes.keyExpansion k).flatten)
  | [], _, _ => fun o ho => by cases ho
  | op :: ops, st, h => by
    intro o ho
    simp only [runOps, List.mem_cons] at ho
    rcases ho with rfl | ho
    · refine ⟨(stepOp_hw_l2 st h op).1, ?_⟩
      intro rk hr
      cases op <;> simp only [stepOp, bigStream] at hr
      case expand k => exact ⟨k, (stepOp_hw_l2 st h (.expand k)).2 k rk rfl (by simpa only [stepOp] using hr)⟩
      all_goals (repeat' split at hr) <;> cases hr
    · exact runOps_hw_l2 ops _ (stepOp_keyInv st op h) o ho

theorem init_keyInv (hw : Bool) : KeyInv { hw := hw } := by intro rks h; simp at h

end Percival.Proofs.AesStep
