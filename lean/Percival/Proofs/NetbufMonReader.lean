import Percival.Proofs.NetbufMonTok
import Percival.Proofs.NetbufRead
/-!
# C07 helper lemmas: the monitor accepts the reader half of `Model.NetbufStep`

`RRel s m a`: the executable's state `s` (reader model + scripted kernel queue + the harness' callback program),
the monitor's state `m` and the abstract reader `a` of `Spec/ByteStream.lean` describe the same situation:
`s.r` refines `a` (the relation of `reader_refines`), the monitor's stream is what is visible followed by what is
still in the kernel, the same wait is outstanding, the same callback program is running.  `spinR_sound`: the
records produced by the reader half of `spin` are accepted by `judgeRecs`, and the relation holds afterwards.
-/
namespace Percival.Proofs.NetbufMonSound
open Percival Percival.Spec.ByteStream Percival.Spec.NetbufMon Percival.Model.Netbuf Percival.Model
open Percival.Model.NetbufStep Percival.Proofs.NetbufMonTok

abbrev MSt := Percival.Spec.NetbufMon.St
abbrev XSt := Percival.Model.NetbufStep.St

/-- a record of the model's callback as the monitor reads it (the map inside `Out.ans`) -/
def convRec : CbRec → Rec
  | .succ a (some sh) => .succ a sh
  | .succ a none => .succ a .none
  | .status v => .status v

/-- the record could be printed: the model read the bytes it shows from its own buffer -/
def Readable : CbRec → Prop
  | .succ _ none => False
  | _ => True

/-- the writer's fields of the executable's state are untouched -/
def SameW (s s' : XSt) : Prop := s'.w = s.w ∧ s'.wq = s.wq ∧ s'.wpos = s.wpos ∧ s'.wresv = s.wresv
/-- the writer's fields of the monitor's state are untouched -/
def SameMW (m m' : MSt) : Prop :=
  m'.pending = m.pending ∧ m'.wq = m.wq ∧ m'.failed = m.failed ∧ m'.resv = m.resv

theorem SameW.refl (s : XSt) : SameW s s := ⟨rfl, rfl, rfl, rfl⟩
theorem SameMW.refl (m : MSt) : SameMW m m := ⟨rfl, rfl, rfl, rfl⟩
theorem SameW.trans {s1 s2 s3 : XSt} (h1 : SameW s1 s2) (h2 : SameW s2 s3) : SameW s1 s3 :=
  ⟨h2.1.trans h1.1, h2.2.1.trans h1.2.1, h2.2.2.1.trans h1.2.2.1, h2.2.2.2.trans h1.2.2.2⟩
theorem SameMW.trans {m1 m2 m3 : MSt} (h1 : SameMW m1 m2) (h2 : SameMW m2 m3) : SameMW m1 m3 :=
  ⟨h2.1.trans h1.1, h2.2.1.trans h1.2.1, h2.2.2.1.trans h1.2.2.1, h2.2.2.2.trans h1.2.2.2⟩

/-- reader half of the relation between the executable's state and the monitor's -/
structure RRel (s : XSt) (m : MSt) (a : Reader) : Prop where
  rel : Proofs.NetbufRead.Rel s.r a
  toks : toks m.items = a.visible.map .byte ++ qtoks s.rq
  known : m.known ≤ a.visible.length
  waiting : m.waiting = a.waiting
  waitk : ∀ k, a.waiting = some k → s.waitk = k
  loopN : m.loopN = s.loopN
  loopJK : 0 < s.loopN → m.loopJ = s.loopJ ∧ m.loopK = s.loopK
  rqne : ∀ d, KAns.data d ∈ s.rq → d ≠ []

/-- … at the moment the reader has decided to call back with success for `wait k` and the harness' callback
has not run yet (the monitor has not read the record yet) -/
structure RPre (s : XSt) (m : MSt) (a : Reader) (k : Nat) : Prop where
  rel : Proofs.NetbufRead.Rel s.r a
  aw : a.waiting = none
  mw : m.waiting = some k
  hk : k ≤ a.visible.length
  wk : s.waitk = k
  toks : toks m.items = a.visible.map .byte ++ qtoks s.rq
  known : m.known ≤ a.visible.length
  loopN : m.loopN = s.loopN
  loopJK : 0 < s.loopN → m.loopJ = s.loopJ ∧ m.loopK = s.loopK
  rqne : ∀ d, KAns.data d ∈ s.rq → d ≠ []

theorem rrel_init : RRel {} {} Reader.init :=
  ⟨Proofs.NetbufRead.rel_init, rfl, Nat.le_refl _, rfl, fun _ h => by simp [Reader.init] at h, rfl,
   fun h => by simp at h, fun _ h => by simp at h⟩

/-! ## what the monitor computes from its items, in terms of the relation -/

theorem dataBefore_of {items : List RItem} {v : Bytes} {q : List KAns}
    (h : toks items = v.map .byte ++ qtoks q) : dataBefore items = v.length + (lead (qtoks q)).length := by
  rw [dataBefore_eq, h, lead_bytes, List.length_append]

theorem takeData_of {items : List RItem} {v : Bytes} {q : List KAns}
    (h : toks items = v.map .byte ++ qtoks q) (n : Nat) (hn : n ≤ v.length) : takeData n items = v.take n := by
  rw [takeData_eq, h, lead_bytes, List.take_append_of_le_length hn]

theorem visible_consume (a : Reader) (j : Nat) :
    ({ a with consumed := a.consumed + j } : Reader).visible = a.visible.drop j := by
  simp [Reader.visible, List.drop_drop]

theorem visible_append (a : Reader) (d : Bytes) (h : a.consumed ≤ a.received.length) :
    ({ a with received := a.received ++ d } : Reader).visible = a.visible ++ d := by
  simp only [Reader.visible]
  rw [List.drop_append_of_le_length h]

/-! ## one success record -/

theorem judgeRecs_succ (m : MSt) (k a : Nat) (shown : Shown) (rest : List Rec)
    (hw : m.waiting = some k) (h1 : k ≤ a) (h3 : m.known ≤ a) (h4 : a ≤ dataBefore m.items)
    (h5 : shownOf (takeData k m.items) k = shown) :
    judgeRecs m (.succ a shown :: rest) =
      if 0 < m.loopN then
        if m.loopJ ≤ a then
          judgeRecs { m with known := a - m.loopJ, waiting := some m.loopK, items := dropData m.loopJ m.items,
                             loopN := m.loopN - 1 } rest
        else judgeRecs { m with known := a, waiting := none, loopN := 0 } rest
      else judgeRecs { m with known := a, waiting := none } rest := by
  rw [judgeRecs]
  simp only [hw]
  rw [if_neg (by omega), if_neg (by omega), if_neg (by omega), if_neg (by omega), if_neg (by simp [h5])]

theorem judgeRecs_status (m : MSt) (k : Nat) (v : Int) (rest : List Rec)
    (hw : m.waiting = some k) (h1 : dataBefore m.items < k) (h2 : firstMark m.items = some v) :
    judgeRecs m (.status v :: rest) =
      judgeRecs { m with items := dropMark m.items, waiting := none, loopN := 0 } rest := by
  rw [judgeRecs]
  simp only [hw]
  rw [if_neg (by omega), if_neg (by simp [h2])]

/-- the harness' callback on success: the record it writes is accepted, and if the program goes on (consume `j`,
wait `k` again) the monitor follows -/
theorem appCallback_succ (s : XSt) (m : MSt) (a : Reader) (k : Nat) (recs : List CbRec)
    (h : RPre s m a k) (hbad : s.bad = none) :
    ∃ rec m' a', (appCallback s 0 recs).2 = recs ++ [rec] ∧ Readable rec ∧
      (∀ rest, judgeRecs m (convRec rec :: rest) = judgeRecs m' rest) ∧
      RRel (appCallback s 0 recs).1 m' a' ∧ (appCallback s 0 recs).1.bad = none ∧
      (appCallback s 0 recs).1.rq = s.rq ∧ SameW s (appCallback s 0 recs).1 ∧ SameMW m m' ∧
      (appCallback s 0 recs).1.loopN ≤ s.loopN ∧
      ((appCallback s 0 recs).1.r.pending ≠ .none → (appCallback s 0 recs).1.loopN < s.loopN) := by
  obtain ⟨hrel, haw, hmw, hk, hwk, htoks, hknown, hloopN, hloopJK, hrqne⟩ := h
  have hav : avail s.r = a.visible.length := by rw [hrel.avail]; rfl
  have hpeek : NetbufRead.peek s.r = .ok a.visible := by
    rw [Proofs.NetbufRead.peek_eq hrel.geo, hrel.win]
  have hpn : s.r.pending = .none := Proofs.NetbufRead.pending_none_of hrel haw
  have hdb := dataBefore_of htoks
  have hmin : min s.waitk a.visible.length = k := by rw [hwk]; omega
  -- the monitor's judgement of the record
  have hj := judgeRecs_succ m k a.visible.length (shownOf (a.visible.take k) k)
    (hw := hmw) (h1 := hk) (h3 := hknown) (h4 := by omega)
    (h5 := by rw [takeData_of htoks k hk])
  obtain ⟨s', out, e⟩ : ∃ s' out, appCallback s 0 recs = (s', out) := ⟨_, _, rfl⟩
  rw [e]
  unfold appCallback at e
  simp only [beq_self_eq_true, if_true, hpeek, hav, hmin] at e
  by_cases hN : 0 < s.loopN
  · rw [if_pos hN] at e
    obtain ⟨hJ, hK⟩ := hloopJK hN
    by_cases hJa : s.loopJ ≤ a.visible.length
    · rw [if_pos hJa] at e
      obtain ⟨r1, e1, hr1⟩ := Proofs.NetbufRead.consume_rel hrel haw s.loopJ hJa
      obtain ⟨r2, e2, hr2⟩ := Proofs.NetbufRead.wait_rel hr1 haw s.loopK
      rw [e1] at e; simp only [] at e; rw [e2] at e
      simp only [Prod.mk.injEq] at e
      obtain ⟨rfl, rfl⟩ := e
      refine ⟨_, { m with known := a.visible.length - m.loopJ, waiting := some m.loopK,
                          items := dropData m.loopJ m.items, loopN := m.loopN - 1 },
        { ({ a with consumed := a.consumed + s.loopJ } : Reader) with waiting := some s.loopK }, rfl, trivial, ?_, ?_, hbad, rfl,
        ⟨rfl, rfl, rfl, rfl⟩, ⟨rfl, rfl, rfl, rfl⟩, (by show s.loopN - 1 ≤ s.loopN; omega),
        fun _ => (by show s.loopN - 1 < s.loopN; omega)⟩
      · intro rest
        show judgeRecs m (.succ _ _ :: rest) = _
        rw [hj, if_pos (by omega), if_pos (by omega)]
      · refine ⟨hr2, ?_, ?_, (by show some m.loopK = some s.loopK; rw [hK]), ?_, ?_, ?_, hrqne⟩
        · show toks (dropData m.loopJ m.items) = _
          rw [toks_dropData _ _ (by omega), htoks, hJ, drop_bytes _ _ _ hJa]
          show _ = List.map Tok.byte ({ a with consumed := a.consumed + s.loopJ } : Reader).visible ++ _
          rw [visible_consume]
        · show a.visible.length - m.loopJ ≤ ({ a with consumed := a.consumed + s.loopJ } : Reader).visible.length
          rw [visible_consume, List.length_drop, hJ]
          omega
        · intro k' hk'
          simp only [Option.some.injEq] at hk'
          exact hk'
        · show m.loopN - 1 = s.loopN - 1
          rw [hloopN]
        · intro _
          exact ⟨hJ, hK⟩
    · rw [if_neg hJa] at e
      simp only [Prod.mk.injEq] at e
      obtain ⟨rfl, rfl⟩ := e
      refine ⟨_, { m with known := a.visible.length, waiting := none, loopN := 0 }, a, rfl, trivial, ?_, ?_, hbad, rfl,
        ⟨rfl, rfl, rfl, rfl⟩, ⟨rfl, rfl, rfl, rfl⟩, Nat.zero_le _, fun hp => absurd hpn hp⟩
      · intro rest
        show judgeRecs m (.succ _ _ :: rest) = _
        rw [hj, if_pos (by omega), if_neg (by omega)]
      · exact ⟨hrel, htoks, Nat.le_refl _, haw.symm, fun k' hk' => (by rw [haw] at hk'; cases hk'), rfl,
          fun h0 => (by simp at h0), hrqne⟩
  · rw [if_neg hN] at e
    simp only [Prod.mk.injEq] at e
    obtain ⟨rfl, rfl⟩ := e
    refine ⟨_, { m with known := a.visible.length, waiting := none }, a, rfl, trivial, ?_, ?_, hbad, rfl,
      ⟨rfl, rfl, rfl, rfl⟩, ⟨rfl, rfl, rfl, rfl⟩, Nat.le_refl _, fun hp => absurd hpn hp⟩
    · intro rest
      show judgeRecs m (.succ _ _ :: rest) = _
      rw [hj, if_neg (by omega)]
    · exact ⟨hrel, htoks, Nat.le_refl _, haw.symm, fun k' hk' => (by rw [haw] at hk'; cases hk'), hloopN,
        hloopJK, hrqne⟩

theorem appCallback_status (s : XSt) (v : Int) (recs : List CbRec) (hv : v ≠ 0) :
    appCallback s v recs = ({ s with loopN := 0 }, recs ++ [.status v]) := by
  unfold appCallback
  rw [if_neg (by simpa using hv)]

/-! ## the reader half of `spin` -/

/-- fuel that is enough for `spinR` -/
def need (s : XSt) : Nat := s.loopN + rqWeight s.rq + (if s.r.pending = .none then 1 else 2)

/-- nothing more can happen without a new script line -/
def Quiet (s : XSt) : Prop := s.r.pending = .none ∨ (s.r.pending = .read ∧ s.rq = [])

/-- what `recv` hands over of a scripted delivery `d` when `space` bytes fit -/
theorem recv_split (d : Bytes) (rest : List KAns) (space : Nat) (hd : d ≠ []) (hs : 0 < space) (ev : REv)
    (rq1 : List KAns)
    (h : (if d.length ≤ space then ((REv.data d, rest) : REv × List KAns)
          else (REv.data (d.take space), KAns.data (d.drop space) :: rest)) = (ev, rq1)) :
    ∃ d1, ev = .data d1 ∧ d1.length ≠ 0 ∧ d1.length ≤ space ∧
      qtoks (.data d :: rest) = d1.map .byte ++ qtoks rq1 ∧
      rqWeight rq1 + 1 ≤ rqWeight (.data d :: rest) ∧
      ((∀ x, KAns.data x ∈ rest → x ≠ []) → (∀ x, KAns.data x ∈ rq1 → x ≠ [])) := by
  have hdl : 0 < d.length := List.length_pos_iff.2 hd
  split at h
  · rename_i hfit
    simp only [Prod.mk.injEq] at h
    obtain ⟨rfl, rfl⟩ := h
    exact ⟨d, rfl, by omega, hfit, rfl, by simp only [rqWeight]; omega, fun h => h⟩
  · rename_i hfit
    simp only [Prod.mk.injEq] at h
    obtain ⟨rfl, rfl⟩ := h
    refine ⟨d.take space, rfl, by rw [List.length_take]; omega, by rw [List.length_take]; omega, ?_, ?_, ?_⟩
    · simp only [qtoks]
      rw [← List.append_assoc, ← List.map_append, List.take_append_drop]
    · simp only [rqWeight, List.length_drop]; omega
    · intro hr x hx
      simp only [List.mem_cons, KAns.data.injEq] at hx
      rcases hx with rfl | hx
      · intro h0
        have := congrArg List.length h0
        simp at this
        omega
      · exact hr x hx

theorem spinR_sound : ∀ (fuel : Nat) (s : XSt) (m : MSt) (a : Reader) (recs : List CbRec),
    RRel s m a → s.bad = none → need s ≤ fuel →
    ∃ new m' a', (spinR fuel s recs).2 = recs ++ new ∧ (∀ r ∈ new, Readable r) ∧
      (∀ rest, judgeRecs m (new.map convRec ++ rest) = judgeRecs m' rest) ∧
      RRel (spinR fuel s recs).1 m' a' ∧ (spinR fuel s recs).1.bad = none ∧ Quiet (spinR fuel s recs).1 ∧
      SameW s (spinR fuel s recs).1 ∧ SameMW m m' := by
  intro fuel
  induction fuel with
  | zero =>
    intro s m a recs _ _ hf
    unfold need at hf
    split at hf <;> omega
  | succ f ih =>
    intro s m a recs h hbad hfuel
    -- after the harness' callback for a success: go on with the induction hypothesis
    have cont : ∀ (s1 : XSt) (a1 : Reader) (k : Nat), RPre s1 m a1 k → s1.bad = none →
        s1.loopN + rqWeight s1.rq + 1 ≤ f → SameW s s1 →
        ∃ new m' a', (spinR f (appCallback s1 0 recs).1 (appCallback s1 0 recs).2).2 = recs ++ new ∧
          (∀ r ∈ new, Readable r) ∧ (∀ rest, judgeRecs m (new.map convRec ++ rest) = judgeRecs m' rest) ∧
          RRel (spinR f (appCallback s1 0 recs).1 (appCallback s1 0 recs).2).1 m' a' ∧
          (spinR f (appCallback s1 0 recs).1 (appCallback s1 0 recs).2).1.bad = none ∧
          Quiet (spinR f (appCallback s1 0 recs).1 (appCallback s1 0 recs).2).1 ∧
          SameW s (spinR f (appCallback s1 0 recs).1 (appCallback s1 0 recs).2).1 ∧ SameMW m m' := by
      intro s1 a1 k hpre hbad1 hf1 hsw
      obtain ⟨rec, m1, a2, e1, hrd1, hj1, hr1, hb1, hrq1, hsw1, hmw1, hle, hlt⟩ := appCallback_succ s1 m a1 k recs hpre hbad1
      have hneed : need (appCallback s1 0 recs).1 ≤ f := by
        unfold need
        rw [hrq1]
        split
        · omega
        · rename_i hp
          have := hlt hp
          omega
      obtain ⟨new, m', a', e2, hrd2, hj2, hr2, hb2, hq2, hsw2, hmw2⟩ :=
        ih (appCallback s1 0 recs).1 m1 a2 (appCallback s1 0 recs).2 hr1 hb1 hneed
      refine ⟨rec :: new, m', a', ?_, ?_, ?_, hr2, hb2, hq2, (hsw.trans hsw1).trans hsw2, hmw1.trans hmw2⟩
      · rw [e2, e1]; simp
      · intro r hr
        rcases List.mem_cons.1 hr with rfl | hr
        · exact hrd1
        · exact hrd2 r hr
      · intro rest
        simp only [List.map_cons, List.cons_append]
        rw [hj1, hj2]
    simp only [spinR]
    rw [if_neg (by simp [hbad])]
    have hgeo := h.rel.geo
    have hav := h.rel.avail
    cases hp : s.r.pending with
    | none =>
      exact ⟨[], m, a, by simp, (fun _ hr => by cases hr), fun _ => rfl, h, hbad, Or.inl hp, SameW.refl s, SameMW.refl m⟩
    | immediate =>
      simp only
      -- the wait can be satisfied from the buffer
      have hpend := h.rel.pend
      unfold Proofs.NetbufRead.PendRel at hpend
      rw [hp] at hpend
      cases haw : a.waiting with
      | none => rw [haw] at hpend; exact absurd hpend (by simp)
      | some k =>
        rw [haw] at hpend
        simp only at hpend
        obtain ⟨e, hr'⟩ := Proofs.NetbufRead.fire_rel h.rel k haw hpend
        rw [e]
        simp only
        have hpre : RPre { s with r := { s.r with pending := .none } } m { a with waiting := none } k :=
          ⟨hr', rfl, by rw [h.waiting, haw], hpend, h.waitk k haw, h.toks, h.known, h.loopN, h.loopJK, h.rqne⟩
        have hneed : s.loopN + rqWeight s.rq + 1 ≤ f := by
          unfold need at hfuel
          rw [if_neg (by simp [hp])] at hfuel
          omega
        exact cont _ _ k hpre hbad hneed ⟨rfl, rfl, rfl, rfl⟩
    | read =>
      simp only
      have hpend := h.rel.pend
      unfold Proofs.NetbufRead.PendRel at hpend
      rw [hp] at hpend
      cases haw : a.waiting with
      | none => rw [haw] at hpend; exact absurd hpend (by simp)
      | some k =>
        rw [haw] at hpend
        simp only at hpend
        obtain ⟨hwl, hlt, hroom⟩ := hpend
        have hnk : ¬ k ≤ a.visible.length := by omega
        have hmw : m.waiting = some k := by rw [h.waiting, haw]
        have hneed : s.loopN + rqWeight s.rq + 2 ≤ f + 1 := by
          unfold need at hfuel
          rw [if_neg (by simp [hp])] at hfuel
          exact hfuel
        cases hq : s.rq with
        | nil => exact ⟨[], m, a, by simp, (fun _ hr => by cases hr), fun _ => rfl, h, hbad, Or.inr ⟨hp, hq⟩, SameW.refl s, SameMW.refl m⟩
        | cons ans rest =>
          have hrqne' : ∀ x, KAns.data x ∈ rest → x ≠ [] :=
            fun x hx => h.rqne x (by rw [hq]; exact List.mem_cons_of_mem _ hx)
          rw [hq] at hneed
          cases ans with
          | eagain =>
            simp only
            have hr1 : RRel { s with rq := rest } m a :=
              ⟨h.rel, by rw [h.toks, hq]; rfl, h.known, h.waiting, h.waitk, h.loopN, h.loopJK, hrqne'⟩
            obtain ⟨new, m', a', e2, hrd2, hj2, hr2, hb2, hq2, hsw2, hmw2⟩ := ih { s with rq := rest } m a recs hr1 hbad
              (by unfold need; simp only [rqWeight] at hneed ⊢; split <;> omega)
            exact ⟨new, m', a', e2, hrd2, hj2, hr2, hb2, hq2, hsw2, hmw2⟩
          | data d =>
            simp only
            have hspace : 0 < s.r.buflen - s.r.datalen := by
              have := hgeo.pos; have := hgeo.dat; omega
            generalize hev : (if d.length ≤ s.r.buflen - s.r.datalen then ((REv.data d, rest) : REv × List KAns)
              else (REv.data (d.take (s.r.buflen - s.r.datalen)), KAns.data (d.drop (s.r.buflen - s.r.datalen)) :: rest)) = evq
            obtain ⟨ev, rq1⟩ := evq
            obtain ⟨d1, rfl, hd10, hd1s, htk, hw1, hne1⟩ :=
              recv_split d rest _ (h.rqne d (by rw [hq]; exact List.mem_cons_self)) hspace ev rq1 hev
            simp only
            have hnd := Proofs.NetbufRead.net_data_rel h.rel k haw hnk d1 hd10 hd1s
            simp only at hnd
            obtain ⟨r', e, hr'⟩ := hnd
            rw [e]
            have hvis := visible_append a d1 h.rel.cons
            have htoks1 : toks m.items = (a.visible ++ d1).map .byte ++ qtoks rq1 := by
              rw [h.toks, hq, htk]; simp
            by_cases hdone : k ≤ ({ a with received := a.received ++ d1 } : Reader).visible.length
            · rw [if_pos hdone] at hr' ⊢
              simp only
              have hpre : RPre { s with r := r', rq := rq1 } m
                  { ({ a with received := a.received ++ d1 } : Reader) with waiting := none } k :=
                ⟨hr', rfl, hmw, hdone, h.waitk k haw, by rw [htoks1, ← hvis]; rfl,
                 by show m.known ≤ ({ a with received := a.received ++ d1 } : Reader).visible.length
                    rw [hvis, List.length_append]; have := h.known; omega,
                 h.loopN, h.loopJK, hne1 hrqne'⟩
              exact cont _ _ k hpre hbad (by show s.loopN + rqWeight rq1 + 1 ≤ f; omega) ⟨rfl, rfl, rfl, rfl⟩
            · rw [if_neg hdone] at hr' ⊢
              simp only
              have hr1 : RRel { s with r := r', rq := rq1 } m { a with received := a.received ++ d1 } :=
                ⟨hr', by rw [htoks1, ← hvis],
                 by rw [hvis, List.length_append]; have := h.known; omega,
                 hmw.trans haw.symm, h.waitk, h.loopN, h.loopJK, hne1 hrqne'⟩
              obtain ⟨new, m', a', e2, hrd2, hj2, hr2, hb2, hq2, hsw2, hmw2⟩ := ih _ m _ recs hr1 hbad
                (by unfold need; show s.loopN + rqWeight rq1 + _ ≤ f; split <;> omega)
              exact ⟨new, m', a', e2, hrd2, hj2, hr2, hb2, hq2, hsw2, hmw2⟩
          | eof =>
            simp only
            obtain ⟨e, hr'⟩ := Proofs.NetbufRead.net_end_rel h.rel k haw hnk .eof 1 (Or.inl ⟨rfl, rfl⟩)
            rw [e]
            simp only
            rw [appCallback_status _ 1 _ (by decide)]
            simp only
            have hdb : dataBefore m.items < k := by
              rw [dataBefore_of h.toks, hq]; simp only [qtoks, lead, List.length_nil]; omega
            have hfm : firstMark m.items = some 1 := by rw [firstMark_eq, h.toks, markOf_bytes, hq]; rfl
            have hj := judgeRecs_status m k 1 (hw := hmw) (h1 := hdb) (h2 := hfm)
            have hr1 : RRel { s with r := { s.r with pending := .none }, rq := rest, loopN := 0 }
                { m with items := dropMark m.items, waiting := none, loopN := 0 } { a with waiting := none } :=
              ⟨hr', by show toks (dropMark m.items) = _; rw [toks_dropMark, h.toks, hq, dropMarkT_bytes]; rfl,
               h.known, rfl, (fun _ h0 => by simp at h0), rfl, (fun h0 => by simp at h0), hrqne'⟩
            obtain ⟨new, m', a', e2, hrd2, hj2, hr2, hb2, hq2, hsw2, hmw2⟩ := ih _ _ _ (recs ++ [.status 1]) hr1 hbad
              (by show 0 + rqWeight rest + 1 ≤ f; simp only [rqWeight] at hneed; omega)
            refine ⟨.status 1 :: new, m', a', by rw [e2]; simp, (fun r hr => by rcases List.mem_cons.1 hr with rfl | hr; exact trivial; exact hrd2 r hr), ?_, hr2, hb2, hq2, hsw2, hmw2⟩
            intro rest'
            simp only [List.map_cons, List.cons_append, convRec]
            rw [hj, hj2]
          | err =>
            simp only
            obtain ⟨e, hr'⟩ := Proofs.NetbufRead.net_end_rel h.rel k haw hnk .err (-1) (Or.inr ⟨rfl, rfl⟩)
            rw [e]
            simp only
            rw [appCallback_status _ (-1) _ (by decide)]
            simp only
            have hdb : dataBefore m.items < k := by
              rw [dataBefore_of h.toks, hq]; simp only [qtoks, lead, List.length_nil]; omega
            have hfm : firstMark m.items = some (-1) := by rw [firstMark_eq, h.toks, markOf_bytes, hq]; rfl
            have hj := judgeRecs_status m k (-1) (hw := hmw) (h1 := hdb) (h2 := hfm)
            have hr1 : RRel { s with r := { s.r with pending := .none }, rq := rest, loopN := 0 }
                { m with items := dropMark m.items, waiting := none, loopN := 0 } { a with waiting := none } :=
              ⟨hr', by show toks (dropMark m.items) = _; rw [toks_dropMark, h.toks, hq, dropMarkT_bytes]; rfl,
               h.known, rfl, (fun _ h0 => by simp at h0), rfl, (fun h0 => by simp at h0), hrqne'⟩
            obtain ⟨new, m', a', e2, hrd2, hj2, hr2, hb2, hq2, hsw2, hmw2⟩ := ih _ _ _ (recs ++ [.status (-1)]) hr1 hbad
              (by show 0 + rqWeight rest + 1 ≤ f; simp only [rqWeight] at hneed; omega)
            refine ⟨.status (-1) :: new, m', a', by rw [e2]; simp, (fun r hr => by rcases List.mem_cons.1 hr with rfl | hr; exact trivial; exact hrd2 r hr), ?_, hr2, hb2, hq2, hsw2, hmw2⟩
            intro rest'
            simp only [List.map_cons, List.cons_append, convRec]
            rw [hj, hj2]

end Percival.Proofs.NetbufMonSound
