import Percival.Proofs.AFURun
/-!
# C14, upper layers: what a refused request does to one call, and that releases cannot fail

From the per-call specifications, for the outcome-returning step `stepR`:
(a) a refused request inside a call that can fail makes it report failure; (b) a reported failure leaves
nothing registered and loses nothing (and, for the calls listed in `isAtomic`, leaves every object as it was);
a call that is `Ready` fails only because a request was refused, succeeds when the allocator grants what is
asked, and can be made again after a failure; (d) the release calls cannot fail.
-/
namespace Percival.Proofs.AllocFailUpper
open Percival.Model Percival.Model.EvReg Percival.Model.AllocFail
open Percival.Proofs.EvRegNet (regNet netRegistered NetInv)
open Percival.Proofs.EvRegTimer (regImm regTimers TmInv Step Granted)
open Percival.Proofs.EArray (malloc_ok malloc_fail free_facts)
open Percival.Model.Connect (AddrOutcome)

/-- the calls documented as unable to fail: cancels and frees -/
def isRelease : Op → Bool
  | .readCancel _ | .writeCancel _ | .acceptCancel _ | .connectCancel _ | .nbrCancel _ | .nbrFree _
  | .nbwFree _ | .httpCancel _ => true
  | _ => false

/-- the calls whose failure leaves every object exactly as it was (`Same`); the other three that can fail
(`netbuf_read_wait`, `netbuf_write_consume`, `netbuf_write_write`) may have grown a buffer, consumed the
reservation or queued the data before the allocation that failed -/
def isAtomic : Op → Bool
  | .read _ | .write _ | .accept _ | .connect _ _ _ | .nbrInit _ | .nbwInit _ | .nbwReserve _ _ | .http _ _ _
  | .https _ _ _ _ => true
  | _ => false

def fdOk (w : World) (fd : Nat) (isW : Bool) : Prop := ¬ netRegistered w.ev fd isW ∧ 24 * (fd + 1) ≤ EArray.SIZE_MAX

/-- the call is within its contract and nothing but a refused allocation can make it fail: the descriptor's
slot is free (otherwise `events_network_register` answers EEXIST), the object named exists and is idle -/
def Ready (w : World) : Op → Prop
  | .read fd => fdOk w fd false
  | .write fd => fdOk w fd true
  | .accept fd => fdOk w fd false
  | .connect addrs _ s => (skipFailNow addrs ≠ [] → fdOk w s true) ∧ w.ev.timers.length < 2^32
  | .nbrInit _ => True
  | .nbrWait r _ => ∃ rd ∈ w.readers, rd.id = r ∧ rd.readCookie = none ∧ rd.immediate = false ∧ fdOk w rd.fd false
  | .nbwInit _ => True
  | .nbwReserve x _ => ∃ wr ∈ w.writers, wr.id = x ∧ wr.reserved = false
  | .nbwConsume x len => ∃ wr ∈ w.writers, wr.id = x ∧ consumeOk wr len ∧ fdOk w wr.fd true
  | .nbwWrite x _ => ∃ wr ∈ w.writers, wr.id = x ∧ wr.reserved = false ∧ fdOk w wr.fd true
  | .http addrs _ s => (skipFailNow addrs ≠ [] → fdOk w s true) ∧ w.ev.timers.length < 2^32
  | .https addrs _ s _ => (skipFailNow addrs ≠ [] → fdOk w s true) ∧ w.ev.timers.length < 2^32
  | _ => False

/-- the object a release call names exists and may be released by its owner -/
def Present (w : World) : Op → Prop
  | .readCancel c => (∃ a ∈ w.reads, a.cookie = c) ∧ readOwned w c = false
  | .writeCancel c => (∃ a ∈ w.writes, a.cookie = c) ∧ writeOwned w c = false
  | .acceptCancel c => ∃ a ∈ w.accepts, a.cookie = c
  | .connectCancel c => (∃ k ∈ w.conns, k.cookie = c) ∧ connOwned w c = false
  | .nbrCancel r => ∃ rd ∈ w.readers, rd.id = r
  | .nbrFree r => ∃ rd ∈ w.readers, rd.id = r ∧ rd.readCookie = none ∧ rd.immediate = false
  | .nbwFree x => ∃ wr ∈ w.writers, wr.id = x
  | .httpCancel h => ∃ x ∈ w.https, x.cookie = h
  | _ => False

/-- what the object named by a release call held -/
def gone (_w w' : World) : Op → Prop
  | .readCancel c => ∀ a ∈ w'.reads, a.cookie ≠ c
  | .writeCancel c => ∀ a ∈ w'.writes, a.cookie ≠ c
  | .acceptCancel c => ∀ a ∈ w'.accepts, a.cookie ≠ c
  | .connectCancel c => ∀ k ∈ w'.conns, k.cookie ≠ c
  | .nbrCancel r => ∀ rd ∈ w'.readers, rd.id = r → rd.readCookie = none ∧ rd.immediate = false
  | .nbrFree r => ∀ rd ∈ w'.readers, rd.id ≠ r
  | .nbwFree x => ∀ wr ∈ w'.writers, wr.id ≠ x
  | .httpCancel h => ∀ x ∈ w'.https, x.cookie ≠ h
  | _ => True

/-! ## small facts -/
namespace Top

theorem ofOpt_snd (R : Option Nat × World) : (Run.ofOpt R).2 = R.2 := by
  rcases R with ⟨_ | c, w'⟩ <;> rfl

theorem ofOpt_fail {R : Option Nat × World} : (Run.ofOpt R).1 = .fail ↔ R.1 = none := by
  rcases R with ⟨_ | c, w'⟩
  · exact ⟨fun _ => rfl, fun _ => rfl⟩
  · exact ⟨fun h => (by cases h), fun h => (by cases h)⟩

theorem ofOpt_ok {R : Option Nat × World} : (Run.ofOpt R).1 = .ok ↔ ∃ c, R.1 = some c := by
  rcases R with ⟨_ | c, w'⟩
  · exact ⟨fun h => (by cases h), fun ⟨c, h⟩ => (by cases h)⟩
  · exact ⟨fun _ => ⟨c, rfl⟩, fun _ => rfl⟩

theorem ofOpt_ne_contract (R : Option Nat × World) : (Run.ofOpt R).1 ≠ .contract := by
  rcases R with ⟨_ | c, w'⟩ <;> intro h <;> cases h

theorem stepR_read (w : World) (fd : Nat) : stepR w (.read fd) = Run.ofOpt (networkRead w fd) := rfl
theorem stepR_write (w : World) (fd : Nat) : stepR w (.write fd) = Run.ofOpt (networkWrite w fd) := rfl
theorem stepR_accept (w : World) (fd : Nat) : stepR w (.accept fd) = Run.ofOpt (networkAccept w fd) := rfl
theorem stepR_connect (w : World) (a : List AddrOutcome) (t : Option Int) (s : Nat) :
    stepR w (.connect a t s) = Run.ofOpt (networkConnect w a t s) := rfl
theorem stepR_nbrInit (w : World) (fd : Nat) : stepR w (.nbrInit fd) = Run.ofOpt (netbufReadInit w fd) := rfl
theorem stepR_nbwInit (w : World) (fd : Nat) : stepR w (.nbwInit fd) = Run.ofOpt (netbufWriteInit w fd) := rfl
theorem stepR_http (w : World) (a : List AddrOutcome) (l s : Nat) :
    stepR w (.http a l s) = Run.ofOpt (httpRequest w a l s) := rfl
theorem stepR_https (w : World) (a : List AddrOutcome) (l s hl : Nat) :
    stepR w (.https a l s hl) = Run.ofOpt (httpsRequest w a l s hl) := rfl

/-- the descriptor condition depends on the registry only -/
theorem fdOk_congr {w w' : World} (h : registry w'.ev = registry w.ev) (fd : Nat) (b : Bool) :
    fdOk w' fd b ↔ fdOk w fd b := by
  unfold fdOk netRegistered regNet
  rw [h]

theorem timers_length (e : Ev) : e.timers.length = (registry e).timers.length := by
  simp [registry]

theorem timers_congr {w w' : World} (h : registry w'.ev = registry w.ev) :
    w'.ev.timers.length = w.ev.timers.length := by
  rw [timers_length, timers_length, h]

theorem readers_eq {w w' : World} (h : tables w' = tables w) : w'.readers = w.readers := congrArg Tables.readers h
theorem writers_eq {w w' : World} (h : tables w' = tables w) : w'.writers = w.writers := congrArg Tables.writers h

/-! ### the object a call names -/

theorem nbrWait_lookup (w : World) (rid len : Nat) :
    netbufReadWait w rid len = (.contract, w) ∨ ∃ r ∈ w.readers, r.id = rid := by
  cases hf : w.readers.find? (fun x => x.id == rid) with
  | none => left; simp only [netbufReadWait, hf]
  | some r => right; exact ⟨r, Run.find_key (fun x : Reader => x.id) hf⟩

theorem nbwReserve_lookup (w : World) (wid len : Nat) :
    netbufWriteReserve w wid len = (.contract, w) ∨ ∃ x ∈ w.writers, x.id = wid := by
  cases hf : w.writers.find? (fun x => x.id == wid) with
  | none => left; simp only [netbufWriteReserve, hf]
  | some r => right; exact ⟨r, Run.find_key (fun x : Writer => x.id) hf⟩

theorem nbwConsume_lookup (w : World) (wid len : Nat) :
    netbufWriteConsume w wid len = (.contract, w) ∨ ∃ x ∈ w.writers, x.id = wid := by
  cases hf : w.writers.find? (fun x => x.id == wid) with
  | none => left; simp only [netbufWriteConsume, hf]
  | some r => right; exact ⟨r, Run.find_key (fun x : Writer => x.id) hf⟩

theorem nbwWrite_lookup (w : World) (wid len : Nat) :
    netbufWriteWrite w wid len = (.contract, w) ∨ ∃ x ∈ w.writers, x.id = wid := by
  cases hf : w.writers.find? (fun x => x.id == wid) with
  | none => left; simp only [netbufWriteWrite, hf]
  | some r => right; exact ⟨r, Run.find_key (fun x : Writer => x.id) hf⟩

/-- the replacement is in the updated table -/
theorem mem_updReader' {l : List Reader} {r r' : Reader} (hr : r ∈ l) (hid : r'.id = r.id) : r' ∈ updReader l r' :=
  List.mem_map.2 ⟨r, hr, by simp [hid]⟩

theorem mem_updWriter' {l : List Writer} {x x' : Writer} (hx : x ∈ l) (hid : x'.id = x.id) : x' ∈ updWriter l x' :=
  List.mem_map.2 ⟨x, hx, by simp [hid]⟩

/-- an entry of the updated table with the replacement's id is the replacement -/
theorem eq_of_mem_updReader {l : List Reader} {r' y : Reader} (hy : y ∈ updReader l r') (hid : y.id = r'.id) : y = r' := by
  obtain ⟨x, _, hx⟩ := List.mem_map.1 hy
  by_cases hxi : x.id = r'.id
  · simp [hxi] at hx; exact hx.symm
  · simp [hxi] at hx; subst hx; exact absurd hid hxi

end Top
open Top

/-! ## (d) releases -/

/-- (d) releases cannot fail: under every oracle the call is made, the object and everything it held are gone -/
theorem stepR_release_ok (w : World) (op : Op) (h : Inv w) (hp : Present w op) :
    (stepR w op).1 = .ok ∧ gone w (stepR w op).2 op := by
  cases op with
  | readCancel c =>
    obtain ⟨⟨a, ha, rfl⟩, hown⟩ := hp
    obtain ⟨w', hcall, _, _, _, ht, _⟩ := networkReadCancel_spec w a h.toInv0 ha
    simp only [stepR, hown, hcall, Bool.false_eq_true, if_false, gone, true_and]
    intro b hb
    have : w'.reads = _ := congrArg Tables.reads ht
    rw [this] at hb
    simpa using (List.mem_filter.1 hb).2
  | writeCancel c =>
    obtain ⟨⟨a, ha, rfl⟩, hown⟩ := hp
    obtain ⟨w', hcall, _, _, _, ht, _⟩ := networkWriteCancel_spec w a h.toInv0 ha
    simp only [stepR, hown, hcall, Bool.false_eq_true, if_false, gone, true_and]
    intro b hb
    have : w'.writes = _ := congrArg Tables.writes ht
    rw [this] at hb
    simpa using (List.mem_filter.1 hb).2
  | acceptCancel c =>
    obtain ⟨a, ha, rfl⟩ := hp
    obtain ⟨w', hcall, _, _, _, _, ht, _⟩ := networkAcceptCancel_spec w a h.toInv0 ha
    simp only [stepR, hcall, gone, true_and]
    intro b hb
    have : w'.accepts = _ := congrArg Tables.accepts ht
    rw [this] at hb
    simpa using (List.mem_filter.1 hb).2
  | connectCancel c =>
    obtain ⟨⟨a, ha, rfl⟩, hown⟩ := hp
    obtain ⟨w', hcall, _, _, _, _, ht⟩ := networkConnectCancel_spec w a h.toInv0 ha
    simp only [stepR, hown, hcall, Bool.false_eq_true, if_false, gone, true_and]
    intro b hb
    have : w'.conns = _ := congrArg Tables.conns ht
    rw [this] at hb
    simpa using (List.mem_filter.1 hb).2
  | nbrCancel r =>
    obtain ⟨rd, hrd, rfl⟩ := hp
    obtain ⟨w', hcall, _, _, ht⟩ := netbufReadWaitCancel_spec w rd h.toInv0 hrd (h.refs.rdRef rd hrd)
    simp only [stepR, hcall, gone, true_and]
    intro y hy hid
    have : w'.readers = _ := congrArg Tables.readers ht
    rw [this] at hy
    have := eq_of_mem_updReader hy hid
    subst this
    exact ⟨rfl, rfl⟩
  | nbrFree r =>
    obtain ⟨rd, hrd, rfl, h1, h2⟩ := hp
    obtain ⟨w', hcall, _, _, _, _, ht⟩ := (netbufReadFree_spec w rd h.toInv0 hrd).2 h1 h2
    simp only [stepR, hcall, gone, true_and]
    intro b hb
    have : w'.readers = _ := congrArg Tables.readers ht
    rw [this] at hb
    simpa using (List.mem_filter.1 hb).2
  | nbwFree x =>
    obtain ⟨wr, hwr, rfl⟩ := hp
    obtain ⟨w', hcall, _, _, ht⟩ := netbufWriteFree_spec w wr h.toInv0 hwr (h.refs.wrRef wr hwr)
    simp only [stepR, hcall, gone, true_and]
    intro b hb
    have : w'.writers = _ := congrArg Tables.writers ht
    rw [this] at hb
    simpa using (List.mem_filter.1 hb).2
  | httpCancel c =>
    obtain ⟨x, hx, rfl⟩ := hp
    obtain ⟨w', hcall, _, _, ht⟩ := httpRequestCancel_spec w x h.toInv0 hx (h.refs.htRef x hx)
    simp only [stepR, hcall, gone, true_and]
    intro b hb
    have : w'.https = _ := congrArg Tables.https ht
    rw [this] at hb
    simpa using (List.mem_filter.1 hb).2
  | _ => exact hp.elim

/-- the upper layers' own release code requests no memory: with room in the pools' caches (`mpool_free`
never takes its slow path) the oracle is not consulted at all by these calls -/
theorem stepR_release_no_consultation (w : World) (op : Op) (h : Inv w) (hp : Present w op)
    (hrec : w.ev.recPool.stacklen < w.ev.recPool.allocsize) (hrd : w.rdPool.stacklen < w.rdPool.allocsize)
    (hwr : w.wrPool.stacklen < w.wrPool.allocsize)
    (hop : (∃ c, op = .readCancel c) ∨ (∃ c, op = .writeCancel c) ∨ (∃ c, op = .acceptCancel c) ∨ (∃ r, op = .nbrFree r)) :
    (stepR w op).2.m.n = w.m.n := by
  rcases hop with ⟨c, rfl⟩ | ⟨c, rfl⟩ | ⟨c, rfl⟩ | ⟨r, rfl⟩
  · obtain ⟨⟨a, ha, rfl⟩, hown⟩ := hp
    obtain ⟨w', hcall, _, _, _, _, hn⟩ := networkReadCancel_spec w a h.toInv0 ha
    simp only [stepR, hown, hcall, Bool.false_eq_true, if_false]
    exact hn hrec hrd
  · obtain ⟨⟨a, ha, rfl⟩, hown⟩ := hp
    obtain ⟨w', hcall, _, _, _, _, hn⟩ := networkWriteCancel_spec w a h.toInv0 ha
    simp only [stepR, hown, hcall, Bool.false_eq_true, if_false]
    exact hn hrec hwr
  · obtain ⟨a, ha, rfl⟩ := hp
    obtain ⟨w', hcall, _, _, _, _, _, hn⟩ := networkAcceptCancel_spec w a h.toInv0 ha
    simp only [stepR, hcall]
    exact hn hrec
  · obtain ⟨rd, hrd', rfl, h1, h2⟩ := hp
    obtain ⟨w', hcall, _, hn, _⟩ := (netbufReadFree_spec w rd h.toInv0 hrd').2 h1 h2
    simp only [stepR, hcall]
    exact hn

/-! ## (a) a refused request makes the call fail -/

/-- (a) a refused request inside a call that can fail makes it report failure -/
theorem stepR_refused_fails (w : World) (op : Op) (h : Inv w) (hs : isRelease op = false)
    (hr : (stepR w op).2.m.refusals ≠ w.m.refusals) : (stepR w op).1 = .fail := by
  cases op with
  | read fd =>
    rw [stepR_read] at hr ⊢; rw [ofOpt_snd] at hr
    obtain ⟨_, _, _, _, h5, _⟩ := networkRead_spec w fd h.toInv0
    exact ofOpt_fail.2 (h5 hr)
  | write fd =>
    rw [stepR_write] at hr ⊢; rw [ofOpt_snd] at hr
    obtain ⟨_, _, _, _, h5, _⟩ := networkWrite_spec w fd h.toInv0
    exact ofOpt_fail.2 (h5 hr)
  | accept fd =>
    rw [stepR_accept] at hr ⊢; rw [ofOpt_snd] at hr
    obtain ⟨_, _, _, _, h5, _⟩ := networkAccept_spec w fd h.toInv0
    exact ofOpt_fail.2 (h5 hr)
  | connect a t s =>
    rw [stepR_connect] at hr ⊢; rw [ofOpt_snd] at hr
    obtain ⟨_, _, _, _, h5, _⟩ := networkConnect_spec w a t s h.toInv0
    exact ofOpt_fail.2 (h5 hr)
  | http a l s =>
    rw [stepR_http] at hr ⊢; rw [ofOpt_snd] at hr
    obtain ⟨_, _, _, _, h5, _⟩ := httpRequest_spec w a l s h.toInv0
    exact ofOpt_fail.2 (h5 hr)
  | https a l s hl =>
    rw [stepR_https] at hr ⊢; rw [ofOpt_snd] at hr
    obtain ⟨_, _, _, _, h5, _⟩ := httpsRequest_spec w a l s hl h.toInv0
    exact ofOpt_fail.2 (h5 hr)
  | nbrInit fd =>
    rw [stepR_nbrInit] at hr ⊢; rw [ofOpt_snd] at hr
    apply ofOpt_fail.2
    cases ho : (netbufReadInit w fd).1 with
    | none => rfl
    | some x =>
      obtain ⟨b, _, _, he⟩ := (netbufReadInit_spec w fd h.toInv0).2.2.2 x ho
      exact absurd he hr
  | nbwInit fd =>
    rw [stepR_nbwInit] at hr ⊢; rw [ofOpt_snd] at hr
    apply ofOpt_fail.2
    cases ho : (netbufWriteInit w fd).1 with
    | none => rfl
    | some x => exact absurd ((netbufWriteInit_spec w fd h.toInv0).2.2.2 x ho).2.2 hr
  | nbrWait r len =>
    change (netbufReadWait w r len).2.m.refusals ≠ _ at hr
    show (netbufReadWait w r len).1 = .fail
    rcases nbrWait_lookup w r len with he | ⟨rd, hrd, rfl⟩
    · rw [he] at hr; exact absurd rfl hr
    · obtain ⟨_, _, _, _, _, _, h7, _⟩ := netbufReadWait_spec w rd len h.toInv0 hrd
      exact h7 hr
  | nbwReserve x len =>
    change (netbufWriteReserve w x len).2.m.refusals ≠ _ at hr
    show (netbufWriteReserve w x len).1 = .fail
    rcases nbwReserve_lookup w x len with he | ⟨wr, hwr, rfl⟩
    · rw [he] at hr; exact absurd rfl hr
    · obtain ⟨_, _, _, hcon, _, hok⟩ := netbufWriteReserve_spec w wr len h.toInv0 hwr
      cases hrc : (netbufWriteReserve w wr.id len).1 with
      | fail => rfl
      | contract => rw [hcon hrc] at hr; exact absurd rfl hr
      | ok => exact absurd (hok hrc).1 hr
  | nbwConsume x len =>
    change (netbufWriteConsume w x len).2.m.refusals ≠ _ at hr
    show (netbufWriteConsume w x len).1 = .fail
    rcases nbwConsume_lookup w x len with he | ⟨wr, hwr, rfl⟩
    · rw [he] at hr; exact absurd rfl hr
    · obtain ⟨_, _, _, _, _, _, h7, _⟩ := netbufWriteConsume_spec w wr len h.toInv0 hwr (h.refs.wrRef wr hwr)
      exact h7 hr
  | nbwWrite x len =>
    change (netbufWriteWrite w x len).2.m.refusals ≠ _ at hr
    show (netbufWriteWrite w x len).1 = .fail
    rcases nbwWrite_lookup w x len with he | ⟨wr, hwr, rfl⟩
    · rw [he] at hr; exact absurd rfl hr
    · obtain ⟨_, _, _, _, _, _, _, h8, _⟩ := netbufWriteWrite_spec w wr len h.toInv0 hwr (h.refs.wrRef wr hwr)
      exact h8 hr
  | _ => cases hs

/-! ## (b) a failure leaves nothing registered -/
namespace Top

/-- a release call reports `.ok` or is not made; it never reports failure -/
theorem release_not_fail (w : World) (op : Op) (hs : isRelease op = true) : (stepR w op).1 ≠ .fail := by
  intro hf
  cases op with
  | readCancel c => simp only [stepR] at hf; split at hf; · cases hf
                    split at hf <;> cases hf
  | writeCancel c => simp only [stepR] at hf; split at hf; · cases hf
                     split at hf <;> cases hf
  | connectCancel c => simp only [stepR] at hf; split at hf; · cases hf
                       split at hf <;> cases hf
  | acceptCancel c => simp only [stepR] at hf; split at hf <;> cases hf
  | nbrCancel c => simp only [stepR] at hf; split at hf <;> cases hf
  | nbrFree c => simp only [stepR] at hf; split at hf <;> cases hf
  | nbwFree c => simp only [stepR] at hf; split at hf <;> cases hf
  | httpCancel c => simp only [stepR] at hf; split at hf <;> cases hf
  | _ => cases hs

/-- what a failed `netbuf_write_consume` leaves -/
theorem nbwConsume_fail {w : World} {wr : Writer} {len : Nat} (h : Inv w) (hwr : wr ∈ w.writers)
    (hf : (netbufWriteConsume w wr.id len).1 = .fail) :
    ∃ x' : Writer, x'.id = wr.id ∧ x'.fd = wr.fd ∧ x'.reserved = false ∧
      tables (netbufWriteConsume w wr.id len).2 = { tables w with writers := updWriter w.writers x' } ∧
      registry (netbufWriteConsume w wr.id len).2.ev = registry w.ev := by
  obtain ⟨_, _, _, _, hrest, _⟩ := netbufWriteConsume_spec w wr len h.toInv0 hwr (h.refs.wrRef wr hwr)
  obtain ⟨x', h1, h2, h3, _, hc⟩ := hrest (by rw [hf]; intro hh; cases hh)
  rcases hc with ⟨_, ht, hreg⟩ | ⟨_, hok, _⟩
  · exact ⟨x', h1, h2, h3, ht, hreg⟩
  · rw [hf] at hok; cases hok

/-- what a failed `netbuf_write_write` leaves -/
theorem nbwWrite_fail {w : World} {wr : Writer} {len : Nat} (h : Inv w) (hwr : wr ∈ w.writers)
    (hf : (netbufWriteWrite w wr.id len).1 = .fail) :
    ∃ x' : Writer, x'.id = wr.id ∧ x'.fd = wr.fd ∧ x'.reserved = false ∧
      tables (netbufWriteWrite w wr.id len).2 = { tables w with writers := updWriter w.writers x' } ∧
      registry (netbufWriteWrite w wr.id len).2.ev = registry w.ev := by
  obtain ⟨_, _, hfl, _, _, hrest, _⟩ := netbufWriteWrite_spec w wr len h.toInv0 hwr (h.refs.wrRef wr hwr)
  cases hfailed : wr.failed with
  | true => rw [hfl hfailed] at hf; cases hf
  | false =>
    obtain ⟨x', h1, h2, h3, _, hc⟩ := hrest hfailed (by rw [hf]; intro hh; cases hh)
    rcases hc with ⟨_, ht, hreg⟩ | ⟨_, hok, _⟩
    · exact ⟨x', h1, h2, h3, ht, hreg⟩
    · rw [hf] at hok; cases hok

theorem fail_registry (w : World) (op : Op) (h : Inv w) (hf : (stepR w op).1 = .fail) :
    registry (stepR w op).2.ev = registry w.ev := by
  cases op with
  | read fd =>
    rw [stepR_read] at hf ⊢; rw [ofOpt_snd]
    exact ((networkRead_spec w fd h.toInv0).2.2.1 (ofOpt_fail.1 hf)).registry
  | write fd =>
    rw [stepR_write] at hf ⊢; rw [ofOpt_snd]
    exact ((networkWrite_spec w fd h.toInv0).2.2.1 (ofOpt_fail.1 hf)).registry
  | accept fd =>
    rw [stepR_accept] at hf ⊢; rw [ofOpt_snd]
    exact ((networkAccept_spec w fd h.toInv0).2.2.1 (ofOpt_fail.1 hf)).registry
  | connect a t s =>
    rw [stepR_connect] at hf ⊢; rw [ofOpt_snd]
    exact ((networkConnect_spec w a t s h.toInv0).2.2.1 (ofOpt_fail.1 hf)).registry
  | http a l s =>
    rw [stepR_http] at hf ⊢; rw [ofOpt_snd]
    exact ((httpRequest_spec w a l s h.toInv0).2.2.1 (ofOpt_fail.1 hf)).registry
  | https a l s hl =>
    rw [stepR_https] at hf ⊢; rw [ofOpt_snd]
    exact ((httpsRequest_spec w a l s hl h.toInv0).2.2.1 (ofOpt_fail.1 hf)).registry
  | nbrInit fd =>
    rw [stepR_nbrInit] at hf ⊢; rw [ofOpt_snd]
    exact ((netbufReadInit_spec w fd h.toInv0).2.2.1 (ofOpt_fail.1 hf)).1.registry
  | nbwInit fd =>
    rw [stepR_nbwInit] at hf ⊢; rw [ofOpt_snd]
    exact ((netbufWriteInit_spec w fd h.toInv0).2.2.1 (ofOpt_fail.1 hf)).1.registry
  | nbrWait r len =>
    change (netbufReadWait w r len).1 = .fail at hf
    show registry (netbufReadWait w r len).2.ev = _
    rcases nbrWait_lookup w r len with he | ⟨rd, hrd, rfl⟩
    · rw [he] at hf; cases hf
    · obtain ⟨_, _, _, _, h5, _⟩ := netbufReadWait_spec w rd len h.toInv0 hrd
      exact (h5 hf).1
  | nbwReserve x len =>
    change (netbufWriteReserve w x len).1 = .fail at hf
    show registry (netbufWriteReserve w x len).2.ev = _
    rcases nbwReserve_lookup w x len with he | ⟨wr, hwr, rfl⟩
    · rw [he] at hf; cases hf
    · obtain ⟨_, _, _, _, h5, _⟩ := netbufWriteReserve_spec w wr len h.toInv0 hwr
      exact (h5 hf).1.registry
  | nbwConsume x len =>
    change (netbufWriteConsume w x len).1 = .fail at hf
    show registry (netbufWriteConsume w x len).2.ev = _
    rcases nbwConsume_lookup w x len with he | ⟨wr, hwr, rfl⟩
    · rw [he] at hf; cases hf
    · obtain ⟨_, _, _, _, _, hreg⟩ := nbwConsume_fail h hwr hf
      exact hreg
  | nbwWrite x len =>
    change (netbufWriteWrite w x len).1 = .fail at hf
    show registry (netbufWriteWrite w x len).2.ev = _
    rcases nbwWrite_lookup w x len with he | ⟨wr, hwr, rfl⟩
    · rw [he] at hf; cases hf
    · obtain ⟨_, _, _, _, _, hreg⟩ := nbwWrite_fail h hwr hf
      exact hreg
  | readCancel c => exact absurd hf (release_not_fail w _ rfl)
  | writeCancel c => exact absurd hf (release_not_fail w _ rfl)
  | acceptCancel c => exact absurd hf (release_not_fail w _ rfl)
  | connectCancel c => exact absurd hf (release_not_fail w _ rfl)
  | nbrCancel c => exact absurd hf (release_not_fail w _ rfl)
  | nbrFree c => exact absurd hf (release_not_fail w _ rfl)
  | nbwFree c => exact absurd hf (release_not_fail w _ rfl)
  | httpCancel c => exact absurd hf (release_not_fail w _ rfl)

end Top

/-- (b) a reported failure leaves nothing registered and loses nothing -/
theorem stepR_fail_registry (w : World) (op : Op) (h : Inv w) (hf : (stepR w op).1 = .fail) :
    registry (stepR w op).2.ev = registry w.ev ∧ (stepR w op).2.bad = 0 ∧ isRelease op = false := by
  refine ⟨fail_registry w op h hf, (stepR_inv w op h).bad0, ?_⟩
  cases hrel : isRelease op with
  | false => rfl
  | true => exact absurd hf (release_not_fail w op hrel)

theorem stepR_fail_same (w : World) (op : Op) (h : Inv w) (ha : isAtomic op = true) (hf : (stepR w op).1 = .fail) :
    Same w (stepR w op).2 := by
  cases op with
  | read fd =>
    rw [stepR_read] at hf ⊢; rw [ofOpt_snd]
    exact (networkRead_spec w fd h.toInv0).2.2.1 (ofOpt_fail.1 hf)
  | write fd =>
    rw [stepR_write] at hf ⊢; rw [ofOpt_snd]
    exact (networkWrite_spec w fd h.toInv0).2.2.1 (ofOpt_fail.1 hf)
  | accept fd =>
    rw [stepR_accept] at hf ⊢; rw [ofOpt_snd]
    exact (networkAccept_spec w fd h.toInv0).2.2.1 (ofOpt_fail.1 hf)
  | connect a t s =>
    rw [stepR_connect] at hf ⊢; rw [ofOpt_snd]
    exact (networkConnect_spec w a t s h.toInv0).2.2.1 (ofOpt_fail.1 hf)
  | http a l s =>
    rw [stepR_http] at hf ⊢; rw [ofOpt_snd]
    exact (httpRequest_spec w a l s h.toInv0).2.2.1 (ofOpt_fail.1 hf)
  | https a l s hl =>
    rw [stepR_https] at hf ⊢; rw [ofOpt_snd]
    exact (httpsRequest_spec w a l s hl h.toInv0).2.2.1 (ofOpt_fail.1 hf)
  | nbrInit fd =>
    rw [stepR_nbrInit] at hf ⊢; rw [ofOpt_snd]
    exact ((netbufReadInit_spec w fd h.toInv0).2.2.1 (ofOpt_fail.1 hf)).1
  | nbwInit fd =>
    rw [stepR_nbwInit] at hf ⊢; rw [ofOpt_snd]
    exact ((netbufWriteInit_spec w fd h.toInv0).2.2.1 (ofOpt_fail.1 hf)).1
  | nbwReserve x len =>
    change (netbufWriteReserve w x len).1 = .fail at hf
    show Same w (netbufWriteReserve w x len).2
    rcases nbwReserve_lookup w x len with he | ⟨wr, hwr, rfl⟩
    · rw [he] at hf; cases hf
    · obtain ⟨_, _, _, _, h5, _⟩ := netbufWriteReserve_spec w wr len h.toInv0 hwr
      exact (h5 hf).1
  | _ => cases ha

/-! ## a call that is `Ready` fails only because a request was refused -/

/-- a failure of a call that is `Ready` comes from a refused request -/
theorem stepR_fail_refused (w : World) (op : Op) (h : Inv w) (hrdy : Ready w op) (hf : (stepR w op).1 = .fail) :
    w.m.refusals < (stepR w op).2.m.refusals := by
  cases op with
  | read fd =>
    rw [stepR_read] at hf ⊢; rw [ofOpt_snd]
    obtain ⟨_, _, _, _, _, h6⟩ := networkRead_spec w fd h.toInv0
    exact h6 (ofOpt_fail.1 hf) hrdy.1 hrdy.2
  | write fd =>
    rw [stepR_write] at hf ⊢; rw [ofOpt_snd]
    obtain ⟨_, _, _, _, _, h6⟩ := networkWrite_spec w fd h.toInv0
    exact h6 (ofOpt_fail.1 hf) hrdy.1 hrdy.2
  | accept fd =>
    rw [stepR_accept] at hf ⊢; rw [ofOpt_snd]
    obtain ⟨_, _, _, _, _, h6⟩ := networkAccept_spec w fd h.toInv0
    exact h6 (ofOpt_fail.1 hf) hrdy.1 hrdy.2
  | connect a t s =>
    rw [stepR_connect] at hf ⊢; rw [ofOpt_snd]
    obtain ⟨_, _, _, _, _, h6⟩ := networkConnect_spec w a t s h.toInv0
    exact h6 (ofOpt_fail.1 hf) hrdy.1 hrdy.2
  | http a l s =>
    rw [stepR_http] at hf ⊢; rw [ofOpt_snd]
    obtain ⟨_, _, _, _, _, h6⟩ := httpRequest_spec w a l s h.toInv0
    exact h6 (ofOpt_fail.1 hf) hrdy.1 hrdy.2
  | https a l s hl =>
    rw [stepR_https] at hf ⊢; rw [ofOpt_snd]
    obtain ⟨_, _, _, _, _, h6⟩ := httpsRequest_spec w a l s hl h.toInv0
    exact h6 (ofOpt_fail.1 hf) hrdy.1 hrdy.2
  | nbrInit fd =>
    rw [stepR_nbrInit] at hf ⊢; rw [ofOpt_snd]
    exact ((netbufReadInit_spec w fd h.toInv0).2.2.1 (ofOpt_fail.1 hf)).2
  | nbwInit fd =>
    rw [stepR_nbwInit] at hf ⊢; rw [ofOpt_snd]
    exact ((netbufWriteInit_spec w fd h.toInv0).2.2.1 (ofOpt_fail.1 hf)).2
  | nbrWait r len =>
    obtain ⟨rd, hrd, rfl, _, _, hfd⟩ := hrdy
    obtain ⟨_, _, _, _, _, _, _, h8⟩ := netbufReadWait_spec w rd len h.toInv0 hrd
    exact h8 hf hfd.1 hfd.2
  | nbwReserve x len =>
    obtain ⟨wr, hwr, rfl, _⟩ := hrdy
    obtain ⟨_, _, _, _, h5, _⟩ := netbufWriteReserve_spec w wr len h.toInv0 hwr
    exact (h5 hf).2
  | nbwConsume x len =>
    obtain ⟨wr, hwr, rfl, _, hfd⟩ := hrdy
    obtain ⟨_, _, _, _, _, _, _, h8⟩ := netbufWriteConsume_spec w wr len h.toInv0 hwr (h.refs.wrRef wr hwr)
    exact h8 hf hfd.1 hfd.2
  | nbwWrite x len =>
    obtain ⟨wr, hwr, rfl, _, hfd⟩ := hrdy
    obtain ⟨_, _, _, _, _, _, _, _, h9⟩ := netbufWriteWrite_spec w wr len h.toInv0 hwr (h.refs.wrRef wr hwr)
    exact h9 hf hfd.1 hfd.2
  | _ => exact hrdy.elim

namespace Top

/-- a call that is `Ready` is within the usage contract -/
theorem ready_not_contract (w : World) (op : Op) (h : Inv w) (hrdy : Ready w op) : (stepR w op).1 ≠ .contract := by
  cases op with
  | read fd => exact ofOpt_ne_contract _
  | write fd => exact ofOpt_ne_contract _
  | accept fd => exact ofOpt_ne_contract _
  | connect a t s => exact ofOpt_ne_contract _
  | http a l s => exact ofOpt_ne_contract _
  | https a l s hl => exact ofOpt_ne_contract _
  | nbrInit fd => exact ofOpt_ne_contract _
  | nbwInit fd => exact ofOpt_ne_contract _
  | nbrWait r len =>
    obtain ⟨rd, hrd, rfl, h1, h2, _⟩ := hrdy
    obtain ⟨_, _, hciff, _⟩ := netbufReadWait_spec w rd len h.toInv0 hrd
    intro hc
    rcases hciff.1 hc with hh | hh
    · rw [h1] at hh; cases hh
    · rw [h2] at hh; cases hh
  | nbwReserve x len =>
    obtain ⟨wr, hwr, rfl, h1⟩ := hrdy
    obtain ⟨_, _, hciff, _⟩ := netbufWriteReserve_spec w wr len h.toInv0 hwr
    intro hc
    have hh := hciff.1 hc
    rw [h1] at hh; cases hh
  | nbwConsume x len =>
    obtain ⟨wr, hwr, rfl, h1, _⟩ := hrdy
    obtain ⟨_, _, hciff, _⟩ := netbufWriteConsume_spec w wr len h.toInv0 hwr (h.refs.wrRef wr hwr)
    intro hc
    exact hciff.1 hc h1
  | nbwWrite x len =>
    obtain ⟨wr, hwr, rfl, h1, _⟩ := hrdy
    obtain ⟨_, _, _, hciff, _⟩ := netbufWriteWrite_spec w wr len h.toInv0 hwr (h.refs.wrRef wr hwr)
    intro hc
    have hh := (hciff.1 hc).2
    rw [h1] at hh; cases hh
  | _ => exact hrdy.elim

end Top

/-- … so it succeeds when the allocator grants what is asked -/
theorem stepR_granted_ok (w : World) (op : Op) (h : Inv w) (hrdy : Ready w op) (hg : Granted w.m) :
    (stepR w op).1 = .ok := by
  cases hrc : (stepR w op).1 with
  | ok => rfl
  | contract => exact absurd hrc (ready_not_contract w op h hrdy)
  | fail =>
    have h1 := stepR_fail_refused w op h hrdy hrc
    have h2 := (stepR_step w op h).g hg
    omega

/-! ## the call can be made again -/
namespace Top

/-- `Ready` depends on the tables and the registry only -/
theorem ready_of_same {w w' : World} (hs : Same w w') (op : Op) (hrdy : Ready w op) : Ready w' op := by
  have hreg := hs.registry
  cases op with
  | read fd => exact (fdOk_congr hreg fd false).2 hrdy
  | write fd => exact (fdOk_congr hreg fd true).2 hrdy
  | accept fd => exact (fdOk_congr hreg fd false).2 hrdy
  | connect a t s =>
    exact ⟨fun hne => (fdOk_congr hreg s true).2 (hrdy.1 hne), by rw [timers_congr hreg]; exact hrdy.2⟩
  | http a l s =>
    exact ⟨fun hne => (fdOk_congr hreg s true).2 (hrdy.1 hne), by rw [timers_congr hreg]; exact hrdy.2⟩
  | https a l s hl =>
    exact ⟨fun hne => (fdOk_congr hreg s true).2 (hrdy.1 hne), by rw [timers_congr hreg]; exact hrdy.2⟩
  | nbrInit fd => exact trivial
  | nbwInit fd => exact trivial
  | nbrWait r len =>
    obtain ⟨rd, hrd, hid, h1, h2, h3⟩ := hrdy
    exact ⟨rd, by rw [readers_eq hs.tables]; exact hrd, hid, h1, h2, (fdOk_congr hreg _ _).2 h3⟩
  | nbwReserve x len =>
    obtain ⟨wr, hwr, hid, h1⟩ := hrdy
    exact ⟨wr, by rw [writers_eq hs.tables]; exact hwr, hid, h1⟩
  | nbwConsume x len =>
    obtain ⟨wr, hwr, hid, h1, h3⟩ := hrdy
    exact ⟨wr, by rw [writers_eq hs.tables]; exact hwr, hid, h1, (fdOk_congr hreg _ _).2 h3⟩
  | nbwWrite x len =>
    obtain ⟨wr, hwr, hid, h1, h3⟩ := hrdy
    exact ⟨wr, by rw [writers_eq hs.tables]; exact hwr, hid, h1, (fdOk_congr hreg _ _).2 h3⟩
  | _ => exact hrdy.elim

end Top

/-- the same call can be made again after a failure (`netbuf_write_consume` excepted: its reservation is
consumed even when starting the transfer fails) -/
theorem ready_after_fail (w : World) (op : Op) (h : Inv w) (hrdy : Ready w op) (hf : (stepR w op).1 = .fail)
    (hc : ∀ x len, op ≠ .nbwConsume x len) : Ready (stepR w op).2 op := by
  by_cases ha : isAtomic op = true
  · exact ready_of_same (stepR_fail_same w op h ha hf) op hrdy
  · cases op with
    | nbrWait r len =>
      obtain ⟨rd, hrd, rfl, _, _, hfd⟩ := hrdy
      obtain ⟨_, _, _, _, h5, _⟩ := netbufReadWait_spec w rd len h.toInv0 hrd
      obtain ⟨hreg, r', hid, hfd', _, hc', him', ht⟩ := h5 hf
      refine ⟨r', ?_, hid, hc', him', ?_⟩
      · have : (netbufReadWait w rd.id len).2.readers = _ := congrArg Tables.readers ht
        show r' ∈ (netbufReadWait w rd.id len).2.readers
        rw [this]; exact mem_updReader' hrd hid
      · rw [hfd']; exact (fdOk_congr hreg _ _).2 hfd
    | nbwWrite x len =>
      obtain ⟨wr, hwr, rfl, _, hfd⟩ := hrdy
      obtain ⟨x', hid, hfd', hres, ht, hreg⟩ := nbwWrite_fail h hwr hf
      refine ⟨x', ?_, hid, hres, ?_⟩
      · have : (netbufWriteWrite w wr.id len).2.writers = _ := congrArg Tables.writers ht
        show x' ∈ (netbufWriteWrite w wr.id len).2.writers
        rw [this]; exact mem_updWriter' hwr hid
      · rw [hfd']; exact (fdOk_congr hreg _ _).2 hfd
    | nbwConsume x len => exact absurd rfl (hc x len)
    | _ => first | exact hrdy.elim | exact absurd rfl ha

end Percival.Proofs.AllocFailUpper
