import Percival.Proofs.EventsC05Run
/-!
# C05: the loops of events_run_internal and the whole program (helper lemmas for `run_admissible_C05`)
-/
set_option linter.unusedSimpArgs false
namespace Percival.Proofs.EventsC05
open Percival.Spec.Events Percival.Model.Events Percival.Model
open Percival.Proofs.EventsNet Percival.Proofs.EventsImm Percival.Proofs.EventsTQ

/-! ## events_run_internal -/

/-- the monitor will accept `ret rc` -/
def Exit (rc : Int) (m : C05.M) : Prop :=
  match m.stop with
  | some c => rc = c
  | none => rc = 0 ∧ ((m.startIntr = false ∧ m.intr = false) →
      ¬ (m.startRunnable = true ∧ m.fired = 0) ∧ m.mustFire = false ∧
      ¬ (m.polled = true ∧ m.nets.any (·.ready) = true) ∧ ¬ (m.polled = true ∧ C05.expired m = true))

theorem exit_stop {m : C05.M} {c : Int} (h : m.stop = some c) : Exit c m := by
  unfold Exit; rw [h]

theorem exit_intr {m : C05.M} (h : m.stop = none) (hi : m.intr = true) : Exit 0 m := by
  unfold Exit; rw [h]
  exact ⟨rfl, fun hh => by rw [hi] at hh; cases hh.2⟩

theorem exit_afterCb_ne {X : C05.M → Prop} {rc : Int} {m : C05.M} (h : AfterCb X rc m) (hrc : rc ≠ 0) : Exit rc m := by
  obtain ⟨_, _, _, hst⟩ := h
  rw [if_pos hrc] at hst
  exact exit_stop hst

/-- the condition at the top of the `do { … } while (1)` loop -/
structure LoopTop (m : C05.M) (s : State) : Prop where
  stopish : m.stop = none ∨ (m.stop = some 0 ∧ m.intr = true)
  prog : (m.fired ≥ 1 ∧ m.mustFire = false) ∨
         (s.net.scan = topScan s.net ∧
          (m.fired = 0 → m.startRunnable = true → C05.runnable m = true) ∧
          (m.mustFire = true → m.nets.any (·.ready) = true ∨ C05.expired m = true))

theorem top_afterCb {X : C05.M → Prop} {m : C05.M} (s : State) (h : AfterCb X 0 m) : LoopTop m s := by
  obtain ⟨h1, h2, _, hst⟩ := h
  rw [if_neg (by simp)] at hst
  refine ⟨?_, Or.inl ⟨h1, h2⟩⟩
  by_cases hi : m.intr = true
  · rw [if_pos hi] at hst; exact Or.inr ⟨hst, hi⟩
  · rw [if_neg hi] at hst; exact Or.inl hst

/-- a callback was just invoked: run it, then either stop with its status or go round the loop again -/
theorem after_fire (C : TQContract) (s1 s2 : State) (id : Nat) (rc : Int)
    (hfire : Fireable C (fun _ => True) s1 id) (hd : doevent s1 id = (s2, rc)) :
    Good C (fun m _ => AfterCb (fun _ => True) rc m) s2 := by
  have := doevent_good C (fun _ => True) (fun _ _ _ _ => trivial) (fun _ _ _ => trivial) s1 id hfire
  rw [hd] at this
  exact this

theorem mkFireable {C : TQContract} {s s1 : State} {m m' : C05.M} {id : Nat} (hf : s1.fault = false)
    (ht : s1.trace = s.trace) (hm : C05.run {} s.trace.reverse = .ok m)
    (hs : C05.step m (.cb id) = .ok m') (hr : Rel C m' s1) (hfired : Fired m m') (hstop : m.stop = none) :
    Fireable C (fun _ => True) s1 id := by
  obtain ⟨f1, f2, f3, _⟩ := hfired
  exact ⟨hf, m, m', by rw [ht]; exact hm, hs, hr, by rw [f1]; exact hstop, by rw [f2]; omega, f3, trivial⟩


theorem selectTimeout_zero : selectTimeout (some (0, 0)) = 0 := by decide

theorem good_of_weak {C : TQContract} {P : C05.M → State → Prop} {s : State} (h : Weak C P s) (hf : s.fault = false) :
    Good C P s := by
  rcases h with h | ⟨h, _⟩
  · exact h
  · rw [hf] at h; cases h

/-- the loop: whatever it returns, the monitor will accept that return value -/
theorem mainLoop_weak (C : TQContract) : ∀ (f : Nat) (s : State), Good C LoopTop s →
    Weak C (fun m _ => Exit (mainLoop f s).2 m) (mainLoop f s).1 := by
  intro f
  induction f with
  | zero => intro s h; exact weak_faulted C _ h.adm
  | succ f ih =>
    intro s hg
    obtain ⟨hf, m, hm, hr, htop⟩ := hg
    -- what happens after any callback was fired from a state `s1` that shares trace/fault/pollq with `s`
    have fire : ∀ (s1 : State) (id : Nat), Fireable C (fun _ => True) s1 id →
        Weak C (fun m _ => Exit (if (doevent s1 id).2 ≠ 0 then ((doevent s1 id).1, (doevent s1 id).2) else mainLoop f (doevent s1 id).1).2 m)
          (if (doevent s1 id).2 ≠ 0 then ((doevent s1 id).1, (doevent s1 id).2) else mainLoop f (doevent s1 id).1).1 := by
      intro s1 id hfire
      cases hd : doevent s1 id with
      | mk s2 rc =>
        have h2 := after_fire C s1 s2 id rc hfire hd
        simp only
        by_cases hrc : rc ≠ 0
        · rw [if_pos hrc]
          exact Or.inl (h2.mono (fun m _ hp => exit_afterCb_ne hp hrc))
        · rw [if_neg hrc]
          have hrc0 : rc = 0 := by simpa using hrc
          subst hrc0
          exact ih s2 (h2.mono (fun m _ hp => top_afterCb s2 hp))
    have hfc : ¬ (s.fault = true) := by simp [hf]
    unfold mainLoop
    rw [if_neg hfc]
    by_cases hi : s.intr = true
    · -- interrupted
      rw [if_pos hi]
      refine Or.inl ⟨hf, m, hm, hr, ?_⟩
      have hmi : m.intr = true := by rw [hr.intr]; exact hi
      rcases htop.stopish with h0 | ⟨h0, _⟩
      · exact exit_intr h0 hmi
      · exact exit_stop h0
    · have hi' : s.intr = false := by simpa using hi
      rw [if_neg hi]
      have hmi : m.intr = false := by rw [hr.intr]; exact hi'
      have hstop : m.stop = none := by
        rcases htop.stopish with h0 | ⟨_, h1⟩
        · exact h0
        · rw [hmi] at h1; cases h1
      rcases immGetS_cases hr hstop with ⟨q', heq, hr1, himm⟩ | ⟨q', id, m', heq, hs, hr1, hfired⟩
      · rw [heq]; dsimp only
        rcases netGetS_cases hr1 hstop himm with ⟨n2, heq2, hr2, hclear2⟩ | ⟨n2, id, m', heq2, hs, hr2, hfired⟩
        · rw [heq2]; dsimp only
          rw [if_neg hfc]
          -- nothing found: what remains of the loop-top facts
          have hmf : m.mustFire = true → C05.expired m = true := by
            intro hmf
            rcases htop.prog with ⟨_, h2⟩ | ⟨hsc, _, h3⟩
            · rw [h2] at hmf; cases hmf
            · rcases h3 hmf with h | h
              · rw [hclear2 hsc] at h; cases h
              · exact h
          have hp1 : m.fired = 0 → m.startRunnable = true → C05.runnable m = true := by
            intro h0 hsr
            rcases htop.prog with ⟨h1, _⟩ | ⟨_, h2, _⟩
            · omega
            · exact h2 h0 hsr
          -- the zero-timeout poll
          obtain ⟨m3, hp⟩ := pollLoop_post C none ({ s with imm := q', net := n2 } : State).pollq (selectTimeout (some (0, 0)))
            { s with imm := q', net := n2 } m hf hm hr2 hstop (by rw [selectTimeout_zero]; exact checkPoll_zero m)
            (by show selectTimeout (some (0, 0)) ≤ 0; rw [selectTimeout_zero]; omega)
          have hs3 : netSelect { s with imm := q', net := n2 } (some (0, 0)) =
              { pollLoop { s with imm := q', net := n2 } none (selectTimeout (some (0, 0))) s.pollq with
                net := { (pollLoop { s with imm := q', net := n2 } none (selectTimeout (some (0, 0))) s.pollq).net with
                  scan := topScan (pollLoop { s with imm := q', net := n2 } none (selectTimeout (some (0, 0))) s.pollq).net } } := rfl
          rw [hs3]
          generalize hs1 : pollLoop ({ s with imm := q', net := n2 } : State) none (selectTimeout (some (0, 0))) s.pollq = sp at hp
          -- an interrupt request made by a signal handler during this non-blocking poll does not stop the pass
          have hstop3 : m3.stop = none := by
            rcases hp.stop with h | ⟨h, _⟩
            · exact h
            · exact absurd selectTimeout_zero h
          have hmf3 := hp.mf
          have hmf3' : m3.mustFire = true → C05.expired m3 = true := by
            intro h
            rcases hmf3 h with h1 | ⟨h1, _⟩
            · exact expired_mono hp.tms hp.clock (hmf h1)
            · exact absurd selectTimeout_zero h1
          have himm3 : m3.imms = [] := by rw [hp.imms]; exact himm
          have hp13 : m3.fired = 0 → m3.startRunnable = true → C05.runnable m3 = true := by
            intro h0 hsr
            rw [hp.fired] at h0; rw [hp.sr] at hsr
            exact runnable_mono hp.imms hp.tms hp.clock (hp1 h0 hsr)
          -- second scan, from the top
          rcases netGetS_cases hp.rel hstop3 himm3 with ⟨n4, heq4, hr4, hclear4⟩ | ⟨n4, id, m', heq4, hs, hr4, hfired⟩
          · rw [heq4]; dsimp only
            rw [if_neg (by simp [hp.fault])]
            have hnr : m3.nets.any (·.ready) = false := hclear4 rfl
            have hlook3 : m3.looked = true := by
              rcases hp.looked with h | h
              · exact h
              · exact absurd h hi
            rcases timerGet_cases hr4 hstop3 himm3 hnr hlook3 with ⟨heq5, hexp⟩ | ⟨s5, id, m', heq5, hs, hr5, hfired, e1, _, e3⟩
            · -- nothing left to do
              rw [heq5]; dsimp only
              refine Or.inl ⟨hp.fault, m3, hp.run, hr4, ?_⟩
              show Exit 0 m3
              unfold Exit
              rw [hstop3]
              refine ⟨rfl, fun _ => ⟨?_, ?_, ?_, ?_⟩⟩
              · rintro ⟨hsr, h0⟩
                have := hp13 h0 hsr
                simp [C05.runnable, himm3, hexp] at this
              · cases hmf4 : m3.mustFire with
                | false => rfl
                | true => rw [hmf3' hmf4] at hexp; cases hexp
              · rintro ⟨_, h⟩; rw [hnr] at h; cases h
              · rintro ⟨_, h⟩; rw [hexp] at h; cases h
            · rw [heq5]; dsimp only
              exact fire s5 id (mkFireable (by rw [e1]; exact hp.fault) e3 hp.run hs hr5 hfired hstop3)
          · rw [heq4]; dsimp only
            exact fire _ id (mkFireable hp.fault rfl hp.run hs hr4 hfired hstop3)
        · rw [heq2]; dsimp only
          exact fire _ id (mkFireable hf rfl hm hs hr2 hfired hstop)
      · rw [heq]; dsimp only
        exact fire _ id (mkFireable hf rfl hm hs hr1 hfired hstop)


/-- the immediate-only path: no poll has happened -/
def NoPoll (m : C05.M) : Prop := m.polled = false

theorem noPoll_ctl : ∀ m m', Ctl m m' → NoPoll m → NoPoll m' := by
  rintro m m' ⟨_, _, h, _⟩ hp; unfold NoPoll at *; rw [h]; exact hp

theorem immLoop_weak (C : TQContract) : ∀ (f : Nat) (s : State) (id : Nat), Fireable C NoPoll s id →
    Weak C (fun m _ => Exit (immLoop f s id).2 m) (immLoop f s id).1 := by
  intro f
  induction f with
  | zero => intro s id h; exact weak_faulted C _ h.adm
  | succ f ih =>
    intro s id h
    have h1 := doevent_good C NoPoll noPoll_ctl (fun _ _ h => h) s id h
    unfold immLoop
    cases hd : doevent s id with
    | mk s1 rc =>
      rw [hd] at h1
      dsimp only at h1 ⊢
      by_cases hrc : rc ≠ 0
      · rw [if_pos hrc]
        exact Or.inl (h1.mono (fun m _ hp => exit_afterCb_ne hp hrc))
      · rw [if_neg hrc]
        have hrc0 : rc = 0 := by simpa using hrc
        subst hrc0
        obtain ⟨hf1, m, hm, hr, hfired, hmf, hnp, hst⟩ := h1
        rw [if_neg (by simp)] at hst
        by_cases hi : s1.intr = true
        · rw [if_pos hi]
          have hmi : m.intr = true := by rw [hr.intr]; exact hi
          rw [if_pos hmi] at hst
          exact Or.inl ⟨hf1, m, hm, hr, exit_stop hst⟩
        · rw [if_neg hi]
          have hmi : ¬ (m.intr = true) := by rw [hr.intr]; exact hi
          rw [if_neg hmi] at hst
          rw [if_neg (by simp [hf1])]
          rcases immGetS_cases hr hst with ⟨q', heq, hr1, himm⟩ | ⟨q', id', m', heq, hs, hr1, hfd⟩
          · rw [heq]; dsimp only
            refine Or.inl ⟨hf1, m, hm, hr1, ?_⟩
            show Exit 0 m
            unfold Exit
            rw [hst]
            refine ⟨rfl, fun _ => ⟨?_, hmf, ?_, ?_⟩⟩
            · rintro ⟨_, h0⟩; omega
            · rintro ⟨hp, _⟩; rw [hnp] at hp; cases hp
            · rintro ⟨hp, _⟩; rw [hnp] at hp; cases hp
          · rw [heq]; dsimp only
            apply ih
            obtain ⟨f1, f2, f3, _, f5, _⟩ := hfd
            exact ⟨hf1, m, m', hm, hs, hr1, by rw [f1]; exact hst, by rw [f2]; omega, f3,
              by unfold NoPoll at *; rw [f5]; exact hnp⟩

/-- the monitor's state right after `runBegin` -/
structure Begun (m : C05.M) : Prop where
  stop : m.stop = none
  fired : m.fired = 0
  mf : m.mustFire = false
  polled : m.polled = false
  sr : m.startRunnable = C05.runnable m

theorem runInternal_weak (C : TQContract) (fuel : Nat) (s : State) (h : Good C (fun m _ => Begun m) s) :
    Weak C (fun m _ => Exit (runInternal fuel s).2 m) (runInternal fuel s).1 := by
  obtain ⟨hf, m, hm, hr, hb⟩ := h
  unfold runInternal
  rcases immGetS_cases hr hb.stop with ⟨q', heq, hr1, himm⟩ | ⟨q', id, m', heq, hs, hr1, hfd⟩
  · rw [heq]; dsimp only
    -- the first, possibly blocking, poll
    have hc := checkPoll_first hr1 himm
    have hw := waitOk_first hr1 himm
    obtain ⟨m2, hp⟩ := pollLoop_post C (waitStart ({ s with imm := q' } : State) (timerMin ({ s with imm := q' } : State)))
      ({ s with imm := q' } : State).pollq (selectTimeout (timerMin ({ s with imm := q' } : State)))
      { s with imm := q' } m hf hm hr1 hb.stop hc hw
    generalize hwt : waitStart ({ s with imm := q' } : State) (timerMin ({ s with imm := q' } : State)) = wt at hp
    have hs2 : netSelect { s with imm := q' } (timerMin { s with imm := q' }) =
        { pollLoop { s with imm := q' } wt (selectTimeout (timerMin { s with imm := q' })) s.pollq with
          net := { (pollLoop { s with imm := q' } wt (selectTimeout (timerMin { s with imm := q' })) s.pollq).net with
            scan := topScan (pollLoop { s with imm := q' } wt (selectTimeout (timerMin { s with imm := q' })) s.pollq).net } } := by
      rw [← hwt]; rfl
    rw [hs2]
    apply mainLoop_weak
    refine ⟨hp.fault, m2, hp.run, hp.rel, ?_, Or.inr ⟨rfl, ?_, ?_⟩⟩
    · -- an interrupt request made during the blocking poll: dispatching has stopped, the loop returns 0 at its top
      rcases hp.stop with h | ⟨_, h⟩
      · exact Or.inl h
      · exact Or.inr h
    · intro _ hsr
      rw [hp.sr, hb.sr] at hsr
      exact runnable_mono hp.imms hp.tms hp.clock hsr
    · intro hmf
      rcases hp.mf hmf with h | ⟨_, h⟩
      · rw [hb.mf] at h; cases h
      · exact h
  · rw [heq]; dsimp only
    apply immLoop_weak
    obtain ⟨f1, f2, f3, _, f5, _⟩ := hfd
    exact ⟨hf, m, m', hm, hs, hr1, by rw [f1]; exact hb.stop, by rw [f2]; omega, f3,
      by unfold NoPoll; rw [f5]; exact hb.polled⟩

/-- the monitor's state after `runBegin` -/
def begunM (m : C05.M) : C05.M :=
  { m with inRun := true, fired := 0, polled := false, looked := false, startRunnable := C05.runnable m, startIntr := m.intr, mustFire := false, stop := none }

theorem eventsRun_weak (C : TQContract) (fuel : Nat) (s : State) (h : Good C (fun _ _ => True) s) :
    Weak C (fun _ _ => True) (eventsRun fuel s) := by
  obtain ⟨hf, m, hm, hr, _⟩ := h
  unfold eventsRun
  dsimp only
  have h0 : Good C (fun m _ => Begun m) (emit { s with cbcount := 0 } .runBegin) := by
    refine ⟨hf, begunM m, ?_, ?_, ⟨rfl, rfl, rfl, rfl, rfl⟩⟩
    · show C05.run {} (_ :: s.trace).reverse = _
      rw [run_snoc _ m _ _ hm]; rfl
    · exact ⟨hr.clock, hr.intr, hr.imm, hr.immIds, hr.net, hr.tm, hr.disjIN, hr.disjIT, hr.disjNT⟩
  have h1 := runInternal_weak C fuel _ h0
  cases hri : runInternal fuel (emit { s with cbcount := 0 } .runBegin) with
  | mk s1 rc =>
    rw [hri] at h1
    dsimp only at h1 ⊢
    rcases h1 with ⟨hf1, m1, hm1, hr1, hex⟩ | ⟨hf1, ha⟩
    · rw [if_neg (by simp [hf1])]
      refine Or.inl ⟨hf1, { m1 with inRun := false, intr := false, stop := none, mustFire := false }, ?_, ?_, trivial⟩
      · show C05.run {} (_ :: s1.trace).reverse = _
        rw [run_snoc _ m1 _ _ hm1]; exact ret_ok m1 rc hex
      · exact ⟨hr1.clock, rfl, hr1.imm, hr1.immIds, hr1.net, hr1.tm, hr1.disjIN, hr1.disjIT, hr1.disjNT⟩
    · rw [if_pos hf1]
      exact Or.inr ⟨hf1, ha⟩

theorem applyOp_fault (s : State) (o : Op) (h : s.fault = true) : applyOp s o = s := by
  unfold applyOp; simp [h]

theorem stepTop_weak (C : TQContract) (fuel : Nat) (s : State) (t : Top) (h : Weak C (fun _ _ => True) s) :
    Weak C (fun _ _ => True) (stepTop fuel s t) := by
  cases t with
  | api o =>
    show Weak C _ (applyOp s o)
    rcases h with hg | ⟨hf, ha⟩
    · exact Or.inl (applyOp_good C (fun _ => True) (fun _ _ _ _ => trivial) s o hg)
    · rw [applyOp_fault s o hf]; exact Or.inr ⟨hf, ha⟩
  | script id sc =>
    show Weak C _ { s with scripts := (id, sc) :: s.scripts }
    rcases h with ⟨hf, m, hm, hr, _⟩ | ⟨hf, ha⟩
    · exact Or.inl ⟨hf, m, hm, rel_of_eq hr rfl rfl rfl rfl rfl rfl rfl, trivial⟩
    · exact Or.inr ⟨hf, ha⟩
  | pollAns a =>
    show Weak C _ { s with pollq := s.pollq ++ [a] }
    rcases h with ⟨hf, m, hm, hr, _⟩ | ⟨hf, ha⟩
    · exact Or.inl ⟨hf, m, hm, rel_of_eq hr rfl rfl rfl rfl rfl rfl rfl, trivial⟩
    · exact Or.inr ⟨hf, ha⟩
  | run =>
    show Weak C _ (if s.fault then s else eventsRun fuel s)
    by_cases hf : s.fault = true
    · rw [if_pos hf]; exact h
    · rw [if_neg hf]
      exact eventsRun_weak C fuel s (good_of_weak h (by simpa using hf))

theorem rel_init (C : TQContract) : Rel C {} {} := by
  refine ⟨rfl, rfl, rq_init, by simp [IdsNodup], ⟨inv_init, by simp, ?_, by simp⟩,
    ⟨⟨C.empty, by simp, by simp, ?_, by simp, by simp⟩, by simp, ?_, by simp⟩, by simp, by simp, by simp⟩
  · intro id fd d; simp [slot]
  · show TimerQueue.empty.h.a.toList.Perm []
    simp [TimerQueue.empty, Heap.empty]
  · intro id us dl; simp [EventsC04.TmView]

theorem foldl_weak (C : TQContract) (fuel : Nat) : ∀ (prog : List Top) (s : State),
    Weak C (fun _ _ => True) s → Weak C (fun _ _ => True) (prog.foldl (stepTop fuel) s) := by
  intro prog
  induction prog with
  | nil => intro s h; exact h
  | cons t ts ih =>
    intro s h
    exact ih _ (stepTop_weak C fuel s t h)

/-- every trace of the model is accepted by the C05 monitor -/
theorem run_admissible (C : TQContract) (fuel : Nat) (prog : List Top) :
    C05.admissible (Model.Events.run fuel prog) = true := by
  have h0 : Weak C (fun _ _ => True) ({} : State) :=
    Or.inl ⟨rfl, {}, rfl, rel_init C, trivial⟩
  obtain ⟨m, hm⟩ := (foldl_weak C fuel prog {} h0).adm
  unfold C05.admissible Model.Events.run
  rw [hm]

end Percival.Proofs.EventsC05
