import Percival.Proofs.EventsC05Run
/-!
# C05: the loops of events_run_internal and the whole program (helper lemmas for `run_admissible_C05`)
-/
set_option linter.unusedSimpArgs false
namespace Percival.Proofs.EventsC05
open Percival.Spec.Events Percival.Model.Events Percival.Model
open Percival.Proofs.EventsNet Percival.Proofs.EventsImm Percival.Proofs.EventsTQ

/-! ## events_run_internal -/

/-- the monitor will accept `ret rc` (`exit_ret`); a stop with value 0 is an interrupt request (what `events_spin`
    tests before it calls `events_run_internal` again) -/
def Exit (rc : Int) (m : C05.M) : Prop :=
  match m.stop with
  | some c => rc = c ∧ (c = 0 → m.intr = true)
  | none => rc = 0 ∧ (m.intr = false →
      ¬ (m.startRunnable = true ∧ m.fired = 0) ∧ m.mustFire = false ∧
      ¬ (m.polled = true ∧ m.nets.any (·.ready) = true) ∧ ¬ (m.polled = true ∧ C05.expired m = true))

theorem exit_ret {rc : Int} {m : C05.M} (h : Exit rc m) :
    match m.stop with
    | some c => rc = c
    | none => rc = 0 ∧ ((m.startIntr = false ∧ m.intr = false) →
        ¬ (m.startRunnable = true ∧ m.fired = 0) ∧ m.mustFire = false ∧
        ¬ (m.polled = true ∧ m.nets.any (·.ready) = true) ∧ ¬ (m.polled = true ∧ C05.expired m = true)) := by
  unfold Exit at h
  cases hs : m.stop with
  | some c => rw [hs] at h; exact h.1
  | none => rw [hs] at h; exact ⟨h.1, fun hh => h.2 hh.2⟩

theorem exit_stop {m : C05.M} {c : Int} (h : m.stop = some c) (hi : c = 0 → m.intr = true) : Exit c m := by
  unfold Exit; rw [h]; exact ⟨rfl, hi⟩

theorem exit_intr {m : C05.M} (h : m.stop = none) (hi : m.intr = true) : Exit 0 m := by
  unfold Exit; rw [h]
  exact ⟨rfl, fun hh => by rw [hi] at hh; cases hh⟩

theorem exit_afterCb_ne {X : C05.M → Prop} {rc : Int} {m : C05.M} (h : AfterCb X rc m) (hrc : rc ≠ 0) : Exit rc m := by
  obtain ⟨_, _, _, hst⟩ := h
  rw [if_pos hrc] at hst
  exact exit_stop hst (fun h => absurd h hrc)

/-- the condition at the top of the `do { … } while (1)` loop -/
structure LoopTop (m : C05.M) (s : State) : Prop where
  stopish : m.stop = none ∨ (m.stop = some 0 ∧ m.intr = true)
  prog : (m.fired ≥ 1 ∧ m.mustFire = false) ∨
         (s.net.scan = topScan s.net ∧
          (m.fired = 0 → m.startRunnable = true → C05.runnable m = true) ∧
          (m.mustFire = true → m.nets.any (·.ready) = true ∨ C05.expired m = true))

theorem top_afterCb {X : C05.M → Prop} {m : C05.M} (s : State) (h : AfterCb X 0 m) : LoopTop m s := by
  obtain ⟨h1, h2, _, hst⟩ := h
  rw [if_neg (by simp)] at hst
  refine ⟨?_, Or.inl ⟨h1, h2⟩⟩
  by_cases hi : m.intr = true
  · rw [if_pos hi] at hst; exact Or.inr ⟨hst, hi⟩
  · rw [if_neg hi] at hst; exact Or.inl hst

/-- a callback was just invoked: run it, then either stop with its status or go round the loop again -/
theorem after_fire (C : TQContract) (s1 s2 : State) (id : Nat) (rc : Int)
    (hfire : Fireable C (fun _ => True) s1 id) (hd : doevent s1 id = (s2, rc)) :
    Good C (fun m _ => AfterCb (fun _ => True) rc m) s2 := by
  have := doevent_good C (fun _ => True) (fun _ _ _ _ => trivial) (fun _ _ _ => trivial) s1 id hfire
  rw [hd] at this
  exact this

theorem mkFireable {C : TQContract} {s s1 : State} {m m' : C05.M} {id : Nat} (hf : s1.fault = false)
    (ht : s1.trace = s.trace) (hm : C05.run {} s.trace.reverse = .ok m)
    (hs : C05.step m (.cb id) = .ok m') (hr : Rel C m' s1) (hfired : Fired m m') (hstop : m.stop = none) :
    Fireable C (fun _ => True) s1 id := by
  obtain ⟨f1, f2, f3, _⟩ := hfired
  exact ⟨hf, m, m', by rw [ht]; exact hm, hs, hr, by rw [f1]; exact hstop, by rw [f2]; omega, f3, trivial⟩


theorem selectTimeout_zero : selectTimeout (some (0, 0)) = 0 := by decide

theorem good_of_weak {C : TQContract} {P : C05.M → State → Prop} {s : State} (h : Weak C P s) (hf : s.fault = false) :
    Good C P s := by
  rcases h with h | ⟨h, _⟩
  · exact h
  · rw [hf] at h; cases h

/-- the loop: whatever it returns, the monitor will accept that return value -/
theorem mainLoop_weak (C : TQContract) : ∀ (f : Nat) (s : State), Good C LoopTop s →
    Weak C (fun m _ => Exit (mainLoop f s).2 m) (mainLoop f s).1 := by
  intro f
  induction f with
  | zero => intro s h; exact weak_faulted C _ h.adm
  | succ f ih =>
    intro s hg
    obtain ⟨hf, m, hm, hr, htop⟩ := hg
    -- what happens after any callback was fired from a state `s1` that shares trace/fault/pollq with `s`
    have fire : ∀ (s1 : State) (id : Nat), Fireable C (fun _ => True) s1 id →
        Weak C (fun m _ => Exit (if (doevent s1 id).2 ≠ 0 then ((doevent s1 id).1, (doevent s1 id).2) else mainLoop f (doevent s1 id).1).2 m)
          (if (doevent s1 id).2 ≠ 0 then ((doevent s1 id).1, (doevent s1 id).2) else mainLoop f (doevent s1 id).1).1 := by
      intro s1 id hfire
      cases hd : doevent s1 id with
      | mk s2 rc =>
        have h2 := after_fire C s1 s2 id rc hfire hd
        simp only
        by_cases hrc : rc ≠ 0
        · rw [if_pos hrc]
          exact Or.inl (h2.mono (fun m _ hp => exit_afterCb_ne hp hrc))
        · rw [if_neg hrc]
          have hrc0 : rc = 0 := by simpa using hrc
          subst hrc0
          exact ih s2 (h2.mono (fun m _ hp => top_afterCb s2 hp))
    have hfc : ¬ (s.fault = true) := by simp [hf]
    unfold mainLoop
    rw [if_neg hfc]
    by_cases hi : s.intr = true
    · -- interrupted
      rw [if_pos hi]
      refine Or.inl ⟨hf, m, hm, hr, ?_⟩
      have hmi : m.intr = true := by rw [hr.intr]; exact hi
      rcases htop.stopish with h0 | ⟨h0, _⟩
      · exact exit_intr h0 hmi
      · exact exit_stop h0 (fun _ => hmi)
    · have hi' : s.intr = false := by simpa using hi
      rw [if_neg hi]
      have hmi : m.intr = false := by rw [hr.intr]; exact hi'
      have hstop : m.stop = none := by
        rcases htop.stopish with h0 | ⟨_, h1⟩
        · exact h0
        · rw [hmi] at h1; cases h1
      rcases immGetS_cases hr hstop with ⟨q', heq, hr1, himm⟩ | ⟨q', id, m', heq, hs, hr1, hfired⟩
      · rw [heq]; dsimp only
        rcases netGetS_cases hr1 hstop himm with ⟨n2, heq2, hr2, hclear2⟩ | ⟨n2, id, m', heq2, hs, hr2, hfired⟩
        · rw [heq2]; dsimp only
          rw [if_neg hfc]
          -- nothing found: what remains of the loop-top facts
          have hmf : m.mustFire = true → C05.expired m = true := by
            intro hmf
            rcases htop.prog with ⟨_, h2⟩ | ⟨hsc, _, h3⟩
            · rw [h2] at hmf; cases hmf
            · rcases h3 hmf with h | h
              · rw [hclear2 hsc] at h; cases h
              · exact h
          have hp1 : m.fired = 0 → m.startRunnable = true → C05.runnable m = true := by
            intro h0 hsr
            rcases htop.prog with ⟨h1, _⟩ | ⟨_, h2, _⟩
            · omega
            · exact h2 h0 hsr
          -- the zero-timeout poll
          obtain ⟨m3, hp⟩ := pollLoop_post C none ({ s with imm := q', net := n2 } : State).pollq (selectTimeout (some (0, 0)))
            { s with imm := q', net := n2 } m hf hm hr2 hstop (by rw [selectTimeout_zero]; exact mayBlock_zero m)
            (by rw [selectTimeout_zero]; exact checkPoll_zero m)
            (by show selectTimeout (some (0, 0)) ≤ 0; rw [selectTimeout_zero]; omega)
          have hs3 : netSelect { s with imm := q', net := n2 } (some (0, 0)) =
              { pollLoop { s with imm := q', net := n2 } none (selectTimeout (some (0, 0))) s.pollq with
                net := { (pollLoop { s with imm := q', net := n2 } none (selectTimeout (some (0, 0))) s.pollq).net with
                  scan := topScan (pollLoop { s with imm := q', net := n2 } none (selectTimeout (some (0, 0))) s.pollq).net } } := rfl
          rw [hs3]
          generalize hs1 : pollLoop ({ s with imm := q', net := n2 } : State) none (selectTimeout (some (0, 0))) s.pollq = sp at hp
          -- an interrupt request made by a signal handler during this non-blocking poll does not stop the pass
          have hstop3 : m3.stop = none := by
            rcases hp.stop with h | ⟨h, _⟩
            · exact h
            · exact absurd selectTimeout_zero h
          have hmf3 := hp.mf
          have hmf3' : m3.mustFire = true → C05.expired m3 = true := by
            intro h
            rcases hmf3 h with h1 | ⟨h1, _⟩
            · exact expired_mono hp.tms hp.clock (hmf h1)
            · exact absurd selectTimeout_zero h1
          have himm3 : m3.imms = [] := by rw [hp.imms]; exact himm
          have hp13 : m3.fired = 0 → m3.startRunnable = true → C05.runnable m3 = true := by
            intro h0 hsr
            rw [hp.fired] at h0; rw [hp.sr] at hsr
            exact runnable_mono hp.imms hp.tms hp.clock (hp1 h0 hsr)
          -- second scan, from the top
          rcases netGetS_cases hp.rel hstop3 himm3 with ⟨n4, heq4, hr4, hclear4⟩ | ⟨n4, id, m', heq4, hs, hr4, hfired⟩
          · rw [heq4]; dsimp only
            rw [if_neg (by simp [hp.fault])]
            have hnr : m3.nets.any (·.ready) = false := hclear4 rfl
            have hlook3 : m3.looked = true := by
              rcases hp.looked with h | h
              · exact h
              · exact absurd h hi
            rcases timerGet_cases hr4 hstop3 himm3 hnr hlook3 with ⟨heq5, hexp⟩ | ⟨s5, id, m', heq5, hs, hr5, hfired, e1, _, e3⟩
            · -- nothing left to do
              rw [heq5]; dsimp only
              refine Or.inl ⟨hp.fault, m3, hp.run, hr4, ?_⟩
              show Exit 0 m3
              unfold Exit
              rw [hstop3]
              refine ⟨rfl, fun _ => ⟨?_, ?_, ?_, ?_⟩⟩
              · rintro ⟨hsr, h0⟩
                have := hp13 h0 hsr
                simp [C05.runnable, himm3, hexp] at this
              · cases hmf4 : m3.mustFire with
                | false => rfl
                | true => rw [hmf3' hmf4] at hexp; cases hexp
              · rintro ⟨_, h⟩; rw [hnr] at h; cases h
              · rintro ⟨_, h⟩; rw [hexp] at h; cases h
            · rw [heq5]; dsimp only
              exact fire s5 id (mkFireable (by rw [e1]; exact hp.fault) e3 hp.run hs hr5 hfired hstop3)
          · rw [heq4]; dsimp only
            exact fire _ id (mkFireable hp.fault rfl hp.run hs hr4 hfired hstop3)
        · rw [heq2]; dsimp only
          exact fire _ id (mkFireable hf rfl hm hs hr2 hfired hstop)
      · rw [heq]; dsimp only
        exact fire _ id (mkFireable hf rfl hm hs hr1 hfired hstop)


/-- the immediate-only path: no poll has happened -/
def NoPoll (m : C05.M) : Prop := m.polled = false

theorem noPoll_ctl : ∀ m m', Ctl m m' → NoPoll m → NoPoll m' := by
  rintro m m' ⟨_, _, h, _⟩ hp; unfold NoPoll at *; rw [h]; exact hp

theorem immLoop_weak (C : TQContract) : ∀ (f : Nat) (s : State) (id : Nat), Fireable C NoPoll s id →
    Weak C (fun m _ => Exit (immLoop f s id).2 m) (immLoop f s id).1 := by
  intro f
  induction f with
  | zero => intro s id h; exact weak_faulted C _ h.adm
  | succ f ih =>
    intro s id h
    have h1 := doevent_good C NoPoll noPoll_ctl (fun _ _ h => h) s id h
    unfold immLoop
    cases hd : doevent s id with
    | mk s1 rc =>
      rw [hd] at h1
      dsimp only at h1 ⊢
      by_cases hrc : rc ≠ 0
      · rw [if_pos hrc]
        exact Or.inl (h1.mono (fun m _ hp => exit_afterCb_ne hp hrc))
      · rw [if_neg hrc]
        have hrc0 : rc = 0 := by simpa using hrc
        subst hrc0
        obtain ⟨hf1, m, hm, hr, hfired, hmf, hnp, hst⟩ := h1
        rw [if_neg (by simp)] at hst
        by_cases hi : s1.intr = true
        · rw [if_pos hi]
          have hmi : m.intr = true := by rw [hr.intr]; exact hi
          rw [if_pos hmi] at hst
          exact Or.inl ⟨hf1, m, hm, hr, exit_stop hst (fun _ => hmi)⟩
        · rw [if_neg hi]
          have hmi : ¬ (m.intr = true) := by rw [hr.intr]; exact hi
          rw [if_neg hmi] at hst
          rw [if_neg (by simp [hf1])]
          rcases immGetS_cases hr hst with ⟨q', heq, hr1, himm⟩ | ⟨q', id', m', heq, hs, hr1, hfd⟩
          · rw [heq]; dsimp only
            refine Or.inl ⟨hf1, m, hm, hr1, ?_⟩
            show Exit 0 m
            unfold Exit
            rw [hst]
            refine ⟨rfl, fun _ => ⟨?_, hmf, ?_, ?_⟩⟩
            · rintro ⟨_, h0⟩; omega
            · rintro ⟨hp, _⟩; rw [hnp] at hp; cases hp
            · rintro ⟨hp, _⟩; rw [hnp] at hp; cases hp
          · rw [heq]; dsimp only
            apply ih
            obtain ⟨f1, f2, f3, _, f5, _⟩ := hfd
            exact ⟨hf1, m, m', hm, hs, hr1, by rw [f1]; exact hst, by rw [f2]; omega, f3,
              by unfold NoPoll at *; rw [f5]; exact hnp⟩

/-- the monitor's state right after `runBegin` -/
structure Begun (m : C05.M) : Prop where
  stop : m.stop = none
  fired : m.fired = 0
  mf : m.mustFire = false
  polled : m.polled = false
  sr : m.startRunnable = C05.runnable m
  blk : (m.spin && m.done) = false

theorem runInternal_weak (C : TQContract) (fuel : Nat) (s : State) (h : Good C (fun m _ => Begun m) s) :
    Weak C (fun m _ => Exit (runInternal fuel s).2 m) (runInternal fuel s).1 := by
  obtain ⟨hf, m, hm, hr, hb⟩ := h
  unfold runInternal
  rcases immGetS_cases hr hb.stop with ⟨q', heq, hr1, himm⟩ | ⟨q', id, m', heq, hs, hr1, hfd⟩
  · rw [heq]; dsimp only
    -- the first, possibly blocking, poll
    have hc := checkPoll_first hr1 himm
    have hw := waitOk_first hr1 himm
    obtain ⟨m2, hp⟩ := pollLoop_post C (waitStart ({ s with imm := q' } : State) (timerMin ({ s with imm := q' } : State)))
      ({ s with imm := q' } : State).pollq (selectTimeout (timerMin ({ s with imm := q' } : State)))
      { s with imm := q' } m hf hm hr1 hb.stop (by unfold MayBlock; rw [hb.blk]; rfl) hc hw
    generalize hwt : waitStart ({ s with imm := q' } : State) (timerMin ({ s with imm := q' } : State)) = wt at hp
    have hs2 : netSelect { s with imm := q' } (timerMin { s with imm := q' }) =
        { pollLoop { s with imm := q' } wt (selectTimeout (timerMin { s with imm := q' })) s.pollq with
          net := { (pollLoop { s with imm := q' } wt (selectTimeout (timerMin { s with imm := q' })) s.pollq).net with
            scan := topScan (pollLoop { s with imm := q' } wt (selectTimeout (timerMin { s with imm := q' })) s.pollq).net } } := by
      rw [← hwt]; rfl
    rw [hs2]
    apply mainLoop_weak
    refine ⟨hp.fault, m2, hp.run, hp.rel, ?_, Or.inr ⟨rfl, ?_, ?_⟩⟩
    · -- an interrupt request made during the blocking poll: dispatching has stopped, the loop returns 0 at its top
      rcases hp.stop with h | ⟨_, h⟩
      · exact Or.inl h
      · exact Or.inr h
    · intro _ hsr
      rw [hp.sr, hb.sr] at hsr
      exact runnable_mono hp.imms hp.tms hp.clock hsr
    · intro hmf
      rcases hp.mf hmf with h | ⟨_, h⟩
      · rw [hb.mf] at h; cases h
      · exact h
  · rw [heq]; dsimp only
    apply immLoop_weak
    obtain ⟨f1, f2, f3, _, f5, _⟩ := hfd
    exact ⟨hf, m, m', hm, hs, hr1, by rw [f1]; exact hb.stop, by rw [f2]; omega, f3,
      by unfold NoPoll; rw [f5]; exact hb.polled⟩

/-- the monitor's state after `runBegin` -/
def begunM (m : C05.M) : C05.M :=
  { m with inRun := true, fired := 0, polled := false, looked := false, startRunnable := C05.runnable m, startIntr := m.intr, mustFire := false, stop := none, spin := false }

theorem eventsRun_weak (C : TQContract) (fuel : Nat) (s : State) (h : Good C (fun _ _ => True) s) :
    Weak C (fun _ _ => True) (eventsRun fuel s) := by
  obtain ⟨hf, m, hm, hr, _⟩ := h
  unfold eventsRun
  dsimp only
  have h0 : Good C (fun m _ => Begun m) (emit { s with cbcount := 0 } .runBegin) := by
    refine ⟨hf, begunM m, ?_, ?_, ⟨rfl, rfl, rfl, rfl, rfl, rfl⟩⟩
    · show C05.run {} (_ :: s.trace).reverse = _
      rw [run_snoc _ m _ _ hm]; rfl
    · exact ⟨hr.clock, hr.intr, hr.imm, hr.immIds, hr.net, hr.tm, hr.disjIN, hr.disjIT, hr.disjNT, hr.done⟩
  have h1 := runInternal_weak C fuel _ h0
  cases hri : runInternal fuel (emit { s with cbcount := 0 } .runBegin) with
  | mk s1 rc =>
    rw [hri] at h1
    dsimp only at h1 ⊢
    rcases h1 with ⟨hf1, m1, hm1, hr1, hex⟩ | ⟨hf1, ha⟩
    · rw [if_neg (by simp [hf1])]
      refine Or.inl ⟨hf1, { m1 with inRun := false, intr := false, stop := none, mustFire := false }, ?_, ?_, trivial⟩
      · show C05.run {} (_ :: s1.trace).reverse = _
        rw [run_snoc _ m1 _ _ hm1]; exact ret_ok m1 rc (exit_ret hex)
      · exact ⟨hr1.clock, rfl, hr1.imm, hr1.immIds, hr1.net, hr1.tm, hr1.disjIN, hr1.disjIT, hr1.disjNT, hr1.done⟩
    · rw [if_pos hf1]
      exact Or.inr ⟨hf1, ha⟩

/-! ## events_spin: a loop around events_run_internal -/

theorem Weak.mono {C : TQContract} {P Q : C05.M → State → Prop} {s : State} (h : Weak C P s)
    (hpq : ∀ m, Rel C m s → P m s → Q m s) : Weak C Q s := by
  rcases h with h | h
  · exact Or.inl (h.mono hpq)
  · exact Or.inr h

/-- what a turn of the loop of `events_spin` starts from: no stop pending, no wake-up owed, and the call is allowed
    to wait in poll (`done` is not set).  Unlike right after `runBegin`, callbacks may have run and polls may have been
    answered in earlier turns. -/
structure BegunS (m : C05.M) : Prop where
  stop : m.stop = none
  mf : m.mustFire = false
  sr : m.fired = 0 → m.startRunnable = true → C05.runnable m = true
  blk : (m.spin && m.done) = false

/-- what a turn ends with -/
def ExitS (rc : Int) (m : C05.M) : Prop :=
  match m.stop with
  | some c => rc = c ∧ (c = 0 → m.intr = true)
  | none => rc = 0 ∧ (m.intr = false → ¬ (m.startRunnable = true ∧ m.fired = 0) ∧ m.mustFire = false)

theorem exitS_of_exit {rc : Int} {m : C05.M} (h : Exit rc m) : ExitS rc m := by
  unfold Exit at h
  unfold ExitS
  cases hs : m.stop with
  | some c => rw [hs] at h; exact h
  | none => rw [hs] at h; exact ⟨h.1, fun hi => ⟨(h.2 hi).1, (h.2 hi).2.1⟩⟩

/-- the immediate-only path of a later turn: polls may have been answered before -/
theorem immLoop_weakS (C : TQContract) : ∀ (f : Nat) (s : State) (id : Nat), Fireable C (fun _ => True) s id →
    Weak C (fun m _ => ExitS (immLoop f s id).2 m) (immLoop f s id).1 := by
  intro f
  induction f with
  | zero => intro s id h; exact weak_faulted C _ h.adm
  | succ f ih =>
    intro s id h
    have h1 := doevent_good C (fun _ => True) (fun _ _ _ _ => trivial) (fun _ _ _ => trivial) s id h
    unfold immLoop
    cases hd : doevent s id with
    | mk s1 rc =>
      rw [hd] at h1
      dsimp only at h1 ⊢
      by_cases hrc : rc ≠ 0
      · rw [if_pos hrc]
        exact Or.inl (h1.mono (fun m _ hp => exitS_of_exit (exit_afterCb_ne hp hrc)))
      · rw [if_neg hrc]
        have hrc0 : rc = 0 := by simpa using hrc
        subst hrc0
        obtain ⟨hf1, m, hm, hr, hfired, hmf, _, hst⟩ := h1
        rw [if_neg (by simp)] at hst
        by_cases hi : s1.intr = true
        · rw [if_pos hi]
          have hmi : m.intr = true := by rw [hr.intr]; exact hi
          rw [if_pos hmi] at hst
          exact Or.inl ⟨hf1, m, hm, hr, exitS_of_exit (exit_stop hst (fun _ => hmi))⟩
        · rw [if_neg hi]
          have hmi : ¬ (m.intr = true) := by rw [hr.intr]; exact hi
          rw [if_neg hmi] at hst
          rw [if_neg (by simp [hf1])]
          rcases immGetS_cases hr hst with ⟨q', heq, hr1, himm⟩ | ⟨q', id', m', heq, hs, hr1, hfd⟩
          · rw [heq]; dsimp only
            refine Or.inl ⟨hf1, m, hm, hr1, ?_⟩
            show ExitS 0 m
            unfold ExitS
            rw [hst]
            exact ⟨rfl, fun _ => ⟨by rintro ⟨_, h0⟩; omega, hmf⟩⟩
          · rw [heq]; dsimp only
            apply ih
            obtain ⟨f1, f2, f3, _, f5, _⟩ := hfd
            exact ⟨hf1, m, m', hm, hs, hr1, by rw [f1]; exact hst, by rw [f2]; omega, f3, trivial⟩

/-- one turn of the loop of `events_spin` -/
theorem runInternal_weakS (C : TQContract) (fuel : Nat) (s : State) (h : Good C (fun m _ => BegunS m) s) :
    Weak C (fun m _ => ExitS (runInternal fuel s).2 m) (runInternal fuel s).1 := by
  obtain ⟨hf, m, hm, hr, hb⟩ := h
  unfold runInternal
  rcases immGetS_cases hr hb.stop with ⟨q', heq, hr1, himm⟩ | ⟨q', id, m', heq, hs, hr1, hfd⟩
  · rw [heq]; dsimp only
    have hc := checkPoll_first hr1 himm
    have hw := waitOk_first hr1 himm
    obtain ⟨m2, hp⟩ := pollLoop_post C (waitStart ({ s with imm := q' } : State) (timerMin ({ s with imm := q' } : State)))
      ({ s with imm := q' } : State).pollq (selectTimeout (timerMin ({ s with imm := q' } : State)))
      { s with imm := q' } m hf hm hr1 hb.stop (by unfold MayBlock; rw [hb.blk]; rfl) hc hw
    generalize hwt : waitStart ({ s with imm := q' } : State) (timerMin ({ s with imm := q' } : State)) = wt at hp
    have hs2 : netSelect { s with imm := q' } (timerMin { s with imm := q' }) =
        { pollLoop { s with imm := q' } wt (selectTimeout (timerMin { s with imm := q' })) s.pollq with
          net := { (pollLoop { s with imm := q' } wt (selectTimeout (timerMin { s with imm := q' })) s.pollq).net with
            scan := topScan (pollLoop { s with imm := q' } wt (selectTimeout (timerMin { s with imm := q' })) s.pollq).net } } := by
      rw [← hwt]; rfl
    rw [hs2]
    refine Weak.mono (mainLoop_weak C fuel _ ?_) (fun m _ h => exitS_of_exit h)
    refine ⟨hp.fault, m2, hp.run, hp.rel, ?_, Or.inr ⟨rfl, ?_, ?_⟩⟩
    · rcases hp.stop with h | ⟨_, h⟩
      · exact Or.inl h
      · exact Or.inr h
    · intro h0 hsr
      rw [hp.fired] at h0; rw [hp.sr] at hsr
      exact runnable_mono hp.imms hp.tms hp.clock (hb.sr h0 hsr)
    · intro hmf
      rcases hp.mf hmf with h | ⟨_, h⟩
      · rw [hb.mf] at h; cases h
      · exact h
  · rw [heq]; dsimp only
    apply immLoop_weakS
    obtain ⟨f1, f2, f3, _, f5, _⟩ := hfd
    exact ⟨hf, m, m', hm, hs, hr1, by rw [f1]; exact hb.stop, by rw [f2]; omega, f3, trivial⟩

/-- the invariant of the loop of `events_spin`, `rc` being the C variable when the condition is tested: either
    dispatching has to stop with that value (a status; 0 for an interrupt request or because `done` was set
    before the call), or the last turn returned 0 and owes nothing -/
def SpinTop (rc : Int) (m : C05.M) : Prop :=
  match m.stop with
  | some c => rc = c ∧ (c = 0 → m.intr = true ∨ m.done = true)
  | none => rc = 0 ∧ (m.intr = false → m.mustFire = false ∧ (m.fired = 0 → m.startRunnable = true → C05.runnable m = true))

theorem spinTop_of_exitS {rc : Int} {m : C05.M} (h : ExitS rc m) : SpinTop rc m := by
  unfold ExitS at h
  unfold SpinTop
  cases hs : m.stop with
  | some c => rw [hs] at h; exact ⟨h.1, fun hc => Or.inl (h.2 hc)⟩
  | none =>
    rw [hs] at h
    exact ⟨h.1, fun hi => ⟨(h.2 hi).2, fun h0 hsr => absurd ⟨hsr, h0⟩ (h.2 hi).1⟩⟩

/-- the monitor will accept `spinRet rc` -/
def SpinExit (rc : Int) (m : C05.M) : Prop :=
  match m.stop with
  | some c => rc = c
  | none => rc = 0 ∧ (m.done = true ∨ m.intr = true)

theorem spinRet_ok (m : C05.M) (rc : Int) (h : SpinExit rc m) :
    C05.step m (.spinRet rc) =
      .ok { m with inRun := false, intr := false, stop := none, mustFire := false, spin := false, done := false } := by
  unfold SpinExit at h
  cases hs : m.stop with
  | some c =>
    rw [hs] at h
    subst h
    simp only [C05.step, hs, ne_eq, not_true_eq_false, if_false]
    rfl
  | none =>
    rw [hs] at h
    obtain ⟨h0, hd⟩ := h
    subst h0
    have hb : (!m.done && !m.intr) = false := by
      rcases hd with h | h <;> simp [h]
    simp only [C05.step, hs, ne_eq, not_true_eq_false, if_false, hb, Bool.false_eq_true]
    rfl

theorem spinLoop_fault (C : TQContract) (P : C05.M → State → Prop) (fuel : Nat) (n : Nat) (s : State) (rc : Int)
    (hf : s.fault = true) (ha : Adm s) : Weak C P (spinLoop fuel n s rc).1 := by
  cases n with
  | zero => exact weak_faulted C _ ha
  | succ n =>
    unfold spinLoop
    rw [if_neg (by rw [hf]; simp)]
    exact Or.inr ⟨hf, ha⟩

/-- the loop of `events_spin`: whatever it returns, the monitor will accept that return value -/
theorem spinLoop_weak (C : TQContract) (fuel : Nat) : ∀ (n : Nat) (s : State) (rc : Int),
    Good C (fun m _ => SpinTop rc m) s →
    Weak C (fun m _ => SpinExit (spinLoop fuel n s rc).2 m) (spinLoop fuel n s rc).1 := by
  intro n
  induction n with
  | zero => intro s rc h; exact weak_faulted C _ h.adm
  | succ n ih =>
    intro s rc h
    obtain ⟨hf, m, hm, hr, ht⟩ := h
    unfold spinLoop
    by_cases hc : s.done = false ∧ rc = 0 ∧ s.intr = false ∧ s.fault = false
    · rw [if_pos hc]
      obtain ⟨hd, hrc, hi, _⟩ := hc
      have hmd : m.done = false := by rw [hr.done]; exact hd
      have hmi : m.intr = false := by rw [hr.intr]; exact hi
      have hb : BegunS m := by
        unfold SpinTop at ht
        cases hs : m.stop with
        | some c =>
          rw [hs] at ht
          obtain ⟨h1, h2⟩ := ht
          rcases h2 (by omega) with h | h
          · rw [hmi] at h; cases h
          · rw [hmd] at h; cases h
        | none =>
          rw [hs] at ht
          exact ⟨hs, (ht.2 hmi).1, (ht.2 hmi).2, by rw [hmd]; simp⟩
      rcases runInternal_weakS C fuel s ⟨hf, m, hm, hr, hb⟩ with hg | ⟨hf1, ha⟩
      · exact ih _ _ (hg.mono (fun m' _ hp => spinTop_of_exitS hp))
      · exact spinLoop_fault C _ fuel n _ _ hf1 ha
    · rw [if_neg hc]
      refine Or.inl ⟨hf, m, hm, hr, ?_⟩
      show SpinExit rc m
      unfold SpinTop at ht
      unfold SpinExit
      cases hs : m.stop with
      | some c => rw [hs] at ht; exact ht.1
      | none =>
        rw [hs] at ht
        refine ⟨ht.1, ?_⟩
        rw [hr.done, hr.intr]
        cases hd : s.done with
        | true => exact Or.inl rfl
        | false =>
          cases hi : s.intr with
          | true => exact Or.inr rfl
          | false => exact absurd ⟨hd, ht.1, hi, hf⟩ hc

/-- the monitor's state after `spinBegin` -/
def spunM (m : C05.M) : C05.M :=
  { m with inRun := true, fired := 0, polled := false, looked := false, startRunnable := C05.runnable m, startIntr := m.intr,
           mustFire := false, stop := if m.done then some 0 else none, spin := true }

theorem eventsSpin_weak (C : TQContract) (fuel : Nat) (s : State) (h : Good C (fun _ _ => True) s) :
    Weak C (fun _ _ => True) (eventsSpin fuel s) := by
  obtain ⟨hf, m, hm, hr, _⟩ := h
  unfold eventsSpin
  dsimp only
  have h0 : Good C (fun m _ => SpinTop 0 m) (emit { s with cbcount := 0 } .spinBegin) := by
    refine ⟨hf, spunM m, ?_, ?_, ?_⟩
    · show C05.run {} (_ :: s.trace).reverse = _
      rw [run_snoc _ m _ _ hm]; rfl
    · exact ⟨hr.clock, hr.intr, hr.imm, hr.immIds, hr.net, hr.tm, hr.disjIN, hr.disjIT, hr.disjNT, hr.done⟩
    · show SpinTop 0 (spunM m)
      unfold SpinTop
      cases hd : m.done with
      | true =>
        have : (spunM m).stop = some 0 := by simp [spunM, hd]
        rw [this]
        exact ⟨rfl, fun _ => Or.inr hd⟩
      | false =>
        have : (spunM m).stop = none := by simp [spunM, hd]
        rw [this]
        exact ⟨rfl, fun _ => ⟨rfl, fun _ h => h⟩⟩
  rcases spinLoop_weak C fuel spinFuel _ 0 h0 with ⟨hf1, m1, hm1, hr1, hex⟩ | ⟨hf1, ha⟩
  · rw [if_neg (by simp [hf1])]
    refine Or.inl ⟨hf1, { m1 with inRun := false, intr := false, stop := none, mustFire := false, spin := false, done := false },
      ?_, ?_, trivial⟩
    · show C05.run {} (_ :: _).reverse = _
      rw [run_snoc _ m1 _ _ hm1]; exact spinRet_ok m1 _ hex
    · exact ⟨hr1.clock, rfl, hr1.imm, hr1.immIds, hr1.net, hr1.tm, hr1.disjIN, hr1.disjIT, hr1.disjNT, rfl⟩
  · rw [if_pos hf1]
    exact Or.inr ⟨hf1, ha⟩

theorem applyOp_fault (s : State) (o : Op) (h : s.fault = true) : applyOp s o = s := by
  unfold applyOp; simp [h]

theorem stepTop_weak (C : TQContract) (fuel : Nat) (s : State) (t : Top) (h : Weak C (fun _ _ => True) s) :
    Weak C (fun _ _ => True) (stepTop fuel s t) := by
  cases t with
  | api o =>
    show Weak C _ (applyOp s o)
    rcases h with hg | ⟨hf, ha⟩
    · exact Or.inl (applyOp_good C (fun _ => True) (fun _ _ _ _ => trivial) s o hg)
    · rw [applyOp_fault s o hf]; exact Or.inr ⟨hf, ha⟩
  | script id sc =>
    show Weak C _ { s with scripts := (id, sc) :: s.scripts }
    rcases h with ⟨hf, m, hm, hr, _⟩ | ⟨hf, ha⟩
    · exact Or.inl ⟨hf, m, hm, rel_of_eq hr rfl rfl rfl rfl rfl rfl rfl rfl, trivial⟩
    · exact Or.inr ⟨hf, ha⟩
  | pollAns a =>
    show Weak C _ { s with pollq := s.pollq ++ [a] }
    rcases h with ⟨hf, m, hm, hr, _⟩ | ⟨hf, ha⟩
    · exact Or.inl ⟨hf, m, hm, rel_of_eq hr rfl rfl rfl rfl rfl rfl rfl rfl, trivial⟩
    · exact Or.inr ⟨hf, ha⟩
  | run =>
    show Weak C _ (if s.fault then s else eventsRun fuel s)
    by_cases hf : s.fault = true
    · rw [if_pos hf]; exact h
    · rw [if_neg hf]
      exact eventsRun_weak C fuel s (good_of_weak h (by simpa using hf))
  | spin =>
    show Weak C _ (if s.fault then s else eventsSpin fuel s)
    by_cases hf : s.fault = true
    · rw [if_pos hf]; exact h
    · rw [if_neg hf]
      exact eventsSpin_weak C fuel s (good_of_weak h (by simpa using hf))

theorem rel_init (C : TQContract) : Rel C {} {} := by
  refine ⟨rfl, rfl, rq_init, by simp [IdsNodup], ⟨inv_init, by simp, ?_, by simp⟩,
    ⟨⟨C.empty, by simp, by simp, ?_, by simp, by simp⟩, by simp, ?_, by simp⟩, by simp, by simp, by simp, rfl⟩
  · intro id fd d; simp [slot]
  · show TimerQueue.empty.h.a.toList.Perm []
    simp [TimerQueue.empty, Heap.empty]
  · intro id us dl; simp [EventsC04.TmView]

theorem foldl_weak (C : TQContract) (fuel : Nat) : ∀ (prog : List Top) (s : State),
    Weak C (fun _ _ => True) s → Weak C (fun _ _ => True) (prog.foldl (stepTop fuel) s) := by
  intro prog
  induction prog with
  | nil => intro s h; exact h
  | cons t ts ih =>
    intro s h
    exact ih _ (stepTop_weak C fuel s t h)

/-- every trace of the model is accepted by the C05 monitor -/
theorem run_admissible (C : TQContract) (fuel : Nat) (prog : List Top) :
    C05.admissible (Model.Events.run fuel prog) = true := by
  have h0 : Weak C (fun _ _ => True) ({} : State) :=
    Or.inl ⟨rfl, {}, rfl, rel_init C, trivial⟩
  obtain ⟨m, hm⟩ := (foldl_weak C fuel prog {} h0).adm
  unfold C05.admissible Model.Events.run
  rw [hm]

end Percival.Proofs.EventsC05
