import Percival.Model.Getopt
/-! Helper lemmas for C18 (strings, `searchopt`, registration, single `getopt` calls, the loop). -/
namespace Percival.Proofs.Getopt
open Percival.Spec.Getopt Percival.Model.Getopt

/-! ## reads -/

theorem rd_nil_zero : rd [] 0 = pure 0 := by simp [rd]
theorem rd_cons_zero (c : UInt8) (cs : Str) : rd (c :: cs) 0 = pure c := by simp [rd]
theorem rd_cons_succ (c : UInt8) (cs : Str) (i : Nat) : rd (c :: cs) (i + 1) = rd cs i := by
  unfold rd
  by_cases h : i < cs.length
  · simp [h]
  · simp [h]

theorem rd_append_length (p : Str) (t : Str) : rd (p ++ t) p.length = rd t 0 := by
  induction p with
  | nil => simp
  | cons c p ih => simpa [rd_cons_succ] using ih

theorem rd_append_length_succ (p : Str) (t : Str) : rd (p ++ t) (p.length + 1) = rd t 1 := by
  induction p with
  | nil => simp
  | cons c p ih => simpa [rd_cons_succ] using ih

theorem rd_length (s : Str) : rd s s.length = pure 0 := by simp [rd]

/-- every read at an index `≤ length` succeeds -/
theorem rd_ok {s : Str} {i : Nat} (h : i ≤ s.length) : ∃ c, rd s i = pure c := by
  unfold rd
  by_cases h1 : i < s.length
  · exact ⟨s[i], by simp [h1]⟩
  · exact ⟨0, by simp [h1]; omega⟩

theorem nulFree_nil : NulFree [] := by simp [NulFree]
theorem nulFree_cons {c : UInt8} {cs : Str} : NulFree (c :: cs) ↔ c ≠ 0 ∧ NulFree cs := by
  simp [NulFree]
theorem nulFree_append {a b : Str} : NulFree (a ++ b) ↔ NulFree a ∧ NulFree b := by
  simp only [NulFree, List.mem_append]
  constructor
  · intro h; exact ⟨fun x hx => h x (Or.inl hx), fun x hx => h x (Or.inr hx)⟩
  · rintro ⟨h1, h2⟩ x (hx | hx)
    · exact h1 x hx
    · exact h2 x hx
theorem nulFree_drop {a : Str} (n : Nat) (h : NulFree a) : NulFree (a.drop n) :=
  fun b hb => h b (List.mem_of_mem_drop hb)

theorem cstr_of_nulFree {s : Str} (h : NulFree s) : cstr s = s := by
  unfold cstr
  induction s with
  | nil => rfl
  | cons c cs ih =>
    have hc := h c (by simp)
    have := ih (fun b hb => h b (by simp [hb]))
    simp [hc, this]

theorem dash_ne_zero : dash ≠ 0 := by decide
theorem eqc_ne_zero : eqc ≠ 0 := by decide
theorem eqc_ne_dash : eqc ≠ dash := by decide

/-! ## strncmp -/

theorem strncmpEq_shift (x y : UInt8) (a b : Str) (n k : Nat) :
    strncmpEq (x :: a) (y :: b) n (k + 1) = strncmpEq a b n k := by
  induction n generalizing k with
  | zero => simp [strncmpEq]
  | succ n ih => simp [strncmpEq, rd_cons_succ, ih]

theorem strncmpEq_prefix (a b : Str) (ha : NulFree a) :
    strncmpEq a b a.length 0 = pure (a.isPrefixOf b) := by
  induction a generalizing b with
  | nil => simp [strncmpEq]
  | cons x a ih =>
    have hx := (nulFree_cons.mp ha).1
    have ha' := (nulFree_cons.mp ha).2
    cases b with
    | nil => simp [strncmpEq, rd_cons_zero, rd_nil_zero, hx]
    | cons y b =>
      by_cases hxy : x = y
      · subst hxy
        simp [strncmpEq, rd_cons_zero, hx, strncmpEq_shift, ih b ha']
      · have hb : (x == y) = false := by simp [hxy]
        simp [strncmpEq, rd_cons_zero, hxy, List.isPrefixOf, hb]

/-! ## one slot of `searchopt` against `Spec.matchOpt` -/

theorem matchOpt_of_not_prefix {o : Opt} {w : Str} (h : o.name.isPrefixOf w = false) :
    matchOpt o w = none := by
  have hnp : ¬ o.name <+: w := by
    intro hp; rw [← List.isPrefixOf_iff_prefix] at hp; simp [hp] at h
  unfold matchOpt
  have h1 : w ≠ o.name := by
    intro e; exact hnp (e ▸ List.prefix_refl _)
  have h2 : (o.name ++ [eqc]).isPrefixOf w = false := by
    apply Bool.eq_false_iff.mpr
    intro hp
    rw [List.isPrefixOf_iff_prefix] at hp
    exact hnp (List.IsPrefix.trans (List.prefix_append _ _) hp)
  simp [h1, h2]

/-- The byte after a matched prefix decides: NUL = the option itself, `=` = option with value,
    anything else = no match. -/
theorem slot_check (n os : Str) (h : Bool) (hos : NulFree os) (hp : n.isPrefixOf os = true) :
    ∃ c, rd os n.length = pure c ∧
      ((c = 0 ∧ matchOpt ⟨n, h⟩ os = some none) ∨
       (c = eqc ∧ matchOpt ⟨n, h⟩ os = some (some (os.drop (n.length + 1)))) ∨
       (c ≠ 0 ∧ c ≠ eqc ∧ matchOpt ⟨n, h⟩ os = none)) := by
  rw [List.isPrefixOf_iff_prefix] at hp
  obtain ⟨t, rfl⟩ := hp
  cases t with
  | nil =>
    refine ⟨0, by simp [rd_length], Or.inl ⟨rfl, ?_⟩⟩
    simp [matchOpt]
  | cons c t =>
    have hc : c ≠ 0 := (nulFree_cons.mp (nulFree_append.mp hos).2).1
    refine ⟨c, by simp [rd_append_length, rd_cons_zero], ?_⟩
    have hne : n ++ c :: t ≠ n := by
      intro e
      have := congrArg List.length e
      simp at this
    by_cases hce : c = eqc
    · subst hce
      right; left
      refine ⟨rfl, ?_⟩
      have : (n ++ [eqc]).isPrefixOf (n ++ eqc :: t) = true := by
        rw [List.isPrefixOf_iff_prefix]
        exact ⟨t, by simp⟩
      simp [matchOpt, hne, this]
    · right; right
      refine ⟨hc, hce, ?_⟩
      have : (n ++ [eqc]).isPrefixOf (n ++ c :: t) = false := by
        apply Bool.eq_false_iff.mpr
        intro hp
        rw [List.isPrefixOf_iff_prefix, List.prefix_append_right_inj] at hp
        simp at hp
        exact hce hp.symm
      simp [matchOpt, hne, this]

/-! ## `searchopt` over the slots a switch registers -/

/-- the slot a source line ends up with -/
def slotOf : Line → Option Slot
  | .opt n h => some ⟨n, n.length, h⟩
  | _ => none

/-- index of the first line whose option is denoted by `os` -/
def findIdx : List Line → Str → Option Nat
  | [], _ => none
  | .opt n h :: rest, os =>
    if (matchOpt ⟨n, h⟩ os).isSome then some 0 else (findIdx rest os).map (· + 1)
  | _ :: rest, os => (findIdx rest os).map (· + 1)

def NamesOK (lines : List Line) : Prop :=
  ∀ n h, Line.opt n h ∈ lines → ValidName n ∧ NulFree n

theorem namesOK_cons {l : Line} {lines : List Line} (h : NamesOK (l :: lines)) : NamesOK lines :=
  fun n hh hm => h n hh (List.mem_cons_of_mem _ hm)

/-- result of the search: the default, or start index + offset -/
def pick (d i : Nat) : Option Nat → Nat
  | none => d
  | some j => i + j

theorem searchSlots_replicate (os : Str) (d k i : Nat) :
    searchSlots os d (List.replicate k none) i = pure d := by
  induction k generalizing i with
  | zero => simp [searchSlots]
  | succ k ih => simp [List.replicate_succ, searchSlots, ih]

theorem searchSlots_eq (lines : List Line) (hn : NamesOK lines) (os : Str) (hos : NulFree os)
    (d k i : Nat) :
    searchSlots os d (lines.map slotOf ++ List.replicate k none) i =
      pure (pick d i (findIdx lines os)) := by
  induction lines generalizing i with
  | nil => simp [searchSlots_replicate, findIdx, pick]
  | cons l rest ih =>
    have ih' := ih (namesOK_cons hn) (i + 1)
    cases l with
    | blank =>
      simp only [List.map_cons, slotOf, List.cons_append, searchSlots, findIdx, ih']
      cases findIdx rest os <;> simp [pick] <;> (congr 1; ac_rfl)
    | missing =>
      simp only [List.map_cons, slotOf, List.cons_append, searchSlots, findIdx, ih']
      cases findIdx rest os <;> simp [pick] <;> (congr 1; ac_rfl)
    | opt n h =>
      have hnf : NulFree n := (hn n h (by simp)).2
      simp only [List.map_cons, slotOf, List.cons_append, searchSlots, findIdx,
        strncmpEq_prefix n os hnf, pure_bind]
      cases hp : n.isPrefixOf os with
      | false =>
        have hm : matchOpt ⟨n, h⟩ os = none := matchOpt_of_not_prefix (o := ⟨n, h⟩) hp
        simp only [hm, ih']
        cases findIdx rest os <;> simp [pick] <;> (congr 1; ac_rfl)
      | true =>
        obtain ⟨c, hc, hcase⟩ := slot_check n os h hos hp
        rcases hcase with ⟨hc0, hm⟩ | ⟨hce, hm⟩ | ⟨hc0, hce, hm⟩
        · simp [hc, hc0, hm, pick]
        · simp [hc, hce, hm, pick]
        · simp only [hc, hm, ih']
          cases findIdx rest os <;> simp [hc0, hce, pick] <;> (congr 1; ac_rfl)

/-! ## `findIdx` against the Spec's lookups -/

theorem tableOf_nil : (tableOf []).opts = [] := rfl
theorem tableOf_cons_opt (n : Str) (h : Bool) (rest : List Line) :
    (tableOf (.opt n h :: rest)).opts = ⟨n, h⟩ :: (tableOf rest).opts := by
  simp [tableOf]
theorem tableOf_cons_blank (rest : List Line) : (tableOf (.blank :: rest)).opts = (tableOf rest).opts := by
  simp [tableOf]
theorem tableOf_cons_missing (rest : List Line) : (tableOf (.missing :: rest)).opts = (tableOf rest).opts := by
  simp [tableOf]

theorem findIdx_spec (lines : List Line) (os : Str) :
    match findIdx lines os with
    | none => lookupLong (tableOf lines).opts os = none
    | some j => ∃ n h v, lines[j]? = some (.opt n h) ∧ matchOpt ⟨n, h⟩ os = some v ∧
        lookupLong (tableOf lines).opts os = some (⟨n, h⟩, v) := by
  induction lines with
  | nil => simp [findIdx, tableOf_nil, lookupLong]
  | cons l rest ih =>
    cases l with
    | blank =>
      simp only [findIdx, tableOf_cons_blank]
      cases hf : findIdx rest os with
      | none => simpa [hf] using ih
      | some j => simpa [hf] using ih
    | missing =>
      simp only [findIdx, tableOf_cons_missing]
      cases hf : findIdx rest os with
      | none => simpa [hf] using ih
      | some j => simpa [hf] using ih
    | opt n h =>
      simp only [findIdx, tableOf_cons_opt, lookupLong]
      cases hm : matchOpt ⟨n, h⟩ os with
      | some v => exact ⟨n, h, v, by simp, hm, by simp⟩
      | none =>
        cases hf : findIdx rest os with
        | none => simpa [hf] using ih
        | some j => simpa [hf] using ih

theorem validName_length {n : Str} (h : ValidName n) : 2 ≤ n.length := by
  rcases h with ⟨c, rfl, _⟩ | ⟨c, cs, rfl⟩ <;> simp

theorem matchOpt_short (o : Opt) (hv : ValidName o.name) (c : UInt8) :
    matchOpt o [dash, c] = if o.name = [dash, c] then some none else none := by
  unfold matchOpt
  by_cases h : o.name = [dash, c]
  · simp [h]
  · have h' : ¬ [dash, c] = o.name := fun e => h e.symm
    have hp : (o.name ++ [eqc]).isPrefixOf [dash, c] = false := by
      apply Bool.eq_false_iff.mpr
      intro hp
      rw [List.isPrefixOf_iff_prefix] at hp
      have := hp.length_le
      have := validName_length hv
      simp at *
      omega
    simp [h, h', hp]

theorem lookupLong_short (opts : List Opt) (hv : ∀ o ∈ opts, ValidName o.name) (c : UInt8) :
    lookupLong opts [dash, c] = (lookupShort opts c).map (fun o => (o, none)) := by
  induction opts with
  | nil => simp [lookupLong, lookupShort]
  | cons o rest ih =>
    have ih' := ih (fun o ho => hv o (List.mem_cons_of_mem _ ho))
    simp only [lookupLong, matchOpt_short o (hv o (by simp)) c]
    by_cases h : o.name = [dash, c]
    · simp [h, lookupShort]
    · simp only [h, if_false, ih']
      simp [lookupShort, h]

/-! ## registration: the dummy pass through the switch -/

/-- slot of the last `GETOPT_MISSING_ARG` line (`cur` if there is none) -/
def lastMissing : List Line → Nat → Nat → Nat
  | [], _, cur => cur
  | .missing :: rest, ln, _ => lastMissing rest (ln + 1) ln
  | .blank :: rest, ln, cur => lastMissing rest (ln + 1) cur
  | .opt _ _ :: rest, ln, cur => lastMissing rest (ln + 1) cur

theorem validName_ok {n : Str} (hv : ValidName n) (hn : NulFree n) : validName n = pure true := by
  rcases hv with ⟨c, rfl, hc⟩ | ⟨c, cs, rfl⟩
  · have hc0 : c ≠ 0 := (nulFree_cons.mp (nulFree_cons.mp hn).2).1
    simp [validName, rd_cons_zero, rd_cons_succ, rd_nil_zero, hc, hc0]
  · have hc0 : c ≠ 0 := (nulFree_cons.mp (nulFree_cons.mp (nulFree_cons.mp hn).2).2).1
    simp [validName, rd_cons_zero, rd_cons_succ, hc0, dash_ne_zero]

theorem set_append_length {α : Type} (a : List α) (x y : α) (b : List α) :
    (a ++ x :: b).set a.length y = a ++ y :: b := by
  induction a with
  | nil => simp
  | cons c a ih => simp [ih]

theorem tableOf_append (a b : List Line) : (tableOf (a ++ b)).opts = (tableOf a).opts ++ (tableOf b).opts := by
  simp [tableOf]

theorem mem_tableOf {lines : List Line} {n : Str} {h : Bool} :
    (⟨n, h⟩ : Opt) ∈ (tableOf lines).opts ↔ Line.opt n h ∈ lines := by
  simp only [tableOf, List.mem_filterMap]
  constructor
  · rintro ⟨l, hl, he⟩
    cases l <;> simp at he
    obtain ⟨rfl, rfl⟩ := he
    exact hl
  · intro hm
    exact ⟨_, hm, rfl⟩

theorem lookupLong_none {opts : List Opt} {w : Str} (h : ∀ o ∈ opts, matchOpt o w = none) :
    lookupLong opts w = none := by
  induction opts with
  | nil => rfl
  | cons o rest ih =>
    simp [lookupLong, h o (by simp), ih (fun o ho => h o (List.mem_cons_of_mem _ ho))]

/-- `Spec.Table.WF` in the form the registration pass uses it -/
theorem wf_split {done rest : List Line} {n : Str} {h : Bool}
    (hwf : (tableOf (done ++ .opt n h :: rest)).WF) : findIdx done n = none := by
  have hpw := hwf.2
  rw [tableOf_append, tableOf_cons_opt, List.pairwise_append] at hpw
  have hall : ∀ o ∈ (tableOf done).opts, matchOpt o n = none := by
    intro o ho
    exact hpw.2.2 o ho ⟨n, h⟩ (by simp)
  have hnone := lookupLong_none hall
  have hs := findIdx_spec done n
  cases hf : findIdx done n with
  | none => rfl
  | some j =>
    rw [hf] at hs
    obtain ⟨_, _, _, _, _, h3⟩ := hs
    rw [hnone] at h3
    cases h3

theorem namesOK_of_wf {lines : List Line} (hwf : (tableOf lines).WF) : NamesOK lines :=
  fun n h hm => hwf.1 ⟨n, h⟩ (mem_tableOf.mpr hm)

theorem regLines_ok (rest : List Line) : ∀ (done : List Line) (s : St),
    s.optreset = false → s.initialized = false →
    s.opts = some (done.map slotOf ++ List.replicate rest.length none) →
    (tableOf (done ++ rest)).WF →
    regLines rest done.length s =
      pure { s with opts := some ((done ++ rest).map slotOf),
                    optMissing := lastMissing rest done.length s.optMissing } := by
  induction rest with
  | nil =>
    intro done s _ _ ho _
    cases s
    simp_all [regLines, lastMissing]
  | cons l rest ih =>
    intro done s hr hi ho hwf
    obtain ⟨optarg, optind, optreset, initialized, cmdname, opts, nopts, optMissing, optDefault, optFound, packed⟩ := s
    simp only at hr hi ho
    subst hr hi
    have hlen : (done ++ [l]).length = done.length + 1 := by simp
    have happ : done ++ l :: rest = (done ++ [l]) ++ rest := by simp
    cases l with
    | blank =>
      have := ih (done ++ [Line.blank]) ⟨optarg, optind, false, false, cmdname, opts, nopts, optMissing, optDefault, optFound, packed⟩
        rfl rfl (by simp [ho, slotOf, List.replicate_succ]) (by rwa [← happ])
      rw [hlen] at this
      simp [regLines, this, lastMissing]
    | missing =>
      have := ih (done ++ [Line.missing]) ⟨optarg, optind, false, false, cmdname, opts, nopts, done.length, optDefault, optFound, packed⟩
        rfl rfl (by simp [ho, slotOf, List.replicate_succ]) (by rwa [← happ])
      rw [hlen] at this
      simp [regLines, registerMissing, this, lastMissing]
    | opt n h =>
      have hnames := namesOK_of_wf hwf
      have hn := hnames n h (by simp)
      have hdone : NamesOK done := fun n h hm => hnames n h (by simp [hm])
      have hnot := wf_split hwf
      have hsearch : searchopt ⟨optarg, optind, false, false, cmdname, opts, nopts, optMissing, optDefault, optFound, packed⟩ n = pure optDefault := by
        simp only [searchopt, ho]
        rw [searchSlots_eq done hdone n hn.2, hnot]; rfl
      have hset : (done.map slotOf ++ List.replicate (rest.length + 1) none).set done.length
          (some ⟨n, (cstr n).length, h⟩) = (done ++ [Line.opt n h]).map slotOf ++ List.replicate rest.length none := by
        have := set_append_length (done.map slotOf) none (some ⟨n, (cstr n).length, h⟩) (List.replicate rest.length none)
        simp only [List.length_map] at this
        rw [List.replicate_succ, this]; simp [slotOf, cstr_of_nulFree hn.2]
      have := ih (done ++ [Line.opt n h])
        ⟨optarg, optind, false, false, cmdname, some ((done ++ [Line.opt n h]).map slotOf ++ List.replicate rest.length none),
          nopts, optMissing, optDefault, optFound, packed⟩ rfl rfl rfl (by rwa [← happ])
      rw [hlen] at this
      simp only [List.length_cons] at ho
      subst ho
      simp [regLines, registerOpt, validName_ok hn.1 hn.2, hsearch, hset, lastMissing]
      simpa using this

/-! ## the invariant of an initialised parser, and the start of a parse -/

structure Inv (lines : List Line) (s : St) : Prop where
  reset : s.optreset = false
  init : s.initialized = true
  opts : s.opts = some (lines.map slotOf)
  nopts : s.nopts = lines.length
  dflt : s.optDefault = lines.length + 1
  miss : s.optMissing = lastMissing lines 0 (lines.length + 1)

/-- the state in which the first real `getopt` call of a parse happens -/
def ready (lines : List Line) (argv : List Str) (s : St) : St :=
  { reset argv { s with optarg := none } with
    opts := some (lines.map slotOf), nopts := lines.length,
    optMissing := lastMissing lines 0 (lines.length + 1), optDefault := lines.length + 1,
    initialized := true }

theorem ready_inv (lines : List Line) (argv : List Str) (s : St) : Inv lines (ready lines argv s) :=
  ⟨rfl, rfl, rfl, rfl, rfl, rfl⟩

theorem ready_optind (lines : List Line) (argv : List Str) (s : St) : (ready lines argv s).optind = 1 := rfl
theorem ready_packed (lines : List Line) (argv : List Str) (s : St) : (ready lines argv s).packed = none := rfl

theorem getopt_reset (argv : List Str) (s : St) (h : s.optreset = true) :
    getopt argv s = pure (.dummy, reset argv { s with optarg := none }) := by
  simp [getopt, h, reset]

theorem initPass_ok (lines : List Line) (hwf : (tableOf lines).WF) (argv : List Str) (s : St) :
    initPass lines (reset argv { s with optarg := none }) = pure (ready lines argv s) := by
  have h := regLines_ok lines []
    { reset argv { s with optarg := none } with
      opts := some (List.replicate lines.length none), nopts := lines.length,
      optMissing := lines.length + 1, optDefault := lines.length + 1 }
    rfl rfl (by simp) (by simpa using hwf)
  simp only [List.length_nil] at h
  simp only [initPass, setrange, reset, Bool.false_eq_true, if_false, pure_bind]
  simp only [reset] at h
  rw [h]
  simp [ready, reset]

end Percival.Proofs.Getopt
