import Percival.Model.OsEntropy
namespace Percival.Proofs.OsEntropy
open Percival.Model.OsEntropy

/-- Whatever the script, a successful fill has stored exactly the next `need` bytes of the OS
    stream, in order, after what was already there. -/
theorem fill_ok (f need : Nat) (stream : List UInt8) (script : List ReadAns) (r : Res)
    (h : (fill f need stream script r).ok = true) :
    (fill f need stream script r).got = r.got ++ stream.take need ∧ need ≤ stream.length := by
  induction f generalizing need stream script r with
  | zero => simp [fill] at h
  | succ f ih =>
    cases need with
    | zero => simp [fill]
    | succ m =>
      cases script with
      | nil =>
        simp only [fill] at h ⊢
        split at h
        · simp at h
        · rename_i hk
          split
          · rename_i hk'; exact absurd hk' hk
          · have := ih _ _ _ _ h
            obtain ⟨e1, e2⟩ := this
            have hk1 : min (m + 1) stream.length ≤ m + 1 := Nat.min_le_left _ _
            have hk2 : min (m + 1) stream.length ≤ stream.length := Nat.min_le_right _ _
            generalize min (m + 1) stream.length = k at *
            simp only [List.length_drop] at e2
            constructor
            · rw [e1, List.append_assoc]
              congr 1
              have : m + 1 = k + (m + 1 - k) := by omega
              conv => rhs; rw [this, List.take_add]
            · omega
      | cons a as =>
        cases a with
        | chunk c =>
          simp only [fill] at h ⊢
          split at h
          · simp at h
          · rename_i hk
            split
            · rename_i hk'; exact absurd hk' hk
            · have := ih _ _ _ _ h
              obtain ⟨e1, e2⟩ := this
              have hk1 : min (min (c + 1) (m + 1)) stream.length ≤ m + 1 :=
                Nat.le_trans (Nat.min_le_left _ _) (Nat.min_le_right _ _)
              have hk2 : min (min (c + 1) (m + 1)) stream.length ≤ stream.length := Nat.min_le_right _ _
              generalize min (min (c + 1) (m + 1)) stream.length = k at *
              simp only [List.length_drop] at e2
              constructor
              · rw [e1, List.append_assoc]
                congr 1
                have : m + 1 = k + (m + 1 - k) := by omega
                conv => rhs; rw [this, List.take_add]
              · omega
        | eof => simp [fill] at h
        | err e => simp [fill] at h

/-- an end-of-file or an error answer — whatever its `errno` — when the buffer is not yet full makes the call fail -/
theorem fill_fails_on_eof_or_err (f m : Nat) (stream : List UInt8) (as : List ReadAns) (r : Res) (a : ReadAns)
    (ha : a = .eof ∨ ∃ e, a = .err e) : (fill (f + 1) (m + 1) stream (a :: as) r).ok = false := by
  rcases ha with rfl | ⟨e, rfl⟩ <;> simp [fill]

/-- … at **every position**: after any sequence of short reads that together cannot have filled the buffer
    (`Σ (kᵢ+1) < need`; read `i` hands over at most `kᵢ+1` bytes) -/
theorem fill_fails_at (ks : List Nat) (a : ReadAns) (ha : a = .eof ∨ ∃ e, a = .err e)
    (f need : Nat) (stream : List UInt8) (as : List ReadAns) (r : Res)
    (hf : need < f) (hs : (ks.map (· + 1)).sum < need) :
    (fill f need stream (ks.map .chunk ++ a :: as) r).ok = false := by
  induction ks generalizing f need stream r with
  | nil =>
    obtain ⟨f, rfl⟩ : ∃ f', f = f' + 1 := ⟨f - 1, by omega⟩
    obtain ⟨m, rfl⟩ : ∃ m, need = m + 1 := ⟨need - 1, by simp at hs; omega⟩
    exact fill_fails_on_eof_or_err f m stream as r a ha
  | cons k ks ih =>
    simp only [List.map_cons, List.sum_cons] at hs
    obtain ⟨f, rfl⟩ : ∃ f', f = f' + 1 := ⟨f - 1, by omega⟩
    obtain ⟨m, rfl⟩ : ∃ m, need = m + 1 := ⟨need - 1, by omega⟩
    simp only [List.map_cons, List.cons_append, fill]
    split
    · rfl
    · rename_i hn
      have h1 : min (min (k + 1) (m + 1)) stream.length ≤ k + 1 :=
        Nat.le_trans (Nat.min_le_left _ _) (Nat.min_le_left _ _)
      generalize min (min (k + 1) (m + 1)) stream.length = n at *
      exact ih _ _ _ _ (by omega) (by omega)

/-- the converse reading: a call that succeeds saw only positive `read` results — no `-1`, no `0` — since it began -/
theorem fill_ok_calls (f need : Nat) (stream : List UInt8) (script : List ReadAns) (r : Res)
    (h : (fill f need stream script r).ok = true) :
    ∀ c ∈ (fill f need stream script r).calls, c ∈ r.calls ∨ 0 < c.2 := by
  induction f generalizing need stream script r with
  | zero => simp [fill] at h
  | succ f ih =>
    cases need with
    | zero => intro c hc; simp [fill] at hc; exact Or.inl hc
    | succ m =>
      cases script with
      | nil =>
        simp only [fill] at h ⊢
        split at h
        · simp at h
        · rename_i hk
          rw [if_neg hk]
          intro c hc
          rcases ih _ _ _ _ h c hc with h' | h'
          · simp only [List.mem_cons] at h'
            rcases h' with rfl | h'
            · right; simp only; omega
            · exact Or.inl h'
          · exact Or.inr h'
      | cons a as =>
        cases a with
        | chunk k =>
          simp only [fill] at h ⊢
          split at h
          · simp at h
          · rename_i hk
            rw [if_neg hk]
            intro c hc
            rcases ih _ _ _ _ h c hc with h' | h'
            · simp only [List.mem_cons] at h'
              rcases h' with rfl | h'
              · right; simp only; omega
              · exact Or.inl h'
            · exact Or.inr h'
        | eof => simp [fill] at h
        | err e => simp [fill] at h

end Percival.Proofs.OsEntropy
