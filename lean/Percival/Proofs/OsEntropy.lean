import Percival.Model.OsEntropy
namespace Percival.Proofs.OsEntropy
open Percival.Model.OsEntropy

/-- Whatever the script, a successful fill has stored exactly the next `need` bytes of the OS
    stream, in order, after what was already there. -/
theorem fill_ok (f need : Nat) (stream : List UInt8) (script : List ReadAns) (r : Res)
    (h : (fill f need stream script r).ok = true) :
    (fill f need stream script r).got = r.got ++ stream.take need ∧ need ≤ stream.length := by
  induction f generalizing need stream script r with
  | zero => simp [fill] at h
  | succ f ih =>
    cases need with
    | zero => simp [fill]
    | succ m =>
      cases script with
      | nil =>
        simp only [fill] at h ⊢
        split at h
        · simp at h
        · rename_i hk
          split
          · rename_i hk'; exact absurd hk' hk
          · have := ih _ _ _ _ h
            obtain ⟨e1, e2⟩ := this
            have hk1 : min (m + 1) stream.length ≤ m + 1 := Nat.min_le_left _ _
            have hk2 : min (m + 1) stream.length ≤ stream.length := Nat.min_le_right _ _
            generalize min (m + 1) stream.length = k at *
            simp only [List.length_drop] at e2
            constructor
            · rw [e1, List.append_assoc]
              congr 1
              have : m + 1 = k + (m + 1 - k) := by omega
              conv => rhs; rw [this, List.take_add]
            · omega
      | cons a as =>
        cases a with
        | chunk c =>
          simp only [fill] at h ⊢
          split at h
          · simp at h
          · rename_i hk
            split
            · rename_i hk'; exact absurd hk' hk
            · have := ih _ _ _ _ h
              obtain ⟨e1, e2⟩ := this
              have hk1 : min (min (c + 1) (m + 1)) stream.length ≤ m + 1 :=
                Nat.le_trans (Nat.min_le_left _ _) (Nat.min_le_right _ _)
              have hk2 : min (min (c + 1) (m + 1)) stream.length ≤ stream.length := Nat.min_le_right _ _
              generalize min (min (c + 1) (m + 1)) stream.length = k at *
              simp only [List.length_drop] at e2
              constructor
              · rw [e1, List.append_assoc]
                congr 1
                have : m + 1 = k + (m + 1 - k) := by omega
                conv => rhs; rw [this, List.take_add]
              · omega
        | eof => simp [fill] at h
        | err => simp [fill] at h

/-- an end-of-file or error answer before the buffer is full makes the call fail -/
theorem fill_fails_on_eof_or_err (f m : Nat) (stream : List UInt8) (as : List ReadAns) (r : Res) (a : ReadAns)
    (ha : a = .eof ∨ a = .err) : (fill (f + 1) (m + 1) stream (a :: as) r).ok = false := by
  rcases ha with rfl | rfl <;> simp [fill]

end Percival.Proofs.OsEntropy
