import Percival.Model.Events
import Percival.Spec.PQ
set_option linter.unusedSimpArgs false
namespace Percival.Proofs.EventsTQ
open Percival.Spec.Events Percival.Model.Events Percival.Model Percival.Model.TimerQueue Percival.Spec.PQ

/-- The contract of `datastruct/timerqueue.c` + `ptrheap.c` as proved for `Model.TimerQueue` in C13
    (`Percival.Proofs.TQ`: `tq_inv_empty`, `tq_add`, `tq_delete`, `tq_increase`, `tq_getmin`,
    `tq_getptr` — the fields below are those statements verbatim, with `TQInv` abstract).
    The event-loop theorems use the timer queue only through this contract. -/
structure TQContract where
  TQInv : TQ → Prop
  empty : TQInv TimerQueue.empty
  add : ∀ (q : TQ) (r : Nat) (sec usec : Int) (ptr : Nat), TQInv q → r ∉ q.h.a.toList →
      TQInv (add q r sec usec ptr) ∧ (add q r sec usec ptr).h.a.toList.Perm (r :: q.h.a.toList) ∧
      (add q r sec usec ptr).recs = (r, ⟨sec, usec, ptr⟩) :: q.recs
  delete : ∀ (q : TQ) (r : Nat), TQInv q → r ∈ q.h.a.toList →
      ∃ q', delete q r = some q' ∧ TQInv q' ∧ q.h.a.toList.Perm (r :: q'.h.a.toList) ∧ q'.recs = q.recs
  increase : ∀ (q : TQ) (r : Nat) (sec usec : Int) (old : Rec), TQInv q → r ∈ q.h.a.toList →
      lookup q.recs r = some old → tvKey old.sec old.usec ≤ tvKey sec usec →
      ∃ q', increase q r sec usec = some q' ∧ TQInv q' ∧ q'.h.a.toList.Perm q.h.a.toList ∧
        q'.recs = (r, { old with sec, usec }) :: q.recs
  getmin : ∀ (q : TQ), TQInv q →
      match getmin q with
      | none => q.h.a.toList = []
      | some (s, u) => ∃ r x, IsLeast (key q.recs) q.h.a.toList r ∧ lookup q.recs r = some x ∧ s = x.sec ∧ u = x.usec
  getptr : ∀ (q : TQ) (sec usec : Int), TQInv q →
      match getptr q sec usec with
      | (q', some (r, p)) => IsLeast (key q.recs) q.h.a.toList r ∧ key q.recs r ≤ tvKey sec usec ∧
          (∃ x, lookup q.recs r = some x ∧ p = x.ptr) ∧ TQInv q' ∧ q.h.a.toList.Perm (r :: q'.h.a.toList) ∧ q'.recs = q.recs
      | (q', none) => q' = q ∧ ∀ x ∈ q.h.a.toList, key q.recs x > tvKey sec usec

/-! ## time arithmetic -/

theorem tvKey_le (s1 u1 s2 u2 : Int) (h1 : 0 ≤ u1) (h1' : u1 < 1000000) (h2 : 0 ≤ u2) (h2' : u2 < 1000000) :
    tvKey s1 u1 ≤ tvKey s2 u2 ↔ s1 * 1000000 + u1 ≤ s2 * 1000000 + u2 := by
  unfold tvKey
  have e1 : (2:Int)^64 = 18446744073709551616 := by decide
  have e2 : (2:Int)^63 = 9223372036854775808 := by decide
  rw [e1, e2]
  omega

theorem gettimeout_spec (clock : Nat) (dsec dusec : Int) (h0 : 0 ≤ dsec) (h1 : 0 ≤ dusec) (h2 : dusec < 1000000) :
    (gettimeout clock dsec dusec).1 * 1000000 + (gettimeout clock dsec dusec).2 = clock + (dsec * 1000000 + dusec) ∧
    0 ≤ (gettimeout clock dsec dusec).1 ∧ 0 ≤ (gettimeout clock dsec dusec).2 ∧ (gettimeout clock dsec dusec).2 < 1000000 := by
  unfold gettimeout
  simp only
  split <;> simp only <;> omega

theorem split_usec (us : Nat) : ((us / 1000000 : Nat) : Int) * 1000000 + ((us % 1000000 : Nat) : Int) = us ∧
    (0:Int) ≤ ((us / 1000000 : Nat) : Int) ∧ (0:Int) ≤ ((us % 1000000 : Nat) : Int) ∧ ((us % 1000000 : Nat) : Int) < 1000000 := by
  omega


/-! ## the conversion to milliseconds

`C05.ceilMs` is the property's "rounded up to a millisecond" and has no upper limit.  The code's `tv2ms`
(`Model.selectTimeout`) agrees with it below `INT_MAX / 1000` = 2147483 seconds and from there on returns
2147483000 ms, which is no longer than the time asked for: `satMs`. -/

/-- what `tv2ms` makes of `us` microseconds -/
def satMs (us : Nat) : Int := if us < 2147483000000 then C05.ceilMs us else 2147483000

/-- never longer than asked for -/
theorem satMs_le (us : Nat) : satMs us ≤ C05.ceilMs us := by
  unfold satMs C05.ceilMs
  split <;> omega

theorem satMs_nonneg (us : Nat) : 0 ≤ satMs us := by
  unfold satMs C05.ceilMs
  split <;> omega

/-- zero only when nothing is left (no busy loop while time remains, no blocking once it has run out) -/
theorem satMs_eq_zero (us : Nat) : satMs us = 0 ↔ us = 0 := by
  unfold satMs C05.ceilMs
  split <;> omega

theorem satMs_lt {us : Nat} (h : us < 2147483000000) : satMs us = C05.ceilMs us := by
  unfold satMs; rw [if_pos h]

theorem satMs_ge {us : Nat} (h : 2147483000000 ≤ us) : satMs us = 2147483000 := by
  unfold satMs; rw [if_neg (by omega)]

/-- the timeout handed to `poll` for a timer due at `dl` µs when the clock reads `clock` µs:
    `events_timer_min`'s difference pushed through `events_network_select`'s conversion is `satMs` of
    the time that is left (0 once the timer is due) -/
theorem selectTimeout_timerDiff (clock dl : Nat) :
    selectTimeout (some (timerDiff clock ((dl / 1000000 : Nat) : Int) ((dl % 1000000 : Nat) : Int))) = satMs (dl - clock) := by
  unfold timerDiff selectTimeout satMs C05.ceilMs
  simp only
  split
  · -- already expired (strictly)
    rename_i h
    have : dl - clock = 0 := by omega
    simp [this]
  · rename_i h
    split
    · rename_i h2
      simp only
      split <;> split <;> omega
    · rename_i h2
      simp only
      split <;> split <;> omega

/-! ## what is left of a wait after EINTR (`events_network_select`) -/

/-- `events_timer_min`'s difference is a normalised `struct timeval` holding the time that is left -/
theorem timerDiff_spec (clock dl : Nat) :
    (timerDiff clock ((dl / 1000000 : Nat) : Int) ((dl % 1000000 : Nat) : Int)).1 * 1000000 +
      (timerDiff clock ((dl / 1000000 : Nat) : Int) ((dl % 1000000 : Nat) : Int)).2 = ((dl - clock : Nat) : Int) ∧
    0 ≤ (timerDiff clock ((dl / 1000000 : Nat) : Int) ((dl % 1000000 : Nat) : Int)).1 ∧
    0 ≤ (timerDiff clock ((dl / 1000000 : Nat) : Int) ((dl % 1000000 : Nat) : Int)).2 ∧
    (timerDiff clock ((dl / 1000000 : Nat) : Int) ((dl % 1000000 : Nat) : Int)).2 < 1000000 := by
  unfold timerDiff
  simp only
  split
  · simp only; omega
  · split <;> simp only <;> omega

theorem ceilMs_mono {a b : Nat} (h : a ≤ b) : C05.ceilMs a ≤ C05.ceilMs b := by
  unfold C05.ceilMs
  omega

/-- the conversion to milliseconds of a normalised, non-negative `struct timeval` -/
theorem selectTimeout_norm (sec usec : Int) (us : Nat) (h0 : 0 ≤ usec) (h1 : usec < 1000000)
    (h : sec * 1000000 + usec = us) : selectTimeout (some (sec, usec)) = satMs us := by
  unfold selectTimeout satMs C05.ceilMs
  simp only
  split <;> split <;> omega

theorem tvCarry_spec (sec usec : Int) (h0 : -1000000 < usec) (h1 : usec < 2000000) :
    (tvCarry sec usec).1 * 1000000 + (tvCarry sec usec).2 = sec * 1000000 + usec ∧
    0 ≤ (tvCarry sec usec).2 ∧ (tvCarry sec usec).2 < 1000000 := by
  unfold tvCarry
  split
  · simp only; omega
  · split
    · simp only; omega
    · simp only; exact ⟨trivial, by omega, by omega⟩

/-- `timeLeft` is `satMs` of what is left of the wait (nothing once `tstart + tv ≤ tnow`) -/
theorem timeLeft_eq (tv : Int × Int) (tstart tnow us : Nat) (h0 : 0 ≤ tv.2) (h1 : tv.2 < 1000000)
    (h : tv.1 * 1000000 + tv.2 = us) : timeLeft tv tstart tnow = satMs (tstart + us - tnow) := by
  unfold timeLeft
  simp only
  obtain ⟨c1, c2, c3⟩ := tvCarry_spec (tv.1 - (((tnow / 1000000 : Nat) : Int) - ((tstart / 1000000 : Nat) : Int)))
    (tv.2 - (((tnow % 1000000 : Nat) : Int) - ((tstart % 1000000 : Nat) : Int))) (by omega) (by omega)
  generalize tvCarry _ _ = left at c1 c2 c3 ⊢
  obtain ⟨ls, lu⟩ := left
  simp only at c1 c2 c3 ⊢
  split
  · have : tstart + us - tnow = 0 := by omega
    rw [this]; rfl
  · exact selectTimeout_norm ls lu _ c2 c3 (by omega)
end Percival.Proofs.EventsTQ
