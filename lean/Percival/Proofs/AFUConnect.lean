import Percival.Proofs.AllocFailUpper
/-!
# C14, upper layers: `network_connect` / `network_connect_timeo` / `network_connect_cancel`

`networkConnect_spec` and `networkConnectCancel_spec` in the style of `networkAccept_spec` /
`networkAcceptCancel_spec` of `Proofs/AllocFailUpper.lean`, plus the helper lemmas they need (exported:
`flatten_modify_head`, `flatten_map_filter`, `expTimers_nodup`, `expImm_sublist`, `expImm_nodup`,
`expNet_ids_sublist`, `expNet_ids_nodup`, `expNet_nodup`, `nodup_of_nodup_map`, `step_tqDelete`, `step_tmCancel`,
`step_immCancel`, `evOk_immReg`, `evOk_tmReg`, `tmReg_regs_other`, `immReg_regs_other`, `expLive_lt`,
`regTimers_lt`, `regImm_lt`, `filter_ne_cons_self`, `perm_filter_ne`, and the cancel steps `ccTimer_spec`,
`ccImm_spec`, `ccSock_spec` over `ConnFrm`).
-/
namespace Percival.Proofs.AllocFailUpper
open Percival.Model Percival.Model.EvReg Percival.Model.AllocFail
open Percival.Proofs.EvRegNet (regNet netRegistered NetInv)
open Percival.Proofs.EvRegTimer (regImm regTimers TmInv Step Granted)
open Percival.Proofs.EArray (malloc_ok malloc_fail free_facts)

theorem flatten_modify_head (l : List (List Nat)) (c : Nat) (h : 0 < l.length) :
    (l.modify 0 (· ++ [c])).flatten.Perm (c :: l.flatten) := by
  cases l with
  | nil => simp at h
  | cons x rest =>
    rw [List.perm_iff_count]; intro k
    simp [List.count_append, List.count_cons]; omega

theorem flatten_map_filter (l : List (List Nat)) (p : Nat → Bool) :
    (l.map (·.filter p)).flatten = l.flatten.filter p := by
  rw [List.filter_flatten]

theorem expTimers_nodup {t : Tables} (h : ((expLive t).map (·.1)).Nodup) : (expTimers t).Nodup :=
  (List.filter_sublist.map _).nodup (tables_nodup h).2.2.2.1

theorem sublist_readers_imm : ∀ (l : List Reader),
    ((l.filter (·.immediate)).map (·.id)).Sublist
      ((l.flatMap (fun r => [(r.id, Site.nbrStruct), (r.buf, Site.nbrBuf)])).map (·.1))
  | [] => by simp
  | r :: rest => by
    have ih := sublist_readers_imm rest
    simp only [List.flatMap_cons, List.map_cons, List.cons_append, List.nil_append, List.filter_cons]
    split
    · exact (ih.cons _).cons_cons _
    · exact (ih.cons _).cons _

theorem expImm_sublist (t : Tables) : (expImm t).Sublist ((expLive t).map (·.1)) := by
  simp only [expImm, expLive, List.map_append, List.map_map]
  have h1 : ((t.conns.filter (·.imm)).map (·.cookie)).Sublist (t.conns.map (fun k => k.cookie)) :=
    List.filter_sublist.map _
  have h2 := sublist_readers_imm t.readers
  refine List.Sublist.trans ?_ (List.sublist_append_left _ _)
  refine List.Sublist.trans ?_ (List.sublist_append_left _ _)
  refine List.Sublist.append ?_ h2
  exact h1.trans (List.sublist_append_right _ _)

theorem expImm_nodup {t : Tables} (h : ((expLive t).map (·.1)).Nodup) : (expImm t).Nodup :=
  (expImm_sublist t).nodup h

theorem sublist_conns_sock : ∀ (l : List Conn),
    ((l.filterMap (fun k => k.sock.map (fun s => (s, true, k.cookie)))).map (·.2.2)).Sublist (l.map (·.cookie))
  | [] => by simp
  | k :: rest => by
    have ih := sublist_conns_sock rest
    cases hs : k.sock with
    | none => simp only [List.filterMap_cons, hs, Option.map_none, List.map_cons]; exact ih.cons _
    | some s => simp only [List.filterMap_cons, hs, Option.map_some, List.map_cons]; exact ih.cons_cons _

/-- the ids of the expected network registrations are ids of table objects -/
theorem expNet_ids_sublist (t : Tables) : ((expNet t).map (·.2.2)).Sublist ((expLive t).map (·.1)) := by
  simp only [expNet, expLive, List.map_append, List.map_map]
  refine List.Sublist.trans ?_ (List.sublist_append_left _ _)
  refine List.Sublist.trans ?_ (List.sublist_append_left _ _)
  refine List.Sublist.trans ?_ (List.sublist_append_left _ _)
  exact List.Sublist.append (List.Sublist.refl _) (sublist_conns_sock t.conns)

theorem expNet_ids_nodup {t : Tables} (h : ((expLive t).map (·.1)).Nodup) : ((expNet t).map (·.2.2)).Nodup :=
  (expNet_ids_sublist t).nodup h

theorem nodup_of_nodup_map {α β : Type} (f : α → β) : ∀ (l : List α), (l.map f).Nodup → l.Nodup
  | [], _ => List.nodup_nil
  | a :: l, h => by
    simp only [List.map_cons, List.nodup_cons] at h ⊢
    exact ⟨fun hm => h.1 (List.mem_map_of_mem hm), nodup_of_nodup_map f l h.2⟩

theorem expNet_nodup {t : Tables} (h : ((expLive t).map (·.1)).Nodup) : (expNet t).Nodup :=
  nodup_of_nodup_map _ _ (expNet_ids_nodup h)


theorem step_tqDelete {t t' : HeapAlloc.TQA} {r : Nat} {m m' : Mem} (h : HeapAlloc.tqDelete t r m = some (t', m')) :
    Step m m' := by
  unfold HeapAlloc.tqDelete at h
  split at h
  · cases h
  · have hs := EvRegTimer.step_shrink (HeapAlloc.shape t.q.h.a.size t.alloc) 1 SeqMap.ptrLen m
    split at h
    rename_i a' m1 heq
    rw [heq] at hs
    simp only [Option.some.injEq, Prod.mk.injEq] at h
    rw [← h.2]
    exact hs.trans (EvRegTimer.step_free _ _)

theorem step_tmCancel {e e' : Ev} {id : Nat} {m m' : Mem} (h : tmCancel e id m = some (e', m')) : Step m m' := by
  unfold tmCancel at h
  split at h
  · rename_i ent t _ _
    split at h
    · cases h
    · rename_i t' m1 hdel
      have h1 := step_tqDelete hdel
      have h2 := EvRegTimer.step_freerec { e with tq := some t', timers := e.timers.filter (·.id != id) } ent.rid m1
      split at h
      rename_i e2 m2 heq
      rw [heq] at h2
      simp only [Option.some.injEq, Prod.mk.injEq] at h
      rw [← h.2]
      exact h1.trans (h2.trans (EvRegTimer.step_free _ _))
  · cases h

theorem step_immCancel {e e' : Ev} {id : Nat} {m m' : Mem} (h : immCancel e id m = some (e', m')) : Step m m' := by
  unfold immCancel at h
  split at h
  · cases h
  · rename_i ent _
    simp only [EvRegTimer.freerec_eq, Option.some.injEq, Prod.mk.injEq] at h
    rw [← h.2]
    exact (EvRegTimer.step_mpFree _ _ _).trans (EvRegTimer.step_mpFree _ _ _)



theorem evOk_immReg {e : Ev} {m : Mem} (h : EvOk e m) (id : Nat) :
    EvOk (immReg e id 0 m).2.1 (immReg e id 0 m).2.2 := by
  have hm := EvRegTimer.immReg_master e id 0 m
  obtain ⟨⟨o1, o2, o3, o4, o5, o6⟩, hst, hok, _⟩ := hm
  refine ⟨EvRegNet.netInv_congr _ _ h.net o3 o4 o5 o6, EvRegTimer.tmInv_congr _ _ m _ h.tm o1 o2 hst.n, ?_⟩
  cases hr : (immReg e id 0 m).1 with
  | true =>
    rw [EvRegTimer.immReg_ok e id 0 m hr, List.length_modify]; exact h.heads
  | false =>
    have := AllocFail.imm_fail_unchanged e id 0 m hr
    rw [((registry_eq_iff _ _).1 this).1]; exact h.heads

theorem evOk_tmReg {e : Ev} {m : Mem} (h : EvOk e m) (id : Nat) (usec now : Int) (hid : id ∉ regTimers e) :
    EvOk (tmReg e id usec now m).2.1 (tmReg e id usec now m).2.2 := by
  obtain ⟨o1, _, _, o4, o5, o6, o7⟩ := EvRegTimer.tmReg_other e id usec now m
  exact ⟨EvRegNet.netInv_congr _ _ h.net o4 o5 o6 o7, EvRegTimer.tmReg_inv e id usec now m h.tm hid,
    by rw [regImm_congr o1]; exact h.heads⟩

/-- the other two parts of the registry after a timer registration -/
theorem tmReg_regs_other (e : Ev) (id : Nat) (usec now : Int) (m : Mem) :
    regImm (tmReg e id usec now m).2.1 = regImm e ∧ regNet (tmReg e id usec now m).2.1 = regNet e := by
  obtain ⟨o1, _, _, _, o5, _, _⟩ := EvRegTimer.tmReg_other e id usec now m
  exact ⟨regImm_congr o1, regNet_congr o5⟩

theorem immReg_regs_other (e : Ev) (id prio : Nat) (m : Mem) :
    regTimers (immReg e id prio m).2.1 = regTimers e ∧ regNet (immReg e id prio m).2.1 = regNet e := by
  obtain ⟨_, o2, _, o4, _, _⟩ := EvRegTimer.immReg_other e id prio m
  exact ⟨regTimers_congr o2, regNet_congr o4⟩


/-- ids of the objects in the tables are indices of requests already made -/
theorem expLive_lt {w : World} (h : Inv0 w) {k : Nat × Site} (hk : k ∈ expLive (tables w)) : k.1 < w.m.n := by
  obtain ⟨b, hb, hid⟩ := List.mem_map.1 (h.owns.id_mem hk)
  rw [← hid]; exact h.fresh b (List.mem_append_left _ hb)

theorem regTimers_lt {w : World} (h : Inv0 w) {x : Nat} (hx : x ∈ regTimers w.ev) : x < w.m.n := by
  rw [h.regTm.mem_iff] at hx
  simp only [expTimers, List.mem_map, List.mem_filter] at hx
  obtain ⟨k, ⟨hk, _⟩, rfl⟩ := hx
  exact expLive_lt h (k := (k.cookie, Site.connCookie)) (by
    simp only [tables, expLive, List.mem_append, List.mem_map]
    exact Or.inl (Or.inl (Or.inl (Or.inr ⟨k, hk, rfl⟩))))

theorem regImm_lt {w : World} (h : Inv0 w) {x : Nat} (hx : x ∈ (regImm w.ev).flatten) : x < w.m.n := by
  rw [h.regImm.mem_iff] at hx
  simp only [expImm, List.mem_append, List.mem_map, List.mem_filter] at hx
  rcases hx with ⟨k, ⟨hk, _⟩, rfl⟩ | ⟨r, ⟨hr, _⟩, rfl⟩
  · exact expLive_lt h (k := (k.cookie, Site.connCookie)) (by
      simp only [tables, expLive, List.mem_append, List.mem_map]
      exact Or.inl (Or.inl (Or.inl (Or.inr ⟨k, hk, rfl⟩))))
  · exact expLive_lt h (k := (r.id, Site.nbrStruct)) (by
      simp only [tables, expLive, List.mem_append, List.mem_flatMap]
      exact Or.inl (Or.inl (Or.inr ⟨r, hr, by simp⟩)))


/-! ## `network_connect`: the worlds between the allocation of the cookie and the end of `tryconnect` -/

/-- `wb` is `w` after the cookie block `w.m.n` was allocated and some calls into the event layer were
made: the block is live but in no table yet -/
structure ConnPre (w wb : World) : Prop where
  live : wb.live = ⟨w.m.n, .connCookie, connCookieSize⟩ :: w.live
  cache : wb.cache = w.cache
  tables : tables wb = tables w
  bad : wb.bad = w.bad
  rd : wb.rdPool = w.rdPool
  wr : wb.wrPool = w.wrPool
  ev : EvOk wb.ev wb.m
  step : Step w.m wb.m
  acct : wb.m.live = wb.live.length + wb.cache.length + wb.evLive

theorem ConnPre.afterEv {w wb : World} (h : ConnPre w wb) {e' : Ev} {m' : Mem} (hev : EvOk e' m') (hst : Step wb.m m') :
    ConnPre w (setEv wb e' m') := by
  obtain ⟨a1, a2, a3, a4, a5, a6, _, a8, a9⟩ := h
  refine ⟨a1, a2, a3, a4, a5, a6, hev, a8.trans hst, ?_⟩
  simp only [setEv]; omega

/-- after the allocation -/
theorem pre_alloc {w : World} (h : Inv0 w) (hm : (w.m.malloc connCookieSize).1 = true) :
    ConnPre w { w with m := (w.m.malloc connCookieSize).2, live := ⟨w.m.n, .connCookie, connCookieSize⟩ :: w.live } := by
  have hok := malloc_ok hm
  have hs := EvRegTimer.step_malloc w.m connCookieSize
  refine ⟨rfl, rfl, rfl, rfl, rfl, rfl, evOk_step h.ev hs.n, hs, ?_⟩
  have := h.acct
  show (w.m.malloc connCookieSize).2.live =
    ((⟨w.m.n, .connCookie, connCookieSize⟩ :: w.live : List Block).length : Int) + (w.cache.length : Int) + w.evLive
  simp only [List.length_cons]; omega

/-- every failure rung ends in `free(C)` with the registry as it was -/
theorem connect_fail {w wb : World} (h : Inv0 w) (hp : ConnPre w wb) (hreg : registry wb.ev = registry w.ev) :
    Inv0 (release wb w.m.n) ∧ Step w.m (release wb w.m.n).m ∧ Same w (release wb w.m.n) ∧
    (release wb w.m.n).m.refusals = wb.m.refusals := by
  obtain ⟨a1, a2, a3, a4, a5, a6, a7, a8, a9⟩ := hp
  have hfind : findId wb.live w.m.n = some ⟨w.m.n, .connCookie, connCookieSize⟩ := by
    rw [a1]; simp [findId]
  have hfr := free_facts wb.m false
  have hrel : release wb w.m.n = { wb with m := wb.m.free false, live := w.live } := by
    simp only [release, hfind]
    simp only [a1, eraseId, beq_self_eq_true, if_true]
  rw [hrel]
  refine ⟨?_, a8.trans (EvRegTimer.step_free wb.m false), ⟨rfl, a3, hreg, a4⟩, hfr.1⟩
  refine inv0_frame h ?_ hreg ?_ rfl a2 a3 a4 a5 a6 ?_
  · exact evOk_step a7 (by rw [hfr.2.2.2]; exact Nat.le_refl _)
  · show w.m.n ≤ (wb.m.free false).n
    rw [hfr.2.2.2]; exact a8.n
  · show (wb.m.free false).live = _
    rw [hfr.2.1]
    rw [a1] at a9
    simp only [List.length_cons] at a9
    simp only [Bool.false_eq_true, if_false]; omega

/-- every success ends with one new entry in `conns` -/
theorem connect_ok {w wb : World} (h : Inv0 w) (hp : ConnPre w wb) (hn : w.m.n < wb.m.n) (k : Conn) (hk : k.cookie = w.m.n)
    (hnet : (regNet wb.ev).Perm ((k.sock.map (fun s => (s, true, k.cookie))).toList ++ regNet w.ev))
    (htm : (regTimers wb.ev).Perm ((if k.timer then [k.cookie] else []) ++ regTimers w.ev))
    (himm : (regImm wb.ev).flatten.Perm ((if k.imm then [k.cookie] else []) ++ (regImm w.ev).flatten)) :
    Inv0 { wb with conns := k :: wb.conns } ∧
    tables { wb with conns := k :: wb.conns } = { tables w with conns := k :: w.conns } := by
  obtain ⟨b1, b2, b3, b4, b5, b6, b7, b8, b9⟩ := hp
  have hconns : wb.conns = w.conns := congrArg Tables.conns b3
  have htab : tables { wb with conns := k :: wb.conns } = { tables w with conns := k :: w.conns } := by
    rw [← b3, hconns]; rfl
  refine ⟨?_, htab⟩
  obtain ⟨a1, a2, a3, a4, a5, a6, a7, a8, a9, a10, a11, a12⟩ := h
  refine ⟨b7, by rw [← a2]; exact b4, ?_, ?_, ?_, ?_, ?_, ?_, ?_, ?_, ?_, b9⟩
  · intro b hb
    show b.id < wb.m.n
    have hb' : b ∈ (⟨w.m.n, .connCookie, connCookieSize⟩ :: w.live) ++ w.cache := by rw [← b1, ← b2]; exact hb
    simp only [List.cons_append, List.mem_cons] at hb'
    rcases hb' with rfl | hb'
    · exact hn
    · exact Nat.lt_trans (a3 b hb') hn
  · show ((wb.live ++ wb.cache).map (·.id)).Nodup
    rw [b1, b2]
    simp only [List.cons_append, List.map_cons, List.nodup_cons]
    refine ⟨fun hm => ?_, a4⟩
    obtain ⟨b, hb, hid⟩ := List.mem_map.1 hm
    have := a3 b hb
    omega
  · show Owns wb.live _
    rw [htab, b1]
    refine (Owns.cons a5 ⟨w.m.n, .connCookie, connCookieSize⟩ ?_).perm ?_
    · intro hm
      obtain ⟨b, hb, hid⟩ := List.mem_map.1 hm
      have := a3 b (List.mem_append_left _ hb)
      simp only at hid
      omega
    · have := (expLive_cons_conns (tables w) k).symm
      rw [hk] at this; exact this
  · show ∀ b ∈ wb.cache, _
    rw [b2]; exact a6
  · show PoolOk wb.rdPool _ _ wb.cache
    rw [b5, b2]; exact a7
  · show PoolOk wb.wrPool _ _ wb.cache
    rw [b6, b2]; exact a8
  · show (regNet wb.ev).Perm _
    rw [htab]
    exact (hnet.trans (a9.append_left _)).trans (expNet_cons_conns (tables w) k).symm
  · show (regTimers wb.ev).Perm _
    have e1 : expTimers { tables w with conns := k :: w.conns } =
        (if k.timer then [k.cookie] else []) ++ expTimers (tables w) := expTimers_cons_conns (tables w) k
    rw [htab, e1]
    exact htm.trans (a10.append_left _)
  · show (regImm wb.ev).flatten.Perm _
    have e1 : expImm { tables w with conns := k :: w.conns } =
        (if k.imm then [k.cookie] else []) ++ expImm (tables w) := expImm_cons_conns (tables w) k
    rw [htab, e1]
    exact himm.trans (a11.append_left _)

/-- `ConnPre`, no request refused yet, and the registry is the old one plus the timer if `tb` -/
structure ConnMid (w wa : World) (tb : Bool) : Prop where
  pre : ConnPre w wa
  n : w.m.n < wa.m.n
  ref : wa.m.refusals = w.m.refusals
  regNet : regNet wa.ev = regNet w.ev
  regImm : regImm wa.ev = regImm w.ev
  regTm : regTimers wa.ev = (if tb then [w.m.n] else []) ++ regTimers w.ev

theorem mid_alloc {w : World} (h : Inv0 w) (hm : (w.m.malloc connCookieSize).1 = true) :
    ConnMid w { w with m := (w.m.malloc connCookieSize).2, live := ⟨w.m.n, .connCookie, connCookieSize⟩ :: w.live } false := by
  have hok := malloc_ok hm
  refine ⟨pre_alloc h hm, ?_, hok.1, rfl, rfl, rfl⟩
  show w.m.n < (w.m.malloc connCookieSize).2.n
  rw [hok.2.2.2]; exact Nat.lt_succ_self _

/-- what `tryconnect` (after the allocation) must achieve: `k` is the new table entry on success, `prog` the
condition under which a failure is due to a refused request -/
def ConnPost (w : World) (k : Conn) (prog : Prop) (R : Bool × World) : Prop :=
  Inv0 R.2 ∧ Step w.m R.2.m ∧
  (R.1 = false → Same w R.2 ∧ (prog → w.m.refusals < R.2.m.refusals)) ∧
  (R.1 = true → R.2.live = ⟨w.m.n, .connCookie, connCookieSize⟩ :: w.live ∧
    tables R.2 = { tables w with conns := k :: w.conns } ∧ R.2.m.refusals = w.m.refusals)

theorem filter_ne_cons_self {c : Nat} {l : List Nat} (h : c ∉ l) : (c :: l).filter (· != c) = l := by
  simp only [List.filter_cons, bne_self_eq_false, Bool.false_eq_true, if_false]
  apply List.filter_eq_self.2
  intro x hx
  have : x ≠ c := fun e => h (e ▸ hx)
  simpa using this

/-- out of addresses: "Schedule a callback", or err1 -/
def immTail (wa : World) (c : Nat) : Bool × World :=
  match immReg wa.ev c 0 wa.m with
  | (true, e', m') => (true, { setEv wa e' m' with conns := ⟨c, none, false, true⟩ :: wa.conns })
  | (false, e', m') => (false, release (setEv wa e' m') c)

/-- the rest of `tryconnect` once the optional timer is set: wait for the socket, or err2 / err1 -/
def sockTail (wa : World) (c s : Nat) (tb : Bool) : Bool × World :=
  match netReg wa.ev c s true wa.m with
  | (.ok, e', m') => (true, { setEv wa e' m' with conns := ⟨c, some s, tb, false⟩ :: wa.conns })
  | (_, e', m') => (false, release (if tb then timerCancel (setEv wa e' m') c else setEv wa e' m') c)

theorem tryconnect_imm (wa : World) (c : Nat) (addrs : List Connect.AddrOutcome) (timeo : Option Int) (s : Nat)
    (hs : skipFailNow addrs = []) : tryconnect wa c addrs timeo s = immTail wa c := by
  unfold tryconnect immTail
  rw [hs]
  rcases immReg wa.ev c 0 wa.m with ⟨ok, e', m'⟩
  cases ok <;> rfl

theorem tryconnect_sock (wa : World) (c : Nat) (addrs : List Connect.AddrOutcome) (timeo : Option Int) (s : Nat)
    {a : Connect.AddrOutcome} {rest : List Connect.AddrOutcome} (hs : skipFailNow addrs = a :: rest) :
    tryconnect wa c addrs timeo s =
      match timeo with
      | none => sockTail wa c s false
      | some t =>
        match tmReg wa.ev c t wa.now wa.m with
        | (true, e', m') => sockTail (setEv wa e' m') c s true
        | (false, e', m') => (false, release (setEv wa e' m') c) := by
  unfold tryconnect
  rw [hs]
  cases timeo with
  | none =>
    simp only [sockTail, Option.isSome_none, Bool.false_eq_true, if_false]
    rcases netReg wa.ev c s true wa.m with ⟨res, e', m'⟩
    cases res <;> rfl
  | some t =>
    simp only
    rcases tmReg wa.ev c t wa.now wa.m with ⟨ok, e', m'⟩
    cases ok
    · rfl
    · simp only [sockTail, Option.isSome_some, if_true]
      rcases netReg (setEv wa e' m').ev c s true (setEv wa e' m').m with ⟨res, e'', m''⟩
      cases res <;> rfl

theorem mid_registry {w wa : World} (hm : ConnMid w wa false) : registry wa.ev = registry w.ev :=
  (registry_eq_iff _ _).2 ⟨hm.regImm, by rw [hm.regTm]; rfl, hm.regNet⟩

/-- out of addresses -/
theorem connect_imm_path {w wa : World} (h : Inv0 w) (hm : ConnMid w wa false) :
    ConnPost w ⟨w.m.n, none, false, true⟩ True (immTail wa w.m.n) := by
  unfold immTail ConnPost
  have hmas := EvRegTimer.immReg_master wa.ev w.m.n 0 wa.m
  have hev2 := evOk_immReg hm.pre.ev w.m.n
  have hoth := immReg_regs_other wa.ev w.m.n 0 wa.m
  have hfu := AllocFail.imm_fail_unchanged wa.ev w.m.n 0 wa.m
  have hokr := EvRegTimer.immReg_ok wa.ev w.m.n 0 wa.m
  rcases hir : immReg wa.ev w.m.n 0 wa.m with ⟨ok, e', m'⟩
  rw [hir] at hmas hev2 hoth hfu hokr
  simp only at hmas hev2 hoth hfu hokr
  obtain ⟨_, hst, hsucc, hfail⟩ := hmas
  have hp2 : ConnPre w (setEv wa e' m') := hm.pre.afterEv hev2 hst
  cases ok with
  | true =>
    simp only
    obtain ⟨_, href⟩ := hsucc rfl
    have hn : w.m.n < (setEv wa e' m').m.n := Nat.lt_of_lt_of_le hm.n hst.n
    obtain ⟨hinv, htab⟩ := connect_ok h hp2 hn ⟨w.m.n, none, false, true⟩ rfl
      (by show (regNet e').Perm (regNet w.ev); rw [hoth.2, hm.regNet])
      (by show (regTimers e').Perm (regTimers w.ev); rw [hoth.1, hm.regTm]; rfl)
      (by
        show (regImm e').flatten.Perm (w.m.n :: (regImm w.ev).flatten)
        rw [hokr rfl, hm.regImm]
        exact flatten_modify_head _ _ h.ev.heads)
    refine ⟨hinv, hp2.step, fun hc => (by cases hc), fun _ => ⟨hp2.live, htab, ?_⟩⟩
    show m'.refusals = w.m.refusals
    rw [href, hm.ref]
  | false =>
    simp only
    have hreg : registry (setEv wa e' m').ev = registry w.ev := (hfu rfl).trans (mid_registry hm)
    obtain ⟨hinv, hstep, hsame, href⟩ := connect_fail h hp2 hreg
    refine ⟨hinv, hstep, fun _ => ⟨hsame, fun _ => ?_⟩, fun hc => (by cases hc)⟩
    rw [href]
    have := hfail rfl
    show w.m.refusals < m'.refusals
    rw [← hm.ref]; exact this

theorem mid_fresh {w : World} (h : Inv0 w) : w.m.n ∉ regTimers w.ev :=
  fun hx => Nat.lt_irrefl _ (regTimers_lt h hx)

/-- err2 with a timer set: `events_timer_cancel` takes the new timer out again -/
theorem connect_untimer {w wb : World} (h : Inv0 w) (hp : ConnPre w wb)
    (hregI : regImm wb.ev = regImm w.ev) (hregN : regNet wb.ev = regNet w.ev)
    (hregT : regTimers wb.ev = w.m.n :: regTimers w.ev) :
    ConnPre w (timerCancel wb w.m.n) ∧ registry (timerCancel wb w.m.n).ev = registry w.ev ∧
    wb.m.refusals ≤ (timerCancel wb w.m.n).m.refusals := by
  have hc : w.m.n ∈ regTimers wb.ev := by rw [hregT]; exact List.mem_cons_self
  obtain ⟨e2, m2, hcan, htm2, hrt, o1, _, _, o4, o5, o6, o7, _, _⟩ :=
    EvRegTimer.tmCancel_ok wb.ev w.m.n wb.m hp.ev.tm hc
  have hst := step_tmCancel hcan
  have htc : timerCancel wb w.m.n = setEv wb e2 m2 := by simp only [timerCancel, hcan]
  rw [htc]
  have hev2 : EvOk e2 m2 := ⟨EvRegNet.netInv_congr _ _ hp.ev.net o4 o5 o6 o7, htm2,
    by rw [regImm_congr o1]; exact hp.ev.heads⟩
  refine ⟨hp.afterEv hev2 hst, ?_, hst.r⟩
  show registry e2 = registry w.ev
  refine (registry_eq_iff _ _).2 ⟨by rw [regImm_congr o1, hregI], ?_, by rw [regNet_congr o5, hregN]⟩
  rw [hrt, hregT]
  exact filter_ne_cons_self (mid_fresh h)

/-- "Wait until this socket connects or fails to do so", or err2 / err1 -/
theorem connect_sock_path {w wa : World} {tb : Bool} (h : Inv0 w) (hm : ConnMid w wa tb) (s : Nat) :
    ConnPost w ⟨w.m.n, some s, tb, false⟩ (¬ netRegistered w.ev s true ∧ 24 * (s + 1) ≤ EArray.SIZE_MAX)
      (sockTail wa w.m.n s tb) := by
  unfold sockTail ConnPost
  have hsp := EvRegNet.netReg_spec wa.ev w.m.n s true wa.m hm.pre.ev.net
  have hs2 := netReg_step wa.ev w.m.n s true wa.m
  have hev2 := evOk_netReg hm.pre.ev w.m.n s true
  have hoth := netReg_regs_other wa.ev w.m.n s true wa.m
  have hrf := (EvRegNet.netReg_frame wa.ev w.m.n s true wa.m).2.2.2
  have hokp := EvRegNet.netReg_ok wa.ev w.m.n s true wa.m hm.pre.ev.net
  rcases hnr : netReg wa.ev w.m.n s true wa.m with ⟨res, e', m'⟩
  rw [hnr] at hsp hs2 hev2 hoth hrf hokp
  simp only at hsp hs2 hev2 hoth hrf hokp
  have hp2 : ConnPre w (setEv wa e' m') := hm.pre.afterEv hev2 hs2
  cases res with
  | ok =>
    simp only
    have hn : w.m.n < (setEv wa e' m').m.n := Nat.lt_of_lt_of_le hm.n hs2.n
    obtain ⟨hinv, htab⟩ := connect_ok h hp2 hn ⟨w.m.n, some s, tb, false⟩ rfl
      (by show (regNet e').Perm ((s, true, w.m.n) :: regNet w.ev); rw [← hm.regNet]; exact (hokp rfl).2)
      (by show (regTimers e').Perm ((if tb then [w.m.n] else []) ++ regTimers w.ev); rw [hoth.2, hm.regTm])
      (by show (regImm e').flatten.Perm (regImm w.ev).flatten; rw [hoth.1, hm.regImm])
    refine ⟨hinv, hp2.step, fun hc => (by cases hc), fun _ => ⟨hp2.live, htab, ?_⟩⟩
    show m'.refusals = w.m.refusals
    by_cases hq : m'.refusals = wa.m.refusals
    · rw [hq, hm.ref]
    · have := hrf hq; cases this
  | fail | exists_ | noent | broken =>
    simp only
    all_goals
      have hreg : registry e' = registry wa.ev := by
        rcases hsp.2 with ⟨hx, _⟩ | ⟨_, _, hr⟩ | ⟨_, hr, _⟩
        · cases hx
        · first | exact hr | (rename_i hx; cases hx)
        · first | exact hr | (rename_i hx; cases hx)
      obtain ⟨r1, r2, r3⟩ := (registry_eq_iff _ _).1 hreg
      have hprog : (¬ netRegistered w.ev s true ∧ 24 * (s + 1) ≤ EArray.SIZE_MAX) → w.m.refusals < m'.refusals := by
        intro ⟨hfree, hsz⟩
        rcases hsp.2 with ⟨hx, _⟩ | ⟨_, hreg', _⟩ | ⟨_, _, hr⟩
        · first | cases hx | skip
        · exfalso; apply hfree
          simp only [netRegistered] at hreg' ⊢
          rw [← hm.regNet]; exact hreg'
        · rcases hr with hr | hr
          · rw [hm.ref] at hr; exact hr
          · omega
      cases tb with
      | false =>
        simp only [Bool.false_eq_true, if_false]
        have hregw : registry (setEv wa e' m').ev = registry w.ev := hreg.trans (mid_registry hm)
        obtain ⟨hinv, hstep, hsame, href⟩ := connect_fail h hp2 hregw
        refine ⟨hinv, hstep, fun _ => ⟨hsame, fun hpr => ?_⟩, fun hc => (by cases hc)⟩
        rw [href]; exact hprog hpr
      | true =>
        simp only [if_true]
        obtain ⟨hp3, hregw, hle⟩ := connect_untimer h hp2 (w := w) (wb := setEv wa e' m')
          (by show regImm e' = _; rw [r1, hm.regImm]) (by show regNet e' = _; rw [r3, hm.regNet])
          (by show regTimers e' = _; rw [r2, hm.regTm]; rfl)
        obtain ⟨hinv, hstep, hsame, href⟩ := connect_fail h hp3 hregw
        refine ⟨hinv, hstep, fun _ => ⟨hsame, fun hpr => ?_⟩, fun hc => (by cases hc)⟩
        rw [href]
        exact Nat.lt_of_lt_of_le (hprog hpr) hle

/-- "If we've been asked to have a timeout, set one", then the socket; or err1 -/
theorem connect_timer_path {w wa : World} (h : Inv0 w) (hm : ConnMid w wa false) (t : Int) (s : Nat) :
    ConnPost w ⟨w.m.n, some s, true, false⟩
      ((¬ netRegistered w.ev s true ∧ 24 * (s + 1) ≤ EArray.SIZE_MAX) ∧ w.ev.timers.length < 2^32)
      (match tmReg wa.ev w.m.n t wa.now wa.m with
        | (true, e', m') => sockTail (setEv wa e' m') w.m.n s true
        | (false, e', m') => (false, release (setEv wa e' m') w.m.n)) := by
  have hfresh : w.m.n ∉ regTimers wa.ev := by rw [hm.regTm]; exact mid_fresh h
  have hmas := EvRegTimer.tmReg_master wa.ev w.m.n t wa.now wa.m _ rfl
  have hev2 := evOk_tmReg hm.pre.ev w.m.n t wa.now hfresh
  have hoth := tmReg_regs_other wa.ev w.m.n t wa.now wa.m
  have hfu := AllocFail.tm_fail_unchanged wa.ev w.m.n t wa.now wa.m
  rcases htr : tmReg wa.ev w.m.n t wa.now wa.m with ⟨ok, e', m'⟩
  rw [htr] at hmas hev2 hoth hfu
  simp only at hmas hev2 hoth hfu
  obtain ⟨_, hst, hsucc, _, hfail⟩ := hmas
  have hp2 : ConnPre w (setEv wa e' m') := hm.pre.afterEv hev2 hst
  cases ok with
  | true =>
    simp only
    obtain ⟨hrt, href⟩ := hsucc rfl
    have hm2 : ConnMid w (setEv wa e' m') true :=
      ⟨hp2, Nat.lt_of_lt_of_le hm.n hst.n, by show m'.refusals = _; rw [href, hm.ref],
       by show regNet e' = _; rw [hoth.2, hm.regNet], by show regImm e' = _; rw [hoth.1, hm.regImm],
       by show regTimers e' = _; rw [hrt, hm.regTm]; rfl⟩
    obtain ⟨c1, c2, c3, c4⟩ := connect_sock_path h hm2 s
    exact ⟨c1, c2, fun hf => ⟨(c3 hf).1, fun hpr => (c3 hf).2 hpr.1⟩, c4⟩
  | false =>
    simp only
    have hreg : registry (setEv wa e' m').ev = registry w.ev := (hfu rfl).trans (mid_registry hm)
    obtain ⟨hinv, hstep, hsame, href⟩ := connect_fail h hp2 hreg
    refine ⟨hinv, hstep, fun _ => ⟨hsame, fun hpr => ?_⟩, fun hc => (by cases hc)⟩
    rw [href]
    show w.m.refusals < m'.refusals
    have hlen : wa.ev.timers.length = w.ev.timers.length := by
      have := congrArg List.length hm.regTm
      simpa [regTimers, registry] using this
    have := hfail hm.pre.ev.tm (by rw [hlen]; exact hpr.2) rfl
    rw [← hm.ref]; exact this

/-- `network_connect` / `network_connect_timeo` -/
theorem networkConnect_spec (w : World) (addrs : List Connect.AddrOutcome) (timeo : Option Int) (s : Nat) (h : Inv0 w) :
    Inv0 (networkConnect w addrs timeo s).2 ∧ Step w.m (networkConnect w addrs timeo s).2.m ∧
    ((networkConnect w addrs timeo s).1 = none → Same w (networkConnect w addrs timeo s).2) ∧
    (∀ c, (networkConnect w addrs timeo s).1 = some c →
        (networkConnect w addrs timeo s).2.live = ⟨c, .connCookie, connCookieSize⟩ :: w.live ∧
        tables (networkConnect w addrs timeo s).2 = { tables w with conns := connEntry c addrs timeo s :: w.conns } ∧
        (networkConnect w addrs timeo s).2.m.refusals = w.m.refusals) ∧
    ((networkConnect w addrs timeo s).2.m.refusals ≠ w.m.refusals → (networkConnect w addrs timeo s).1 = none) ∧
    ((networkConnect w addrs timeo s).1 = none →
        (skipFailNow addrs ≠ [] → ¬ netRegistered w.ev s true ∧ 24 * (s + 1) ≤ EArray.SIZE_MAX) →
        w.ev.timers.length < 2^32 → w.m.refusals < (networkConnect w addrs timeo s).2.m.refusals) := by
  unfold networkConnect
  rcases ha : alloc w .connCookie connCookieSize with ⟨o, w1⟩
  cases o with
  | none =>
    obtain ⟨rfl, hm⟩ := alloc_none ha
    have hf := malloc_fail hm
    have hs := EvRegTimer.step_malloc w.m connCookieSize
    simp only
    refine ⟨inv0_mem h _ hs.n hf.2.1, hs, fun _ => ⟨rfl, rfl, rfl, rfl⟩, fun c hc => (by cases hc), fun _ => trivial,
      fun _ _ _ => (by rw [hf.1]; omega)⟩
  | some c =>
    obtain ⟨rfl, rfl, hm⟩ := alloc_some ha
    have hmid := mid_alloc h hm
    simp only
    -- what `tryconnect` achieves, in one shape for all paths
    have key : ConnPost w (connEntry w.m.n addrs timeo s)
        ((skipFailNow addrs ≠ [] → ¬ netRegistered w.ev s true ∧ 24 * (s + 1) ≤ EArray.SIZE_MAX) ∧
          w.ev.timers.length < 2^32)
        (tryconnect { w with m := (w.m.malloc connCookieSize).2,
                             live := ⟨w.m.n, .connCookie, connCookieSize⟩ :: w.live } w.m.n addrs timeo s) := by
      cases hsk : skipFailNow addrs with
      | nil =>
        rw [tryconnect_imm _ _ _ _ _ hsk]
        have hk : connEntry w.m.n addrs timeo s = ⟨w.m.n, none, false, true⟩ := by simp only [connEntry, hsk]
        rw [hk]
        obtain ⟨c1, c2, c3, c4⟩ := connect_imm_path h hmid
        exact ⟨c1, c2, fun hf => ⟨(c3 hf).1, fun _ => (c3 hf).2 trivial⟩, c4⟩
      | cons a rest =>
        rw [tryconnect_sock _ _ _ _ _ hsk]
        have hk : connEntry w.m.n addrs timeo s = ⟨w.m.n, some s, timeo.isSome, false⟩ := by simp only [connEntry, hsk]
        rw [hk]
        cases timeo with
        | none =>
          obtain ⟨c1, c2, c3, c4⟩ := connect_sock_path h hmid s
          exact ⟨c1, c2, fun hf => ⟨(c3 hf).1, fun hpr => (c3 hf).2 (hpr.1 (by simp))⟩, c4⟩
        | some t =>
          obtain ⟨c1, c2, c3, c4⟩ := connect_timer_path h hmid t s
          exact ⟨c1, c2, fun hf => ⟨(c3 hf).1, fun hpr => (c3 hf).2 ⟨hpr.1 (by simp), hpr.2⟩⟩, c4⟩
    rcases htc : tryconnect { w with m := (w.m.malloc connCookieSize).2,
                                     live := ⟨w.m.n, .connCookie, connCookieSize⟩ :: w.live } w.m.n addrs timeo s with ⟨ok, w2⟩
    rw [htc] at key
    obtain ⟨c1, c2, c3, c4⟩ := key
    cases ok with
    | true =>
      simp only
      obtain ⟨d1, d2, d3⟩ := c4 rfl
      refine ⟨c1, c2, fun hc => (by cases hc), ?_, fun hne => absurd d3 hne, fun hc => (by cases hc)⟩
      intro c hc
      simp only [Option.some.injEq] at hc
      subst hc
      exact ⟨d1, d2, d3⟩
    | false =>
      simp only
      obtain ⟨d1, d2⟩ := c3 rfl
      exact ⟨c1, c2, fun _ => d1, fun c hc => (by cases hc), fun _ => trivial, fun _ hp ht => d2 ⟨hp, ht⟩⟩

/-! ## `network_connect_cancel` -/

/-- only the event layer, the oracle and the ghost counter moved -/
structure ConnFrm (w w' : World) : Prop where
  live : w'.live = w.live
  cache : w'.cache = w.cache
  tables : tables w' = tables w
  bad : w'.bad = w.bad
  rd : w'.rdPool = w.rdPool
  wr : w'.wrPool = w.wrPool
  ev : EvOk w'.ev w'.m
  step : Step w.m w'.m
  acct : w'.m.live - w'.evLive = w.m.live - w.evLive

theorem ConnFrm.refl {w : World} (h : EvOk w.ev w.m) : ConnFrm w w :=
  ⟨rfl, rfl, rfl, rfl, rfl, rfl, h, Step.refl _, rfl⟩

theorem ConnFrm.trans {a b c : World} (h1 : ConnFrm a b) (h2 : ConnFrm b c) : ConnFrm a c :=
  ⟨h2.live.trans h1.live, h2.cache.trans h1.cache, h2.tables.trans h1.tables, h2.bad.trans h1.bad,
   h2.rd.trans h1.rd, h2.wr.trans h1.wr, h2.ev, h1.step.trans h2.step, h2.acct.trans h1.acct⟩

theorem connFrm_setEv {w : World} {e' : Ev} {m' : Mem} (hev : EvOk e' m') (hst : Step w.m m') : ConnFrm w (setEv w e' m') := by
  refine ⟨rfl, rfl, rfl, rfl, rfl, rfl, hev, hst, ?_⟩
  simp only [setEv]; omega

/-- "Cancel any timer." -/
def ccTimer (w : World) (k : Conn) (c : Nat) : World := if k.timer then timerCancel w c else w

/-- "Cancel any immediate callback." -/
def ccImm (w : World) (k : Conn) (c : Nat) : World := if k.imm then immediateCancel w c else w

/-- "Close any socket." (its registration goes) -/
def ccSock (w : World) (k : Conn) : World :=
  match k.sock with
  | some s =>
    match netCancel w.ev s true w.m with
    | (res, e', m') => if res = .ok then setEv w e' m' else { setEv w e' m' with bad := (setEv w e' m').bad + 1 }
  | none => w

theorem networkConnectCancel_eq {w : World} {c : Nat} {k : Conn} (hfind : w.conns.find? (·.cookie == c) = some k) :
    networkConnectCancel w c =
      some { release (ccSock (ccImm (ccTimer w k c) k c) k) c with
               conns := (release (ccSock (ccImm (ccTimer w k c) k c) k) c).conns.filter (·.cookie != c) } := by
  unfold networkConnectCancel
  rw [hfind]
  rfl

theorem ccTimer_spec {w : World} (hev : EvOk w.ev w.m) (k : Conn) (c : Nat) (hreg : k.timer = true → c ∈ regTimers w.ev) :
    ConnFrm w (ccTimer w k c) ∧
    regTimers (ccTimer w k c).ev = (if k.timer then (regTimers w.ev).filter (· != c) else regTimers w.ev) ∧
    regImm (ccTimer w k c).ev = regImm w.ev ∧ regNet (ccTimer w k c).ev = regNet w.ev := by
  unfold ccTimer
  cases ht : k.timer with
  | false => exact ⟨ConnFrm.refl hev, rfl, rfl, rfl⟩
  | true =>
    simp only [if_true]
    obtain ⟨e2, m2, hcan, htm2, hrt, o1, _, _, o4, o5, o6, o7, _, _⟩ :=
      EvRegTimer.tmCancel_ok w.ev c w.m hev.tm (hreg ht)
    have hst := step_tmCancel hcan
    have htc : timerCancel w c = setEv w e2 m2 := by simp only [timerCancel, hcan]
    rw [htc]
    have hev2 : EvOk e2 m2 := ⟨EvRegNet.netInv_congr _ _ hev.net o4 o5 o6 o7, htm2,
      by rw [regImm_congr o1]; exact hev.heads⟩
    exact ⟨connFrm_setEv hev2 hst, hrt, regImm_congr o1, regNet_congr o5⟩

theorem ccImm_spec {w : World} (hev : EvOk w.ev w.m) (k : Conn) (c : Nat)
    (hreg : k.imm = true → c ∈ (regImm w.ev).flatten) :
    ConnFrm w (ccImm w k c) ∧
    regImm (ccImm w k c).ev = (if k.imm then (regImm w.ev).map (·.filter (· != c)) else regImm w.ev) ∧
    regTimers (ccImm w k c).ev = regTimers w.ev ∧ regNet (ccImm w k c).ev = regNet w.ev := by
  unfold ccImm
  cases ht : k.imm with
  | false => exact ⟨ConnFrm.refl hev, rfl, rfl, rfl⟩
  | true =>
    simp only [if_true]
    obtain ⟨e2, m2, hcan, hri, o1, o2, o3, o4, o5, o6, _, _, _⟩ := EvRegTimer.immCancel_ok w.ev c w.m (hreg ht)
    have hst := step_immCancel hcan
    have htc : immediateCancel w c = setEv w e2 m2 := by simp only [immediateCancel, hcan]
    rw [htc]
    have hev2 : EvOk e2 m2 := ⟨EvRegNet.netInv_congr _ _ hev.net o3 o4 o5 o6,
      EvRegTimer.tmInv_congr _ _ w.m _ hev.tm o1 o2 hst.n,
      by rw [hri, List.length_map]; exact hev.heads⟩
    exact ⟨connFrm_setEv hev2 hst, hri, regTimers_congr o2, regNet_congr o4⟩

theorem ccSock_spec {w : World} (hev : EvOk w.ev w.m) (k : Conn)
    (hreg : ∀ s, k.sock = some s → (s, true, k.cookie) ∈ regNet w.ev) :
    ConnFrm w (ccSock w k) ∧
    (regNet w.ev).Perm ((k.sock.map (fun s => (s, true, k.cookie))).toList ++ regNet (ccSock w k).ev) ∧
    regTimers (ccSock w k).ev = regTimers w.ev ∧ regImm (ccSock w k).ev = regImm w.ev := by
  unfold ccSock
  cases hs : k.sock with
  | none => exact ⟨ConnFrm.refl hev, List.Perm.refl _, rfl, rfl⟩
  | some s =>
    simp only
    have hr := hreg s hs
    obtain ⟨hok, _, hperm⟩ := EvRegNet.netCancel_ok w.ev s k.cookie true w.m hev.net hr
    have hev' := evOk_netCancel hev s k.cookie true (m := w.m) hr
    have hst := netCancel_step w.ev s true w.m
    have hoth := netCancel_regs_other w.ev s true w.m
    rcases hnc : netCancel w.ev s true w.m with ⟨res, e', m'⟩
    rw [hnc] at hok hperm hev' hst hoth
    simp only at hok hperm hev' hst hoth
    subst hok
    simp only [if_true]
    exact ⟨connFrm_setEv hev' hst, hperm, hoth.2, hoth.1⟩

/-- taking the only occurrence of `c` out of a list -/
theorem perm_filter_ne {l X : List Nat} {c : Nat} (hnd : l.Nodup) (hp : l.Perm (c :: X)) :
    (l.filter (· != c)).Perm X := by
  have hc : c ∈ l := hp.mem_iff.2 List.mem_cons_self
  have := perm_filter_key id l c hc (by simpa using hnd)
  exact (this.symm.trans hp).cons_inv

/-- "Free the cookie." and the table entry goes -/
theorem connectCancel_final {w w3 : World} {k : Conn} (h : Inv0 w) (hk : k ∈ w.conns) (hf : ConnFrm w w3)
    (hT : regTimers w3.ev = (if k.timer then (regTimers w.ev).filter (· != k.cookie) else regTimers w.ev))
    (hI : regImm w3.ev = (if k.imm then (regImm w.ev).map (·.filter (· != k.cookie)) else regImm w.ev))
    (hN : (regNet w.ev).Perm ((k.sock.map (fun s => (s, true, k.cookie))).toList ++ regNet w3.ev)) :
    Inv0 { release w3 k.cookie with conns := (release w3 k.cookie).conns.filter (·.cookie != k.cookie) } ∧
    Step w.m (release w3 k.cookie).m ∧ (release w3 k.cookie).live = eraseId w.live k.cookie ∧
    (release w3 k.cookie).cache = w.cache ∧
    tables { release w3 k.cookie with conns := (release w3 k.cookie).conns.filter (·.cookie != k.cookie) } =
      { tables w with conns := w.conns.filter (fun x => x.cookie != k.cookie) } := by
  obtain ⟨f1, f2, f3, f4, f5, f6, f7, f8, f9⟩ := hf
  -- the cookie's block is live
  obtain ⟨b, hb, hkb⟩ := List.mem_map.1 (h.owns.own1 (k.cookie, Site.connCookie)
    (by simp only [tables, expLive, List.mem_append, List.mem_map]
        exact Or.inl (Or.inl (Or.inl (Or.inr ⟨k, hk, rfl⟩)))))
  have hbid : b.id = k.cookie := by have := congrArg Prod.fst hkb; exact this
  have hfindb : findId w3.live k.cookie = some b := by
    rw [f1]
    obtain ⟨b', hf'⟩ := findId_of_mem hb
    rw [hbid] at hf'
    rw [hf']; exact congrArg some (findId_unique (live_nodup h) hb (by rw [hbid]; exact hf'))
  have hrel : release w3 k.cookie = { w3 with m := w3.m.free false, live := eraseId w.live k.cookie } := by
    simp only [release, hfindb]
    simp only [f1]
  have hconns : w3.conns = w.conns := congrArg Tables.conns f3
  have hfr := free_facts w3.m false
  rw [hrel]
  have htab : tables { w3 with m := w3.m.free false, live := eraseId w.live k.cookie,
                               conns := w3.conns.filter (·.cookie != k.cookie) } =
      { tables w with conns := w.conns.filter (fun x => x.cookie != k.cookie) } := by
    rw [← f3, ← hconns]; rfl
  refine ⟨?_, f8.trans (EvRegTimer.step_free w3.m false), rfl, f2, htab⟩
  obtain ⟨a1, a2, a3, a4, a5, a6, a7, a8, a9, a10, a11, a12⟩ := h
  have hndT : (regTimers w.ev).Nodup := a1.tm.nodup
  have hndI : (regImm w.ev).flatten.Nodup := a11.nodup_iff.2 (expImm_nodup a5.nodupE)
  refine ⟨evOk_step f7 (by rw [hfr.2.2.2]; exact Nat.le_refl _), by rw [← a2]; exact f4, ?_, ?_, ?_, ?_, ?_, ?_, ?_, ?_, ?_, ?_⟩
  · intro x hx
    show x.id < (w3.m.free false).n
    rw [hfr.2.2.2]
    have hx' : x ∈ eraseId w.live k.cookie ++ w.cache := by rw [← f2]; exact hx
    rcases List.mem_append.1 hx' with hx' | hx'
    · exact Nat.lt_of_lt_of_le (a3 x (List.mem_append_left _ (mem_eraseId hx'))) f8.n
    · exact Nat.lt_of_lt_of_le (a3 x (List.mem_append_right _ hx')) f8.n
  · show ((eraseId w.live k.cookie ++ w3.cache).map (·.id)).Nodup
    rw [f2]
    exact a4.sublist (((eraseId_sublist _ _).append_right _).map _)
  · show Owns (eraseId w.live k.cookie) _
    rw [htab]
    exact (a5.perm (expLive_filter_conns a5.nodupE hk)).erase (by
      have := a4; rw [List.map_append] at this; exact (List.nodup_append.1 this).1)
  · show ∀ b ∈ w3.cache, _
    rw [f2]; exact a6
  · show PoolOk w3.rdPool _ _ w3.cache
    rw [f5, f2]; exact a7
  · show PoolOk w3.wrPool _ _ w3.cache
    rw [f6, f2]; exact a8
  · show (regNet w3.ev).Perm _
    rw [htab]
    exact (List.perm_append_left_iff _).1 ((hN.symm.trans a9).trans (expNet_filter_conns a5.nodupE hk))
  · show (regTimers w3.ev).Perm _
    rw [htab, hT]
    have hp := a10.trans (expTimers_filter_conns a5.nodupE hk)
    cases ht : k.timer with
    | false => rw [ht] at hp; exact hp
    | true => rw [ht] at hp; exact perm_filter_ne hndT hp
  · show (regImm w3.ev).flatten.Perm _
    rw [htab, hI]
    have hp := a11.trans (expImm_filter_conns a5.nodupE hk)
    cases ht : k.imm with
    | false => rw [ht] at hp; exact hp
    | true =>
      rw [ht] at hp
      simp only [if_true]
      rw [flatten_map_filter]
      exact perm_filter_ne hndI hp
  · show (w3.m.free false).live = ((eraseId w.live k.cookie).length : Int) + (w3.cache.length : Int) + w3.evLive
    rw [hfr.2.1, f2]
    have hlen : (eraseId w.live k.cookie).length + 1 = w.live.length := by
      rw [← hbid]; exact length_eraseId hb
    simp only [Bool.false_eq_true, if_false]
    omega

/-- `network_connect_cancel`: cannot fail, under every oracle -/
theorem networkConnectCancel_spec (w : World) (k : Conn) (h : Inv0 w) (hk : k ∈ w.conns) :
    ∃ w', networkConnectCancel w k.cookie = some w' ∧ Inv0 w' ∧ Step w.m w'.m ∧
      w'.live = eraseId w.live k.cookie ∧ w'.cache = w.cache ∧
      tables w' = { tables w with conns := w.conns.filter (fun x => x.cookie != k.cookie) } := by
  have hnd := tables_nodup h.owns.nodupE
  -- the entry found is the entry
  have hfind : w.conns.find? (·.cookie == k.cookie) = some k := by
    cases hf : w.conns.find? (·.cookie == k.cookie) with
    | none => exact absurd (List.find?_eq_none.1 hf k hk) (by simp)
    | some r =>
      have hr := List.mem_of_find?_eq_some hf
      have hrc : r.cookie = k.cookie := by simpa using List.find?_some hf
      exact congrArg some (eq_of_nodup_map (·.cookie) hnd.2.2.2.1 hr hk hrc)
  -- what is registered for it
  have hregT : k.timer = true → k.cookie ∈ regTimers w.ev := by
    intro ht
    rw [h.regTm.mem_iff]
    simp only [tables, expTimers, List.mem_map, List.mem_filter]
    exact ⟨k, ⟨hk, ht⟩, rfl⟩
  have hregI : k.imm = true → k.cookie ∈ (regImm w.ev).flatten := by
    intro ht
    rw [h.regImm.mem_iff]
    simp only [tables, expImm, List.mem_append, List.mem_map, List.mem_filter]
    exact Or.inl ⟨k, ⟨hk, ht⟩, rfl⟩
  have hregN : ∀ s, k.sock = some s → (s, true, k.cookie) ∈ regNet w.ev := by
    intro s hs
    rw [h.regNet.mem_iff]
    simp only [tables, expNet, List.mem_append, List.mem_filterMap]
    exact Or.inr ⟨k, hk, by rw [hs]; rfl⟩
  obtain ⟨g1, t1, i1, n1⟩ := ccTimer_spec h.ev k k.cookie hregT
  obtain ⟨g2, i2, t2, n2⟩ := ccImm_spec g1.ev k k.cookie (by rw [i1]; exact hregI)
  obtain ⟨g3, n3, t3, i3⟩ := ccSock_spec g2.ev k (by rw [n2, n1]; exact hregN)
  obtain ⟨c1, c2, c3, c4, c5⟩ := connectCancel_final h hk ((g1.trans g2).trans g3)
    (by rw [t3, t2, t1]) (by rw [i3, i2, i1]) (by rw [n2, n1] at n3; exact n3)
  exact ⟨_, networkConnectCancel_eq hfind, c1, c2, c3, c4, c5⟩

/- Unfinished: nothing.  `networkConnect_spec` and `networkConnectCancel_spec` are proved exactly as stated; no field
   was missing from `Inv0` (freshness of the new cookie id against the registry follows from `owns` + `fresh` +
   the `reg*` permutations: `regTimers_lt`, `regImm_lt`). -/

end Percival.Proofs.AllocFailUpper
