import Percival.Proofs.AllocFailUpper
/-!
# C14, upper layers: `network_connect` / `network_connect_timeo` / `network_connect_cancel`

`networkConnect_spec` and `networkConnectCancel_spec` in the style of `networkAccept_spec` /
`networkAcceptCancel_spec` of `Proofs/AllocFailUpper.lean`, plus the helper lemmas they need (exported:
`flatten_modify_head`, `flatten_map_filter`, `expTimers_nodup`, `expImm_nodup`, `expNet_ids_nodup`,
`expNet_nodup`, `step_tqDelete`, `step_tmCancel`, `step_immCancel`, `evOk_immReg`, `evOk_tmReg`,
`tmReg_regs_other`, `immReg_regs_other`, `expLive_lt`, `regTimers_lt`, `regImm_lt`, …).
-/
namespace Percival.Proofs.AllocFailUpper
open Percival.Model Percival.Model.EvReg Percival.Model.AllocFail
open Percival.Proofs.EvRegNet (regNet netRegistered NetInv)
open Percival.Proofs.EvRegTimer (regImm regTimers TmInv Step Granted)
open Percival.Proofs.EArray (malloc_ok malloc_fail free_facts)

theorem flatten_modify_head (l : List (List Nat)) (c : Nat) (h : 0 < l.length) :
    (l.modify 0 (· ++ [c])).flatten.Perm (c :: l.flatten) := by
  cases l with
  | nil => simp at h
  | cons x rest =>
    rw [List.perm_iff_count]; intro k
    simp [List.count_append, List.count_cons]; omega

theorem flatten_map_filter (l : List (List Nat)) (p : Nat → Bool) :
    (l.map (·.filter p)).flatten = l.flatten.filter p := by
  rw [List.filter_flatten]

theorem expTimers_nodup {t : Tables} (h : ((expLive t).map (·.1)).Nodup) : (expTimers t).Nodup :=
  (List.filter_sublist.map _).nodup (tables_nodup h).2.2.2.1

theorem sublist_readers_imm : ∀ (l : List Reader),
    ((l.filter (·.immediate)).map (·.id)).Sublist
      ((l.flatMap (fun r => [(r.id, Site.nbrStruct), (r.buf, Site.nbrBuf)])).map (·.1))
  | [] => by simp
  | r :: rest => by
    have ih := sublist_readers_imm rest
    simp only [List.flatMap_cons, List.map_cons, List.cons_append, List.nil_append, List.filter_cons]
    split
    · exact (ih.cons _).cons_cons _
    · exact (ih.cons _).cons _

theorem expImm_sublist (t : Tables) : (expImm t).Sublist ((expLive t).map (·.1)) := by
  simp only [expImm, expLive, List.map_append, List.map_map]
  have h1 : ((t.conns.filter (·.imm)).map (·.cookie)).Sublist (t.conns.map (fun k => k.cookie)) :=
    List.filter_sublist.map _
  have h2 := sublist_readers_imm t.readers
  refine List.Sublist.trans ?_ (List.sublist_append_left _ _)
  refine List.Sublist.trans ?_ (List.sublist_append_left _ _)
  refine List.Sublist.append ?_ h2
  exact h1.trans (List.sublist_append_right _ _)

theorem expImm_nodup {t : Tables} (h : ((expLive t).map (·.1)).Nodup) : (expImm t).Nodup :=
  (expImm_sublist t).nodup h


theorem step_tqDelete {t t' : HeapAlloc.TQA} {r : Nat} {m m' : Mem} (h : HeapAlloc.tqDelete t r m = some (t', m')) :
    Step m m' := by
  unfold HeapAlloc.tqDelete at h
  split at h
  · cases h
  · have hs := EvRegTimer.step_shrink (HeapAlloc.shape t.q.h.a.size t.alloc) 1 SeqMap.ptrLen m
    split at h
    rename_i a' m1 heq
    rw [heq] at hs
    simp only [Option.some.injEq, Prod.mk.injEq] at h
    rw [← h.2]
    exact hs.trans (EvRegTimer.step_free _ _)

theorem step_tmCancel {e e' : Ev} {id : Nat} {m m' : Mem} (h : tmCancel e id m = some (e', m')) : Step m m' := by
  unfold tmCancel at h
  split at h
  · rename_i ent t _ _
    split at h
    · cases h
    · rename_i t' m1 hdel
      have h1 := step_tqDelete hdel
      have h2 := EvRegTimer.step_freerec { e with tq := some t', timers := e.timers.filter (·.id != id) } ent.rid m1
      split at h
      rename_i e2 m2 heq
      rw [heq] at h2
      simp only [Option.some.injEq, Prod.mk.injEq] at h
      rw [← h.2]
      exact h1.trans (h2.trans (EvRegTimer.step_free _ _))
  · cases h

theorem step_immCancel {e e' : Ev} {id : Nat} {m m' : Mem} (h : immCancel e id m = some (e', m')) : Step m m' := by
  unfold immCancel at h
  split at h
  · cases h
  · rename_i ent _
    simp only [EvRegTimer.freerec_eq, Option.some.injEq, Prod.mk.injEq] at h
    rw [← h.2]
    exact (EvRegTimer.step_mpFree _ _ _).trans (EvRegTimer.step_mpFree _ _ _)



theorem evOk_immReg {e : Ev} {m : Mem} (h : EvOk e m) (id : Nat) :
    EvOk (immReg e id 0 m).2.1 (immReg e id 0 m).2.2 := by
  have hm := EvRegTimer.immReg_master e id 0 m
  obtain ⟨⟨o1, o2, o3, o4, o5, o6⟩, hst, hok, _⟩ := hm
  refine ⟨EvRegNet.netInv_congr _ _ h.net o3 o4 o5 o6, EvRegTimer.tmInv_congr _ _ m _ h.tm o1 o2 hst.n, ?_⟩
  cases hr : (immReg e id 0 m).1 with
  | true =>
    rw [EvRegTimer.immReg_ok e id 0 m hr, List.length_modify]; exact h.heads
  | false =>
    have := AllocFail.imm_fail_unchanged e id 0 m hr
    rw [((registry_eq_iff _ _).1 this).1]; exact h.heads

theorem evOk_tmReg {e : Ev} {m : Mem} (h : EvOk e m) (id : Nat) (usec now : Int) (hid : id ∉ regTimers e) :
    EvOk (tmReg e id usec now m).2.1 (tmReg e id usec now m).2.2 := by
  obtain ⟨o1, _, _, o4, o5, o6, o7⟩ := EvRegTimer.tmReg_other e id usec now m
  exact ⟨EvRegNet.netInv_congr _ _ h.net o4 o5 o6 o7, EvRegTimer.tmReg_inv e id usec now m h.tm hid,
    by rw [regImm_congr o1]; exact h.heads⟩

/-- the other two parts of the registry after a timer registration -/
theorem tmReg_regs_other (e : Ev) (id : Nat) (usec now : Int) (m : Mem) :
    regImm (tmReg e id usec now m).2.1 = regImm e ∧ regNet (tmReg e id usec now m).2.1 = regNet e := by
  obtain ⟨o1, _, _, _, o5, _, _⟩ := EvRegTimer.tmReg_other e id usec now m
  exact ⟨regImm_congr o1, regNet_congr o5⟩

theorem immReg_regs_other (e : Ev) (id prio : Nat) (m : Mem) :
    regTimers (immReg e id prio m).2.1 = regTimers e ∧ regNet (immReg e id prio m).2.1 = regNet e := by
  obtain ⟨_, o2, _, o4, _, _⟩ := EvRegTimer.immReg_other e id prio m
  exact ⟨regTimers_congr o2, regNet_congr o4⟩


/-- ids of the objects in the tables are indices of requests already made -/
theorem expLive_lt {w : World} (h : Inv0 w) {k : Nat × Site} (hk : k ∈ expLive (tables w)) : k.1 < w.m.n := by
  obtain ⟨b, hb, hid⟩ := List.mem_map.1 (h.owns.id_mem hk)
  rw [← hid]; exact h.fresh b (List.mem_append_left _ hb)

theorem regTimers_lt {w : World} (h : Inv0 w) {x : Nat} (hx : x ∈ regTimers w.ev) : x < w.m.n := by
  rw [h.regTm.mem_iff] at hx
  simp only [expTimers, List.mem_map, List.mem_filter] at hx
  obtain ⟨k, ⟨hk, _⟩, rfl⟩ := hx
  exact expLive_lt h (k := (k.cookie, Site.connCookie)) (by
    simp only [tables, expLive, List.mem_append, List.mem_map]
    exact Or.inl (Or.inl (Or.inl (Or.inr ⟨k, hk, rfl⟩))))

theorem regImm_lt {w : World} (h : Inv0 w) {x : Nat} (hx : x ∈ (regImm w.ev).flatten) : x < w.m.n := by
  rw [h.regImm.mem_iff] at hx
  simp only [expImm, List.mem_append, List.mem_map, List.mem_filter] at hx
  rcases hx with ⟨k, ⟨hk, _⟩, rfl⟩ | ⟨r, ⟨hr, _⟩, rfl⟩
  · exact expLive_lt h (k := (k.cookie, Site.connCookie)) (by
      simp only [tables, expLive, List.mem_append, List.mem_map]
      exact Or.inl (Or.inl (Or.inl (Or.inr ⟨k, hk, rfl⟩))))
  · exact expLive_lt h (k := (r.id, Site.nbrStruct)) (by
      simp only [tables, expLive, List.mem_append, List.mem_flatMap]
      exact Or.inl (Or.inl (Or.inr ⟨r, hr, by simp⟩)))


/-! ## `network_connect`: the worlds between the allocation of the cookie and the end of `tryconnect` -/

/-- `wb` is `w` after the cookie block `w.m.n` was allocated and some calls into the event layer were
made: the block is live but in no table yet -/
structure Pre (w wb : World) : Prop where
  live : wb.live = ⟨w.m.n, .connCookie, connCookieSize⟩ :: w.live
  cache : wb.cache = w.cache
  tables : tables wb = tables w
  bad : wb.bad = w.bad
  rd : wb.rdPool = w.rdPool
  wr : wb.wrPool = w.wrPool
  ev : EvOk wb.ev wb.m
  step : Step w.m wb.m
  acct : wb.m.live = wb.live.length + wb.cache.length + wb.evLive

theorem Pre.afterEv {w wb : World} (h : Pre w wb) {e' : Ev} {m' : Mem} (hev : EvOk e' m') (hst : Step wb.m m') :
    Pre w (setEv wb e' m') := by
  obtain ⟨a1, a2, a3, a4, a5, a6, _, a8, a9⟩ := h
  refine ⟨a1, a2, a3, a4, a5, a6, hev, a8.trans hst, ?_⟩
  simp only [setEv]; omega

/-- after the allocation -/
theorem pre_alloc {w : World} (h : Inv0 w) (hm : (w.m.malloc connCookieSize).1 = true) :
    Pre w { w with m := (w.m.malloc connCookieSize).2, live := ⟨w.m.n, .connCookie, connCookieSize⟩ :: w.live } := by
  have hok := malloc_ok hm
  have hs := EvRegTimer.step_malloc w.m connCookieSize
  refine ⟨rfl, rfl, rfl, rfl, rfl, rfl, evOk_step h.ev hs.n, hs, ?_⟩
  have := h.acct
  show (w.m.malloc connCookieSize).2.live =
    ((⟨w.m.n, .connCookie, connCookieSize⟩ :: w.live : List Block).length : Int) + (w.cache.length : Int) + w.evLive
  simp only [List.length_cons]; omega

/-- every failure rung ends in `free(C)` with the registry as it was -/
theorem connect_fail {w wb : World} (h : Inv0 w) (hp : Pre w wb) (hreg : registry wb.ev = registry w.ev) :
    Inv0 (release wb w.m.n) ∧ Step w.m (release wb w.m.n).m ∧ Same w (release wb w.m.n) ∧
    (release wb w.m.n).m.refusals = wb.m.refusals := by
  obtain ⟨a1, a2, a3, a4, a5, a6, a7, a8, a9⟩ := hp
  have hfind : findId wb.live w.m.n = some ⟨w.m.n, .connCookie, connCookieSize⟩ := by
    rw [a1]; simp [findId]
  have hfr := free_facts wb.m false
  have hrel : release wb w.m.n = { wb with m := wb.m.free false, live := w.live } := by
    simp only [release, hfind]
    simp only [a1, eraseId, beq_self_eq_true, if_true]
  rw [hrel]
  refine ⟨?_, a8.trans (EvRegTimer.step_free wb.m false), ⟨rfl, a3, hreg, a4⟩, hfr.1⟩
  refine inv0_frame h ?_ hreg ?_ rfl a2 a3 a4 a5 a6 ?_
  · exact evOk_step a7 (by rw [hfr.2.2.2]; exact Nat.le_refl _)
  · show w.m.n ≤ (wb.m.free false).n
    rw [hfr.2.2.2]; exact a8.n
  · show (wb.m.free false).live = _
    rw [hfr.2.1]
    rw [a1] at a9
    simp only [List.length_cons] at a9
    simp only [Bool.false_eq_true, if_false]; omega

/-- every success ends with one new entry in `conns` -/
theorem connect_ok {w wb : World} (h : Inv0 w) (hp : Pre w wb) (hn : w.m.n < wb.m.n) (k : Conn) (hk : k.cookie = w.m.n)
    (hnet : (regNet wb.ev).Perm ((k.sock.map (fun s => (s, true, k.cookie))).toList ++ regNet w.ev))
    (htm : (regTimers wb.ev).Perm ((if k.timer then [k.cookie] else []) ++ regTimers w.ev))
    (himm : (regImm wb.ev).flatten.Perm ((if k.imm then [k.cookie] else []) ++ (regImm w.ev).flatten)) :
    Inv0 { wb with conns := k :: wb.conns } ∧
    tables { wb with conns := k :: wb.conns } = { tables w with conns := k :: w.conns } := by
  obtain ⟨b1, b2, b3, b4, b5, b6, b7, b8, b9⟩ := hp
  have hconns : wb.conns = w.conns := congrArg Tables.conns b3
  have htab : tables { wb with conns := k :: wb.conns } = { tables w with conns := k :: w.conns } := by
    rw [← b3, hconns]; rfl
  refine ⟨?_, htab⟩
  obtain ⟨a1, a2, a3, a4, a5, a6, a7, a8, a9, a10, a11, a12⟩ := h
  refine ⟨b7, by rw [← a2]; exact b4, ?_, ?_, ?_, ?_, ?_, ?_, ?_, ?_, ?_, b9⟩
  · intro b hb
    show b.id < wb.m.n
    have hb' : b ∈ (⟨w.m.n, .connCookie, connCookieSize⟩ :: w.live) ++ w.cache := by rw [← b1, ← b2]; exact hb
    simp only [List.cons_append, List.mem_cons] at hb'
    rcases hb' with rfl | hb'
    · exact hn
    · exact Nat.lt_trans (a3 b hb') hn
  · show ((wb.live ++ wb.cache).map (·.id)).Nodup
    rw [b1, b2]
    simp only [List.cons_append, List.map_cons, List.nodup_cons]
    refine ⟨fun hm => ?_, a4⟩
    obtain ⟨b, hb, hid⟩ := List.mem_map.1 hm
    have := a3 b hb
    omega
  · show Owns wb.live _
    rw [htab, b1]
    refine (Owns.cons a5 ⟨w.m.n, .connCookie, connCookieSize⟩ ?_).perm ?_
    · intro hm
      obtain ⟨b, hb, hid⟩ := List.mem_map.1 hm
      have := a3 b (List.mem_append_left _ hb)
      simp only at hid
      omega
    · have := (expLive_cons_conns (tables w) k).symm
      rw [hk] at this; exact this
  · show ∀ b ∈ wb.cache, _
    rw [b2]; exact a6
  · show PoolOk wb.rdPool _ _ wb.cache
    rw [b5, b2]; exact a7
  · show PoolOk wb.wrPool _ _ wb.cache
    rw [b6, b2]; exact a8
  · show (regNet wb.ev).Perm _
    rw [htab]
    exact (hnet.trans (a9.append_left _)).trans (expNet_cons_conns (tables w) k).symm
  · show (regTimers wb.ev).Perm _
    have e1 : expTimers { tables w with conns := k :: w.conns } =
        (if k.timer then [k.cookie] else []) ++ expTimers (tables w) := expTimers_cons_conns (tables w) k
    rw [htab, e1]
    exact htm.trans (a10.append_left _)
  · show (regImm wb.ev).flatten.Perm _
    have e1 : expImm { tables w with conns := k :: w.conns } =
        (if k.imm then [k.cookie] else []) ++ expImm (tables w) := expImm_cons_conns (tables w) k
    rw [htab, e1]
    exact himm.trans (a11.append_left _)

end Percival.Proofs.AllocFailUpper
