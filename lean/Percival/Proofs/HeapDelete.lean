import Percival.Proofs.HeapOps
/-!
# C13 helper lemmas, part 4: `ptrheap_delete` (stale last slot, heapify over the old length)
-/
namespace Percival.Proofs.Heap
open Percival.Model.Heap

/-! ## list / array facts -/

theorem list_perm_get_eraseIdx (l : List Nat) (i x : Nat) (h : l[i]? = some x) :
    l.Perm (x :: l.eraseIdx i) := by
  induction l generalizing i with
  | nil => simp at h
  | cons y l ih =>
    cases i with
    | zero => simp at h; subst h; simp
    | succ i =>
      simp at h
      simp only [List.eraseIdx_cons_succ]
      exact ((List.perm_cons y).mpr (ih i h)).trans (List.Perm.swap x y _)

theorem list_set_perm (l : List Nat) (i v : Nat) (h : i < l.length) :
    (l.set i v).Perm (v :: l.eraseIdx i) := by
  induction l generalizing i with
  | nil => simp at h
  | cons y l ih =>
    cases i with
    | zero => simp
    | succ i =>
      simp only [List.set_cons_succ, List.eraseIdx_cons_succ]
      exact ((List.perm_cons y).mpr (ih i (by simpa using h))).trans (List.Perm.swap v y _)

theorem array_eq_pop_push (a : Array Nat) (x : Nat) (h : a[a.size-1]? = some x) : a = a.pop.push x := by
  have hs := lt_of_get h
  apply Array.ext_getElem?
  intro i
  rw [Array.getElem?_push, Array.getElem?_pop]
  simp only [Array.size_pop]
  split
  · rename_i hi; rw [hi]; exact h
  · split
    · rfl
    · rw [Array.getElem?_eq_none (by omega)]

theorem array_toList_pop_last (a : Array Nat) (x : Nat) (h : a[a.size-1]? = some x) :
    a.toList = a.pop.toList ++ [x] := by
  have := array_eq_pop_push a x h
  calc a.toList = (a.pop.push x).toList := by rw [← this]
    _ = a.pop.toList ++ [x] := by simp

variable (key : Nat → Int)

theorem siftUp_succ_of_lt (b : Bool) (f : Nat) (h : Heap) (x c q : Nat) (hx0 : x ≠ 0)
    (hc : h.a[x]? = some c) (hq : h.a[(x-1)/2]? = some q) (hlt : key c < key q) :
    siftUp key b (f+1) h x = siftUp key b f (swap b h x ((x-1)/2)) ((x-1)/2) := by
  have hx := lt_of_get hc
  have ec := (Array.getElem?_eq_some_iff.mp hc).2
  have eq := (Array.getElem?_eq_some_iff.mp hq).2
  simp only [siftUp, hx0, if_false, hx, dite_true]
  have : ¬ (key h.a[x] ≥ key h.a[(x-1)/2]) := by rw [ec, eq]; omega
  simp only [this, if_false]

/-- What `ptrheap_delete` leaves just before `ptrlist_shrink`: an array `hm` of the old length whose
first `n-1` slots are a heap with consistent handles and hold everything but the deleted element. -/
theorem delete_mid (h h' : Heap) (rc : Nat) (hi : Inv key h) (hr : delete key h rc = some h') :
    ∃ hm : Heap, h' = { hm with a := hm.a.pop } ∧ hm.a.size = h.a.size ∧ rc < h.a.size ∧
      DistinctN hm (h.a.size - 1) ∧ PosN hm (h.a.size - 1) ∧ OrderedN key hm (h.a.size - 1) ∧
      (∃ x, h.a[rc]? = some x ∧ h.a.toList.Perm (x :: hm.a.pop.toList)) := by
  unfold delete at hr
  split at hr
  case isFalse => cases hr
  rename_i hrc
  simp only [Option.some.injEq] at hr
  have hxrc : h.a[rc]? = some h.a[rc] := Array.getElem?_eq_getElem hrc
  split at hr
  case isFalse hlast =>
    -- rc is the last slot
    have hlast : rc = h.a.size - 1 := by omega
    refine ⟨h, hr.symm, rfl, hrc, hi.distinctN key _, hi.posN key _, hi.orderedN key _, h.a[rc], hxrc, ?_⟩
    rw [array_toList_pop_last h.a h.a[rc] (by rw [← hlast]; exact hxrc)]
    exact List.perm_append_singleton _ _
  case isTrue hne =>
    have hn1 : h.a.size - 1 < h.a.size := by omega
    generalize hlast : h.a[h.a.size - 1] = last at hr
    have hlast? : h.a[h.a.size - 1]? = some last := by rw [Array.getElem?_eq_getElem hn1, hlast]
    generalize hh1 : ({ a := h.a.set rc last hrc, log := (last, rc) :: h.log } : Heap) = h1 at hr
    have hsz : h1.a.size = h.a.size := by subst hh1; simp
    have hget : ∀ k, h1.a[k]? = if k = rc then some last else h.a[k]? := by
      intro k; subst hh1; simp only [Array.getElem?_set]
      by_cases hk : rc = k
      · subst hk; simp
      · have : ¬ k = rc := fun e => hk e.symm
        simp [hk, this]
    have hpos : ∀ x, posOf h1 x = if x = last then some rc else posOf h x := by
      intro x; subst hh1; rw [posOf_cons]; rfl
    have hD : DistinctN h1 (h.a.size - 1) := by
      intro i j x hiN hjN hx hy
      rw [hget] at hx hy
      have := hi.distinct i j x
      have := hi.distinct i (h.a.size - 1) x
      have := hi.distinct j (h.a.size - 1) x
      grind
    have hP : PosN h1 (h.a.size - 1) := by
      intro i x hiN hx
      rw [hget] at hx; rw [hpos]
      have := hi.handles i x
      have := hi.distinct i (h.a.size - 1) x
      grind
    have hdup : h1.a[h.a.size - 1]? = h1.a[rc]? := by
      rw [hget, hget]; simp [hlast?]
    -- order facts inherited from `h`
    have hO : ∀ i c q, 0 < i → i < h.a.size - 1 → i ≠ rc → (i-1)/2 ≠ rc →
        h1.a[i]? = some c → h1.a[(i-1)/2]? = some q → key q ≤ key c := by
      intro i c q h0 _ h1' h2 hc hq
      rw [hget] at hc hq
      simp only [h1', h2, if_false] at hc hq
      exact hi.ordered i c q h0 hc hq
    have hG : ∀ c e q, 0 < rc → 0 < c → (c-1)/2 = rc → h1.a[c]? = some e → h1.a[(rc-1)/2]? = some q →
        key q ≤ key e := by
      intro c e q h0 hc0 hpar he hq
      rw [hget] at he hq
      have h1' : c ≠ rc := by omega
      have h2 : (rc-1)/2 ≠ rc := by omega
      simp only [h1', h2, if_false] at he hq
      have e1 := hi.ordered c e h.a[rc] hc0 he (by rw [hpar]; exact hxrc)
      have e2 := hi.ordered rc h.a[rc] q h0 hxrc hq
      omega
    have hk1 : keyAt key h1 rc = some (key last) := by
      unfold keyAt; rw [hget]; simp
    -- the common tail: whatever `hm` the sifting produced, conclude
    have finish : ∀ hm : Heap, hm.a.size = h.a.size → DistinctN hm (h.a.size - 1) → PosN hm (h.a.size - 1) →
        OrderedN key hm (h.a.size - 1) → hm.a.toList.Perm h1.a.toList →
        hm.a[h.a.size - 1]? = h1.a[h.a.size - 1]? → h' = { hm with a := hm.a.pop } →
        ∃ hm : Heap, h' = { hm with a := hm.a.pop } ∧ hm.a.size = h.a.size ∧ rc < h.a.size ∧
          DistinctN hm (h.a.size - 1) ∧ PosN hm (h.a.size - 1) ∧ OrderedN key hm (h.a.size - 1) ∧
          (∃ x, h.a[rc]? = some x ∧ h.a.toList.Perm (x :: hm.a.pop.toList)) := by
      intro hm hms hmD hmP hmO hperm hfr heq
      refine ⟨hm, heq, hms, hrc, hmD, hmP, hmO, h.a[rc], hxrc, ?_⟩
      have hl1 : h1.a[h1.a.size - 1]? = some last := by rw [hsz, hget]; simp [hlast?]
      have hlm : hm.a[hm.a.size - 1]? = some last := by rw [hms, hfr, ← hsz]; exact hl1
      rw [array_toList_pop_last _ _ hlm, array_toList_pop_last _ _ hl1] at hperm
      have hp2 := (List.perm_append_right_iff _).mp hperm
      -- h1.a.pop = h.a.pop.set rc last
      have e1 : h1.a.pop.toList = h.a.pop.toList.set rc last := by
        subst hh1; simp [Array.toList_pop, Array.toList_set, List.dropLast_eq_take, List.take_set]
      have hrcp : rc < h.a.pop.toList.length := by simp; omega
      have hxp : h.a.pop.toList[rc]? = some h.a[rc] := by
        simp only [Array.getElem?_toList, Array.getElem?_pop]
        have : rc < h.a.size - 1 := by omega
        simp [this, hrc]
      have p1 := list_perm_get_eraseIdx _ _ _ hxp
      have p2 := list_set_perm h.a.pop.toList rc last hrcp
      rw [array_toList_pop_last _ _ hlast?]
      refine (List.perm_append_singleton _ _).trans ?_
      refine ((List.perm_cons last).mpr p1).trans ?_
      refine (List.Perm.swap _ _ _).trans ?_
      refine (List.perm_cons _).mpr ?_
      rw [e1] at hp2
      exact p2.symm.trans hp2.symm
    -- evaluate the comparison with the parent
    have hk2 : ∃ kp, keyAt key h1 ((rc-1)/2) = some kp ∧
        (0 < rc → ∀ q, h.a[(rc-1)/2]? = some q → kp = key q) := by
      by_cases h0 : 0 < rc
      · have hps : (rc - 1) / 2 < h.a.size := by omega
        refine ⟨key (h.a[(rc-1)/2]), ?_, fun _ q hq => ?_⟩
        · unfold keyAt; rw [hget]
          have : (rc-1)/2 ≠ rc := by omega
          simp [this, hps]
        · rw [Array.getElem?_eq_getElem hps] at hq; cases hq; rfl
      · refine ⟨key last, ?_, fun h => absurd h h0⟩
        have : (rc-1)/2 = rc := by omega
        rw [this]; exact hk1
    obtain ⟨kp, hk2, hkp⟩ := hk2
    rw [hk1, hk2] at hr
    simp only [] at hr
    by_cases hup : 0 < rc ∧ key last < kp
    · -- move up: swap with the parent, then heapifyup from the parent
      have hcond : (decide (rc > 0) && decide (key last < kp)) = true := by simp [hup]
      simp only [hcond, if_true] at hr
      obtain ⟨hrc0, hup⟩ := hup
      have hps : (rc - 1) / 2 < h.a.size := by omega
      rw [hkp hrc0 _ (Array.getElem?_eq_getElem hps)] at hup
      have hq1 : h1.a[(rc-1)/2]? = some h.a[(rc-1)/2] := by
        rw [hget]
        have : (rc-1)/2 ≠ rc := by omega
        simp [this, hps]
      have hc1 : h1.a[rc]? = some last := by rw [hget]; simp
      rw [← siftUp_succ_of_lt key true _ h1 rc last _ (by omega) hc1 hq1 hup] at hr
      have hex : OrderedExcept key h1 (h.a.size - 1) rc := by
        intro i c q h0 hiN hne' hc hq
        by_cases hpar : (i-1)/2 = rc
        · -- a child of rc: last < parent(rc) ≤ child
          rw [hpar] at hq; rw [hc1] at hq; cases hq
          have := hG i c _ hrc0 h0 hpar hc hq1
          omega
        · exact hO i c q h0 hiN hne' hpar hc hq
      have hg : GrandOK key h1 (h.a.size - 1) rc := by
        intro c e q h0 hc0 _ hpar he hq
        exact hG c e q h0 hc0 hpar he hq
      have hN : h.a.size - 1 ≤ h1.a.size := by omega
      have s1 := siftUp_handles key ((rc-1)/2+1) h1 (h.a.size - 1) rc hN (by omega) hD hP
      have s2 := siftUp_ordered key true ((rc-1)/2+1) h1 (h.a.size - 1) rc hN (by omega) hex hg
      exact finish _ (by rw [siftUp_size, hsz]) s1.1 s1.2 s2 (siftUp_perm key true _ _ _)
        (siftUp_frame key true _ _ _ _ (by omega)) hr.symm
    · -- move down: heapify over the old length
      have hcond : (decide (rc > 0) && decide (key last < kp)) = false := by
        rw [Bool.and_eq_false_iff]; simp only [decide_eq_false_iff_not]; omega
      simp only [hcond, Bool.false_eq_true, if_false] at hr
      rw [siftDown_dup_eq key true _ h1 h.a.size rc hsz.symm (by omega) hdup] at hr
      have hex : OrderedBelowExcept key h1 (h.a.size - 1) 0 rc := by
        intro i c q h0 hiN _ hpar hc hq
        by_cases hir : i = rc
        · subst hir
          have hk2' : keyAt key h1 ((i-1)/2) = some (key q) := by unfold keyAt; rw [hq]; rfl
          rw [hk2] at hk2'; cases hk2'
          rw [hget] at hc; simp at hc; subst hc
          omega
        · exact hO i c q h0 hiN hir hpar hc hq
      have hg : ParentOK key h1 (h.a.size - 1) 0 rc := by
        intro c e q h0 _ _ hc0 hpar he hq
        exact hG c e q h0 hc0 hpar he hq
      have hN : h.a.size - 1 ≤ h1.a.size := by omega
      have s1 := siftDown_handles key (h.a.size - 1) h.a.size h1 rc hN hD hP
      have s2 := siftDown_ordered key true (h.a.size - 1) 0 h.a.size h1 rc hN (by omega) (Nat.zero_le _) hex hg
      exact finish _ (by rw [siftDown_size, hsz]) s1.1 s1.2 ((orderedFrom_zero key _ _).mp s2)
        (siftDown_perm key true _ _ _ _) (siftDown_frame key true _ _ _ _ _ hN (Nat.le_refl _)) hr.symm

/-- `delete rc` (with `rc < nelems`) succeeds, keeps the invariant, and removes exactly the element
    in slot `rc` — the one whose last reported position is `rc`. -/
theorem delete_spec (h : Heap) (rc : Nat) (hi : Inv key h) (hrc : rc < h.a.size) :
    ∃ h' x, delete key h rc = some h' ∧ Inv key h' ∧ h.a[rc]? = some x ∧ posOf h x = some rc ∧
      h.a.toList.Perm (x :: h'.a.toList) ∧ h'.a.size = h.a.size - 1 := by
  have hsome : ∃ h', delete key h rc = some h' := by
    unfold delete; simp only [hrc, dite_true]; exact ⟨_, rfl⟩
  obtain ⟨h', hr⟩ := hsome
  obtain ⟨hm, heq, hms, _, hD, hP, hO, x, hx, hperm⟩ := delete_mid key h h' rc hi hr
  refine ⟨h', x, hr, ?_, hx, hi.handles rc x hx, ?_, ?_⟩
  · have hget : ∀ k, h'.a[k]? = if k < h.a.size - 1 then hm.a[k]? else none := by
      intro k; subst heq; simp only [Array.getElem?_pop, hms]
    have hpos : ∀ e, posOf h' e = posOf hm e := by
      intro e; subst heq; rfl
    constructor
    · intro i j y hy hz
      rw [hget] at hy hz
      split at hy <;> split at hz <;> try (first | cases hy | cases hz)
      rename_i h1 h2
      exact hD i j y h1 h2 hy hz
    · intro i y hy
      rw [hget] at hy; rw [hpos]
      split at hy <;> try cases hy
      rename_i h1
      exact hP i y h1 hy
    · intro i c q h0 hc hq
      rw [hget] at hc hq
      split at hc <;> split at hq <;> try (first | cases hc | cases hq)
      rename_i h1 h2
      exact hO i c q h0 h1 hc hq
  · subst heq; exact hperm
  · subst heq; simp [hms]

theorem delete_none (h : Heap) (rc : Nat) (hrc : ¬ rc < h.a.size) : delete key h rc = none := by
  unfold delete; simp [hrc]

end Percival.Proofs.Heap
