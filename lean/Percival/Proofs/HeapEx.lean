import Percival.Proofs.TimerQueueRun
/-!
# C13: concrete states used by the non-vacuity examples in `Properties/C13.lean`,
and the "handles stay valid" corollaries for the timer queue
-/
namespace Percival.Proofs.Heap
open Percival.Model Percival.Model.Heap Percival.Spec.PQ Percival.Model.HeapRun

/-- keys with duplicates: 3 ↦ 0, 1 ↦ 1, 9 ↦ 0, 5 ↦ 2, 4 ↦ 1, 7 ↦ 1 -/
def exKey : Nat → Int := fun n => ((n % 3 : Nat) : Int)

/-- `#[3, 1, 9, 5, 4, 7]` with keys `0 1 0 2 1 1` -/
def exHeap : Heap := create exKey [5, 3, 7, 1, 4, 9]

theorem exHeap_inv : Inv exKey exHeap := create_inv _ _ (by decide)

/-- a sequence that exercises every operation, with equal keys -/
def exOps : List Op :=
  [.create [(1,5),(2,5),(3,1)], .add 4 0, .add 5 7, .getmin, .dec 2 (-1), .getmin, .del 1,
   .inc 4 9, .incmin 6, .delmin, .add 9 2, .add 7 2, .getmin, .drain, .add 1 1]

end Percival.Proofs.Heap

namespace Percival.Proofs.TQ
open Percival.Model Percival.Model.TimerQueue Percival.Proofs.Heap Percival.Spec.PQ

/-- equal and distinct times, a deletion by handle, an increase, releases and refusals -/
def exTOps : List TOp :=
  [.add 1 5 0 101, .add 2 5 0 102, .add 3 2 7 103, .add 4 9 1 104, .getmin, .get 2 6, .inc 3 5 0, .del 2,
   .get 5 0, .get 5 0, .get 5 0, .getmin]

/-- three timers, two with the same time -/
def exQ : TQ := add (add (add TimerQueue.empty 1 5 0 101) 2 5 0 102) 3 2 7 103

theorem exQ_inv : TQInv exQ := by
  have h1 := (tq_add TimerQueue.empty 1 5 0 101 tq_inv_empty (by decide)).1
  have h2 := (tq_add _ 2 5 0 102 h1 (by decide)).1
  exact (tq_add _ 3 2 7 103 h2 (by decide)).1

/-- under the invariant the `rc` stored in a live record locates that record in the heap -/
theorem tq_handle_valid (q : TQ) (hi : TQInv q) (r : Nat) (hr : r ∈ q.h.a.toList) :
    ∃ rc, Heap.posOf q.h r = some rc ∧ q.h.a[rc]? = some r := by
  obtain ⟨rc, hrc⟩ := (mem_iff_get _ _).mp hr
  exact ⟨rc, hi.inv.handles rc r hrc, hrc⟩

end Percival.Proofs.TQ
