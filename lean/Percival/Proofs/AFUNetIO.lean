import Percival.Proofs.AllocFailUpper
/-!
# C14, upper layers: `network_read` / `network_write` (pooled cookies) and the pools' exit handlers

The cookies of `network_read.c` / `network_write.c` come from `mpool.h` pools; a cancelled cookie is *parked*
(moved from `live` to `cache`).  `poolMalloc_spec` / `poolFree_spec` / `poolAtexit_spec` say, once and
generically in the pool, its site and its stack array's site, what the three pool calls do to the block lists,
the oracle and `PoolOk`; the four network specs follow the pattern of `networkAccept_spec`.
-/
namespace Percival.Proofs.AllocFailUpper
open Percival.Model Percival.Model.EvReg Percival.Model.AllocFail
open Percival.Proofs.EvRegNet (regNet netRegistered NetInv)
open Percival.Proofs.EvRegTimer (regImm regTimers TmInv Step Granted)
open Percival.Proofs.EArray (malloc_ok malloc_fail free_facts)

/-! ## more list helpers -/

theorem findId_eq {l : List Block} (hnd : (l.map (·.id)).Nodup) {b : Block} (hb : b ∈ l) : findId l b.id = some b := by
  obtain ⟨b', hf⟩ := findId_of_mem hb
  rw [hf, findId_unique hnd hb hf]

theorem perm_eraseId {l : List Block} {id : Nat} {b : Block} (h : findId l id = some b) : l.Perm (b :: eraseId l id) := by
  induction l with
  | nil => simp [findId] at h
  | cons a rest ih =>
    simp only [findId, List.find?_cons] at h
    simp only [eraseId]
    cases hq : (a.id == id) with
    | true =>
      rw [hq] at h
      simp only [Option.some.injEq] at h
      subst h
      simp
    | false =>
      rw [hq] at h
      simp only [Bool.false_eq_true, if_false]
      exact ((ih h).cons a).trans (List.Perm.swap b a _)

theorem find_site_some {l : List Block} {s : Site} {b : Block} (h : l.find? (·.site == s) = some b) : b ∈ l ∧ b.site = s :=
  ⟨List.mem_of_find?_eq_some h, by simpa using List.find?_some h⟩

theorem perm_eraseSite {l : List Block} {s : Site} {b : Block} (h : l.find? (·.site == s) = some b) :
    l.Perm (b :: eraseSite l s) := by
  induction l with
  | nil => simp at h
  | cons a rest ih =>
    simp only [List.find?_cons] at h
    simp only [eraseSite]
    cases hq : (a.site == s) with
    | true =>
      rw [hq] at h
      simp only [Option.some.injEq] at h
      subst h
      simp
    | false =>
      rw [hq] at h
      simp only [Bool.false_eq_true, if_false]
      exact ((ih h).cons a).trans (List.Perm.swap b a _)

theorem find_site_of_mem {l : List Block} {s : Site} {b : Block} (hb : b ∈ l) (hs : b.site = s) :
    ∃ b', l.find? (·.site == s) = some b' := by
  cases hf : l.find? (·.site == s) with
  | some b' => exact ⟨b', rfl⟩
  | none => exact absurd (List.find?_eq_none.1 hf b hb) (by simp [hs])

/-! ## the block-level part of the invariant: it holds at every intermediate point of a call -/

/-- ids are request indices already used, no id twice, and the wrapper's counter agrees -/
structure Blk (w : World) : Prop where
  fresh : ∀ b ∈ w.live ++ w.cache, b.id < w.m.n
  nodup : ((w.live ++ w.cache).map (·.id)).Nodup
  acct : w.m.live = w.live.length + w.cache.length + w.evLive

theorem Inv0.blk {w : World} (h : Inv0 w) : Blk w := ⟨h.fresh, h.nodup, h.acct⟩

/-- only `m`, `live`, `cache` differ -/
def upd (w : World) (m : Mem) (live cache : List Block) : World := { w with m := m, live := live, cache := cache }

theorem Blk.live_nodup {w : World} (h : Blk w) : (w.live.map (·.id)).Nodup := by
  have := h.nodup; rw [List.map_append] at this; exact (List.nodup_append.1 this).1

theorem Blk.cache_nodup {w : World} (h : Blk w) : (w.cache.map (·.id)).Nodup := by
  have := h.nodup; rw [List.map_append] at this; exact (List.nodup_append.1 this).2.1

theorem Blk.disjoint {w : World} (h : Blk w) {b b' : Block} (hb : b ∈ w.live) (hb' : b' ∈ w.cache) : b.id ≠ b'.id := by
  have := h.nodup; rw [List.map_append] at this
  exact (List.nodup_append.1 this).2.2 _ (List.mem_map_of_mem hb) _ (List.mem_map_of_mem hb')

theorem Blk.congr {w w' : World} (hb : Blk w) (h1 : w'.live = w.live) (h2 : w'.cache = w.cache) (h3 : w'.m = w.m)
    (h4 : w'.evLive = w.evLive) : Blk w' :=
  ⟨by rw [h1, h2, h3]; exact hb.fresh, by rw [h1, h2]; exact hb.nodup, by rw [h1, h2, h3, h4]; exact hb.acct⟩

/-- the same blocks, differently distributed over `live` and `cache` -/
theorem Blk.of_perm {w w' : World} (hb : Blk w) (hp : (w'.live ++ w'.cache).Perm (w.live ++ w.cache))
    (hn : w.m.n ≤ w'.m.n) (hl : w'.m.live - w'.evLive = w.m.live - w.evLive) : Blk w' := by
  refine ⟨fun b hb' => Nat.lt_of_lt_of_le (hb.fresh b (hp.mem_iff.1 hb')) hn, (hp.map _).nodup_iff.2 hb.nodup, ?_⟩
  have h1 := hp.length_eq
  have h2 := hb.acct
  simp only [List.length_append] at h1
  omega

/-- one block more, with the id of the request just made -/
theorem Blk.of_cons {w w' : World} (hb : Blk w) (b0 : Block) (hid : b0.id = w.m.n)
    (hp : (w'.live ++ w'.cache).Perm (b0 :: (w.live ++ w.cache)))
    (hn : w.m.n < w'.m.n) (hl : w'.m.live - w'.evLive = w.m.live - w.evLive + 1) : Blk w' := by
  refine ⟨fun b hb' => ?_, (hp.map _).nodup_iff.2 ?_, ?_⟩
  · rcases List.mem_cons.1 (hp.mem_iff.1 hb') with rfl | h1
    · rw [hid]; exact hn
    · exact Nat.lt_trans (hb.fresh b h1) hn
  · simp only [List.map_cons, List.nodup_cons]
    refine ⟨fun hm => ?_, hb.nodup⟩
    obtain ⟨b, hb1, hb2⟩ := List.mem_map.1 hm
    have := hb.fresh b hb1
    omega
  · have h1 := hp.length_eq
    have h2 := hb.acct
    simp only [List.length_append, List.length_cons] at h1
    omega

/-- one block less -/
theorem Blk.of_drop {w w' : World} (hb : Blk w) (b0 : Block)
    (hp : (b0 :: (w'.live ++ w'.cache)).Perm (w.live ++ w.cache))
    (hn : w.m.n ≤ w'.m.n) (hl : w'.m.live - w'.evLive = w.m.live - w.evLive - 1) : Blk w' := by
  refine ⟨fun b hb' => Nat.lt_of_lt_of_le (hb.fresh b (hp.mem_iff.1 (List.mem_cons_of_mem _ hb'))) hn, ?_, ?_⟩
  · have := (hp.map (·.id)).nodup_iff.2 hb.nodup
    simp only [List.map_cons, List.nodup_cons] at this
    exact this.2
  · have h1 := hp.length_eq
    have h2 := hb.acct
    simp only [List.length_append, List.length_cons] at h1
    omega

theorem Blk.setEv {w : World} (hb : Blk w) (e : Ev) (m' : Mem) (hn : w.m.n ≤ m'.n) : Blk (setEv w e m') :=
  hb.of_perm (.refl _) hn (by simp only [AllocFail.setEv]; omega)

/-- `Inv0` from its parts -/
theorem inv0_mk {w : World} (hev : EvOk w.ev w.m) (hbad : w.bad = 0) (hb : Blk w) (ho : Owns w.live (expLive (tables w)))
    (hcs : ∀ b ∈ w.cache, b.site = .rdCookie ∨ b.site = .wrCookie ∨ b.site = .rdStack ∨ b.site = .wrStack)
    (hrd : PoolOk w.rdPool .rdCookie .rdStack w.cache) (hwr : PoolOk w.wrPool .wrCookie .wrStack w.cache)
    (r1 : (regNet w.ev).Perm (expNet (tables w))) (r2 : (regTimers w.ev).Perm (expTimers (tables w)))
    (r3 : (regImm w.ev).flatten.Perm (expImm (tables w))) : Inv0 w :=
  ⟨hev, hbad, hb.fresh, hb.nodup, ho, hcs, hrd, hwr, r1, r2, r3, hb.acct⟩

/-! ## `PoolOk` and the other pool -/

/-- `c'` and `c` have the same blocks outside the sites `s`, `t` -/
def CacheAgree (s t : Site) (c c' : List Block) : Prop := ∀ b : Block, b.site ≠ s → b.site ≠ t → (b ∈ c' ↔ b ∈ c)

theorem CacheAgree.refl (s t : Site) (c : List Block) : CacheAgree s t c c := fun _ _ _ => Iff.rfl

theorem CacheAgree.trans {s t : Site} {c c' c'' : List Block} (h1 : CacheAgree s t c c') (h2 : CacheAgree s t c' c'') :
    CacheAgree s t c c'' := fun b hs ht => (h2 b hs ht).trans (h1 b hs ht)

/-- a pool does not notice what happens to the blocks of another pool -/
theorem PoolOk.frame {p : MPool.MP} {s t s' t' : Site} {c c' : List Block} (h : PoolOk p s' t' c)
    (hag : CacheAgree s t c c') (h1 : s' ≠ s) (h2 : s' ≠ t) (h3 : t' ≠ s) (h4 : t' ≠ t) : PoolOk p s' t' c' := by
  refine ⟨h.len, h.nodup, ?_, ?_, ?_, ?_, ?_⟩
  · intro x hx
    obtain ⟨b, hb, hid, hs⟩ := h.inCache x hx
    exact ⟨b, (hag b (by rw [hs]; exact h1) (by rw [hs]; exact h2)).2 hb, hid, hs⟩
  · intro b hb hs
    exact h.fromCache b ((hag b (by rw [hs]; exact h1) (by rw [hs]; exact h2)).1 hb) hs
  · intro hd
    obtain ⟨b, hb, hs⟩ := h.arr hd
    exact ⟨b, (hag b (by rw [hs]; exact h3) (by rw [hs]; exact h4)).2 hb, hs⟩
  · intro hd b hb hs
    exact h.arr1 hd b ((hag b (by rw [hs]; exact h3) (by rw [hs]; exact h4)).1 hb) hs
  · intro b hb b' hb' hs hs'
    exact h.arrU b ((hag b (by rw [hs]; exact h3) (by rw [hs]; exact h4)).1 hb)
      b' ((hag b' (by rw [hs']; exact h3) (by rw [hs']; exact h4)).1 hb') hs hs'

/-! ## `mpool_malloc` -/

/-- `poolMalloc` under `Blk` + `PoolOk`: a refused request changes only the oracle; otherwise the block of
the cookie (fresh, or unparked from the cache) is at the head of `live`, and nothing was refused -/
theorem poolMalloc_spec {p p' : MPool.MP} {site stackSite : Site} {len : Nat} {w w' : World} {o : Option Nat}
    (hss : site ≠ stackSite) (hb : Blk w) (hp : PoolOk p site stackSite w.cache)
    (h : poolMalloc p site len w = (o, p', w')) :
    ∃ m1 l1 c1, w' = upd w m1 l1 c1 ∧ Blk w' ∧ PoolOk p' site stackSite c1 ∧ Step w.m m1 ∧
      (∀ b ∈ c1, b ∈ w.cache) ∧ CacheAgree site stackSite w.cache c1 ∧
      (o = none → l1 = w.live ∧ c1 = w.cache ∧ w.m.refusals < m1.refusals) ∧
      (∀ c, o = some c → (∃ sz, l1 = ⟨c, site, sz⟩ :: w.live) ∧ m1.refusals = w.m.refusals) := by
  unfold poolMalloc at h
  simp only at h
  split at h
  · rename_i _ x rest hst
    simp only [Prod.mk.injEq] at h
    obtain ⟨rfl, rfl, rfl⟩ := h
    obtain ⟨b0, hb0, hid0, hs0⟩ := hp.inCache x (by rw [hst]; exact List.mem_cons_self)
    have hcn := hb.cache_nodup
    have hf : findId w.cache x = some b0 := by rw [← hid0]; exact findId_eq hcn hb0
    have hun : unpark w x = upd w w.m (b0 :: w.live) (eraseId w.cache x) := by simp only [unpark, hf, upd]
    have hnds := hp.nodup
    rw [hst, List.nodup_cons] at hnds
    -- a block of the cache with another id than `x` stays
    have hstay : ∀ b ∈ w.cache, b.id ≠ x → b ∈ eraseId w.cache x := fun b hb1 hne => mem_eraseId_of_ne hb1 hne
    -- the block with id `x` is `b0`
    have honly : ∀ b ∈ w.cache, b.id = x → b = b0 := fun b hb1 hid =>
      eq_of_nodup_id hcn hb1 hb0 (by rw [hid, hid0])
    have hgone : ∀ b ∈ eraseId w.cache x, b.id ≠ x := by
      intro b hb1 hid
      rw [← hid] at hb1
      exact not_mem_eraseId_of_nodup hcn hb1
    refine ⟨w.m, b0 :: w.live, eraseId w.cache x, hun, ?_, ?_, Step.refl _, fun b hb1 => mem_eraseId hb1, ?_,
      (fun hc => by cases hc), fun c hc => ?_⟩
    · rw [hun]
      refine hb.of_perm ?_ (Nat.le_refl _) rfl
      show (b0 :: w.live ++ eraseId w.cache x).Perm (w.live ++ w.cache)
      exact (List.perm_middle.symm.trans ((perm_eraseId hf).symm.append_left w.live))
    · refine ⟨?_, hnds.2, ?_, ?_, ?_, ?_, ?_⟩
      · show p.stacklen - 1 = rest.length
        have := hp.len; rw [hst] at this; simp only [List.length_cons] at this; omega
      · intro y hy
        obtain ⟨b, hb1, hid, hs⟩ := hp.inCache y (by rw [hst]; exact List.mem_cons_of_mem _ hy)
        exact ⟨b, hstay b hb1 (by rw [hid]; intro he; exact hnds.1 (he ▸ hy)), hid, hs⟩
      · intro b hb1 hs
        have := hp.fromCache b (mem_eraseId hb1) hs
        rw [hst] at this
        rcases List.mem_cons.1 this with he | he
        · exact absurd he (hgone b hb1)
        · exact he
      · intro hd
        obtain ⟨b, hb1, hs⟩ := hp.arr hd
        refine ⟨b, hstay b hb1 (fun hid => ?_), hs⟩
        have := honly b hb1 hid
        rw [this, hs0] at hs
        exact hss hs
      · intro hd b hb1
        exact hp.arr1 hd b (mem_eraseId hb1)
      · intro b hb1 b' hb1'
        exact hp.arrU b (mem_eraseId hb1) b' (mem_eraseId hb1')
    · intro b hs _
      refine ⟨fun hb1 => mem_eraseId hb1, fun hb1 => hstay b hb1 (fun hid => ?_)⟩
      have := honly b hb1 hid
      rw [this] at hs
      exact hs hs0
    · simp only [Option.some.injEq] at hc
      subst hc
      refine ⟨⟨b0.size, ?_⟩, rfl⟩
      cases b0
      simp only at hid0 hs0
      subst hid0 hs0
      rfl
  · rename_i _ hst
    rcases ha : alloc w site len with ⟨o1, w1⟩
    rw [ha] at h
    simp only [Prod.mk.injEq] at h
    obtain ⟨rfl, rfl, rfl⟩ := h
    have hs := EvRegTimer.step_malloc w.m len
    have hpk : PoolOk { p with nallocs := (p.nallocs + 1) % EArray.SZ, nempties := (p.nempties + 1) % EArray.SZ, state := true }
        site stackSite w.cache := ⟨hp.len, hp.nodup, hp.inCache, hp.fromCache, hp.arr, hp.arr1, hp.arrU⟩
    cases o1 with
    | none =>
      obtain ⟨rfl, hm⟩ := alloc_none ha
      have hf := malloc_fail hm
      refine ⟨(w.m.malloc len).2, w.live, w.cache, rfl, ?_, hpk, hs, fun _ hb => hb, CacheAgree.refl _ _ _,
        fun _ => ⟨rfl, rfl, by rw [hf.1]; omega⟩, fun c hc => by cases hc⟩
      exact hb.of_perm (.refl _) hs.n (by show (w.m.malloc len).2.live - w.evLive = _; rw [hf.2.1])
    | some c =>
      obtain ⟨rfl, rfl, hm⟩ := alloc_some ha
      have hok := malloc_ok hm
      refine ⟨(w.m.malloc len).2, ⟨w.m.n, site, len⟩ :: w.live, w.cache, rfl, ?_, hpk, hs, fun _ hb => hb,
        CacheAgree.refl _ _ _, (fun hc => by cases hc), fun c hc => ?_⟩
      · refine hb.of_cons ⟨w.m.n, site, len⟩ rfl (.refl _) ?_ ?_
        · show w.m.n < (w.m.malloc len).2.n
          rw [hok.2.2.2]; omega
        · show (w.m.malloc len).2.live - w.evLive = _
          rw [hok.2.1]; omega
      · simp only [Option.some.injEq] at hc
        subst hc
        exact ⟨⟨len, rfl⟩, hok.1⟩

/-! ## `mpool_free` -/

theorem perm_park {l : List Block} {id : Nat} {b : Block} (hf : findId l id = some b) (X : List Block) :
    (eraseId l id ++ b :: X).Perm (l ++ X) :=
  List.perm_middle.trans ((perm_eraseId hf).symm.append_right X)

/-- a cookie goes onto the pool's stack and into the cache -/
theorem PoolOk.push {p : MPool.MP} {site stackSite : Site} {c : List Block} (hp : PoolOk p site stackSite c)
    (hss : site ≠ stackSite) {b : Block} (hbs : b.site = site) (hnew : ∀ b' ∈ c, b'.id ≠ b.id) :
    PoolOk { p with stack := b.id :: p.stack, stacklen := p.stacklen + 1 } site stackSite (b :: c) := by
  refine ⟨?_, ?_, ?_, ?_, ?_, ?_, ?_⟩
  · show p.stacklen + 1 = (b.id :: p.stack).length
    rw [List.length_cons, hp.len]
  · show (b.id :: p.stack).Nodup
    rw [List.nodup_cons]
    refine ⟨fun hm => ?_, hp.nodup⟩
    obtain ⟨b', hb', hid, _⟩ := hp.inCache _ hm
    exact hnew b' hb' hid
  · intro x hx
    rcases List.mem_cons.1 hx with rfl | hx
    · exact ⟨b, List.mem_cons_self, rfl, hbs⟩
    · obtain ⟨b', hb', hid, hs⟩ := hp.inCache x hx
      exact ⟨b', List.mem_cons_of_mem _ hb', hid, hs⟩
  · intro x hx hs
    rcases List.mem_cons.1 hx with rfl | hx
    · exact List.mem_cons_self
    · exact List.mem_cons_of_mem _ (hp.fromCache x hx hs)
  · intro hd
    obtain ⟨b', hb', hs⟩ := hp.arr hd
    exact ⟨b', List.mem_cons_of_mem _ hb', hs⟩
  · intro hd x hx hs
    rcases List.mem_cons.1 hx with rfl | hx
    · rw [hbs] at hs; exact hss hs
    · exact hp.arr1 hd x hx hs
  · intro x hx x' hx' hs hs'
    rcases List.mem_cons.1 hx with rfl | hx
    · rw [hbs] at hs; exact absurd hs hss
    · rcases List.mem_cons.1 hx' with rfl | hx'
      · rw [hbs] at hs'; exact absurd hs' hss
      · exact hp.arrU x hx x' hx' hs hs'

/-- the pool gets a new stack array `a`; `c2` is the cache without the old one (if there was one) -/
theorem PoolOk.swapArr {p : MPool.MP} {site stackSite : Site} {c c2 : List Block} (hp : PoolOk p site stackSite c)
    (hss : site ≠ stackSite) {a : Block} (has : a.site = stackSite)
    (h1 : ∀ x : Block, x.site ≠ stackSite → (x ∈ c2 ↔ x ∈ c)) (h2 : ∀ x ∈ c2, x.site ≠ stackSite) (sz : Nat) :
    PoolOk { p with dyn := true, allocsize := sz } site stackSite (a :: c2) := by
  refine ⟨hp.len, hp.nodup, ?_, ?_, ?_, ?_, ?_⟩
  · intro x hx
    obtain ⟨b', hb', hid, hs⟩ := hp.inCache x hx
    exact ⟨b', List.mem_cons_of_mem _ ((h1 b' (by rw [hs]; exact hss)).2 hb'), hid, hs⟩
  · intro x hx hs
    rcases List.mem_cons.1 hx with rfl | hx
    · rw [has] at hs; exact absurd hs.symm hss
    · exact hp.fromCache x ((h1 x (by rw [hs]; exact hss)).1 hx) hs
  · intro _
    exact ⟨a, List.mem_cons_self, has⟩
  · intro hd; cases hd
  · intro x hx x' hx' hs hs'
    rcases List.mem_cons.1 hx with rfl | hx
    · rcases List.mem_cons.1 hx' with rfl | hx'
      · rfl
      · exact absurd hs' (h2 x' hx')
    · exact absurd hs (h2 x hx)

/-- the cache without the pool's old stack array -/
theorem eraseSite_facts {p : MPool.MP} {site stackSite : Site} {c : List Block} (hp : PoolOk p site stackSite c)
    (hcn : (c.map (·.id)).Nodup) {b1 : Block} (hf : c.find? (·.site == stackSite) = some b1) :
    (∀ x : Block, x.site ≠ stackSite → (x ∈ eraseSite c stackSite ↔ x ∈ c)) ∧
    (∀ x ∈ eraseSite c stackSite, x.site ≠ stackSite) ∧ (∀ x ∈ eraseSite c stackSite, x ∈ c) := by
  have hperm := perm_eraseSite hf
  obtain ⟨hb1, hs1⟩ := find_site_some hf
  have hnd := (hperm.map (·.id)).nodup_iff.1 hcn
  simp only [List.map_cons, List.nodup_cons] at hnd
  have hsub : ∀ x ∈ eraseSite c stackSite, x ∈ c := fun x hx => hperm.mem_iff.2 (List.mem_cons_of_mem _ hx)
  refine ⟨fun x hs => ⟨hsub x, fun hx => ?_⟩, fun x hx hs => ?_, hsub⟩
  · rcases List.mem_cons.1 (hperm.mem_iff.1 hx) with rfl | hx
    · exact absurd hs1 hs
    · exact hx
  · have := hp.arrU x (hsub x hx) b1 hb1 hs hs1
    subst this
    exact hnd.1 (List.mem_map_of_mem hx)

/-- `poolFree` of a live block of the pool's site: the block leaves `live`, whichever branch is taken; the
stack may grow (one request, whose refusal only means the cookie is freed instead of parked) -/
theorem poolFree_spec {p p' : MPool.MP} {site stackSite : Site} {w w' : World} {b : Block}
    (hss : site ≠ stackSite) (hb : Blk w) (hp : PoolOk p site stackSite w.cache) (hbl : b ∈ w.live) (hbs : b.site = site)
    (h : poolFree p stackSite b.id w = (p', w')) :
    ∃ m1 c1, w' = upd w m1 (eraseId w.live b.id) c1 ∧ Blk w' ∧ PoolOk p' site stackSite c1 ∧ Step w.m m1 ∧
      (∀ x ∈ c1, x ∈ w.cache ∨ x.site = site ∨ x.site = stackSite) ∧ CacheAgree site stackSite w.cache c1 ∧
      (p.stacklen < p.allocsize → m1 = w.m) := by
  have hfb : findId w.live b.id = some b := findId_eq hb.live_nodup hbl
  have hnew : ∀ b' ∈ w.cache, b'.id ≠ b.id := fun b' hb' he => hb.disjoint hbl hb' he.symm
  have hrel : ∀ m0 : Mem, release { w with m := m0 } b.id = upd w (m0.free false) (eraseId w.live b.id) w.cache := by
    intro m0; simp only [release, hfb, upd]
  have hpr : PoolOk (MPool.resetStats p) site stackSite w.cache :=
    ⟨hp.len, hp.nodup, hp.inCache, hp.fromCache, hp.arr, hp.arr1, hp.arrU⟩
  -- the three ways of freeing the cookie
  have hfreed : ∀ m0 : Mem, Step w.m m0 → m0.live = w.m.live →
      Blk (upd w (m0.free false) (eraseId w.live b.id) w.cache) := by
    intro m0 hs hl
    have hfr := free_facts m0 false
    refine hb.of_drop b ((perm_eraseId hfb).symm.append_right _) ?_ ?_
    · show w.m.n ≤ (m0.free false).n
      rw [hfr.2.2.2]; exact hs.n
    · show (m0.free false).live - w.evLive = _
      rw [hfr.2.1, hl]; simp only [Bool.false_eq_true, if_false]; omega
  unfold poolFree at h
  by_cases hfast : p.stacklen < p.allocsize
  · simp only [hfast, ↓reduceIte, Prod.mk.injEq] at h
    obtain ⟨rfl, rfl⟩ := h
    have hpark : park w b.id = upd w w.m (eraseId w.live b.id) (b :: w.cache) := by simp only [park, hfb, upd]
    refine ⟨w.m, b :: w.cache, hpark, ?_, hp.push hss hbs hnew, Step.refl _, ?_, ?_, fun _ => rfl⟩
    · rw [hpark]
      exact hb.of_perm (perm_park hfb _) (Nat.le_refl _) rfl
    · intro x hx
      rcases List.mem_cons.1 hx with rfl | hx
      · exact Or.inr (Or.inl hbs)
      · exact Or.inl hx
    · intro x hs _
      refine ⟨fun hx => ?_, fun hx => List.mem_cons_of_mem _ hx⟩
      rcases List.mem_cons.1 hx with rfl | hx
      · exact absurd hbs hs
      · exact hx
  · simp only [hfast, ↓reduceIte] at h
    by_cases hwd : MPool.wantsDouble p = true
    · simp only [hwd, ↓reduceIte] at h
      sorry
    · simp only [hwd, ↓reduceIte, Prod.mk.injEq] at h
      obtain ⟨rfl, rfl⟩ := h
      refine ⟨w.m.free false, w.cache, hrel w.m, ?_, hpr, EvRegTimer.step_free _ _, fun x hx => Or.inl hx,
        CacheAgree.refl _ _ _, fun hc => absurd hc hfast⟩
      rw [hrel w.m]
      exact hfreed w.m (Step.refl _) rfl

end Percival.Proofs.AllocFailUpper
