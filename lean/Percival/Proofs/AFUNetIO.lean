import Percival.Proofs.AllocFailUpper
/-!
# C14, upper layers: `network_read` / `network_write` (pooled cookies) and the pools' exit handlers

The cookies of `network_read.c` / `network_write.c` come from `mpool.h` pools; a cancelled cookie is *parked*
(moved from `live` to `cache`).  `poolMalloc_spec` / `poolFree_spec` / `poolAtexit_spec` say, once and
generically in the pool, its site and its stack array's site, what the three pool calls do to the block lists,
the oracle and `PoolOk`; the four network specs follow the pattern of `networkAccept_spec`.
-/
namespace Percival.Proofs.AllocFailUpper
open Percival.Model Percival.Model.EvReg Percival.Model.AllocFail
open Percival.Proofs.EvRegNet (regNet netRegistered NetInv)
open Percival.Proofs.EvRegTimer (regImm regTimers TmInv Step Granted)
open Percival.Proofs.EArray (malloc_ok malloc_fail free_facts)

/-! ## more list helpers -/

theorem findId_eq {l : List Block} (hnd : (l.map (·.id)).Nodup) {b : Block} (hb : b ∈ l) : findId l b.id = some b := by
  obtain ⟨b', hf⟩ := findId_of_mem hb
  rw [hf, findId_unique hnd hb hf]

theorem perm_eraseId {l : List Block} {id : Nat} {b : Block} (h : findId l id = some b) : l.Perm (b :: eraseId l id) := by
  induction l with
  | nil => simp [findId] at h
  | cons a rest ih =>
    simp only [findId, List.find?_cons] at h
    simp only [eraseId]
    cases hq : (a.id == id) with
    | true =>
      rw [hq] at h
      simp only [Option.some.injEq] at h
      subst h
      simp
    | false =>
      rw [hq] at h
      simp only [Bool.false_eq_true, if_false]
      exact ((ih h).cons a).trans (List.Perm.swap b a _)

theorem find_site_some {l : List Block} {s : Site} {b : Block} (h : l.find? (·.site == s) = some b) : b ∈ l ∧ b.site = s :=
  ⟨List.mem_of_find?_eq_some h, by simpa using List.find?_some h⟩

theorem perm_eraseSite {l : List Block} {s : Site} {b : Block} (h : l.find? (·.site == s) = some b) :
    l.Perm (b :: eraseSite l s) := by
  induction l with
  | nil => simp at h
  | cons a rest ih =>
    simp only [List.find?_cons] at h
    simp only [eraseSite]
    cases hq : (a.site == s) with
    | true =>
      rw [hq] at h
      simp only [Option.some.injEq] at h
      subst h
      simp
    | false =>
      rw [hq] at h
      simp only [Bool.false_eq_true, if_false]
      exact ((ih h).cons a).trans (List.Perm.swap b a _)

theorem find_site_of_mem {l : List Block} {s : Site} {b : Block} (hb : b ∈ l) (hs : b.site = s) :
    ∃ b', l.find? (·.site == s) = some b' := by
  cases hf : l.find? (·.site == s) with
  | some b' => exact ⟨b', rfl⟩
  | none => exact absurd (List.find?_eq_none.1 hf b hb) (by simp [hs])

/-! ## the block-level part of the invariant: it holds at every intermediate point of a call -/

/-- ids are request indices already used, no id twice, and the wrapper's counter agrees -/
structure Blk (w : World) : Prop where
  fresh : ∀ b ∈ w.live ++ w.cache, b.id < w.m.n
  nodup : ((w.live ++ w.cache).map (·.id)).Nodup
  acct : w.m.live = w.live.length + w.cache.length + w.evLive

theorem Inv0.blk {w : World} (h : Inv0 w) : Blk w := ⟨h.fresh, h.nodup, h.acct⟩

/-- only `m`, `live`, `cache` differ -/
def upd (w : World) (m : Mem) (live cache : List Block) : World := { w with m := m, live := live, cache := cache }

theorem Blk.live_nodup {w : World} (h : Blk w) : (w.live.map (·.id)).Nodup := by
  have := h.nodup; rw [List.map_append] at this; exact (List.nodup_append.1 this).1

theorem Blk.cache_nodup {w : World} (h : Blk w) : (w.cache.map (·.id)).Nodup := by
  have := h.nodup; rw [List.map_append] at this; exact (List.nodup_append.1 this).2.1

theorem Blk.disjoint {w : World} (h : Blk w) {b b' : Block} (hb : b ∈ w.live) (hb' : b' ∈ w.cache) : b.id ≠ b'.id := by
  have := h.nodup; rw [List.map_append] at this
  exact (List.nodup_append.1 this).2.2 _ (List.mem_map_of_mem hb) _ (List.mem_map_of_mem hb')

theorem Blk.congr {w w' : World} (hb : Blk w) (h1 : w'.live = w.live) (h2 : w'.cache = w.cache) (h3 : w'.m = w.m)
    (h4 : w'.evLive = w.evLive) : Blk w' :=
  ⟨by rw [h1, h2, h3]; exact hb.fresh, by rw [h1, h2]; exact hb.nodup, by rw [h1, h2, h3, h4]; exact hb.acct⟩

/-- the same blocks, differently distributed over `live` and `cache` -/
theorem Blk.of_perm {w w' : World} (hb : Blk w) (hp : (w'.live ++ w'.cache).Perm (w.live ++ w.cache))
    (hn : w.m.n ≤ w'.m.n) (hl : w'.m.live - w'.evLive = w.m.live - w.evLive) : Blk w' := by
  refine ⟨fun b hb' => Nat.lt_of_lt_of_le (hb.fresh b (hp.mem_iff.1 hb')) hn, (hp.map _).nodup_iff.2 hb.nodup, ?_⟩
  have h1 := hp.length_eq
  have h2 := hb.acct
  simp only [List.length_append] at h1
  omega

/-- one block more, with the id of the request just made -/
theorem Blk.of_cons {w w' : World} (hb : Blk w) (b0 : Block) (hid : b0.id = w.m.n)
    (hp : (w'.live ++ w'.cache).Perm (b0 :: (w.live ++ w.cache)))
    (hn : w.m.n < w'.m.n) (hl : w'.m.live - w'.evLive = w.m.live - w.evLive + 1) : Blk w' := by
  refine ⟨fun b hb' => ?_, (hp.map _).nodup_iff.2 ?_, ?_⟩
  · rcases List.mem_cons.1 (hp.mem_iff.1 hb') with rfl | h1
    · rw [hid]; exact hn
    · exact Nat.lt_trans (hb.fresh b h1) hn
  · simp only [List.map_cons, List.nodup_cons]
    refine ⟨fun hm => ?_, hb.nodup⟩
    obtain ⟨b, hb1, hb2⟩ := List.mem_map.1 hm
    have := hb.fresh b hb1
    omega
  · have h1 := hp.length_eq
    have h2 := hb.acct
    simp only [List.length_append, List.length_cons] at h1
    omega

/-- one block less -/
theorem Blk.of_drop {w w' : World} (hb : Blk w) (b0 : Block)
    (hp : (b0 :: (w'.live ++ w'.cache)).Perm (w.live ++ w.cache))
    (hn : w.m.n ≤ w'.m.n) (hl : w'.m.live - w'.evLive = w.m.live - w.evLive - 1) : Blk w' := by
  refine ⟨fun b hb' => Nat.lt_of_lt_of_le (hb.fresh b (hp.mem_iff.1 (List.mem_cons_of_mem _ hb'))) hn, ?_, ?_⟩
  · have := (hp.map (·.id)).nodup_iff.2 hb.nodup
    simp only [List.map_cons, List.nodup_cons] at this
    exact this.2
  · have h1 := hp.length_eq
    have h2 := hb.acct
    simp only [List.length_append, List.length_cons] at h1
    omega

theorem Blk.setEv {w : World} (hb : Blk w) (e : Ev) (m' : Mem) (hn : w.m.n ≤ m'.n) : Blk (setEv w e m') :=
  hb.of_perm (.refl _) hn (by simp only [AllocFail.setEv]; omega)

/-- `Inv0` from its parts -/
theorem inv0_mk {w : World} (hev : EvOk w.ev w.m) (hbad : w.bad = 0) (hb : Blk w) (ho : Owns w.live (expLive (tables w)))
    (hcs : ∀ b ∈ w.cache, b.site = .rdCookie ∨ b.site = .wrCookie ∨ b.site = .rdStack ∨ b.site = .wrStack)
    (hrd : PoolOk w.rdPool .rdCookie .rdStack w.cache) (hwr : PoolOk w.wrPool .wrCookie .wrStack w.cache)
    (r1 : (regNet w.ev).Perm (expNet (tables w))) (r2 : (regTimers w.ev).Perm (expTimers (tables w)))
    (r3 : (regImm w.ev).flatten.Perm (expImm (tables w))) : Inv0 w :=
  ⟨hev, hbad, hb.fresh, hb.nodup, ho, hcs, hrd, hwr, r1, r2, r3, hb.acct⟩

/-! ## `PoolOk` and the other pool -/

/-- `c'` and `c` have the same blocks outside the sites `s`, `t` -/
def CacheAgree (s t : Site) (c c' : List Block) : Prop := ∀ b : Block, b.site ≠ s → b.site ≠ t → (b ∈ c' ↔ b ∈ c)

theorem CacheAgree.refl (s t : Site) (c : List Block) : CacheAgree s t c c := fun _ _ _ => Iff.rfl

theorem CacheAgree.trans {s t : Site} {c c' c'' : List Block} (h1 : CacheAgree s t c c') (h2 : CacheAgree s t c' c'') :
    CacheAgree s t c c'' := fun b hs ht => (h2 b hs ht).trans (h1 b hs ht)

/-- a pool does not notice what happens to the blocks of another pool -/
theorem PoolOk.frame {p : MPool.MP} {s t s' t' : Site} {c c' : List Block} (h : PoolOk p s' t' c)
    (hag : CacheAgree s t c c') (h1 : s' ≠ s) (h2 : s' ≠ t) (h3 : t' ≠ s) (h4 : t' ≠ t) : PoolOk p s' t' c' := by
  refine ⟨h.len, h.nodup, ?_, ?_, ?_, ?_, ?_⟩
  · intro x hx
    obtain ⟨b, hb, hid, hs⟩ := h.inCache x hx
    exact ⟨b, (hag b (by rw [hs]; exact h1) (by rw [hs]; exact h2)).2 hb, hid, hs⟩
  · intro b hb hs
    exact h.fromCache b ((hag b (by rw [hs]; exact h1) (by rw [hs]; exact h2)).1 hb) hs
  · intro hd
    obtain ⟨b, hb, hs⟩ := h.arr hd
    exact ⟨b, (hag b (by rw [hs]; exact h3) (by rw [hs]; exact h4)).2 hb, hs⟩
  · intro hd b hb hs
    exact h.arr1 hd b ((hag b (by rw [hs]; exact h3) (by rw [hs]; exact h4)).1 hb) hs
  · intro b hb b' hb' hs hs'
    exact h.arrU b ((hag b (by rw [hs]; exact h3) (by rw [hs]; exact h4)).1 hb)
      b' ((hag b' (by rw [hs']; exact h3) (by rw [hs']; exact h4)).1 hb') hs hs'

/-! ## `mpool_malloc` -/

/-- `poolMalloc` under `Blk` + `PoolOk`: a refused request changes only the oracle; otherwise the block of
the cookie (fresh, or unparked from the cache) is at the head of `live`, and nothing was refused -/
theorem poolMalloc_spec {p p' : MPool.MP} {site stackSite : Site} {len : Nat} {w w' : World} {o : Option Nat}
    (hss : site ≠ stackSite) (hb : Blk w) (hp : PoolOk p site stackSite w.cache)
    (h : poolMalloc p site len w = (o, p', w')) :
    ∃ m1 l1 c1, w' = upd w m1 l1 c1 ∧ Blk w' ∧ PoolOk p' site stackSite c1 ∧ Step w.m m1 ∧
      (∀ b ∈ c1, b ∈ w.cache) ∧ CacheAgree site stackSite w.cache c1 ∧
      (o = none → l1 = w.live ∧ c1 = w.cache ∧ w.m.refusals < m1.refusals) ∧
      (∀ c, o = some c → (∃ sz, l1 = ⟨c, site, sz⟩ :: w.live) ∧ m1.refusals = w.m.refusals) := by
  unfold poolMalloc at h
  simp only at h
  split at h
  · rename_i _ x rest hst
    simp only [Prod.mk.injEq] at h
    obtain ⟨rfl, rfl, rfl⟩ := h
    obtain ⟨b0, hb0, hid0, hs0⟩ := hp.inCache x (by rw [hst]; exact List.mem_cons_self)
    have hcn := hb.cache_nodup
    have hf : findId w.cache x = some b0 := by rw [← hid0]; exact findId_eq hcn hb0
    have hun : unpark w x = upd w w.m (b0 :: w.live) (eraseId w.cache x) := by simp only [unpark, hf, upd]
    have hnds := hp.nodup
    rw [hst, List.nodup_cons] at hnds
    -- a block of the cache with another id than `x` stays
    have hstay : ∀ b ∈ w.cache, b.id ≠ x → b ∈ eraseId w.cache x := fun b hb1 hne => mem_eraseId_of_ne hb1 hne
    -- the block with id `x` is `b0`
    have honly : ∀ b ∈ w.cache, b.id = x → b = b0 := fun b hb1 hid =>
      eq_of_nodup_id hcn hb1 hb0 (by rw [hid, hid0])
    have hgone : ∀ b ∈ eraseId w.cache x, b.id ≠ x := by
      intro b hb1 hid
      rw [← hid] at hb1
      exact not_mem_eraseId_of_nodup hcn hb1
    refine ⟨w.m, b0 :: w.live, eraseId w.cache x, hun, ?_, ?_, Step.refl _, fun b hb1 => mem_eraseId hb1, ?_,
      (fun hc => by cases hc), fun c hc => ?_⟩
    · rw [hun]
      refine hb.of_perm ?_ (Nat.le_refl _) rfl
      show (b0 :: w.live ++ eraseId w.cache x).Perm (w.live ++ w.cache)
      exact (List.perm_middle.symm.trans ((perm_eraseId hf).symm.append_left w.live))
    · refine ⟨?_, hnds.2, ?_, ?_, ?_, ?_, ?_⟩
      · show p.stacklen - 1 = rest.length
        have := hp.len; rw [hst] at this; simp only [List.length_cons] at this; omega
      · intro y hy
        obtain ⟨b, hb1, hid, hs⟩ := hp.inCache y (by rw [hst]; exact List.mem_cons_of_mem _ hy)
        exact ⟨b, hstay b hb1 (by rw [hid]; intro he; exact hnds.1 (he ▸ hy)), hid, hs⟩
      · intro b hb1 hs
        have := hp.fromCache b (mem_eraseId hb1) hs
        rw [hst] at this
        rcases List.mem_cons.1 this with he | he
        · exact absurd he (hgone b hb1)
        · exact he
      · intro hd
        obtain ⟨b, hb1, hs⟩ := hp.arr hd
        refine ⟨b, hstay b hb1 (fun hid => ?_), hs⟩
        have := honly b hb1 hid
        rw [this, hs0] at hs
        exact hss hs
      · intro hd b hb1
        exact hp.arr1 hd b (mem_eraseId hb1)
      · intro b hb1 b' hb1'
        exact hp.arrU b (mem_eraseId hb1) b' (mem_eraseId hb1')
    · intro b hs _
      refine ⟨fun hb1 => mem_eraseId hb1, fun hb1 => hstay b hb1 (fun hid => ?_)⟩
      have := honly b hb1 hid
      rw [this] at hs
      exact hs hs0
    · simp only [Option.some.injEq] at hc
      subst hc
      refine ⟨⟨b0.size, ?_⟩, rfl⟩
      cases b0
      simp only at hid0 hs0
      subst hid0 hs0
      rfl
  · rename_i _ hst
    rcases ha : alloc w site len with ⟨o1, w1⟩
    rw [ha] at h
    simp only [Prod.mk.injEq] at h
    obtain ⟨rfl, rfl, rfl⟩ := h
    have hs := EvRegTimer.step_malloc w.m len
    have hpk : PoolOk { p with nallocs := (p.nallocs + 1) % EArray.SZ, nempties := (p.nempties + 1) % EArray.SZ, state := true }
        site stackSite w.cache := ⟨hp.len, hp.nodup, hp.inCache, hp.fromCache, hp.arr, hp.arr1, hp.arrU⟩
    cases o1 with
    | none =>
      obtain ⟨rfl, hm⟩ := alloc_none ha
      have hf := malloc_fail hm
      refine ⟨(w.m.malloc len).2, w.live, w.cache, rfl, ?_, hpk, hs, fun _ hb => hb, CacheAgree.refl _ _ _,
        fun _ => ⟨rfl, rfl, by rw [hf.1]; omega⟩, fun c hc => by cases hc⟩
      exact hb.of_perm (.refl _) hs.n (by show (w.m.malloc len).2.live - w.evLive = _; rw [hf.2.1])
    | some c =>
      obtain ⟨rfl, rfl, hm⟩ := alloc_some ha
      have hok := malloc_ok hm
      refine ⟨(w.m.malloc len).2, ⟨w.m.n, site, len⟩ :: w.live, w.cache, rfl, ?_, hpk, hs, fun _ hb => hb,
        CacheAgree.refl _ _ _, (fun hc => by cases hc), fun c hc => ?_⟩
      · refine hb.of_cons ⟨w.m.n, site, len⟩ rfl (.refl _) ?_ ?_
        · show w.m.n < (w.m.malloc len).2.n
          rw [hok.2.2.2]; omega
        · show (w.m.malloc len).2.live - w.evLive = _
          rw [hok.2.1]; omega
      · simp only [Option.some.injEq] at hc
        subst hc
        exact ⟨⟨len, rfl⟩, hok.1⟩

/-! ## `mpool_free` -/

theorem perm_park {l : List Block} {id : Nat} {b : Block} (hf : findId l id = some b) (X : List Block) :
    (eraseId l id ++ b :: X).Perm (l ++ X) :=
  List.perm_middle.trans ((perm_eraseId hf).symm.append_right X)

/-- a cookie goes onto the pool's stack and into the cache -/
theorem PoolOk.push {p : MPool.MP} {site stackSite : Site} {c : List Block} (hp : PoolOk p site stackSite c)
    (hss : site ≠ stackSite) {b : Block} (hbs : b.site = site) (hnew : ∀ b' ∈ c, b'.id ≠ b.id) :
    PoolOk { p with stack := b.id :: p.stack, stacklen := p.stacklen + 1 } site stackSite (b :: c) := by
  refine ⟨?_, ?_, ?_, ?_, ?_, ?_, ?_⟩
  · show p.stacklen + 1 = (b.id :: p.stack).length
    rw [List.length_cons, hp.len]
  · show (b.id :: p.stack).Nodup
    rw [List.nodup_cons]
    refine ⟨fun hm => ?_, hp.nodup⟩
    obtain ⟨b', hb', hid, _⟩ := hp.inCache _ hm
    exact hnew b' hb' hid
  · intro x hx
    rcases List.mem_cons.1 hx with rfl | hx
    · exact ⟨b, List.mem_cons_self, rfl, hbs⟩
    · obtain ⟨b', hb', hid, hs⟩ := hp.inCache x hx
      exact ⟨b', List.mem_cons_of_mem _ hb', hid, hs⟩
  · intro x hx hs
    rcases List.mem_cons.1 hx with rfl | hx
    · exact List.mem_cons_self
    · exact List.mem_cons_of_mem _ (hp.fromCache x hx hs)
  · intro hd
    obtain ⟨b', hb', hs⟩ := hp.arr hd
    exact ⟨b', List.mem_cons_of_mem _ hb', hs⟩
  · intro hd x hx hs
    rcases List.mem_cons.1 hx with rfl | hx
    · rw [hbs] at hs; exact hss hs
    · exact hp.arr1 hd x hx hs
  · intro x hx x' hx' hs hs'
    rcases List.mem_cons.1 hx with rfl | hx
    · rw [hbs] at hs; exact absurd hs hss
    · rcases List.mem_cons.1 hx' with rfl | hx'
      · rw [hbs] at hs'; exact absurd hs' hss
      · exact hp.arrU x hx x' hx' hs hs'

/-- the pool gets a new stack array `a`; `c2` is the cache without the old one (if there was one) -/
theorem PoolOk.swapArr {p : MPool.MP} {site stackSite : Site} {c c2 : List Block} (hp : PoolOk p site stackSite c)
    (hss : site ≠ stackSite) {a : Block} (has : a.site = stackSite)
    (h1 : ∀ x : Block, x.site ≠ stackSite → (x ∈ c2 ↔ x ∈ c)) (h2 : ∀ x ∈ c2, x.site ≠ stackSite) (sz : Nat) :
    PoolOk { p with dyn := true, allocsize := sz } site stackSite (a :: c2) := by
  refine ⟨hp.len, hp.nodup, ?_, ?_, ?_, ?_, ?_⟩
  · intro x hx
    obtain ⟨b', hb', hid, hs⟩ := hp.inCache x hx
    exact ⟨b', List.mem_cons_of_mem _ ((h1 b' (by rw [hs]; exact hss)).2 hb'), hid, hs⟩
  · intro x hx hs
    rcases List.mem_cons.1 hx with rfl | hx
    · rw [has] at hs; exact absurd hs.symm hss
    · exact hp.fromCache x ((h1 x (by rw [hs]; exact hss)).1 hx) hs
  · intro _
    exact ⟨a, List.mem_cons_self, has⟩
  · intro hd; cases hd
  · intro x hx x' hx' hs hs'
    rcases List.mem_cons.1 hx with rfl | hx
    · rcases List.mem_cons.1 hx' with rfl | hx'
      · rfl
      · exact absurd hs' (h2 x' hx')
    · exact absurd hs (h2 x hx)

/-- the cache without the pool's old stack array -/
theorem eraseSite_facts {stackSite : Site} {c : List Block}
    (hU : ∀ b ∈ c, ∀ b' ∈ c, b.site = stackSite → b'.site = stackSite → b = b')
    (hcn : (c.map (·.id)).Nodup) {b1 : Block} (hf : c.find? (·.site == stackSite) = some b1) :
    (∀ x : Block, x.site ≠ stackSite → (x ∈ eraseSite c stackSite ↔ x ∈ c)) ∧
    (∀ x ∈ eraseSite c stackSite, x.site ≠ stackSite) ∧ (∀ x ∈ eraseSite c stackSite, x ∈ c) := by
  have hperm := perm_eraseSite hf
  obtain ⟨hb1, hs1⟩ := find_site_some hf
  have hnd := (hperm.map (·.id)).nodup_iff.1 hcn
  simp only [List.map_cons, List.nodup_cons] at hnd
  have hsub : ∀ x ∈ eraseSite c stackSite, x ∈ c := fun x hx => hperm.mem_iff.2 (List.mem_cons_of_mem _ hx)
  refine ⟨fun x hs => ⟨hsub x, fun hx => ?_⟩, fun x hx hs => ?_, hsub⟩
  · rcases List.mem_cons.1 (hperm.mem_iff.1 hx) with rfl | hx
    · exact absurd hs1 hs
    · exact hx
  · have := hU x (hsub x hx) b1 hb1 hs hs1
    subst this
    exact hnd.1 (List.mem_map_of_mem hx)

/-- `poolFree` of a live block of the pool's site: the block leaves `live`, whichever branch is taken; the
stack may grow (one request, whose refusal only means the cookie is freed instead of parked) -/
theorem poolFree_spec {p p' : MPool.MP} {site stackSite : Site} {w w' : World} {b : Block}
    (hss : site ≠ stackSite) (hb : Blk w) (hp : PoolOk p site stackSite w.cache) (hbl : b ∈ w.live) (hbs : b.site = site)
    (h : poolFree p stackSite b.id w = (p', w')) :
    ∃ m1 c1, w' = upd w m1 (eraseId w.live b.id) c1 ∧ Blk w' ∧ PoolOk p' site stackSite c1 ∧ Step w.m m1 ∧
      (∀ x ∈ c1, x ∈ w.cache ∨ x.site = site ∨ x.site = stackSite) ∧ CacheAgree site stackSite w.cache c1 ∧
      (p.stacklen < p.allocsize → m1 = w.m) := by
  have hfb : findId w.live b.id = some b := findId_eq hb.live_nodup hbl
  have hnew : ∀ b' ∈ w.cache, b'.id ≠ b.id := fun b' hb' he => hb.disjoint hbl hb' he.symm
  have hrel : ∀ m0 : Mem, release { w with m := m0 } b.id = upd w (m0.free false) (eraseId w.live b.id) w.cache := by
    intro m0; simp only [release, hfb, upd]
  have hpr : PoolOk (MPool.resetStats p) site stackSite w.cache :=
    ⟨hp.len, hp.nodup, hp.inCache, hp.fromCache, hp.arr, hp.arr1, hp.arrU⟩
  -- the three ways of freeing the cookie
  have hfreed : ∀ m0 : Mem, Step w.m m0 → m0.live = w.m.live →
      Blk (upd w (m0.free false) (eraseId w.live b.id) w.cache) := by
    intro m0 hs hl
    have hfr := free_facts m0 false
    refine hb.of_drop b ((perm_eraseId hfb).symm.append_right _) ?_ ?_
    · show w.m.n ≤ (m0.free false).n
      rw [hfr.2.2.2]; exact hs.n
    · show (m0.free false).live - w.evLive = _
      rw [hfr.2.1, hl]; simp only [Bool.false_eq_true, if_false]; omega
  unfold poolFree at h
  by_cases hfast : p.stacklen < p.allocsize
  · simp only [hfast, ↓reduceIte, Prod.mk.injEq] at h
    obtain ⟨rfl, rfl⟩ := h
    have hpark : park w b.id = upd w w.m (eraseId w.live b.id) (b :: w.cache) := by simp only [park, hfb, upd]
    refine ⟨w.m, b :: w.cache, hpark, ?_, hp.push hss hbs hnew, Step.refl _, ?_, ?_, fun _ => rfl⟩
    · rw [hpark]
      exact hb.of_perm (perm_park hfb _) (Nat.le_refl _) rfl
    · intro x hx
      rcases List.mem_cons.1 hx with rfl | hx
      · exact Or.inr (Or.inl hbs)
      · exact Or.inl hx
    · intro x hs _
      refine ⟨fun hx => ?_, fun hx => List.mem_cons_of_mem _ hx⟩
      rcases List.mem_cons.1 hx with rfl | hx
      · exact absurd hbs hs
      · exact hx
  · simp only [hfast, ↓reduceIte] at h
    cases hwd : MPool.wantsDouble p with
    | false =>
      simp only [hwd, Bool.false_eq_true, ↓reduceIte, Prod.mk.injEq] at h
      obtain ⟨rfl, rfl⟩ := h
      refine ⟨w.m.free false, w.cache, hrel w.m, ?_, hpr, EvRegTimer.step_free _ _, fun x hx => Or.inl hx,
        CacheAgree.refl _ _ _, fun hc => absurd hc hfast⟩
      rw [hrel w.m]
      exact hfreed w.m (Step.refl _) rfl
    | true =>
      simp only [hwd, ↓reduceIte] at h
      have hs := EvRegTimer.step_malloc w.m ((p.allocsize * 2 * 8) % EArray.SZ)
      rcases ha : alloc w stackSite ((p.allocsize * 2 * 8) % EArray.SZ) with ⟨o1, w1⟩
      rw [ha] at h
      cases o1 with
      | none =>
        obtain ⟨rfl, hm⟩ := alloc_none ha
        have hf := malloc_fail hm
        simp only [Prod.mk.injEq] at h
        obtain ⟨rfl, rfl⟩ := h
        refine ⟨_, w.cache, hrel _, ?_, hpr, hs.trans (EvRegTimer.step_free _ _), fun x hx => Or.inl hx,
          CacheAgree.refl _ _ _, fun hc => absurd hc hfast⟩
        rw [hrel]
        exact hfreed _ hs hf.2.1
      | some a =>
        obtain ⟨rfl, rfl, hm⟩ := alloc_some ha
        have hok := malloc_ok hm
        simp only [Prod.mk.injEq] at h
        obtain ⟨rfl, rfl⟩ := h
        generalize hW : (ite (p.dyn = true) _ _ : World) = W
        have hinner : ∃ m2 c2, W = upd w m2 (⟨w.m.n, stackSite, (p.allocsize * 2 * 8) % EArray.SZ⟩ :: w.live) c2 ∧
            Blk (upd w m2 w.live (⟨w.m.n, stackSite, (p.allocsize * 2 * 8) % EArray.SZ⟩ :: c2)) ∧ Step w.m m2 ∧
            (∀ x : Block, x.site ≠ stackSite → (x ∈ c2 ↔ x ∈ w.cache)) ∧ (∀ x ∈ c2, x.site ≠ stackSite) ∧
            (∀ x ∈ c2, x ∈ w.cache) := by
          subst hW
          have hA : Blk (upd w (w.m.malloc ((p.allocsize * 2 * 8) % EArray.SZ)).2 w.live
              (⟨w.m.n, stackSite, (p.allocsize * 2 * 8) % EArray.SZ⟩ :: w.cache)) := by
            refine hb.of_cons ⟨w.m.n, stackSite, _⟩ rfl List.perm_middle ?_ ?_
            · show w.m.n < (w.m.malloc _).2.n
              rw [hok.2.2.2]; omega
            · show (w.m.malloc _).2.live - w.evLive = _
              rw [hok.2.1]; omega
          cases hd : p.dyn with
          | false =>
            simp only [Bool.false_eq_true, ↓reduceIte]
            exact ⟨_, w.cache, rfl, hA, hs, fun _ _ => Iff.rfl, fun x hx => hp.arr1 hd x hx, fun _ hx => hx⟩
          | true =>
            obtain ⟨b0, hb0, hs0⟩ := hp.arr hd
            obtain ⟨b1, hf1⟩ := find_site_of_mem hb0 hs0
            obtain ⟨e1, e2, e3⟩ := eraseSite_facts hp.arrU hb.cache_nodup hf1
            simp only [↓reduceIte, hf1]
            have hfr := free_facts (w.m.malloc ((p.allocsize * 2 * 8) % EArray.SZ)).2 false
            refine ⟨_, eraseSite w.cache stackSite, rfl, ?_, hs.trans (EvRegTimer.step_free _ _), e1, e2, e3⟩
            refine hA.of_drop b1 ?_ ?_ ?_
            · show (b1 :: (w.live ++ _ :: eraseSite w.cache stackSite)).Perm (w.live ++ _ :: w.cache)
              have hperm := perm_eraseSite hf1
              rw [List.perm_iff_count]
              intro k
              have := hperm.count_eq k
              simp only [List.count_append, List.count_cons] at this ⊢
              omega
            · show (w.m.malloc _).2.n ≤ ((w.m.malloc _).2.free false).n
              rw [hfr.2.2.2]; exact Nat.le_refl _
            · show ((w.m.malloc _).2.free false).live - w.evLive = (w.m.malloc _).2.live - w.evLive - 1
              rw [hfr.2.1]; simp only [Bool.false_eq_true, if_false]; omega
        obtain ⟨m2, c2, rfl, hB, hs2, e1, e2, e3⟩ := hinner
        have hp1 : park (upd w m2 (⟨w.m.n, stackSite, (p.allocsize * 2 * 8) % EArray.SZ⟩ :: w.live) c2) w.m.n =
            upd w m2 w.live (⟨w.m.n, stackSite, (p.allocsize * 2 * 8) % EArray.SZ⟩ :: c2) := by
          simp [park, upd, findId, eraseId]
        have hp2 : park (upd w m2 w.live (⟨w.m.n, stackSite, (p.allocsize * 2 * 8) % EArray.SZ⟩ :: c2)) b.id =
            upd w m2 (eraseId w.live b.id) (b :: ⟨w.m.n, stackSite, (p.allocsize * 2 * 8) % EArray.SZ⟩ :: c2) := by
          simp only [park, upd, hfb]
        rw [hp1, hp2]
        have hnew' : ∀ b' ∈ (⟨w.m.n, stackSite, (p.allocsize * 2 * 8) % EArray.SZ⟩ : Block) :: c2, b'.id ≠ b.id := by
          intro b' hb'
          rcases List.mem_cons.1 hb' with rfl | hb'
          · have := hb.fresh b (List.mem_append_left _ hbl)
            show w.m.n ≠ b.id
            omega
          · exact hnew b' (e3 b' hb')
        have hq := (hp.swapArr hss (a := ⟨w.m.n, stackSite, (p.allocsize * 2 * 8) % EArray.SZ⟩) rfl e1 e2
          ((p.allocsize * 2) % EArray.SZ)).push hss hbs hnew'
        refine ⟨m2, _, rfl, ?_, ⟨hq.len, hq.nodup, hq.inCache, hq.fromCache, hq.arr, hq.arr1, hq.arrU⟩, hs2, ?_, ?_,
          fun hc => absurd hc hfast⟩
        · exact hB.of_perm (perm_park hfb _) (Nat.le_refl _) rfl
        · intro x hx
          rcases List.mem_cons.1 hx with rfl | hx
          · exact Or.inr (Or.inl hbs)
          · rcases List.mem_cons.1 hx with rfl | hx
            · exact Or.inr (Or.inr rfl)
            · exact Or.inl (e3 x hx)
        · intro x hs1 hs2'
          refine ⟨fun hx => ?_, fun hx => List.mem_cons_of_mem _ (List.mem_cons_of_mem _ ((e1 x hs2').2 hx))⟩
          rcases List.mem_cons.1 hx with rfl | hx
          · exact absurd hbs hs1
          · rcases List.mem_cons.1 hx with rfl | hx
            · exact absurd rfl hs2'
            · exact e3 x hx

/-! ## `network_read` -/

theorem networkRead_eq_none {w w1 : World} {fd : Nat} {p : MPool.MP}
    (hpm : poolMalloc w.rdPool .rdCookie rdCookieSize w = (none, p, w1)) :
    networkRead w fd = (none, { w1 with rdPool := p }) := by
  simp only [networkRead, hpm]

theorem networkRead_eq_ok {w w1 : World} {fd c : Nat} {p : MPool.MP} {e' : Ev} {m' : Mem}
    (hpm : poolMalloc w.rdPool .rdCookie rdCookieSize w = (some c, p, w1))
    (hnr : netReg w1.ev c fd false w1.m = (.ok, e', m')) :
    networkRead w fd = (some c, { setEv { w1 with rdPool := p } e' m' with reads := ⟨c, fd⟩ :: w1.reads }) := by
  simp only [networkRead, hpm, hnr, setEv]

theorem networkRead_eq_fail {w w1 w3 : World} {fd c : Nat} {p p3 : MPool.MP} {res : NetRes} {e' : Ev} {m' : Mem}
    (hpm : poolMalloc w.rdPool .rdCookie rdCookieSize w = (some c, p, w1))
    (hnr : netReg w1.ev c fd false w1.m = (res, e', m')) (hres : res ≠ .ok)
    (hpf : poolFree p .rdStack c (setEv { w1 with rdPool := p } e' m') = (p3, w3)) :
    networkRead w fd = (none, { w3 with rdPool := p3 }) := by
  cases res <;> first | exact absurd rfl hres | simp only [networkRead, hpm, hnr, setEv] <;> (simp only [setEv] at hpf; rw [hpf])

/-- `network_read` -/
theorem networkRead_spec (w : World) (fd : Nat) (h : Inv0 w) :
    Inv0 (networkRead w fd).2 ∧ Step w.m (networkRead w fd).2.m ∧
    ((networkRead w fd).1 = none → Same w (networkRead w fd).2) ∧
    (∀ c, (networkRead w fd).1 = some c →
        (∃ sz, (networkRead w fd).2.live = ⟨c, .rdCookie, sz⟩ :: w.live) ∧
        tables (networkRead w fd).2 = { tables w with reads := ⟨c, fd⟩ :: w.reads } ∧
        (networkRead w fd).2.m.refusals = w.m.refusals) ∧
    ((networkRead w fd).2.m.refusals ≠ w.m.refusals → (networkRead w fd).1 = none) ∧
    ((networkRead w fd).1 = none → ¬ netRegistered w.ev fd false → 24 * (fd + 1) ≤ EArray.SIZE_MAX →
        w.m.refusals < (networkRead w fd).2.m.refusals) := by
  rcases hpm : poolMalloc w.rdPool .rdCookie rdCookieSize w with ⟨o, p, w1⟩
  obtain ⟨m1, l1, c1, rfl, hb1, hp1, hs1, hsub1, hag1, hnone, hsome⟩ :=
    poolMalloc_spec (stackSite := .rdStack) (by decide) h.blk h.rd hpm
  have hwr1 : PoolOk w.wrPool .wrCookie .wrStack c1 := h.wr.frame hag1 (by decide) (by decide) (by decide) (by decide)
  have hcs1 : ∀ b ∈ c1, b.site = .rdCookie ∨ b.site = .wrCookie ∨ b.site = .rdStack ∨ b.site = .wrStack :=
    fun b hb => h.cacheSites b (hsub1 b hb)
  cases o with
  | none =>
    obtain ⟨rfl, rfl, hrf⟩ := hnone rfl
    rw [networkRead_eq_none hpm]
    refine ⟨?_, hs1, fun _ => ⟨rfl, rfl, rfl, rfl⟩, fun c hc => (by cases hc), fun _ => rfl, fun _ _ _ => hrf⟩
    exact inv0_mk (evOk_step h.ev hs1.n) h.bad0 (hb1.congr rfl rfl rfl rfl) h.owns h.cacheSites hp1 h.wr
      h.regNet h.regTm h.regImm
  | some c =>
    obtain ⟨⟨sz, rfl⟩, hrf1⟩ := hsome c rfl
    have hev1 : EvOk w.ev m1 := evOk_step h.ev hs1.n
    have hsp := EvRegNet.netReg_spec w.ev c fd false m1 h.ev.net
    have hs2 := netReg_step w.ev c fd false m1
    have hev2 := evOk_netReg hev1 c fd false
    have hoth := netReg_regs_other w.ev c fd false m1
    have hrf := (EvRegNet.netReg_frame w.ev c fd false m1).2.2.2
    rcases hnr : netReg w.ev c fd false m1 with ⟨res, e', m'⟩
    rw [hnr] at hsp hs2 hev2 hoth hrf
    simp only at hsp hs2 hev2 hoth hrf
    have hst : Step w.m m' := hs1.trans hs2
    -- the cookie's id is new among the live blocks
    have hcnew : c ∉ w.live.map (·.id) := by
      have := hb1.live_nodup
      simp only [upd, List.map_cons, List.nodup_cons] at this
      exact this.1
    by_cases hres : res = .ok
    · subst hres
      rw [networkRead_eq_ok hpm hnr]
      rcases hsp.2 with ⟨_, hfree, hmem⟩ | ⟨hx, _⟩ | ⟨hx, _⟩
      · have hperm : (regNet e').Perm ((fd, false, c) :: regNet w.ev) := by
          have := (EvRegNet.netReg_ok w.ev c fd false m1 h.ev.net (by rw [hnr])).2
          rw [hnr] at this; exact this
        have hrfeq : m'.refusals = w.m.refusals := by
          by_cases hq : m'.refusals = m1.refusals
          · rw [hq, hrf1]
          · have := hrf hq; cases this
        refine ⟨?_, hst, fun hc => (by cases hc), ?_, fun hne => absurd hrfeq hne, fun hc => (by cases hc)⟩
        · refine inv0_mk hev2 h.bad0 ((hb1.setEv e' m' hs2.n).congr rfl rfl rfl rfl) ?_ hcs1 hp1 hwr1 ?_ ?_ ?_
          · exact (Owns.cons h.owns ⟨c, .rdCookie, sz⟩ hcnew).perm (expLive_cons_reads (tables w) ⟨c, fd⟩).symm
          · exact (hperm.trans (h.regNet.cons _)).trans (expNet_cons_reads (tables w) ⟨c, fd⟩).symm
          · show (regTimers e').Perm _
            rw [hoth.2]; exact h.regTm
          · show (regImm e').flatten.Perm _
            rw [hoth.1]; exact h.regImm
        · intro c' hc
          simp only [Option.some.injEq] at hc
          subst hc
          exact ⟨⟨sz, rfl⟩, rfl, hrfeq⟩
      · cases hx
      · cases hx
    · have hreg : registry e' = registry w.ev := by
        rcases hsp.2 with ⟨hx, _⟩ | ⟨_, _, hr⟩ | ⟨_, hr, _⟩
        · exact absurd hx hres
        · exact hr
        · exact hr
      obtain ⟨r1, r2, r3⟩ := (registry_eq_iff _ _).1 hreg
      have hb2 : Blk (setEv { upd w m1 (⟨c, .rdCookie, sz⟩ :: w.live) c1 with rdPool := p } e' m') :=
        (hb1.setEv e' m' hs2.n).congr rfl rfl rfl rfl
      rcases hpf : poolFree p .rdStack c (setEv { upd w m1 (⟨c, .rdCookie, sz⟩ :: w.live) c1 with rdPool := p } e' m')
        with ⟨p3, w3⟩
      obtain ⟨m3, c3, rfl, hb3, hp3, hs3, hcs3, hag3, _⟩ :=
        poolFree_spec (site := .rdCookie) (b := ⟨c, .rdCookie, sz⟩) (by decide) hb2 hp1 List.mem_cons_self rfl hpf
      rw [networkRead_eq_fail hpm hnr hres hpf]
      have hlive : eraseId (⟨c, .rdCookie, sz⟩ :: w.live) c = w.live := eraseId_head ⟨c, .rdCookie, sz⟩ w.live
      refine ⟨?_, hst.trans hs3, fun _ => ⟨hlive, rfl, hreg, rfl⟩, fun c hc => (by cases hc), fun _ => rfl, ?_⟩
      · refine inv0_mk (evOk_step hev2 hs3.n) h.bad0 (hb3.congr rfl rfl rfl rfl) ?_ ?_ hp3
          (hwr1.frame hag3 (by decide) (by decide) (by decide) (by decide)) ?_ ?_ ?_
        · show Owns (eraseId (⟨c, .rdCookie, sz⟩ :: w.live) c) _
          rw [hlive]; exact h.owns
        · intro x hx
          rcases hcs3 x hx with hx | hx | hx
          · exact hcs1 x hx
          · exact Or.inl hx
          · exact Or.inr (Or.inr (Or.inl hx))
        · show (regNet e').Perm _
          rw [r3]; exact h.regNet
        · show (regTimers e').Perm _
          rw [r2]; exact h.regTm
        · show (regImm e').flatten.Perm _
          rw [r1]; exact h.regImm
      · intro _ hfree hsz
        show w.m.refusals < m3.refusals
        have h3 := hs3.r
        have h3' : m'.refusals ≤ m3.refusals := h3
        rcases hsp.2 with ⟨hx, _⟩ | ⟨_, hreg', _⟩ | ⟨_, _, hr⟩
        · exact absurd hx hres
        · exact absurd hreg' hfree
        · rcases hr with hr | hr
          · rw [hrf1] at hr; omega
          · omega

theorem networkReadCancel_eq {w w3 : World} {c : Nat} {r : NetReq} {e' : Ev} {m' : Mem} {p3 : MPool.MP}
    (hfind : w.reads.find? (·.cookie == c) = some r) (hnc : netCancel w.ev r.fd false w.m = (.ok, e', m'))
    (hpf : poolFree w.rdPool .rdStack c (setEv w e' m') = (p3, w3)) :
    networkReadCancel w c = some { w3 with rdPool := p3, reads := w3.reads.filter (·.cookie != c) } := by
  simp only [setEv] at hpf
  simp only [networkReadCancel, hfind, hnc, if_true, setEv, hpf]

/-- `network_read_cancel`: cannot fail, under every oracle; the cookie is parked (or, cache full, freed) -/
theorem networkReadCancel_spec (w : World) (a : NetReq) (h : Inv0 w) (ha : a ∈ w.reads) :
    ∃ w', networkReadCancel w a.cookie = some w' ∧ Inv0 w' ∧ Step w.m w'.m ∧
      w'.live = eraseId w.live a.cookie ∧
      tables w' = { tables w with reads := w.reads.filter (fun x => x.cookie != a.cookie) } ∧
      (w.ev.recPool.stacklen < w.ev.recPool.allocsize → w.rdPool.stacklen < w.rdPool.allocsize → w'.m.n = w.m.n) := by
  obtain ⟨r, hfind, hr, hrc⟩ := find_cookie ha rfl
  have hnd := tables_nodup h.owns.nodupE
  have hra : r = a := eq_of_nodup_map (·.cookie) hnd.1 hr ha hrc
  subst hra
  have hreg : (r.fd, false, r.cookie) ∈ regNet w.ev := by
    rw [h.regNet.mem_iff]
    simp only [tables, expNet, List.mem_append, List.mem_map]
    exact Or.inl (Or.inl (Or.inl ⟨r, hr, rfl⟩))
  obtain ⟨hok, hnet', hperm⟩ := EvRegNet.netCancel_ok w.ev r.fd r.cookie false w.m h.ev.net hreg
  have hev' := evOk_netCancel h.ev r.fd r.cookie false (m := w.m) hreg
  have hst := netCancel_step w.ev r.fd false w.m
  have hoth := netCancel_regs_other w.ev r.fd false w.m
  have hna := EvRegNet.netCancel_noalloc w.ev r.fd r.cookie false w.m h.ev.net hreg
  rcases hnc : netCancel w.ev r.fd false w.m with ⟨res, e', m'⟩
  rw [hnc] at hok hnet' hperm hev' hst hoth hna
  simp only at hok hnet' hperm hev' hst hoth hna
  subst hok
  -- the cookie's block is live
  obtain ⟨b, hb, hkb⟩ := List.mem_map.1 (h.owns.own1 (r.cookie, Site.rdCookie)
    (by simp only [tables, expLive, List.mem_append, List.mem_map]
        exact Or.inl (Or.inl (Or.inl (Or.inl (Or.inl (Or.inl ⟨r, hr, rfl⟩)))))))
  have hbid : b.id = r.cookie := congrArg Prod.fst hkb
  have hbsite : b.site = Site.rdCookie := congrArg Prod.snd hkb
  have hb1 : Blk (setEv w e' m') := h.blk.setEv e' m' hst.n
  rcases hpf : poolFree w.rdPool .rdStack r.cookie (setEv w e' m') with ⟨p3, w3⟩
  have hpf' := hpf
  rw [← hbid] at hpf'
  obtain ⟨m3, c3, rfl, hb3, hp3, hs3, hcs3, hag3, hfast⟩ :=
    poolFree_spec (site := .rdCookie) (by decide) hb1 h.rd hb hbsite hpf'
  refine ⟨_, networkReadCancel_eq hfind hnc hpf, ?_, hst.trans hs3, by rw [← hbid]; rfl, rfl, ?_⟩
  · refine inv0_mk (evOk_step hev' hs3.n) h.bad0 (hb3.congr rfl rfl rfl rfl) ?_ ?_ hp3
      (h.wr.frame hag3 (by decide) (by decide) (by decide) (by decide)) ?_ ?_ ?_
    · show Owns (eraseId w.live b.id) _
      rw [hbid]
      exact (h.owns.perm (expLive_filter_reads h.owns.nodupE hr)).erase (live_nodup h)
    · intro x hx
      rcases hcs3 x hx with hx | hx | hx
      · exact h.cacheSites x hx
      · exact Or.inl hx
      · exact Or.inr (Or.inr (Or.inl hx))
    · exact ((hperm.symm.trans h.regNet).trans (expNet_filter_reads h.owns.nodupE hr)).cons_inv
    · show (regTimers e').Perm _
      rw [hoth.2]; exact h.regTm
    · show (regImm e').flatten.Perm _
      rw [hoth.1]; exact h.regImm
  · intro hroom hroom2
    show m3.n = w.m.n
    rw [hfast hroom2]
    exact hna hroom

/-! ## `network_write` -/

theorem networkWrite_eq_none {w w1 : World} {fd : Nat} {p : MPool.MP}
    (hpm : poolMalloc w.wrPool .wrCookie wrCookieSize w = (none, p, w1)) :
    networkWrite w fd = (none, { w1 with wrPool := p }) := by
  simp only [networkWrite, hpm]

theorem networkWrite_eq_ok {w w1 : World} {fd c : Nat} {p : MPool.MP} {e' : Ev} {m' : Mem}
    (hpm : poolMalloc w.wrPool .wrCookie wrCookieSize w = (some c, p, w1))
    (hnr : netReg w1.ev c fd true w1.m = (.ok, e', m')) :
    networkWrite w fd = (some c, { setEv { w1 with wrPool := p } e' m' with writes := ⟨c, fd⟩ :: w1.writes }) := by
  simp only [networkWrite, hpm, hnr, setEv]

theorem networkWrite_eq_fail {w w1 w3 : World} {fd c : Nat} {p p3 : MPool.MP} {res : NetRes} {e' : Ev} {m' : Mem}
    (hpm : poolMalloc w.wrPool .wrCookie wrCookieSize w = (some c, p, w1))
    (hnr : netReg w1.ev c fd true w1.m = (res, e', m')) (hres : res ≠ .ok)
    (hpf : poolFree p .wrStack c (setEv { w1 with wrPool := p } e' m') = (p3, w3)) :
    networkWrite w fd = (none, { w3 with wrPool := p3 }) := by
  cases res <;> first | exact absurd rfl hres | simp only [networkWrite, hpm, hnr, setEv] <;> (simp only [setEv] at hpf; rw [hpf])

/-- `network_write` -/
theorem networkWrite_spec (w : World) (fd : Nat) (h : Inv0 w) :
    Inv0 (networkWrite w fd).2 ∧ Step w.m (networkWrite w fd).2.m ∧
    ((networkWrite w fd).1 = none → Same w (networkWrite w fd).2) ∧
    (∀ c, (networkWrite w fd).1 = some c →
        (∃ sz, (networkWrite w fd).2.live = ⟨c, .wrCookie, sz⟩ :: w.live) ∧
        tables (networkWrite w fd).2 = { tables w with writes := ⟨c, fd⟩ :: w.writes } ∧
        (networkWrite w fd).2.m.refusals = w.m.refusals) ∧
    ((networkWrite w fd).2.m.refusals ≠ w.m.refusals → (networkWrite w fd).1 = none) ∧
    ((networkWrite w fd).1 = none → ¬ netRegistered w.ev fd true → 24 * (fd + 1) ≤ EArray.SIZE_MAX →
        w.m.refusals < (networkWrite w fd).2.m.refusals) := by
  rcases hpm : poolMalloc w.wrPool .wrCookie wrCookieSize w with ⟨o, p, w1⟩
  obtain ⟨m1, l1, c1, rfl, hb1, hp1, hs1, hsub1, hag1, hnone, hsome⟩ :=
    poolMalloc_spec (stackSite := .wrStack) (by decide) h.blk h.wr hpm
  have hrd1 : PoolOk w.rdPool .rdCookie .rdStack c1 := h.rd.frame hag1 (by decide) (by decide) (by decide) (by decide)
  have hcs1 : ∀ b ∈ c1, b.site = .rdCookie ∨ b.site = .wrCookie ∨ b.site = .rdStack ∨ b.site = .wrStack :=
    fun b hb => h.cacheSites b (hsub1 b hb)
  cases o with
  | none =>
    obtain ⟨rfl, rfl, hrf⟩ := hnone rfl
    rw [networkWrite_eq_none hpm]
    refine ⟨?_, hs1, fun _ => ⟨rfl, rfl, rfl, rfl⟩, fun c hc => (by cases hc), fun _ => rfl, fun _ _ _ => hrf⟩
    exact inv0_mk (evOk_step h.ev hs1.n) h.bad0 (hb1.congr rfl rfl rfl rfl) h.owns h.cacheSites h.rd hp1
      h.regNet h.regTm h.regImm
  | some c =>
    obtain ⟨⟨sz, rfl⟩, hrf1⟩ := hsome c rfl
    have hev1 : EvOk w.ev m1 := evOk_step h.ev hs1.n
    have hsp := EvRegNet.netReg_spec w.ev c fd true m1 h.ev.net
    have hs2 := netReg_step w.ev c fd true m1
    have hev2 := evOk_netReg hev1 c fd true
    have hoth := netReg_regs_other w.ev c fd true m1
    have hrf := (EvRegNet.netReg_frame w.ev c fd true m1).2.2.2
    rcases hnr : netReg w.ev c fd true m1 with ⟨res, e', m'⟩
    rw [hnr] at hsp hs2 hev2 hoth hrf
    simp only at hsp hs2 hev2 hoth hrf
    have hst : Step w.m m' := hs1.trans hs2
    -- the cookie's id is new among the live blocks
    have hcnew : c ∉ w.live.map (·.id) := by
      have := hb1.live_nodup
      simp only [upd, List.map_cons, List.nodup_cons] at this
      exact this.1
    by_cases hres : res = .ok
    · subst hres
      rw [networkWrite_eq_ok hpm hnr]
      rcases hsp.2 with ⟨_, hfree, hmem⟩ | ⟨hx, _⟩ | ⟨hx, _⟩
      · have hperm : (regNet e').Perm ((fd, true, c) :: regNet w.ev) := by
          have := (EvRegNet.netReg_ok w.ev c fd true m1 h.ev.net (by rw [hnr])).2
          rw [hnr] at this; exact this
        have hrfeq : m'.refusals = w.m.refusals := by
          by_cases hq : m'.refusals = m1.refusals
          · rw [hq, hrf1]
          · have := hrf hq; cases this
        refine ⟨?_, hst, fun hc => (by cases hc), ?_, fun hne => absurd hrfeq hne, fun hc => (by cases hc)⟩
        · refine inv0_mk hev2 h.bad0 ((hb1.setEv e' m' hs2.n).congr rfl rfl rfl rfl) ?_ hcs1 hrd1 hp1 ?_ ?_ ?_
          · exact (Owns.cons h.owns ⟨c, .wrCookie, sz⟩ hcnew).perm (expLive_cons_writes (tables w) ⟨c, fd⟩).symm
          · exact (hperm.trans (h.regNet.cons _)).trans (expNet_cons_writes (tables w) ⟨c, fd⟩).symm
          · show (regTimers e').Perm _
            rw [hoth.2]; exact h.regTm
          · show (regImm e').flatten.Perm _
            rw [hoth.1]; exact h.regImm
        · intro c' hc
          simp only [Option.some.injEq] at hc
          subst hc
          exact ⟨⟨sz, rfl⟩, rfl, hrfeq⟩
      · cases hx
      · cases hx
    · have hreg : registry e' = registry w.ev := by
        rcases hsp.2 with ⟨hx, _⟩ | ⟨_, _, hr⟩ | ⟨_, hr, _⟩
        · exact absurd hx hres
        · exact hr
        · exact hr
      obtain ⟨r1, r2, r3⟩ := (registry_eq_iff _ _).1 hreg
      have hb2 : Blk (setEv { upd w m1 (⟨c, .wrCookie, sz⟩ :: w.live) c1 with wrPool := p } e' m') :=
        (hb1.setEv e' m' hs2.n).congr rfl rfl rfl rfl
      rcases hpf : poolFree p .wrStack c (setEv { upd w m1 (⟨c, .wrCookie, sz⟩ :: w.live) c1 with wrPool := p } e' m')
        with ⟨p3, w3⟩
      obtain ⟨m3, c3, rfl, hb3, hp3, hs3, hcs3, hag3, _⟩ :=
        poolFree_spec (site := .wrCookie) (b := ⟨c, .wrCookie, sz⟩) (by decide) hb2 hp1 List.mem_cons_self rfl hpf
      rw [networkWrite_eq_fail hpm hnr hres hpf]
      have hlive : eraseId (⟨c, .wrCookie, sz⟩ :: w.live) c = w.live := eraseId_head ⟨c, .wrCookie, sz⟩ w.live
      refine ⟨?_, hst.trans hs3, fun _ => ⟨hlive, rfl, hreg, rfl⟩, fun c hc => (by cases hc), fun _ => rfl, ?_⟩
      · refine inv0_mk (evOk_step hev2 hs3.n) h.bad0 (hb3.congr rfl rfl rfl rfl) ?_ ?_
          (hrd1.frame hag3 (by decide) (by decide) (by decide) (by decide)) hp3 ?_ ?_ ?_
        · show Owns (eraseId (⟨c, .wrCookie, sz⟩ :: w.live) c) _
          rw [hlive]; exact h.owns
        · intro x hx
          rcases hcs3 x hx with hx | hx | hx
          · exact hcs1 x hx
          · exact Or.inr (Or.inl hx)
          · exact Or.inr (Or.inr (Or.inr hx))
        · show (regNet e').Perm _
          rw [r3]; exact h.regNet
        · show (regTimers e').Perm _
          rw [r2]; exact h.regTm
        · show (regImm e').flatten.Perm _
          rw [r1]; exact h.regImm
      · intro _ hfree hsz
        show w.m.refusals < m3.refusals
        have h3 := hs3.r
        have h3' : m'.refusals ≤ m3.refusals := h3
        rcases hsp.2 with ⟨hx, _⟩ | ⟨_, hreg', _⟩ | ⟨_, _, hr⟩
        · exact absurd hx hres
        · exact absurd hreg' hfree
        · rcases hr with hr | hr
          · rw [hrf1] at hr; omega
          · omega

theorem networkWriteCancel_eq {w w3 : World} {c : Nat} {r : NetReq} {e' : Ev} {m' : Mem} {p3 : MPool.MP}
    (hfind : w.writes.find? (·.cookie == c) = some r) (hnc : netCancel w.ev r.fd true w.m = (.ok, e', m'))
    (hpf : poolFree w.wrPool .wrStack c (setEv w e' m') = (p3, w3)) :
    networkWriteCancel w c = some { w3 with wrPool := p3, writes := w3.writes.filter (·.cookie != c) } := by
  simp only [setEv] at hpf
  simp only [networkWriteCancel, hfind, hnc, if_true, setEv, hpf]

/-- `network_write_cancel`: cannot fail, under every oracle; the cookie is parked (or, cache full, freed) -/
theorem networkWriteCancel_spec (w : World) (a : NetReq) (h : Inv0 w) (ha : a ∈ w.writes) :
    ∃ w', networkWriteCancel w a.cookie = some w' ∧ Inv0 w' ∧ Step w.m w'.m ∧
      w'.live = eraseId w.live a.cookie ∧
      tables w' = { tables w with writes := w.writes.filter (fun x => x.cookie != a.cookie) } ∧
      (w.ev.recPool.stacklen < w.ev.recPool.allocsize → w.wrPool.stacklen < w.wrPool.allocsize → w'.m.n = w.m.n) := by
  obtain ⟨r, hfind, hr, hrc⟩ := find_cookie ha rfl
  have hnd := tables_nodup h.owns.nodupE
  have hra : r = a := eq_of_nodup_map (·.cookie) hnd.2.1 hr ha hrc
  subst hra
  have hreg : (r.fd, true, r.cookie) ∈ regNet w.ev := by
    rw [h.regNet.mem_iff]
    simp only [tables, expNet, List.mem_append, List.mem_map]
    exact Or.inl (Or.inl (Or.inr ⟨r, hr, rfl⟩))
  obtain ⟨hok, hnet', hperm⟩ := EvRegNet.netCancel_ok w.ev r.fd r.cookie true w.m h.ev.net hreg
  have hev' := evOk_netCancel h.ev r.fd r.cookie true (m := w.m) hreg
  have hst := netCancel_step w.ev r.fd true w.m
  have hoth := netCancel_regs_other w.ev r.fd true w.m
  have hna := EvRegNet.netCancel_noalloc w.ev r.fd r.cookie true w.m h.ev.net hreg
  rcases hnc : netCancel w.ev r.fd true w.m with ⟨res, e', m'⟩
  rw [hnc] at hok hnet' hperm hev' hst hoth hna
  simp only at hok hnet' hperm hev' hst hoth hna
  subst hok
  -- the cookie's block is live
  obtain ⟨b, hb, hkb⟩ := List.mem_map.1 (h.owns.own1 (r.cookie, Site.wrCookie)
    (by simp only [tables, expLive, List.mem_append, List.mem_map]
        exact Or.inl (Or.inl (Or.inl (Or.inl (Or.inl (Or.inr ⟨r, hr, rfl⟩)))))))
  have hbid : b.id = r.cookie := congrArg Prod.fst hkb
  have hbsite : b.site = Site.wrCookie := congrArg Prod.snd hkb
  have hb1 : Blk (setEv w e' m') := h.blk.setEv e' m' hst.n
  rcases hpf : poolFree w.wrPool .wrStack r.cookie (setEv w e' m') with ⟨p3, w3⟩
  have hpf' := hpf
  rw [← hbid] at hpf'
  obtain ⟨m3, c3, rfl, hb3, hp3, hs3, hcs3, hag3, hfast⟩ :=
    poolFree_spec (site := .wrCookie) (by decide) hb1 h.wr hb hbsite hpf'
  refine ⟨_, networkWriteCancel_eq hfind hnc hpf, ?_, hst.trans hs3, by rw [← hbid]; rfl, rfl, ?_⟩
  · refine inv0_mk (evOk_step hev' hs3.n) h.bad0 (hb3.congr rfl rfl rfl rfl) ?_ ?_
      (h.rd.frame hag3 (by decide) (by decide) (by decide) (by decide)) hp3 ?_ ?_ ?_
    · show Owns (eraseId w.live b.id) _
      rw [hbid]
      exact (h.owns.perm (expLive_filter_writes h.owns.nodupE hr)).erase (live_nodup h)
    · intro x hx
      rcases hcs3 x hx with hx | hx | hx
      · exact h.cacheSites x hx
      · exact Or.inr (Or.inl hx)
      · exact Or.inr (Or.inr (Or.inr hx))
    · exact ((hperm.symm.trans h.regNet).trans (expNet_filter_writes h.owns.nodupE hr)).cons_inv
    · show (regTimers e').Perm _
      rw [hoth.2]; exact h.regTm
    · show (regImm e').flatten.Perm _
      rw [hoth.1]; exact h.regImm
  · intro hroom hroom2
    show m3.n = w.m.n
    rw [hfast hroom2]
    exact hna hroom

/-! ## the pools' exit handlers -/

theorem foldl_dropCached : ∀ (stack : List Nat) (w : World), Blk w → stack.Nodup →
    (∀ x ∈ stack, ∃ b ∈ w.cache, b.id = x) →
    ∃ m1 c1, stack.foldl dropCached w = upd w m1 w.live c1 ∧ Blk (upd w m1 w.live c1) ∧ Step w.m m1 ∧ m1.n = w.m.n ∧
      (∀ b ∈ c1, b ∈ w.cache ∧ b.id ∉ stack) ∧ (∀ b ∈ w.cache, b.id ∉ stack → b ∈ c1)
  | [], w, hb, _, _ => ⟨w.m, w.cache, rfl, hb, Step.refl _, rfl, fun b hb => ⟨hb, by simp⟩, fun b hb _ => hb⟩
  | x :: rest, w, hb, hnd, hin => by
    rw [List.nodup_cons] at hnd
    obtain ⟨b0, hb0, hid0⟩ := hin x List.mem_cons_self
    have hcn := hb.cache_nodup
    have hf : findId w.cache x = some b0 := by rw [← hid0]; exact findId_eq hcn hb0
    have hdc : dropCached w x = upd w (w.m.free false) w.live (eraseId w.cache x) := by simp only [dropCached, hf, upd]
    have hfr := free_facts w.m false
    have hb' : Blk (upd w (w.m.free false) w.live (eraseId w.cache x)) := by
      refine hb.of_drop b0 ?_ ?_ ?_
      · show (b0 :: (w.live ++ eraseId w.cache x)).Perm (w.live ++ w.cache)
        exact List.perm_middle.symm.trans ((perm_eraseId hf).symm.append_left w.live)
      · show w.m.n ≤ (w.m.free false).n
        rw [hfr.2.2.2]; exact Nat.le_refl _
      · show (w.m.free false).live - w.evLive = _
        rw [hfr.2.1]; simp only [Bool.false_eq_true, if_false]; omega
    have hin' : ∀ y ∈ rest, ∃ b ∈ (upd w (w.m.free false) w.live (eraseId w.cache x)).cache, b.id = y := by
      intro y hy
      obtain ⟨b, hb1, hid⟩ := hin y (List.mem_cons_of_mem _ hy)
      exact ⟨b, mem_eraseId_of_ne hb1 (by rw [hid]; intro he; exact hnd.1 (he ▸ hy)), hid⟩
    obtain ⟨m1, c1, heq, hb1, hs1, hn1, hsub, hsup⟩ := foldl_dropCached rest _ hb' hnd.2 hin'
    refine ⟨m1, c1, ?_, hb1, (EvRegTimer.step_free w.m false).trans hs1, ?_, ?_, ?_⟩
    · rw [List.foldl_cons, hdc, heq]; rfl
    · rw [hn1]; exact hfr.2.2.2
    · intro b hbc
      obtain ⟨h1, h2⟩ := hsub b hbc
      refine ⟨mem_eraseId h1, ?_⟩
      rw [List.mem_cons, not_or]
      refine ⟨fun he => ?_, h2⟩
      have h1' : b ∈ eraseId w.cache x := h1
      rw [← he] at h1'
      exact not_mem_eraseId_of_nodup hcn h1'
    · intro b hbc hns
      rw [List.mem_cons, not_or] at hns
      exact hsup b (mem_eraseId_of_ne hbc hns.1) hns.2

/-- `mpool_atexit`: every block of the pool's two sites leaves the cache, nothing else happens -/
theorem poolAtexit_spec {p p' : MPool.MP} {site stackSite : Site} {w w' : World}
    (hss : site ≠ stackSite) (hb : Blk w) (hp : PoolOk p site stackSite w.cache)
    (h : poolAtexit p stackSite w = (p', w')) :
    ∃ m1 c1, w' = upd w m1 w.live c1 ∧ Blk w' ∧ Step w.m m1 ∧ m1.n = w.m.n ∧
      (∀ b ∈ c1, b ∈ w.cache ∧ b.site ≠ site ∧ b.site ≠ stackSite) ∧ CacheAgree site stackSite w.cache c1 ∧
      p' = { p with stack := [], stacklen := 0 } := by
  have hcn := hb.cache_nodup
  obtain ⟨m1, c1, heq, hb1, hs1, hn1, hsub, hsup⟩ := foldl_dropCached p.stack w hb hp.nodup
    (fun x hx => by obtain ⟨b, hb1, hid, _⟩ := hp.inCache x hx; exact ⟨b, hb1, hid⟩)
  -- after the objects: exactly the blocks of the other sites are left
  have hno : ∀ b ∈ c1, b.site ≠ site := fun b hbc hs => (hsub b hbc).2 (hp.fromCache b (hsub b hbc).1 hs)
  have hkeep : ∀ b ∈ w.cache, b.site ≠ site → b ∈ c1 := by
    intro b hbc hs
    refine hsup b hbc (fun hin => ?_)
    obtain ⟨b', hb', hid, hs'⟩ := hp.inCache _ hin
    have := eq_of_nodup_id hcn hb' hbc hid
    rw [this] at hs'
    exact hs hs'
  unfold poolAtexit at h
  simp only [heq, Prod.mk.injEq] at h
  obtain ⟨rfl, rfl⟩ := h
  cases hd : p.dyn with
  | false =>
    simp only [Bool.false_eq_true, ↓reduceIte]
    refine ⟨m1, c1, rfl, hb1, hs1, hn1, fun b hbc => ⟨(hsub b hbc).1, hno b hbc, hp.arr1 hd b (hsub b hbc).1⟩,
      fun b hs _ => ⟨fun hbc => (hsub b hbc).1, fun hbc => hkeep b hbc hs⟩, trivial⟩
  | true =>
    obtain ⟨b0, hb0, hs0⟩ := hp.arr hd
    have hb0' : b0 ∈ c1 := hkeep b0 hb0 (by rw [hs0]; exact fun he => hss he.symm)
    obtain ⟨b1, hf1⟩ := find_site_of_mem hb0' hs0
    have hf1' : List.find? (fun x => x.site == stackSite) (upd w m1 w.live c1).cache = some b1 := hf1
    obtain ⟨e1, e2, e3⟩ := eraseSite_facts (c := c1)
      (fun b hbc b' hbc' => hp.arrU b (hsub b hbc).1 b' (hsub b' hbc').1) hb1.cache_nodup hf1
    simp only [↓reduceIte, hf1']
    have hfr := free_facts m1 false
    refine ⟨m1.free false, eraseSite c1 stackSite, rfl, ?_, hs1.trans (EvRegTimer.step_free _ _), ?_, ?_, ?_, trivial⟩
    · refine hb1.of_drop b1 ?_ ?_ ?_
      · show (b1 :: (w.live ++ eraseSite c1 stackSite)).Perm (w.live ++ c1)
        exact List.perm_middle.symm.trans ((perm_eraseSite hf1).symm.append_left w.live)
      · show m1.n ≤ (m1.free false).n
        rw [hfr.2.2.2]; exact Nat.le_refl _
      · show (m1.free false).live - w.evLive = m1.live - w.evLive - 1
        rw [hfr.2.1]; simp only [Bool.false_eq_true, if_false]; omega
    · rw [hfr.2.2.2]; exact hn1
    · intro b hbc
      exact ⟨(hsub b (e3 b hbc)).1, hno b (e3 b hbc), e2 b hbc⟩
    · intro b hs hs'
      exact ⟨fun hbc => (hsub b (e3 b hbc)).1, fun hbc => (e1 b hs').2 (hkeep b hbc hs)⟩

theorem atexitPools_eq {w w1 w2 : World} {p1 p2 : MPool.MP} (h1 : poolAtexit w.rdPool .rdStack w = (p1, w1))
    (h2 : poolAtexit w1.wrPool .wrStack { w1 with rdPool := p1 } = (p2, w2)) :
    atexitPools w = { w2 with wrPool := p2 } := by
  simp only [atexitPools, h1, h2]

theorem poolOk_nil {p : MPool.MP} (s t : Site) (hs : p.stack = []) (hl : p.stacklen = 0) (hd : p.dyn = false) :
    PoolOk p s t [] :=
  ⟨by rw [hl, hs]; rfl, by rw [hs]; exact List.nodup_nil, by rw [hs]; simp, by simp, (by rw [hd]; intro h; cases h),
   by simp, by simp⟩

/-- the pools' state with the flag "the stack array was allocated" cleared -/
def forgetDyn (w : World) : World :=
  { w with rdPool := { w.rdPool with dyn := false }, wrPool := { w.wrPool with dyn := false } }

/-- The pools' exit handlers.

`atexitPools_spec` as requested (`Inv0 (atexitPools w) ∧ …`) is **false** when a pool's stack array was
allocated: `mpool_atexit` frees the array but leaves `M->allocs` pointing at it (`poolAtexit` keeps `dyn`, as the
C does), so `PoolOk.arr` (`dyn = true → the array's block is in the cache`) fails on the empty cache — see
`atexitPools_inv0_iff`.  What holds: everything in `Inv0` that is not about the flag (first conjunct), the cache is
empty, nothing else moved, both stacks are empty, and `Inv0` itself if neither pool had grown its stack. -/
theorem atexitPools_partial (w : World) (h : Inv0 w) :
    Inv0 (forgetDyn (atexitPools w)) ∧ (atexitPools w).cache = [] ∧ (atexitPools w).live = w.live ∧
    tables (atexitPools w) = tables w ∧ (atexitPools w).ev = w.ev ∧ (atexitPools w).m.n = w.m.n ∧
    (atexitPools w).bad = 0 ∧ (atexitPools w).evLive = w.evLive ∧ Step w.m (atexitPools w).m ∧
    (atexitPools w).rdPool = { w.rdPool with stack := [], stacklen := 0 } ∧
    (atexitPools w).wrPool = { w.wrPool with stack := [], stacklen := 0 } ∧
    (w.rdPool.dyn = false → w.wrPool.dyn = false → Inv0 (atexitPools w)) := by
  rcases h1 : poolAtexit w.rdPool .rdStack w with ⟨p1, w1⟩
  obtain ⟨m1, c1, rfl, hb1, hs1, hn1, hc1, hag1, rfl⟩ :=
    poolAtexit_spec (site := .rdCookie) (by decide) h.blk h.rd h1
  have hwr1 : PoolOk w.wrPool .wrCookie .wrStack c1 := h.wr.frame hag1 (by decide) (by decide) (by decide) (by decide)
  rcases h2 : poolAtexit w.wrPool .wrStack
    { upd w m1 w.live c1 with rdPool := { w.rdPool with stack := [], stacklen := 0 } } with ⟨p2, w2⟩
  have hbW : Blk { upd w m1 w.live c1 with rdPool := { w.rdPool with stack := [], stacklen := 0 } } :=
    hb1.congr rfl rfl rfl rfl
  obtain ⟨m2, c2, rfl, hb2, hs2, hn2, hc2, hag2, rfl⟩ :=
    poolAtexit_spec (site := .wrCookie) (by decide) hbW hwr1 h2
  have hnil : c2 = [] := by
    refine List.eq_nil_iff_forall_not_mem.2 (fun b hbc => ?_)
    obtain ⟨hb1', hw1, hw2⟩ := hc2 b hbc
    obtain ⟨hb0, hr1, hr2⟩ := hc1 b hb1'
    rcases h.cacheSites b hb0 with hx | hx | hx | hx
    · exact hr1 hx
    · exact hw1 hx
    · exact hr2 hx
    · exact hw2 hx
  subst hnil
  rw [atexitPools_eq h1 h2]
  have hst : Step w.m m2 := hs1.trans hs2
  have hev : EvOk w.ev m2 := evOk_step h.ev hst.n
  refine ⟨?_, rfl, rfl, rfl, rfl, by show m2.n = w.m.n; rw [hn2]; exact hn1, h.bad0, rfl, hst, rfl, rfl, fun hd1 hd2 => ?_⟩
  · exact inv0_mk hev h.bad0 (hb2.congr rfl rfl rfl rfl) h.owns (by intro b hb; cases hb)
      (poolOk_nil _ _ rfl rfl rfl) (poolOk_nil _ _ rfl rfl rfl) h.regNet h.regTm h.regImm
  · exact inv0_mk hev h.bad0 (hb2.congr rfl rfl rfl rfl) h.owns (by intro b hb; cases hb)
      (poolOk_nil _ _ rfl rfl hd1) (poolOk_nil _ _ rfl rfl hd2) h.regNet h.regTm h.regImm

/-- `Inv0` survives the pools' exit handlers exactly when neither pool had allocated a stack array -/
theorem atexitPools_inv0_iff (w : World) (h : Inv0 w) :
    Inv0 (atexitPools w) ↔ w.rdPool.dyn = false ∧ w.wrPool.dyn = false := by
  obtain ⟨_, hc, _, _, _, _, _, _, _, hrd, hwr, hall⟩ := atexitPools_partial w h
  refine ⟨fun hi => ⟨?_, ?_⟩, fun hd => hall hd.1 hd.2⟩
  · cases hd : w.rdPool.dyn with
    | false => rfl
    | true =>
      obtain ⟨b, hb, _⟩ := hi.rd.arr (by rw [hrd]; exact hd)
      rw [hc] at hb; cases hb
  · cases hd : w.wrPool.dyn with
    | false => rfl
    | true =>
      obtain ⟨b, hb, _⟩ := hi.wr.arr (by rw [hwr]; exact hd)
      rw [hc] at hb; cases hb

/- Status.  Proved exactly as requested: `networkRead_spec`, `networkReadCancel_spec`, `networkWrite_spec`,
   `networkWriteCancel_spec`.  Generic pool lemmas: `poolMalloc_spec`, `poolFree_spec`, `poolAtexit_spec`
   (with `Blk`, `upd`, `CacheAgree`, `PoolOk.frame` / `.push` / `.swapArr`).  `PoolOk` as defined was strong enough
   for all of these (`site ≠ stackSite` is needed and is a fact about the two concrete instances).
   NOT provable as requested: `atexitPools_spec` — its first conjunct `Inv0 (atexitPools w)` is false whenever a
   pool has `dyn = true` (`atexitPools_inv0_iff`); `atexitPools_partial` states what holds instead. -/

end Percival.Proofs.AllocFailUpper
